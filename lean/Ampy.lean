import Ampy.Model.Icao
import Ampy.Model.Wmo
import Ampy.Driver.Parse
import Ampy.Props.C17
import Ampy.Props.C18
