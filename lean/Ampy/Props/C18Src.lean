import Ampy.Props.C18
import Ampy.Props.Monitor
import Ampy.GenEq.Okta2code
import Ampy.GenEq.Height2code
import Ampy.GenEq.Perc2okta
/-!
# C18 — the same theorems, about the definitions regenerated from /repo's source

`Gen.okta2code`, `Gen.height2code`, `Gen.perc2okta` (`Ampy/Gen/Src*.lean`) are produced by `harness/py2lean.py` from the
current text of `src/ampycloud/wmo.py` on every run; `Ampy/GenEq/*.lean` proves each equal to the hand-written model on
every input (rationals and NaN; refusals up to the error text).  Binary64 rounding is outside both sides (DESIGN.md §3.1).
-/
namespace Ampy
open Ampy.Py

/-! ### ties -/

theorem C18_src_okta2code_is_model (n : Int) : GenEq.sameOutcome (Gen.okta2code n) (okta2code (.int n)) :=
  GenEq.okta2code_eq n

theorem C18_src_height2code_is_model (v : Option Rat) : Gen.height2code v = .ok (height2code v) :=
  GenEq.height2code_eq v

theorem C18_src_perc2okta_is_model (p : Rat) : GenEq.sameOutcome (Gen.perc2okta (some p)) (perc2okta p) :=
  GenEq.perc2okta_eq p

/-! ### consequences stated on the source -/

/-- The abbreviation table, computed by the translated source. -/
theorem C18_src_okta2code_table :
    Gen.okta2code 0 = .ok (some "NCD") ∧
    Gen.okta2code 1 = .ok (some "FEW") ∧ Gen.okta2code 2 = .ok (some "FEW") ∧
    Gen.okta2code 3 = .ok (some "SCT") ∧ Gen.okta2code 4 = .ok (some "SCT") ∧
    Gen.okta2code 5 = .ok (some "BKN") ∧ Gen.okta2code 6 = .ok (some "BKN") ∧
    Gen.okta2code 7 = .ok (some "BKN") ∧ Gen.okta2code 8 = .ok (some "OVC") ∧
    Gen.okta2code 9 = .ok none := by decide

/-- Every other integer is refused with an `AmpycloudError`. -/
theorem C18_src_okta2code_other (n : Int) (h : n < 0 ∨ 9 < n) : ∃ e, Gen.okta2code n = .error (.ampy e) := by
  obtain ⟨e, he⟩ := C18_okta2code_other n h
  have := C18_src_okta2code_is_model n
  rw [he] at this
  generalize Gen.okta2code n = r at this
  match r, this with
  | .error (.ampy e'), _ => exact ⟨e', rfl⟩

/-- A percentage outside `[0, 100]` and NaN are refused with an `AmpycloudError`. -/
theorem C18_src_range_refused (p : Rat) (h : p < 0 ∨ 100 < p) : ∃ e, Gen.perc2okta (some p) = .error (.ampy e) := by
  obtain ⟨e, he⟩ := C18_range_refused p h
  have := C18_src_perc2okta_is_model p
  rw [he] at this
  generalize Gen.perc2okta (some p) = r at this
  match r, this with
  | .error (.ampy e'), _ => exact ⟨e', rfl⟩

theorem C18_src_nan_refused : ∃ e, Gen.perc2okta none = .error (.ampy e) := GenEq.perc2okta_nan

/-- Inside the range the translated source returns exactly the model's okta … -/
theorem C18_src_perc2okta_ok (p : Rat) (k : Int) (hk : perc2okta p = .ok k) : Gen.perc2okta (some p) = .ok k := by
  have := C18_src_perc2okta_is_model p
  rw [hk] at this
  generalize Gen.perc2okta (some p) = r at this
  match r, this with
  | .ok k', h => exact congrArg _ h

/-- … hence everything the monitor's predicate (the property text: 0 iff no hit, 8 iff all, nearest okta clipped to
1..7 otherwise) demands holds of what the source computes for `n` hits out of `m`. -/
theorem C18_src_okta_rule (n m : Nat) (hm : 0 < m) (h : n ≤ m) :
    ∃ k, Gen.perc2okta (some ((n : Rat) / (m : Rat) * 100)) = .ok k ∧ Spec.c18okta n m k = true := by
  have hk := C18_nm_ok n m hm h
  exact ⟨_, C18_src_perc2okta_ok _ _ hk, C18_monitor_sound_okta n m hm h _ hk⟩

/-- Monotone in the hit count, on the source. -/
theorem C18_src_mono (n n' m : Nat) (hm : 0 < m) (hn : n ≤ n') (h : n' ≤ m) :
    ∃ k k', Gen.perc2okta (some ((n : Rat) / (m : Rat) * 100)) = .ok k ∧
      Gen.perc2okta (some ((n' : Rat) / (m : Rat) * 100)) = .ok k' ∧ k ≤ k' :=
  ⟨_, _, C18_src_perc2okta_ok _ _ (C18_nm_ok n m hm (Nat.le_trans hn h)),
    C18_src_perc2okta_ok _ _ (C18_nm_ok n' m hm h), C18_mono n n' m hm hn h⟩

/-- The coded height the source produces is the three-digit floor the property prescribes, on `[0, 10^5)` ft. -/
theorem C18_src_height_rule (h : Rat) (h0 : 0 ≤ h) (h1 : h < 100000) :
    ∃ s, Gen.height2code (some h) = .ok s ∧ Spec.c18height h s = true :=
  ⟨_, C18_src_height2code_is_model _, C18_monitor_sound_height h h0 h1⟩

theorem C18_src_h_nan : Gen.height2code none = .ok "" := C18_src_height2code_is_model none

/-- Non-vacuity: the regenerated definitions compute. -/
example : Gen.height2code (some 9999) = .ok "099" ∧ Gen.height2code (some 10999) = .ok "100" := by decide +kernel
example : Gen.perc2okta (some ((3 : Rat) / 16 * 100)) = .ok 2 ∧ Gen.perc2okta (some 100) = .ok 8 := by decide +kernel

end Ampy
