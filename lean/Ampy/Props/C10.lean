import Ampy.Lemmas.ScreenRows
/-!
# C10 — the outcome depends only on the four column values, not on index labels or layout

In the model a frame's columns are looked up by name and its cells are what they coerce to, so
column order is not representable and dtype variants differ only by the `exact` flag.  After the
repair of F1 (index reset at construction) the labels are never read: the theorems below are immediate
in the model; their content comes from the correspondence check, which runs the real code on
relabelled (shuffled, offset, float, string, repeated labels from `pd.concat`), column-permuted,
extra-column and dtype-variant frames and compares with the plain frame's model output.
-/
namespace Ampy

/-- Relabelling the index in any way (repeats included) changes nothing. -/
theorem C10_relabel_invariant {α} [DecidableEq α] (K : Kern) (P : PPrms α) (f : RawFrame α) (idx : List Int) :
    runFrom K P (.frame { f with index := idx }) = runFrom K P (.frame f) := by
  rw [runFrom_eq, runFrom_eq, screenRows_index]

/-- Superfluous columns change nothing (they only trigger warnings). -/
theorem C10_extra_columns {α} [DecidableEq α] (K : Kern) (P : PPrms α) (f : RawFrame α) (extra : List String) :
    runFrom K P (.frame { f with extra := extra }) = runFrom K P (.frame f) := by
  rw [runFrom_eq, runFrom_eq, screenRows_extra]

/-- Equal values in another coercible dtype change nothing (only the dtype warning differs). -/
theorem C10_dtype_variants {α} [DecidableEq α] (K : Kern) (P : PPrms α) (f : RawFrame α)
    (c : Col α) (d : Col Rat) (h : Col (Option Rat)) (t : Col Int) (e1 e2 e3 e4 : Bool)
    (hc : f.ceilo = some c) (hd : f.dt = some d) (hh : f.height = some h) (ht : f.type = some t) :
    runFrom K P (.frame { f with ceilo := some { c with exact := e1 }, dt := some { d with exact := e2 },
                                 height := some { h with exact := e3 }, type := some { t with exact := e4 } })
      = runFrom K P (.frame f) := by
  rw [runFrom_eq, runFrom_eq, screenRows_exact f c d h t e1 e2 e3 e4 hc hd hh ht]

end Ampy
