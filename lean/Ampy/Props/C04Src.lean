import Ampy.Props.C04
import Ampy.GenEq.CalcBaseHeight
/-!
# C04 — base-height theorems about the definition regenerated from /repo's source

`Gen.calc_base_height` (`Ampy/Gen/SrcCalcBaseHeight.lean`) is produced by `harness/py2lean.py` from the current text of
`utils.calc_base_height` on every run (`np.percentile` is a parameter); `GenEq.calc_base_height_eq` proves it equal to
the model's `calcBase` for every input with a look-back percentage `≥ 0`.
-/
namespace Ampy
open Ampy.Py

theorem C04_src_is_model (pctl : List Rat → Rat → Rat) (vals : List Rat) (lb q : Rat) (h : 0 ≤ lb) :
    GenEq.sameOutcome (Gen.calc_base_height pctl vals lb q) (calcBase pctl vals lb q) :=
  GenEq.calc_base_height_eq pctl vals lb q h

/-- On the source: the base height of a non-empty set exists (the empty-selection refusal is unreachable) and lies
between the lowest and the highest member, for any percentile routine with the between-property, any look-back
`≥ 0` (in particular a look-back so small that `int(len*lb/100) = 0`: Python's `vals[-0:]` is the whole array). -/
theorem C04_src_base_between (pctl : List Rat → Rat → Rat) (vals : List Rat) (lb q : Rat) (hne : vals ≠ [])
    (hlb : 0 ≤ lb) (hp : ∀ l, l ≠ [] → minRat l ≤ pctl l q ∧ pctl l q ≤ maxRat l) :
    ∃ b, Gen.calc_base_height pctl vals lb q = .ok b ∧ minRat vals ≤ b ∧ b ≤ maxRat vals := by
  obtain ⟨b, hb, h1, h2⟩ := C04_base_between pctl vals lb q hne hp
  have := C04_src_is_model pctl vals lb q hlb
  rw [hb] at this
  generalize Gen.calc_base_height pctl vals lb q = r at this
  match r, this with
  | .ok b', e => exact ⟨b', rfl, by rw [e]; exact h1, by rw [e]; exact h2⟩

/-- With numpy's own linear-interpolation percentile (exact rationals). -/
theorem C04_src_base_between_exact (vals : List Rat) (lb q : Rat) (hne : vals ≠ []) (hlb : 0 ≤ lb)
    (h0 : 0 ≤ q) (h1 : q ≤ 100) :
    ∃ b, Gen.calc_base_height percentile vals lb q = .ok b ∧ minRat vals ≤ b ∧ b ≤ maxRat vals :=
  C04_src_base_between percentile vals lb q hne hlb (fun l hl => percentile_between l hl q h0 h1)

/-- Non-vacuity: the regenerated definition computes (look-back 50 % of five values keeps the last two; a look-back
of 10 % gives `int(0.5) = 0`, i.e. Python's `vals[-0:]`: everything; an empty array is refused). -/
example : Gen.calc_base_height (fun l _ => l.headD 0) [500, 100, 200, 300, 400] 50 50 = .ok 300 := by decide +kernel
example : Gen.calc_base_height (fun l _ => l.headD 0) [500, 100, 200, 300, 400] 10 50 = .ok 500 := by decide +kernel
example : Gen.calc_base_height (fun l _ => l.headD 0) [] 50 50 = .error (.ampy "") := by decide +kernel

end Ampy
