import Ampy.Model.Multi
/-!
# C09 — results are reproducible and the global random state is left alone  (level: other; partial)

What a theorem can carry here is the *effect discipline*: in the model, processing is a function of
(frame values, parameters, third-party answers) — it has no random-state argument at all — and the only
code that touches the global NumPy state does so under `tmp_seed`, modelled below as
save / seed / body / restore-in-`finally` for an arbitrary body that may raise.  Bit-for-bit
reproducibility of the third-party kernels themselves across processes, hash seeds and prior states (that
is where dropping `random_state=` or iterating a `set` would show) cannot be exhibited by any model of
ampycloud: it is sampled by the harness and labelled as such.
-/
namespace Ampy

/-- `utils.tmp_seed(seed)` around a body: `state = get_state(); seed(seed); try: body finally: set_state(state)`.
`G` is the global random state, the body maps the state it finds to the state it leaves and either a
value or an exception. -/
def tmpSeed {G ε β : Type} (seedState : G) (body : G → G × Except ε β) (g : G) : G × Except ε β :=
  let saved := g                      -- np.random.get_state()
  let (_, r) := body seedState        -- np.random.seed(seed); body runs on the seeded state
  (saved, r)                          -- finally: np.random.set_state(saved), raised or not

/-- Whatever the body does — including raising — the global state afterwards is the one before. -/
theorem C09_tmpseed_restores {G ε β : Type} (seedState : G) (body : G → G × Except ε β) (g : G) :
    (tmpSeed seedState body g).1 = g := rfl

/-- The body runs on the seeded state: its outcome does not depend on the prior global state. -/
theorem C09_tmpseed_independent {G ε β : Type} (seedState : G) (body : G → G × Except ε β) (g g' : G) :
    (tmpSeed seedState body g).2 = (tmpSeed seedState body g').2 := rfl

/-- The API operations that matter for the global state. -/
inductive GOp (G : Type) where
  | process                                   -- CeiloChunk(...), find_*, metarize, metar_msg, run, metar
  | demoData                                  -- mocker.canonical_demo_data(): mock_layers under tmp_seed(42)
  | withTmpSeed (seedState : G) (body : G → G × Except String Unit)
  | userDraw (f : G → G)                      -- the caller's own use of numpy.random between calls

/-- Effect of an operation on the global state (`seed42`, `mock`: the seeded state and the drawing done
by `mock_layers`). -/
def gstep {G : Type} (seed42 : G) (mock : G → G × Except String Unit) (g : G) : GOp G → G
  | .process => g
  | .demoData => (tmpSeed seed42 mock g).1
  | .withTmpSeed s body => (tmpSeed s body g).1
  | .userDraw f => f g

/-- Along any history, ampycloud's own operations never change the global state: the final state is what
the caller's own draws alone produce. -/
theorem C09_global_state_untouched {G : Type} (seed42 : G) (mock : G → G × Except String Unit) (ops : List (GOp G)) (g : G) :
    ops.foldl (gstep seed42 mock) g =
      (ops.filterMap fun | .userDraw f => some f | _ => none).foldl (fun g f => f g) g := by
  induction ops generalizing g with
  | nil => rfl
  | cons op rest ih =>
    cases op with
    | process => simpa [gstep] using ih g
    | demoData => simpa [gstep, tmpSeed] using ih g
    | withTmpSeed s body => simpa [gstep, tmpSeed] using ih g
    | userDraw f => simpa [gstep] using ih (f g)

/-- Processing the same data with the same parameters gives the same chunk whatever was processed
before: in the model `run` is a function; the correspondence check (C05-C08) is what gives this content,
by showing the implementation equals that function on every scene. -/
theorem C09_function {α} [DecidableEq α] (K : Kern) (P : PPrms α) (d₁ d₂ : List (Hit α)) (h : d₁ = d₂) :
    run K P d₁ = run K P d₂ := by rw [h]

/-- … and independent of what other chunks did in between (C13's projection theorem). -/
theorem C09_history_independent {α} [DecidableEq α] (K : Kern) (Ps : Nat → PPrms α) (sched : List (Nat × Op))
    (cs : List (Chunk α)) (i : Nat) (c : Chunk α) (hc : cs[i]? = some c) :
    (runSched K Ps cs sched).1[i]? = some (runOps K (Ps i) c (opsOf i sched)).1 := by
  induction sched generalizing cs c with
  | nil => simpa [runSched, opsOf, runOps] using hc
  | cons hd rest ih =>
    obtain ⟨j, op⟩ := hd
    simp only [runSched]
    unfold stepAt
    by_cases hji : j = i
    · subst hji
      obtain ⟨hi, hci⟩ := List.getElem?_eq_some_iff.mp hc
      simp only [hc]
      have hs : (cs.set j (step K (Ps j) c op).1)[j]? = some (step K (Ps j) c op).1 := by simp [hi]
      rw [ih _ _ hs]
      simp [opsOf, runOps]
    · cases hcj : cs[j]? with
      | none => simp only []; rw [ih cs c hc]; simp [opsOf, hji]
      | some cj =>
        simp only []
        have hs : (cs.set j (step K (Ps j) cj op).1)[i]? = some c := by
          rw [List.getElem?_set_ne hji]; exact hc
        rw [ih _ _ hs]; simp [opsOf, hji]

end Ampy
