import Ampy.Lemmas.Count
import Ampy.Lemmas.EndToEnd
/-!
# C03 — sky coverage: hit counts, percentages and oktas are exactly what the hits imply

`mkRow` is the model of one pass of `_calculate_cloud_amount` + the rest of `metarize` for one
slice/group/layer; theorems hold for every hit list, id column, parameter set and third-party answer.
-/
namespace Ampy

/-- The reported hit count is the number of distinct (ceilometer, time) measurements of the members. -/
theorem C03_nhits_distinct {α} [DecidableEq α] (data : List (Hit α)) (ids : List Int) (cid : Int) :
    hitCount (ceilos data) (members data ids cid) =
      (((members data ids cid).map fun h => (h.ceilo, h.dt)).eraseDups).length :=
  hitCount_eq_distinct_pairs _ _ (ceilos_nodup data)
    (fun h hm => mem_ceilos data h ((members_sublist data ids cid).subset hm))

/-- The denominator is the number of distinct (ceilometer, time) measurements in the chunk. -/
theorem C03_M_distinct {α} [DecidableEq α] (data : List (Hit α)) :
    maxHits data = ((data.map fun h => (h.ceilo, h.dt)).eraseDups).length :=
  hitCount_eq_distinct_pairs _ _ (ceilos_nodup data) (fun h hm => mem_ceilos data h hm)

/-- A set never counts more measurements than the chunk holds (so `perc2okta`'s range check is
unreachable from `metarize`). -/
theorem C03_nhits_le_M {α} [DecidableEq α] (data : List (Hit α)) (ids : List Int) (cid : Int) :
    hitCount (ceilos data) (members data ids cid) ≤ maxHits data :=
  hitCount_le_of_sublist _ _ _ (members_sublist data ids cid)

/-- What `mkRow` writes in `n_hits`, `perc`: the count and `100·count/M`. -/
theorem C03_row_counts {α} [DecidableEq α] (K : MetK) (P : Prms α) (w : Which) (data : List (Hit α))
    (ids : List Int) (cid : Int) (r : Row) (h : mkRow K P w data ids cid = .ok r) :
    r.nHits = hitCount (ceilos data) (members data ids cid) ∧
    r.perc = (r.nHits : Rat) / (maxHits data : Rat) * 100 ∧
    oktaOf r.nHits (maxHits data) P.t0 P.t8 = .ok r.okta := by
  unfold mkRow at h
  simp only [bind, Except.bind, pure, Except.pure] at h
  split at h
  · cases h
  · rename_i okta hok
    split at h
    · cases h
    · split at h
      · cases h
      · cases h; exact ⟨rfl, rfl, hok⟩

/-- Okta: 0 up to MAX_HITS_OKTA0 hits, else 8 when at most MAX_HOLES_OKTA8 measurements are missing,
else the WMO binning of the percentage. -/
theorem C03_okta_def (n M : Nat) (t0 t8 : Rat) (hM : 0 < M) (h : n ≤ M) :
    oktaOf n M t0 t8 = .ok (if (n : Rat) ≤ t0 then 0
      else if (((M : Int) - (n : Int) : Int) : Rat) ≤ t8 then 8
      else oktaOfPerc ((n : Rat) / (M : Rat) * 100)) :=
  oktaOf_eq n M t0 t8 hM h

/-- The okta never decreases with the count. -/
theorem C03_okta_mono (n n' M : Nat) (t0 t8 : Rat) (hM : 0 < M) (hn : n ≤ n') (h : n' ≤ M)
    (a b : Int) (ha : oktaOf n M t0 t8 = .ok a) (hb : oktaOf n' M t0 t8 = .ok b) : a ≤ b :=
  oktaOf_mono n n' M t0 t8 hM hn h a b ha hb

theorem C03_okta_range (n M : Nat) (t0 t8 : Rat) (hM : 0 < M) (h : n ≤ M) (a : Int)
    (ha : oktaOf n M t0 t8 = .ok a) : 0 ≤ a ∧ a ≤ 8 :=
  oktaOf_range n M t0 t8 hM h a ha

/-- The code prefix is the WMO abbreviation of the okta. -/
theorem C03_code_prefix (okta : Int) (base : Rat) (code : String) (h : mkCode okta base = .ok code) :
    ∃ p, okta2code (.int okta) = .ok (some p) ∧ code = p ++ height2code (some base) :=
  mkCode_eq okta base code h

/-- End to end: in every table of every chunk `run` returns, every row's hit count is the number of distinct
(ceilometer, time) measurements among the hits carrying that id, its percentage is `100·count/M` with `M` the
number of distinct measurements of the (cropped) chunk, its okta is the buffer/binning rule applied to
`(count, M)`, lies in `0..8`, and its code starts with the WMO abbreviation of that okta. -/
theorem C03_run_rows {α} [DecidableEq α] (K : Kern) (P : PPrms α) (checked : List (Hit α))
    (hA : Accepted K P checked) (c : Chunk α) (h : run K P checked = .ok c) (w : Which) :
    ∃ t ids, tableOf c w = some t ∧ idsOf c w = some ids ∧ ∀ r ∈ t,
      r.nHits = (((members c.data ids r.cid).map fun h => (h.ceilo, h.dt)).eraseDups).length ∧
      maxHits c.data = ((c.data.map fun h => (h.ceilo, h.dt)).eraseDups).length ∧
      r.nHits ≤ maxHits c.data ∧
      r.perc = (r.nHits : Rat) / (maxHits c.data : Rat) * 100 ∧
      oktaOf r.nHits (maxHits c.data) P.t0 P.t8 = .ok r.okta ∧ 0 ≤ r.okta ∧ r.okta ≤ 8 ∧
      ∃ p, okta2code (.int r.okta) = .ok (some p) ∧ r.code = p ++ height2code (some r.base) := by
  obtain ⟨t, ids, ht, hi, _, hrows⟩ := run_rows K P checked hA c h w
  obtain ⟨t', _, ht', _, _, hok, _, _⟩ := run_tableOK K P checked hA c h w
  rw [ht] at ht'; cases ht'
  refine ⟨t, ids, ht, hi, ?_⟩
  intro r hr
  obtain ⟨_, r₀, hm, he⟩ := hrows r hr
  obtain ⟨h1, h2, h3⟩ := C03_row_counts K.toMetK P.toPrms w c.data ids r.cid r₀ hm
  have en : r.nHits = r₀.nHits := by rw [he]
  have ep : r.perc = r₀.perc := by rw [he]
  have eo : r.okta = r₀.okta := by rw [he]
  rw [en, ep, eo]
  refine ⟨?_, C03_M_distinct c.data, ?_, h2, h3, ?_, ?_, ?_⟩
  · rw [h1]; exact C03_nhits_distinct c.data ids r.cid
  · rw [h1]; exact C03_nhits_le_M c.data ids r.cid
  · rw [← eo]; exact (hok.oktas r hr).1
  · rw [← eo]; exact (hok.oktas r hr).2
  · rw [← eo]; exact C03_code_prefix r.okta r.base r.code (hok.codes r hr)

end Ampy
