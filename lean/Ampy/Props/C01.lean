import Ampy.Lemmas.Msg
import Ampy.Lemmas.Pipeline
import Ampy.Lemmas.EndToEnd
/-!
# C01 — the METAR-like message is well-formed and obeys the ICAO layer selection

Theorems about `metarMsg` (model of `CeiloChunk.metar_msg`) for every table satisfying `TableOK`
(which `Lemmas/Pipeline.metarize_tableOK` establishes for every table `metarize` builds, whatever
the hits, parameters and third-party answers), every MSA, every high-cloud flag.
`n = t.length` is `n_slices/n_groups/n_layers` (C05 shows it equals the table length).
-/
namespace Ampy

/-- The message is `NCD`, `NSC`, or one to three space-separated well-formed groups. -/
theorem C01_grammar (msa : Option Rat) (flag : Bool) (t : Table) (h : TableOK t) :
    metarMsg msa flag t.length t = "NCD" ∨ metarMsg msa flag t.length t = "NSC" ∨
    ∃ gs : List String, 1 ≤ gs.length ∧ gs.length ≤ 3 ∧ (∀ g ∈ gs, IsGroup g) ∧
      metarMsg msa flag t.length t = " ".intercalate gs :=
  msg_grammar msa flag t h

/-- When something is reportable, the message is exactly the codes of the reported rows, in
table order, and there are at most three of them. -/
theorem C01_groups_are_rep (msa : Option Rat) (flag : Bool) (t : Table) (h : TableOK t)
    (hr : reported msa t ≠ []) :
    metarMsg msa flag t.length t = " ".intercalate ((reported msa t).map (·.code)) ∧
    (reported msa t).length ≤ 3 :=
  msg_groups_are_rep msa flag t h hr

/-- Groups appear in non-decreasing base order, hence in non-decreasing coded height. -/
theorem C01_order (msa : Option Rat) (t : Table) (h : TableOK t) :
    (reported msa t).Pairwise (fun a b => a.base ≤ b.base ∧ heightHundreds a.base ≤ heightHundreds b.base) :=
  rep_order msa t h

/-- 1-3-5: the `i`-th reported row (0-based) has at least `2i+1` oktas; in particular the second
group is SCT or more and the third BKN or more. -/
theorem C01_135 (msa : Option Rat) (t : Table) (h : TableOK t) (i : Nat) (hi : i < (reported msa t).length) :
    ((reported msa t)[i]).okta ≥ 2 * (i : Int) + 1 :=
  rep_135 msa t h i hi

/-- No group stands for a zero-okta layer. -/
theorem C01_no_zero (msa : Option Rat) (t : Table) (h : TableOK t) :
    ∀ r ∈ reported msa t, r.okta ≥ 1 :=
  rep_no_zero msa t h

/-- No group stands for a layer whose base is at or above the MSA. -/
theorem C01_below_msa (m : Rat) (t : Table) : ∀ r ∈ reported (some m) t, r.base < m :=
  rep_below_msa m t

/-- The code prefix of a reported row is the WMO abbreviation of its okta (never `NCD`). -/
theorem C01_prefix (msa : Option Rat) (t : Table) (h : TableOK t) :
    ∀ r ∈ reported msa t, ∃ p, okta2code (.int r.okta) = .ok (some p) ∧ p ∈ ["FEW", "SCT", "BKN", "OVC"] ∧
      r.code = p ++ height2code (some r.base) :=
  rep_prefix msa t h

/-- End to end: for every hit table in the physical range, every id column meeting the id
invariants (C05 shows the pipeline's columns do), every parameter set with `0 ≤ MAX_HITS_OKTA0`
and every third-party answer of the right shape, the table `metarize` builds satisfies `TableOK`
and `n_slices/n_groups/n_layers` equals its length — so all theorems above apply to
`metar_msg(which)` as computed by the pipeline. -/
theorem C01_pipeline {α} [DecidableEq α] (K : MetK) (P : Prms α) (w : Which) (layersDone : Bool)
    (data : List (Hit α)) (ids : List Int) (hK : MetKOK K P.basePerc) (h : IdsOK data ids)
    (hr : HeightsInRange data) (ht0 : 0 ≤ P.t0) (t : Table)
    (ht : metarize K P w layersDone data ids = .ok t) :
    TableOK t ∧ nWhich ids = t.length := by
  refine ⟨metarize_tableOK K P w layersDone data ids hK h hr ht0 t ht, ?_⟩
  rw [nWhich_eq ids h.ge, ← (metarize_cids K P w layersDone data ids hK t ht).length_eq, List.length_map]

/-- The message of the pipeline is well-formed (grammar clause, end to end). -/
theorem C01_pipeline_grammar {α} [DecidableEq α] (K : MetK) (P : Prms α) (w : Which) (layersDone flag : Bool)
    (data : List (Hit α)) (ids : List Int) (hK : MetKOK K P.basePerc) (h : IdsOK data ids)
    (hr : HeightsInRange data) (ht0 : 0 ≤ P.t0) (t : Table)
    (ht : metarize K P w layersDone data ids = .ok t) :
    let msg := metarMsg P.msa flag (nWhich ids) t
    msg = "NCD" ∨ msg = "NSC" ∨
    ∃ gs : List String, 1 ≤ gs.length ∧ gs.length ≤ 3 ∧ (∀ g ∈ gs, IsGroup g) ∧ msg = " ".intercalate gs := by
  obtain ⟨hok, hn⟩ := C01_pipeline K P w layersDone data ids hK h hr ht0 t ht
  simp only [hn]
  exact C01_grammar P.msa flag t hok

/-! ### The same clauses, stated directly about what `ampycloud.run` returns

`Accepted` is the property's quantifier: hit heights in `[0, 100000)` ft, parameters inside their documented
meaning, third-party answers of the documented shape. No hypothesis about tables or id columns is left. -/

/-- Grammar, end to end: for every accepted input and every level, `metar_msg(which)` of the chunk `run`
returns is `NCD`, `NSC`, or one to three well-formed groups. -/
theorem C01_run_grammar {α} [DecidableEq α] (K : Kern) (P : PPrms α) (checked : List (Hit α))
    (hA : Accepted K P checked) (c : Chunk α) (h : run K P checked = .ok c) (w : Which) :
    ∃ msg, metarMsgOp P c w = .ok msg ∧
      (msg = "NCD" ∨ msg = "NSC" ∨
       ∃ gs : List String, 1 ≤ gs.length ∧ gs.length ≤ 3 ∧ (∀ g ∈ gs, IsGroup g) ∧ msg = " ".intercalate gs) := by
  obtain ⟨t, _, hok, hm⟩ := run_msg K P checked hA c h w
  exact ⟨_, hm, C01_grammar P.msa c.flag t hok⟩

/-- Selection, end to end: when a group is reported at all, the message is exactly the codes of the reported
rows of the chunk's table, at most three, in non-decreasing (coded) height, the `i`-th of at least `2i+1`
oktas, none of zero okta, none at or above the MSA. -/
theorem C01_run_selection {α} [DecidableEq α] (K : Kern) (P : PPrms α) (checked : List (Hit α))
    (hA : Accepted K P checked) (c : Chunk α) (h : run K P checked = .ok c) (w : Which) :
    ∃ t, tableOf c w = some t ∧
      (reported P.msa t ≠ [] →
        metarMsgOp P c w = .ok (" ".intercalate ((reported P.msa t).map (·.code))) ∧ (reported P.msa t).length ≤ 3) ∧
      (reported P.msa t).Pairwise (fun a b => a.base ≤ b.base ∧ heightHundreds a.base ≤ heightHundreds b.base) ∧
      (∀ i (hi : i < (reported P.msa t).length), ((reported P.msa t)[i]).okta ≥ 2 * (i : Int) + 1) ∧
      (∀ r ∈ reported P.msa t, r.okta ≥ 1) ∧
      (∀ m, P.msa = some m → ∀ r ∈ reported P.msa t, r.base < m) := by
  obtain ⟨t, ht, hok, hm⟩ := run_msg K P checked hA c h w
  refine ⟨t, ht, ?_, C01_order P.msa t hok, C01_135 P.msa t hok, C01_no_zero P.msa t hok, ?_⟩
  · intro hr
    obtain ⟨e, hl⟩ := C01_groups_are_rep P.msa c.flag t hok hr
    exact ⟨by rw [hm, e], hl⟩
  · intro m hmsa
    rw [hmsa]
    exact C01_below_msa m t

end Ampy
