import Ampy.Props.C20
import Ampy.Props.C03
import Ampy.Gen.SrcOkta2symb
import Ampy.Props.C18Src
/-!
# C20 — the okta symbol lookup of the plots, about the definition regenerated from /repo's source

`plots/diagnostics.py` labels every slice, group and layer with `wmo.okta2symb(okta, use_metsymb=…)`; the call
raises `AmpycloudError` for an okta it does not know, which would make the plot partial.
`Gen.okta2symb` (`Ampy/Gen/SrcOkta2symb.lean`) is produced by `harness/py2lean.py` from the current text of
`src/ampycloud/wmo.py` on every run.  The statements below are about that text: the lookup is total on every okta a
table can hold (0..8 by `C03_okta_range`, and the 9 of a sky-obscured report), in both styles.
-/
namespace Ampy

/-- Plain style: the decimal digits of the okta, for every integer. -/
theorem C20_src_symb_plain (v : Int) : Gen.okta2symb v false = .ok (toString v) := by
  simp [Gen.okta2symb, Py.pyStrInt]

/-- Both styles are total on 0..9. -/
theorem C20_src_symb_total (v : Int) (b : Bool) (h0 : 0 ≤ v) (h9 : v ≤ 9) : ∃ s, Gen.okta2symb v b = .ok s := by
  cases b
  · exact ⟨_, C20_src_symb_plain v⟩
  · have : v = 0 ∨ v = 1 ∨ v = 2 ∨ v = 3 ∨ v = 4 ∨ v = 5 ∨ v = 6 ∨ v = 7 ∨ v = 8 ∨ v = 9 := by omega
    rcases this with h | h | h | h | h | h | h | h | h | h <;> subst h <;> exact ⟨_, rfl⟩

/-- Every okta the tables can hold (`oktaOf` is the model of the okta column, C03) has a symbol in both styles:
the three label loops of the plot never reach `okta2symb`'s refusal. -/
theorem C20_src_symb_of_table_okta (n M : Nat) (t0 t8 : Rat) (hM : 0 < M) (h : n ≤ M) (a : Int)
    (ha : oktaOf n M t0 t8 = .ok a) (b : Bool) : ∃ s, Gen.okta2symb a b = .ok s := by
  obtain ⟨h0, h8⟩ := C03_okta_range n M t0 t8 hM h a ha
  exact C20_src_symb_total a b h0 (by omega)

/-- The metsymb commands of distinct oktas are distinct (a label identifies its okta). -/
theorem C20_src_symb_injective (v w : Int) (hv0 : 0 ≤ v) (hv9 : v ≤ 9) (hw0 : 0 ≤ w) (hw9 : w ≤ 9)
    (h : Gen.okta2symb v true = Gen.okta2symb w true) : v = w := by
  have hv : v = 0 ∨ v = 1 ∨ v = 2 ∨ v = 3 ∨ v = 4 ∨ v = 5 ∨ v = 6 ∨ v = 7 ∨ v = 8 ∨ v = 9 := by omega
  have hw : w = 0 ∨ w = 1 ∨ w = 2 ∨ w = 3 ∨ w = 4 ∨ w = 5 ∨ w = 6 ∨ w = 7 ∨ w = 8 ∨ w = 9 := by omega
  rcases hv with h1 | h1 | h1 | h1 | h1 | h1 | h1 | h1 | h1 | h1 <;>
  rcases hw with h2 | h2 | h2 | h2 | h2 | h2 | h2 | h2 | h2 | h2 <;> subst h1 <;> subst h2 <;>
  first | rfl | (exfalso; revert h; decide)

/-- Outside 0..9 the metsymb style refuses with the package's own error class (never another exception). -/
theorem C20_src_symb_refusal (v : Int) (h : v < 0 ∨ 9 < v) : ∃ m, Gen.okta2symb v true = .error (.ampy m) := by
  refine ⟨"", ?_⟩
  have h0 : v ≠ 0 := by omega
  have h1 : v ≠ 1 := by omega
  have h2 : v ≠ 2 := by omega
  have h3 : v ≠ 3 := by omega
  have h4 : v ≠ 4 := by omega
  have h5 : v ≠ 5 := by omega
  have h6 : v ≠ 6 := by omega
  have h7 : v ≠ 7 := by omega
  have h8 : v ≠ 8 := by omega
  have h9 : v ≠ 9 := by omega
  simp [Gen.okta2symb, h0, h1, h2, h3, h4, h5, h6, h7, h8, h9]

/-- What the monitor's okta predicate allows lies in 0..8. -/
theorem c18okta_range (n m : Nat) (k : Int) (h : Spec.c18okta n m k = true) : 0 ≤ k ∧ k ≤ 8 := by
  unfold Spec.c18okta at h
  split at h
  · have : k = 0 := by simpa using h
    omega
  · split at h
    · have : k = 8 := by simpa using h
      omega
    · simp only [Bool.and_eq_true, decide_eq_true_eq] at h
      omega

/-- Source to source: whatever the *translated* `perc2okta` makes of `n` hits out of `m` measurements, the *translated*
`okta2symb` has a symbol for it in both styles - the label loops of the plot cannot be stopped by the okta column, as
far as the two source texts (regenerated on every run) are concerned. -/
theorem C20_src_symb_of_src_okta (n m : Nat) (hm : 0 < m) (h : n ≤ m) (b : Bool) :
    ∃ k s, Gen.perc2okta (some ((n : Rat) / (m : Rat) * 100)) = .ok k ∧ Gen.okta2symb k b = .ok s := by
  obtain ⟨k, hk, hs⟩ := C18_src_okta_rule n m hm h
  obtain ⟨h0, h8⟩ := c18okta_range n m k hs
  obtain ⟨s, hsym⟩ := C20_src_symb_total k b h0 (by omega)
  exact ⟨k, s, hk, hsym⟩

/-- Non-vacuity: the regenerated definition computes. -/
example : Gen.okta2symb 8 true = .ok "\\eightoktas\\ " ∧ Gen.okta2symb 3 false = .ok "3" := by decide

end Ampy
