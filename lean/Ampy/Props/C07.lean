import Ampy.Lemmas.Crop
/-!
# C07 — hits above MSA+buffer never influence the result; those below are kept intact

`crop`/`cropRows` model the cropping of `_cleanup_pdf` (after the consistency check and the index
reset); `construct`, `findSlices`, `findGroups`, `findLayers`, `run` model the cascade, which reads the
data only through the cropped frame.
-/
namespace Ampy

/-- With no MSA nothing is cropped and the flag is false. -/
theorem C07_no_msa {α} (P : Prms α) (data : List (Hit α)) (h : P.msa = none) : crop P data = (data, false) := by
  simp [crop, h]

/-- The high-cloud flag is raised exactly when the number of hits above the limit exceeds MAX_HITS_OKTA0. -/
theorem C07_flag_iff {α} (P : Prms α) (data : List (Hit α)) (m : Rat) (h : P.msa = some m) :
    (crop P data).2 = true ↔ (((data.filter (aboveLim (m + P.msaBuf))).length : Nat) : Rat) > P.t0 := by
  simp [crop, h]

/-- Every hit at or below the limit (and every non-detection) is kept unchanged and in order: the
cropped frame is the row-by-row image, a row above the limit becoming a non-detection (first / VV hit)
or disappearing (second and higher hits). -/
theorem C07_kept {α} (lim : Rat) (a b : List (Hit α)) (h : Hit α) (hb : aboveLim lim h = false) :
    cropRows lim (a ++ h :: b) = cropRows lim a ++ h :: cropRows lim b := by
  rw [cropRows_append, cropRows_cons, cropOne_below lim h hb]; rfl

/-- Nothing above the limit is left. -/
theorem C07_nothing_above {α} (lim : Rat) (data : List (Hit α)) : ∀ h ∈ cropRows lim data, aboveLim lim h = false :=
  mem_cropRows_not_above lim data

/-- Changing heights above the limit to any other values above the limit changes neither the cropped
frame nor the flag. -/
theorem C07_height_irrelevant {α} (P : Prms α) (d d' : List (Hit α)) (m : Rat) (hm : P.msa = some m)
    (h : List.Forall₂ (SameButAbove (m + P.msaBuf)) d d') : crop P d = crop P d' := by
  simp only [crop, hm]
  rw [cropRows_same _ d d' h, filter_above_length_same _ d d' h]

/-- Replacing the hits above the limit by non-detections (second and higher hits removed) gives the
same cropped frame: cropping is idempotent. -/
theorem C07_nondetection_equiv {α} (P : Prms α) (d : List (Hit α)) (m : Rat) (hm : P.msa = some m) :
    (crop P (cropRows (m + P.msaBuf) d)).1 = (crop P d).1 := by
  simp only [crop, hm]
  exact cropRows_idem _ d

/-- Hence every later result is identical: the whole chunk (ids, tables, flag) for altered heights … -/
theorem C07_tables_equal {α} [DecidableEq α] (K : Kern) (P : PPrms α) (d d' : List (Hit α)) (m : Rat)
    (hm : P.msa = some m) (h : List.Forall₂ (SameButAbove (m + P.msaBuf)) d d') :
    run K P d = run K P d' := by
  unfold run construct
  rw [C07_height_irrelevant P.toPrms d d' m hm h]

/-- … and the id columns and the three tables for hits replaced by non-detections (only the flag, hence
possibly NCD versus NSC, can differ). -/
theorem C07_tables_equal_nondet {α} [DecidableEq α] (K : Kern) (P : PPrms α) (d : List (Hit α)) (m : Rat)
    (hm : P.msa = some m) :
    (construct P (cropRows (m + P.msaBuf) d)).data = (construct P d).data := by
  unfold construct
  have := C07_nondetection_equiv P.toPrms d m hm
  simp only [this]

/-- Non-vacuity: a second hit above the limit is dropped, a first hit blanked, a hit at the limit kept. -/
example : cropRows 1000 [⟨"a", 0, some 1000, 1⟩, ⟨"a", 1, some 1001, 1⟩, ⟨"a", 1, some 2000, 2⟩] =
    [⟨"a", 0, some 1000, 1⟩, ⟨"a", 1, none, 0⟩] := by decide +kernel

end Ampy
