import Ampy.Props.C06
import Ampy.GenEq.MinSep
/-!
# C06 — the separation-per-height rule, about the definition regenerated from /repo's source

`Gen.get_min_sep_for_height` (`Ampy/Gen/SrcGetMinSepForHeight.lean`) is produced by `harness/py2lean.py` from the current text
of `CeiloChunk._get_min_sep_for_height` on every run; `GenEq.get_min_sep_for_height_eq` proves it equal to the model's
`minSepFor` for every parameter set and height.
-/
namespace Ampy
open Ampy.Py

theorem C06_src_minsep_is_model {α} (P : Prms α) (h : Rat) :
    GenEq.sameOutcome (Gen.get_min_sep_for_height P.minSepLims P.minSepVals h) (minSepFor P h) :=
  GenEq.get_min_sep_for_height_eq P h

/-- On the source: with `MIN_SEP_VALS` one longer than `MIN_SEP_LIMS` the separation for a height is the entry of its
bin (number of limits strictly below the height — `searchsorted`, left side), never an `IndexError`. -/
theorem C06_src_minsep_bin {α} (P : Prms α) (hs : SepShape P) (h : Rat) :
    ∃ v, Gen.get_min_sep_for_height P.minSepLims P.minSepVals h = .ok v ∧ v ∈ P.minSepVals ∧
      P.minSepVals[(P.minSepLims.filter (· < h)).length]? = some v := by
  obtain ⟨v, hv, hm, hi⟩ := C06_minsep_bin P hs h
  have := C06_src_minsep_is_model P h
  rw [hv] at this
  generalize Gen.get_min_sep_for_height P.minSepLims P.minSepVals h = r at this
  match r, this with
  | .ok v', e => exact ⟨v', rfl, by rw [e]; exact hm, by rw [e]; exact hi⟩

/-- On the source: a length mismatch is refused with an `AmpycloudError` (and nothing else is). -/
theorem C06_src_minsep_refuses {α} (P : Prms α) (hs : ¬ SepShape P) (h : Rat) :
    ∃ why, Gen.get_min_sep_for_height P.minSepLims P.minSepVals h = .error (.ampy why) := by
  obtain ⟨w, hw⟩ := C06_minsep_refuses P hs h
  have := C06_src_minsep_is_model P h
  rw [hw] at this
  generalize Gen.get_min_sep_for_height P.minSepLims P.minSepVals h = r at this
  match r, this with
  | .error (.ampy w'), _ => exact ⟨w', rfl⟩

/-- Non-vacuity: the default bins on both sides of, and exactly at, the 10000-ft limit. -/
example : Gen.get_min_sep_for_height [10000] [250, 1000] 9999 = .ok 250 ∧
    Gen.get_min_sep_for_height [10000] [250, 1000] 10000 = .ok 250 ∧
    Gen.get_min_sep_for_height [10000] [250, 1000] 10001 = .ok 1000 := by decide +kernel

end Ampy
