import Ampy.Lemmas.Base
import Ampy.Lemmas.Count
import Ampy.Lemmas.Pipeline
import Ampy.Lemmas.EndToEnd
/-!
# C04 — base height = configured percentile, inside the layer, never coded upward

`calcBase`/`percentile`/`latest`/`selectSorted`/`mkRow` model `utils.calc_base_height`,
`numpy.percentile`, the look-back slice, `_calculate_base_height_for_selection`, `metarize`.
"Fluffiness is finite" is a property of the LOWESS kernel and is only monitored by the harness.
-/
namespace Ampy

/-- The exact percentile lies between the lowest and highest selected value, for every
`BASE_LVL_HEIGHT_PERC` in `[0, 100]`. -/
theorem C04_percentile_between (vals : List Rat) (hne : vals ≠ []) (q : Rat) (h0 : 0 ≤ q) (h1 : q ≤ 100) :
    minRat vals ≤ percentile vals q ∧ percentile vals q ≤ maxRat vals :=
  percentile_between vals hne q h0 h1

/-- Row order does not matter to the percentile. -/
theorem C04_percentile_perm {l₁ l₂ : List Rat} (h : l₁.Perm l₂) (q : Rat) :
    percentile l₁ q = percentile l₂ q :=
  percentile_perm h q

/-- The base height exists (no error) and lies between the lowest and the highest of the selected
member hits — for the exact percentile and for any percentile routine with the between-property
(which the harness checks on the float result of `np.percentile`), any look-back, any percentile. -/
theorem C04_base_between (pctl : List Rat → Rat → Rat) (vals : List Rat) (lb q : Rat) (hne : vals ≠ [])
    (hp : ∀ l, l ≠ [] → minRat l ≤ pctl l q ∧ pctl l q ≤ maxRat l) :
    ∃ b, calcBase pctl vals lb q = .ok b ∧ minRat vals ≤ b ∧ b ≤ maxRat vals :=
  calcBase_between pctl vals lb q hne hp

theorem C04_base_between_exact (vals : List Rat) (lb q : Rat) (hne : vals ≠ []) (h0 : 0 ≤ q) (h1 : q ≤ 100) :
    ∃ b, calcBase percentile vals lb q = .ok b ∧ minRat vals ≤ b ∧ b ≤ maxRat vals :=
  calcBase_between percentile vals lb q hne (fun l hl => percentile_between l hl q h0 h1)

/-- The values the percentile is taken over are a suffix (the most recent ones) of the
time-ordered selection; with a look-back of 100 all of them. -/
theorem C04_lookback (vals : List Rat) (lb : Rat) :
    (latest vals lb) <:+ vals ∧ (vals ≠ [] → latest vals lb ≠ []) ∧ latest vals 100 = vals :=
  ⟨latest_suffix vals lb, latest_ne_nil vals lb, latest_full vals⟩

/-- min, max, mean, variance and thickness of a row are the statistics of its member hits. -/
theorem C04_stats {α} [DecidableEq α] (K : MetK) (P : Prms α) (w : Which) (data : List (Hit α))
    (ids : List Int) (cid : Int) (r : Row) (h : mkRow K P w data ids cid = .ok r) :
    let hs := (members data ids cid).filterMap (·.height)
    r.hmin = minRat hs ∧ r.hmax = maxRat hs ∧ r.mean = meanRat hs ∧ r.var = varRat hs ∧
    r.thick = r.hmax - r.hmin ∧ 0 ≤ r.thick ∧ 0 ≤ r.fluff := by
  unfold mkRow at h
  simp only [bind, Except.bind, pure, Except.pure] at h
  split at h
  · cases h
  · split at h
    · cases h
    · split at h
      · cases h
      · cases h
        exact ⟨rfl, rfl, rfl, rfl, rfl, thickness_nonneg _, fluffiness_nonneg K _⟩

/-- The base height written in the row is `calc_base_height` of the selected member heights in
the time order returned by the sort. -/
theorem C04_row_base {α} [DecidableEq α] (K : MetK) (P : Prms α) (w : Which) (data : List (Hit α))
    (ids : List Int) (cid : Int) (r : Row) (h : mkRow K P w data ids cid = .ok r) :
    calcBase K.pctl (selectSorted K data (baseMask P data ids cid)) P.lookback P.basePerc = .ok r.base ∧
    mkCode r.okta r.base = .ok r.code := by
  unfold mkRow at h
  simp only [bind, Except.bind, pure, Except.pure] at h
  split at h
  · cases h
  · split at h
    · cases h
    · rename_i base hb
      split at h
      · cases h
      · rename_i code hc
        cases h
        exact ⟨hb, hc⟩

/-- The three digits are the base floored to 100 ft (1000 ft above 10000 ft), never rounded up. -/
theorem C04_code_floor (okta : Int) (base : Rat) (code : String) (h : mkCode okta base = .ok code) :
    (∃ p, okta2code (.int okta) = .ok (some p) ∧ code = p ++ fmt03 (heightHundreds base)) ∧
    ((heightHundreds base : Int) : Rat) * 100 ≤ base := by
  obtain ⟨p, hp, hc⟩ := mkCode_eq okta base code h
  exact ⟨⟨p, hp, hc⟩, hh_le base⟩

/-- Fluffiness is non-negative whatever the LOWESS returns, and zero for a single point. -/
theorem C04_fluff_nonneg (K : MetK) (pts : List (Rat × Rat)) :
    0 ≤ fluffiness K pts ∧ (pts.length = 1 → fluffiness K pts = 0) :=
  ⟨fluffiness_nonneg K pts, fun h => by unfold fluffiness; rw [if_pos h]⟩

/-- Each table is sorted by ascending base, whatever order `sort_values` picks among equal bases. -/
theorem C04_sorted {α} [DecidableEq α] (K : MetK) (P : Prms α) (w : Which) (layersDone : Bool)
    (data : List (Hit α)) (ids : List Int) (hK : MetKOK K P.basePerc) (h : IdsOK data ids)
    (hr : HeightsInRange data) (ht0 : 0 ≤ P.t0) (t : Table)
    (ht : metarize K P w layersDone data ids = .ok t) :
    t.Pairwise (fun a b => a.base ≤ b.base) :=
  (metarize_tableOK K P w layersDone data ids hK h hr ht0 t ht).sorted

/-- Each base height of a table built by `metarize` lies between the lowest and the highest member
hit of its set, for every percentile routine with the between-property (in particular the exact one
for `BASE_LVL_HEIGHT_PERC ∈ [0,100]`), every look-back, every exclusion list. -/
theorem C04_base_inside {α} [DecidableEq α] (K : MetK) (P : Prms α) (w : Which) (layersDone : Bool)
    (data : List (Hit α)) (ids : List Int) (hK : MetKOK K P.basePerc) (h : IdsOK data ids) (ht0 : 0 ≤ P.t0)
    (t : Table) (ht : metarize K P w layersDone data ids = .ok t) :
    ∀ r ∈ t, minRat ((members data ids r.cid).filterMap (·.height)) ≤ r.base ∧
             r.base ≤ maxRat ((members data ids r.cid).filterMap (·.height)) := by
  intro r hr
  obtain ⟨hc, r₀, h₀, hrr⟩ := metarize_rows K P w layersDone data ids hK t ht r hr
  have hb := (C04_row_base K P w data ids r.cid r₀ h₀).1
  obtain ⟨hne, hsub⟩ := selectSorted_mem K P data ids r.cid hK h hc ht0
  obtain ⟨b, hb', hlo, hhi⟩ := calcBase_between K.pctl _ P.lookback P.basePerc hne hK.pctl_between
  rw [hb] at hb'
  have hbase : r.base = b := by rw [hrr]; exact (Except.ok.inj hb')
  rw [hbase]
  constructor
  · exact le_trans (minRat_le (hsub _ (minRat_mem hne))) hlo
  · exact le_trans hhi (le_maxRat (hsub _ (maxRat_mem hne)))

/-- End to end: in every table of every chunk `run` returns, rows are in ascending base order and every
row's base height is `calc_base_height` of its selected member heights (time order, look-back, percentile,
exclusions), lies between the lowest and the highest member hit, and is coded by flooring — never upward;
min / max / mean / variance / thickness are the statistics of the member hits; fluffiness is non-negative. -/
theorem C04_run_rows {α} [DecidableEq α] (K : Kern) (P : PPrms α) (checked : List (Hit α))
    (hA : Accepted K P checked) (c : Chunk α) (h : run K P checked = .ok c) (w : Which) :
    ∃ t ids, tableOf c w = some t ∧ idsOf c w = some ids ∧
      t.Pairwise (fun a b => a.base ≤ b.base) ∧
      ∀ r ∈ t,
        calcBase K.pctl (selectSorted K.toMetK c.data (baseMask P.toPrms c.data ids r.cid)) P.lookback P.basePerc
          = .ok r.base ∧
        (let hs := (members c.data ids r.cid).filterMap (·.height)
         minRat hs ≤ r.base ∧ r.base ≤ maxRat hs ∧
         r.hmin = minRat hs ∧ r.hmax = maxRat hs ∧ r.mean = meanRat hs ∧ r.var = varRat hs ∧
         r.thick = r.hmax - r.hmin ∧ 0 ≤ r.thick ∧ 0 ≤ r.fluff) ∧
        ((heightHundreds r.base : Int) : Rat) * 100 ≤ r.base ∧
        ∃ p, okta2code (.int r.okta) = .ok (some p) ∧ r.code = p ++ fmt03 (heightHundreds r.base) := by
  obtain ⟨t, ids, ht, hi, hx, hrows⟩ := run_rows K P checked hA c h w
  obtain ⟨t', _, ht', _, _, hok, _, _⟩ := run_tableOK K P checked hA c h w
  rw [ht] at ht'; cases ht'
  refine ⟨t, ids, ht, hi, hok.sorted, ?_⟩
  intro r hr
  obtain ⟨hc, r₀, hm, he⟩ := hrows r hr
  have hb := (C04_row_base K.toMetK P.toPrms w c.data ids r.cid r₀ hm).1
  have hst := C04_stats K.toMetK P.toPrms w c.data ids r.cid r₀ hm
  have eb : r.base = r₀.base := by rw [he]
  have e1 : r.hmin = r₀.hmin := by rw [he]
  have e2 : r.hmax = r₀.hmax := by rw [he]
  have e3 : r.mean = r₀.mean := by rw [he]
  have e4 : r.var = r₀.var := by rw [he]
  have e5 : r.thick = r₀.thick := by rw [he]
  have e6 : r.fluff = r₀.fluff := by rw [he]
  obtain ⟨hne, hsub⟩ := selectSorted_mem K.toMetK P.toPrms c.data ids r.cid hA.kern.met hx.toOK hc hA.prms.t0
  obtain ⟨b, hb', hlo, hhi⟩ := calcBase_between K.pctl _ P.lookback P.basePerc hne hA.kern.met.pctl_between
  rw [hb] at hb'
  have hbase : r₀.base = b := Except.ok.inj hb'
  obtain ⟨⟨p, hp, hcode⟩, hfl⟩ := C04_code_floor r.okta r.base r.code (hok.codes r hr)
  refine ⟨by rw [eb]; exact hb, ?_, hfl, p, hp, hcode⟩
  simp only at hst ⊢
  obtain ⟨s1, s2, s3, s4, s5, s6, s7⟩ := hst
  refine ⟨?_, ?_, by rw [e1]; exact s1, by rw [e2]; exact s2, by rw [e3]; exact s3, by rw [e4]; exact s4,
    by rw [e5, e1, e2]; exact s5, by rw [e5]; exact s6, by rw [e6]; exact s7⟩
  · rw [eb, hbase]; exact le_trans (minRat_le (hsub _ (minRat_mem hne))) hlo
  · rw [eb, hbase]; exact le_trans hhi (le_maxRat (hsub _ (maxRat_mem hne)))

end Ampy
