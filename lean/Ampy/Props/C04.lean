import Ampy.Lemmas.Base
import Ampy.Lemmas.Count
import Ampy.Lemmas.Pipeline
/-!
# C04 — base height = configured percentile, inside the layer, never coded upward

`calcBase`/`percentile`/`latest`/`selectSorted`/`mkRow` model `utils.calc_base_height`,
`numpy.percentile`, the look-back slice, `_calculate_base_height_for_selection`, `metarize`.
"Fluffiness is finite" is a property of the LOWESS kernel and is only monitored by the harness.
-/
namespace Ampy

/-- The exact percentile lies between the lowest and highest selected value, for every
`BASE_LVL_HEIGHT_PERC` in `[0, 100]`. -/
theorem C04_percentile_between (vals : List Rat) (hne : vals ≠ []) (q : Rat) (h0 : 0 ≤ q) (h1 : q ≤ 100) :
    minRat vals ≤ percentile vals q ∧ percentile vals q ≤ maxRat vals :=
  percentile_between vals hne q h0 h1

/-- Row order does not matter to the percentile. -/
theorem C04_percentile_perm {l₁ l₂ : List Rat} (h : l₁.Perm l₂) (q : Rat) :
    percentile l₁ q = percentile l₂ q :=
  percentile_perm h q

/-- The base height exists (no error) and lies between the lowest and the highest of the selected
member hits — for the exact percentile and for any percentile routine with the between-property
(which the harness checks on the float result of `np.percentile`), any look-back, any percentile. -/
theorem C04_base_between (pctl : List Rat → Rat → Rat) (vals : List Rat) (lb q : Rat) (hne : vals ≠ [])
    (hp : ∀ l, l ≠ [] → minRat l ≤ pctl l q ∧ pctl l q ≤ maxRat l) :
    ∃ b, calcBase pctl vals lb q = .ok b ∧ minRat vals ≤ b ∧ b ≤ maxRat vals :=
  calcBase_between pctl vals lb q hne hp

theorem C04_base_between_exact (vals : List Rat) (lb q : Rat) (hne : vals ≠ []) (h0 : 0 ≤ q) (h1 : q ≤ 100) :
    ∃ b, calcBase percentile vals lb q = .ok b ∧ minRat vals ≤ b ∧ b ≤ maxRat vals :=
  calcBase_between percentile vals lb q hne (fun l hl => percentile_between l hl q h0 h1)

/-- The values the percentile is taken over are a suffix (the most recent ones) of the
time-ordered selection; with a look-back of 100 all of them. -/
theorem C04_lookback (vals : List Rat) (lb : Rat) :
    (latest vals lb) <:+ vals ∧ (vals ≠ [] → latest vals lb ≠ []) ∧ latest vals 100 = vals :=
  ⟨latest_suffix vals lb, latest_ne_nil vals lb, latest_full vals⟩

/-- min, max, mean, variance and thickness of a row are the statistics of its member hits. -/
theorem C04_stats {α} [DecidableEq α] (K : MetK) (P : Prms α) (w : Which) (data : List (Hit α))
    (ids : List Int) (cid : Int) (r : Row) (h : mkRow K P w data ids cid = .ok r) :
    let hs := (members data ids cid).filterMap (·.height)
    r.hmin = minRat hs ∧ r.hmax = maxRat hs ∧ r.mean = meanRat hs ∧ r.var = varRat hs ∧
    r.thick = r.hmax - r.hmin ∧ 0 ≤ r.thick ∧ 0 ≤ r.fluff := by
  unfold mkRow at h
  simp only [bind, Except.bind, pure, Except.pure] at h
  split at h
  · cases h
  · split at h
    · cases h
    · split at h
      · cases h
      · cases h
        exact ⟨rfl, rfl, rfl, rfl, rfl, thickness_nonneg _, fluffiness_nonneg K _⟩

/-- The base height written in the row is `calc_base_height` of the selected member heights in
the time order returned by the sort. -/
theorem C04_row_base {α} [DecidableEq α] (K : MetK) (P : Prms α) (w : Which) (data : List (Hit α))
    (ids : List Int) (cid : Int) (r : Row) (h : mkRow K P w data ids cid = .ok r) :
    calcBase K.pctl (selectSorted K data (baseMask P data ids cid)) P.lookback P.basePerc = .ok r.base ∧
    mkCode r.okta r.base = .ok r.code := by
  unfold mkRow at h
  simp only [bind, Except.bind, pure, Except.pure] at h
  split at h
  · cases h
  · split at h
    · cases h
    · rename_i base hb
      split at h
      · cases h
      · rename_i code hc
        cases h
        exact ⟨hb, hc⟩

/-- The three digits are the base floored to 100 ft (1000 ft above 10000 ft), never rounded up. -/
theorem C04_code_floor (okta : Int) (base : Rat) (code : String) (h : mkCode okta base = .ok code) :
    (∃ p, okta2code (.int okta) = .ok (some p) ∧ code = p ++ fmt03 (heightHundreds base)) ∧
    ((heightHundreds base : Int) : Rat) * 100 ≤ base := by
  obtain ⟨p, hp, hc⟩ := mkCode_eq okta base code h
  exact ⟨⟨p, hp, hc⟩, hh_le base⟩

/-- Fluffiness is non-negative whatever the LOWESS returns, and zero for a single point. -/
theorem C04_fluff_nonneg (K : MetK) (pts : List (Rat × Rat)) :
    0 ≤ fluffiness K pts ∧ (pts.length = 1 → fluffiness K pts = 0) :=
  ⟨fluffiness_nonneg K pts, fun h => by unfold fluffiness; rw [if_pos h]⟩

/-- Each table is sorted by ascending base, whatever order `sort_values` picks among equal bases. -/
theorem C04_sorted {α} [DecidableEq α] (K : MetK) (P : Prms α) (w : Which) (layersDone : Bool)
    (data : List (Hit α)) (ids : List Int) (hK : MetKOK K P.basePerc) (h : IdsOK data ids)
    (hr : HeightsInRange data) (ht0 : 0 ≤ P.t0) (t : Table)
    (ht : metarize K P w layersDone data ids = .ok t) :
    t.Pairwise (fun a b => a.base ≤ b.base) :=
  (metarize_tableOK K P w layersDone data ids hK h hr ht0 t ht).sorted

/-- Each base height of a table built by `metarize` lies between the lowest and the highest member
hit of its set, for every percentile routine with the between-property (in particular the exact one
for `BASE_LVL_HEIGHT_PERC ∈ [0,100]`), every look-back, every exclusion list. -/
theorem C04_base_inside {α} [DecidableEq α] (K : MetK) (P : Prms α) (w : Which) (layersDone : Bool)
    (data : List (Hit α)) (ids : List Int) (hK : MetKOK K P.basePerc) (h : IdsOK data ids) (ht0 : 0 ≤ P.t0)
    (t : Table) (ht : metarize K P w layersDone data ids = .ok t) :
    ∀ r ∈ t, minRat ((members data ids r.cid).filterMap (·.height)) ≤ r.base ∧
             r.base ≤ maxRat ((members data ids r.cid).filterMap (·.height)) := by
  intro r hr
  obtain ⟨hc, r₀, h₀, hrr⟩ := metarize_rows K P w layersDone data ids hK t ht r hr
  have hb := (C04_row_base K P w data ids r.cid r₀ h₀).1
  obtain ⟨hne, hsub⟩ := selectSorted_mem K P data ids r.cid hK h hc ht0
  obtain ⟨b, hb', hlo, hhi⟩ := calcBase_between K.pctl _ P.lookback P.basePerc hne hK.pctl_between
  rw [hb] at hb'
  have hbase : r.base = b := by rw [hrr]; exact (Except.ok.inj hb')
  rw [hbase]
  constructor
  · exact le_trans (minRat_le (hsub _ (minRat_mem hne))) hlo
  · exact le_trans hhi (le_maxRat (hsub _ (maxRat_mem hne)))

end Ampy
