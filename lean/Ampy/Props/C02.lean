import Ampy.Lemmas.Msg
import Ampy.Lemmas.EndToEnd
/-!
# C02 — lowest layer and ceiling are never suppressed; NCD / NSC mean what they say

For every table satisfying `TableOK`, every MSA and flag (`flag` is the high-cloud flag, which
C07 shows is raised exactly when the hits cropped above MSA+buffer exceed MAX_HITS_OKTA0).
-/
namespace Ampy

/-- The first group is the lowest layer of 1 okta or more below the MSA. -/
theorem C02_lowest_first (msa : Option Rat) (t : Table) (h : TableOK t) (hL : cloudBelow msa t ≠ []) :
    (reported msa t).head? = (cloudBelow msa t).head? :=
  lowest_first msa t h hL

/-- The ceiling (lowest layer of 5 oktas or more below the MSA) is among the groups. -/
theorem C02_ceiling (msa : Option Rat) (t : Table) (h : TableOK t) (r : Row)
    (hr : (t.filter fun r => decide (r.okta ≥ 5) && belowMsa msa r.base).head? = some r) :
    r ∈ reported msa t :=
  ceiling_reported msa t h r hr

/-- Every group is the code of a listed layer. -/
theorem C02_groups_are_layers (msa : Option Rat) (t : Table) :
    ∀ r ∈ reported msa t, r ∈ t :=
  fun r hr => (List.mem_filter.mp hr).1

/-- `NCD` exactly when no layer reaches 1 okta and the high-cloud flag is down. -/
theorem C02_NCD_iff (msa : Option Rat) (flag : Bool) (t : Table) (h : TableOK t) :
    metarMsg msa flag t.length t = "NCD" ↔ (∀ r ∈ t, r.okta ≤ 0) ∧ flag = false :=
  ncd_iff msa flag t h

/-- `NSC` exactly when cloud exists (a layer of 1 okta or more at/above the MSA, or the
high-cloud flag) but none is reportable below the MSA. -/
theorem C02_NSC_iff (msa : Option Rat) (flag : Bool) (t : Table) (h : TableOK t) :
    metarMsg msa flag t.length t = "NSC" ↔
      cloudBelow msa t = [] ∧ ((∃ r ∈ t, r.okta ≥ 1 ∧ belowMsa msa r.base = false) ∨ flag = true) :=
  nsc_iff msa flag t h

/-! ### End to end, about what `ampycloud.run` returns (`Accepted` = the property's quantifier) -/

/-- The lowest layer of 1 okta or more below the MSA is the first reported row, and the ceiling is reported,
on every level of every chunk `run` returns. -/
theorem C02_run_lowest_and_ceiling {α} [DecidableEq α] (K : Kern) (P : PPrms α) (checked : List (Hit α))
    (hA : Accepted K P checked) (c : Chunk α) (h : run K P checked = .ok c) (w : Which) :
    ∃ t, tableOf c w = some t ∧
      (cloudBelow P.msa t ≠ [] → (reported P.msa t).head? = (cloudBelow P.msa t).head?) ∧
      (∀ r, (t.filter fun r => decide (r.okta ≥ 5) && belowMsa P.msa r.base).head? = some r → r ∈ reported P.msa t) := by
  obtain ⟨t, ht, hok, _⟩ := run_msg K P checked hA c h w
  exact ⟨t, ht, C02_lowest_first P.msa t hok, C02_ceiling P.msa t hok⟩

/-- `NCD` exactly when no slice/group/layer reaches 1 okta *and* the input holds at most MAX_HITS_OKTA0 hits
above MSA + buffer (or no MSA is set); `NSC` exactly when nothing is reportable below the MSA although cloud
exists: a row of 1 okta or more at/above the MSA, or more than MAX_HITS_OKTA0 input hits above MSA + buffer. -/
theorem C02_run_NCD_NSC {α} [DecidableEq α] (K : Kern) (P : PPrms α) (checked : List (Hit α))
    (hA : Accepted K P checked) (c : Chunk α) (h : run K P checked = .ok c) (w : Which) :
    ∃ t, tableOf c w = some t ∧
      (metarMsgOp P c w = .ok "NCD" ↔ (∀ r ∈ t, r.okta ≤ 0) ∧
        ¬ ∃ m, P.msa = some m ∧ (((checked.filter (aboveLim (m + P.msaBuf))).length : Nat) : Rat) > P.t0) ∧
      (metarMsgOp P c w = .ok "NSC" ↔ cloudBelow P.msa t = [] ∧
        ((∃ r ∈ t, r.okta ≥ 1 ∧ belowMsa P.msa r.base = false) ∨
         ∃ m, P.msa = some m ∧ (((checked.filter (aboveLim (m + P.msaBuf))).length : Nat) : Rat) > P.t0)) := by
  obtain ⟨t, ht, hok, hm⟩ := run_msg K P checked hA c h w
  have hf := run_flag_iff K P checked c h
  refine ⟨t, ht, ?_, ?_⟩
  · rw [hm]
    constructor
    · intro e
      have := (C02_NCD_iff P.msa c.flag t hok).mp (Except.ok.inj e)
      exact ⟨this.1, fun hx => by rw [hf.mpr hx] at this; exact absurd this.2 (by simp)⟩
    · intro ⟨h1, h2⟩
      have hfl : c.flag = false := by
        cases hc : c.flag with
        | false => rfl
        | true => exact absurd (hf.mp hc) h2
      rw [(C02_NCD_iff P.msa c.flag t hok).mpr ⟨h1, hfl⟩]
  · rw [hm]
    constructor
    · intro e
      have := (C02_NSC_iff P.msa c.flag t hok).mp (Except.ok.inj e)
      refine ⟨this.1, ?_⟩
      rcases this.2 with h1 | h1
      · exact Or.inl h1
      · exact Or.inr (hf.mp h1)
    · intro ⟨h1, h2⟩
      have : (∃ r ∈ t, r.okta ≥ 1 ∧ belowMsa P.msa r.base = false) ∨ c.flag = true := by
        rcases h2 with h2 | h2
        · exact Or.inl h2
        · exact Or.inr (hf.mpr h2)
      rw [(C02_NSC_iff P.msa c.flag t hok).mpr ⟨h1, this⟩]

end Ampy
