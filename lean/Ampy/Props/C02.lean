import Ampy.Lemmas.Msg
/-!
# C02 — lowest layer and ceiling are never suppressed; NCD / NSC mean what they say

For every table satisfying `TableOK`, every MSA and flag (`flag` is the high-cloud flag, which
C07 shows is raised exactly when the hits cropped above MSA+buffer exceed MAX_HITS_OKTA0).
-/
namespace Ampy

/-- The first group is the lowest layer of 1 okta or more below the MSA. -/
theorem C02_lowest_first (msa : Option Rat) (t : Table) (h : TableOK t) (hL : cloudBelow msa t ≠ []) :
    (reported msa t).head? = (cloudBelow msa t).head? :=
  lowest_first msa t h hL

/-- The ceiling (lowest layer of 5 oktas or more below the MSA) is among the groups. -/
theorem C02_ceiling (msa : Option Rat) (t : Table) (h : TableOK t) (r : Row)
    (hr : (t.filter fun r => decide (r.okta ≥ 5) && belowMsa msa r.base).head? = some r) :
    r ∈ reported msa t :=
  ceiling_reported msa t h r hr

/-- Every group is the code of a listed layer. -/
theorem C02_groups_are_layers (msa : Option Rat) (t : Table) :
    ∀ r ∈ reported msa t, r ∈ t :=
  fun r hr => (List.mem_filter.mp hr).1

/-- `NCD` exactly when no layer reaches 1 okta and the high-cloud flag is down. -/
theorem C02_NCD_iff (msa : Option Rat) (flag : Bool) (t : Table) (h : TableOK t) :
    metarMsg msa flag t.length t = "NCD" ↔ (∀ r ∈ t, r.okta ≤ 0) ∧ flag = false :=
  ncd_iff msa flag t h

/-- `NSC` exactly when cloud exists (a layer of 1 okta or more at/above the MSA, or the
high-cloud flag) but none is reportable below the MSA. -/
theorem C02_NSC_iff (msa : Option Rat) (flag : Bool) (t : Table) (h : TableOK t) :
    metarMsg msa flag t.length t = "NSC" ↔
      cloudBelow msa t = [] ∧ ((∃ r ∈ t, r.okta ≥ 1 ∧ belowMsa msa r.base = false) ∨ flag = true) :=
  nsc_iff msa flag t h

end Ampy
