import Ampy.Props.C02
import Ampy.GenEq.Small
/-!
# C02 — the NCD / NSC fall-back, about the definition regenerated from /repo's source

`Gen.ncd_or_nsc` is produced by `harness/py2lean.py` from the current text of `CeiloChunk._ncd_or_nsc` on every run (the
chunk's high-cloud flag is its parameter); it is proved equal to the model's `ncdOrNsc`.
-/
namespace Ampy

theorem C02_src_fallback_is_model (flag : Bool) : Gen.ncd_or_nsc flag = ncdOrNsc flag := GenEq.ncd_or_nsc_eq flag

/-- On the source: with no set at all (or none significant anywhere) the flag alone decides — `NSC` iff more than
`MAX_HITS_OKTA0` hits were cropped above MSA + buffer, `NCD` otherwise. -/
theorem C02_src_fallback (flag : Bool) :
    (Gen.ncd_or_nsc flag = "NSC" ↔ flag = true) ∧ (Gen.ncd_or_nsc flag = "NCD" ↔ flag = false) := by
  cases flag <;> decide

/-- The message of an empty table is what the source's fall-back returns. -/
theorem C02_src_empty_table (msa : Option Rat) (flag : Bool) : metarMsg msa flag 0 [] = Gen.ncd_or_nsc flag := by
  rw [C02_src_fallback_is_model]; rfl

end Ampy
