import Ampy.Lemmas.StageCanon
/-!
# C14 — any order of stage calls raises AmpycloudError or gives the canonical result

`step`/`runOps` (Model/Stage.lean) model the ten calls `find_slices`, `find_groups`, `find_layers`,
`metarize(which)`, `metar_msg(which)` on one chunk, with deterministic third-party kernels (functions
of their arguments).  The canonical states are the fresh chunk and the states after each stage of the
slices-groups-layers run.  After the repairs of F5a (refusal before mutation) and F5b (isolation
status kept) the statements hold for every history, of any length.
-/
namespace Ampy

/-- A successful `run` goes through the canonical states. -/
theorem C14_canonical_exists {α} [DecidableEq α] (K : Kern) (P : PPrms α) (checked : List (Hit α)) (c : Chunk α)
    (h : run K P checked = .ok c) :
    ∃ S1 S2, Canon K P (construct P checked) S1 S2 c :=
  canon_of_run K P checked c h

/-- One call from a canonical state: the result is a canonical state; a refusal leaves the state
intact and has a documented reason (prerequisite missing, or it would discard the layering); nothing
but `AmpycloudError` is raised. -/
theorem C14_step {α} [DecidableEq α] (K : Kern) (P : PPrms α) (hK : KernOK K P.basePerc)
    (c0 S1 S2 S3 : Chunk α) (hC : Canon K P c0 S1 S2 S3) (c : Chunk α) (hc : IsCanon c0 S1 S2 S3 c) (op : Op) :
    IsCanon c0 S1 S2 S3 (step K P c op).1 ∧
    ((step K P c op).2 = .ampyError → (step K P c op).1 = c ∧ RefusalReason c op) ∧
    (∀ cls, (step K P c op).2 ≠ .crash cls) :=
  step_canon K P hK c0 S1 S2 S3 hC c hc op

/-- Every history, of any length and with repeats, ends in a canonical state — so tables, id columns
and messages are those of the canonical run at the stage reached — and raises nothing but
`AmpycloudError`. -/
theorem C14_canonical {α} [DecidableEq α] (K : Kern) (P : PPrms α) (hK : KernOK K P.basePerc)
    (c0 S1 S2 S3 : Chunk α) (hC : Canon K P c0 S1 S2 S3) (ops : List Op) :
    IsCanon c0 S1 S2 S3 (runOps K P c0 ops).1 ∧ ∀ o ∈ (runOps K P c0 ops).2, ∀ cls, o ≠ .crash cls :=
  runOps_canon K P hK c0 S1 S2 S3 hC c0 (Or.inl rfl) ops

/-- Repeating a permitted call is idempotent. -/
theorem C14_idempotent {α} [DecidableEq α] (K : Kern) (P : PPrms α) (hK : KernOK K P.basePerc)
    (c0 S1 S2 S3 : Chunk α) (hC : Canon K P c0 S1 S2 S3) (c : Chunk α) (hc : IsCanon c0 S1 S2 S3 c) (op : Op)
    (h : (step K P c op).2 = .done) :
    step K P (step K P c op).1 op = ((step K P c op).1, .done) :=
  step_idem K P hK c0 S1 S2 S3 hC c hc op h

/-- Completed stages are never lost: a table that exists keeps existing along every history. -/
theorem C14_monotone {α} [DecidableEq α] (K : Kern) (P : PPrms α) (hK : KernOK K P.basePerc)
    (c0 S1 S2 S3 : Chunk α) (hC : Canon K P c0 S1 S2 S3) (c : Chunk α) (hc : IsCanon c0 S1 S2 S3 c) (ops : List Op) :
    (c.slices.isSome = true → (runOps K P c ops).1.slices.isSome = true) ∧
    (c.groups.isSome = true → (runOps K P c ops).1.groups.isSome = true) ∧
    (c.layers.isSome = true → (runOps K P c ops).1.layers.isSome = true) :=
  runOps_monotone K P hK c0 S1 S2 S3 hC c hc ops

/-- The message is a function of the state: in a canonical state it is the canonical message. -/
theorem C14_message_of_state {α} [DecidableEq α] (K : Kern) (P : PPrms α) (c : Chunk α) (w : Which) (s : String)
    (h : (step K P c (.metarMsg w)).2 = .msg s) :
    (step K P c (.metarMsg w)).1 = c ∧ metarMsgOp P c w = .ok s := by
  unfold step at h ⊢
  cases hm : metarMsgOp P c w with
  | ok s' => simp only [hm] at h ⊢; cases h; simp
  | error e => simp only [hm] at h; cases e <;> simp [outOfErr] at h

/-- Queries are queries: reading a message never changes the chunk (ids, tables, flag, parameters), whether the call
returns a message or is refused - in every state, reachable or not.  (The run-time counterpart is the purity clause of
the end-to-end scenes: after every message was read, every table, the flag and the parameters are what they were.) -/
theorem C14_queries_pure {α} [DecidableEq α] (K : Kern) (P : PPrms α) (c : Chunk α) (w : Which) :
    (step K P c (.metarMsg w)).1 = c := by
  show (match metarMsgOp P c w with | .ok s => (c, Out.msg s) | .error e => (c, outOfErr e)).1 = c
  cases metarMsgOp P c w <;> rfl

/-- ... hence any number of message reads, in any order, interleaved anywhere in a history, leave its final state
unchanged: reads can be erased from a history without affecting the state it ends in. -/
theorem C14_reads_erasable {α} [DecidableEq α] (K : Kern) (P : PPrms α) (c : Chunk α) (ops : List Op) :
    (runOps K P c ops).1 = (runOps K P c (ops.filter fun o => match o with | .metarMsg _ => false | _ => true)).1 := by
  induction ops generalizing c with
  | nil => rfl
  | cons op rest ih =>
    cases op with
    | metarMsg w =>
      have hq := C14_queries_pure K P c w
      simp only [runOps, List.filter_cons]
      rw [show (step K P c (Op.metarMsg w)) = ((step K P c (Op.metarMsg w)).1, (step K P c (Op.metarMsg w)).2) from rfl, hq]
      exact ih c
    | findSlices => simp only [runOps, List.filter_cons]; exact ih _
    | findGroups => simp only [runOps, List.filter_cons]; exact ih _
    | findLayers => simp only [runOps, List.filter_cons]; exact ih _
    | metarize w => simp only [runOps, List.filter_cons]; exact ih _

end Ampy
