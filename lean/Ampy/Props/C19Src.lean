import Ampy.Props.C19
import Ampy.GenEq.Small
import Ampy.GenEq.Scalers
/-!
# C19 — the minimum-range rule of the min-max scaling, about the definition regenerated from /repo's source

`Gen.minrange2minmax` is produced by `harness/py2lean.py` from the current text of `scaler.minrange2minmax` on every run, with
`np.nanmax` / `np.nanmin` as parameters; instantiated with the model's `nanmax` / `nanmin` it is proved equal to the model.
-/
namespace Ampy

theorem C19_src_minrange_is_model (vals : List (Option Rat)) (minRange : Rat) :
    Gen.minrange2minmax nanmax nanmin vals minRange = minrange2minmax vals minRange :=
  GenEq.minrange2minmax_eq vals minRange

/-- On the source: the interval mapped onto `[0, 1]` contains the data, has width `max(span, min_range)` and is centred
on the data when the minimum range takes over. -/
theorem C19_src_min_range (vals : List (Option Rat)) (minRange : Rat) (hne : valids vals ≠ []) (hr : 0 ≤ minRange) :
    let lo := (Gen.minrange2minmax nanmax nanmin vals minRange).1
    let hi := (Gen.minrange2minmax nanmax nanmin vals minRange).2
    (∀ v ∈ valids vals, lo ≤ v ∧ v ≤ hi) ∧ hi - lo ≥ minRange ∧
    hi - lo = max (nanmax vals - nanmin vals) minRange ∧ hi + lo = nanmax vals + nanmin vals := by
  rw [C19_src_minrange_is_model]
  exact C19_min_range vals minRange hne hr

example : Gen.minrange2minmax nanmax nanmin [some 100, none, some 300] 1000 = (-300, 700) := by decide +kernel

/-! ### `shift_and_scale`, `minmax_scale` (numpy broadcasting read element-wise; non-zero divisor) -/

theorem C19_src_shift_is_model (vals : List (Option Rat)) (shift : Option Rat) (scale : Rat) (hs : scale ≠ 0) :
    Gen.shift_and_scale nanmax vals shift scale "do" = .ok (shiftAndScale vals shift scale .doIt) ∧
    Gen.shift_and_scale nanmax vals shift scale "undo" = .ok (shiftAndScale vals shift scale .undo) :=
  ⟨GenEq.shift_and_scale_do vals shift scale hs, GenEq.shift_and_scale_undo vals shift scale⟩

theorem C19_src_minmax_is_model (vals : List (Option Rat)) (lo hi : Option Rat) :
    Gen.minmax_scale nanmax nanmin vals lo hi "do" = .ok (minmaxScale vals lo hi .doIt) ∧
    Gen.minmax_scale nanmax nanmin vals lo hi "undo" = .ok (minmaxScale vals lo hi .undo) :=
  ⟨GenEq.minmax_scale_do vals lo hi, GenEq.minmax_scale_undo vals lo hi⟩

/-- On the source (F6 repaired): identical values and no minimum range — a null range — are mapped onto 0, not NaN;
non-detections stay non-detections. -/
theorem C19_src_null_range (vals : List (Option Rat)) (h : nanmax vals = nanmin vals) :
    Gen.minmax_scale nanmax nanmin vals none none "do" = .ok (vals.map (Option.map fun _ => (0 : Rat))) := by
  rw [GenEq.minmax_scale_do]
  simp only [minmaxScale, Option.getD_none, h, GenEq.minmax1_do_null]

/-- An unknown mode is refused with an `AmpycloudError` by both. -/
theorem C19_src_badmode (vals : List (Option Rat)) (a b : Option Rat) (k : Rat) (mode : String)
    (h1 : mode ≠ "do") (h2 : mode ≠ "undo") :
    Gen.shift_and_scale nanmax vals a k mode = .error (.ampy "") ∧
    Gen.minmax_scale nanmax nanmin vals a b mode = .error (.ampy "") :=
  ⟨GenEq.shift_and_scale_badmode vals a k mode h1 h2, GenEq.minmax_scale_badmode vals a b mode h1 h2⟩

/-- On the source: undoing the shift-and-scale with the shift it used gives the input back, NaNs in place, for every
non-zero scale (the shift defaults to the largest non-NaN value). -/
theorem C19_src_shift_roundtrip (vals : List (Option Rat)) (shift : Option Rat) (scale : Rat) (hs : scale ≠ 0) :
    ∃ out, Gen.shift_and_scale nanmax vals shift scale "do" = .ok out ∧
      Gen.shift_and_scale nanmax out (some (shift.getD (nanmax vals))) scale "undo" = .ok vals := by
  refine ⟨_, GenEq.shift_and_scale_do vals shift scale hs, ?_⟩
  rw [GenEq.shift_and_scale_undo]
  congr 1
  simp only [shiftAndScale, Option.getD_some, List.map_map]
  conv => rhs; rw [← List.map_id vals]
  apply List.map_congr_left
  intro v _
  cases v with
  | none => rfl
  | some x =>
    simp only [Function.comp, Option.map_some, shiftScale1, id]
    congr 1
    rw [Rat.div_mul_cancel hs]; exact Rat.sub_add_cancel

example : Gen.shift_and_scale nanmax [some 100, none, some 300] none 100 "do" = .ok [some (-2), none, some 0] := by
  decide +kernel

end Ampy
