import Ampy.Props.C19
import Ampy.GenEq.Small
/-!
# C19 — the minimum-range rule of the min-max scaling, about the definition regenerated from /repo's source

`Gen.minrange2minmax` is produced by `harness/py2lean.py` from the current text of `scaler.minrange2minmax` on every run, with
`np.nanmax` / `np.nanmin` as parameters; instantiated with the model's `nanmax` / `nanmin` it is proved equal to the model.
-/
namespace Ampy

theorem C19_src_minrange_is_model (vals : List (Option Rat)) (minRange : Rat) :
    Gen.minrange2minmax nanmax nanmin vals minRange = minrange2minmax vals minRange :=
  GenEq.minrange2minmax_eq vals minRange

/-- On the source: the interval mapped onto `[0, 1]` contains the data, has width `max(span, min_range)` and is centred
on the data when the minimum range takes over. -/
theorem C19_src_min_range (vals : List (Option Rat)) (minRange : Rat) (hne : valids vals ≠ []) (hr : 0 ≤ minRange) :
    let lo := (Gen.minrange2minmax nanmax nanmin vals minRange).1
    let hi := (Gen.minrange2minmax nanmax nanmin vals minRange).2
    (∀ v ∈ valids vals, lo ≤ v ∧ v ≤ hi) ∧ hi - lo ≥ minRange ∧
    hi - lo = max (nanmax vals - nanmin vals) minRange ∧ hi + lo = nanmax vals + nanmin vals := by
  rw [C19_src_minrange_is_model]
  exact C19_min_range vals minRange hne hr

example : Gen.minrange2minmax nanmax nanmin [some 100, none, some 300] 1000 = (-300, 700) := by decide +kernel

end Ampy
