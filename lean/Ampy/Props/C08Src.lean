import Ampy.Props.C08
import Ampy.GenEq.BestGmm
/-!
# C08 — model selection among the mixtures, about the definition regenerated from /repo's source

`Gen.best_gmm` (`Ampy/Gen/SrcBestGmm.lean`) is produced by `harness/py2lean.py` from the current text of `layer.best_gmm` on
every run (`scores2nrl`, used by mode `prob` only, is a parameter); in mode `delta` it is proved to return the model's
`bestDelta` for every score list and gain.  Together with `bestDelta_never_boosted` this makes assumption A3 (the selected
mixture has no unpopulated component) a statement about what the *source* selects.
-/
namespace Ampy
open Ampy.Py

theorem C08_src_best_gmm_is_model (f : List Rat → List Rat) (abics : List Rat) (p g : Rat) :
    Gen.best_gmm f abics "delta" p g = .ok ((bestDelta abics g : Nat) : Int) :=
  GenEq.best_gmm_delta_eq f abics p g

/-- On the source: fed with the penalised scores, the selection never returns a mixture that left a component
unpopulated — for non-negative scores and `delta_mul_gain ≤ 1`. -/
theorem C08_src_selection_never_boosted (f : List Rat → List Rat) (fits : List GmmFit) (p gain : Rat) (hg1 : gain ≤ 1)
    (hnonneg : ∀ x ∈ fits, 0 ≤ x.score)
    (h0 : ∀ x, fits[0]? = some x → ¬ ((x.labels.eraseDups).length < 0 + 1)) :
    ∃ best : Nat, Gen.best_gmm f (boostScores fits) "delta" p gain = .ok (best : Int) ∧
      ∀ x, fits[best]? = some x → ¬ ((x.labels.eraseDups).length < best + 1) :=
  ⟨bestDelta (boostScores fits) gain, C08_src_best_gmm_is_model f _ p gain,
   bestDelta_never_boosted fits gain hg1 hnonneg h0⟩

/-- On the source: an unknown selection mode is an `AmpycloudError` (as soon as there are two mixtures to choose from). -/
theorem C08_src_badmode (f : List Rat → List Rat) (abics : List Rat) (mode : String) (p g : Rat)
    (h1 : mode ≠ "prob") (h2 : mode ≠ "delta") (hl : 2 ≤ abics.length) :
    Gen.best_gmm f abics mode p g = .error (.ampy "") :=
  GenEq.best_gmm_badmode f abics mode p g h1 h2 hl

/-- Non-vacuity: what the regenerated definition returns on concrete scores (the gain decides between the models). -/
example : Gen.best_gmm id [100, 96, 90] "delta" 1 (95 / 100) = .ok 2 ∧
    Gen.best_gmm id [100, 96, 97] "delta" 1 (95 / 100) = .ok 0 := by
  rw [C08_src_best_gmm_is_model, C08_src_best_gmm_is_model]
  have a : bestDelta [100, 96, 90] (95 / 100) = 2 := by decide +kernel
  have b : bestDelta [100, 96, 97] (95 / 100) = 0 := by decide +kernel
  rw [a, b]; exact ⟨rfl, rfl⟩

end Ampy
