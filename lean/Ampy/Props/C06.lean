import Ampy.Lemmas.Merge
import Ampy.Lemmas.Extra
import Ampy.Lemmas.EndToEnd
import Ampy.Lemmas.LayerSep
/-!
# C06 — groups, and layers split from one group, respect the minimum separation

`minSepFor` models `_get_min_sep_for_height`, `mergeLoop`/`mergeCloseGroups` model
`_merge_close_groups` (after the repair of F2a: the merged base is computed with the same ceilometer
exclusions as the reported one), `remerge` the re-merge pass of `layer.ncomp_from_gmm`.
The statements hold for every base-height setting (percentile, look-back, exclusion list), every
order the sorts return, every `MIN_SEP_VALS ≥ 0` one longer than `MIN_SEP_LIMS`.
-/
namespace Ampy

/-- The separation for a height is the `MIN_SEP_VALS` entry of its bin (`searchsorted`, left side);
the length check is the only refusal. -/
theorem C06_minsep_bin {α} (P : Prms α) (hs : SepShape P) (h : Rat) :
    ∃ v, minSepFor P h = .ok v ∧ v ∈ P.minSepVals ∧
      P.minSepVals[(P.minSepLims.filter (· < h)).length]? = some v :=
  minSepFor_ok P hs h

theorem C06_minsep_refuses {α} (P : Prms α) (hs : ¬ SepShape P) (h : Rat) :
    ∃ why, minSepFor P h = .error (.ampy why) :=
  minSepFor_refuses P hs h

/-- The merge loop terminates within `n` iterations (its fuel) and exits with all pairs of the
prelim table separated, every listed base being that of the group's final membership, and the table
listing exactly the groups present. The list is *not* re-sorted after a merge; the proof does not
assume it is. -/
theorem C06_merge_exit {α} [DecidableEq α] (K : Kern) (P : PPrms α) (data : List (Hit α))
    (hs : SepShape P.toPrms) (hn : SepNonneg P.toPrms)
    (gids : List Int) (prelim : List (Int × Rat))
    (hcur : BasesCurrent K P data gids prelim) (hcids : (prelim.map (·.1)).Perm (clusterIds gids))
    (gids' : List Int) (prelim' : List (Int × Rat))
    (h : mergeLoop K P data prelim.length gids prelim = .ok (gids', prelim')) :
    Separated P.toPrms (prelim'.map (·.2)) ∧ BasesCurrent K P data gids' prelim' ∧
    (prelim'.map (·.1)).Perm (clusterIds gids') := by
  obtain ⟨h1, h2, h3⟩ := mergeLoop_exit K P data prelim.length gids prelim (Nat.le_refl _) hcur hcids gids' prelim' h
  exact ⟨separated_of_none P.toPrms hs hn _ h1, h2, h3⟩

/-- Any two reported groups have base heights at least the minimum separation (of the upper one's
bin) apart — including when ceilometers are excluded from the base-height calculation. -/
theorem C06_groups_separated {α} [DecidableEq α] (K : Kern) (P : PPrms α) (data : List (Hit α))
    (hK : KernOK K P.basePerc) (hs : SepShape P.toPrms) (hn : SepNonneg P.toPrms)
    (gids gids' : List Int) (h : mergeCloseGroups K P data gids = .ok gids')
    (t : Table) (ht : metarize K.toMetK P.toPrms .groups false data gids' = .ok t) :
    ∀ r₁ ∈ t, ∀ r₂ ∈ t, r₁.cid ≠ r₂.cid → r₁.base ≤ r₂.base →
      ∃ s, minSepFor P.toPrms r₂.base = .ok s ∧ r₂.base - r₁.base ≥ s :=
  groups_table_separated K P data P.basePerc hK hs hn gids gids' h t ht

/-- When the re-merge pass merged nothing (as many layers as the mixture distinguishes), any two
component bases are at least the group's minimum separation apart. -/
theorem C06_components_separated {minSep : Rat} (h0 : 0 ≤ minSep) (sortedBases : List Rat) (order ids : List Nat)
    (n : Nat) (hlen : order.length = sortedBases.length) (hn : sortedBases.length ≤ n + 0)
    (h : (remerge minSep sortedBases order ids n).2 = n) :
    ∀ i j (_ : i < j) (hj : j < sortedBases.length), sortedBases[j] - sortedBases[i]'(by omega) ≥ minSep :=
  remerge_none h0 sortedBases order ids n hlen hn h

/-- The re-merge pass never reports more components than the mixture found. -/
theorem C06_remerge_le (minSep : Rat) (sortedBases : List Rat) (order ids : List Nat) (n : Nat) :
    (remerge minSep sortedBases order ids n).2 ≤ n :=
  remerge_le minSep sortedBases order ids n

/-- Report-time base = decision-time base for the layers split from a group (no ceilometer excluded):
the values `metarize('layers')` hands to `calc_base_height` for layer `off + 10·ind + k` are exactly the
values of mixture component `k` in the order `ncomp_from_gmm` saw them — for every row order of the input,
every look-back and percentile (this is what the repair of F2b establishes). Together with
`C06_components_separated` (nothing re-merged ⇒ component bases pairwise `≥ minSep` apart) this gives the
second clause of C06. -/
theorem C06_layer_base_is_component_base {α} [DecidableEq α] (K : Kern) (P : PPrms α) (hK : KernOK K P.basePerc)
    (data : List (Hit α)) (gids : List Int) (groups : Table) (hg : IdsExact data gids)
    (hcid : (groups.map (·.cid)).Nodup) (hex : P.exclude = [])
    (lids ncomps : List Int) (h : layerIds K P data gids groups = .ok (lids, ncomps))
    (ind : Nat) (g : Row) (hgi : groups[ind]? = some g) (n : Nat) (hn : ncomps[ind]? = some (n : Int)) (hn2 : 2 ≤ n)
    (minSep : Rat) (hms : minSepFor P.toPrms g.base = .ok minSep) (ids : List Nat)
    (hgmm : ncompFromGmm K P (groupHeights K data gids g.cid)
              (min ((groupHeights K data gids g.cid).eraseDups).length 3) minSep = .ok (n, ids))
    (k : Nat) (hk : k < n) :
    calcBase K.pctl (selectSorted K.toMetK data
        (baseMask P.toPrms data lids (lidOffset gids + 10 * (ind : Int) + (k : Int)))) P.lookback P.basePerc =
    calcBase K.pctl (((groupHeights K data gids g.cid).zip ids).filterMap fun (v, l) => if l = k then some v else none)
        P.lookback P.basePerc := by
  rw [layer_selection_eq_component_lt K P hK data gids groups hg hcid hex lids ncomps h ind g hgi n hn hn2 minSep hms
    ids hgmm k hk]

/-- End to end (first clause of C06): the groups table of every chunk `run` returns is pairwise separated by
the minimum separation of the upper group's bin, for every accepted input, every base-height setting
(percentile, look-back, excluded ceilometers) and every non-negative `MIN_SEP_VALS`. -/
theorem C06_run_groups_separated {α} [DecidableEq α] (K : Kern) (P : PPrms α) (checked : List (Hit α))
    (hA : Accepted K P checked) (hn : SepNonneg P.toPrms) (c : Chunk α) (h : run K P checked = .ok c)
    (gr : Table) (hg : c.groups = some gr) :
    ∀ r₁ ∈ gr, ∀ r₂ ∈ gr, r₁.cid ≠ r₂.cid → r₁.base ≤ r₂.base →
      ∃ s, minSepFor P.toPrms r₂.base = .ok s ∧ r₂.base - r₁.base ≥ s :=
  run_groups_separated K P checked hA hn c h gr hg

/-- Decision level of the second clause: if `ncomp_from_gmm` reports as many components as the mixture it selected
distinguishes (nothing re-merged), the base heights of any two components are at least `min_sep` apart — for every
percentile, look-back and order of the values. -/
theorem C06_unmerged_components_separated {α} (K : Kern) (P : PPrms α) (hK : KernOK K P.basePerc)
    (vals : List Rat) (m : Nat) (minSep : Rat) (h0 : 0 ≤ minSep)
    (n : Nat) (ids : List Nat) (h : ncompFromGmm K P vals m minSep = .ok (n, ids)) (hn2 : 2 ≤ n)
    (f : GmmFit) (hsel : selectedFit K P vals m = some (n, f)) :
    ∀ i j, i < n → j < n → i ≠ j → ∀ bi bj,
      calcBase K.pctl (compVals vals ids i) P.lookback P.basePerc = .ok bi →
      calcBase K.pctl (compVals vals ids j) P.lookback P.basePerc = .ok bj →
      bi ≤ bj → bj - bi ≥ minSep :=
  ncompFromGmm_unmerged_separated K P hK vals m minSep h0 n ids h hn2 f hsel

/-- End to end (second clause of C06): in the layers table `run` returns, the layers split from a group that was split
into as many layers as the selected mixture distinguishes (`selectedFit … = some (n, _)` with `n` the `ncomp` reported for
the group: no sub-layer re-merged) are pairwise at least that group's minimum separation apart, when no ceilometer is
excluded — whatever the percentile, the look-back and the row order of the input. -/
theorem C06_run_split_layers_separated {α} [DecidableEq α] (K : Kern) (P : PPrms α) (checked : List (Hit α))
    (hA : Accepted K P checked) (hsn : SepNonneg P.toPrms) (hex : P.exclude = [])
    (c : Chunk α) (h : run K P checked = .ok c)
    (gids : List Int) (gr lay : Table) (hgi : c.gids = some gids) (hg : c.groups = some gr) (hl : c.layers = some lay)
    (ind : Nat) (g : Row) (hgr : gr[ind]? = some g) (n : Nat) (hnc : g.ncomp = some (n : Int)) (hn2 : 2 ≤ n)
    (minSep : Rat) (hms : minSepFor P.toPrms g.base = .ok minSep)
    (f : GmmFit)
    (hsel : selectedFit K P (groupHeights K c.data gids g.cid)
      (min ((groupHeights K c.data gids g.cid).eraseDups).length 3) = some (n, f)) :
    ∀ r₁ ∈ lay, ∀ r₂ ∈ lay, ∀ k₁ k₂, k₁ < n → k₂ < n → k₁ ≠ k₂ →
      r₁.cid = lidOffset gids + 10 * (ind : Int) + (k₁ : Int) →
      r₂.cid = lidOffset gids + 10 * (ind : Int) + (k₂ : Int) →
      r₁.base ≤ r₂.base → r₂.base - r₁.base ≥ minSep :=
  run_split_layers_separated K P checked hA hsn hex c h gids gr lay hgi hg hl ind g hgr n hnc hn2 minSep hms f hsel

end Ampy
