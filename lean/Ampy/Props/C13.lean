import Ampy.Model.Multi
/-!
# C13 — concurrent or interleaved chunks with per-call parameters do not interfere  (partial)

In the model a stage call on chunk `i` touches chunk `i` only (its data, ids, tables and its own parameter
snapshot; C11 shows the snapshot shares nothing mutable with the global dictionary).  Hence for every
interleaving — any number of chunks, any length — every chunk ends exactly where it ends when processed
alone.  What the model cannot exhibit: pre-emption inside C extensions, numpy / scikit-learn internal
thread pools, the `warnings` registry: thread schedules are searched by the harness, not proved.
-/
namespace Ampy

theorem stepAt_other {α} [DecidableEq α] (K : Kern) (Ps : Nat → PPrms α) (cs : List (Chunk α)) (i j : Nat) (op : Op)
    (h : i ≠ j) : (stepAt K Ps cs i op).1[j]? = cs[j]? := by
  unfold stepAt
  cases hc : cs[i]? with
  | none => rfl
  | some c => simp [List.getElem?_set, h]

theorem stepAt_self {α} [DecidableEq α] (K : Kern) (Ps : Nat → PPrms α) (cs : List (Chunk α)) (i : Nat) (op : Op)
    (c : Chunk α) (hc : cs[i]? = some c) :
    (stepAt K Ps cs i op).1[i]? = some (step K (Ps i) c op).1 ∧ (stepAt K Ps cs i op).2 = some (step K (Ps i) c op).2 := by
  unfold stepAt
  obtain ⟨hi, hci⟩ := List.getElem?_eq_some_iff.mp hc
  simp only [hc]
  simp [hi]

/-- Closed form of one call at every position. -/
theorem stepAt_getElem? {α} [DecidableEq α] (K : Kern) (Ps : Nat → PPrms α) (cs : List (Chunk α)) (i k : Nat) (op : Op) :
    (stepAt K Ps cs i op).1[k]? =
      if k = i then (cs[i]?).map (fun c => (step K (Ps i) c op).1) else cs[k]? := by
  by_cases hk : k = i
  · subst hk
    cases hc : cs[k]? with
    | none => simp [stepAt, hc]
    | some c => simp [(stepAt_self K Ps cs k op c hc).1]
  · rw [if_neg hk]; exact stepAt_other K Ps cs i k op (Ne.symm hk)

/-- Frame: a call on chunk `i` leaves every other chunk as it is. -/
theorem C13_frame {α} [DecidableEq α] (K : Kern) (Ps : Nat → PPrms α) (cs : List (Chunk α)) (i j : Nat) (op : Op)
    (h : i ≠ j) : (stepAt K Ps cs i op).1[j]? = cs[j]? :=
  stepAt_other K Ps cs i j op h

/-- Projection: after any schedule, chunk `i` is in the state reached by its own calls alone. -/
theorem C13_projection {α} [DecidableEq α] (K : Kern) (Ps : Nat → PPrms α) (sched : List (Nat × Op)) :
    ∀ (cs : List (Chunk α)) (i : Nat) (c : Chunk α), cs[i]? = some c →
      (runSched K Ps cs sched).1[i]? = some (runOps K (Ps i) c (opsOf i sched)).1 := by
  induction sched with
  | nil => intro cs i c hc; simpa [runSched, opsOf, runOps] using hc
  | cons hd rest ih =>
    intro cs i c hc
    obtain ⟨j, op⟩ := hd
    simp only [runSched]
    by_cases hji : j = i
    · subst hji
      have hs := (stepAt_self K Ps cs j op c hc).1
      have := ih (stepAt K Ps cs j op).1 j (step K (Ps j) c op).1 hs
      rw [this]
      simp [opsOf, runOps]
    · have hs : (stepAt K Ps cs j op).1[i]? = some c := by rw [stepAt_other K Ps cs j i op hji]; exact hc
      have := ih (stepAt K Ps cs j op).1 i c hs
      rw [this]
      simp [opsOf, hji]

/-- What each call returns to its caller is also that of the isolated run: the outputs of chunk `i`
along the schedule are the outputs of its own calls alone. -/
theorem C13_outputs {α} [DecidableEq α] (K : Kern) (Ps : Nat → PPrms α) (sched : List (Nat × Op)) :
    ∀ (cs : List (Chunk α)) (i : Nat) (c : Chunk α), cs[i]? = some c →
      ((runSched K Ps cs sched).2.filter (·.1 = i)).map (·.2) = (runOps K (Ps i) c (opsOf i sched)).2.map some := by
  induction sched with
  | nil => intro cs i c _; simp [runSched, opsOf, runOps]
  | cons hd rest ih =>
    intro cs i c hc
    obtain ⟨j, op⟩ := hd
    simp only [runSched]
    by_cases hji : j = i
    · subst hji
      obtain ⟨hs, ho⟩ := stepAt_self K Ps cs j op c hc
      have := ih (stepAt K Ps cs j op).1 j (step K (Ps j) c op).1 hs
      simp [opsOf, runOps, ho] at this ⊢
      exact this
    · have hs : (stepAt K Ps cs j op).1[i]? = some c := by rw [stepAt_other K Ps cs j i op hji]; exact hc
      have := ih (stepAt K Ps cs j op).1 i c hs
      simp [opsOf, hji] at this ⊢
      exact this

/-- Calls on different chunks commute. -/
theorem C13_commute {α} [DecidableEq α] (K : Kern) (Ps : Nat → PPrms α) (cs : List (Chunk α)) (i j : Nat) (a b : Op)
    (h : i ≠ j) (k : Nat) :
    (stepAt K Ps (stepAt K Ps cs i a).1 j b).1[k]? = (stepAt K Ps (stepAt K Ps cs j b).1 i a).1[k]? := by
  simp only [stepAt_getElem?]
  by_cases hki : k = i <;> by_cases hkj : k = j
  · exact absurd (hki.symm.trans hkj) h
  · simp [hki, h]
  · simp [hkj, Ne.symm h]
  · simp [hki, hkj]

end Ampy
