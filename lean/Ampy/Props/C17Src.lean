import Ampy.Props.C17
import Ampy.Props.Monitor
import Ampy.GenEq.SignificantCloud
/-!
# C17 — the same theorems, about the definition regenerated from /repo's source

`Gen.significant_cloud` (`Ampy/Gen/SrcSignificantCloud.lean`) is produced by `harness/py2lean.py` from the current text
of `src/ampycloud/icao.py` on every run; `GenEq.significant_cloud_eq` proves it equal to the hand-written model for
every input.  The statements below are therefore about the source as it is now (under the translator's reading
of the Python subset, `Ampy/Gen/Prelude.lean`), not only about a model sampled against it.
-/
namespace Ampy

/-- Tie: translated source = model, all inputs. -/
theorem C17_src_is_model (os : List Int) : Gen.significant_cloud os = significantCloud os :=
  GenEq.significant_cloud_eq os

theorem C17_src_length (os : List Int) : (Gen.significant_cloud os).length = os.length := by
  rw [C17_src_is_model]; exact C17_length os

/-- The 1-3-5 rule, stated with the monitor's predicate (which is the property text): every flag list the
source computes is exactly what the rule prescribes. -/
theorem C17_src_rule (os : List Int) : Spec.c17 os (Gen.significant_cloud os) = true := by
  rw [C17_src_is_model]; exact C17_monitor_sound os

theorem C17_src_prefix (xs ys : List Int) :
    (Gen.significant_cloud (xs ++ ys)).take xs.length = Gen.significant_cloud xs := by
  rw [C17_src_is_model, C17_src_is_model]; exact C17_prefix xs ys

theorem C17_src_at_most_three (os : List Int) : (Gen.significant_cloud os).count true ≤ 3 := by
  rw [C17_src_is_model]; exact C17_at_most_three os

/-- Non-vacuity: the regenerated definition computes, on a sequence exercising all thresholds and the cap. -/
example : Gen.significant_cloud [0, 1, 2, 3, 4, 5, 8, 8] =
    [false, true, false, true, false, true, false, false] := by decide

end Ampy
