import Ampy.Lemmas.Screen
/-!
# C15 — input screening rejects exactly the documented conditions, normalises the rest

`screen` models `utils.check_data_consistency` on frames whose cells coerce to the required dtypes
(the quantifier's domain); `Rejected` is the documented list, written independently.
-/
namespace Ampy

/-- The check raises exactly on the documented conditions. -/
theorem C15_rejects_iff {α} [DecidableEq α] (arg : PyArg α) : (∃ e, screen arg = .error e) ↔ Rejected arg :=
  screen_error_iff arg

/-- Every refusal is an `AmpycloudError`. -/
theorem C15_error_is_ampy {α} [DecidableEq α] (arg : PyArg α) (e : AmpyErr) (h : screen arg = .error e) :
    ∃ why, e = .ampy why :=
  screen_error_ampy arg e h

/-- Otherwise the result holds exactly the four columns with the caller's (coerced) values, in order,
with the caller's index. -/
theorem C15_output_shape {α} [DecidableEq α] (f : RawFrame α) (c : Checked α) (w : List Warn)
    (h : screen (.frame f) = .ok (c, w)) :
    ∃ cc d hh t, f.ceilo = some cc ∧ f.dt = some d ∧ f.height = some hh ∧ f.type = some t ∧
      c.rows = zipRows cc.cells d.cells hh.cells t.cells ∧ c.index = f.index ∧ ¬ BadRows c.rows :=
  screen_ok_rows f c w h

/-- Checking an already-checked frame changes nothing and warns about no column or dtype. -/
theorem C15_idempotent {α} [DecidableEq α] (arg : PyArg α) (hwf : ∀ f, arg = .frame f → f.WF) (c : Checked α)
    (w : List Warn) (h : screen arg = .ok (c, w)) :
    ∃ w', screen c.toArg = .ok (c, w') ∧ ∀ x ∈ w', (∀ col, x ≠ .dtype col) ∧ (∀ col, x ≠ .superfluous col) :=
  screen_idem arg hwf c w h

/-- Type-0 non-detection on ceilometer "a", VV hit (type -1) on ceilometer "b", same time stamp. -/
def exOtherCeilo : RawFrame String :=
  { nrows := 2
    index := [0, 1]
    ceilo := some ⟨true, ["a", "b"]⟩
    dt := some ⟨true, [0, 0]⟩
    height := some ⟨true, [none, some 100]⟩
    type := some ⟨true, [0, -1]⟩
    extra := [] }

/-- A type-0 and a type-1 row on the same ceilometer "a" and the same time stamp. -/
def exSameCeilo : RawFrame String :=
  { nrows := 2
    index := [0, 1]
    ceilo := some ⟨true, ["a", "a"]⟩
    dt := some ⟨true, [0, 0]⟩
    height := some ⟨true, [none, some 100]⟩
    type := some ⟨true, [0, 1]⟩
    extra := [] }

theorem exists_ok_of_isOk {ε β} (x : Except ε β) (h : x.isOk = true) : ∃ r, x = .ok r := by
  cases x with
  | error e => cases h
  | ok r => exact ⟨r, rfl⟩

theorem exists_error_of_not_isOk {ε β} (x : Except ε β) (h : x.isOk = false) : ∃ e, x = .error e := by
  cases x with
  | error e => exact ⟨e, rfl⟩
  | ok r => cases h

/-- The argument is not touched: `screen` is a pure function of its argument (the code works on a deep
copy; the harness checks the caller's frame before and after). A coincidence of a type-0 and a typed
hit on *different* ceilometers, or a VV next to another instrument's non-detection, is accepted. -/
example : ∃ r, screen (.frame exOtherCeilo) = .ok r :=
  exists_ok_of_isOk _ (by decide +kernel)

/-- ... but on the same ceilometer it is refused. -/
example : ∃ e, screen (.frame exSameCeilo) = .error e :=
  exists_error_of_not_isOk _ (by decide +kernel)

end Ampy
