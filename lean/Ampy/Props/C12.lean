import Ampy.Lemmas.ParamsAdjust
/-!
# C12 — all documented ways of setting parameters are equivalent; reset restores all

`adjustTree` models `utils.adjust_nested_dict`, `Sys.step` the routes: per-call dictionary
(`construct (some i)`), global edits (`setGlobal`), YAML file (`setPrms`), and `reset_prms`.
"Valid assignment" (`PTree.valid`): a dict only where the reference holds a dict, a non-dict only where
it holds a non-dict; unknown keys anywhere.  Dictionaries have pairwise distinct keys (`nodupKeys`), as every
Python dict does.
-/
namespace Ampy

/-- Per-call values never crash, keep the key tree of the reference (unknown keys add no key) and raise
exactly one `AmpycloudWarning` per unknown key. -/
theorem C12_adjust_shape (ref new : PTree) (l : List String) (h : PTree.valid ref new = true) :
    (adjustTree ref new l).1.crashed = false ∧
    PTree.sameShape (adjustTree ref new l).1.tree ref = true ∧
    (adjustTree ref new l).1.warnings.length = PTree.unknown ref new :=
  adjust_valid ref new l h

/-- A per-call run cannot see the global on the keys it overrides: two globals that agree off the named
leaves give equal effective parameters. -/
theorem C12_override_blind (new g₁ g₂ : PTree) (l : List String) (hv : PTree.valid g₁ new = true)
    (hk : new.nodupKeys = true) (hg : g₁.nodupKeys = true) (ha : PTree.agreeOff new g₁ g₂ = true) :
    (adjustTree g₁ new l).1.tree.strip = (adjustTree g₂ new l).1.tree.strip :=
  adjust_override_blind' new g₁ g₂ l hv hk hg ha

/-- Per-call values override only the keys named: an entry the assignment does not mention keeps its
value (the very same object). -/
theorem C12_only_named (rid nid : Nat) (res nes : PEntries) (l : List String) (k : String)
    (hk : nes.lookup k = none) (hc : (adjustTree (.dict rid res) (.dict nid nes) l).1.crashed = false) :
    ∃ es, (adjustTree (.dict rid res) (.dict nid nes) l).1.tree = .dict rid es ∧ es.lookup k = res.lookup k :=
  adjust_only_named rid nid res nes l k hk hc

/-- The update only depends on contents (not on object identities): equal contents in, equal contents,
warnings and outcome out. -/
theorem C12_adjust_contents (r r' n n' : PTree) (l : List String) (hr : r.strip = r'.strip) (hn : n.strip = n'.strip) :
    (adjustTree r n l).1.tree.strip = (adjustTree r' n' l).1.tree.strip ∧
    (adjustTree r n l).1.warnings = (adjustTree r' n' l).1.warnings ∧
    (adjustTree r n l).1.crashed = (adjustTree r' n' l).1.crashed ∧
    (adjustTree r n l).2 = (adjustTree r' n' l).2 :=
  adjust_strip r r' n n' l hr hn

/-- Routes: a chunk built with the per-call dictionary `t` and a chunk built with no dictionary after
`set_prms` of the same contents have equal effective parameters and raise the same warnings, whatever the
prior global contents … -/
theorem C12_routes_equal (s : Sys) (t : PTree) :
    let a := (s.step (.newCaller t)).1.step (.construct (some s.callers.length))
    let b := (s.step (.setPrms t)).1.step (.construct none)
    (s.step (.setPrms t)).2 = a.2 ∧
    ((s.step (.setPrms t)).2 ≠ .crash "AttributeError" →
      (a.1.snaps.getLast?).map PTree.strip = (b.1.snaps.getLast?).map PTree.strip ∧ b.2 = .ok []) :=
  routes_equal s t

/-- … and editing a leaf of the global dictionary directly is the same as assigning it through a nested
one-leaf dictionary (so the global-edit route is the per-call / YAML route, leaf by leaf). -/
theorem C12_edit_is_adjust (g v : PTree) (p : List String) (g' : PTree) (cur : PTree)
    (hcur : g.getPath p = some cur) (hnd : ∀ i es, cur ≠ .dict i es) (hv : ∀ i es, v ≠ .dict i es)
    (hp : p ≠ []) (h : g.setPath p v = some g') :
    (adjustTree g (nest p v) []).1.tree = g' ∧ (adjustTree g (nest p v) []).1.crashed = false ∧
    (adjustTree g (nest p v) []).1.warnings = [] :=
  setPath_eq_adjust g v p g' cur hcur hnd hv hp h

/-- `reset_prms()` restores exactly the packaged defaults, whatever happened before (the defaults are
re-read at every call, never cached). -/
theorem C12_reset_all (s : Sys) :
    (s.step (.reset none)).1.global.strip = s.defaults.strip ∧ (s.step (.reset none)).2 = .ok [] :=
  reset_all s

/-- `reset_prms(names)` restores exactly the named entries and leaves the others as they are. -/
theorem C12_reset_some (s : Sys) (gid did : Nat) (ges des : PEntries) (names : List String)
    (hg : s.global = .dict gid ges) (hd : s.defaults = .dict did des)
    (hn : ∀ n ∈ names, (des.lookup n).isSome = true) :
    ∃ es, (s.step (.reset (some names))).1.global = .dict gid es ∧ (s.step (.reset (some names))).2 = .ok [] ∧
      (∀ n ∈ names, ((es.lookup n).map PTree.strip) = ((des.lookup n).map PTree.strip)) ∧
      (∀ k, k ∉ names → es.lookup k = ges.lookup k) :=
  reset_some s gid did ges des names hg hd hn

/-- An unknown name raises `AmpycloudError`; the names listed before it have already been reset (the
code resets one by one — modelled as coded). -/
theorem C12_reset_unknown (s : Sys) (gid did : Nat) (ges des : PEntries) (pre post : List String) (bad : String)
    (hg : s.global = .dict gid ges) (hd : s.defaults = .dict did des)
    (hn : ∀ n ∈ pre, (des.lookup n).isSome = true) (hb : des.lookup bad = none) :
    ∃ es, (s.step (.reset (some (pre ++ bad :: post)))).1.global = .dict gid es ∧
      (s.step (.reset (some (pre ++ bad :: post)))).2 = .ampyError ∧
      (∀ n ∈ pre, ((es.lookup n).map PTree.strip) = ((des.lookup n).map PTree.strip)) ∧
      (∀ k, k ∉ pre → es.lookup k = ges.lookup k) :=
  reset_unknown s gid did ges des pre post bad hg hd hn hb

end Ampy
