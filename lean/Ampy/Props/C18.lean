import Ampy.Lemmas.Wmo
/-!
# C18 — WMO conversions: okta binning, okta abbreviations and height flooring

Theorems about `perc2okta`/`perc2oktaNM`, `okta2code`, `height2code` (models of `wmo.py`) over exact
rationals.  Binary64 rounding is outside these theorems; the correspondence check validates the
float implementation against the model exhaustively (DESIGN.md §6 C18).
-/
namespace Ampy

/-- Values outside `[0, 100]` are refused with an `AmpycloudError`. -/
theorem C18_range_refused (p : Rat) (h : p < 0 ∨ 100 < p) : ∃ e, perc2okta p = .error (.ampy e) := by
  unfold perc2okta
  rw [if_neg (by rcases h with h | h <;> intro ⟨a, b⟩ <;> linarith)]
  exact ⟨_, rfl⟩

/-- Inside `[0, 100]` the result is an okta between 0 and 8. -/
theorem C18_total (p : Rat) (h0 : 0 ≤ p) (h1 : p ≤ 100) :
    perc2okta p = .ok (oktaOfPerc p) ∧ 0 ≤ oktaOfPerc p ∧ oktaOfPerc p ≤ 8 := by
  refine ⟨by unfold perc2okta; rw [if_pos ⟨h0, h1⟩], ?_⟩
  by_cases e0 : p = 0
  · subst e0; decide
  · by_cases e1 : p = 100
    · subst e1; decide
    · have := oktaOfPerc_inner_range (p := p) (lt_of_le_of_ne h0 (Ne.symm e0)) (lt_of_le_of_ne h1 e1)
      omega

/-- Non-decreasing in the percentage. -/
theorem C18_mono_perc (p q : Rat) (hp : 0 ≤ p) (hpq : p ≤ q) (hq : q ≤ 100) :
    oktaOfPerc p ≤ oktaOfPerc q := oktaOfPerc_mono hp hpq hq

/-- `n` hits out of `M` measurements always give an in-range percentage. -/
theorem C18_nm_ok (n M : Nat) (hM : 0 < M) (h : n ≤ M) :
    perc2oktaNM n M = .ok (oktaOfPerc ((n : Rat) / (M : Rat) * 100)) := by
  have := percNM_range hM h
  unfold perc2oktaNM perc2okta
  rw [if_pos this]

/-- Non-decreasing in the hit count. -/
theorem C18_mono (n n' M : Nat) (hM : 0 < M) (hn : n ≤ n') (h : n' ≤ M) :
    oktaOfPerc ((n : Rat) / (M : Rat) * 100) ≤ oktaOfPerc ((n' : Rat) / (M : Rat) * 100) :=
  oktaOfPerc_mono (percNM_range hM (Nat.le_trans hn h)).1 (percNM_mono hM hn) (percNM_range hM h).2

/-- 0 oktas only for `n = 0`. -/
theorem C18_zero_iff (n M : Nat) (hM : 0 < M) (h : n ≤ M) :
    oktaOfPerc ((n : Rat) / (M : Rat) * 100) = 0 ↔ n = 0 := by
  have hr := percNM_range hM h
  constructor
  · intro h0
    by_contra hn
    have hp : (n : Rat) / (M : Rat) * 100 ≠ 0 := fun e => hn ((percNM_eq_zero hM).mp e)
    by_cases e1 : (n : Rat) / (M : Rat) * 100 = 100
    · rw [e1] at h0; revert h0; decide
    · have := oktaOfPerc_inner_range (lt_of_le_of_ne hr.1 (Ne.symm hp)) (lt_of_le_of_ne hr.2 e1)
      omega
  · intro hn; subst hn; simp; decide

/-- 8 oktas only for `n = M`. -/
theorem C18_eight_iff (n M : Nat) (hM : 0 < M) (h : n ≤ M) :
    oktaOfPerc ((n : Rat) / (M : Rat) * 100) = 8 ↔ n = M := by
  have hr := percNM_range hM h
  constructor
  · intro h8
    by_contra hn
    have hp : (n : Rat) / (M : Rat) * 100 ≠ 100 := fun e => hn ((percNM_eq_hundred hM).mp e)
    by_cases e0 : (n : Rat) / (M : Rat) * 100 = 0
    · rw [e0] at h8; revert h8; decide
    · have := oktaOfPerc_inner_range (lt_of_le_of_ne hr.1 (Ne.symm e0)) (lt_of_le_of_ne hr.2 hp)
      omega
  · intro hn; subst hn
    rw [(percNM_eq_hundred hM).mpr rfl]; decide

/-- Strictly between, the okta is the nearest integer to `8·n/M` (half-way cases either way),
clipped to `1..7`. -/
theorem C18_nearest_clipped (p : Rat) (h0 : 0 < p) (h1 : p < 100) :
    ∃ r : Int, (r : Rat) - 1/2 ≤ p * 8 / 100 ∧ p * 8 / 100 ≤ (r : Rat) + 1/2 ∧
      oktaOfPerc p = max 1 (min 7 r) := by
  rw [oktaOfPerc_inner h0 h1]
  have hb := rhe_bounds (p * 8 / 100)
  refine ⟨roundHalfEven (p * 8 / 100), hb.1, hb.2, ?_⟩
  have hpos : (0 : Rat) < p * 8 / 100 := by positivity
  have hlt : p * 8 / 100 < 8 := by linarith
  have a : (-1 : Int) < roundHalfEven (p * 8 / 100) := (Rat.intCast_lt_intCast).mp (by push_cast; linarith)
  have b : roundHalfEven (p * 8 / 100) < 9 := (Rat.intCast_lt_intCast).mp (by push_cast; linarith)
  split
  · rename_i c
    have : roundHalfEven (p * 8 / 100) < 2 := (Rat.intCast_lt_intCast).mp (by push_cast; linarith)
    omega
  · split
    · rename_i c1 c2
      have : (6 : Int) < roundHalfEven (p * 8 / 100) := (Rat.intCast_lt_intCast).mp (by push_cast; linarith)
      omega
    · rename_i c1 c2
      have : (0 : Int) < roundHalfEven (p * 8 / 100) := (Rat.intCast_lt_intCast).mp (by push_cast; linarith)
      have : roundHalfEven (p * 8 / 100) < 8 := (Rat.intCast_lt_intCast).mp (by push_cast; linarith)
      omega

/-! ### `okta2code` -/

theorem C18_okta2code_table :
    okta2code (.int 0) = .ok (some "NCD") ∧
    okta2code (.int 1) = .ok (some "FEW") ∧ okta2code (.int 2) = .ok (some "FEW") ∧
    okta2code (.int 3) = .ok (some "SCT") ∧ okta2code (.int 4) = .ok (some "SCT") ∧
    okta2code (.int 5) = .ok (some "BKN") ∧ okta2code (.int 6) = .ok (some "BKN") ∧
    okta2code (.int 7) = .ok (some "BKN") ∧ okta2code (.int 8) = .ok (some "OVC") ∧
    okta2code (.int 9) = .ok none := by decide

/-- Every other integer is refused. -/
theorem C18_okta2code_other (n : Int) (h : n < 0 ∨ 9 < n) : ∃ e, okta2code (.int n) = .error (.ampy e) := by
  simp only [okta2code, okta2codeInt]
  repeat (rw [if_neg (by omega)])
  exact ⟨_, rfl⟩

/-- Every value that is not a Python `int` (floats, numpy integers, strings, `None`) is refused. -/
theorem C18_okta2code_nonint (v : PyVal) (h1 : ∀ n, v ≠ .int n) (h2 : ∀ b, v ≠ .bool b) :
    ∃ e, okta2code v = .error (.ampy e) := by
  cases v with
  | int n => exact absurd rfl (h1 n)
  | bool b => exact absurd rfl (h2 b)
  | float x => exact ⟨_, rfl⟩
  | npint n => exact ⟨_, rfl⟩
  | str s => exact ⟨_, rfl⟩
  | none => exact ⟨_, rfl⟩

/-! ### `height2code` -/

/-- Floor: the coded value (in hundreds of feet) never exceeds the height, and is the largest
multiple of 100 ft (1000 ft above 10000 ft) that does not. -/
theorem C18_h_floor (h : Rat) :
    ((heightHundreds h : Int) : Rat) * 100 ≤ h ∧
    (h ≤ 10000 → h < (((heightHundreds h : Int) : Rat) + 1) * 100) ∧
    (¬ h ≤ 10000 → h < (((heightHundreds h : Int) : Rat) + 10) * 100 ∧ heightHundreds h % 10 = 0) :=
  ⟨hh_le h, fun hl => (hh_low hl).2, fun hl => ⟨(hh_high hl).2.1, (hh_high hl).2.2⟩⟩

/-- Non-decreasing. -/
theorem C18_h_mono (a b : Rat) (hab : a ≤ b) : heightHundreds a ≤ heightHundreds b := hh_mono hab

/-- Exactly three decimal digits on `[0, 10^5)`. -/
theorem C18_h_three_digits (h : Rat) (h0 : 0 ≤ h) (h1 : h < 100000) :
    ∃ d₀ d₁ d₂ : Char, d₀.isDigit ∧ d₁.isDigit ∧ d₂.isDigit ∧
      height2code (some h) = String.ofList [d₀, d₁, d₂] := by
  have := hh_range h0 h1
  exact fmt03_three_digits this.1 this.2

/-- NaN gives the empty string. -/
theorem C18_h_nan : height2code none = "" := rfl

/-- Non-vacuity / sanity: concrete values on both sides of the 10000-ft switch. -/
example : height2code (some 9999) = "099" ∧ height2code (some 10000) = "100" ∧
    height2code (some 10999) = "100" ∧ height2code (some 11000) = "110" := by decide +kernel
example : perc2oktaNM 3 16 = .ok 2 ∧ perc2oktaNM 1 16 = .ok 1 ∧ perc2oktaNM 15 16 = .ok 7 := by
  decide +kernel

end Ampy
