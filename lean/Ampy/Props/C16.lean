import Ampy.Lemmas.Rename
/-!
# C16 — ceilometer names are labels only: renaming them changes nothing

The model is polymorphic in the name type `α` with `[DecidableEq α]` only: it *cannot* sort, hash or
slice names.  Third-party kernels never receive names (their arguments are name-free), so the same
kernel answers apply on both sides of the renaming.
-/
namespace Ampy

/-- For every injective renaming `f` (applied to the exclusion list as well) the whole cascade
commutes with `f`: identical id columns, identical tables (they contain no names), identical flag. -/
theorem C16_equivariant {α β} [DecidableEq α] [DecidableEq β] (f : α → β) (hf : Function.Injective f)
    (K : Kern) (P : PPrms α) (checked : List (Hit α)) :
    run K (P.mapCeilo f) (checked.map (Hit.mapCeilo f)) = (run K P checked).map (Chunk.mapCeilo f) :=
  run_mapCeilo f hf K P checked

/-- In particular every table entry is identical … -/
theorem C16_tables {α β} [DecidableEq α] [DecidableEq β] (f : α → β) (hf : Function.Injective f)
    (K : Kern) (P : PPrms α) (checked : List (Hit α)) (c : Chunk α) (h : run K P checked = .ok c) :
    ∃ c', run K (P.mapCeilo f) (checked.map (Hit.mapCeilo f)) = .ok c' ∧
      c'.slices = c.slices ∧ c'.groups = c.groups ∧ c'.layers = c.layers ∧
      c'.sids = c.sids ∧ c'.gids = c.gids ∧ c'.lids = c.lids ∧ c'.flag = c.flag := by
  refine ⟨Chunk.mapCeilo f c, ?_, rfl, rfl, rfl, rfl, rfl, rfl, rfl⟩
  rw [C16_equivariant f hf K P checked, h]; rfl

/-- … and so is every message (it is a function of the table, the flag, the ids and the MSA). -/
theorem C16_messages {α β} (f : α → β) (P : PPrms α) (c : Chunk α) (flag : Bool) (n : Nat) (t : Table) :
    metarMsg (P.mapCeilo f).msa flag n t = metarMsg P.msa flag n t := rfl

/-- The metarize step alone (used by the stage machine) is invariant too. -/
theorem C16_metarize {α β} [DecidableEq α] [DecidableEq β] (f : α → β) (hf : Function.Injective f)
    (K : MetK) (P : Prms α) (w : Which) (ld : Bool) (data : List (Hit α)) (ids : List Int) :
    metarize K (P.mapCeilo f) w ld (data.map (Hit.mapCeilo f)) ids = metarize K P w ld data ids :=
  metarize_mapCeilo f hf K P w ld data ids

end Ampy
