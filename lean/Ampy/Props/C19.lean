import Ampy.Lemmas.ScalerLemmas
/-!
# C19 — scalings are order-preserving, invertible and blind to non-detections  (float round trip sampled: partial)

Theorems about the models of `scaler.shift_and_scale`, `minmax_scale` (+ `minrange2minmax`),
`step_scale`, `apply_scaling`, `convert_kwargs` over exact rationals (`none` = NaN).  Exact inversion does
not hold in binary64 and is not claimed: the harness checks the float round trip within 1e-6.
-/
namespace Ampy

/-- Every mode is order-preserving on its domain: it never reverses two values. -/
theorem C19_order_preserving (vals : List (Option Rat)) (spec : ScaleSpec) (out : List (Option Rat))
    (hdom : match spec with
      | .none => True
      | .shift _ k => 0 < k
      | .minmax mr => 0 ≤ mr ∧ 0 < max (nanmax vals - nanmin vals) mr
      | .minmaxFixed lo hi => lo < hi
      | .step st sc => st.length + 1 = sc.length ∧ sortedRat st = true ∧ PosScales sc)
    (h : applyScaling vals spec = .ok out) (i j : Nat) (a b a' b' : Rat)
    (hi : vals[i]? = some (some a)) (hj : vals[j]? = some (some b))
    (hi' : out[i]? = some (some a')) (hj' : out[j]? = some (some b')) (hab : a < b) : a' < b' :=
  applyScaling_mono vals spec out hdom h i j a b a' b' hi hj hi' hj' hab

/-- Undoing a scaling with the parameters derived from the original data (`convert_kwargs`) restores
the original values. -/
theorem C19_kwargs_roundtrip (vals : List (Option Rat)) (spec : ScaleSpec) (out : List (Option Rat))
    (hdom : match spec with
      | .none => True
      | .shift _ k => k ≠ 0
      | .minmax mr => 0 ≤ mr ∧ 0 < max (nanmax vals - nanmin vals) mr
      | .minmaxFixed lo hi => lo ≠ hi
      | .step st sc => st.length + 1 = sc.length ∧ sortedRat st = true ∧ PosScales sc)
    (h : applyScaling vals spec = .ok out) :
    undoScaling out (convertSpec vals spec) = .ok vals :=
  undo_do_roundtrip vals spec out hdom h

/-- Min-max scaling maps into `[0, 1]` … -/
theorem C19_minmax_unit_interval (vals : List (Option Rat)) (minRange : Rat) (hr : 0 ≤ minRange)
    (hspan : 0 < max (nanmax vals - nanmin vals) minRange) (out : List (Option Rat))
    (h : applyScaling vals (.minmax minRange) = .ok out) :
    ∀ y ∈ valids out, 0 ≤ y ∧ y ≤ 1 :=
  applyScaling_minmax_range vals minRange hr hspan out h

/-- … and honours the minimum range: the interval mapped onto `[0,1]` contains the data, has width
`max(span, min_range)` and is centred on the data when the minimum range takes over. -/
theorem C19_min_range (vals : List (Option Rat)) (minRange : Rat) (hne : valids vals ≠ []) (hr : 0 ≤ minRange) :
    let lo := (minrange2minmax vals minRange).1
    let hi := (minrange2minmax vals minRange).2
    (∀ v ∈ valids vals, lo ≤ v ∧ v ≤ hi) ∧ hi - lo ≥ minRange ∧
    hi - lo = max (nanmax vals - nanmin vals) minRange ∧ hi + lo = nanmax vals + nanmin vals :=
  minrange2minmax_spec vals minRange hne hr

/-- Step scaling is continuous across its steps … -/
theorem C19_step_continuous (steps scales : List Rat) (hl : steps.length + 1 = scales.length)
    (hs : sortedRat steps = true) (k : Nat) (hk : k < steps.length) :
    let e := steps.getD k 0
    let below := (e - (if k = 0 then 0 else steps.getD (k - 1) 0)) / scales.getD k 1 + stepEdgeOut steps scales k
    stepEdgeOut steps scales (k + 1) = below :=
  stepDo_continuous steps scales hl hs k hk

/-- … strictly increasing on all of ℚ, and inverted by `mode='undo'`. -/
theorem C19_step_monotone_invertible (steps scales : List Rat) (hl : steps.length + 1 = scales.length)
    (hs : sortedRat steps = true) (hp : PosScales scales) :
    (∀ a b, a < b → stepDo steps scales a < stepDo steps scales b) ∧
    (∀ a, stepUndo steps scales (stepDo steps scales a) = a) :=
  ⟨fun a b h => stepDo_strictMono steps scales hl hs hp a b h, fun a => stepUndo_do steps scales hl hs hp a⟩

/-- Ill-formed step lists are refused with an `AmpycloudError`. -/
theorem C19_step_refuses (vals : List (Option Rat)) (steps scales : List Rat) (m : ScaleMode)
    (h : steps.length + 1 ≠ scales.length ∨ sortedRat steps = false) :
    ∃ why, stepScale vals steps scales m = .error (.ampy why) :=
  stepScale_refuses vals steps scales m h

/-- NaN entries stay NaN and do not affect the scaling of the other values. -/
theorem C19_nan_blind (vals : List (Option Rat)) (spec : ScaleSpec) (out : List (Option Rat))
    (h : applyScaling vals spec = .ok out) :
    out.length = vals.length ∧
    (∀ i : Nat, vals[i]? = some none → out[i]? = some none) ∧
    (∀ (i : Nat) (x : Rat), vals[i]? = some (some x) → ∃ y, out[i]? = some (some y)) ∧
    ∃ out', applyScaling ((valids vals).map some) spec = .ok out' ∧ valids out' = valids out :=
  applyScaling_nan_blind vals spec out h

/-- Non-vacuity: the default slicing scaling on a concrete array. -/
example : applyScaling [some 1000, none, some 1500] (.minmax 1000) = .ok [some (1/4), none, some (3/4)] := by
  decide +kernel

end Ampy
