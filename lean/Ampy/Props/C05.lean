import Ampy.Lemmas.RunFacts
/-!
# C05 — every hit is accounted for exactly once at every stage

Theorems about `run` (model of `ampycloud.run` after the consistency check), for every accepted hit
list, every parameter set and every third-party answer of the right shape (`KernOK`: one label per
point, mixture components numbered below `n`, sorts return permutations).
-/
namespace Ampy

/-- After a run every hit with a valid height has an id `≥ 0` at each of the three levels (ids are
functions of the hit, so "exactly one" is "defined"), and every non-detection has `-1`. -/
theorem C05_every_hit_assigned {α} [DecidableEq α] (K : Kern) (P : PPrms α) (checked : List (Hit α))
    (hK : KernOK K P.basePerc) (c : Chunk α) (h : run K P checked = .ok c) :
    ∃ sids gids lids, c.sids = some sids ∧ c.gids = some gids ∧ c.lids = some lids ∧
      IdsExact c.data sids ∧ IdsExact c.data gids ∧ IdsExact c.data lids := by
  obtain ⟨_, _, sids, sl, gids, iso, gr, lids, nc, lay, hs, _, hg, _, hl, _, e1, e2, e3, _, _, _⟩ := run_parts K P checked c h
  have h1 := sliceIds_exact K P c.data _ hK sids hs
  have h2 := groupIds_exact K P c.data _ hK sids sl h1 gids iso hg
  have h3 := layerIds_exact K P c.data _ hK gids gr h2 lids nc hl
  exact ⟨sids, gids, lids, e1, e2, e3, h1, h2, h3⟩

/-- The three tables list exactly the sets present in the per-hit assignment, each once, and
`n_slices`, `n_groups`, `n_layers` match their lengths. -/
theorem C05_tables_list_sets {α} [DecidableEq α] (K : Kern) (P : PPrms α) (checked : List (Hit α))
    (hK : KernOK K P.basePerc) (c : Chunk α) (h : run K P checked = .ok c) :
    ∃ sids gids lids sl gr lay,
      c.sids = some sids ∧ c.gids = some gids ∧ c.lids = some lids ∧
      c.slices = some sl ∧ c.groups = some gr ∧ c.layers = some lay ∧
      (sl.map (·.cid)).Perm (clusterIds sids) ∧ nWhich sids = sl.length ∧
      (gr.map (·.cid)).Perm (clusterIds gids) ∧ nWhich gids = gr.length ∧
      (lay.map (·.cid)).Perm (clusterIds lids) ∧ nWhich lids = lay.length :=
  run_tables K P checked hK c h

/-- Each layer lies inside exactly one group: hits with equal layer ids have equal group ids
(after the repair of F3 also with 100 or more slices). -/
theorem C05_layers_refine_groups {α} [DecidableEq α] (K : Kern) (P : PPrms α) (checked : List (Hit α))
    (hK : KernOK K P.basePerc) (c : Chunk α) (h : run K P checked = .ok c)
    (gids lids : List Int) (hg : c.gids = some gids) (hl : c.lids = some lids) :
    ∀ p₁ ∈ lids.zip gids, ∀ p₂ ∈ lids.zip gids, p₁.1 = p₂.1 → p₁.2 = p₂.2 :=
  run_refine K P checked hK c h gids lids hg hl

/-- A group reported with `k` sub-components yields exactly `k` layers, one if it was not split. -/
theorem C05_k_components {α} [DecidableEq α] (K : Kern) (P : PPrms α) (checked : List (Hit α))
    (hK : KernOK K P.basePerc) (c : Chunk α) (h : run K P checked = .ok c)
    (gids lids : List Int) (gr : Table) (hg : c.gids = some gids) (hl : c.lids = some lids) (hgr : c.groups = some gr) :
    ∀ g ∈ gr, ∃ k, g.ncomp = some k ∧
      (((lids.zip gids).filter (·.2 = g.cid)).map (·.1)).eraseDups.length = (if k ≥ 1 then k.toNat else 1) :=
  run_k_components K P checked hK c h gids lids gr hg hl hgr

/-- No hit is created, lost or altered in time, ceilometer, type or height: the chunk's data is the
cropped input (C07 says exactly what cropping does), untouched by the three stages. -/
theorem C05_hits_preserved {α} [DecidableEq α] (K : Kern) (P : PPrms α) (checked : List (Hit α))
    (c : Chunk α) (h : run K P checked = .ok c) :
    c.data = (crop P.toPrms checked).1 ∧ c.flag = (crop P.toPrms checked).2 :=
  ⟨(run_parts K P checked c h).data, (run_parts K P checked c h).flag⟩

end Ampy
