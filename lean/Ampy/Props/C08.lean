import Ampy.Lemmas.Total
import Ampy.Lemmas.Screen
import Ampy.Lemmas.Run
import Ampy.Lemmas.Domain
import Ampy.Lemmas.EndToEnd
import Ampy.Lemmas.Selection
/-!
# C08 — valid input never crashes the chain; failures are AmpycloudError only  (partial)

What a theorem can say: the model of the cascade is total, so "does not crash" becomes "no error branch
of the model is reachable".  On accepted input, with parameters inside their documented meaning
(`PrmsOK`) and third-party answers of the documented shape (`KernOK`, and A3 `SelectedPopulated`),
`run` returns a chunk; without A3 the only possible failures are the empty-component refusal of
`calc_base_height` (an `AmpycloudError`) and the bare `assert` of `ncomp_from_gmm`.
What it cannot say: that scikit-learn, statsmodels, numpy and pandas do not raise inside their documented
domain — that part is search only (harness/props/c08.py).
-/
namespace Ampy

/-- `run()` terminates and returns a chunk: no `AmpycloudError` of the code itself (percentage out of
range, empty base-height selection, MIN_SEP shape, unknown scores / mode), no `assert`, no
`IndexError`/`TypeError` of a mis-shaped table is reachable. -/
theorem C08_run_total {α} [DecidableEq α] (K : Kern) (P : PPrms α) (hK : KernOK K P.basePerc) (hP : PrmsOK P)
    (hA3 : SelectedPopulated K P) (checked : List (Hit α)) :
    ∃ c, run K P checked = .ok c :=
  run_total K P hK hP hA3 checked

/-- Whatever the mixtures answer (A3 not assumed) the cascade can only fail by the empty-component
`AmpycloudError` or by the `assert`. -/
theorem C08_run_error_kinds {α} [DecidableEq α] (K : Kern) (P : PPrms α) (hK : KernOK K P.basePerc) (hP : PrmsOK P)
    (checked : List (Hit α)) (e : AmpyErr) (h : run K P checked = .error e) :
    e = .ampy "Cloud base calculation got an empty array" ∨ e = .other "AssertionError" :=
  run_error_kinds K P hK hP checked e h

/-- `metar_msg()` returns a string for every level of every chunk `run` returns (the tables exist). -/
theorem C08_metar_msg_total {α} [DecidableEq α] (K : Kern) (P : PPrms α) (checked : List (Hit α)) (c : Chunk α)
    (h : run K P checked = .ok c) :
    c.slices.isSome = true ∧ c.groups.isSome = true ∧ c.layers.isSome = true ∧
    c.sids.isSome = true ∧ c.gids.isSome = true ∧ c.lids.isSome = true := by
  obtain ⟨_, _, sids, sl, gids, iso, gr, lids, nc, lay, _, _, _, _, _, _, e1, e2, e3, e4, e5, e6⟩ := run_parts K P checked c h
  simp [e1, e2, e3, e4, e5, e6]

/-- Data problems that ampycloud refuses at construction are signalled by `AmpycloudError`. -/
theorem C08_refusals_are_ampy {α} [DecidableEq α] (arg : PyArg α) (e : AmpyErr) (h : screen arg = .error e) :
    ∃ why, e = .ampy why :=
  screen_error_ampy arg e h

/-- The individual stages are total as well (no A3 needed for slices and groups). -/
theorem C08_slices_total {α} (K : Kern) (P : PPrms α) (hP : PrmsOK P) (data : List (Hit α)) :
    ∃ sids, sliceIds K P data = .ok sids :=
  sliceIds_total K P hP data

theorem C08_groups_total {α} [DecidableEq α] (K : Kern) (P : PPrms α) (hK : KernOK K P.basePerc) (hP : PrmsOK P)
    (data : List (Hit α)) (sids : List Int) (slices : Table) (hs : IdsExact data sids) :
    ∃ r, groupIds K P data sids slices = .ok r :=
  groupIds_total K P hK hP data sids slices hs

theorem C08_layers_total {α} [DecidableEq α] (K : Kern) (P : PPrms α) (hK : KernOK K P.basePerc) (hP : PrmsOK P)
    (hA3 : SelectedPopulated K P) (data : List (Hit α)) (gids : List Int) (groups : Table) :
    ∃ r, layerIds K P data gids groups = .ok r :=
  layerIds_total K P hK hP hA3 data gids groups

/-- Kernel pre-conditions: the cascade only ever consults a third-party kernel inside its documented
domain (clustering: at least 2 points; Gaussian mixture: at least 30 values and 1..3 components;
`np.percentile`: a non-empty array; LOWESS: at least 2 points). Stated extensionally: two kernels that agree
on those domains give the same run, so whatever a kernel would answer — or raise — outside its domain is
never observed. -/
theorem C08_kernel_domains {α} [DecidableEq α] (K K' : Kern) (P : PPrms α) (checked : List (Hit α))
    (hA : KernAgree K K') (hK : KernOK K P.basePerc) (hp : PtsOrderOK K) (hP : PrmsOK P) :
    run K P checked = run K' P checked :=
  run_agree K K' P checked hA hK hp hP

/-- The whole API call `ampycloud.run(data, prms)` (consistency check, construction, three stages), for *any* argument:
either the consistency check refuses it with an `AmpycloudError` (C15 says exactly when), or a chunk is returned. No
other outcome exists in the model. -/
theorem C08_api_total {α} [DecidableEq α] (K : Kern) (P : PPrms α) (hK : KernOK K P.basePerc) (hP : PrmsOK P)
    (hA3 : SelectedPopulated K P) (arg : PyArg α) :
    (∃ why, runFrom K P arg = .error (.ampy why)) ∨ ∃ c, runFrom K P arg = .ok c := by
  unfold runFrom
  cases hs : screen arg with
  | error e =>
    obtain ⟨why, rfl⟩ := screen_error_ampy arg e hs
    exact Or.inl ⟨why, rfl⟩
  | ok r =>
    obtain ⟨c, _⟩ := r
    exact Or.inr (run_total K P hK hP hA3 c.rows)

/-- `ampycloud.metar(data)`: whenever the input is accepted, the call returns a string, and (heights in the physical
range) that string is `NCD`, `NSC` or one to three well-formed groups. -/
theorem C08_metar_total {α} [DecidableEq α] (K : Kern) (P : PPrms α) (checked : List (Hit α))
    (hA : Accepted K P checked) (hA3 : SelectedPopulated K P) :
    ∃ c msg, run K P checked = .ok c ∧ metarMsgOp P c .layers = .ok msg := by
  obtain ⟨c, hc⟩ := run_total K P hA.kern hA.prms hA3 checked
  obtain ⟨t, _, _, hm⟩ := run_msg K P checked hA c hc .layers
  exact ⟨c, _, hc, hm⟩

/-! ### Assumption A3 as a theorem, and exactly where it can fail -/

/-- In mode `delta` (the default) the empty-component penalty of `ncomp_from_gmm` does its job — the selected mixture
has no unpopulated component (assumption A3 of the totality theorems) — for every kernel answer of the documented
shape whose scores are non-negative, and every `delta_mul_gain ≤ 1`. -/
theorem C08_selected_populated_delta {α} (K : Kern) (P : PPrms α) (q : Rat) (hK : KernOK K q)
    (hmode : P.gmmMode = "delta") (hg1 : P.gmmGain ≤ 1)
    (hscore : ∀ s vals n, 0 ≤ (K.gmm s vals n).score) :
    SelectedPopulated K P :=
  selectedPopulated_of_delta K P q hK hmode hg1 hscore

/-- … and `run` is total under those conditions, with no separate assumption about the selected mixture. -/
theorem C08_run_total_delta {α} [DecidableEq α] (K : Kern) (P : PPrms α) (hK : KernOK K P.basePerc) (hP : PrmsOK P)
    (hmode : P.gmmMode = "delta") (hg1 : P.gmmGain ≤ 1)
    (hscore : ∀ s vals n, 0 ≤ (K.gmm s vals n).score) (checked : List (Hit α)) :
    ∃ c, run K P checked = .ok c :=
  run_total K P hK hP (selectedPopulated_of_delta K P P.basePerc hK hmode hg1 hscore) checked

/-- Neither condition can be dropped (the penalty is `max(scores) + 1`, the test `score < gain * best`): with all
scores negative and close, gain 0.95 selects the unpopulated mixture; so does a gain above 1 with positive scores.
This is a property of the code as it is (not exhibited with the real library: DESIGN.md 11.12). -/
theorem C08_penalty_limits :
    (bestDelta (boostScores Sel.witnessNeg) (95 / 100) = 1 ∧
      ((Sel.witnessNeg[1]?).map fun f => decide ((f.labels.eraseDups).length < 1 + 1)) = some true) ∧
    (bestDelta (boostScores Sel.witnessGain) 2 = 1 ∧
      ((Sel.witnessGain[1]?).map fun f => decide ((f.labels.eraseDups).length < 1 + 1)) = some true) :=
  ⟨⟨bestDelta_boosted_witness_negative_scores.1, bestDelta_boosted_witness_negative_scores.2.1⟩,
   ⟨bestDelta_boosted_witness_gain_gt_one.1, bestDelta_boosted_witness_gain_gt_one.2.1⟩⟩

end Ampy
