import Ampy.Lemmas.Icao
/-!
# C17 — significance flags implement the ICAO 1-3-5 rule for every okta sequence

Theorems about `Ampy.significantCloud` (model of `icao.significant_cloud`), for every
`List Int` of any length.
-/
namespace Ampy

/-- One flag per layer. -/
theorem C17_length (os : List Int) : (significantCloud os).length = os.length := by
  rw [significantCloud_eq_spec, specFrom_length]

/-- A layer is flagged iff fewer than three layers below it were flagged and its okta is at
least 1, 3, 5 for the first, second, third flag (`2·cnt+1` with `cnt` the flags below). -/
theorem C17_char (os : List Int) (i : Nat) (h : i < os.length) :
    ((significantCloud os)[i]'(by rw [C17_length]; exact h) = true ↔
      ((significantCloud os).take i).count true < 3 ∧
      os[i] ≥ 2 * ((((significantCloud os).take i).count true : Nat) : Int) + 1) := by
  have := specFrom_getElem os 0 i h
  simp only [Nat.zero_add] at this
  simp only [significantCloud_eq_spec]
  exact this

/-- The flags of a prefix never depend on the layers above it. -/
theorem C17_prefix (xs ys : List Int) :
    (significantCloud (xs ++ ys)).take xs.length = significantCloud xs := by
  simp only [significantCloud_eq_spec, specFrom_append]
  rw [List.take_left' (specFrom_length xs 0)]

/-- Never more than three flags. -/
theorem C17_at_most_three (os : List Int) : (significantCloud os).count true ≤ 3 := by
  rw [significantCloud_eq_spec]
  have := specFrom_count_le os 0 (by omega)
  omega

/-- Zero-okta (or negative) layers are never flagged. -/
theorem C17_zero_never (os : List Int) (i : Nat) (h : i < os.length) (h0 : os[i] ≤ 0) :
    (significantCloud os)[i]'(by rw [C17_length]; exact h) = false := by
  have := C17_char os i h
  cases hb : (significantCloud os)[i]'(by rw [C17_length]; exact h) with
  | false => rfl
  | true => rw [hb] at this; have := this.mp rfl; omega

/-- Non-vacuity: a concrete sequence exercising all three thresholds and the cap. -/
example : significantCloud [0, 1, 2, 3, 4, 5, 8, 8] =
    [false, true, false, true, false, true, false, false] := by decide

end Ampy
