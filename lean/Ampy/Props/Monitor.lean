import Ampy.Lemmas.SpecSoundA
import Ampy.Lemmas.SpecSoundB
import Ampy.Lemmas.SpecSoundC
/-!
# Soundness of the run-time monitor: the decidable spec predicates raise nothing on the model's own output

The driver evaluates the predicates of `Ampy/Spec/*.lean` on what the *implementation* produced; a failing clause is
reported as a violation of the property with the scene as replay.  These theorems show that the predicates demand
nothing the model does not deliver: whenever the implementation's observables coincide with the model's (which is what
the correspondence check establishes scene by scene), no clause fires — for every accepted input, not only the
sampled ones.  A predicate stricter than the property (a false alarm in waiting) cannot pass this file: one was found
and repaired this way (`Spec.c06`, split-layers clause: see `Lemmas/SpecSoundC.lean`).

Names carry the property id so that each property's audit (`#print axioms`) covers its monitor theorem too.
-/
namespace Ampy

/-- C17: the flags of the model satisfy the 1-3-5 predicate, for every okta sequence. -/
theorem C17_monitor_sound (os : List Int) : Spec.c17 os (significantCloud os) = true :=
  spec_c17_sound os

/-- C18: every okta of the model is acceptable to the predicate (0 iff no hit, 8 iff all, nearest clipped 1..7), the whole
row `n = 0..m` is monotone, and every coded height in `[0, 10^5)` ft is the three-digit floor. -/
theorem C18_monitor_sound_okta (n m : Nat) (hm : 0 < m) (h : n ≤ m) (k : Int) (hk : perc2oktaNM n m = .ok k) :
    Spec.c18okta n m k = true :=
  spec_c18okta_sound n m hm h k hk

theorem C18_monitor_sound_row (m : Nat) (hm : 0 < m) (ks : List Int) (hks : ks.length = m + 1)
    (h : ∀ n (hn : n < m + 1), perc2oktaNM n m = .ok (ks[n]'(by omega))) : Spec.c18row m ks = true :=
  spec_c18row_sound m hm ks hks h

theorem C18_monitor_sound_height (h : Rat) (h0 : 0 ≤ h) (h1 : h < 100000) :
    Spec.c18height h (height2code (some h)) = true :=
  spec_c18height_sound h h0 h1

/-- C01 / C02: on any table satisfying `TableOK` carrying the model's message, no clause of the grammar / selection /
lowest-layer / ceiling / NCD / NSC predicates fires. -/
theorem C01_monitor_sound (msa : Option Rat) (flag : Bool) (t : Table) (h : TableOK t) :
    Spec.c01 msa t (metarMsg msa flag t.length t) = [] :=
  spec_c01_sound msa flag t h

theorem C02_monitor_sound (msa : Option Rat) (flag : Bool) (t : Table) (h : TableOK t) :
    Spec.c02 msa flag t (metarMsg msa flag t.length t) = [] :=
  spec_c02_sound msa flag t h

/-- C03 / C04: on every table `metarize` builds, no clause of the count / percentage / okta / code-prefix predicate and
of the statistics / base-inside / code-floor / sorted predicate fires. -/
theorem C03_monitor_sound {α} [DecidableEq α] (K : MetK) (P : Prms α) (w : Which) (ld : Bool) (data : List (Hit α))
    (ids : List Int) (hK : MetKOK K P.basePerc) (h : IdsOK data ids) (ht0 : 0 ≤ P.t0) (t : Table)
    (ht : metarize K P w ld data ids = .ok t) : Spec.c03 P.t0 P.t8 data ids t = [] :=
  spec_c03_sound K P w ld data ids hK h ht0 t ht

theorem C04_monitor_sound {α} [DecidableEq α] (K : MetK) (P : Prms α) (w : Which) (ld : Bool) (data : List (Hit α))
    (ids : List Int) (hK : MetKOK K P.basePerc) (h : IdsOK data ids) (hr : HeightsInRange data) (ht0 : 0 ≤ P.t0)
    (t : Table) (ht : metarize K P w ld data ids = .ok t) : Spec.c04 data ids t = [] :=
  spec_c04_sound K P w ld data ids hK h hr ht0 t ht

/-- C05 / C07: on what `run` returns for an accepted input, no clause of the accounting predicate and of the cropping
predicate fires. -/
theorem C05_monitor_sound (K : Kern) (P : PPrms String) (checked : List (Hit String)) (c : Chunk String)
    (hA : Accepted K P checked) (h : run K P checked = .ok c) : Spec.c05 P.toPrms (obsOf checked c) = [] :=
  spec_c05_sound K P checked c hA h

theorem C07_monitor_sound (K : Kern) (P : PPrms String) (checked : List (Hit String)) (c : Chunk String)
    (hA : Accepted K P checked) (h : run K P checked = .ok c) : Spec.c07 P.toPrms (obsOf checked c) = [] :=
  spec_c07_sound K P checked c hA h

/-- C06, both clauses: with the number of components of the selected mixture before re-merging handed to it (that is what
tells "split into as many layers as the mixture distinguishes" from a re-merged split), the separation predicate raises
nothing on what `run` returns. Guarded by the reported `ncomp` alone it *does* fire on the model's own run — refuted by
the two `#guard_msgs` regressions in `Lemmas/SpecSoundC.lean`. -/
theorem C06_monitor_sound (K : Kern) (P : PPrms String) (checked : List (Hit String)) (c : Chunk String)
    (hA : Accepted K P checked) (h : run K P checked = .ok c) (hsn : SepNonneg P.toPrms) :
    Spec.c06 P.toPrms (obsOf checked c)
      ((c.groups.getD []).map fun g => rawComponents K P c.data (c.gids.getD []) g) = [] :=
  spec_c06_sound K P checked c hA h hsn

/-- C06, groups clause alone. -/
theorem C06_monitor_sound_groups (K : Kern) (P : PPrms String) (checked : List (Hit String)) (c : Chunk String)
    (hA : Accepted K P checked) (h : run K P checked = .ok c) (hsn : SepNonneg P.toPrms) :
    Spec.pairwiseSep (Spec.minSepOf P.toPrms) ((obsOf checked c).groups.map (·.base)) = true :=
  spec_c06_groups_sound K P checked c hA h hsn

end Ampy
