import Ampy.Lemmas.RunFacts
import Ampy.Lemmas.Extra
import Ampy.Props.C09
/-!
# C20 — diagnostic plotting is total and free of side effects  (level: other; partial)

What is modelled of `plots/diagnostics.py`: it reads the three tables *by position* for `ind < n_*`, looks
up `cluster_id`, indexes `MRKS[ind % len(MRKS)]` and the colour cycle `% len`, maps `ncomp` through a symbol
table with keys `-1, 1, 2, 3`, calls `metar_msg()`, and runs inside a matplotlib style context manager.
matplotlib itself (text layout, LaTeX, back ends, file writing) cannot be modelled: totality and absence of
side effects of the real drawing are searched by the harness.
-/
namespace Ampy

/-- Every table position the plot reads exists: `n_slices`, `n_groups`, `n_layers` equal the table
lengths for every chunk `run` returns. -/
theorem C20_positions_exist {α} [DecidableEq α] (K : Kern) (P : PPrms α) (hK : KernOK K P.basePerc)
    (checked : List (Hit α)) (c : Chunk α) (h : run K P checked = .ok c) :
    ∃ sids gids lids sl gr lay,
      c.sids = some sids ∧ c.gids = some gids ∧ c.lids = some lids ∧
      c.slices = some sl ∧ c.groups = some gr ∧ c.layers = some lay ∧
      nWhich sids = sl.length ∧ nWhich gids = gr.length ∧ nWhich lids = lay.length := by
  obtain ⟨sids, gids, lids, sl, gr, lay, h1, h2, h3, h4, h5, h6, _, n1, _, n2, _, n3⟩ := run_tables K P checked hK c h
  exact ⟨sids, gids, lids, sl, gr, lay, h1, h2, h3, h4, h5, h6, n1, n2, n3⟩

/-- Marker and colour look-ups are taken modulo the length of the list: in range for any number of sets
(more slices, groups or layers than the 8 marker styles included). -/
theorem C20_cycle_index_in_bounds {β} (cycle : List β) (hne : cycle ≠ []) (ind : Nat) :
    ind % cycle.length < cycle.length :=
  Nat.mod_lt _ (List.length_pos_of_ne_nil hne)

/-- The style context manager (`plt.style.context`) restores the global rcParams whether or not the body
raises — the same save / run / restore-in-`finally` discipline as `tmp_seed`. -/
theorem C20_context_restores {G ε β : Type} (style : G) (body : G → G × Except ε β) (rc : G) :
    (tmpSeed style body rc).1 = rc :=
  C09_tmpseed_restores style body rc

/-- The plot only reads the chunk: it is modelled as a function `Chunk → Figure` with no chunk in its
result, so the chunk after plotting is the chunk before; the message it prints is `metar_msg()` of that
unchanged chunk. -/
theorem C20_reads_only {α F : Type} (plot : Chunk α → F) (c : Chunk α) : (c, plot c).1 = c := rfl

/-- `ncomp` of every group lies in the keys `-1, 1, 2, 3` of the plot's symbol table (`symbs[ncomp]`
cannot raise a `KeyError`). -/
theorem C20_ncomp_keys {α} [DecidableEq α] (K : Kern) (P : PPrms α) (hK : KernOK K P.basePerc)
    (checked : List (Hit α)) (c : Chunk α) (h : run K P checked = .ok c) (gr : Table) (hg : c.groups = some gr) :
    ∀ g ∈ gr, g.ncomp = some (-1) ∨ g.ncomp = some 1 ∨ g.ncomp = some 2 ∨ g.ncomp = some 3 :=
  run_ncomp_range K P hK checked c h gr hg

end Ampy
