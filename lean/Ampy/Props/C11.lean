import Ampy.Lemmas.ParamsSep
/-!
# C11 — running never modifies caller data, caller parameters or the global parameters

The parameter world (`Sys`, Model/Params.lean) has Python's object identities: a mutation of a dict or
list is seen through every alias.  `Sys.Inv` (every tag below the allocation counter; the global shares no
mutable node with any snapshot or caller dictionary; distinct snapshots and callers share no dict node)
holds in the initial world and after every history.  A snapshot may share *list* leaves with the caller
dictionary it was built from (the code stores the caller's list objects themselves): a real alias, outside
what C11 claims, reported in the evidence.  The caller's DataFrame is handled by the frame model (`screen`
works on a copy and `construct` never returns the argument): checked on the real code by the harness.
-/
namespace Ampy

/-- The separation invariant holds after every history of construct / edit / set_prms / reset_prms
operations from a freshly loaded parameter world. -/
theorem C11_sep_invariant (defaults : PTree) (ops : List SOp) :
    ((Sys.init defaults).run ops).1.WF ∧ ((Sys.init defaults).run ops).1.Sep :=
  run_wf_sep defaults ops

/-- One step preserves it (with the tag-kind consistency of caller dictionaries, which `deepcopy`
guarantees for every dictionary a caller can build). -/
theorem C11_sep_step (s : Sys) (op : SOp) (hw : s.WF) (hs : s.Sep) (hk : s.Kinds) :
    (s.step op).1.WF ∧ (s.step op).1.Sep ∧ (s.step op).1.Kinds :=
  step_wf_sep' s op hw hs hk

/-- Constructing a chunk leaves the global dictionary, every caller dictionary and every existing
snapshot exactly as they were — contents and identities. -/
theorem C11_construct_pure (s : Sys) (c : Option Nat) :
    (s.step (.construct c)).1.global = s.global ∧ (s.step (.construct c)).1.callers = s.callers ∧
    ∀ (j : Nat) (t : PTree), s.snaps[j]? = some t → (s.step (.construct c)).1.snaps[j]? = some t :=
  construct_pure s c

/-- The snapshot is private: later edits of the global parameters (direct edits, `set_prms`,
`reset_prms`) do not affect any existing chunk (nor any caller dictionary). -/
theorem C11_snapshot_fixed (s : Sys) (hw : s.WF) (hs : s.Sep) (op : SOp)
    (hop : (∃ p v, op = .setGlobal p v) ∨ (∃ y, op = .setPrms y) ∨ (∃ w, op = .reset w)) :
    (s.step op).1.snaps = s.snaps ∧ (s.step op).1.callers = s.callers :=
  global_edit_keeps_snaps s hw hs op hop

/-- Edits of a snapshot never leak into the global parameters, the caller dictionaries or the other
snapshots … -/
theorem C11_no_leak (s : Sys) (hw : s.WF) (hs : s.Sep) (j : Nat) (p : List String) (v : PTree) :
    (s.step (.setSnap j p v)).1.global = s.global ∧ (s.step (.setSnap j p v)).1.callers = s.callers ∧
    ∀ (i : Nat) (t : PTree), i ≠ j → s.snaps[i]? = some t → (s.step (.setSnap j p v)).1.snaps[i]? = some t :=
  snap_edit_no_leak s hw hs j p v

/-- … nor into chunks built afterwards from the global parameters: same outcome, and (when the
construction succeeds) same contents as if the snapshot had never been edited. -/
theorem C11_no_leak_later (s : Sys) (hw : s.WF) (hs : s.Sep) (j : Nat) (p : List String) (v : PTree)
    (c : Option Nat) (hok : ∃ w, (s.step (.construct c)).2 = .ok w) :
    ((s.step (.setSnap j p v)).1.step (.construct c)).2 = (s.step (.construct c)).2 ∧
    (((s.step (.setSnap j p v)).1.step (.construct c)).1.snaps.getLast?).map PTree.strip =
      ((s.step (.construct c)).1.snaps.getLast?).map PTree.strip :=
  snap_edit_later_construct' s hw hs j p v c hok

/-- `copy.deepcopy`: same contents, only fresh identities. -/
theorem C11_deepcopy_fresh (t : PTree) (n : Nat) :
    (t.deepcopy n).1.strip = t.strip ∧ n ≤ (t.deepcopy n).2 ∧
    ∀ i ∈ (t.deepcopy n).1.ids, n ≤ i ∧ i < (t.deepcopy n).2 :=
  deepcopy_spec t n

end Ampy
