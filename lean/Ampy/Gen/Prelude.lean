import Ampy.Model.Wmo
/-!
# Semantics of the Python subset the source translator (`harness/py2lean.py`) emits

The files `Ampy/Gen/Src*.lean` are **generated from `/repo`'s current source on every run** by
`harness/py2lean.py`; they use only the operations defined here.  This file is therefore the
(hand-written, trusted) meaning of the translated subset:

* Python `int` is `Int`, `bool` is `Bool`, `str` is `String`, a `list` is a `List`.
* A Python / numpy `float` is `PyFloat = Option Rat`: an exact rational, or NaN (`none`).  Binary64
  rounding is **not** modelled (DESIGN.md §3.1: it is validated by the correspondence harness);
  every comparison with NaN is `false`, every arithmetic operation with NaN is NaN — as in IEEE.
  Division is only translated when the divisor is a non-zero literal constant.
* `np.floor`, `np.ceil`, `np.round` (half to even), `np.isnan`, `int(x)` / `.astype(int)`
  (truncation; `ValueError` on NaN) as below.  `roundHalfEven'` is deliberately *not* the
  model's definition but an independent one; the equivalence is proved in `Lemmas/GenEquiv`.
* `f'{n:03}'` is the model's `fmt03` (shared, trusted formatting definition).
* Exceptions: `raise AmpycloudError(...)` is `.error (.ampy "")`; anything else Python would raise
  inside the subset (`int(nan)`) is `.error (.other cls)`.

Core Lean only (no Mathlib).
-/
namespace Ampy.Py

abbrev PyFloat := Option Rat

namespace F

def ofInt (n : Int) : PyFloat := some (n : Rat)
def ofRat (r : Rat) : PyFloat := some r
def nan : PyFloat := none

def isnan (x : PyFloat) : Bool := x.isNone

def le : PyFloat → PyFloat → Bool
  | some a, some b => decide (a ≤ b)
  | _, _ => false
def lt : PyFloat → PyFloat → Bool
  | some a, some b => decide (a < b)
  | _, _ => false
def ge (a b : PyFloat) : Bool := le b a
def gt (a b : PyFloat) : Bool := lt b a
def eq : PyFloat → PyFloat → Bool
  | some a, some b => decide (a = b)
  | _, _ => false
def ne (a b : PyFloat) : Bool := !(eq a b)

def add : PyFloat → PyFloat → PyFloat
  | some a, some b => some (a + b)
  | _, _ => none
def sub : PyFloat → PyFloat → PyFloat
  | some a, some b => some (a - b)
  | _, _ => none
def mul : PyFloat → PyFloat → PyFloat
  | some a, some b => some (a * b)
  | _, _ => none
/-- Only emitted by the translator for a literal, non-zero divisor. -/
def div : PyFloat → PyFloat → PyFloat
  | some a, some b => some (a / b)
  | _, _ => none
/-- Division by a non-literal divisor: where numpy gives `±inf` / `nan` (divisor 0) this is NaN — infinities are not
represented; the properties only speak about non-zero divisors (positive scales, non-empty ranges). -/
def divz : PyFloat → PyFloat → PyFloat
  | some a, some b => if b = 0 then none else some (a / b)
  | _, _ => none
def neg : PyFloat → PyFloat
  | some a => some (-a)
  | none => none

def floor (x : PyFloat) : PyFloat := x.map fun r => ((r.floor : Int) : Rat)
def ceil (x : PyFloat) : PyFloat := x.map fun r => ((r.ceil : Int) : Rat)

/-- Round half to even, stated independently of the model: away from a tie it is
`⌊x + 1/2⌋`; on a tie (`2x` an odd integer) it is the even one of the two neighbours. -/
def roundHalfEven' (r : Rat) : Int :=
  let t := (r + 1/2).floor
  if ((t : Rat) = r + 1/2) ∧ t % 2 ≠ 0 then t - 1 else t

def round (x : PyFloat) : PyFloat := x.map fun r => ((roundHalfEven' r : Int) : Rat)

/-- Python's `int(x)` / numpy's `.astype(int)` on a finite value: truncation toward zero.
`int(nan)` raises `ValueError`. -/
def toInt : PyFloat → Except AmpyErr Int
  | some r => .ok (if 0 ≤ r then r.floor else r.ceil)
  | none => .error (.other "ValueError")

end F

/-- Python's `x in [a, b, …]` for ints. -/
def elemInt (x : Int) (l : List Int) : Bool := l.contains x

/-- `lst.count(True)` as a Python `int`. -/
def countTrue (l : List Bool) : Int := ((l.count true : Nat) : Int)

/-- `len(lst)` as a Python `int`. -/
def len {α} (l : List α) : Int := ((l.length : Nat) : Int)

/-- Python's `vals[-k:]` for an `int` `k ≥ 0`: the last `k` elements — and, since `-0 == 0`, the
whole list when `k = 0`; when `k > len` the whole list as well. -/
def lastK {α} (l : List α) (k : Int) : List α :=
  if k ≤ 0 then (if k = 0 then l else l.drop (-k).toNat)   -- `vals[-k:]` with negative k is `vals[|k|:]`
  else l.drop (l.length - k.toNat)

/-- Python's `lst[lo:]` for an `int` `lo`: from position `lo` when `lo ≥ 0`, the last `|lo|` elements when `lo < 0`
(everything when `|lo|` exceeds the length).  In particular `lst[-k:]` with `k = 0` is the whole list (`-0 == 0`). -/
def sliceFrom {α} (l : List α) (lo : Int) : List α :=
  if 0 ≤ lo then l.drop lo.toNat else l.drop (l.length - (-lo).toNat)

/-- `np.searchsorted(a, x)` (side 'left') on an ascending list: the number of elements `< x`. -/
def searchsortedLeft (l : List Rat) (x : Rat) : Int := (((l.filter (· < x)).length : Nat) : Int)

/-- Python's `lst[i]` for an `int` `i`: negative indices count from the end, out of range is an `IndexError`. -/
def getIdx {α} (l : List α) (i : Int) : Except AmpyErr α :=
  let j := if i < 0 then i + (l.length : Int) else i
  if 0 ≤ j then
    match l[j.toNat]? with
    | some v => .ok v
    | none => .error (.other "IndexError")
  else .error (.other "IndexError")

/-- Python's `range(n)` for an `int` `n` (empty when `n ≤ 0`). -/
def pyRange (n : Int) : List Int := (List.range n.toNat).map fun k => ((k : Nat) : Int)

/-- Reading a local that is only bound on some paths: `UnboundLocalError` when it is not. -/
def unboundLocal {α} : Option α → Except AmpyErr α
  | some v => .ok v
  | none => .error (.other "UnboundLocalError")

/-- Python's `str(n)` for an `int`: decimal digits, `-` in front of a negative number. -/
def pyStrInt (n : Int) : String := toString n

/-- Python's `int(x)` for an exact rational (truncation toward zero). -/
def truncRat (r : Rat) : Int := if 0 ≤ r then r.floor else r.ceil

end Ampy.Py
