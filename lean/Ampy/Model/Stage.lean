import Ampy.Model.Pipeline
/-
The stage machine of a `CeiloChunk`: the ten stage / query operations a caller can issue in any order
(C14).  Third-party kernels are functions of their arguments (`Kern`), i.e. deterministic.
-/
namespace Ampy

inductive Op where
  | findSlices | findGroups | findLayers
  | metarize (w : Which)
  | metarMsg (w : Which)
  deriving DecidableEq, Repr

inductive Out where
  | done                 -- the call returned
  | msg (s : String)     -- `metar_msg` returned this string
  | ampyError            -- the call raised `AmpycloudError`
  | crash (cls : String) -- any other exception
  deriving DecidableEq, Repr

def outOfErr : AmpyErr → Out
  | .ampy _ => .ampyError
  | .other c => .crash c

def idsOf {α} (c : Chunk α) : Which → Option (List Int)
  | .slices => c.sids
  | .groups => c.gids
  | .layers => c.lids

def tableOf {α} (c : Chunk α) : Which → Option Table
  | .slices => c.slices
  | .groups => c.groups
  | .layers => c.layers

/-- `chunk.metarize(which)` called directly. -/
def metarizeOp {α} [DecidableEq α] (K : Kern) (P : PPrms α) (c : Chunk α) (w : Which) : Except AmpyErr (Chunk α) :=
  match idsOf c w with
  | none => .error (.ampy "No slices/groups/layers found. Have they been computed ?")
  | some ids =>
    match metarize K.toMetK P.toPrms w c.layers.isSome c.data ids with
    | .error e => .error e
    | .ok t =>
      match w with
      | .slices => .ok { c with slices := some (carryIsolated c.slices t) }
      | .groups => .ok { c with groups := some t }
      | .layers => .ok { c with layers := some t }

/-- `chunk.metar_msg(which)`. -/
def metarMsgOp {α} (P : PPrms α) (c : Chunk α) (w : Which) : Except AmpyErr String :=
  match tableOf c w, idsOf c w with
  | some t, some ids => .ok (metarMsg P.msa c.flag (nWhich ids) t)
  | _, _ => .error (.ampy "No slices/groups/layers information found. Have they been computed ?")

/-- One call on the chunk: new state and what the caller sees. A refused call leaves the state as it was. -/
def step {α} [DecidableEq α] (K : Kern) (P : PPrms α) (c : Chunk α) : Op → Chunk α × Out
  | .findSlices => match findSlices K P c with | .ok c' => (c', .done) | .error e => (c, outOfErr e)
  | .findGroups => match findGroups K P c with | .ok c' => (c', .done) | .error e => (c, outOfErr e)
  | .findLayers => match findLayers K P c with | .ok c' => (c', .done) | .error e => (c, outOfErr e)
  | .metarize w => match metarizeOp K P c w with | .ok c' => (c', .done) | .error e => (c, outOfErr e)
  | .metarMsg w => match metarMsgOp P c w with | .ok s => (c, .msg s) | .error e => (c, outOfErr e)

/-- A whole history of calls: final state and the outputs in order. -/
def runOps {α} [DecidableEq α] (K : Kern) (P : PPrms α) (c : Chunk α) : List Op → Chunk α × List Out
  | [] => (c, [])
  | op :: rest =>
    let (c', o) := step K P c op
    let (c'', os) := runOps K P c' rest
    (c'', o :: os)

end Ampy
