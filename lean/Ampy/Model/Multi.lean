import Ampy.Model.Stage
/-
Several chunks in one process (C13): every chunk carries its own parameter snapshot; a stage call on
chunk `i` reads and writes chunk `i` only.  Third-party kernels are deterministic functions.
-/
namespace Ampy

/-- One call on chunk `i` of a family of chunks, each with its own parameters. -/
def stepAt {α} [DecidableEq α] (K : Kern) (Ps : Nat → PPrms α) (cs : List (Chunk α)) (i : Nat) (op : Op) :
    List (Chunk α) × Option Out :=
  match cs[i]? with
  | none => (cs, none)
  | some c =>
    let (c', o) := step K (Ps i) c op
    (cs.set i c', some o)

/-- A schedule: which chunk performs which call, in global order. -/
def runSched {α} [DecidableEq α] (K : Kern) (Ps : Nat → PPrms α) (cs : List (Chunk α)) :
    List (Nat × Op) → List (Chunk α) × List (Nat × Option Out)
  | [] => (cs, [])
  | (i, op) :: rest =>
    let (cs', o) := stepAt K Ps cs i op
    let (cs'', os) := runSched K Ps cs' rest
    (cs'', (i, o) :: os)

/-- The calls of chunk `i` in a schedule. -/
def opsOf (i : Nat) (sched : List (Nat × Op)) : List Op := (sched.filter (·.1 = i)).map (·.2)

end Ampy
