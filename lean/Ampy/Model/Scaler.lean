import Ampy.Model.Basic
/-
Model of `ampycloud/scaler.py` over exact rationals; `none` is NaN.
-/
namespace Ampy

/-- The non-NaN entries. -/
def valids (vals : List (Option Rat)) : List Rat := vals.filterMap id

/-- `np.nanmax` / `np.nanmin` (on arrays with at least one non-NaN entry). -/
def nanmax (vals : List (Option Rat)) : Rat := maxRat (valids vals)
def nanmin (vals : List (Option Rat)) : Rat := minRat (valids vals)

inductive ScaleMode where
  | doIt | undo
  deriving DecidableEq, Repr

/-- `shift_and_scale` with an explicit shift. -/
def shiftScale1 (shift scale : Rat) (mode : ScaleMode) (v : Rat) : Rat :=
  match mode with
  | .doIt => (v - shift) / scale
  | .undo => v * scale + shift

/-- `scaler.shift_and_scale(vals, shift, scale, mode)`; `shift = none` means `nanmax(vals)`. -/
def shiftAndScale (vals : List (Option Rat)) (shift : Option Rat) (scale : Rat) (mode : ScaleMode) :
    List (Option Rat) :=
  let s := shift.getD (nanmax vals)
  vals.map (Option.map (shiftScale1 s scale mode))

/-- One value through `minmax_scale`.  A null range maps everything onto 0 (the code says so explicitly since the
repair of F6; before, it divided by zero and produced NaN). -/
def minmax1 (lo hi : Rat) (mode : ScaleMode) (v : Rat) : Rat :=
  match mode with
  | .doIt => if hi = lo then 0 else (v - lo) / (hi - lo)
  | .undo => v * (hi - lo) + lo

/-- `scaler.minmax_scale(vals, min_val, max_val, mode)`. -/
def minmaxScale (vals : List (Option Rat)) (lo hi : Option Rat) (mode : ScaleMode) : List (Option Rat) :=
  let a := lo.getD (nanmin vals)
  let b := hi.getD (nanmax vals)
  vals.map (Option.map (minmax1 a b mode))

/-- `scaler.minrange2minmax(vals, min_range)`. -/
def minrange2minmax (vals : List (Option Rat)) (minRange : Rat) : Rat × Rat :=
  let lo := nanmin vals
  let hi := nanmax vals
  if hi - lo ≥ minRange then (lo, hi)
  else
    let mid := (hi + lo) / 2
    (mid - minRange / 2, mid + minRange / 2)

/-- `np.sum((np.diff(steps)/scales[1:-1])[:k])` preceded by `steps[0]/scales[0]`: the scaled position of
step edge number `k` (0-based), i.e. `cont_corr` for bin `k+1`. -/
def stepEdgeOut (steps scales : List Rat) : Nat → Rat
  | 0 => 0
  | k + 1 =>
    match k with
    | 0 => steps.getD 0 0 / scales.getD 0 1
    | j + 1 => stepEdgeOut steps scales (j + 1) + (steps.getD (j + 1) 0 - steps.getD j 0) / scales.getD (j + 1) 1

/-- The bin (index into `scales`) a value falls in: the number of step edges `≤ v`
(`edges_in[sid] <= v < edges_in[sid+1]`). -/
def stepBin (edges : List Rat) (v : Rat) : Nat := (edges.filter (· ≤ v)).length

/-- `step_scale` on one value, mode `do`. -/
def stepDo (steps scales : List Rat) (v : Rat) : Rat :=
  let sid := stepBin steps v
  let offset := if sid = 0 then 0 else steps.getD (sid - 1) 0
  (v - offset) / scales.getD sid 1 + stepEdgeOut steps scales sid

/-- `step_scale` on one value, mode `undo` (bins are delimited by the scaled edges). -/
def stepUndo (steps scales : List Rat) (v : Rat) : Rat :=
  let edgesOut := (List.range steps.length).map fun k => stepEdgeOut steps scales (k + 1)
  let sid := stepBin edgesOut v
  let offset := if sid = 0 then 0 else steps.getD (sid - 1) 0
  (v - stepEdgeOut steps scales sid) * scales.getD sid 1 + offset

def isSortedRat (l : List Rat) : Bool := sortedRat l

/-- `scaler.step_scale(vals, steps, scales, mode)`. -/
def stepScale (vals : List (Option Rat)) (steps scales : List Rat) (mode : ScaleMode) :
    Except AmpyErr (List (Option Rat)) :=
  if steps.length + 1 ≠ scales.length then .error (.ampy "Steps and scales have incompatible lengths.")
  else if !isSortedRat steps then .error (.ampy "Steps should be ordered from smallest to largest !")
  else
    match mode with
    | .doIt => .ok (vals.map (Option.map (stepDo steps scales)))
    | .undo => .ok (vals.map (Option.map (stepUndo steps scales)))

/-- The user-level scaling request of `apply_scaling` (`fct` + keyword arguments). -/
inductive ScaleSpec where
  | none
  | shift (shift : Option Rat) (scale : Rat)
  | minmax (minRange : Rat)                 -- user keywords: min_range
  | minmaxFixed (lo hi : Rat)               -- deterministic keywords: min_val, max_val
  | step (steps scales : List Rat)
  deriving Repr

/-- `scaler.apply_scaling(vals, fct, **kwargs)` in mode `do`. -/
def applyScaling (vals : List (Option Rat)) (spec : ScaleSpec) : Except AmpyErr (List (Option Rat)) :=
  match spec with
  | .none => .ok vals
  | _ =>
    if (valids vals).isEmpty then .ok vals          -- only NaNs: returned as is
    else
      match spec with
      | .none => .ok vals
      | .shift s k => .ok (shiftAndScale vals s k .doIt)
      | .minmax mr =>
        let (lo, hi) := minrange2minmax vals mr
        .ok (minmaxScale vals (some lo) (some hi) .doIt)
      | .minmaxFixed lo hi => .ok (minmaxScale vals (some lo) (some hi) .doIt)
      | .step st sc => stepScale vals st sc .doIt

/-- `convert_kwargs`: the deterministic keywords that reproduce (and undo) the scaling of `vals`. -/
def convertSpec (vals : List (Option Rat)) (spec : ScaleSpec) : ScaleSpec :=
  match spec with
  | .shift none k => .shift (some (nanmax vals)) k
  | .minmax mr => let (lo, hi) := minrange2minmax vals mr; .minmaxFixed lo hi
  | s => s

/-- Undo a scaling given deterministic keywords. -/
def undoScaling (vals : List (Option Rat)) (spec : ScaleSpec) : Except AmpyErr (List (Option Rat)) :=
  match spec with
  | .none => .ok vals
  | .shift (some s) k => .ok (shiftAndScale vals (some s) k .undo)
  | .shift none _ => .error (.ampy "I cannot get `shift` from the shift-and-scaled data !")
  | .minmax _ => .error (.ampy "I cannot get `min_val` and `max_val` from minmax-scaled data !")
  | .minmaxFixed lo hi => .ok (minmaxScale vals (some lo) (some hi) .undo)
  | .step st sc => stepScale vals st sc .undo

end Ampy
