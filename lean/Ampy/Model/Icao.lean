/-
Model of `ampycloud/icao.py::significant_cloud`.

The Python loop carries `sig_level` and the list `sig` built so far; a layer is flagged when
`okta > sig_level and sig.count(True) < 3`.  The model keeps exactly that state.
-/
namespace Ampy

/-- The loop of `significant_cloud`: `lvl` is `sig_level`, `sig` the flags appended so far. -/
def sigLoop : Int → List Bool → List Int → List Bool
  | _, sig, [] => sig
  | lvl, sig, o :: os =>
    if o > lvl ∧ sig.count true < 3 then sigLoop (lvl + 2) (sig ++ [true]) os
    else sigLoop lvl (sig ++ [false]) os

/-- `icao.significant_cloud(oktas)`. -/
def significantCloud (oktas : List Int) : List Bool := sigLoop 0 [] oktas

end Ampy
