import Ampy.Model.Metar
import Ampy.Model.Scaler
/-
Model of the processing cascade of `CeiloChunk` (data.py): cropping at construction,
`find_slices`, `find_groups` (bundles, per-bundle clustering, majority vote, `_merge_close_groups`),
`find_layers` (skip conditions, `layer.ncomp_from_gmm`, sub-layer ids), with the tables built by
`metarize` after each stage.

Third-party answers are parameters (`Kern`): agglomerative clustering, Gaussian mixtures,
`best_gmm` in mode `prob` (uses `exp`), `argsort`, besides those of `MetK`.
-/
namespace Ampy

/-- Parameters of the whole cascade. -/
structure PPrms (α : Type) extends Prms α where
  /-- `SLICING_PRMS.height_scale_mode` + `height_scale_kwargs` -/
  sliceHScale : ScaleSpec := .minmax 1000

/-- One Gaussian-mixture fit: the predicted component of every point and the AIC/BIC score. -/
structure GmmFit where
  labels : List Nat
  score : Rat
  deriving Repr

/-- Third-party answers used by the cascade. -/
structure Kern extends MetK where
  /-- `AgglomerativeClustering(linkage, metric, distance_threshold).fit(pts).labels_` -/
  cluster : (linkage : String) → (thr : Rat) → List (Rat × Rat) → List Nat
  /-- `GaussianMixture(n, 'spherical', random_state).fit(vals)`: `predict(vals)` and `bic/aic(vals)` -/
  gmm : (scores : String) → List Rat → Nat → GmmFit
  /-- `layer.best_gmm(abics, mode='prob', min_prob)` (exponentials: not modelled) -/
  bestProb : List Rat → Rat → Nat
  /-- `np.argsort` of the component base heights -/
  argsort : List Rat → List Nat
  /-- `prelim_groups.sort_values('height_base')` in `_merge_close_groups` (an object-dtype column:
  pandas may order equal bases differently from the float sort of `metarize`) -/
  prelimOrder : List Rat → List Nat

/-! ### Construction: cropping above MSA + buffer (`_cleanup_pdf`, after the consistency check) -/

def aboveLim {α} (lim : Rat) (h : Hit α) : Bool :=
  match h.height with
  | some y => decide (y > lim)
  | none => false

/-- Rows above the limit: first/VV hits become non-detections, higher hits are dropped. -/
def cropRows {α} (lim : Rat) (data : List (Hit α)) : List (Hit α) :=
  data.filterMap fun h =>
    if aboveLim lim h then (if h.type ≤ 1 then some { h with type := 0, height := none } else none)
    else some h

/-- `_cleanup_pdf` after `check_data_consistency`: the cropped frame and the high-cloud flag. -/
def crop {α} (P : Prms α) (data : List (Hit α)) : List (Hit α) × Bool :=
  match P.msa with
  | none => (data, false)
  | some m =>
    let lim := m + P.msaBuf
    (cropRows lim data, decide ((((data.filter (aboveLim lim)).length : Nat) : Rat) > P.t0))

/-! ### find_slices -/

def heights {α} (data : List (Hit α)) : List (Option Rat) := data.map (·.height)
def dts {α} (data : List (Hit α)) : List (Option Rat) := data.map fun h => some h.dt

/-- `data_rescaled(...)[['dt','height']][valids].to_numpy()`: scaled (dt, height) of the rows whose
scaled height is not NaN and that pass `keep`. -/
def scaledPoints {α} (data : List (Hit α)) (dtScale : Rat) (hSpec : ScaleSpec) (keep : List Bool) :
    Except AmpyErr (List (Rat × Rat)) := do
  let sdt ← applyScaling (dts data) (.shift none dtScale)
  let sh ← applyScaling (heights data) hSpec
  pure (((sdt.zip sh).zip keep).filterMap fun ((t, y), k) =>
    match t, y with
    | some t, some y => if k then some (t, y) else none
    | _, _ => none)

/-- Write `labels` (one per row with a valid height, in row order) into an id column that is `dflt`
elsewhere. -/
def scatterLabels {α} (data : List (Hit α)) (labels : List Int) (dflt : Int) : List Int :=
  (data.foldl (fun (acc : List Int × List Int) h =>
    match h.height, acc.2 with
    | some _, l :: rest => (acc.1 ++ [l], rest)
    | some _, [] => (acc.1 ++ [dflt], [])
    | none, ls => (acc.1 ++ [dflt], ls)) ([], labels)).1

/-- The slice id column written by `find_slices`. -/
def sliceIds {α} (K : Kern) (P : PPrms α) (data : List (Hit α)) : Except AmpyErr (List Int) := do
  let nvalid := (data.filter (·.height.isSome)).length
  if nvalid = 1 then pure (scatterLabels data [1] (-1))
  else if nvalid > 1 then
    let pts ← scaledPoints data P.sliceDtScale P.sliceHScale (data.map fun _ => true)
    let labels := K.cluster "average" P.sliceThr pts
    pure (scatterLabels data (labels.map Int.ofNat) (-1))
  else pure (data.map fun _ => -1)

/-! ### find_groups -/

/-- Overlap test of `find_groups` between slice `i` and slice `j` of the slices table. -/
def overlaps (pad : Rat) (ri rj : Row) (jBelow : Bool) : Bool :=
  if jBelow then decide (ri.hmin - pad * ri.thick < rj.hmax + pad * rj.thick)
  else decide (ri.hmax + pad * ri.thick > rj.hmin - pad * rj.thick)

/-- Indices of the slices overlapping slice `i` (`close_inds`). -/
def closeInds (pad : Rat) (t : Table) (i : Nat) : List Nat :=
  match t[i]? with
  | none => []
  | some ri =>
    (List.range t.length).filter fun j =>
      match t[j]? with
      | some rj => if j < i then overlaps pad ri rj true else if i < j then overlaps pad ri rj false else false
      | none => false

/-- Greedy bundle assembly exactly as coded: a non-isolated slice joins the first existing bundle
that shares a slice with its `close_inds`, else opens a new bundle. -/
def addToBundles (bundles : List (List Nat)) (i : Nat) (close : List Nat) : List (List Nat) :=
  match bundles with
  | [] => [[i]]
  | b :: rest => if b.any (close.contains ·) then (b ++ [i]) :: rest else b :: addToBundles rest i close

def bundlesOf (pad : Rat) (t : Table) : List (List Nat) × List Bool :=
  (List.range t.length).foldl (fun (acc : List (List Nat) × List Bool) i =>
    let close := closeInds pad t i
    if close.isEmpty then (acc.1, acc.2 ++ [true]) else (addToBundles acc.1 i close, acc.2 ++ [false])) ([], [])

/-- `Series.mode()[0]`: the smallest among the most frequent values. -/
def modeInt (l : List Int) : Option Int :=
  let cands := uniqueSorted l
  cands.foldl (fun (best : Option Int) c =>
    match best with
    | none => some c
    | some b => if l.count c > l.count b then some c else some b) none

/-- Number of clusters reported by scikit-learn: labels are `0 .. n-1`. -/
def nLabels (labels : List Nat) : Nat := labels.foldl (fun m l => max m (l + 1)) 0

/-- Process one bundle: cluster its hits, give each cluster the majority slice id.
`gids` is the group id column so far (`none` = not assigned). -/
def groupBundle {α} (K : Kern) (P : PPrms α) (data : List (Hit α)) (sids : List Int) (slices : Table)
    (bundle : List Nat) (gids : List (Option Int)) : Except AmpyErr (List (Option Int)) := do
  let cids := bundle.filterMap fun i => (slices[i]?).map (·.cid)
  let inBundle := sids.map (cids.contains ·)
  let fl := minRat (bundle.filterMap fun i => (slices[i]?).map (·.fluff))
  let scale := min P.hScaleHi (max P.hScaleLo fl)
  let pts ← scaledPoints data P.grpDtScale (.shift (some 0) scale) inBundle
  if pts.length < 2 then pure gids
  else
    let labels := K.cluster "single" 1 pts
    -- positions (row numbers) of the clustered hits, in row order
    let rowsIdx := ((List.range data.length).zip (data.zip inBundle)).filterMap fun (i, (h, k)) =>
      if k && h.height.isSome then some i else none
    pure ((List.range (nLabels labels)).foldl (fun (g : List (Option Int)) c =>
      let rowsC := (rowsIdx.zip labels).filterMap fun (i, l) => if l = c then some i else none
      match modeInt (rowsC.filterMap (sids[·]?)) with
      | some m => (List.range g.length).map fun i => if rowsC.contains i then some m else g.getD i none
      | none => g) gids)

/-- `_get_min_sep_for_height`. -/
def minSepFor {α} (P : Prms α) (h : Rat) : Except AmpyErr Rat :=
  if P.minSepLims.length + 1 ≠ P.minSepVals.length then
    .error (.ampy "\"MIN_SEP_LIMS\" must have one less item than \"MIN_SEP_VALS\".")
  else
    match P.minSepVals[(P.minSepLims.filter (· < h)).length]? with
    | some v => .ok v
    | none => .error (.other "IndexError")

/-- First index `k ≥ 1` (into the prelim table) whose base is closer than `minSep(base k)` to the one below. -/
def firstTooClose {α} (P : Prms α) (bases : List Rat) : Except AmpyErr (Option Nat) := do
  let seps ← bases.mapM (minSepFor P)
  pure ((List.range bases.length).find? fun k =>
    k ≥ 1 && (match bases[k]?, bases[k - 1]?, seps[k]? with
      | some b, some a, some s => decide (b - a < s)
      | _, _, _ => false))

/-- The base height of the group `cid` with the ceilometer exclusions (`_exclude_for_base_height_calc`). -/
def groupBase {α} [DecidableEq α] (K : Kern) (P : PPrms α) (data : List (Hit α)) (gids : List Int) (cid : Int) :
    Except AmpyErr Rat :=
  baseForMask K.toMetK P.toPrms data (baseMask P.toPrms data gids cid)

/-- The loop of `_merge_close_groups` on the prelim table `(cid, base)` sorted by base; `fuel` bounds
the number of iterations (each one removes a row). -/
def mergeLoop {α} [DecidableEq α] (K : Kern) (P : PPrms α) (data : List (Hit α)) :
    Nat → List Int → List (Int × Rat) → Except AmpyErr (List Int × List (Int × Rat))
  | 0, gids, prelim => .ok (gids, prelim)
  | fuel + 1, gids, prelim => do
    match ← firstTooClose P.toPrms (prelim.map (·.2)) with
    | none => pure (gids, prelim)
    | some k =>
      match prelim[k]?, prelim[k - 1]? with
      | some (cidK, _), some (cidB, _) =>
        let gids' := gids.map fun g => if g = cidK then cidB else g
        let b ← groupBase K P data gids' cidB
        let prelim' := (prelim.eraseIdx k).set (k - 1) (cidB, b)
        mergeLoop K P data fuel gids' prelim'
      | _, _ => pure (gids, prelim)

/-- `_merge_close_groups`. -/
def mergeCloseGroups {α} [DecidableEq α] (K : Kern) (P : PPrms α) (data : List (Hit α)) (gids : List Int) :
    Except AmpyErr (List Int) := do
  let cids := clusterIds gids
  let bases ← cids.mapM (groupBase K P data gids)
  let prelim := applyPerm (K.prelimOrder bases) (cids.zip bases)
  let (g, _) ← mergeLoop K P data prelim.length gids prelim
  pure g

/-- `find_groups` up to the group id column and the slices' isolation flags. -/
def groupIds {α} [DecidableEq α] (K : Kern) (P : PPrms α) (data : List (Hit α)) (sids : List Int) (slices : Table) :
    Except AmpyErr (List Int × List Bool) := do
  let (bundles, iso) := bundlesOf (P.padPerc / 100) slices
  let g0 : List (Option Int) := data.map fun _ => none
  let g1 ← bundles.foldlM (fun g b => groupBundle K P data sids slices b g) g0
  let filled := (g1.zip sids).map fun (g, s) => g.getD s
  let merged ← mergeCloseGroups K P data filled
  pure (merged, iso)

/-! ### find_layers -/

/-- `layer.best_gmm` in mode `delta`. -/
def bestDelta (abics : List Rat) (gain : Rat) : Nat :=
  (List.range (abics.length - 1)).foldl (fun best m =>
    match abics[m + 1]?, abics[best]? with
    | some a, some b => if a < gain * b then m + 1 else best
    | _, _ => best) 0

/-- Boost the score of mixtures that leave a component empty (`Fix #119`), sequentially. -/
def boostScores (fits : List GmmFit) : List Rat :=
  (List.range fits.length).foldl (fun (ab : List Rat) i =>
    match fits[i]? with
    | some f => if (f.labels.eraseDups).length < i + 1 then ab.set i (maxRat ab + 1) else ab
    | none => ab) (fits.map (·.score))

/-- Re-merge pass of `ncomp_from_gmm` over the sorted component bases. -/
def remerge (minSep : Rat) (sortedBases : List Rat) (order : List Nat) (ids : List Nat) (n : Nat) :
    List Nat × Nat :=
  let step := fun (st : List Nat × List Nat × Nat) (ind : Nat) =>
    let (compIds, bestIds, ncomp) := st
    match sortedBases[ind + 1]?, sortedBases[ind]? with
    | some hi, some lo =>
      if hi - lo ≥ minSep then st
      else
        match compIds[ind + 1]?, compIds[ind]? with
        | some src, some dst =>
          (compIds.set (ind + 1) dst, bestIds.map (fun b => if b = src then dst else b), ncomp - 1)
        | _, _ => st
    | _, _ => st
  let (_, ids', n') := (List.range (sortedBases.length - 1)).foldl step (order, ids, n)
  (ids', n')

/-- `layer.ncomp_from_gmm(vals, ncomp_max, min_sep, layer_base_params, **gmm_kwargs)`:
number of components and the component of every value. -/
def ncompFromGmm {α} (K : Kern) (P : PPrms α) (vals : List Rat) (ncompMax : Nat) (minSep : Rat) :
    Except AmpyErr (Nat × List Nat) := do
  if (vals.eraseDups).length = 1 then pure (1, vals.map fun _ => 0)
  else
    let ncompMax := min ncompMax (vals.eraseDups).length
    let scaled : List Rat :=
      match P.gmmRescale with
      | none => vals
      | some x => (valids (minmaxScale (vals.map some) none none .doIt)).map (· * x)
    if P.gmmScores ≠ "AIC" ∧ P.gmmScores ≠ "BIC" then throw (.ampy "Unknown scores")
    let fits := (List.range ncompMax).map fun i => K.gmm P.gmmScores scaled (i + 1)
    let abics := boostScores fits
    let best ←
      if P.gmmMode = "delta" then pure (bestDelta abics P.gmmGain)
      else if P.gmmMode = "prob" then pure (K.bestProb abics P.gmmMinProb)
      else if abics.length ≤ 1 then pure 0
      else throw (.ampy "Unknown mode")
    match fits[best]? with
    | none => throw (.other "IndexError")
    | some f =>
      let n := best + 1
      if n = 1 then pure (1, f.labels)
      else
        let bases ← (List.range n).mapM fun i =>
          calcBase K.pctl ((vals.zip f.labels).filterMap fun (v, l) => if l = i then some v else none)
            P.lookback P.basePerc
        let order := K.argsort bases
        let (ids, n') := remerge minSep (applyPerm order bases) order f.labels n
        if (ids.eraseDups).length ≠ n' then throw (.other "AssertionError")
        pure (n', ids)

/-- The mixture that `ncomp_from_gmm` ends up selecting, with its number of components. -/
def selectedFit {α} (K : Kern) (P : PPrms α) (vals : List Rat) (ncompMax : Nat) : Option (Nat × GmmFit) :=
  let ncompMax := min ncompMax (vals.eraseDups).length
  let scaled : List Rat :=
    match P.gmmRescale with
    | none => vals
    | some x => (valids (minmaxScale (vals.map some) none none .doIt)).map (· * x)
  let fits := (List.range ncompMax).map fun i => K.gmm P.gmmScores scaled (i + 1)
  let abics := boostScores fits
  let best := if P.gmmMode = "delta" then bestDelta abics P.gmmGain else K.bestProb abics P.gmmMinProb
  (fits[best]?).map fun f => (best + 1, f)

/-- Largest id of a column (`-1` when empty), for the sub-layer id offset. -/
def maxId (ids : List Int) : Int := ids.foldl max (-1)

def lidOffset (gids : List Int) : Int := max 100 (100 * (1 + maxId gids / 100))

/-- `find_layers` up to the layer id column and the `ncomp` column of the groups table. -/
def layerIds {α} [DecidableEq α] (K : Kern) (P : PPrms α) (data : List (Hit α)) (gids : List Int) (groups : Table) :
    Except AmpyErr (List Int × List Int) := do
  let order := K.dtOrder (data.map (·.dt))
  let off := lidOffset gids
  let step := fun (st : List (Option Int) × List Int) (ind : Nat) => do
    let (lids, ncomps) := st
    match groups[ind]? with
    | none => pure st
    | some g =>
      -- positions of the group's rows in time order, and their heights
      let pos := order.filter fun i => gids[i]? == some g.cid
      let hs := pos.filterMap fun i => (data[i]?).bind (·.height)
      let cond1 := decide ((g.okta : Rat) < P.minOktaToSplit)
      let cond2 := decide (hs.length < 30)
      let cond3 := decide ((hs.eraseDups).length = 1)
      if cond1 || cond2 || cond3 then pure (lids, ncomps ++ [-1])
      else
        let minSep ← minSepFor P.toPrms g.base
        let ncompMax := min (hs.eraseDups).length 3
        let (n, ids) ← ncompFromGmm K P hs ncompMax minSep
        if n > 1 then
          let assign := pos.zip ids
          let lids' := (List.range lids.length).map fun i =>
            match assign.find? (·.1 = i) with
            | some (_, k) => some (off + 10 * (ind : Int) + (k : Int))
            | none => lids.getD i none
          pure (lids', ncomps ++ [(n : Int)])
        else pure (lids, ncomps ++ [(n : Int)])
  let (lids, ncomps) ← (List.range groups.length).foldlM step (data.map (fun _ => none), [])
  pure ((lids.zip gids).map (fun (l, g) => l.getD g), ncomps)

/-- The heights of the hits of group `cid` in the time order returned by the sort (what `find_layers`
hands to `ncomp_from_gmm`). -/
def groupHeights {α} (K : Kern) (data : List (Hit α)) (gids : List Int) (cid : Int) : List Rat :=
  ((K.dtOrder (data.map (·.dt))).filter fun i => gids[i]? == some cid).filterMap fun i => (data[i]?).bind (·.height)

/-- The number of components of the mixture `ncomp_from_gmm` selects for group `g` *before* its re-merge pass
(`none` when the group is not examined: fewer than 30 hits, a single height value, too few oktas). What the group
reports in `ncomp` is the count *after* the re-merge pass. -/
def rawComponents {α} (K : Kern) (P : PPrms α) (data : List (Hit α)) (gids : List Int) (g : Row) : Option Nat :=
  let hs := groupHeights K data gids g.cid
  if decide ((g.okta : Rat) < P.minOktaToSplit) || decide (hs.length < 30) || decide ((hs.eraseDups).length = 1) then none
  else (selectedFit K P hs (min (hs.eraseDups).length 3)).map (·.1)

/-! ### The whole chunk -/

/-- State of a `CeiloChunk`. -/
structure Chunk (α : Type) where
  data : List (Hit α)
  flag : Bool
  sids : Option (List Int) := none
  gids : Option (List Int) := none
  lids : Option (List Int) := none
  slices : Option Table := none
  groups : Option Table := none
  layers : Option Table := none
  deriving Repr

/-- `CeiloChunk(data, prms)` after the consistency check. -/
def construct {α} (P : PPrms α) (checked : List (Hit α)) : Chunk α :=
  let (d, f) := crop P.toPrms checked
  { data := d, flag := f }

def setIsolated (t : Table) (iso : List Bool) : Table :=
  (List.range t.length).filterMap fun i => (t[i]?).map fun r => { r with isolated := some (iso.getD i true) }

def setNcomp (t : Table) (nc : List Int) : Table :=
  (List.range t.length).filterMap fun i => (t[i]?).map fun r => { r with ncomp := some (nc.getD i (-1)) }

/-- `metarize('slices')` keeps the isolation status of an existing slices table (by cluster id). -/
def carryIsolated (old : Option Table) (t : Table) : Table :=
  match old with
  | none => t
  | some o => t.map fun r =>
    match o.find? (·.cid = r.cid) with
    | some p => { r with isolated := p.isolated }
    | none => r

def findSlices {α} [DecidableEq α] (K : Kern) (P : PPrms α) (c : Chunk α) : Except AmpyErr (Chunk α) := do
  let sids ← sliceIds K P c.data
  let t ← metarize K.toMetK P.toPrms .slices c.layers.isSome c.data sids
  pure { c with sids := some sids, slices := some (carryIsolated c.slices t) }

def findGroups {α} [DecidableEq α] (K : Kern) (P : PPrms α) (c : Chunk α) : Except AmpyErr (Chunk α) := do
  match c.slices, c.sids with
  | some sl, some sids =>
    if c.layers.isSome then throw (.ampy "Layering already done")
    let (gids, iso) ← groupIds K P c.data sids sl
    let t ← metarize K.toMetK P.toPrms .groups false c.data gids
    pure { c with gids := some gids, slices := some (setIsolated sl iso), groups := some t }
  | _, _ => throw (.ampy "Slicing not yet done")

def findLayers {α} [DecidableEq α] (K : Kern) (P : PPrms α) (c : Chunk α) : Except AmpyErr (Chunk α) := do
  match c.groups, c.gids with
  | some gr, some gids =>
    let (lids, nc) ← layerIds K P c.data gids gr
    let t ← metarize K.toMetK P.toPrms .layers true c.data lids
    pure { c with lids := some lids, groups := some (setNcomp gr nc), layers := some t }
  | _, _ => throw (.ampy "Grouping not yet done")

/-- `ampycloud.run` after the consistency check. -/
def run {α} [DecidableEq α] (K : Kern) (P : PPrms α) (checked : List (Hit α)) : Except AmpyErr (Chunk α) := do
  let c := construct P checked
  let c ← findSlices K P c
  let c ← findGroups K P c
  findLayers K P c

end Ampy
