import Ampy.Model.Wmo
import Ampy.Model.Icao
/-
Basic data of the processing model: hits, parameters, tables, list helpers that mirror the
numpy/pandas operations the code uses.  Ceilometer names are an arbitrary type with decidable
equality only (C16): the model cannot sort, hash or slice them.
-/
namespace Ampy

/-- One row of the input frame: `height = none` is NaN. -/
structure Hit (α : Type) where
  ceilo : α
  dt : Rat
  height : Option Rat
  type : Int
  deriving DecidableEq, Repr

inductive Which where
  | slices | groups | layers
  deriving DecidableEq, Repr

/-- The leaves of `AMPYCLOUD_PRMS` read by the processing steps. -/
structure Prms (α : Type) where
  msa : Option Rat := none
  msaBuf : Rat := 1500
  t0 : Rat := 3                  -- MAX_HITS_OKTA0
  t8 : Rat := 1                  -- MAX_HOLES_OKTA8
  basePerc : Rat := 5            -- BASE_LVL_HEIGHT_PERC
  lookback : Rat := 100          -- BASE_LVL_LOOKBACK_PERC
  exclude : List α := []         -- EXCLUDE_FOR_BASE_HEIGHT_CALC
  minSepVals : List Rat := [250, 1000]
  minSepLims : List Rat := [10000]
  sliceThr : Rat := 1/5          -- SLICING_PRMS.distance_threshold
  sliceDtScale : Rat := 100000
  padPerc : Rat := 10            -- GROUPING_PRMS.height_pad_perc
  grpDtScale : Rat := 180
  hScaleLo : Rat := 100          -- min(GROUPING_PRMS.height_scale_range)
  hScaleHi : Rat := 500          -- max(GROUPING_PRMS.height_scale_range)
  minOktaToSplit : Rat := 2
  gmmScores : String := "BIC"    -- LAYERING_PRMS.gmm_kwargs.scores
  gmmMode : String := "delta"    -- LAYERING_PRMS.gmm_kwargs.mode
  gmmMinProb : Rat := 1
  gmmGain : Rat := 19/20         -- LAYERING_PRMS.gmm_kwargs.delta_mul_gain
  gmmRescale : Option Rat := some 100

/-- One row of a slices / groups / layers table. -/
structure Row where
  nHits : Nat
  perc : Rat
  okta : Int
  base : Rat
  mean : Rat
  var : Option Rat          -- `height_std²`; `none` = NaN (single member)
  hmin : Rat
  hmax : Rat
  thick : Rat
  fluff : Rat
  code : String
  significant : Bool
  cid : Int
  isolated : Option Bool    -- slices only
  ncomp : Option Int        -- groups only
  deriving DecidableEq, Repr

abbrev Table := List Row

/-! ### numpy / pandas primitives -/

def leRat (a b : Rat) : Bool := decide (a ≤ b)
def leInt (a b : Int) : Bool := decide (a ≤ b)

/-- `np.unique` on integers: sorted, without repeats. -/
def uniqueSorted (l : List Int) : List Int := (l.mergeSort leInt).eraseDups

/-- `_get_cluster_ids`: the distinct ids, ascending, with `-1` removed. -/
def clusterIds (ids : List Int) : List Int := (uniqueSorted ids).filter (· ≠ -1)

/-- `n_slices` / `n_groups` / `n_layers`: number of distinct ids `≥ 0`. -/
def nWhich (ids : List Int) : Nat := ((ids.filter (· ≥ 0)).eraseDups).length

/-- Rows whose id equals `cid`. -/
def members {α} (data : List (Hit α)) (ids : List Int) (cid : Int) : List (Hit α) :=
  (data.zip ids).filterMap fun (h, i) => if i = cid then some h else none

/-- `self.ceilos`: the distinct ceilometer names (numpy sorts them; only the set matters). -/
def ceilos {α} [DecidableEq α] (data : List (Hit α)) : List α := (data.map (·.ceilo)).eraseDups

/-- The code's per-ceilometer count of distinct time stamps, summed over `self.ceilos`. -/
def hitCount {α} [DecidableEq α] (cs : List α) (hs : List (Hit α)) : Nat :=
  (cs.map fun c => ((hs.filter (·.ceilo = c)).map (·.dt)).eraseDups.length).sum

/-- `max_hits_per_layer`. -/
def maxHits {α} [DecidableEq α] (data : List (Hit α)) : Nat := hitCount (ceilos data) data

def sumRat (l : List Rat) : Rat := l.foldl (· + ·) 0

def meanRat (l : List Rat) : Rat := sumRat l / (l.length : Rat)

/-- Sample variance (`ddof = 1`), `none` (NaN) below two values. -/
def varRat (l : List Rat) : Option Rat :=
  if l.length < 2 then none
  else
    let m := meanRat l
    some (sumRat (l.map fun x => (x - m) * (x - m)) / ((l.length : Rat) - 1))

def minRat : List Rat → Rat
  | [] => 0
  | x :: xs => xs.foldl (fun a b => if b < a then b else a) x

def maxRat : List Rat → Rat
  | [] => 0
  | x :: xs => xs.foldl (fun a b => if a < b then b else a) x

def absRat (x : Rat) : Rat := if x < 0 then -x else x

/-- `numpy.percentile(vals, q)` with the default linear interpolation, exactly. -/
def percentile (vals : List Rat) (q : Rat) : Rat :=
  let s := vals.mergeSort leRat
  let pos := q / 100 * ((s.length : Rat) - 1)
  let lo := pos.floor.toNat
  let fr := pos - (lo : Rat)
  match s[lo]?, s[lo + 1]? with
  | some a, some b => a + fr * (b - a)
  | some a, none => a
  | none, _ => 0

/-- Apply a permutation given as a list of positions (`frame.iloc[perm]`). -/
def applyPerm {β} (perm : List Nat) (l : List β) : List β := perm.filterMap (l[·]?)

/-- `perm` is a permutation of the positions of a list of length `n`. -/
def isPermOf (perm : List Nat) (n : Nat) : Bool :=
  perm.length == n && (List.range n).all (perm.contains ·)

/-- Non-decreasing. -/
def sortedRat : List Rat → Bool
  | [] => true
  | [_] => true
  | a :: b :: r => decide (a ≤ b) && sortedRat (b :: r)

end Ampy
