/-
Model of the parameter dictionaries (C11, C12): Python-like nested `dict`s with object identity.

A mutable node (dict or list) carries an identity tag; an in-place mutation of a node is applied to
*every* root in which a node with that tag occurs — that is what aliasing means.  `copy.deepcopy`
allocates fresh tags; `utils.adjust_nested_dict(ref, new)` mutates the dict nodes of `ref` in place and
stores the non-dict items of `new` *themselves* (lists are aliased), exactly as the code does.
-/
namespace Ampy

/-- Immutable leaf values of the parameter tree. -/
inductive PLeaf where
  | none | bool (b : Bool) | int (n : Int) | num (n d : Int) | str (s : String)
  deriving DecidableEq, Repr

mutual
/-- A Python value inside a parameter dictionary. -/
inductive PTree where
  | leaf (v : PLeaf)
  | list (id : Nat) (items : List PLeaf)
  | dict (id : Nat) (es : PEntries)
/-- The entries of a dict, in insertion order. -/
inductive PEntries where
  | nil
  | cons (k : String) (v : PTree) (rest : PEntries)
end

namespace PEntries

def lookup : PEntries → String → Option PTree
  | .nil, _ => none
  | .cons k v rest, key => if k = key then some v else rest.lookup key

/-- `d[key] = v`: update in place if present, else append. -/
def set : PEntries → String → PTree → PEntries
  | .nil, key, v => .cons key v .nil
  | .cons k v0 rest, key, v => if k = key then .cons k v rest else .cons k v0 (rest.set key v)

def keys : PEntries → List String
  | .nil => []
  | .cons k _ rest => k :: rest.keys

end PEntries

mutual
/-- Identity tags of all mutable nodes reachable from a value. -/
def PTree.ids : PTree → List Nat
  | .leaf _ => []
  | .list id _ => [id]
  | .dict id es => id :: es.ids
def PEntries.ids : PEntries → List Nat
  | .nil => []
  | .cons _ v rest => v.ids ++ rest.ids
end

mutual
/-- Tags of the dict nodes only. -/
def PTree.dictIds : PTree → List Nat
  | .leaf _ => []
  | .list _ _ => []
  | .dict id es => id :: es.dictIds
def PEntries.dictIds : PEntries → List Nat
  | .nil => []
  | .cons _ v rest => v.dictIds ++ rest.dictIds
end

mutual
/-- Contents without identities (what `==` compares in Python): all tags set to 0. -/
def PTree.strip : PTree → PTree
  | .leaf v => .leaf v
  | .list _ items => .list 0 items
  | .dict _ es => .dict 0 es.strip
def PEntries.strip : PEntries → PEntries
  | .nil => .nil
  | .cons k v rest => .cons k v.strip rest.strip
end

mutual
/-- `copy.deepcopy`: same contents, fresh tags taken from the counter. -/
def PTree.deepcopy : PTree → Nat → PTree × Nat
  | .leaf v, n => (.leaf v, n)
  | .list _ items, n => (.list n items, n + 1)
  | .dict _ es, n =>
    let (es', n') := es.deepcopy (n + 1)
    (.dict n es', n')
def PEntries.deepcopy : PEntries → Nat → PEntries × Nat
  | .nil, n => (.nil, n)
  | .cons k v rest, n =>
    let (v', n1) := v.deepcopy n
    let (rest', n2) := rest.deepcopy n1
    (.cons k v' rest', n2)
end

/-- Outcome of `adjust_nested_dict`. -/
structure AdjOut where
  tree : PTree
  warnings : List String       -- dotted paths of unknown keys (one AmpycloudWarning each)
  crashed : Bool := false      -- `AttributeError`: a dict was supplied where the reference holds a non-dict

mutual
/-- `utils.adjust_nested_dict(ref, new, lvls)`.  Quirk kept from the code: `lvls` is one list shared by
all recursion levels and only ever extended, so the reported path of an unknown key contains every key
visited before it. -/
def adjustTree : PTree → PTree → List String → AdjOut × List String
  | .dict rid res, .dict _ nes, lvls =>
    let (es, w, cr, lv) := adjustEntries res nes lvls
    (⟨.dict rid es, w, cr⟩, lv)
  | ref, .dict _ .nil, lvls => (⟨ref, [], false⟩, lvls)           -- empty dict: the loop does not run
  | ref, .dict _ _, lvls => (⟨ref, [], true⟩, lvls)               -- `ref.keys()` on a non-dict
  | ref, _, lvls => (⟨ref, [], true⟩, lvls)                        -- `new.items()` on a non-dict
def adjustEntries : PEntries → PEntries → List String → PEntries × List String × Bool × List String
  | res, .nil, lvls => (res, [], false, lvls)
  | res, .cons k item rest, lvls =>
    let lvls := lvls ++ [k]
    match res.lookup k with
    | none =>
      let (es, w, cr, lv) := adjustEntries res rest lvls
      (es, ".".intercalate lvls :: w, cr, lv)
    | some cur =>
      match item with
      | .dict _ _ =>
        let (o, lv) := adjustTree cur item lvls
        if o.crashed then (res.set k o.tree, o.warnings, true, lv)   -- the nested dict was mutated in place up to the crash
        else
          let (es, w, cr, lv') := adjustEntries (res.set k o.tree) rest lv
          (es, o.warnings ++ w, cr, lv')
      | _ =>
        let (es, w, cr, lv) := adjustEntries (res.set k item) rest lvls
        (es, w, cr, lv)
end

mutual
/-- The node carrying tag `id`, if any (first occurrence). -/
def PTree.node (id : Nat) : PTree → Option PTree
  | .leaf _ => none
  | .list i items => if i = id then some (.list i items) else none
  | .dict i es => if i = id then some (.dict i es) else PEntries.node id es
def PEntries.node (id : Nat) : PEntries → Option PTree
  | .nil => none
  | .cons _ v rest => match PTree.node id v with | some t => some t | none => PEntries.node id rest
end

mutual
/-- Propagate an in-place mutation: every node whose tag is in `ids` is replaced by the node of `src`
with the same tag. -/
def PTree.sync (src : PTree) (ids : List Nat) : PTree → PTree
  | .leaf v => .leaf v
  | .list i items => if ids.contains i then (PTree.node i src).getD (.list i items) else .list i items
  | .dict i es => if ids.contains i then (PTree.node i src).getD (.dict i es) else .dict i (PEntries.sync src ids es)
def PEntries.sync (src : PTree) (ids : List Nat) : PEntries → PEntries
  | .nil => .nil
  | .cons k v rest => .cons k (PTree.sync src ids v) (PEntries.sync src ids rest)
end

/-- `root[p1][p2]...[pn] = v`: navigate dicts by key (a missing key or a non-dict on the way is a
`KeyError`/`TypeError`: `none`), then set. Dict tags on the path are kept (mutation in place). -/
def PTree.setPath : PTree → List String → PTree → Option PTree
  | _, [], _ => none
  | .dict i es, [k], v => some (.dict i (es.set k v))
  | .dict i es, k :: ks, v =>
    match es.lookup k with
    | some sub => (sub.setPath ks v).map fun sub' => .dict i (es.set k sub')
    | none => none
  | _, _, _ => none

def PTree.getPath : PTree → List String → Option PTree
  | t, [] => some t
  | .dict _ es, k :: ks => (es.lookup k).bind (·.getPath ks)
  | _, _ => none

/-- The tags of the dicts that `setPath` mutates: the dict holding the last key. -/
def PTree.pathDictId : PTree → List String → Option Nat
  | _, [] => none
  | .dict i _, [_] => some i
  | .dict _ es, k :: ks => (es.lookup k).bind (·.pathDictId ks)
  | _, _ => none

/-- The whole parameter world: the module global, caller-owned dictionaries, chunk snapshots. -/
structure Sys where
  next : Nat                 -- allocation counter: every tag in use is below it
  global : PTree             -- `dynamic.AMPYCLOUD_PRMS`
  defaults : PTree           -- the packaged YAML file (contents only; every load allocates fresh tags)
  callers : List PTree       -- dictionaries owned by callers
  snaps : List PTree         -- `chunk.prms` of the chunks built so far

inductive SOp where
  | construct (caller : Option Nat)                 -- `CeiloChunk(data, prms=callers[i])` / `prms=None`
  | setGlobal (path : List String) (v : PTree)      -- `dynamic.AMPYCLOUD_PRMS[p1]..[pn] = v` (v a new object)
  | setSnap (j : Nat) (path : List String) (v : PTree)
  | setCaller (i : Nat) (path : List String) (v : PTree)
  | setPrms (yaml : PTree)                          -- `set_prms(file)`: contents of the file
  | reset (which : Option (List String))            -- `reset_prms(which)`
  | newCaller (t : PTree)                           -- the caller builds a fresh dictionary

inductive SOut where
  | ok (warnings : List String)
  | ampyError
  | crash (cls : String)
  deriving DecidableEq, Repr

/-- Apply an in-place mutation of the dict nodes `ids` (new versions found in `src`) to every root. -/
def Sys.syncAll (s : Sys) (src : PTree) (ids : List Nat) : Sys :=
  { s with global := PTree.sync src ids s.global,
           callers := s.callers.map (PTree.sync src ids),
           snaps := s.snaps.map (PTree.sync src ids) }

def setNth {β} (l : List β) (i : Nat) (v : β) : List β := l.set i v

/-- One operation on the parameter world. -/
def Sys.step (s : Sys) : SOp → Sys × SOut
  | .construct caller =>
    let (full, n1) := s.global.deepcopy s.next
    match caller with
    | none => ({ s with next := n1, snaps := s.snaps ++ [full] }, .ok [])
    | some i =>
      match s.callers[i]? with
      | none => (s, .crash "IndexError")
      | some prm =>
        let (o, _) := adjustTree full prm []
        if o.crashed then ({ s with next := n1 }, .crash "AttributeError")
        else ({ s with next := n1, snaps := s.snaps ++ [o.tree] }, .ok o.warnings)
  | .setGlobal path v =>
    let (v', n1) := v.deepcopy s.next
    match s.global.setPath path v', s.global.pathDictId path with
    | some g', some id => ({ (s.syncAll g' [id]) with next := n1, global := g' }, .ok [])
    | _, _ => (s, .crash "KeyError")
  | .setSnap j path v =>
    let (v', n1) := v.deepcopy s.next
    match s.snaps[j]? with
    | none => (s, .crash "IndexError")
    | some t =>
      match t.setPath path v', t.pathDictId path with
      | some t', some id =>
        let s' := s.syncAll t' [id]
        ({ s' with next := n1, snaps := setNth s'.snaps j t' }, .ok [])
      | _, _ => (s, .crash "KeyError")
  | .setCaller i path v =>
    let (v', n1) := v.deepcopy s.next
    match s.callers[i]? with
    | none => (s, .crash "IndexError")
    | some t =>
      match t.setPath path v', t.pathDictId path with
      | some t', some id =>
        let s' := s.syncAll t' [id]
        ({ s' with next := n1, callers := setNth s'.callers i t' }, .ok [])
      | _, _ => (s, .crash "KeyError")
  | .setPrms yaml =>
    let (y, n1) := yaml.deepcopy s.next
    let (o, _) := adjustTree s.global y []
    ({ (s.syncAll o.tree s.global.dictIds) with next := n1, global := o.tree },
     if o.crashed then .crash "AttributeError" else .ok o.warnings)
  | .reset none =>
    let (d, n1) := s.defaults.deepcopy s.next
    ({ s with next := n1, global := d }, .ok [])
  | .reset (some names) =>
    let (d, n1) := s.defaults.deepcopy s.next
    let go := names.foldl (fun (acc : PTree × Bool) name =>
      if acc.2 then acc
      else
        match d.getPath [name], acc.1.setPath [name] (d.getPath [name] |>.getD (.leaf .none)) with
        | some _, some g' => (g', false)
        | _, _ => (acc.1, true)) (s.global, false)
    match s.global.pathDictId ["_"] with
    | some gid =>
      let s' := s.syncAll go.1 [gid]
      ({ s' with next := n1, global := go.1 }, if go.2 then .ampyError else .ok [])
    | none => (s, .crash "TypeError")
  | .newCaller t =>
    let (t', n1) := t.deepcopy s.next
    ({ s with next := n1, callers := s.callers ++ [t'] }, .ok [])

/-- A whole history. -/
def Sys.run (s : Sys) : List SOp → Sys × List SOut
  | [] => (s, [])
  | op :: rest =>
    let (s', o) := s.step op
    let (s'', os) := s'.run rest
    (s'', o :: os)

end Ampy
