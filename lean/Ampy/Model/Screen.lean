import Ampy.Model.Pipeline
/-
Model of `utils.check_data_consistency` (utils.py:30-201) and of chunk construction on top of it.

A frame is modelled by what its cells *coerce to* under the required dtypes (the quantifier of C15/C10
is "all frames whose columns can be coerced"): a column is either missing, or present with a flag
saying whether its dtype already is the required one (otherwise a warning is raised and the column is
cast).  Columns are looked up by name, so column order is not representable — as in the code.
Index labels are carried along and never read.
-/
namespace Ampy

/-- A column of the caller's frame: `exact` = the dtype already is the required one. -/
structure Col (β : Type) where
  exact : Bool
  cells : List β
  deriving Repr

/-- The caller's DataFrame. Every present column has `nrows` cells. -/
structure RawFrame (α : Type) where
  nrows : Nat
  index : List Int                 -- labels, possibly repeated; never read by the code after the fix of F1
  ceilo : Option (Col α)
  dt : Option (Col Rat)
  height : Option (Col (Option Rat))
  type : Option (Col Int)
  extra : List String              -- names of superfluous columns
  deriving Repr

/-- What the caller hands in. -/
inductive PyArg (α : Type) where
  | notFrame
  | frame (f : RawFrame α)

inductive Warn where
  | dtype (col : String)
  | superfluous (col : String)
  | negativeHeight | type0WithHeight | type1NaN | type2NoType1 | type3NoType2
  deriving DecidableEq, Repr

/-- The frame returned by the check: the four columns with the required dtypes, the caller's index. -/
structure Checked (α : Type) where
  index : List Int
  rows : List (Hit α)
  deriving Repr

def zipRows {α} (c : List α) (d : List Rat) (h : List (Option Rat)) (t : List Int) : List (Hit α) :=
  ((c.zip d).zip (h.zip t)).map fun ((c, d), (h, t)) => ⟨c, d, h, t⟩

/-- `data.duplicated().any()` on the coerced four columns (NaN equals NaN here, as in pandas). -/
def hasDup {α} [DecidableEq α] : List (Hit α) → Bool
  | [] => false
  | h :: t => t.contains h || hasDup t

/-- Inner join on `(dt, ceilo)` between the rows of type `k` and the others is non-empty. -/
def coincident {α} [DecidableEq α] (k : Int) (rows : List (Hit α)) : Bool :=
  rows.any fun a => a.type == k && rows.any fun b => b.type != k && a.ceilo == b.ceilo && a.dt == b.dt

def heightWarnings {α} (rows : List (Hit α)) : List Warn :=
  (if rows.any (fun r => match r.height with | some y => decide (y < 0) | none => false) then [Warn.negativeHeight] else []) ++
  (if rows.any (fun r => r.type == 0 && r.height.isSome) then [Warn.type0WithHeight] else []) ++
  (if rows.any (fun r => r.type == 1 && r.height.isNone) then [Warn.type1NaN] else []) ++
  (if rows.any (fun r => r.type == 2 && !(rows.any fun s => s.type == 1 && s.dt == r.dt)) then [Warn.type2NoType1] else []) ++
  (if rows.any (fun r => r.type == 3 && !(rows.any fun s => s.type == 2 && s.dt == r.dt)) then [Warn.type3NoType2] else [])

/-- `utils.check_data_consistency(pdf)`: the checked frame and the warnings, or the refusal. -/
def screen {α} [DecidableEq α] : PyArg α → Except AmpyErr (Checked α × List Warn)
  | .notFrame => .error (.ampy "I was expecting data as a pandas DataFrame")
  | .frame f =>
    if f.nrows = 0 then .error (.ampy "len(data) is 0")
    else
      match f.ceilo with
      | none => .error (.ampy "Column ceilo is missing from the input data.")
      | some c =>
      match f.dt with
      | none => .error (.ampy "Column dt is missing from the input data.")
      | some d =>
      match f.height with
      | none => .error (.ampy "Column height is missing from the input data.")
      | some h =>
      match f.type with
      | none => .error (.ampy "Column type is missing from the input data.")
      | some t =>
        let w1 := (if c.exact then [] else [Warn.dtype "ceilo"]) ++ (if d.exact then [] else [Warn.dtype "dt"]) ++
                  (if h.exact then [] else [Warn.dtype "height"]) ++ (if t.exact then [] else [Warn.dtype "type"])
        let w2 := f.extra.map Warn.superfluous
        let rows := zipRows c.cells d.cells h.cells t.cells
        if hasDup rows then .error (.ampy "Duplicated hits in the input data")
        else if coincident 0 rows then .error (.ampy "Inconsistent input data (simultaneous type 0 and !0)")
        else if coincident (-1) rows then .error (.ampy "Inconsistent input data (simultaneous type -1 and !-1)")
        else .ok (⟨f.index, rows⟩, w1 ++ w2 ++ heightWarnings rows)

/-- The checked frame seen again as a caller's frame (exact dtypes, no extra column). -/
def Checked.toArg {α} (c : Checked α) : PyArg α :=
  .frame { nrows := c.rows.length, index := c.index,
           ceilo := some ⟨true, c.rows.map (·.ceilo)⟩, dt := some ⟨true, c.rows.map (·.dt)⟩,
           height := some ⟨true, c.rows.map (·.height)⟩, type := some ⟨true, c.rows.map (·.type)⟩, extra := [] }

/-- `CeiloChunk(data, prms)`: consistency check, index reset (labels dropped), cropping. -/
def constructFrom {α} [DecidableEq α] (P : PPrms α) (arg : PyArg α) : Except AmpyErr (Chunk α) :=
  match screen arg with
  | .error e => .error e
  | .ok (c, _) => .ok (construct P c.rows)

/-- `ampycloud.run(data, prms)`. -/
def runFrom {α} [DecidableEq α] (K : Kern) (P : PPrms α) (arg : PyArg α) : Except AmpyErr (Chunk α) :=
  match screen arg with
  | .error e => .error e
  | .ok (c, _) => run K P c.rows

end Ampy
