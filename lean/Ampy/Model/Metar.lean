import Ampy.Model.Basic
/-
Model of `CeiloChunk.metarize` and `CeiloChunk.metar_msg` (data.py:327-643, 1029-1092) and of
`utils.calc_base_height` (utils.py:270-298).

Third-party answers are parameters (`MetK`): the order `sort_values` returns, `np.percentile`,
the LOWESS curve.  The theorems hold for every such answer meeting the stated shape conditions.
-/
namespace Ampy

/-- Third-party answers used by `metarize`. -/
structure MetK where
  /-- `data.sort_values('dt')`: positions of the rows in the returned order -/
  dtOrder : List Rat → List Nat
  /-- `np.percentile(vals, q)` as the implementation evaluates it -/
  pctl : List Rat → Rat → Rat
  /-- `pts[:, 0].argsort()` inside `get_fluffiness` -/
  ptsOrder : List Rat → List Nat
  /-- LOWESS-smoothed heights of the time-sorted `(dt, height)` points -/
  lowess : List (Rat × Rat) → List Rat
  /-- `pdf.sort_values('height_base')`: positions of the table rows in the returned order -/
  baseOrder : List Rat → List Nat

/-- `int(len(vals) * lookback_perc / 100)` for a look-back in `(0, 100]`. -/
def lookbackCount (len : Nat) (lb : Rat) : Nat := ((len : Rat) * lb / 100).floor.toNat

/-- `vals[-k:]` with Python semantics: `k = 0` keeps the whole array. -/
def latest (vals : List Rat) (lb : Rat) : List Rat :=
  let k := lookbackCount vals.length lb
  if k = 0 then vals else vals.drop (vals.length - k)

/-- `utils.calc_base_height`. -/
def calcBase (pctl : List Rat → Rat → Rat) (vals : List Rat) (lb q : Rat) : Except AmpyErr Rat :=
  let sel := latest vals lb
  if sel.length = 0 then .error (.ampy "Cloud base calculation got an empty array") else .ok (pctl sel q)

/-- The boolean selection handed to `_calculate_base_height_for_selection` by
`_calculate_sligrolay_base_height`: members, minus excluded ceilometers unless too few remain. -/
def baseMask {α} [DecidableEq α] (P : Prms α) (data : List (Hit α)) (ids : List Int) (cid : Int) : List Bool :=
  let inS := ids.map (· == cid)
  if P.exclude ≠ [] then
    let filt := (data.zip inS).map fun (h, b) => b && !(P.exclude.contains h.ceilo)
    if ((filt.count true : Nat) : Rat) > P.t0 then filt else inS
  else inS

/-- `self.data.sort_values('dt').loc[mask]['height'].values` (labels unique): the heights of the
selected rows in the time order the sort returned. -/
def selectSorted {α} (K : MetK) (data : List (Hit α)) (mask : List Bool) : List Rat :=
  (K.dtOrder (data.map (·.dt))).filterMap fun i =>
    if mask.getD i false then (data[i]?).bind (·.height) else none

/-- `_calculate_base_height_for_selection`. -/
def baseForMask {α} (K : MetK) (P : Prms α) (data : List (Hit α)) (mask : List Bool) : Except AmpyErr Rat :=
  calcBase K.pctl (selectSorted K data mask) P.lookback P.basePerc

/-- The okta of `_calculate_cloud_amount`. -/
def oktaOf (n M : Nat) (t0 t8 : Rat) : Except AmpyErr Int :=
  if (n : Rat) ≤ t0 then .ok 0
  else if (((M : Int) - (n : Int) : Int) : Rat) ≤ t8 then .ok 8
  else perc2oktaNM n M

/-- `fluffer.get_fluffiness(pts)[0]`. -/
def fluffiness (K : MetK) (pts : List (Rat × Rat)) : Rat :=
  if pts.length = 1 then 0
  else
    let sorted := applyPerm (K.ptsOrder (pts.map (·.1))) pts
    let l := K.lowess sorted
    2 * meanRat ((sorted.zip l).map fun (p, li) => absRat (p.2 - li))

/-- `okta2code(okta) + height2code(base)`; `None + str` is a `TypeError`. -/
def mkCode (okta : Int) (base : Rat) : Except AmpyErr String :=
  match okta2code (.int okta) with
  | .ok (some c) => .ok (c ++ height2code (some base))
  | .ok none => .error (.other "TypeError")
  | .error e => .error e

/-- One table row, before sorting and flagging. -/
def mkRow {α} [DecidableEq α] (K : MetK) (P : Prms α) (w : Which) (data : List (Hit α)) (ids : List Int)
    (cid : Int) : Except AmpyErr Row := do
  let mem := members data ids cid
  let n := hitCount (ceilos data) mem
  let M := maxHits data
  let okta ← oktaOf n M P.t0 P.t8
  let base ← baseForMask K P data (baseMask P data ids cid)
  let hs := mem.filterMap (·.height)
  let code ← mkCode okta base
  pure { nHits := n, perc := (n : Rat) / (M : Rat) * 100, okta := okta, base := base,
         mean := meanRat hs, var := varRat hs, hmin := minRat hs, hmax := maxRat hs,
         thick := maxRat hs - minRat hs,
         fluff := fluffiness K (mem.filterMap fun h => h.height.map fun y => (h.dt, y)),
         code := code, significant := false, cid := cid,
         isolated := if w = .slices then some true else none,
         ncomp := if w = .groups then some (-1) else none }

/-- Set the `significant` column from the okta column (`icao.significant_cloud`). -/
def flagRows (rows : List Row) : List Row :=
  (rows.zip (significantCloud (rows.map (·.okta)))).map fun (r, s) => { r with significant := s }

/-- `metarize(which)` given the id column of that level; `layersDone` is `self._layers is not None`. -/
def metarize {α} [DecidableEq α] (K : MetK) (P : Prms α) (w : Which) (layersDone : Bool)
    (data : List (Hit α)) (ids : List Int) : Except AmpyErr Table := do
  let cids := clusterIds ids
  if w = .groups ∧ layersDone ∧ cids ≠ [] then
    throw (.ampy "Layering already done")
  let rows ← cids.mapM (mkRow K P w data ids)
  let sorted := applyPerm (K.baseOrder (rows.map (·.base))) rows
  pure (flagRows sorted)

/-! ### The message -/

def ncdOrNsc (flag : Bool) : String := if flag then "NSC" else "NCD"

/-- `base < msa_val` with `msa_val = inf` when no MSA is set. -/
def belowMsa (msa : Option Rat) (base : Rat) : Bool :=
  match msa with
  | none => true
  | some m => decide (base < m)

/-- `metar_msg(which)` once the table exists: `n` is `n_slices`/`n_groups`/`n_layers`. -/
def metarMsg (msa : Option Rat) (flag : Bool) (n : Nat) (t : Table) : String :=
  if n = 0 then ncdOrNsc flag
  else
    let rep := t.filter fun r => r.significant && belowMsa msa r.base
    let msg := " ".intercalate (rep.map (·.code))
    if msg.length = 0 then
      if t.any (fun r => r.significant && !(belowMsa msa r.base)) then "NSC" else ncdOrNsc flag
    else msg

end Ampy
