/-
Model of `ampycloud/wmo.py`: `perc2okta`, `okta2code`, `height2code` over exact rationals.
Float arithmetic is outside the model (DESIGN.md §3.1): the harness validates the float
implementation against these definitions on every input it generates.
-/
namespace Ampy

/-- Errors the implementation raises itself (`AmpycloudError`). -/
inductive AmpyErr where
  | ampy (why : String)
  /-- any other Python exception class (a crash, in the sense of C08) -/
  | other (cls : String)
  deriving Repr, DecidableEq

/-- `numpy.round` on a rational: round half to even. -/
def roundHalfEven (x : Rat) : Int :=
  let f := x.floor
  let d := x - (f : Rat)
  if d < 1/2 then f
  else if d > 1/2 then f + 1
  else if f % 2 = 0 then f else f + 1

/-- The okta `wmo.perc2okta` returns for a percentage inside `[0, 100]`. -/
def oktaOfPerc (p : Rat) : Int :=
  if p = 0 then 0
  else if p = 100 then 8
  else
    let x := p / (100 / 8)
    if x < 1 then x.ceil
    else if x > 7 then x.floor
    else roundHalfEven x

/-- `wmo.perc2okta` on one exact percentage: the range check, then the binning. -/
def perc2okta (p : Rat) : Except AmpyErr Int :=
  if 0 ≤ p ∧ p ≤ 100 then .ok (oktaOfPerc p) else .error (.ampy "perc out of range")

/-- `perc2okta (n / M * 100)` for `n` hits out of `M` measurements. -/
def perc2oktaNM (n M : Nat) : Except AmpyErr Int := perc2okta ((n : Rat) / (M : Rat) * 100)

/-- Python values that can reach `okta2code` (the argument is checked with `isinstance(val, int)`;
`bool` is a subclass of `int` in Python). -/
inductive PyVal where
  | int (n : Int)
  | bool (b : Bool)
  | float (x : Rat)
  | npint (n : Int)      -- numpy integer scalar: not a Python `int`
  | str (s : String)
  | none
  deriving Repr, DecidableEq

/-- `wmo.okta2code` on a Python `int`. -/
def okta2codeInt (n : Int) : Except AmpyErr (Option String) :=
  if n = 0 then .ok (some "NCD")
  else if n = 1 ∨ n = 2 then .ok (some "FEW")
  else if n = 3 ∨ n = 4 then .ok (some "SCT")
  else if n = 5 ∨ n = 6 ∨ n = 7 then .ok (some "BKN")
  else if n = 8 then .ok (some "OVC")
  else if n = 9 then .ok none
  else .error (.ampy "okta value not understood")

/-- `wmo.okta2code` on any Python value. -/
def okta2code : PyVal → Except AmpyErr (Option String)
  | .int n => okta2codeInt n
  | .bool b => okta2codeInt (if b then 1 else 0)
  | _ => .error (.ampy "val should be of type int")

/-- Python's zero-padded decimal rendering of a natural number to width 3: three digit
characters below 1000, the plain decimal rendering from 1000 on. -/
def padNat3 (n : Nat) : String :=
  if n < 1000 then String.ofList [Nat.digitChar (n / 100), Nat.digitChar (n / 10 % 10), Nat.digitChar (n % 10)]
  else toString n

/-- Width-2 analogue (used after a minus sign). -/
def padNat2 (n : Nat) : String :=
  if n < 100 then String.ofList [Nat.digitChar (n / 10), Nat.digitChar (n % 10)]
  else toString n

/-- Python's `f'{n:03}'` for an `int`: the sign counts towards the width. -/
def fmt03 (n : Int) : String :=
  if n ≥ 0 then padNat3 n.toNat else "-" ++ padNat2 (-n).toNat

/-- The number `height2code` formats: hundreds of feet, floored to 100 ft up to 10000 ft and
to 1000 ft above. -/
def heightHundreds (h : Rat) : Int :=
  if h ≤ 10000 then (h / 100).floor else (h / 1000).floor * 10

/-- `wmo.height2code`; `none` is NaN. -/
def height2code : Option Rat → String
  | none => ""
  | some h => fmt03 (heightHundreds h)

end Ampy
