import Ampy.Gen.SrcHeight2code
import Ampy.GenEq.Basic
/-!
Source tie for `wmo.height2code`: the regenerated definition equals the model's `height2code` on every exact
rational height and on NaN.  (Binary64 rounding of `val/100` is outside both; DESIGN.md §3.1.)
-/
namespace Ampy.GenEq
open Ampy Ampy.Py

theorem height2code_eq (v : Option Rat) : Gen.height2code v = .ok (height2code v) := by
  cases v with
  | none => rfl
  | some h =>
    unfold Gen.height2code height2code heightHundreds
    have e : ((h / ((1000 : Int) : Rat)).floor : Rat) * ((10 : Int) : Rat) = (((h / 1000).floor * 10 : Int) : Rat) := by
      simp [Rat.intCast_mul]
    by_cases hle : h ≤ 10000
    · have hle' : h ≤ ((10000 : Int) : Rat) := by simpa using hle
      simp [hle, hle']
    · have hle' : ¬ h ≤ ((10000 : Int) : Rat) := by simpa using hle
      simp only [ofInt_eq, isnan_some, le_some, div_some, floor_some, mul_some, e, toInt_intCast, bind_ok,
        hle, hle', decide_false, Bool.false_eq_true, if_false]

end Ampy.GenEq
