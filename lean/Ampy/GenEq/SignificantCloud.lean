import Ampy.Gen.SrcSignificantCloud
import Ampy.Model.Icao
/-!
Source tie for `icao.significant_cloud`: the definition regenerated from /repo's current source equals the
hand-written model, for every list of oktas (any length).

The proof does not restate the generated loop body: `fold_of_step` is about *any* step function that meets
the point-wise specification of one loop iteration, and the generated body is shown to meet it by case
analysis — so a harmless rewrite of the loop (reordered conjuncts, `append` instead of `+=`, an inverted
`if`) regenerates a different term and still checks.
-/
namespace Ampy.GenEq
open Ampy Ampy.Py

theorem fold_of_step (f : List Bool × Int → Int → List Bool × Int)
    (hf : ∀ (sig : List Bool) (lvl o : Int), f (sig, lvl) o =
      if o > lvl ∧ sig.count true < 3 then (sig ++ [true], lvl + 2) else (sig ++ [false], lvl)) :
    ∀ (os : List Int) (lvl : Int) (sig : List Bool),
      (List.foldl f (sig, lvl) os).1 = sigLoop lvl sig os := by
  intro os
  induction os with
  | nil => intro lvl sig; rfl
  | cons o os ih =>
    intro lvl sig
    rw [List.foldl_cons, sigLoop.eq_2, hf]
    by_cases h : o > lvl ∧ sig.count true < 3
    · rw [if_pos h, if_pos h]; exact ih _ _
    · rw [if_neg h, if_neg h]; exact ih _ _

/-- The translated source of `icao.significant_cloud` is the model, on every input. -/
theorem significant_cloud_eq (oktas : List Int) :
    Gen.significant_cloud oktas = significantCloud oktas := by
  unfold Gen.significant_cloud significantCloud
  refine fold_of_step _ ?_ oktas 0 []
  intro sig lvl o
  have hc : (countTrue sig < 3) ↔ (sig.count true < 3) := by simp only [countTrue]; omega
  by_cases h1 : o > lvl <;> by_cases h2 : sig.count true < 3 <;> simp [h1, h2, hc]

end Ampy.GenEq
