import Ampy.Gen.Prelude
/-! Rewriting lemmas for the operations of `Ampy/Gen/Prelude.lean` (used by the source-tie proofs). -/
namespace Ampy.GenEq
open Ampy Ampy.Py

@[simp] theorem ofInt_eq (n : Int) : F.ofInt n = some (n : Rat) := rfl
@[simp] theorem ofRat_eq (r : Rat) : F.ofRat r = some r := rfl
@[simp] theorem isnan_some (r : Rat) : F.isnan (some r) = false := rfl
@[simp] theorem isnan_none : F.isnan none = true := rfl
@[simp] theorem le_some (a b : Rat) : F.le (some a) (some b) = decide (a ≤ b) := rfl
@[simp] theorem lt_some (a b : Rat) : F.lt (some a) (some b) = decide (a < b) := rfl
@[simp] theorem ge_some (a b : Rat) : F.ge (some a) (some b) = decide (b ≤ a) := rfl
@[simp] theorem gt_some (a b : Rat) : F.gt (some a) (some b) = decide (b < a) := rfl
@[simp] theorem eq_some (a b : Rat) : F.eq (some a) (some b) = decide (a = b) := rfl
@[simp] theorem le_none_l (b : PyFloat) : F.le none b = false := rfl
@[simp] theorem ge_none_l (b : PyFloat) : F.ge none b = false := by cases b <;> rfl
@[simp] theorem add_some (a b : Rat) : F.add (some a) (some b) = some (a + b) := rfl
@[simp] theorem sub_some (a b : Rat) : F.sub (some a) (some b) = some (a - b) := rfl
@[simp] theorem mul_some (a b : Rat) : F.mul (some a) (some b) = some (a * b) := rfl
@[simp] theorem div_some (a b : Rat) : F.div (some a) (some b) = some (a / b) := rfl
@[simp] theorem neg_some (a : Rat) : F.neg (some a) = some (-a) := rfl
@[simp] theorem floor_some (a : Rat) : F.floor (some a) = some ((a.floor : Int) : Rat) := rfl
@[simp] theorem ceil_some (a : Rat) : F.ceil (some a) = some ((a.ceil : Int) : Rat) := rfl
@[simp] theorem round_some (a : Rat) : F.round (some a) = some ((F.roundHalfEven' a : Int) : Rat) := rfl

/-- `int(x)` of an integral value is that integer. -/
@[simp] theorem toInt_intCast (z : Int) : F.toInt (some (z : Rat)) = .ok z := by
  show Except.ok (if (0 : Rat) ≤ (z : Rat) then ((z : Rat)).floor else ((z : Rat)).ceil) = Except.ok z
  split <;> simp [Rat.floor_intCast, Rat.ceil_intCast]

@[simp] theorem bind_ok {α β} (a : α) (f : α → Except AmpyErr β) : Except.bind (Except.ok a) f = f a := rfl

end Ampy.GenEq
