import Ampy.Gen.SrcPerc2okta
import Ampy.GenEq.Basic
import Ampy.GenEq.Okta2code
import Ampy.Lemmas.Wmo
/-!
Source tie for `wmo.perc2okta` (element-wise reading of the array code, DESIGN.md 11.10): the regenerated
definition equals the model's `perc2okta` on every exact rational percentage, and refuses NaN.
`roundHalfEven'` (the prelude's independent statement of numpy's rounding) is shown equal to the model's.
-/
namespace Ampy.GenEq
open Ampy Ampy.Py

theorem rhe'_eq (x : Rat) : F.roundHalfEven' x = roundHalfEven x := by
  have h1 := Rat.floor_le x
  have h2 := Rat.lt_floor_add_one x
  have g1 := Rat.floor_le (x + 1/2)
  have g2 := Rat.lt_floor_add_one (x + 1/2)
  unfold F.roundHalfEven' roundHalfEven
  simp only
  by_cases hd : x - (x.floor : Rat) < 1/2
  · -- below the half: ⌊x + 1/2⌋ = ⌊x⌋ and it is not a tie
    have ht : (x + 1/2).floor = x.floor := floor_eq_of (by grind) (by grind)
    rw [if_pos hd, ht, if_neg (by intro h; have := h.1; grind)]
  · rw [if_neg hd]
    have ht : (x + 1/2).floor = x.floor + 1 :=
      floor_eq_of (by push_cast; grind) (by push_cast; grind)
    by_cases hd2 : x - (x.floor : Rat) > 1/2
    · rw [if_pos hd2, ht, if_neg (by intro h; have := h.1; push_cast at this; grind)]
    · rw [if_neg hd2, ht]
      have htie : ((x.floor + 1 : Int) : Rat) = x + 1/2 := by push_cast; grind
      by_cases hev : x.floor % 2 = 0
      · rw [if_pos hev, if_pos ⟨htie, by omega⟩]; omega
      · rw [if_neg hev, if_neg (by intro h; have := h.2; omega)]

theorem perc2okta_nan : ∃ e, Gen.perc2okta none = .error (.ampy e) := ⟨_, rfl⟩

theorem rhe_int (z : Int) : roundHalfEven (z : Rat) = z :=
  rhe_unique _ _ (by grind) (by grind)

@[simp] theorem toInt_round (x : Rat) : F.toInt (F.round (some x)) = .ok (roundHalfEven x) := by
  rw [round_some, rhe'_eq, toInt_intCast]


@[simp] theorem toInt_zero : F.toInt (some (0 : Rat)) = .ok 0 := by
  simpa using toInt_intCast 0
@[simp] theorem toInt_one : F.toInt (some (1 : Rat)) = .ok 1 := by
  simpa using toInt_intCast 1
@[simp] theorem toInt_seven : F.toInt (some (7 : Rat)) = .ok 7 := by
  simpa using toInt_intCast 7
@[simp] theorem toInt_eight : F.toInt (some (8 : Rat)) = .ok 8 := by
  simpa using toInt_intCast 8

theorem rhe_zero : roundHalfEven 0 = 0 := by simpa using rhe_int 0
theorem rhe_one : roundHalfEven 1 = 1 := by simpa using rhe_int 1
theorem rhe_seven : roundHalfEven 7 = 7 := by simpa using rhe_int 7
theorem rhe_eight : roundHalfEven 8 = 8 := by simpa using rhe_int 8

theorem perc2okta_eq (p : Rat) : sameOutcome (Gen.perc2okta (some p)) (perc2okta p) := by
  by_cases hr : 0 ≤ p ∧ p ≤ 100
  · by_cases h0 : p = 0
    · subst h0
      have c0 : Rat.ceil 0 = 0 := by decide
      have c1 : ¬ (7 : Rat) < 0 := by decide
      simp [Gen.perc2okta, perc2okta, oktaOfPerc, sameOutcome, rhe'_eq, c0, c1, rhe_zero]
    by_cases h100 : p = 100
    · subst h100
      have c0 : Rat.floor 8 = 8 := by decide
      have c1 : (7 : Rat) < 8 := by decide
      simp [Gen.perc2okta, perc2okta, oktaOfPerc, sameOutcome, rhe'_eq, c0, c1, rhe_eight]
    have hx0 : 0 < p / (100 / 8) := by grind
    by_cases c1 : p / (100 / 8) < 1
    · have c2 : ¬ (7 : Rat) < 1 := by decide
      simp [Gen.perc2okta, perc2okta, oktaOfPerc, sameOutcome, rhe'_eq, hr, h0, h100, c1, c2, ceil_eq_one hx0 (Rat.le_of_lt c1), rhe_one]
    by_cases c2 : 7 < p / (100 / 8)
    · have c3 : Rat.floor (p / (100 / 8)) = 7 := floor_eq_of (by grind) (by grind)
      simp [Gen.perc2okta, perc2okta, oktaOfPerc, sameOutcome, rhe'_eq, hr, h0, h100, c1, c2, c3, rhe_seven]
    · simp [Gen.perc2okta, perc2okta, oktaOfPerc, sameOutcome, rhe'_eq, hr, h0, h100, c1, c2]
  · have hr' : p < 0 ∨ 100 < p := by grind
    simp [Gen.perc2okta, perc2okta, hr, hr', sameOutcome]

end Ampy.GenEq
