import Ampy.Gen.SrcMinrange2minmax
import Ampy.Gen.SrcNcdOrNsc
import Ampy.Model.Scaler
import Ampy.Model.Metar
/-!
Source ties for two small functions: `scaler.minrange2minmax` (with `np.nanmax` / `np.nanmin` as parameters, instantiated
by the model's) and `CeiloChunk._ncd_or_nsc` (the chunk's high-cloud flag as a parameter).
-/
namespace Ampy.GenEq
open Ampy Ampy.Py

theorem minrange2minmax_eq (vals : List (Option Rat)) (mr : Rat) :
    Gen.minrange2minmax nanmax nanmin vals mr = minrange2minmax vals mr := by
  unfold Gen.minrange2minmax minrange2minmax
  by_cases h : nanmax vals - nanmin vals ≥ mr
  · simp [h]
  · simp [h]

theorem ncd_or_nsc_eq (flag : Bool) : Gen.ncd_or_nsc flag = ncdOrNsc flag := by
  cases flag <;> rfl

end Ampy.GenEq
