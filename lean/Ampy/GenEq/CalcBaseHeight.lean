import Ampy.Gen.SrcCalcBaseHeight
import Ampy.GenEq.Okta2code
import Ampy.Model.Metar
import Ampy.Lemmas.Wmo
/-!
Source tie for `utils.calc_base_height`: the definition regenerated from /repo's current source equals the model's
`calcBase` for every list of heights, every percentile function (`np.percentile` is a parameter of both), every
percentile rank, and every look-back percentage `≥ 0` (a negative look-back is outside the parameter's meaning: Python
would then slice from the front, the model keeps everything).
-/
namespace Ampy.GenEq
open Ampy Ampy.Py

theorem sliceFrom_neg_eq_latest (vals : List Rat) (lb : Rat) (h : 0 ≤ lb) :
    sliceFrom vals (-(truncRat (((len vals : Int) : Rat) * lb / ((100 : Int) : Rat)))) = latest vals lb := by
  have hx : (0 : Rat) ≤ ((vals.length : Nat) : Rat) * lb / 100 := by
    apply Rat.div_nonneg
    · exact Rat.mul_nonneg (by exact_mod_cast Nat.zero_le _) h
    · decide
  have e1 : (((len vals : Int) : Rat) * lb / ((100 : Int) : Rat)) = ((vals.length : Nat) : Rat) * lb / 100 := by
    simp [len]
  unfold latest lookbackCount sliceFrom truncRat
  rw [e1, if_pos hx]
  have hf : 0 ≤ (((vals.length : Nat) : Rat) * lb / 100).floor := Rat.le_floor_iff.mpr (by simpa using hx)
  generalize (((vals.length : Nat) : Rat) * lb / 100).floor = f at hf
  by_cases h0 : f = 0
  · subst h0; simp
  · have hpos : 0 < f := by omega
    have : ¬ (0 ≤ -f) := by omega
    rw [if_neg this]
    have : ¬ (f.toNat = 0) := by omega
    simp only [this, if_false, Int.neg_neg]

theorem calc_base_height_eq (pctl : List Rat → Rat → Rat) (vals : List Rat) (lb q : Rat) (h : 0 ≤ lb) :
    sameOutcome (Gen.calc_base_height pctl vals lb q) (calcBase pctl vals lb q) := by
  unfold Gen.calc_base_height calcBase
  simp only [sliceFrom_neg_eq_latest vals lb h]
  by_cases h0 : (latest vals lb).length = 0
  · have : decide (len (latest vals lb) = (0 : Int)) = true := by simp [len, h0]
    simp [this, h0, sameOutcome]
  · have : decide (len (latest vals lb) = (0 : Int)) = false := by
      apply decide_eq_false; simp only [len]; omega
    simp [this, h0, sameOutcome]

end Ampy.GenEq
