import Ampy.Gen.SrcBestGmm
import Ampy.GenEq.MinSep
import Ampy.Model.Pipeline
/-!
Source tie for `layer.best_gmm` in mode `delta` (the default): the definition regenerated from /repo's current source
(`scores2nrl`, used by mode `prob` only, is a parameter; the loop is a fold in the exception monad because it indexes
the score list and can raise) returns the model's `bestDelta` for every score list and every gain; an unknown mode is
refused with an `AmpycloudError` as soon as there are two scores.
-/
namespace Ampy.GenEq
open Ampy Ampy.Py

/-- One step of the model's fold. -/
def deltaStep (abics : List Rat) (g : Rat) (best m : Nat) : Nat :=
  match abics[m + 1]?, abics[best]? with
  | some a, some b => if a < g * b then m + 1 else best
  | _, _ => best

theorem bestDelta_eq_fold (abics : List Rat) (g : Rat) :
    bestDelta abics g = (List.range (abics.length - 1)).foldl (deltaStep abics g) 0 := rfl

theorem deltaStep_lt (abics : List Rat) (g : Rat) (best m : Nat) (hb : best < abics.length) (hm : m + 1 < abics.length) :
    deltaStep abics g best m < abics.length := by
  unfold deltaStep
  split
  · split <;> assumption
  · exact hb

/-- Any monadic step function that agrees with the model's step on in-range arguments folds to the model's answer. -/
theorem foldlM_of_step (abics : List Rat) (g : Rat) (F : Int → Int → Except AmpyErr Int)
    (hF : ∀ (bn m : Nat), m + 1 < abics.length → bn < abics.length →
      F (bn : Int) (m : Int) = .ok ((deltaStep abics g bn m : Nat) : Int)) :
    ∀ (n : Nat), n ≤ abics.length - 1 → ∀ (bn : Nat), (bn < abics.length ∨ n = 0) →
      List.foldlM F (bn : Int) ((List.range n).map fun k => ((k : Nat) : Int)) =
        .ok (((List.range n).foldl (deltaStep abics g) bn : Nat) : Int) ∧
      ((List.range n).foldl (deltaStep abics g) bn < abics.length ∨ n = 0) := by
  intro n
  induction n with
  | zero => intro _ bn h; exact ⟨rfl, Or.inr rfl⟩
  | succ n ih =>
    intro hn bn hb
    have hb' : bn < abics.length := by
      rcases hb with h | h
      · exact h
      · omega
    obtain ⟨e, hlt⟩ := ih (by omega) bn (Or.inl hb')
    have hlt' : (List.range n).foldl (deltaStep abics g) bn < abics.length := by
      rcases hlt with h | h
      · exact h
      · subst h; simpa using hb'
    rw [List.range_succ, List.map_append, List.foldlM_append, e, List.foldl_append]
    simp only [List.map_cons, List.map_nil, List.foldlM_cons, List.foldlM_nil, List.foldl_cons, List.foldl_nil,
      bind, Except.bind]
    rw [hF _ n (by omega) hlt']
    exact ⟨rfl, Or.inl (deltaStep_lt abics g _ n hlt' (by omega))⟩

theorem best_gmm_delta_eq (f : List Rat → List Rat) (abics : List Rat) (p g : Rat) :
    Gen.best_gmm f abics "delta" p g = .ok ((bestDelta abics g : Nat) : Int) := by
  unfold Gen.best_gmm
  have h1 : decide (("delta" : String) = "prob") = false := by decide
  have h2 : decide (("delta" : String) = "delta") = true := by decide
  simp only [h1, h2, Bool.false_eq_true, if_false, if_true]
  have hr : pyRange (len abics - (1 : Int)) = (List.range (abics.length - 1)).map fun k => ((k : Nat) : Int) := by
    unfold pyRange len
    congr 2
    omega
  rw [hr, bestDelta_eq_fold]
  rw [show ∀ x : Except AmpyErr Int, Except.bind x (fun st => Except.ok st) = x from fun x => by cases x <;> rfl]
  refine (foldlM_of_step abics g _ ?_ (abics.length - 1) (Nat.le_refl _) 0 (by omega)).1
  intro bn m hm hb
  have e1 : ((m : Nat) : Int) + 1 = (((m + 1 : Nat)) : Int) := by omega
  obtain ⟨a, ha⟩ : ∃ a, abics[m + 1]? = some a := ⟨abics[m + 1], List.getElem?_eq_getElem hm⟩
  obtain ⟨b, hbv⟩ : ∃ b, abics[bn]? = some b := ⟨abics[bn], List.getElem?_eq_getElem hb⟩
  simp only [e1, getIdx_nat, ha, hbv, Except.bind, deltaStep]
  by_cases hc : a < g * b <;> simp [hc]

/-- An unknown mode is refused with an `AmpycloudError` as soon as the loop runs (two scores or more); with fewer
scores the loop does not run and model 0 is returned — as the code does. -/
theorem best_gmm_badmode (f : List Rat → List Rat) (abics : List Rat) (mode : String) (p g : Rat)
    (h1 : mode ≠ "prob") (h2 : mode ≠ "delta") (hl : 2 ≤ abics.length) :
    Gen.best_gmm f abics mode p g = .error (.ampy "") := by
  unfold Gen.best_gmm
  have hr : pyRange (len abics - (1 : Int)) = (0 : Int) :: ((List.range (abics.length - 2)).map fun k => (((k + 1 : Nat)) : Int)) := by
    unfold pyRange len
    have : ((abics.length : Nat) : Int) - 1 = ((abics.length - 1 : Nat) : Int) := by omega
    rw [this, Int.toNat_natCast]
    obtain ⟨n, hn⟩ : ∃ n, abics.length - 1 = n + 1 := ⟨abics.length - 2, by omega⟩
    rw [hn, List.range_succ_eq_map, List.map_cons, List.map_map]
    have : abics.length - 2 = n := by omega
    rw [this]
    rfl
  simp only [hr, h1, h2, decide_false, Bool.false_eq_true, if_false, List.foldlM_cons, bind, Except.bind]

end Ampy.GenEq
