import Ampy.Gen.SrcGetMinSepForHeight
import Ampy.GenEq.Okta2code
import Ampy.Model.Pipeline
/-!
Source tie for `CeiloChunk._get_min_sep_for_height`: the definition regenerated from /repo's current source (with
`self.prms['MIN_SEP_LIMS']`, `self.prms['MIN_SEP_VALS']` as parameters) equals the model's `minSepFor`, for every pair of
lists and every height — including the refusal when the lengths do not fit, and the `IndexError` that cannot occur when
they do.
-/
namespace Ampy.GenEq
open Ampy Ampy.Py

theorem getIdx_nat {α} (l : List α) (k : Nat) :
    getIdx l ((k : Nat) : Int) = match l[k]? with | some v => .ok v | none => .error (.other "IndexError") := by
  unfold getIdx
  have h1 : ¬ (((k : Nat) : Int) < 0) := by omega
  simp only [h1, if_false]
  have h2 : (0 : Int) ≤ ((k : Nat) : Int) := by omega
  simp only [h2, if_true, Int.toNat_natCast]
  rfl

theorem get_min_sep_for_height_eq {α} (P : Prms α) (h : Rat) :
    sameOutcome (Gen.get_min_sep_for_height P.minSepLims P.minSepVals h) (minSepFor P h) := by
  unfold Gen.get_min_sep_for_height minSepFor
  by_cases hl : P.minSepLims.length + 1 ≠ P.minSepVals.length
  · have : decide (len P.minSepLims ≠ len P.minSepVals - (1 : Int)) = true := by
      apply decide_eq_true; simp only [len]; omega
    rw [if_pos hl]
    simp only [this, if_true, sameOutcome]
  · have : decide (len P.minSepLims ≠ len P.minSepVals - (1 : Int)) = false := by
      apply decide_eq_false; simp only [len]; omega
    rw [if_neg hl]
    simp only [this, if_false, Bool.false_eq_true, searchsortedLeft, getIdx_nat]
    cases P.minSepVals[(P.minSepLims.filter (· < h)).length]? <;> simp [sameOutcome, Except.bind]

end Ampy.GenEq
