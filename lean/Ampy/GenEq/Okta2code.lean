import Ampy.Gen.SrcOkta2code
import Ampy.Model.Wmo
/-!
Source tie for `wmo.okta2code` on Python `int` arguments: the regenerated definition equals the model's
`okta2codeInt` for every integer (the refusal text is not compared: `AmpyErr.ampy _`).
The `isinstance(val, int)` refusal of non-`int` arguments is decided by the declared parameter type in the
translation; it is covered by the behavioural correspondence (C18 check), not here.
-/
namespace Ampy.GenEq
open Ampy Ampy.Py

/-- Outcomes compared up to the text of an `AmpycloudError`. -/
def sameOutcome {α} [DecidableEq α] : Except AmpyErr α → Except AmpyErr α → Prop
  | .ok a, .ok b => a = b
  | .error (.ampy _), .error (.ampy _) => True
  | .error (.other a), .error (.other b) => a = b
  | _, _ => False

theorem okta2code_eq (n : Int) : sameOutcome (Gen.okta2code n) (okta2codeInt n) := by
  unfold Gen.okta2code okta2codeInt
  by_cases h0 : n = 0
  · subst h0; simp [sameOutcome, elemInt]
  by_cases h1 : n = 1; · subst h1; simp [sameOutcome, elemInt]
  by_cases h2 : n = 2; · subst h2; simp [sameOutcome, elemInt]
  by_cases h3 : n = 3; · subst h3; simp [sameOutcome, elemInt]
  by_cases h4 : n = 4; · subst h4; simp [sameOutcome, elemInt]
  by_cases h5 : n = 5; · subst h5; simp [sameOutcome, elemInt]
  by_cases h6 : n = 6; · subst h6; simp [sameOutcome, elemInt]
  by_cases h7 : n = 7; · subst h7; simp [sameOutcome, elemInt]
  by_cases h8 : n = 8; · subst h8; simp [sameOutcome, elemInt]
  by_cases h9 : n = 9; · subst h9; simp [sameOutcome, elemInt]
  simp [sameOutcome, elemInt, h0, h1, h2, h3, h4, h5, h6, h7, h8, h9]

end Ampy.GenEq
