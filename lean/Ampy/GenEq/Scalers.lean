import Ampy.Gen.SrcShiftAndScale
import Ampy.Gen.SrcMinmaxScale
import Ampy.GenEq.Basic
import Ampy.Model.Scaler
/-!
Source ties for `scaler.shift_and_scale` and `scaler.minmax_scale` (numpy broadcasting read as an element-wise map,
`np.nanmax` / `np.nanmin` as parameters instantiated by the model's): equal to the model for every array (NaNs
included), every shift / bounds, both modes — for a non-zero divisor (positive scale, non-empty range: the properties'
domain; numpy's division by zero gives infinities, which are outside the model).
-/
namespace Ampy.GenEq
open Ampy Ampy.Py

@[simp] theorem divz_some (a b : Rat) (hb : b ≠ 0) : F.divz (some a) (some b) = some (a / b) := by
  simp [F.divz, hb]
@[simp] theorem divz_none (b : PyFloat) : F.divz none b = none := by cases b <;> rfl
@[simp] theorem sub_none (b : PyFloat) : F.sub none b = none := by cases b <;> rfl
@[simp] theorem mul_none (b : PyFloat) : F.mul none b = none := by cases b <;> rfl
@[simp] theorem add_none (b : PyFloat) : F.add none b = none := by cases b <;> rfl

theorem pt_do (a : PyFloat) (s k : Rat) (hk : k ≠ 0) :
    F.divz (F.sub a (some s)) (some k) = Option.map (fun v => (v - s) / k) a := by
  cases a <;> simp [hk]

theorem pt_undo (a : PyFloat) (s k : Rat) :
    F.add (F.mul a (some k)) (some s) = Option.map (fun v => v * k + s) a := by
  cases a <;> simp

theorem shiftScale1_do (s k : Rat) : shiftScale1 s k .doIt = fun v => (v - s) / k := rfl
theorem shiftScale1_undo (s k : Rat) : shiftScale1 s k .undo = fun v => v * k + s := rfl
theorem minmax1_do (lo hi : Rat) (h : hi ≠ lo) : minmax1 lo hi .doIt = fun v => (v - lo) / (hi - lo) := by
  funext v; simp only [minmax1, if_neg h]
theorem minmax1_do_null (lo : Rat) : minmax1 lo lo .doIt = fun _ => 0 := by
  funext v; simp only [minmax1, if_true]

theorem pt_null (a : PyFloat) (s : Rat) :
    F.mul (F.sub a (some s)) (F.ofInt (0 : Int)) = Option.map (fun _ => (0 : Rat)) a := by
  cases a <;> simp
theorem minmax1_undo (lo hi : Rat) : minmax1 lo hi .undo = fun v => v * (hi - lo) + lo := rfl

theorem shift_and_scale_do (vals : List (Option Rat)) (shift : Option Rat) (scale : Rat) (hs : scale ≠ 0) :
    Gen.shift_and_scale nanmax vals shift scale "do" = .ok (shiftAndScale vals shift scale .doIt) := by
  unfold Gen.shift_and_scale shiftAndScale
  cases shift <;> simp [pt_do _ _ _ hs, shiftScale1_do]

theorem shift_and_scale_undo (vals : List (Option Rat)) (shift : Option Rat) (scale : Rat) :
    Gen.shift_and_scale nanmax vals shift scale "undo" = .ok (shiftAndScale vals shift scale .undo) := by
  unfold Gen.shift_and_scale shiftAndScale
  cases shift <;> simp [pt_undo, shiftScale1_undo]

theorem shift_and_scale_badmode (vals : List (Option Rat)) (shift : Option Rat) (scale : Rat) (mode : String)
    (h1 : mode ≠ "do") (h2 : mode ≠ "undo") :
    Gen.shift_and_scale nanmax vals shift scale mode = .error (.ampy "") := by
  unfold Gen.shift_and_scale
  cases shift <;> simp [h1, h2]

theorem core_do (vals : List (Option Rat)) (lo hi : Rat) :
    (if (decide (hi = lo)) then
      (Except.ok (List.map (fun v => F.mul v (F.ofInt (0 : Int))) (List.map (fun v => F.sub v (F.ofRat lo)) vals)) : Except AmpyErr _)
    else
      (Except.ok (List.map (fun v => F.divz v (F.ofRat (hi - lo))) (List.map (fun v => F.sub v (F.ofRat lo)) vals)))) =
    Except.ok (vals.map (Option.map (minmax1 lo hi .doIt))) := by
  by_cases h : hi = lo
  · subst h
    simp only [decide_true, if_true, List.map_map, minmax1_do_null]
    congr 1
    apply List.map_congr_left
    intro v _
    cases v <;> simp
  · have hne : hi - lo ≠ 0 := by
      intro e
      apply h
      have := Rat.sub_eq_add_neg hi lo ▸ e
      grind
    simp only [h, decide_false, Bool.false_eq_true, if_false, List.map_map, minmax1_do _ _ h]
    congr 1
    apply List.map_congr_left
    intro v _
    cases v <;> simp [hne]

/-- Mode `do`, every range: a null range maps everything onto 0 (the source says so since the repair of F6), otherwise
`(v - lo) / (hi - lo)` — no side condition left. -/
theorem minmax_scale_do (vals : List (Option Rat)) (lo hi : Option Rat) :
    Gen.minmax_scale nanmax nanmin vals lo hi "do" = .ok (minmaxScale vals lo hi .doIt) := by
  unfold Gen.minmax_scale minmaxScale
  have hd : decide (("do" : String) = "do") = true := by decide
  cases lo <;> cases hi <;> simp only [Option.getD_none, Option.getD_some, hd, if_true] <;> exact core_do vals _ _

theorem minmax_scale_undo (vals : List (Option Rat)) (lo hi : Option Rat) :
    Gen.minmax_scale nanmax nanmin vals lo hi "undo" = .ok (minmaxScale vals lo hi .undo) := by
  unfold Gen.minmax_scale minmaxScale
  cases lo <;> cases hi <;> simp [pt_undo, minmax1_undo]

theorem minmax_scale_badmode (vals : List (Option Rat)) (lo hi : Option Rat) (mode : String)
    (h1 : mode ≠ "do") (h2 : mode ≠ "undo") :
    Gen.minmax_scale nanmax nanmin vals lo hi mode = .error (.ampy "") := by
  unfold Gen.minmax_scale
  cases lo <;> cases hi <;> simp [h1, h2]

end Ampy.GenEq
