import Ampy.Spec.Table
import Ampy.Lemmas.Wmo
/-! Lemmas behind C04 (and C06): percentile, look-back selection, statistics, fluffiness. -/
namespace Ampy

/-! ### helpers -/

theorem foldl_min_le (xs : List Rat) (x : Rat) :
    xs.foldl (fun a b => if b < a then b else a) x ≤ x ∧
    ∀ y ∈ xs, xs.foldl (fun a b => if b < a then b else a) x ≤ y := by
  induction xs generalizing x with
  | nil => simp
  | cons z zs ih =>
    simp only [List.foldl_cons, List.mem_cons]
    have h := ih (if z < x then z else x)
    refine ⟨?_, ?_⟩
    · have h1 := h.1
      split at h1 <;> grind
    · intro y hy
      rcases hy with rfl | hy
      · have h1 := h.1
        split at h1 <;> grind
      · exact h.2 y hy

theorem foldl_min_mem (xs : List Rat) (x : Rat) :
    xs.foldl (fun a b => if b < a then b else a) x ∈ x :: xs := by
  induction xs generalizing x with
  | nil => simp
  | cons z zs ih =>
    simp only [List.foldl_cons]
    have h := ih (if z < x then z else x)
    split at h <;> grind

theorem foldl_max_le (xs : List Rat) (x : Rat) :
    x ≤ xs.foldl (fun a b => if a < b then b else a) x ∧
    ∀ y ∈ xs, y ≤ xs.foldl (fun a b => if a < b then b else a) x := by
  induction xs generalizing x with
  | nil => simp
  | cons z zs ih =>
    simp only [List.foldl_cons, List.mem_cons]
    have h := ih (if x < z then z else x)
    refine ⟨?_, ?_⟩
    · have h1 := h.1
      split at h1 <;> grind
    · intro y hy
      rcases hy with rfl | hy
      · have h1 := h.1
        split at h1 <;> grind
      · exact h.2 y hy

theorem foldl_max_mem (xs : List Rat) (x : Rat) :
    xs.foldl (fun a b => if a < b then b else a) x ∈ x :: xs := by
  induction xs generalizing x with
  | nil => simp
  | cons z zs ih =>
    simp only [List.foldl_cons]
    have h := ih (if x < z then z else x)
    split at h <;> grind

/-- `minRat`/`maxRat` bound every element. -/
theorem minRat_le {l : List Rat} {x : Rat} (h : x ∈ l) : minRat l ≤ x := by
  cases l with
  | nil => cases h
  | cons a as =>
    unfold minRat
    rcases List.mem_cons.mp h with rfl | h
    · exact (foldl_min_le as _).1
    · exact (foldl_min_le as a).2 x h

theorem le_maxRat {l : List Rat} {x : Rat} (h : x ∈ l) : x ≤ maxRat l := by
  cases l with
  | nil => cases h
  | cons a as =>
    unfold maxRat
    rcases List.mem_cons.mp h with rfl | h
    · exact (foldl_max_le as _).1
    · exact (foldl_max_le as a).2 x h

theorem minRat_mem {l : List Rat} (h : l ≠ []) : minRat l ∈ l := by
  cases l with
  | nil => exact absurd rfl h
  | cons a as => exact foldl_min_mem as a

theorem maxRat_mem {l : List Rat} (h : l ≠ []) : maxRat l ∈ l := by
  cases l with
  | nil => exact absurd rfl h
  | cons a as => exact foldl_max_mem as a

theorem leRat_trans (a b c : Rat) : leRat a b = true → leRat b c = true → leRat a c = true := by
  unfold leRat
  simp only [decide_eq_true_eq]
  exact Rat.le_trans

theorem leRat_total (a b : Rat) : (leRat a b || leRat b a) = true := by
  unfold leRat
  simp only [Bool.or_eq_true, decide_eq_true_eq]
  exact Rat.le_total

theorem sort_pairwise (vals : List Rat) : (vals.mergeSort leRat).Pairwise (· ≤ ·) := by
  have h := List.pairwise_mergeSort (le := leRat) leRat_trans leRat_total vals
  refine h.imp ?_
  intro a b hab
  simpa [leRat] using hab

/-- The interpolation on an already sorted list. -/
def pctlSorted (s : List Rat) (q : Rat) : Rat :=
  let pos := q / 100 * ((s.length : Rat) - 1)
  let lo := pos.floor.toNat
  let fr := pos - (lo : Rat)
  match s[lo]?, s[lo + 1]? with
  | some a, some b => a + fr * (b - a)
  | some a, none => a
  | none, _ => 0

theorem percentile_eq (vals : List Rat) (q : Rat) :
    percentile vals q = pctlSorted (vals.mergeSort leRat) q := rfl

theorem interp_between {a b fr : Rat} (hab : a ≤ b) (h0 : 0 ≤ fr) (h1 : fr ≤ 1) :
    a ≤ a + fr * (b - a) ∧ a + fr * (b - a) ≤ b := by
  constructor <;> nlinarith

theorem pctlSorted_between (s : List Rat) (hs : s.Pairwise (· ≤ ·)) (hne : s ≠ [])
    (q : Rat) (h0 : 0 ≤ q) (h1 : q ≤ 100) :
    ∃ a ∈ s, ∃ b ∈ s, a ≤ pctlSorted s q ∧ pctlSorted s q ≤ b := by
  have hn : 1 ≤ s.length := List.length_pos_iff.mpr hne
  have hnr : (1 : Rat) ≤ (s.length : Rat) := by exact_mod_cast hn
  unfold pctlSorted
  simp only
  generalize hpos : q / 100 * ((s.length : Rat) - 1) = pos
  have hpos0 : 0 ≤ pos := by
    rw [← hpos]
    apply mul_nonneg <;> linarith
  have hposn : pos ≤ (s.length : Rat) - 1 := by
    rw [← hpos]
    have : q / 100 ≤ 1 := by linarith
    nlinarith
  have hf0 : 0 ≤ pos.floor := Rat.le_floor_iff.mpr (by simpa using hpos0)
  have hcast : ((pos.floor.toNat : Nat) : Rat) = ((pos.floor : Int) : Rat) := by
    have : ((pos.floor.toNat : Nat) : Int) = pos.floor := Int.toNat_of_nonneg hf0
    exact_mod_cast congrArg (fun z : Int => (z : Rat)) this
  have hfl := Rat.floor_le pos
  have hfl2 : pos < ((pos.floor : Int) : Rat) + 1 := by
    have := Rat.lt_floor_add_one pos
    push_cast at this
    exact this
  have hlo : pos.floor.toNat < s.length := by
    have : ((pos.floor.toNat : Nat) : Rat) < (s.length : Rat) := by
      rw [hcast]; linarith
    exact_mod_cast this
  rw [List.getElem?_eq_getElem hlo]
  have hfr0 : 0 ≤ pos - ((pos.floor.toNat : Nat) : Rat) := by rw [hcast]; linarith
  have hfr1 : pos - ((pos.floor.toNat : Nat) : Rat) ≤ 1 := by rw [hcast]; linarith
  by_cases hlo1 : pos.floor.toNat + 1 < s.length
  · rw [List.getElem?_eq_getElem hlo1]
    simp only
    have hab : s[pos.floor.toNat] ≤ s[pos.floor.toNat + 1] :=
      List.pairwise_iff_getElem.mp hs _ _ hlo hlo1 (Nat.lt_succ_self _)
    have := interp_between hab hfr0 hfr1
    exact ⟨_, List.getElem_mem hlo, _, List.getElem_mem hlo1, this.1, this.2⟩
  · rw [List.getElem?_eq_none (by omega)]
    simp only
    exact ⟨_, List.getElem_mem hlo, _, List.getElem_mem hlo, Rat.le_refl, Rat.le_refl⟩

/-- The linear-interpolation percentile lies between the smallest and the largest value. -/
theorem percentile_between (vals : List Rat) (hne : vals ≠ []) (q : Rat) (h0 : 0 ≤ q) (h1 : q ≤ 100) :
    minRat vals ≤ percentile vals q ∧ percentile vals q ≤ maxRat vals := by
  have hperm := List.mergeSort_perm vals leRat
  have hne' : vals.mergeSort leRat ≠ [] := by
    intro h
    rw [h] at hperm
    exact hne hperm.symm.eq_nil
  obtain ⟨a, ha, b, hb, hab1, hab2⟩ :=
    pctlSorted_between (vals.mergeSort leRat) (sort_pairwise vals) hne' q h0 h1
  rw [percentile_eq]
  exact ⟨Rat.le_trans (minRat_le (hperm.subset ha)) hab1,
    Rat.le_trans hab2 (le_maxRat (hperm.subset hb))⟩

theorem mergeSort_perm_eq {l₁ l₂ : List Rat} (h : l₁.Perm l₂) :
    l₁.mergeSort leRat = l₂.mergeSort leRat := by
  have p : (l₁.mergeSort leRat).Perm (l₂.mergeSort leRat) :=
    ((List.mergeSort_perm l₁ leRat).trans h).trans (List.mergeSort_perm l₂ leRat).symm
  refine List.Perm.eq_of_pairwise (le := fun a b : Rat => a ≤ b) ?_ (sort_pairwise l₁) (sort_pairwise l₂) p
  intro a b _ _ hab hba
  exact Rat.le_antisymm hab hba

/-- The percentile does not depend on the order of the values. -/
theorem percentile_perm {l₁ l₂ : List Rat} (h : l₁.Perm l₂) (q : Rat) :
    percentile l₁ q = percentile l₂ q := by
  rw [percentile_eq, percentile_eq, mergeSort_perm_eq h]

/-- The look-back selection is a non-empty suffix of a non-empty array, whatever the look-back
(Python's `vals[-0:]` is the whole array): the `AmpycloudError` of `calc_base_height` is unreachable. -/
theorem latest_suffix (vals : List Rat) (lb : Rat) : (latest vals lb) <:+ vals := by
  unfold latest
  simp only
  split
  · exact List.suffix_refl _
  · exact List.drop_suffix _ _

theorem latest_ne_nil (vals : List Rat) (lb : Rat) (h : vals ≠ []) : latest vals lb ≠ [] := by
  unfold latest
  simp only
  split
  · exact h
  · rename_i hk
    intro hd
    have hl := List.drop_eq_nil_iff.mp hd
    have : 0 < vals.length := List.length_pos_iff.mpr h
    omega

theorem lookbackCount_full (n : Nat) : lookbackCount n 100 = n := by
  unfold lookbackCount
  have e : (n : Rat) * 100 / 100 = ((n : Int) : Rat) := by
    push_cast; field_simp
  rw [e, Rat.floor_intCast]
  simp

/-- With a look-back of 100 % everything is kept. -/
theorem latest_full (vals : List Rat) : latest vals 100 = vals := by
  unfold latest
  simp only [lookbackCount_full]
  split
  · rfl
  · simp

/-- For any percentile routine that stays between min and max of its argument, the base height
lies between the smallest and the largest of the values handed in. -/
theorem calcBase_between (pctl : List Rat → Rat → Rat) (vals : List Rat) (lb q : Rat) (hne : vals ≠ [])
    (hp : ∀ l, l ≠ [] → minRat l ≤ pctl l q ∧ pctl l q ≤ maxRat l) :
    ∃ b, calcBase pctl vals lb q = .ok b ∧ minRat vals ≤ b ∧ b ≤ maxRat vals := by
  have hsel := latest_ne_nil vals lb hne
  have hsuf := latest_suffix vals lb
  have hlen : (latest vals lb).length ≠ 0 := fun h => hsel (List.length_eq_zero_iff.mp h)
  refine ⟨pctl (latest vals lb) q, ?_, ?_, ?_⟩
  · unfold calcBase
    simp only
    rw [if_neg hlen]
  · exact Rat.le_trans (minRat_le (hsuf.subset (minRat_mem hsel))) (hp _ hsel).1
  · exact Rat.le_trans (hp _ hsel).2 (le_maxRat (hsuf.subset (maxRat_mem hsel)))

theorem absRat_nonneg (x : Rat) : 0 ≤ absRat x := by
  unfold absRat
  split <;> linarith

theorem foldl_add_nonneg (l : List Rat) (x : Rat) (hx : 0 ≤ x) (h : ∀ y ∈ l, 0 ≤ y) :
    0 ≤ l.foldl (· + ·) x := by
  induction l generalizing x with
  | nil => simpa using hx
  | cons z zs ih =>
    simp only [List.foldl_cons]
    apply ih
    · have := h z (List.mem_cons_self)
      linarith
    · intro y hy
      exact h y (List.mem_cons_of_mem _ hy)

theorem meanRat_nonneg (l : List Rat) (h : ∀ y ∈ l, 0 ≤ y) : 0 ≤ meanRat l := by
  unfold meanRat sumRat
  exact div_nonneg (foldl_add_nonneg l 0 (le_refl _) h) (Nat.cast_nonneg _)

/-- Fluffiness is non-negative for every smoothed curve the LOWESS could return. -/
theorem fluffiness_nonneg (K : MetK) (pts : List (Rat × Rat)) : 0 ≤ fluffiness K pts := by
  unfold fluffiness
  split
  · exact le_refl _
  · simp only
    apply mul_nonneg (by norm_num)
    apply meanRat_nonneg
    intro y hy
    obtain ⟨p, _, rfl⟩ := List.mem_map.mp hy
    exact absRat_nonneg _

theorem thickness_nonneg (l : List Rat) : 0 ≤ maxRat l - minRat l := by
  by_cases h : l = []
  · subst h
    simp [maxRat, minRat]
  · have := le_maxRat (minRat_mem h)
    linarith

theorem sortedRat_cons_iff (a : Rat) (l : List Rat) :
    sortedRat (a :: l) = true ↔ (∀ b ∈ l.head?, a ≤ b) ∧ sortedRat l = true := by
  cases l with
  | nil => simp [sortedRat]
  | cons b r => simp [sortedRat]

/-- `applyPerm` of a sorting permutation answer is non-decreasing iff `sortedRat` says so. -/
theorem sortedRat_iff (l : List Rat) : sortedRat l = true ↔ l.Pairwise (· ≤ ·) := by
  induction l with
  | nil => simp [sortedRat]
  | cons a l ih =>
    rw [sortedRat_cons_iff, List.pairwise_cons, ih]
    constructor
    · rintro ⟨h1, h2⟩
      refine ⟨?_, h2⟩
      cases l with
      | nil => intro b hb; cases hb
      | cons c r =>
        have hac : a ≤ c := h1 c (by simp)
        intro b hb
        rcases List.mem_cons.mp hb with rfl | hb
        · exact hac
        · exact Rat.le_trans hac (List.rel_of_pairwise_cons h2 hb)
    · rintro ⟨h1, h2⟩
      refine ⟨?_, h2⟩
      intro b hb
      cases l with
      | nil => cases hb
      | cons c r =>
        simp only [List.head?_cons, Option.mem_def, Option.some.injEq] at hb
        subst hb
        exact h1 _ (List.mem_cons_self)

end Ampy
