import Ampy.Lemmas.Run
/-! Facts about the final state of a successful `run`, assembled from the stage lemmas (behind C05). -/
namespace Ampy

theorem filterMap_range_mapIdx {β γ} (f : Nat → β → γ) (t : List β) :
    ((List.range t.length).filterMap fun i => (t[i]?).map (f i)) = t.mapIdx f := by
  induction t using List.reverseRecOn with
  | nil => simp
  | append_singleton l a ih =>
    rw [List.length_append, List.length_singleton, List.range_succ, List.filterMap_append, List.mapIdx_concat, ← ih]
    congr 1
    · apply List.filterMap_congr
      intro i hi
      rw [List.mem_range] at hi
      rw [List.getElem?_append_left hi]
    · simp

theorem setIsolated_eq (t : Table) (iso : List Bool) :
    setIsolated t iso = t.mapIdx fun i r => { r with isolated := some (iso.getD i true) } :=
  filterMap_range_mapIdx _ t

theorem setNcomp_eq (t : Table) (nc : List Int) :
    setNcomp t nc = t.mapIdx fun i r => { r with ncomp := some (nc.getD i (-1)) } :=
  filterMap_range_mapIdx _ t

theorem setIsolated_map_cid (t : Table) (iso : List Bool) : (setIsolated t iso).map (·.cid) = t.map (·.cid) := by
  rw [setIsolated_eq]
  apply List.ext_getElem?
  intro i
  simp only [List.getElem?_map, List.getElem?_mapIdx, Option.map_map]
  cases t[i]? <;> rfl

theorem setNcomp_map_cid (t : Table) (nc : List Int) : (setNcomp t nc).map (·.cid) = t.map (·.cid) := by
  rw [setNcomp_eq]
  apply List.ext_getElem?
  intro i
  simp only [List.getElem?_map, List.getElem?_mapIdx, Option.map_map]
  cases t[i]? <;> rfl

theorem setNcomp_getElem? (t : Table) (nc : List Int) (i : Nat) (r : Row) (h : (setNcomp t nc)[i]? = some r) :
    ∃ r₀, t[i]? = some r₀ ∧ r = { r₀ with ncomp := some (nc.getD i (-1)) } := by
  rw [setNcomp_eq, List.getElem?_mapIdx] at h
  cases ht : t[i]? with
  | none => rw [ht] at h; cases h
  | some r₀ =>
    rw [ht] at h
    exact ⟨r₀, rfl, (Option.some.inj h).symm⟩

/-- `nWhich` equals the length of a table whose cid column lists the cluster ids. -/
theorem nWhich_eq_length {α} (data : List (Hit α)) (ids : List Int) (hx : IdsExact data ids) (t : Table)
    (hp : (t.map (·.cid)).Perm (clusterIds ids)) : nWhich ids = t.length := by
  rw [nWhich_eq ids hx.toOK.ge, ← hp.length_eq, List.length_map]

/-- The three tables list exactly the sets present in the per-hit assignment (each once), and
`n_slices`, `n_groups`, `n_layers` equal their lengths. -/
theorem run_tables {α} [DecidableEq α] (K : Kern) (P : PPrms α) (checked : List (Hit α))
    (hK : KernOK K P.basePerc) (c : Chunk α) (h : run K P checked = .ok c) :
    ∃ sids gids lids sl gr lay,
      c.sids = some sids ∧ c.gids = some gids ∧ c.lids = some lids ∧
      c.slices = some sl ∧ c.groups = some gr ∧ c.layers = some lay ∧
      (sl.map (·.cid)).Perm (clusterIds sids) ∧ nWhich sids = sl.length ∧
      (gr.map (·.cid)).Perm (clusterIds gids) ∧ nWhich gids = gr.length ∧
      (lay.map (·.cid)).Perm (clusterIds lids) ∧ nWhich lids = lay.length := by
  obtain ⟨_, _, sids, sl, gids, iso, gr, lids, nc, lay, hs, hsl, hg, hgr, hl, hlay, e1, e2, e3, e4, e5, e6⟩ :=
    run_parts K P checked c h
  have h1 := sliceIds_exact K P c.data _ hK sids hs
  have h2 := groupIds_exact K P c.data _ hK sids sl h1 gids iso hg
  have h3 := layerIds_exact K P c.data _ hK gids gr h2 lids nc hl
  have p1 := metarize_cids K.toMetK P.toPrms .slices false c.data sids hK.met sl hsl
  have p2 := metarize_cids K.toMetK P.toPrms .groups false c.data gids hK.met gr hgr
  have p3 := metarize_cids K.toMetK P.toPrms .layers true c.data lids hK.met lay hlay
  have q1 : ((setIsolated sl iso).map (·.cid)).Perm (clusterIds sids) := by
    rw [setIsolated_map_cid]; exact p1
  have q2 : ((setNcomp gr nc).map (·.cid)).Perm (clusterIds gids) := by
    rw [setNcomp_map_cid]; exact p2
  exact ⟨sids, gids, lids, _, _, lay, e1, e2, e3, e4, e5, e6,
    q1, nWhich_eq_length c.data sids h1 _ q1,
    q2, nWhich_eq_length c.data gids h2 _ q2,
    p3, nWhich_eq_length c.data lids h3 _ p3⟩

/-- Each layer lies inside exactly one group. -/
theorem run_refine {α} [DecidableEq α] (K : Kern) (P : PPrms α) (checked : List (Hit α))
    (hK : KernOK K P.basePerc) (c : Chunk α) (h : run K P checked = .ok c)
    (gids lids : List Int) (hg : c.gids = some gids) (hl : c.lids = some lids) :
    ∀ p₁ ∈ lids.zip gids, ∀ p₂ ∈ lids.zip gids, p₁.1 = p₂.1 → p₁.2 = p₂.2 := by
  obtain ⟨_, _, sids, sl, gids', iso, gr, lids', nc, lay, hs, hsl, hgi, hgr, hli, hlay, e1, e2, e3, e4, e5, e6⟩ :=
    run_parts K P checked c h
  obtain rfl : gids' = gids := Option.some.inj (e2.symm.trans hg)
  obtain rfl : lids' = lids := Option.some.inj (e3.symm.trans hl)
  have h1 := sliceIds_exact K P c.data _ hK sids hs
  have h2 := groupIds_exact K P c.data _ hK sids sl h1 gids' iso hgi
  have p2 := metarize_cids K.toMetK P.toPrms .groups false c.data gids' hK.met gr hgr
  have hcid : (gr.map (·.cid)).Nodup := p2.nodup_iff.mpr (clusterIds_nodup gids')
  exact layers_refine_groups K P c.data _ hK gids' gr h2 hcid lids' nc hli

/-- A group reported with `k ≥ 1` sub-components yields exactly `k` layers, a group that was not
examined (`ncomp = -1`) exactly one. -/
theorem run_k_components {α} [DecidableEq α] (K : Kern) (P : PPrms α) (checked : List (Hit α))
    (hK : KernOK K P.basePerc) (c : Chunk α) (h : run K P checked = .ok c)
    (gids lids : List Int) (gr : Table) (hg : c.gids = some gids) (hl : c.lids = some lids) (hgr : c.groups = some gr) :
    ∀ g ∈ gr, ∃ k, g.ncomp = some k ∧
      (((lids.zip gids).filter (·.2 = g.cid)).map (·.1)).eraseDups.length = (if k ≥ 1 then k.toNat else 1) := by
  obtain ⟨_, _, sids, sl, gids', iso, gr₀, lids', nc, lay, hs, hsl, hgi, hgr₀, hli, hlay, e1, e2, e3, e4, e5, e6⟩ :=
    run_parts K P checked c h
  obtain rfl : gids' = gids := Option.some.inj (e2.symm.trans hg)
  obtain rfl : lids' = lids := Option.some.inj (e3.symm.trans hl)
  obtain rfl : setNcomp gr₀ nc = gr := Option.some.inj (e5.symm.trans hgr)
  have h1 := sliceIds_exact K P c.data _ hK sids hs
  have h2 := groupIds_exact K P c.data _ hK sids sl h1 gids' iso hgi
  have p2 := metarize_cids K.toMetK P.toPrms .groups false c.data gids' hK.met gr₀ hgr₀
  have hcid : (gr₀.map (·.cid)).Nodup := p2.nodup_iff.mpr (clusterIds_nodup gids')
  have hmem : ∀ g ∈ gr₀, g.cid ∈ gids' := by
    intro g hgm
    have : g.cid ∈ gr₀.map (·.cid) := List.mem_map_of_mem hgm
    exact ((mem_clusterIds gids' g.cid).mp (p2.mem_iff.mp this)).1
  have hlen := layerIds_ncomps_length K P c.data gids' gr₀ lids' nc hli
  intro g hgm
  obtain ⟨ind, hind⟩ := List.getElem?_of_mem hgm
  obtain ⟨r₀, hr₀, rfl⟩ := setNcomp_getElem? gr₀ nc ind g hind
  have hi : ind < gr₀.length := (List.getElem?_eq_some_iff.mp hr₀).1
  have hnc : nc[ind]? = some (nc.getD ind (-1)) := by
    have hi' : ind < nc.length := hlen ▸ hi
    rw [List.getD_eq_getElem?_getD, List.getElem?_eq_getElem hi']
    rfl
  exact ⟨nc.getD ind (-1), rfl,
    ncomp_layers K P c.data _ hK gids' gr₀ h2 hcid hmem lids' nc hli ind r₀ hr₀ _ hnc⟩
end Ampy
