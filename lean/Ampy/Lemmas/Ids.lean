import Ampy.Lemmas.Pipeline
import Ampy.Model.Pipeline
/-!
Lemmas behind C05: the id columns written by `find_slices`, `find_groups`, `find_layers` respect the id
invariants (`IdsOK`) for every third-party answer of the right shape, layers refine groups, and a group
reported with `k` sub-components owns exactly `k` layer ids.
-/
namespace Ampy

/-- Shape conditions on the third-party answers of the cascade (monitored on every scene). -/
structure KernOK (K : Kern) (q : Rat) : Prop where
  met : MetKOK K.toMetK q
  /-- A1: one label per point -/
  cluster_len : ∀ l t pts, (K.cluster l t pts).length = pts.length
  /-- A2: one component per value, numbered below `n` -/
  gmm_len : ∀ s vals n, (K.gmm s vals n).labels.length = vals.length
  gmm_lt : ∀ s vals n, 1 ≤ n → ∀ l ∈ (K.gmm s vals n).labels, l < n
  bestProb_lt : ∀ ab mp, ab ≠ [] → K.bestProb ab mp < ab.length
  argsort_perm : ∀ l, isPermOf (K.argsort l) l.length = true
  argsort_sorted : ∀ l, (applyPerm (K.argsort l) l).Pairwise (· ≤ ·)
  prelimOrder_perm : ∀ l, isPermOf (K.prelimOrder l) l.length = true
  prelimOrder_sorted : ∀ l, (applyPerm (K.prelimOrder l) l).Pairwise (· ≤ ·)

/-- Structural form of `scatterLabels`. -/
def scatGo {α} (d : Int) : List (Hit α) → List Int → List Int
  | [], _ => []
  | h :: t, ls =>
    match h.height, ls with
    | some _, l :: r => l :: scatGo d t r
    | some _, [] => d :: scatGo d t []
    | none, ls => d :: scatGo d t ls

theorem scatterLabels_fold {α} (d : Int) (data : List (Hit α)) : ∀ (acc labels : List Int),
    (data.foldl (fun (acc : List Int × List Int) h =>
      match h.height, acc.2 with
      | some _, l :: rest => (acc.1 ++ [l], rest)
      | some _, [] => (acc.1 ++ [d], [])
      | none, ls => (acc.1 ++ [d], ls)) (acc, labels)).1 = acc ++ scatGo d data labels := by
  induction data with
  | nil => intro acc labels; simp [scatGo]
  | cons h t ih =>
    intro acc labels
    rw [List.foldl_cons]
    cases hh : h.height with
    | none =>
      simp only [scatGo, hh]
      rw [ih]; simp
    | some y =>
      cases labels with
      | nil => simp only [scatGo, hh]; rw [ih]; simp
      | cons l r => simp only [scatGo, hh]; rw [ih]; simp

theorem scatterLabels_eq {α} (data : List (Hit α)) (labels : List Int) (d : Int) :
    scatterLabels data labels d = scatGo d data labels := by
  exact (scatterLabels_fold d data [] labels).trans (List.nil_append _)

theorem scatGo_length {α} (d : Int) (data : List (Hit α)) : ∀ labels, (scatGo d data labels).length = data.length := by
  induction data with
  | nil => intro; simp [scatGo]
  | cons h t ih =>
    intro labels
    unfold scatGo
    split <;> simp [ih]

/-- `scatterLabels` writes one id per row: the default on rows without a height, the labels (in order)
on the others. -/
theorem scatterLabels_length {α} (data : List (Hit α)) (labels : List Int) (d : Int) :
    (scatterLabels data labels d).length = data.length := by
  rw [scatterLabels_eq, scatGo_length]

theorem scatGo_ok {α} (data : List (Hit α)) : ∀ (labels : List Int)
    (_ : labels.length = (data.filter (·.height.isSome)).length) (_ : ∀ l ∈ labels, 0 ≤ l),
    ∀ p ∈ data.zip (scatGo (-1) data labels),
      (p.1.height.isSome = true → 0 ≤ p.2) ∧ (p.1.height = none → p.2 = -1) := by
  induction data with
  | nil => intro labels hl hnn p hp; simp at hp
  | cons h t ih =>
    intro labels hl hnn p hp
    cases hh : h.height with
    | none =>
      simp only [scatGo, hh, List.zip_cons_cons, List.mem_cons] at hp
      rw [List.filter_cons_of_neg (by simp [hh])] at hl
      rcases hp with rfl | hp
      · simp [hh]
      · exact ih labels hl hnn p hp
    | some y =>
      rw [List.filter_cons_of_pos (by simp [hh])] at hl
      cases labels with
      | nil => simp at hl
      | cons l r =>
        simp only [scatGo, hh, List.zip_cons_cons, List.mem_cons] at hp
        rcases hp with rfl | hp
        · simp [hh, hnn l List.mem_cons_self]
        · exact ih r (by simpa using hl) (fun x hx => hnn x (List.mem_cons_of_mem _ hx)) p hp

theorem scatterLabels_ok {α} (data : List (Hit α)) (labels : List Int)
    (hl : labels.length = (data.filter (·.height.isSome)).length) (hnn : ∀ l ∈ labels, 0 ≤ l) :
    ∀ p ∈ data.zip (scatterLabels data labels (-1)),
      (p.1.height.isSome = true → 0 ≤ p.2) ∧ (p.1.height = none → p.2 = -1) := by
  rw [scatterLabels_eq]
  exact scatGo_ok data labels hl hnn

/-- Strong form of the id invariant: an id is `≥ 0` exactly on the rows with a valid height, `-1` on the others. -/
structure IdsExact {α} (data : List (Hit α)) (ids : List Int) : Prop where
  len : ids.length = data.length
  valid : ∀ p ∈ data.zip ids, (p.1.height.isSome = true → 0 ≤ p.2) ∧ (p.1.height = none → p.2 = -1)

theorem IdsExact.toOK {α} {data : List (Hit α)} {ids : List Int} (h : IdsExact data ids) : IdsOK data ids := by
  refine ⟨h.len, ?_, ?_⟩
  · intro i hi
    obtain ⟨k, hk, rfl⟩ := List.mem_iff_getElem.mp hi
    have hd : k < data.length := h.len ▸ hk
    have := h.valid _ (zip_getElem_mem data ids k hd hk)
    cases hh : data[k].height with
    | none => have := this.2 hh; simp only at this; omega
    | some y => have := this.1 (by simp [hh]); simp only at this; omega
  · intro p hp h0 hn
    have := (h.valid p hp).2 hn
    omega

/-! ### slice ids -/

theorem stepScale_isSome (vals : List (Option Rat)) (st sc : List Rat) (m : ScaleMode) (out : List (Option Rat))
    (h : stepScale vals st sc m = .ok out) : out.map Option.isSome = vals.map Option.isSome := by
  unfold stepScale at h
  split at h
  · cases h
  · split at h
    · cases h
    · split at h <;> (cases h; simp [List.map_map, Function.comp_def])

theorem applyScaling_isSome (vals : List (Option Rat)) (spec : ScaleSpec) (out : List (Option Rat))
    (h : applyScaling vals spec = .ok out) : out.map Option.isSome = vals.map Option.isSome := by
  unfold applyScaling at h
  split at h
  · cases h; rfl
  · split at h
    · cases h; rfl
    · split at h
      · cases h; rfl
      · cases h; simp [shiftAndScale, List.map_map, Function.comp_def]
      · cases h; simp [minmaxScale, List.map_map, Function.comp_def]
      · cases h; simp [minmaxScale, List.map_map, Function.comp_def]
      · exact stepScale_isSome _ _ _ _ _ h

theorem pts_length_aux {α} (data : List (Hit α)) : ∀ (sdt sh : List (Option Rat)),
    sdt.map Option.isSome = data.map (fun _ => true) →
    sh.map Option.isSome = data.map (·.height.isSome) →
    ((((sdt.zip sh).zip (data.map fun _ => true)).filterMap fun (x : (Option Rat × Option Rat) × Bool) =>
      match x with
      | ((t, y), k) =>
      match t, y with
      | some t, some y => if k then some (t, y) else none
      | _, _ => none).length = (data.filter (·.height.isSome)).length) := by
  induction data with
  | nil => intro sdt sh h1 h2; simp
  | cons h t ih =>
    intro sdt sh h1 h2
    cases sdt with
    | nil => simp at h1
    | cons a sdt =>
      cases sh with
      | nil => simp at h2
      | cons b sh =>
        simp only [List.map_cons, List.cons.injEq] at h1 h2
        simp only [List.zip_cons_cons, List.map_cons, List.filterMap_cons, List.filter_cons]
        have ih' := ih sdt sh h1.2 h2.2
        cases a with
        | none => simp at h1
        | some a =>
          cases b with
          | none =>
            have : h.height.isSome = false := by rw [← h2.1]; rfl
            simp only [this]
            exact ih'
          | some b =>
            have : h.height.isSome = true := by rw [← h2.1]; rfl
            simp only [this, if_true, List.length_cons]
            rw [ih']

theorem scaledPoints_length {α} (data : List (Hit α)) (dtScale : Rat) (hSpec : ScaleSpec) (pts : List (Rat × Rat))
    (h : scaledPoints data dtScale hSpec (data.map fun _ => true) = .ok pts) :
    pts.length = (data.filter (·.height.isSome)).length := by
  unfold scaledPoints at h
  simp only [bind, Except.bind, pure, Except.pure] at h
  split at h
  · cases h
  · rename_i sdt hsdt
    split at h
    · cases h
    · rename_i sh hsh
      cases h
      have h1 := applyScaling_isSome _ _ _ hsdt
      have h2 := applyScaling_isSome _ _ _ hsh
      apply pts_length_aux data sdt sh
      · rw [h1]; simp [dts, List.map_map, Function.comp_def]
      · rw [h2]; simp [heights, List.map_map, Function.comp_def]

/-- `scaledPoints` with an all-true mask returns one point per row with a valid height, provided the
height scaling is one of the total ones (minmax / shift / none, or a well-formed step list). -/
theorem sliceIds_exact {α} (K : Kern) (P : PPrms α) (data : List (Hit α)) (q : Rat) (hK : KernOK K q)
    (sids : List Int) (h : sliceIds K P data = .ok sids) : IdsExact data sids := by
  unfold sliceIds at h
  simp only [bind, Except.bind, pure, Except.pure] at h
  split at h
  · rename_i h1
    cases h
    exact ⟨scatterLabels_length _ _ _, scatterLabels_ok data [1] (by simp [h1]) (by simp)⟩
  · split at h
    · split at h
      · cases h
      · rename_i pts hpts
        cases h
        refine ⟨scatterLabels_length _ _ _, scatterLabels_ok data _ ?_ ?_⟩
        · rw [List.length_map, hK.cluster_len, scaledPoints_length data _ _ pts hpts]
        · intro l hl
          obtain ⟨n, _, rfl⟩ := List.mem_map.mp hl
          exact Int.natCast_nonneg n
    · rename_i h1 h2
      cases h
      have h0 : (data.filter (·.height.isSome)).length = 0 := by omega
      have hnil := List.length_eq_zero_iff.mp h0
      refine ⟨by simp, ?_⟩
      intro p hp
      have hp1 := (List.of_mem_zip hp).1
      have hp2 := (List.of_mem_zip hp).2
      have hnone : p.1.height.isSome = false := by
        by_contra hc
        have : p.1 ∈ data.filter (·.height.isSome) := List.mem_filter.mpr ⟨hp1, Bool.of_not_eq_false hc⟩
        rw [hnil] at this
        cases this
      obtain ⟨_, _, he⟩ := List.mem_map.mp hp2
      exact ⟨by simp [hnone], fun _ => he.symm⟩
/-! ### group ids -/

theorem modeInt_fold_mem (l : List Int) (S : List Int) : ∀ (cands : List Int) (init : Option Int),
    (∀ b, init = some b → b ∈ S) → (∀ c ∈ cands, c ∈ S) → ∀ m,
    cands.foldl (fun (best : Option Int) c =>
      match best with
      | none => some c
      | some b => if l.count c > l.count b then some c else some b) init = some m → m ∈ S := by
  intro cands
  induction cands with
  | nil => intro init h1 _ m hm; exact h1 m hm
  | cons c t ih =>
    intro init h1 h2 m hm
    rw [List.foldl_cons] at hm
    refine ih _ ?_ (fun x hx => h2 x (List.mem_cons_of_mem _ hx)) m hm
    intro b hb
    cases init with
    | none => simp only [Option.some.injEq] at hb; subst hb; exact h2 _ List.mem_cons_self
    | some b0 =>
      simp only at hb
      split at hb
      · simp only [Option.some.injEq] at hb; subst hb; exact h2 _ List.mem_cons_self
      · simp only [Option.some.injEq] at hb; subst hb; exact h1 _ rfl

theorem modeInt_mem (l : List Int) (m : Int) (h : modeInt l = some m) : m ∈ l := by
  unfold modeInt at h
  exact modeInt_fold_mem l l (uniqueSorted l) none (by intro b hb; cases hb)
    (fun c hc => (mem_uniqueSorted l c).mp hc) m h

/-- Invariant of the partially assigned group column. -/
def GOK {α} (data : List (Hit α)) (sids : List Int) (g : List (Option Int)) : Prop :=
  g.length = data.length ∧ ∀ i m, g[i]? = some (some m) →
    (∃ hi : i < data.length, data[i].height.isSome = true) ∧ 0 ≤ m ∧ m ∈ sids

theorem foldl_inv {β γ} (f : β → γ → β) (P : β → Prop) (hstep : ∀ b c, P b → P (f b c)) :
    ∀ (l : List γ) (b : β), P b → P (l.foldl f b) := by
  intro l
  induction l with
  | nil => intro b hb; exact hb
  | cons c t ih => intro b hb; rw [List.foldl_cons]; exact ih _ (hstep b c hb)

theorem foldlM_except_inv {ε β γ} (f : β → γ → Except ε β) (P : β → Prop)
    (hstep : ∀ b c b', P b → f b c = .ok b' → P b') :
    ∀ (l : List γ) (b b' : β), P b → l.foldlM f b = .ok b' → P b' := by
  intro l
  induction l with
  | nil =>
    intro b b' hb h
    rw [List.foldlM_nil] at h
    cases h
    exact hb
  | cons c t ih =>
    intro b b' hb h
    rw [List.foldlM_cons] at h
    simp only [bind, Except.bind] at h
    split at h
    · cases h
    · rename_i b1 hb1
      exact ih b1 b' (hstep b c b1 hb hb1) h

theorem rowsIdx_valid {α} (data : List (Hit α)) (inB : List Bool) (i : Nat)
    (h : i ∈ ((List.range data.length).zip (data.zip inB)).filterMap fun (x : Nat × Hit α × Bool) =>
      match x with
      | (i, (h, k)) => if k && h.height.isSome then some i else none) :
    ∃ hi : i < data.length, data[i].height.isSome = true := by
  obtain ⟨x, hx, hfx⟩ := List.mem_filterMap.mp h
  obtain ⟨t, ht, rfl⟩ := List.mem_iff_getElem.mp hx
  simp only [List.length_zip, List.length_range] at ht
  simp only [List.getElem_zip, List.getElem_range] at hfx
  split at hfx
  · rename_i hc
    simp only [Option.some.injEq] at hfx
    subst hfx
    simp only [Bool.and_eq_true] at hc
    exact ⟨by omega, hc.2⟩
  · cases hfx

theorem groupStep_ok {α} (data : List (Hit α)) (sids : List Int) (hs : IdsExact data sids)
    (rowsC : List Nat) (hC : ∀ i ∈ rowsC, ∃ hi : i < data.length, data[i].height.isSome = true)
    (g : List (Option Int)) (hg : GOK data sids g) :
    GOK data sids (match modeInt (rowsC.filterMap (sids[·]?)) with
      | some m => (List.range g.length).map fun i => if rowsC.contains i then some m else g.getD i none
      | none => g) := by
  split
  · rename_i m hm
    have hmem := modeInt_mem _ _ hm
    obtain ⟨j, hj, hjm⟩ := List.mem_filterMap.mp hmem
    obtain ⟨hjd, hjh⟩ := hC j hj
    obtain ⟨hjs, hje⟩ := List.getElem?_eq_some_iff.mp hjm
    have hm0 : 0 ≤ m := by
      have := (hs.valid _ (zip_getElem_mem data sids j hjd hjs)).1 hjh
      rw [hje] at this
      exact this
    have hms : m ∈ sids := List.mem_of_getElem? hjm
    refine ⟨by rw [List.length_map, List.length_range]; exact hg.1, ?_⟩
    intro i m' hi
    rw [List.getElem?_map] at hi
    obtain ⟨i', hi', hv⟩ := Option.map_eq_some_iff.mp hi
    obtain ⟨hlt, rfl⟩ := List.getElem?_eq_some_iff.mp hi'
    simp only [List.getElem_range] at hv
    split at hv
    · rename_i hc
      simp only [Option.some.injEq] at hv
      subst hv
      exact ⟨hC i (List.contains_iff_mem.mp hc), hm0, hms⟩
    · apply hg.2 i m'
      rw [List.getD_eq_getElem?_getD] at hv
      cases hgi : g[i]? with
      | none => rw [hgi] at hv; cases hv
      | some v => rw [hgi] at hv; simp only [Option.getD_some] at hv; rw [hv]
  · exact hg

theorem groupBundle_ok {α} (K : Kern) (P : PPrms α) (data : List (Hit α)) (sids : List Int) (slices : Table)
    (hs : IdsExact data sids) (bundle : List Nat) (g g' : List (Option Int)) (hg : GOK data sids g)
    (h : groupBundle K P data sids slices bundle g = .ok g') : GOK data sids g' := by
  unfold groupBundle at h
  simp only [bind, Except.bind, pure, Except.pure] at h
  split at h
  · cases h
  · split at h
    · cases h; exact hg
    · cases h
      apply foldl_inv _ (GOK data sids) _ _ _ hg
      intro b c hb
      apply groupStep_ok data sids hs _ _ b hb
      intro i hi
      obtain ⟨x, hx, hfx⟩ := List.mem_filterMap.mp hi
      have hx1 := (List.of_mem_zip hx).1
      split at hfx
      · simp only [Option.some.injEq] at hfx
        subst hfx
        exact rowsIdx_valid data _ _ hx1
      · cases hfx

/-- Invariant of the group id column during the merge. -/
def MOK {α} (data : List (Hit α)) (sids : List Int) (ids : List Int) : Prop :=
  IdsExact data ids ∧ ∀ g ∈ ids, g ∈ sids

theorem filled_ok {α} (data : List (Hit α)) (sids : List Int) (hs : IdsExact data sids)
    (g : List (Option Int)) (hg : GOK data sids g) :
    MOK data sids ((g.zip sids).map fun (x : Option Int × Int) => x.1.getD x.2) := by
  have hlen : ((g.zip sids).map fun (x : Option Int × Int) => x.1.getD x.2).length = data.length := by
    rw [List.length_map, List.length_zip, hg.1, hs.len, Nat.min_self]
  refine ⟨⟨hlen, ?_⟩, ?_⟩
  · intro p hp
    obtain ⟨i, hi, rfl⟩ := List.mem_iff_getElem.mp hp
    simp only [List.length_zip, hlen, Nat.min_self] at hi
    have hig : i < g.length := by rw [hg.1]; exact hi
    have his : i < sids.length := by rw [hs.len]; exact hi
    simp only [List.getElem_zip, List.getElem_map]
    cases hgi : g[i] with
    | none =>
      simp only [Option.getD_none]
      exact hs.valid _ (zip_getElem_mem data sids i hi his)
    | some m =>
      simp only [Option.getD_some]
      have hgi' : g[i]? = some (some m) := by rw [List.getElem?_eq_getElem hig, hgi]
      obtain ⟨⟨_, hh⟩, hm0, _⟩ := hg.2 i m hgi'
      refine ⟨fun _ => hm0, fun hn => ?_⟩
      rw [hn] at hh
      cases hh
  · intro x hx
    obtain ⟨y, hy, rfl⟩ := List.mem_map.mp hx
    obtain ⟨i, hi, rfl⟩ := List.mem_iff_getElem.mp hy
    simp only [List.length_zip] at hi
    have hig : i < g.length := by omega
    have his : i < sids.length := by omega
    simp only [List.getElem_zip]
    cases hgi : g[i] with
    | none => simp only [Option.getD_none]; exact List.getElem_mem his
    | some m =>
      simp only [Option.getD_some]
      have hgi' : g[i]? = some (some m) := by rw [List.getElem?_eq_getElem hig, hgi]
      exact (hg.2 i m hgi').2.2

theorem relabel_ok {α} (data : List (Hit α)) (sids ids : List Int) (h : MOK data sids ids) (cidK cidB : Int)
    (hK0 : 0 ≤ cidK) (hB0 : 0 ≤ cidB) (hBs : cidB ∈ sids) :
    MOK data sids (ids.map fun g => if g = cidK then cidB else g) := by
  refine ⟨⟨by rw [List.length_map]; exact h.1.len, ?_⟩, ?_⟩
  · intro p hp
    rw [List.zip_map_right] at hp
    obtain ⟨q, hq, rfl⟩ := List.mem_map.mp hp
    have hv := h.1.valid q hq
    simp only [Prod.map_fst, Prod.map_snd, id_eq]
    by_cases hc : q.2 = cidK
    · rw [if_pos hc]
      refine ⟨fun _ => hB0, fun hn => ?_⟩
      have := hv.2 hn
      omega
    · rw [if_neg hc]
      exact hv
  · intro x hx
    obtain ⟨y, hy, rfl⟩ := List.mem_map.mp hx
    by_cases hc : y = cidK
    · rw [if_pos hc]; exact hBs
    · rw [if_neg hc]; exact h.2 y hy

theorem mergeLoop_ok {α} [DecidableEq α] (K : Kern) (P : PPrms α) (data : List (Hit α)) (sids : List Int) :
    ∀ (fuel : Nat) (gids : List Int) (prelim : List (Int × Rat)) (out : List Int × List (Int × Rat)),
    MOK data sids gids → (∀ p ∈ prelim, 0 ≤ p.1 ∧ p.1 ∈ sids) →
    mergeLoop K P data fuel gids prelim = .ok out → MOK data sids out.1 := by
  intro fuel
  induction fuel with
  | zero =>
    intro gids prelim out hg _ h
    rw [mergeLoop] at h
    cases h
    exact hg
  | succ n ih =>
    intro gids prelim out hg hp h
    rw [mergeLoop] at h
    simp only [bind, Except.bind, pure, Except.pure] at h
    split at h
    · cases h
    · split at h
      · cases h; exact hg
      · rename_i k _
        split at h
        · rename_i cidK bK cidB bB hk hb
          have hmK := hp _ (List.mem_of_getElem? hk)
          have hmB := hp _ (List.mem_of_getElem? hb)
          split at h
          · cases h
          · rename_i b _
            refine ih _ _ out (relabel_ok data sids gids hg cidK cidB hmK.1 hmB.1 hmB.2) ?_ h
            intro p hpm
            rcases List.mem_or_eq_of_mem_set hpm with hpm | rfl
            · exact hp p (List.mem_of_mem_eraseIdx hpm)
            · exact hmB
        · cases h; exact hg

theorem mergeCloseGroups_ok {α} [DecidableEq α] (K : Kern) (P : PPrms α) (data : List (Hit α)) (sids : List Int)
    (gids out : List Int) (hg : MOK data sids gids) (h : mergeCloseGroups K P data gids = .ok out) :
    MOK data sids out := by
  unfold mergeCloseGroups at h
  simp only [bind, Except.bind, pure, Except.pure] at h
  split at h
  · cases h
  · rename_i bases _
    split at h
    · cases h
    · rename_i res hres
      cases h
      refine mergeLoop_ok K P data sids _ gids _ res hg ?_ hres
      intro p hp
      unfold applyPerm at hp
      obtain ⟨i, _, hi⟩ := List.mem_filterMap.mp hp
      have hz := List.mem_of_getElem? hi
      have hc := (List.of_mem_zip hz).1
      obtain ⟨h1, h2⟩ := (mem_clusterIds gids p.1).mp hc
      have := hg.1.toOK.ge p.1 h1
      exact ⟨by omega, hg.2 p.1 h1⟩

theorem groupIds_mok {α} [DecidableEq α] (K : Kern) (P : PPrms α) (data : List (Hit α))
    (sids : List Int) (slices : Table) (hs : IdsExact data sids)
    (gids : List Int) (iso : List Bool) (h : groupIds K P data sids slices = .ok (gids, iso)) :
    MOK data sids gids := by
  unfold groupIds at h
  simp only [bind, Except.bind, pure, Except.pure] at h
  split at h
  · cases h
  · rename_i g1 hg1
    split at h
    · cases h
    · rename_i merged hm
      cases h
      have hg0 : GOK data sids (data.map fun _ => none) := by
        refine ⟨by simp, ?_⟩
        intro i m hi
        rw [List.getElem?_map] at hi
        obtain ⟨_, _, hv⟩ := Option.map_eq_some_iff.mp hi
        cases hv
      have hG1 := foldlM_except_inv _ (GOK data sids)
        (fun b c b' hb hbc => groupBundle_ok K P data sids slices hs c b b' hb hbc) _ _ _ hg0 hg1
      exact mergeCloseGroups_ok K P data sids _ _ (filled_ok data sids hs g1 hG1) hm

/-- The group ids written by `find_groups` (bundles, majority vote, fill, merge) are slice ids of the
chunk: the invariant is preserved. -/
theorem groupIds_exact {α} [DecidableEq α] (K : Kern) (P : PPrms α) (data : List (Hit α)) (q : Rat)
    (hK : KernOK K q) (sids : List Int) (slices : Table) (hs : IdsExact data sids)
    (gids : List Int) (iso : List Bool) (h : groupIds K P data sids slices = .ok (gids, iso)) :
    IdsExact data gids := by
  have _ := hK
  exact (groupIds_mok K P data sids slices hs gids iso h).1

/-- Every group id is one of the slice ids (groups are unions of hits labelled by an existing slice id). -/
theorem groupIds_subset {α} [DecidableEq α] (K : Kern) (P : PPrms α) (data : List (Hit α)) (q : Rat)
    (hK : KernOK K q) (sids : List Int) (slices : Table) (hs : IdsExact data sids)
    (gids : List Int) (iso : List Bool) (h : groupIds K P data sids slices = .ok (gids, iso)) :
    ∀ g ∈ gids, g ∈ sids := by
  have _ := hK
  exact (groupIds_mok K P data sids slices hs gids iso h).2

theorem foldl_max_ge (l : List Int) : ∀ (a : Int), a ≤ l.foldl max a ∧ ∀ g ∈ l, g ≤ l.foldl max a := by
  induction l with
  | nil => intro a; simp
  | cons x t ih =>
    intro a
    rw [List.foldl_cons]
    obtain ⟨h1, h2⟩ := ih (max a x)
    refine ⟨by omega, ?_⟩
    intro g hg
    rcases List.mem_cons.mp hg with rfl | hg
    · omega
    · exact h2 g hg

/-- The sub-layer ids start beyond every group id. -/
theorem lidOffset_gt (gids : List Int) : ∀ g ∈ gids, g < lidOffset gids := by
  intro g hg
  unfold lidOffset maxId
  obtain ⟨h1, h2⟩ := foldl_max_ge gids (-1)
  have := h2 g hg
  omega

end Ampy
