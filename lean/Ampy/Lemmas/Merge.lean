import Ampy.Lemmas.Ids
import Mathlib.Tactic.Linarith
/-!
Lemmas behind C06: `_get_min_sep_for_height`, the merge loop of `_merge_close_groups` (termination,
exit condition, bases current), separation of the reported groups, and the re-merge pass of
`ncomp_from_gmm`.
-/
namespace Ampy

/-- `MIN_SEP_VALS` is one longer than `MIN_SEP_LIMS`. -/
def SepShape {α} (P : Prms α) : Prop := P.minSepLims.length + 1 = P.minSepVals.length

/-- Separations are non-negative. -/
def SepNonneg {α} (P : Prms α) : Prop := ∀ v ∈ P.minSepVals, 0 ≤ v

/-- `searchsorted` (left): the entry of `MIN_SEP_VALS` for the height bin of `h`. -/
theorem minSepFor_ok {α} (P : Prms α) (hs : SepShape P) (h : Rat) :
    ∃ v, minSepFor P h = .ok v ∧ v ∈ P.minSepVals ∧
      P.minSepVals[(P.minSepLims.filter (· < h)).length]? = some v := by
  unfold SepShape at hs
  have hlen : (P.minSepLims.filter (· < h)).length < P.minSepVals.length := by
    have := List.length_filter_le (fun x => decide (x < h)) P.minSepLims
    omega
  refine ⟨P.minSepVals[(P.minSepLims.filter (· < h)).length], ?_, List.getElem_mem _,
    List.getElem?_eq_getElem hlen⟩
  unfold minSepFor
  rw [if_neg (not_not.mpr hs), List.getElem?_eq_getElem hlen]

/-- The length check is the only refusal. -/
theorem minSepFor_refuses {α} (P : Prms α) (hs : ¬ SepShape P) (h : Rat) :
    ∃ why, minSepFor P h = .error (.ampy why) := by
  unfold SepShape at hs
  unfold minSepFor
  rw [if_pos hs]
  exact ⟨_, rfl⟩

/-- Adjacent steps non-negative: the list is non-decreasing. -/
theorem adj_mono (l : List Rat) (h : ∀ k (hk : k + 1 < l.length), l[k] ≤ l[k + 1]) :
    ∀ j i (_ : i ≤ j) (hj : j < l.length), l[i] ≤ l[j] := by
  intro j
  induction j with
  | zero =>
    intro i hi hj
    have : i = 0 := by omega
    subst this
    exact le_refl _
  | succ n ih =>
    intro i hi hj
    by_cases he : i = n + 1
    · subst he; exact le_refl _
    · exact le_trans (ih i (by omega) (by omega)) (h n hj)

/-- From neighbours to all pairs. -/
theorem adj_to_all (l : List Rat) (s : Nat → Rat) (hs : ∀ k, k + 1 < l.length → 0 ≤ s (k + 1))
    (h : ∀ k (hk : k + 1 < l.length), l[k + 1] - l[k] ≥ s (k + 1)) :
    ∀ i j (_ : i < j) (hj : j < l.length), l[j] - l[i]'(by omega) ≥ s j := by
  intro i j hij hj
  obtain ⟨m, rfl⟩ : ∃ m, j = m + 1 := ⟨j - 1, by omega⟩
  have hmono := adj_mono l (fun k hk => by
    have h1 := h k hk
    have h2 := hs k hk
    linarith) m i (by omega) (by omega)
  have := h m hj
  linarith

theorem firstTooClose_ok {α} (P : Prms α) (bases : List Rat) (r : Option Nat)
    (h : firstTooClose P bases = .ok r) :
    ∃ seps, List.Forall₂ (fun c s => minSepFor P c = .ok s) bases seps ∧
      r = (List.range bases.length).find? fun k =>
        k ≥ 1 && (match bases[k]?, bases[k - 1]?, seps[k]? with
          | some b, some a, some s => decide (b - a < s)
          | _, _, _ => false) := by
  unfold firstTooClose at h
  simp only [bind, Except.bind, pure, Except.pure] at h
  split at h
  · cases h
  · rename_i seps hseps
    cases h
    exact ⟨seps, mapM_ok_forall₂ _ _ _ hseps, rfl⟩

/-- All pairs of a list of bases respect the minimum separation of the upper one. -/
def Separated {α} (P : Prms α) (bases : List Rat) : Prop :=
  ∀ i j (_ : i < j) (hj : j < bases.length),
    ∃ s, minSepFor P (bases[j]) = .ok s ∧ bases[j] - bases[i]'(by omega) ≥ s

/-- The exit test of the loop (no neighbour too close) gives separation of *all* pairs, because
non-negative separations make the list sorted. -/
theorem separated_of_none {α} (P : Prms α) (hs : SepShape P) (hn : SepNonneg P) (bases : List Rat)
    (h : firstTooClose P bases = .ok none) : Separated P bases := by
  obtain ⟨seps, hf, hnone⟩ := firstTooClose_ok P bases none h
  have hlen := hf.length_eq
  have hget : ∀ k (hk : k < bases.length), minSepFor P bases[k] = .ok (seps[k]'(hlen ▸ hk)) := by
    intro k hk
    have := hf.get hk (hlen ▸ hk)
    simpa using this
  have hnn : ∀ k (hk : k < bases.length), 0 ≤ seps[k]'(hlen ▸ hk) := by
    intro k hk
    obtain ⟨v, hv, hmem, _⟩ := minSepFor_ok P hs bases[k]
    rw [hget k hk] at hv
    cases hv
    exact hn _ hmem
  have hadj : ∀ k (hk : k + 1 < bases.length), bases[k + 1] - bases[k] ≥ seps[k + 1]'(hlen ▸ hk) := by
    intro k hk
    have := (List.find?_eq_none.mp hnone.symm) (k + 1) (List.mem_range.mpr hk)
    have hk' : k + 1 < seps.length := hlen ▸ hk
    simp only [ge_iff_le, Nat.le_add_left, decide_true, Nat.add_sub_cancel, Bool.true_and,
      List.getElem?_eq_getElem hk, List.getElem?_eq_getElem (show k < bases.length by omega),
      List.getElem?_eq_getElem hk', decide_eq_true_eq, not_lt] at this
    exact this
  intro i j hij hj
  refine ⟨seps[j]'(hlen ▸ hj), hget j hj, ?_⟩
  have := adj_to_all bases (fun k => (seps[k]?).getD 0) (fun k hk => by
      have hk' : k + 1 < seps.length := hlen ▸ hk
      simp only [List.getElem?_eq_getElem hk', Option.getD_some]
      exact hnn (k + 1) hk)
    (fun k hk => by
      have hk' : k + 1 < seps.length := hlen ▸ hk
      simp only [List.getElem?_eq_getElem hk', Option.getD_some]
      exact hadj k hk) i j hij hj
  have hj' : j < seps.length := hlen ▸ hj
  simpa only [List.getElem?_eq_getElem hj', Option.getD_some] using this

/-- The prelim table is current: every listed base is the base of that group's present membership. -/
def BasesCurrent {α} [DecidableEq α] (K : Kern) (P : PPrms α) (data : List (Hit α)) (gids : List Int)
    (prelim : List (Int × Rat)) : Prop :=
  ∀ e ∈ prelim, groupBase K P data gids e.1 = .ok e.2

theorem firstTooClose_some {α} (P : Prms α) (bases : List Rat) (k : Nat)
    (h : firstTooClose P bases = .ok (some k)) : 1 ≤ k ∧ k < bases.length := by
  obtain ⟨seps, _, hr⟩ := firstTooClose_ok P bases _ h
  have h1 := List.find?_some hr.symm
  have h2 := List.mem_range.mp (List.mem_of_find?_eq_some hr.symm)
  simp only [ge_iff_le, Bool.and_eq_true, decide_eq_true_eq] at h1
  exact ⟨h1.1, h2⟩

theorem firstTooClose_nil {α} (P : Prms α) : firstTooClose P [] = .ok none := by
  rfl

/-- `groupBase` reads the id column only through the membership test of the group. -/
theorem groupBase_congr {α} [DecidableEq α] (K : Kern) (P : PPrms α) (data : List (Hit α))
    (g₁ g₂ : List Int) (c : Int) (h : g₁.map (· == c) = g₂.map (· == c)) :
    groupBase K P data g₁ c = groupBase K P data g₂ c := by
  unfold groupBase baseMask
  simp only [h]

theorem relabel_beq (gids : List Int) (cidK cidB c : Int) (h1 : c ≠ cidK) (h2 : c ≠ cidB) :
    (gids.map fun g => if g = cidK then cidB else g).map (· == c) = gids.map (· == c) := by
  rw [List.map_map]
  apply List.map_congr_left
  intro g _
  simp only [Function.comp_apply]
  by_cases hg : g = cidK
  · rw [if_pos hg, hg]
    have e1 : (cidB == c) = false := by simpa using fun h => h2 h.symm
    have e2 : (cidK == c) = false := by simpa using fun h => h1 h.symm
    rw [e1, e2]
  · rw [if_neg hg]

theorem mem_set_eraseIdx {β} (l : List β) (k : Nat) (x e : β) (hk1 : 1 ≤ k) (hk : k < l.length)
    (he : e ∈ (l.eraseIdx k).set (k - 1) x) :
    e = x ∨ ∃ j, ∃ (hj : j < l.length), j ≠ k ∧ j ≠ k - 1 ∧ l[j] = e := by
  obtain ⟨i, hi, rfl⟩ := List.mem_iff_getElem.mp he
  have hi' : i < l.length - 1 := by
    simpa [List.length_set, List.length_eraseIdx, hk] using hi
  rw [List.getElem_set]
  split
  · exact .inl rfl
  · rename_i hne
    right
    rw [List.getElem_eraseIdx]
    split
    · exact ⟨i, by omega, by omega, by omega, rfl⟩
    · exact ⟨i + 1, by omega, by omega, by omega, rfl⟩

theorem set_eraseIdx_self {β} (l : List β) (k : Nat) (hk1 : 1 ≤ k) (hk : k < l.length) :
    (l.eraseIdx k).set (k - 1) (l[k - 1]'(by omega)) = l.eraseIdx k := by
  have hlt : k - 1 < (l.eraseIdx k).length := by
    rw [List.length_eraseIdx, if_pos hk]; omega
  have : (l.eraseIdx k)[k - 1] = l[k - 1]'(by omega) :=
    List.getElem_eraseIdx_of_lt hlt (by omega)
  rw [← this, List.set_getElem_self]

/-- One merge keeps the loop invariants. -/
theorem merge_step_inv {α} [DecidableEq α] (K : Kern) (P : PPrms α) (data : List (Hit α))
    (gids : List Int) (prelim : List (Int × Rat))
    (hcur : BasesCurrent K P data gids prelim)
    (hcids : (prelim.map (·.1)).Perm (clusterIds gids))
    (k : Nat) (hk1 : 1 ≤ k) (hk : k < prelim.length)
    (cidK cidB : Int) (bK bB b : Rat)
    (hK : prelim[k]? = some (cidK, bK)) (hB : prelim[k - 1]? = some (cidB, bB))
    (hb : groupBase K P data (gids.map fun g => if g = cidK then cidB else g) cidB = .ok b) :
    ((prelim.eraseIdx k).set (k - 1) (cidB, b)).length = prelim.length - 1 ∧
    BasesCurrent K P data (gids.map fun g => if g = cidK then cidB else g)
      ((prelim.eraseIdx k).set (k - 1) (cidB, b)) ∧
    (((prelim.eraseIdx k).set (k - 1) (cidB, b)).map (·.1)).Perm
      (clusterIds (gids.map fun g => if g = cidK then cidB else g)) := by
  have hnd : (prelim.map (·.1)).Nodup := hcids.nodup_iff.mpr (clusterIds_nodup gids)
  have hk0 : k - 1 < prelim.length := by omega
  have hKe : prelim[k] = (cidK, bK) := (List.getElem?_eq_some_iff.mp hK).2
  have hBe : prelim[k - 1] = (cidB, bB) := (List.getElem?_eq_some_iff.mp hB).2
  have hinj : ∀ i j (hi : i < prelim.length) (hj : j < prelim.length),
      prelim[i].1 = prelim[j].1 → i = j := by
    intro i j hi hj he
    have hi' : i < (prelim.map (·.1)).length := by rwa [List.length_map]
    have hj' : j < (prelim.map (·.1)).length := by rwa [List.length_map]
    apply (hnd.getElem_inj_iff (hi := hi') (hj := hj')).mp
    rw [List.getElem_map, List.getElem_map]
    exact he
  have hnotK : ∀ j (hj : j < prelim.length), j ≠ k → prelim[j].1 ≠ cidK := by
    intro j hj hjk he
    exact hjk (hinj j k hj hk (by rw [he, hKe]))
  have hnotB : ∀ j (hj : j < prelim.length), j ≠ k - 1 → prelim[j].1 ≠ cidB := by
    intro j hj hjk he
    exact hjk (hinj j (k - 1) hj hk0 (by rw [he, hBe]))
  have hmemG : ∀ j (hj : j < prelim.length), prelim[j].1 ∈ gids ∧ prelim[j].1 ≠ -1 := by
    intro j hj
    apply (mem_clusterIds gids _).mp
    apply hcids.subset
    exact List.mem_map.mpr ⟨_, List.getElem_mem hj, rfl⟩
  refine ⟨?_, ?_, ?_⟩
  · rw [List.length_set, List.length_eraseIdx, if_pos hk]
  · intro e he
    rcases mem_set_eraseIdx prelim k _ e hk1 hk he with rfl | ⟨j, hj, hjk, hjk1, rfl⟩
    · exact hb
    · rw [groupBase_congr K P data _ gids _
        (relabel_beq gids cidK cidB _ (hnotK j hj hjk) (hnotB j hj hjk1))]
      exact hcur _ (List.getElem_mem hj)
  · have hmap : ((prelim.eraseIdx k).set (k - 1) (cidB, b)).map (·.1) = (prelim.map (·.1)).eraseIdx k := by
      rw [List.map_set, ← List.eraseIdx_map]
      have hk' : k < (prelim.map (·.1)).length := by rwa [List.length_map]
      have hc : cidB = (prelim.map (·.1))[k - 1]'(by omega) := by
        rw [List.getElem_map, hBe]
      simp only
      rw [hc]
      exact set_eraseIdx_self (prelim.map (·.1)) k hk1 hk'
    rw [hmap]
    apply (List.perm_ext_iff_of_nodup (hnd.sublist (List.eraseIdx_sublist _ _)) (clusterIds_nodup _)).mpr
    intro a
    rw [List.mem_eraseIdx_iff_getElem, mem_clusterIds]
    constructor
    · rintro ⟨i, hi, hik, rfl⟩
      have hi' : i < prelim.length := by rwa [List.length_map] at hi
      rw [List.getElem_map]
      refine ⟨List.mem_map.mpr ⟨_, (hmemG i hi').1, if_neg (hnotK i hi' hik)⟩, (hmemG i hi').2⟩
    · rintro ⟨ha, ha1⟩
      obtain ⟨g, hg, rfl⟩ := List.mem_map.mp ha
      by_cases hgk : g = cidK
      · rw [if_pos hgk]
        refine ⟨k - 1, by rw [List.length_map]; exact hk0, by omega, ?_⟩
        rw [List.getElem_map, hBe]
      · rw [if_neg hgk] at ha1 ⊢
        have : g ∈ prelim.map (·.1) := hcids.symm.subset ((mem_clusterIds gids g).mpr ⟨hg, ha1⟩)
        obtain ⟨i, hi, hig⟩ := List.mem_iff_getElem.mp this
        refine ⟨i, hi, ?_, hig⟩
        intro hik
        subst hik
        rw [List.getElem_map, hKe] at hig
        exact hgk hig.symm

/-- The loop terminates within its fuel (each iteration removes one group) and exits with no neighbour
too close, the bases current, and the prelim table listing exactly the groups present. -/
theorem mergeLoop_exit {α} [DecidableEq α] (K : Kern) (P : PPrms α) (data : List (Hit α))
    (fuel : Nat) (gids : List Int) (prelim : List (Int × Rat)) (hf : prelim.length ≤ fuel)
    (hcur : BasesCurrent K P data gids prelim)
    (hcids : (prelim.map (·.1)).Perm (clusterIds gids))
    (gids' : List Int) (prelim' : List (Int × Rat))
    (h : mergeLoop K P data fuel gids prelim = .ok (gids', prelim')) :
    firstTooClose P.toPrms (prelim'.map (·.2)) = .ok none ∧
    BasesCurrent K P data gids' prelim' ∧
    (prelim'.map (·.1)).Perm (clusterIds gids') := by
  induction fuel generalizing gids prelim with
  | zero =>
    rw [mergeLoop] at h
    cases h
    have := List.length_eq_zero_iff.mp (Nat.le_zero.mp hf)
    subst this
    exact ⟨firstTooClose_nil _, hcur, hcids⟩
  | succ n ih =>
    rw [mergeLoop] at h
    simp only [bind, Except.bind, pure, Except.pure] at h
    split at h
    · cases h
    · rename_i v hv
      split at h
      · cases h
        exact ⟨hv, hcur, hcids⟩
      · rename_i k
        obtain ⟨hk1, hk⟩ := firstTooClose_some _ _ k hv
        rw [List.length_map] at hk
        split at h
        · rename_i cidK bK cidB bB hK hB
          split at h
          · cases h
          · rename_i b hb
            obtain ⟨hlen, hcur', hcids'⟩ :=
              merge_step_inv K P data gids prelim hcur hcids k hk1 hk cidK cidB bK bB b hK hB hb
            exact ih _ _ (by omega) hcur' hcids' h
        · rename_i hno
          exfalso
          have hk0 : k - 1 < prelim.length := by omega
          exact hno _ _ _ _ (List.getElem?_eq_getElem hk) (List.getElem?_eq_getElem hk0)

theorem forall₂_zip_mem {β γ} {R : β → γ → Prop} {l₁ : List β} {l₂ : List γ} (h : List.Forall₂ R l₁ l₂) :
    ∀ p ∈ l₁.zip l₂, R p.1 p.2 := by
  induction h with
  | nil => intro p hp; cases hp
  | cons hr _ ih =>
    intro p hp
    rw [List.zip_cons_cons] at hp
    rcases List.mem_cons.mp hp with rfl | hp
    · exact hr
    · exact ih p hp

/-- A group present with a known base sits somewhere in a current prelim table. -/
theorem prelim_pos {α} [DecidableEq α] (K : Kern) (P : PPrms α) (data : List (Hit α)) (gids : List Int)
    (pr : List (Int × Rat)) (hcur : BasesCurrent K P data gids pr)
    (hcids : (pr.map (·.1)).Perm (clusterIds gids)) (c : Int) (hc : c ∈ clusterIds gids) (b : Rat)
    (hb : groupBase K P data gids c = .ok b) : ∃ i, ∃ (hi : i < pr.length), pr[i] = (c, b) := by
  obtain ⟨e, he, hec⟩ := List.mem_map.mp (hcids.symm.subset hc)
  obtain ⟨i, hi, rfl⟩ := List.mem_iff_getElem.mp he
  refine ⟨i, hi, ?_⟩
  have h2 := hcur _ he
  rw [hec, hb] at h2
  exact Prod.ext hec (Except.ok.inj h2).symm

/-- After `_merge_close_groups` the bases of the groups present (computed as `metarize` computes them,
exclusions included) are pairwise separated: for any two distinct groups with `b₁ ≤ b₂`,
`b₂ - b₁ ≥ minSep(b₂)`. -/
theorem mergeCloseGroups_separated {α} [DecidableEq α] (K : Kern) (P : PPrms α) (data : List (Hit α))
    (q : Rat) (hK : KernOK K q) (hs : SepShape P.toPrms) (hn : SepNonneg P.toPrms)
    (gids gids' : List Int) (h : mergeCloseGroups K P data gids = .ok gids') :
    ∀ c₁ ∈ clusterIds gids', ∀ c₂ ∈ clusterIds gids', c₁ ≠ c₂ →
      ∀ b₁ b₂, groupBase K P data gids' c₁ = .ok b₁ → groupBase K P data gids' c₂ = .ok b₂ → b₁ ≤ b₂ →
        ∃ s, minSepFor P.toPrms b₂ = .ok s ∧ b₂ - b₁ ≥ s := by
  unfold mergeCloseGroups at h
  simp only [bind, Except.bind, pure, Except.pure] at h
  split at h
  · cases h
  · rename_i bases hbases
    split at h
    · cases h
    · rename_i res hres
      obtain ⟨g, pr⟩ := res
      cases h
      have hf2 := mapM_ok_forall₂ _ _ _ hbases
      have hlenb := hf2.length_eq
      have hperm : (applyPerm (K.prelimOrder bases) ((clusterIds gids).zip bases)).Perm
          ((clusterIds gids).zip bases) := by
        apply applyPerm_perm
        have := hK.prelimOrder_perm bases
        rwa [List.length_zip, hlenb, Nat.min_self]
      have hcur : BasesCurrent K P data gids
          (applyPerm (K.prelimOrder bases) ((clusterIds gids).zip bases)) := by
        intro e he
        exact forall₂_zip_mem hf2 e (hperm.subset he)
      have hfst : ((clusterIds gids).zip bases).map (·.1) = clusterIds gids :=
        List.map_fst_zip (le_of_eq hlenb)
      have hcids : ((applyPerm (K.prelimOrder bases) ((clusterIds gids).zip bases)).map (·.1)).Perm
          (clusterIds gids) := by
        have := hperm.map (·.1)
        rwa [hfst] at this
      obtain ⟨hnone, hcur', hcids'⟩ := mergeLoop_exit K P data _ gids _ (le_refl _) hcur hcids g pr hres
      have hsep := separated_of_none P.toPrms hs hn _ hnone
      intro c₁ hc₁ c₂ hc₂ hne b₁ b₂ hb₁ hb₂ hle
      obtain ⟨i₁, hi₁, he₁⟩ := prelim_pos K P data g pr hcur' hcids' c₁ hc₁ b₁ hb₁
      obtain ⟨i₂, hi₂, he₂⟩ := prelim_pos K P data g pr hcur' hcids' c₂ hc₂ b₂ hb₂
      have hi12 : i₁ ≠ i₂ := by
        intro he
        subst he
        rw [he₁] at he₂
        exact hne (Prod.ext_iff.mp he₂).1
      rcases Nat.lt_or_gt_of_ne hi12 with hlt | hlt
      · obtain ⟨s, hs1, hs2⟩ := hsep i₁ i₂ hlt (by rw [List.length_map]; exact hi₂)
        simp only [List.getElem_map, he₁, he₂] at hs1 hs2
        exact ⟨s, hs1, hs2⟩
      · obtain ⟨s, hs1, hs2⟩ := hsep i₂ i₁ hlt (by rw [List.length_map]; exact hi₁)
        simp only [List.getElem_map, he₁, he₂] at hs1 hs2
        obtain ⟨v, hv, hmem, _⟩ := minSepFor_ok P.toPrms hs b₁
        rw [hs1] at hv
        cases hv
        have h0 := hn _ hmem
        have heq : b₁ = b₂ := le_antisymm hle (by linarith)
        subst heq
        exact ⟨s, hs1, by linarith⟩

/-- The reported groups (table of `metarize('groups')` on the merged column) are pairwise separated. -/
theorem groups_table_separated {α} [DecidableEq α] (K : Kern) (P : PPrms α) (data : List (Hit α))
    (q : Rat) (hK : KernOK K P.basePerc) (hs : SepShape P.toPrms) (hn : SepNonneg P.toPrms)
    (gids gids' : List Int) (h : mergeCloseGroups K P data gids = .ok gids')
    (t : Table) (ht : metarize K.toMetK P.toPrms .groups false data gids' = .ok t) :
    ∀ r₁ ∈ t, ∀ r₂ ∈ t, r₁.cid ≠ r₂.cid → r₁.base ≤ r₂.base →
      ∃ s, minSepFor P.toPrms r₂.base = .ok s ∧ r₂.base - r₁.base ≥ s := by
  have _ := q
  have hrow : ∀ r ∈ t, r.cid ∈ clusterIds gids' ∧ groupBase K P data gids' r.cid = .ok r.base := by
    intro r hr
    obtain ⟨hc, r₀, hm, he⟩ := metarize_rows K.toMetK P.toPrms .groups false data gids' hK.met t ht r hr
    have hb := (mkRow_parts K.toMetK P.toPrms .groups data gids' r.cid r₀ hm).2.1
    have hbase : r.base = r₀.base := by rw [he]
    refine ⟨hc, ?_⟩
    rw [hbase]
    exact hb
  intro r₁ hr₁ r₂ hr₂ hne hle
  exact mergeCloseGroups_separated K P data P.basePerc hK hs hn gids gids' h r₁.cid (hrow r₁ hr₁).1
    r₂.cid (hrow r₂ hr₂).1 hne r₁.base r₂.base (hrow r₁ hr₁).2 (hrow r₂ hr₂).2 hle

/-- One iteration of the re-merge pass. -/
def remergeStep (minSep : Rat) (sortedBases : List Rat) (st : List Nat × List Nat × Nat) (ind : Nat) :
    List Nat × List Nat × Nat :=
  match sortedBases[ind + 1]?, sortedBases[ind]? with
  | some hi, some lo =>
    if hi - lo ≥ minSep then st
    else
      match st.1[ind + 1]?, st.1[ind]? with
      | some src, some dst =>
        (st.1.set (ind + 1) dst, st.2.1.map (fun b => if b = src then dst else b), st.2.2 - 1)
      | _, _ => st
  | _, _ => st

theorem remerge_eq (minSep : Rat) (sortedBases : List Rat) (order ids : List Nat) (n : Nat) :
    (remerge minSep sortedBases order ids n).2 =
      ((List.range (sortedBases.length - 1)).foldl (remergeStep minSep sortedBases) (order, ids, n)).2.2 := by
  rfl

theorem remergeStep_le (minSep : Rat) (sb : List Rat) (st : List Nat × List Nat × Nat) (ind : Nat) :
    (remergeStep minSep sb st ind).2.2 ≤ st.2.2 := by
  unfold remergeStep
  split
  · split
    · exact le_refl _
    · split
      · exact Nat.sub_le _ _
      · exact le_refl _
  · exact le_refl _

theorem remergeFold_le (minSep : Rat) (sb : List Rat) (l : List Nat) :
    ∀ st : List Nat × List Nat × Nat, (l.foldl (remergeStep minSep sb) st).2.2 ≤ st.2.2 := by
  induction l with
  | nil => intro st; exact le_refl _
  | cons a t ih =>
    intro st
    rw [List.foldl_cons]
    exact le_trans (ih _) (remergeStep_le minSep sb st a)

theorem remergeFold_none (minSep : Rat) (sb : List Rat) (l : List Nat) (hl : ∀ ind ∈ l, ind + 1 < sb.length) :
    ∀ st : List Nat × List Nat × Nat, st.1.length = sb.length → 1 ≤ st.2.2 →
      (l.foldl (remergeStep minSep sb) st).2.2 = st.2.2 →
      ∀ ind (hi : ind ∈ l), sb[ind + 1]'(hl ind hi) - sb[ind]'(by have := hl ind hi; omega) ≥ minSep := by
  induction l with
  | nil => intro st _ _ _ ind hi; cases hi
  | cons a t ih =>
    intro st hlen h1 hfin
    rw [List.foldl_cons] at hfin
    have ha := hl a List.mem_cons_self
    have ha0 : a < sb.length := by omega
    by_cases hc : sb[a + 1] - sb[a] ≥ minSep
    · have hstep : remergeStep minSep sb st a = st := by
        unfold remergeStep
        rw [List.getElem?_eq_getElem ha, List.getElem?_eq_getElem ha0]
        simp only
        rw [if_pos hc]
      rw [hstep] at hfin
      have := ih (fun i hi => hl i (List.mem_cons_of_mem _ hi)) st hlen h1 hfin
      intro ind hi
      rcases List.mem_cons.mp hi with rfl | hi
      · exact hc
      · exact this ind hi
    · exfalso
      have hstep : (remergeStep minSep sb st a).2.2 = st.2.2 - 1 := by
        unfold remergeStep
        rw [List.getElem?_eq_getElem ha, List.getElem?_eq_getElem ha0]
        simp only
        rw [if_neg hc, List.getElem?_eq_getElem (show a + 1 < st.1.length by omega),
          List.getElem?_eq_getElem (show a < st.1.length by omega)]
      have := remergeFold_le minSep sb t (remergeStep minSep sb st a)
      omega

/-- Re-merge pass of `ncomp_from_gmm`: it never increases the count, and if it merged nothing
(`n' = n`, with `n` the number of components) every two sorted component bases are at least `minSep`
apart. -/
theorem remerge_none {minSep : Rat} (h0 : 0 ≤ minSep) (sortedBases : List Rat) (order ids : List Nat) (n : Nat)
    (hlen : order.length = sortedBases.length) (hn : sortedBases.length ≤ n + 0)
    (h : (remerge minSep sortedBases order ids n).2 = n) :
    ∀ i j (_ : i < j) (hj : j < sortedBases.length), sortedBases[j] - sortedBases[i]'(by omega) ≥ minSep := by
  intro i j hij hj
  rw [remerge_eq] at h
  have hl : ∀ ind ∈ List.range (sortedBases.length - 1), ind + 1 < sortedBases.length := by
    intro ind hi
    have := List.mem_range.mp hi
    omega
  have hadj := remergeFold_none minSep sortedBases _ hl (order, ids, n) hlen (by simp only; omega) h
  exact adj_to_all sortedBases (fun _ => minSep) (fun _ _ => h0)
    (fun k hk => hadj k (List.mem_range.mpr (by omega))) i j hij hj

theorem remerge_le (minSep : Rat) (sortedBases : List Rat) (order ids : List Nat) (n : Nat) :
    (remerge minSep sortedBases order ids n).2 ≤ n := by
  rw [remerge_eq]
  exact remergeFold_le minSep sortedBases _ _

end Ampy
