import Ampy.Lemmas.EndToEnd
import Ampy.Lemmas.Extra
import Mathlib.Tactic.Linarith
/-!
Second clause of C06, composed end to end: when a group is split into as many layers as the selected
mixture distinguishes (the re-merge pass of `ncomp_from_gmm` merged nothing) and no ceilometer is excluded,
any two of these layers are at least the group's minimum separation apart.

Both statements are proved exactly as specified, no hypothesis added:
* `ncompFromGmm_unmerged_separated` does not need `PrmsOK P`: a mode string other than "delta"/"prob" can only
  lead to one reported component (`best = 0`), which `2 ≤ n` rules out, and in the two other branches the
  index used by `ncompFromGmm` is the one `selectedFit` reports (`ncompFromGmm_sel`).  It does not use
  `argsort_sorted` either: a pass that merged nothing certifies all adjacent gaps `≥ minSep ≥ 0` by itself.
* `run_split_layers_separated` recovers the loop's call of `ncomp_from_gmm` for group number `ind` from the
  `ncomp` column (`layerIds_gmm_call`, a fold induction over `layerStep_full`).
-/
namespace Ampy
open Lay

/-! ### the re-merge pass, when it merges nothing, leaves the labels alone -/

theorem remergeFold_id (minSep : Rat) (sb : List Rat) (l : List Nat) (hl : ∀ ind ∈ l, ind + 1 < sb.length) :
    ∀ st : List Nat × List Nat × Nat, st.1.length = sb.length → 1 ≤ st.2.2 →
      (l.foldl (remergeStep minSep sb) st).2.2 = st.2.2 → l.foldl (remergeStep minSep sb) st = st := by
  induction l with
  | nil => intro st _ _ _; rfl
  | cons a t ih =>
    intro st hlen h1 hfin
    rw [List.foldl_cons] at hfin ⊢
    have ha := hl a List.mem_cons_self
    have ha0 : a < sb.length := by omega
    by_cases hc : sb[a + 1] - sb[a] ≥ minSep
    · have hstep : remergeStep minSep sb st a = st := by
        unfold remergeStep
        rw [List.getElem?_eq_getElem ha, List.getElem?_eq_getElem ha0]
        simp only
        rw [if_pos hc]
      rw [hstep] at hfin ⊢
      exact ih (fun i hi => hl i (List.mem_cons_of_mem _ hi)) st hlen h1 hfin
    · exfalso
      have hstep : (remergeStep minSep sb st a).2.2 = st.2.2 - 1 := by
        unfold remergeStep
        rw [List.getElem?_eq_getElem ha, List.getElem?_eq_getElem ha0]
        simp only
        rw [if_neg hc, List.getElem?_eq_getElem (show a + 1 < st.1.length by omega),
          List.getElem?_eq_getElem (show a < st.1.length by omega)]
      have := remergeFold_le minSep sb t (remergeStep minSep sb st a)
      omega

/-- If the re-merge pass reports as many components as it was given, it returns the labels unchanged. -/
theorem remerge_none_ids (minSep : Rat) (sb : List Rat) (order ids : List Nat) (n : Nat)
    (hlen : order.length = sb.length) (hn : 1 ≤ n) (h : (remerge minSep sb order ids n).2 = n) :
    (remerge minSep sb order ids n).1 = ids := by
  rw [remerge_pair] at h ⊢
  simp only at h ⊢
  have hl : ∀ ind ∈ List.range (sb.length - 1), ind + 1 < sb.length := by
    intro ind hi
    have := List.mem_range.mp hi
    omega
  rw [remergeFold_id minSep sb _ hl (order, ids, n) hlen hn h]

/-! ### list helpers -/

theorem filterMap_getElem?_all {β γ} (f : β → Option γ) : ∀ (l : List β), (∀ x ∈ l, (f x).isSome = true) →
    ∀ p : Nat, (l.filterMap f)[p]? = (l[p]?).bind f
  | [], _, p => by simp
  | a :: t, h, p => by
    obtain ⟨y, hy⟩ := Option.isSome_iff_exists.mp (h a List.mem_cons_self)
    rw [List.filterMap_cons, hy]
    cases p with
    | zero => simp [hy]
    | succ p =>
      simp only [List.getElem?_cons_succ]
      exact filterMap_getElem?_all f t (fun x hx => h x (List.mem_cons_of_mem _ hx)) p

/-- Entry `p` of a list rearranged by a permutation of its positions. -/
theorem applyPerm_getElem? {β} (perm : List Nat) (l : List β) (h : isPermOf perm l.length = true) (p : Nat) :
    (applyPerm perm l)[p]? = (perm[p]?).bind (l[·]?) := by
  unfold applyPerm
  apply filterMap_getElem?_all
  intro x hx
  have := List.mem_range.mp ((isPermOf_perm h).subset hx)
  rw [List.getElem?_eq_getElem this]
  rfl

theorem forall₂_getElem {β γ} {R : β → γ → Prop} {l₁ : List β} {l₂ : List γ} (h : List.Forall₂ R l₁ l₂)
    (i : Nat) (h₁ : i < l₁.length) (h₂ : i < l₂.length) : R l₁[i] l₂[i] :=
  forall₂_zip_mem h (l₁[i], l₂[i]) (zip_getElem_mem l₁ l₂ i h₁ h₂)

/-! ### the mixture call -/

/-- The values of mixture component `k`, in the order `ncomp_from_gmm` saw them. -/
def compVals (vals : List Rat) (ids : List Nat) (k : Nat) : List Rat :=
  (vals.zip ids).filterMap fun (v, l) => if l = k then some v else none

/-- A call of `ncomp_from_gmm` reporting at least two components went through the tail on the very index
`selectedFit` reports (whatever the mode string: an unknown mode only ever yields one component). -/
theorem ncompFromGmm_sel {α} (K : Kern) (P : PPrms α) (vals : List Rat) (m : Nat) (minSep : Rat)
    (n : Nat) (ids : List Nat) (h : ncompFromGmm K P vals m minSep = .ok (n, ids)) (hn2 : 2 ≤ n) :
    ∃ best,
      gmmTail K P vals minSep
        ((List.range (min m (vals.eraseDups).length)).map fun i => K.gmm P.gmmScores (gmmScaled P vals) (i + 1))
        best = .ok (n, ids) ∧
      selectedFit K P vals m =
        (((List.range (min m (vals.eraseDups).length)).map fun i =>
            K.gmm P.gmmScores (gmmScaled P vals) (i + 1))[best]?).map fun f => (best + 1, f) := by
  unfold ncompFromGmm at h
  split at h
  · cases h
    omega
  · simp only [] at h
    by_cases hsc : P.gmmScores ≠ "AIC" ∧ P.gmmScores ≠ "BIC"
    · rw [if_pos hsc] at h
      cases h
    · rw [if_neg hsc] at h
      by_cases hm1 : P.gmmMode = "delta"
      · rw [if_pos hm1] at h
        refine ⟨_, h, ?_⟩
        unfold selectedFit
        simp only [hm1, if_true]
        rfl
      · rw [if_neg hm1] at h
        by_cases hm2 : P.gmmMode = "prob"
        · rw [if_pos hm2] at h
          refine ⟨_, h, ?_⟩
          unfold selectedFit
          simp only [if_neg hm1]
          rfl
        · rw [if_neg hm2] at h
          exfalso
          split_ifs at h
          · have h' : gmmTail K P vals minSep
                ((List.range (min m (vals.eraseDups).length)).map fun i =>
                  K.gmm P.gmmScores (gmmScaled P vals) (i + 1)) 0 = .ok (n, ids) := h
            unfold gmmTail at h'
            split at h'
            · cases h'
            · simp only [Nat.zero_add, if_true] at h'
              cases h'
              omega
          · cases h

/-- The tail of `ncomp_from_gmm` on fit number `best`, when it reports `best + 1 ≥ 2` components: the
component bases are pairwise at least `minSep` apart and the labels are those of the fit. -/
theorem gmmTail_unmerged {α} (K : Kern) (P : PPrms α) (hK : KernOK K P.basePerc) (vals : List Rat)
    (minSep : Rat) (h0 : 0 ≤ minSep) (fits : List GmmFit) (best : Nat) (ids : List Nat) (f : GmmFit)
    (hf : fits[best]? = some f) (hb2 : 2 ≤ best + 1)
    (h : gmmTail K P vals minSep fits best = .ok (best + 1, ids)) :
    ids = f.labels ∧
    ∀ i j, i < best + 1 → j < best + 1 → i ≠ j → ∀ bi bj,
      calcBase K.pctl (compVals vals f.labels i) P.lookback P.basePerc = .ok bi →
      calcBase K.pctl (compVals vals f.labels j) P.lookback P.basePerc = .ok bj →
      bi ≤ bj → bj - bi ≥ minSep := by
  unfold gmmTail at h
  rw [hf] at h
  simp only at h
  rw [if_neg (by omega)] at h
  simp only [bind, Except.bind, pure, Except.pure] at h
  split at h
  · cases h
  · rename_i bases hb
    have hf2 := mapM_ok_forall₂ _ _ _ hb
    have hbl : bases.length = best + 1 := by
      rw [mapM_ok_length _ _ _ hb, List.length_range]
    have hperm := hK.argsort_perm bases
    have hol : (K.argsort bases).length = (applyPerm (K.argsort bases) bases).length := by
      rw [isPermOf_length hperm, (applyPerm_perm _ _ hperm).length_eq]
    have hsl : (applyPerm (K.argsort bases) bases).length = best + 1 := by
      rw [(applyPerm_perm _ _ hperm).length_eq, hbl]
    have hnone := remerge_none h0 (applyPerm (K.argsort bases) bases) (K.argsort bases) f.labels (best + 1)
      hol (by omega)
    have hid := remerge_none_ids minSep (applyPerm (K.argsort bases) bases) (K.argsort bases) f.labels (best + 1)
      hol (by omega)
    have hget := applyPerm_getElem? (K.argsort bases) bases hperm
    generalize applyPerm (K.argsort bases) bases = sb at h hnone hid hget hsl
    generalize remerge minSep sb (K.argsort bases) f.labels (best + 1) = rm at h hnone hid
    obtain ⟨ids', n'⟩ := rm
    simp only at h hnone hid
    split_ifs at h
    cases h
    have hsep := hnone rfl
    refine ⟨hid rfl, ?_⟩
    intro i j hi hj hij bi bj hbi hbj hle
    -- the two bases sit in the list of bases at positions i and j
    have hi' : i < (List.range (best + 1)).length := by rw [List.length_range]; exact hi
    have hj' : j < (List.range (best + 1)).length := by rw [List.length_range]; exact hj
    have ebi : bases[i]? = some bi := by
      have := forall₂_getElem hf2 i hi' (by omega)
      simp only [List.getElem_range] at this
      have e : Except.ok bases[i] = Except.ok bi := this.symm.trans hbi
      rw [List.getElem?_eq_getElem (by omega), Except.ok.inj e]
    have ebj : bases[j]? = some bj := by
      have := forall₂_getElem hf2 j hj' (by omega)
      simp only [List.getElem_range] at this
      have e : Except.ok bases[j] = Except.ok bj := this.symm.trans hbj
      rw [List.getElem?_eq_getElem (by omega), Except.ok.inj e]
    -- and in the sorted list at two distinct positions
    have hmi : i ∈ K.argsort bases := isPermOf_mem hperm (by omega)
    have hmj : j ∈ K.argsort bases := isPermOf_mem hperm (by omega)
    obtain ⟨p, hp⟩ := List.mem_iff_getElem?.mp hmi
    obtain ⟨q, hq⟩ := List.mem_iff_getElem?.mp hmj
    have hsp : sb[p]? = some bi := by rw [hget p, hp]; exact ebi
    have hsq : sb[q]? = some bj := by rw [hget q, hq]; exact ebj
    obtain ⟨hpl, hpv⟩ := List.getElem?_eq_some_iff.mp hsp
    obtain ⟨hql, hqv⟩ := List.getElem?_eq_some_iff.mp hsq
    have hpq : p ≠ q := by
      rintro rfl
      rw [hp] at hq
      exact hij (Option.some.inj hq)
    rcases Nat.lt_or_gt_of_ne hpq with hlt | hlt
    · have := hsep p q hlt hql
      rw [hpv, hqv] at this
      exact this
    · have := hsep q p hlt hpl
      rw [hpv, hqv] at this
      have h1 : minSep ≤ bi - bj := this
      show minSep ≤ bj - bi
      linarith

/-- If `ncomp_from_gmm` reports as many components as the selected mixture distinguishes (nothing was re-merged), the
base heights of any two distinct components are at least `minSep` apart. -/
theorem ncompFromGmm_unmerged_separated {α} (K : Kern) (P : PPrms α) (hK : KernOK K P.basePerc)
    (vals : List Rat) (m : Nat) (minSep : Rat) (h0 : 0 ≤ minSep)
    (n : Nat) (ids : List Nat) (h : ncompFromGmm K P vals m minSep = .ok (n, ids)) (hn2 : 2 ≤ n)
    (f : GmmFit) (hsel : selectedFit K P vals m = some (n, f)) :
    ∀ i j, i < n → j < n → i ≠ j → ∀ bi bj,
      calcBase K.pctl (compVals vals ids i) P.lookback P.basePerc = .ok bi →
      calcBase K.pctl (compVals vals ids j) P.lookback P.basePerc = .ok bj →
      bi ≤ bj → bj - bi ≥ minSep := by
  obtain ⟨best, ht, hs⟩ := ncompFromGmm_sel K P vals m minSep n ids h hn2
  rw [hs] at hsel
  obtain ⟨f', hf', he⟩ := Option.map_eq_some_iff.mp hsel
  cases he
  obtain ⟨hid, hsep⟩ := gmmTail_unmerged K P hK vals minSep h0 _ best ids f hf' hn2 ht
  rw [hid]
  exact hsep

/-! ### what the layering loop did for one group -/

/-- An `ncomp` entry `n ≥ 0` in the column written by `find_layers` records a call of `ncomp_from_gmm` on the
group's heights (time order) with the group's minimum separation, which reported `n` components. -/
theorem layerIds_gmm_call {α} [DecidableEq α] (K : Kern) (P : PPrms α) (data : List (Hit α)) (gids : List Int)
    (groups : Table) (lids ncomps : List Int) (h : layerIds K P data gids groups = .ok (lids, ncomps))
    (ind : Nat) (g : Row) (hgi : groups[ind]? = some g) (n : Nat) (hn : ncomps[ind]? = some (n : Int))
    (minSep : Rat) (hms : minSepFor P.toPrms g.base = .ok minSep) :
    ∃ ids, ncompFromGmm K P (groupHeights K data gids g.cid)
      (min ((groupHeights K data gids g.cid).eraseDups).length 3) minSep = .ok (n, ids) := by
  obtain ⟨l0, hf, _⟩ := layerIds_ok K P data gids groups lids ncomps h
  have hind : ind < groups.length := (List.getElem?_eq_some_iff.mp hgi).1
  have key := foldlM_range_inv _
    (fun k (s : List (Option Int) × List Int) => s.2.length = k ∧ (ind < k → s.2[ind]? = some (n : Int) →
      ∃ ids, ncompFromGmm K P (groupHeights K data gids g.cid)
        (min ((groupHeights K data gids g.cid).eraseDups).length 3) minSep = .ok (n, ids)))
    _ groups.length ⟨rfl, fun hk => absurd hk (Nat.not_lt_zero _)⟩ ?_ groups.length (Nat.le_refl _) (l0, ncomps) hf
  · exact key.2 hind hn
  · rintro k ⟨l, nc⟩ s' hk ⟨hlen, hI⟩ hs
    simp only at hlen hI
    have hgk : groups[k]? = some groups[k] := List.getElem?_eq_getElem hk
    have hkeep : ∀ x : Int, ind < k → (nc ++ [x])[ind]? = nc[ind]? := by
      intro x hik
      rw [List.getElem?_append_left (by omega)]
    have hlast : ∀ x : Int, (nc ++ [x])[k]? = some x := by
      intro x
      rw [← hlen]
      simp
    rcases layerStep_full K P data gids groups l nc k _ hgk s' hs with
      rfl | ⟨n', ids', minSep', hms', _, hgmm', ⟨_, rfl⟩ | ⟨_, rfl⟩⟩
    · refine ⟨by simp [hlen], fun hlt hnc => ?_⟩
      simp only at hnc
      by_cases hik : ind < k
      · rw [hkeep _ hik] at hnc
        exact hI hik hnc
      · have : ind = k := by omega
        subst this
        rw [hlast] at hnc
        have := Option.some.inj hnc
        omega
    all_goals
      refine ⟨by simp [hlen], fun hlt hnc => ?_⟩
      simp only at hnc
      by_cases hik : ind < k
      · rw [hkeep _ hik] at hnc
        exact hI hik hnc
      · have : ind = k := by omega
        subst this
        rw [hlast] at hnc
        have hnn : n' = n := by
          have := Option.some.inj hnc
          omega
        subst hnn
        rw [hgk] at hgi
        cases hgi
        rw [hms] at hms'
        cases hms'
        exact ⟨ids', hgmm'⟩

/-! ### end to end -/

/-- End to end: in the layers table `run` returns, the layers split from one group that was split into as many layers as the
selected mixture distinguishes are pairwise at least that group's minimum separation apart (no ceilometer excluded). -/
theorem run_split_layers_separated {α} [DecidableEq α] (K : Kern) (P : PPrms α) (checked : List (Hit α))
    (hA : Accepted K P checked) (hsn : SepNonneg P.toPrms) (hex : P.exclude = [])
    (c : Chunk α) (h : run K P checked = .ok c)
    (gids : List Int) (gr lay : Table) (hgi : c.gids = some gids) (hg : c.groups = some gr) (hl : c.layers = some lay)
    (ind : Nat) (g : Row) (hgr : gr[ind]? = some g) (n : Nat) (hnc : g.ncomp = some (n : Int)) (hn2 : 2 ≤ n)
    (minSep : Rat) (hms : minSepFor P.toPrms g.base = .ok minSep)
    (f : GmmFit)
    (hsel : selectedFit K P (groupHeights K c.data gids g.cid)
      (min ((groupHeights K c.data gids g.cid).eraseDups).length 3) = some (n, f)) :
    ∀ r₁ ∈ lay, ∀ r₂ ∈ lay, ∀ k₁ k₂, k₁ < n → k₂ < n → k₁ ≠ k₂ →
      r₁.cid = lidOffset gids + 10 * (ind : Int) + (k₁ : Int) →
      r₂.cid = lidOffset gids + 10 * (ind : Int) + (k₂ : Int) →
      r₁.base ≤ r₂.base → r₂.base - r₁.base ≥ minSep := by
  obtain ⟨_, _, sids, sl, gids', iso, gr₀, lids, nc, lay', hs, hsl, hgids, hgr₀, hli, hlay, e1, e2, e3, e4, e5, e6⟩ :=
    run_parts K P checked c h
  obtain rfl : gids' = gids := Option.some.inj (e2.symm.trans hgi)
  obtain rfl : setNcomp gr₀ nc = gr := Option.some.inj (e5.symm.trans hg)
  obtain rfl : lay' = lay := Option.some.inj (e6.symm.trans hl)
  have hK := hA.kern
  have x1 := sliceIds_exact K P c.data _ hK sids hs
  have x2 := groupIds_exact K P c.data _ hK sids sl x1 gids' iso hgids
  have p2 := metarize_cids K.toMetK P.toPrms .groups false c.data gids' hK.met gr₀ hgr₀
  have hcid : (gr₀.map (·.cid)).Nodup := p2.nodup_iff.mpr (clusterIds_nodup gids')
  have hlen := layerIds_ncomps_length K P c.data gids' gr₀ lids nc hli
  -- the row of the stored groups table is the row `find_layers` saw, up to `ncomp`
  obtain ⟨r₀, hr₀, rfl⟩ := setNcomp_getElem? gr₀ nc ind g hgr
  simp only at hnc hms hsel
  have hi : ind < gr₀.length := (List.getElem?_eq_some_iff.mp hr₀).1
  have hncI : nc[ind]? = some (n : Int) := by
    have hi' : ind < nc.length := hlen ▸ hi
    have : nc.getD ind (-1) = (n : Int) := Option.some.inj hnc
    rw [← this, List.getD_eq_getElem?_getD, List.getElem?_eq_getElem hi']
    rfl
  -- the separation is a non-negative entry of MIN_SEP_VALS
  have h0 : 0 ≤ minSep := by
    obtain ⟨v, hv, hvm, _⟩ := minSepFor_ok P.toPrms hA.prms.sep r₀.base
    rw [hms] at hv
    cases hv
    exact hsn _ hvm
  -- the mixture call of the loop for this group
  obtain ⟨ids, hgmm⟩ := layerIds_gmm_call K P c.data gids' gr₀ lids nc hli ind r₀ hr₀ n hncI minSep hms
  have sep := ncompFromGmm_unmerged_separated K P hK _ _ minSep h0 n ids hgmm hn2 f hsel
  -- the base written in a layers row is the base of the component
  have hrows := metarize_rows K.toMetK P.toPrms .layers true c.data lids hK.met lay' hlay
  have hbase : ∀ r ∈ lay', ∀ k, k < n → r.cid = lidOffset gids' + 10 * (ind : Int) + (k : Int) →
      calcBase K.pctl (compVals (groupHeights K c.data gids' r₀.cid) ids k) P.lookback P.basePerc = .ok r.base := by
    intro r hr k hk hc
    obtain ⟨_, r', hm, he⟩ := hrows r hr
    have hb := (mkRow_parts K.toMetK P.toPrms .layers c.data lids r.cid r' hm).2.1
    have eb : r.base = r'.base := by rw [he]
    rw [eb, ← hb, hc, layer_selection_eq_component_lt K P hK c.data gids' gr₀ x2 hcid hex lids nc hli ind r₀ hr₀ n hncI
      hn2 minSep hms ids hgmm k hk]
    rfl
  intro r₁ hr₁ r₂ hr₂ k₁ k₂ hk₁ hk₂ hne hc₁ hc₂ hle
  exact sep k₁ k₂ hk₁ hk₂ hne r₁.base r₂.base (hbase r₁ hr₁ k₁ hk₁ hc₁) (hbase r₂ hr₂ k₂ hk₂ hc₂) hle

end Ampy
