import Ampy.Model.Scaler
import Ampy.Lemmas.Base
import Mathlib.Tactic.Ring
import Mathlib.Tactic.Linarith
import Mathlib.Tactic.FieldSimp
import Mathlib.Algebra.Order.Field.Basic
/-!
Lemmas behind C19: the scalings of `scaler.py` over exact rationals (`none` = NaN) are order-preserving,
invertible with the derived parameters, blind to NaNs; min-max maps into `[0,1]` and honours the minimum
range; step scaling is continuous across its steps.
-/
namespace Ampy

/-! ### shift-and-scale -/

theorem shiftScale1_strictMono (shift scale : Rat) (hs : 0 < scale) (a b : Rat) (h : a < b) :
    shiftScale1 shift scale .doIt a < shiftScale1 shift scale .doIt b := by
  simp only [shiftScale1]
  exact div_lt_div_of_pos_right (by linarith) hs

theorem shiftScale1_undo_do (shift scale : Rat) (hs : scale ≠ 0) (a : Rat) :
    shiftScale1 shift scale .undo (shiftScale1 shift scale .doIt a) = a := by
  simp only [shiftScale1]
  field_simp
  ring

/-! ### min-max -/

theorem minmax1_do_of_ne (lo hi : Rat) (h : hi ≠ lo) (v : Rat) :
    minmax1 lo hi .doIt v = (v - lo) / (hi - lo) := by
  simp only [minmax1, if_neg h]

/-- A null range maps everything onto 0 (F6 repaired). -/
theorem minmax1_do_null (lo : Rat) (v : Rat) : minmax1 lo lo .doIt v = 0 := by
  simp only [minmax1, if_true]

theorem minmax1_strictMono (lo hi : Rat) (h : lo < hi) (a b : Rat) (hab : a < b) :
    minmax1 lo hi .doIt a < minmax1 lo hi .doIt b := by
  rw [minmax1_do_of_ne lo hi (by intro e; rw [e] at h; exact lt_irrefl _ h),
    minmax1_do_of_ne lo hi (by intro e; rw [e] at h; exact lt_irrefl _ h)]
  exact div_lt_div_of_pos_right (by linarith) (by linarith)

theorem minmax1_undo_do (lo hi : Rat) (h : lo ≠ hi) (a : Rat) :
    minmax1 lo hi .undo (minmax1 lo hi .doIt a) = a := by
  rw [minmax1_do_of_ne lo hi (fun e => h e.symm)]
  simp only [minmax1]
  have : hi - lo ≠ 0 := fun h' => h (by linarith)
  field_simp
  ring

theorem minmax1_range (lo hi : Rat) (h : lo < hi) (a : Rat) (h0 : lo ≤ a) (h1 : a ≤ hi) :
    0 ≤ minmax1 lo hi .doIt a ∧ minmax1 lo hi .doIt a ≤ 1 := by
  rw [minmax1_do_of_ne lo hi (by intro e; rw [e] at h; exact lt_irrefl _ h)]
  have hp : 0 < hi - lo := by linarith
  refine ⟨div_nonneg (by linarith) hp.le, ?_⟩
  rw [div_le_one hp]
  linarith

set_option linter.unusedVariables false in
/-- `minrange2minmax`: the interval contains all the data, is at least `minRange` wide, is exactly the
data range when that is wide enough, and is centred on the data otherwise. -/
theorem minrange2minmax_spec (vals : List (Option Rat)) (minRange : Rat) (hne : valids vals ≠ []) (hr : 0 ≤ minRange) :
    let lo := (minrange2minmax vals minRange).1
    let hi := (minrange2minmax vals minRange).2
    (∀ v ∈ valids vals, lo ≤ v ∧ v ≤ hi) ∧ hi - lo ≥ minRange ∧
    hi - lo = max (nanmax vals - nanmin vals) minRange ∧ hi + lo = nanmax vals + nanmin vals := by
  have hb : ∀ v ∈ valids vals, nanmin vals ≤ v ∧ v ≤ nanmax vals :=
    fun v hv => ⟨minRat_le hv, le_maxRat hv⟩
  simp only [minrange2minmax]
  by_cases hc : nanmax vals - nanmin vals ≥ minRange
  · simp only [if_pos hc]
    exact ⟨hb, hc, (max_eq_left hc).symm, by trivial⟩
  · simp only [if_neg hc]
    have hlt : nanmax vals - nanmin vals < minRange := not_le.mp hc
    refine ⟨?_, ?_, ?_, ?_⟩
    · intro v hv
      have := hb v hv
      constructor <;> linarith
    · linarith
    · rw [max_eq_right hlt.le]; ring
    · ring

/-! ### normal form of `applyScaling` -/

/-- The pointwise function applied by `applyScaling` to the non-NaN entries. -/
def scaleFn (vals : List (Option Rat)) : ScaleSpec → Rat → Rat
  | .none => id
  | .shift s k => shiftScale1 (s.getD (nanmax vals)) k .doIt
  | .minmax mr => minmax1 (minrange2minmax vals mr).1 (minrange2minmax vals mr).2 .doIt
  | .minmaxFixed lo hi => minmax1 lo hi .doIt
  | .step st sc => stepDo st sc

/-- The conditions under which `applyScaling` succeeds on data with a non-NaN entry. -/
def specOK : ScaleSpec → Prop
  | .step st sc => st.length + 1 = sc.length ∧ sortedRat st = true
  | _ => True

theorem map_optmap_id (vals : List (Option Rat)) : vals.map (Option.map id) = vals := by
  simp

theorem applyScaling_of_empty (vals : List (Option Rat)) (spec : ScaleSpec) (h : valids vals = []) :
    applyScaling vals spec = .ok vals := by
  cases spec <;> simp [applyScaling, h]

theorem stepScale_do_ok (vals : List (Option Rat)) (st sc : List Rat) (h1 : st.length + 1 = sc.length)
    (h2 : sortedRat st = true) :
    stepScale vals st sc .doIt = .ok (vals.map (Option.map (stepDo st sc))) := by
  simp [stepScale, h1, isSortedRat, h2]

theorem stepScale_undo_ok (vals : List (Option Rat)) (st sc : List Rat) (h1 : st.length + 1 = sc.length)
    (h2 : sortedRat st = true) :
    stepScale vals st sc .undo = .ok (vals.map (Option.map (stepUndo st sc))) := by
  simp [stepScale, h1, isSortedRat, h2]

theorem stepScale_ok_inv (vals : List (Option Rat)) (st sc : List Rat) (m : ScaleMode)
    (out : List (Option Rat)) (h : stepScale vals st sc m = .ok out) :
    st.length + 1 = sc.length ∧ sortedRat st = true := by
  unfold stepScale at h
  by_cases h1 : st.length + 1 ≠ sc.length
  · rw [if_pos h1] at h; cases h
  · rw [if_neg h1] at h
    by_cases h2 : sortedRat st = true
    · exact ⟨not_not.mp h1, h2⟩
    · rw [if_pos (by simp [isSortedRat, h2])] at h; cases h

theorem applyScaling_of_ne (vals : List (Option Rat)) (spec : ScaleSpec) (h : valids vals ≠ [])
    (hok : specOK spec) :
    applyScaling vals spec = .ok (vals.map (Option.map (scaleFn vals spec))) := by
  cases spec with
  | none => simp [applyScaling, scaleFn]
  | shift s k => simp [applyScaling, h, scaleFn, shiftAndScale]
  | minmax mr => simp [applyScaling, h, scaleFn, minmaxScale]
  | minmaxFixed lo hi => simp [applyScaling, h, scaleFn, minmaxScale]
  | step st sc =>
    simp only [applyScaling, List.isEmpty_iff, h, if_false, scaleFn]
    exact stepScale_do_ok vals st sc hok.1 hok.2

/-- Normal form of a successful `applyScaling`. -/
theorem applyScaling_nf (vals : List (Option Rat)) (spec : ScaleSpec) (out : List (Option Rat))
    (h : applyScaling vals spec = .ok out) :
    (valids vals = [] ∧ out = vals) ∨
    (valids vals ≠ [] ∧ specOK spec ∧ out = vals.map (Option.map (scaleFn vals spec))) := by
  by_cases he : valids vals = []
  · left
    rw [applyScaling_of_empty vals spec he] at h
    exact ⟨he, by cases h; rfl⟩
  · right
    have hok : specOK spec := by
      cases spec with
      | step st sc =>
        simp only [applyScaling, List.isEmpty_iff, he, if_false] at h
        exact stepScale_ok_inv vals st sc _ out h
      | _ => trivial
    rw [applyScaling_of_ne vals spec he hok] at h
    exact ⟨he, hok, by cases h; rfl⟩

theorem valids_map_some (l : List Rat) : valids (l.map some) = l := by
  simp [valids, List.filterMap_map]

theorem valids_map_optmap (f : Rat → Rat) (vals : List (Option Rat)) :
    valids (vals.map (Option.map f)) = (valids vals).map f := by
  induction vals with
  | nil => rfl
  | cons x xs ih =>
    cases x with
    | none => simpa [valids] using ih
    | some v => simpa [valids] using ih

theorem mem_valids_of_getElem? (vals : List (Option Rat)) (i : Nat) (x : Rat)
    (h : vals[i]? = some (some x)) : x ∈ valids vals := by
  simp only [valids, List.mem_filterMap, id]
  exact ⟨some x, List.mem_of_getElem? h, rfl⟩

theorem scaleFn_congr (vals vals' : List (Option Rat)) (spec : ScaleSpec)
    (h : valids vals = valids vals') : scaleFn vals spec = scaleFn vals' spec := by
  cases spec <;> simp [scaleFn, minrange2minmax, nanmax, nanmin, h]

/-- A list without valid entry is left unchanged by any entry-wise map. -/
theorem map_optmap_of_empty (f : Rat → Rat) (vals : List (Option Rat)) (h : valids vals = []) :
    vals.map (Option.map f) = vals := by
  induction vals with
  | nil => rfl
  | cons x xs ih =>
    cases x with
    | none =>
      have : valids xs = [] := by simpa [valids] using h
      simp [ih this]
    | some v => simp [valids] at h

/-- Min-max scaling with a minimum range maps the data into `[0, 1]`. -/
theorem applyScaling_minmax_range (vals : List (Option Rat)) (minRange : Rat) (hr : 0 ≤ minRange)
    (hspan : 0 < max (nanmax vals - nanmin vals) minRange) (out : List (Option Rat))
    (h : applyScaling vals (.minmax minRange) = .ok out) :
    ∀ y ∈ valids out, 0 ≤ y ∧ y ≤ 1 := by
  rcases applyScaling_nf vals _ out h with ⟨he, rfl⟩ | ⟨he, _, rfl⟩
  · intro y hy; rw [he] at hy; cases hy
  · intro y hy
    rw [valids_map_optmap, List.mem_map] at hy
    obtain ⟨v, hv, rfl⟩ := hy
    obtain ⟨hb, _, hw, _⟩ := minrange2minmax_spec vals minRange he hr
    exact minmax1_range _ _ (by linarith) v (hb v hv).1 (hb v hv).2

/-! ### step scaling -/

/-- All scales positive. -/
def PosScales (scales : List Rat) : Prop := ∀ s ∈ scales, 0 < s

/-- Lower edge (input side) of bin `k`. -/
def stepOff (steps : List Rat) (k : Nat) : Rat := if k = 0 then 0 else steps.getD (k - 1) 0

theorem stepBin_nil (v : Rat) : stepBin [] v = 0 := rfl

theorem stepBin_cons_le (a : Rat) (l : List Rat) (v : Rat) (h : a ≤ v) :
    stepBin (a :: l) v = stepBin l v + 1 := by
  simp [stepBin, h]

theorem stepBin_cons_gt (a : Rat) (l : List Rat) (v : Rat) (h : v < a) :
    stepBin (a :: l) v = stepBin l v := by
  simp [stepBin, not_le.mpr h]

/-- Characterisation of the bin index (no sortedness needed). -/
theorem stepBin_eq_of (l : List Rat) (v : Rat) (k : Nat) (hk : k ≤ l.length)
    (h1 : ∀ j x, j < k → l[j]? = some x → x ≤ v)
    (h2 : ∀ j x, k ≤ j → l[j]? = some x → v < x) : stepBin l v = k := by
  induction l generalizing k with
  | nil => simp at hk; subst hk; rfl
  | cons a l ih =>
    cases k with
    | zero =>
      have ha : v < a := h2 0 a (Nat.le_refl _) rfl
      rw [stepBin_cons_gt a l v ha]
      exact ih 0 (Nat.zero_le _) (fun j x hj => absurd hj (Nat.not_lt_zero _))
        (fun j x _ hx => h2 (j + 1) x (Nat.zero_le _) (by simpa using hx))
    | succ k =>
      have ha : a ≤ v := h1 0 a (Nat.succ_pos _) rfl
      rw [stepBin_cons_le a l v ha]
      congr 1
      exact ih k (by simpa using hk)
        (fun j x hj hx => h1 (j + 1) x (by omega) (by simpa using hx))
        (fun j x hj hx => h2 (j + 1) x (by omega) (by simpa using hx))

/-- For a sorted list the bin index separates the edges `≤ v` from those `> v`. -/
theorem stepBin_spec (l : List Rat) (hs : l.Pairwise (· ≤ ·)) (v : Rat) :
    stepBin l v ≤ l.length ∧
    (∀ j x, j < stepBin l v → l[j]? = some x → x ≤ v) ∧
    (∀ j x, stepBin l v ≤ j → l[j]? = some x → v < x) := by
  induction l with
  | nil => simp [stepBin_nil]
  | cons a l ih =>
    rw [List.pairwise_cons] at hs
    obtain ⟨ih0, ih1, ih2⟩ := ih hs.2
    by_cases ha : a ≤ v
    · rw [stepBin_cons_le a l v ha]
      refine ⟨by simpa using ih0, ?_, ?_⟩
      · intro j x hj hx
        cases j with
        | zero => simp at hx; subst hx; exact ha
        | succ j => exact ih1 j x (by omega) (by simpa using hx)
      · intro j x hj hx
        cases j with
        | zero => omega
        | succ j => exact ih2 j x (by omega) (by simpa using hx)
    · have ha' : v < a := not_le.mp ha
      have hall : ∀ x ∈ l, v < x := fun x hx => lt_of_lt_of_le ha' (hs.1 x hx)
      have h0 : stepBin l v = 0 := by
        simp only [stepBin, List.length_eq_zero_iff, List.filter_eq_nil_iff]
        intro x hx
        simpa using hall x hx
      rw [stepBin_cons_gt a l v ha', h0]
      refine ⟨Nat.zero_le _, fun j x hj => absurd hj (Nat.not_lt_zero _), ?_⟩
      intro j x _ hx
      cases j with
      | zero => simp at hx; subst hx; exact ha'
      | succ j => exact hall x (List.mem_of_getElem? (by simpa using hx))

theorem getD_of_getElem? (l : List Rat) (j : Nat) (hj : j < l.length) : l[j]? = some (l.getD j 0) := by
  simp [List.getD_eq_getElem?_getD, List.getElem?_eq_getElem hj]

/-- `getD` version of `stepBin_spec`. -/
theorem stepBin_spec' (steps : List Rat) (hs : sortedRat steps = true) (v : Rat) :
    stepBin steps v ≤ steps.length ∧
    (∀ j, j < stepBin steps v → steps.getD j 0 ≤ v) ∧
    (∀ j, stepBin steps v ≤ j → j < steps.length → v < steps.getD j 0) := by
  obtain ⟨h0, h1, h2⟩ := stepBin_spec steps ((sortedRat_iff steps).mp hs) v
  exact ⟨h0, fun j hj => h1 j _ hj (getD_of_getElem? steps j (by omega)),
    fun j hj hl => h2 j _ hj (getD_of_getElem? steps j hl)⟩

theorem stepBin_mono (steps : List Rat) (hs : sortedRat steps = true) (a b : Rat) (hab : a ≤ b) :
    stepBin steps a ≤ stepBin steps b := by
  obtain ⟨a0, a1, a2⟩ := stepBin_spec' steps hs a
  obtain ⟨b0, b1, b2⟩ := stepBin_spec' steps hs b
  by_contra hc
  have hlt : stepBin steps b < stepBin steps a := by omega
  have := a1 _ hlt
  have := b2 _ (Nat.le_refl _) (by omega)
  linarith

theorem sorted_getD_le (steps : List Rat) (hs : sortedRat steps = true) (i j : Nat) (hij : i ≤ j)
    (hj : j < steps.length) : steps.getD i 0 ≤ steps.getD j 0 := by
  have hp := (sortedRat_iff steps).mp hs
  rcases Nat.eq_or_lt_of_le hij with rfl | hlt
  · exact le_refl _
  · have := List.pairwise_iff_getElem.mp hp i j (by omega) hj hlt
    simpa [List.getD_eq_getElem?_getD, List.getElem?_eq_getElem hj,
      List.getElem?_eq_getElem (show i < steps.length by omega)] using this

theorem stepEdgeOut_succ (steps scales : List Rat) (k : Nat) :
    stepEdgeOut steps scales (k + 1) =
      (steps.getD k 0 - stepOff steps k) / scales.getD k 1 + stepEdgeOut steps scales k := by
  cases k with
  | zero => simp [stepEdgeOut, stepOff]
  | succ j =>
    rw [stepEdgeOut]
    simp only [stepOff, Nat.add_sub_cancel, Nat.succ_ne_zero, if_false]
    ring

theorem stepDo_eq (steps scales : List Rat) (v : Rat) :
    stepDo steps scales v =
      (v - stepOff steps (stepBin steps v)) / scales.getD (stepBin steps v) 1
        + stepEdgeOut steps scales (stepBin steps v) := rfl

theorem scale_pos (steps scales : List Rat) (hl : steps.length + 1 = scales.length)
    (hp : PosScales scales) (k : Nat) (hk : k ≤ steps.length) : 0 < scales.getD k 1 := by
  have hk' : k < scales.length := by omega
  have : scales.getD k 1 = scales[k] := by
    simp [List.getD_eq_getElem?_getD, List.getElem?_eq_getElem hk']
  rw [this]
  exact hp _ (List.getElem_mem hk')

/-- The scaled edges are non-decreasing from the first one on. -/
theorem stepEdgeOut_mono (steps scales : List Rat) (hl : steps.length + 1 = scales.length)
    (hs : sortedRat steps = true) (hp : PosScales scales) (m n : Nat) (hm : 1 ≤ m) (hmn : m ≤ n)
    (hn : n ≤ steps.length) : stepEdgeOut steps scales m ≤ stepEdgeOut steps scales n := by
  induction n with
  | zero => omega
  | succ n ih =>
    rcases Nat.eq_or_lt_of_le hmn with rfl | hlt
    · exact le_refl _
    · have h1 := ih (by omega) (by omega)
      rw [stepEdgeOut_succ]
      have hsc := scale_pos steps scales hl hp n (by omega)
      have hoff : stepOff steps n ≤ steps.getD n 0 := by
        have hn0 : n ≠ 0 := by omega
        simp only [stepOff, hn0, if_false]
        exact sorted_getD_le steps hs (n - 1) n (by omega) (by omega)
      have : 0 ≤ (steps.getD n 0 - stepOff steps n) / scales.getD n 1 :=
        div_nonneg (by linarith) hsc.le
      linarith

/-- In bin `k ≥ 1` the value is at or above the scaled lower edge. -/
theorem stepDo_lower (steps scales : List Rat) (hl : steps.length + 1 = scales.length)
    (hs : sortedRat steps = true) (hp : PosScales scales) (v : Rat) (hk : 1 ≤ stepBin steps v) :
    stepEdgeOut steps scales (stepBin steps v) ≤ stepDo steps scales v := by
  obtain ⟨h0, h1, _⟩ := stepBin_spec' steps hs v
  rw [stepDo_eq]
  have hsc := scale_pos steps scales hl hp _ h0
  have hoff : stepOff steps (stepBin steps v) ≤ v := by
    have hn0 : stepBin steps v ≠ 0 := by omega
    simp only [stepOff, hn0, if_false]
    exact h1 _ (by omega)
  have : 0 ≤ (v - stepOff steps (stepBin steps v)) / scales.getD (stepBin steps v) 1 :=
    div_nonneg (by linarith) hsc.le
  linarith

/-- Below the last bin the value is strictly below the scaled upper edge. -/
theorem stepDo_upper (steps scales : List Rat) (hl : steps.length + 1 = scales.length)
    (hs : sortedRat steps = true) (hp : PosScales scales) (v : Rat) (hk : stepBin steps v < steps.length) :
    stepDo steps scales v < stepEdgeOut steps scales (stepBin steps v + 1) := by
  obtain ⟨h0, _, h2⟩ := stepBin_spec' steps hs v
  rw [stepDo_eq, stepEdgeOut_succ]
  have hsc := scale_pos steps scales hl hp _ h0
  have hv := h2 _ (Nat.le_refl _) hk
  have := div_lt_div_of_pos_right (show v - stepOff steps (stepBin steps v) <
    steps.getD (stepBin steps v) 0 - stepOff steps (stepBin steps v) by linarith) hsc
  linarith

theorem stepDo_strictMono (steps scales : List Rat) (hl : steps.length + 1 = scales.length)
    (hs : sortedRat steps = true) (hp : PosScales scales) (a b : Rat) (hab : a < b) :
    stepDo steps scales a < stepDo steps scales b := by
  have hk := stepBin_mono steps hs a b hab.le
  obtain ⟨b0, _, _⟩ := stepBin_spec' steps hs b
  rcases Nat.eq_or_lt_of_le hk with heq | hlt
  · rw [stepDo_eq, stepDo_eq, heq]
    have hsc := scale_pos steps scales hl hp _ b0
    have := div_lt_div_of_pos_right (show a - stepOff steps (stepBin steps b) <
      b - stepOff steps (stepBin steps b) by linarith) hsc
    linarith
  · have h1 := stepDo_upper steps scales hl hs hp a (by omega)
    have h2 := stepEdgeOut_mono steps scales hl hs hp (stepBin steps a + 1) (stepBin steps b)
      (by omega) (by omega) b0
    have h3 := stepDo_lower steps scales hl hs hp b (by omega)
    linarith

set_option linter.unusedVariables false in
/-- Continuity across the steps: at a step edge the value computed with the scale of the bin below
equals the value computed with the scale of the bin above. -/
theorem stepDo_continuous (steps scales : List Rat) (hl : steps.length + 1 = scales.length)
    (hs : sortedRat steps = true) (k : Nat) (hk : k < steps.length) :
    let e := steps.getD k 0
    let below := (e - (if k = 0 then 0 else steps.getD (k - 1) 0)) / scales.getD k 1 + stepEdgeOut steps scales k
    stepEdgeOut steps scales (k + 1) = below := by
  exact stepEdgeOut_succ steps scales k

theorem range_getElem?_some {n j j' : Nat} (h : (List.range n)[j]? = some j') : j' = j ∧ j < n := by
  obtain ⟨hlt, he⟩ := List.getElem?_eq_some_iff.mp h
  simp only [List.length_range] at hlt
  simp only [List.getElem_range] at he
  exact ⟨he.symm, hlt⟩

theorem stepUndo_do (steps scales : List Rat) (hl : steps.length + 1 = scales.length)
    (hs : sortedRat steps = true) (hp : PosScales scales) (a : Rat) :
    stepUndo steps scales (stepDo steps scales a) = a := by
  obtain ⟨a0, _, _⟩ := stepBin_spec' steps hs a
  have hbin : stepBin ((List.range steps.length).map fun k => stepEdgeOut steps scales (k + 1))
      (stepDo steps scales a) = stepBin steps a := by
    apply stepBin_eq_of
    · simpa using a0
    · intro j x hj hx
      simp only [List.getElem?_map, Option.map_eq_some_iff] at hx
      obtain ⟨j', hj', rfl⟩ := hx
      obtain ⟨rfl, _⟩ := range_getElem?_some hj'
      have h2 := stepEdgeOut_mono steps scales hl hs hp (j' + 1) (stepBin steps a)
        (by omega) (by omega) a0
      have h3 := stepDo_lower steps scales hl hs hp a (by omega)
      linarith
    · intro j x hj hx
      simp only [List.getElem?_map, Option.map_eq_some_iff] at hx
      obtain ⟨j', hj', rfl⟩ := hx
      obtain ⟨rfl, hjl⟩ := range_getElem?_some hj'
      have h1 := stepDo_upper steps scales hl hs hp a (by omega)
      have h2 := stepEdgeOut_mono steps scales hl hs hp (stepBin steps a + 1) (j' + 1)
        (by omega) (by omega) (by omega)
      linarith
  have hsc := scale_pos steps scales hl hp _ a0
  simp only [stepUndo, hbin]
  rw [stepDo_eq]
  change (_ - _) * _ + stepOff steps (stepBin steps a) = a
  have hne : scales.getD (stepBin steps a) 1 ≠ 0 := ne_of_gt hsc
  field_simp
  ring

/-- Length / order problems are refused with an `AmpycloudError`. -/
theorem stepScale_refuses (vals : List (Option Rat)) (steps scales : List Rat) (m : ScaleMode)
    (h : steps.length + 1 ≠ scales.length ∨ sortedRat steps = false) :
    ∃ why, stepScale vals steps scales m = .error (.ampy why) := by
  unfold stepScale
  by_cases h1 : steps.length + 1 ≠ scales.length
  · exact ⟨_, if_pos h1⟩
  · rw [if_neg h1]
    rcases h with h | h
    · exact absurd h h1
    · exact ⟨_, if_pos (by simp [isSortedRat, h])⟩


/-! ### all modes: NaN stays NaN, the others do not care -/

/-- NaN entries stay NaN and the scaled values of the other entries do not depend on how many NaNs are
interspersed: scaling commutes with dropping the NaNs. -/
theorem applyScaling_nan_blind (vals : List (Option Rat)) (spec : ScaleSpec) (out : List (Option Rat))
    (h : applyScaling vals spec = .ok out) :
    out.length = vals.length ∧
    (∀ i : Nat, vals[i]? = some none → out[i]? = some none) ∧
    (∀ (i : Nat) (x : Rat), vals[i]? = some (some x) → ∃ y, out[i]? = some (some y)) ∧
    ∃ out', applyScaling ((valids vals).map some) spec = .ok out' ∧ valids out' = valids out := by
  rcases applyScaling_nf vals spec out h with ⟨he, rfl⟩ | ⟨he, hok, rfl⟩
  · refine ⟨rfl, fun i hi => hi, fun i x hi => ⟨x, hi⟩, ?_⟩
    refine ⟨(valids out).map some, applyScaling_of_empty _ spec (by rw [valids_map_some]; exact he), ?_⟩
    rw [valids_map_some]
  · refine ⟨by simp, ?_, ?_, ?_⟩
    · intro i hi
      simp [List.getElem?_map, hi]
    · intro i x hi
      exact ⟨scaleFn vals spec x, by simp [List.getElem?_map, hi]⟩
    · have hv : valids ((valids vals).map some) = valids vals := valids_map_some _
      refine ⟨_, applyScaling_of_ne _ spec (by rw [hv]; exact he) hok, ?_⟩
      rw [valids_map_optmap, valids_map_optmap, hv, scaleFn_congr _ vals spec hv]


/-- Undoing a scaling with the deterministic keywords derived from the original data
(`convert_kwargs`) restores the original values, in every mode with positive scales and a non-zero span. -/
theorem undo_do_roundtrip (vals : List (Option Rat)) (spec : ScaleSpec) (out : List (Option Rat))
    (hdom : match spec with
      | .none => True
      | .shift _ k => k ≠ 0
      | .minmax mr => 0 ≤ mr ∧ 0 < max (nanmax vals - nanmin vals) mr
      | .minmaxFixed lo hi => lo ≠ hi
      | .step st sc => st.length + 1 = sc.length ∧ sortedRat st = true ∧ PosScales sc)
    (h : applyScaling vals spec = .ok out) :
    undoScaling out (convertSpec vals spec) = .ok vals := by
  rcases applyScaling_nf vals spec out h with ⟨he, rfl⟩ | ⟨he, _, rfl⟩
  · cases spec with
    | none => rfl
    | shift s k =>
      cases s <;> simp [convertSpec, undoScaling, shiftAndScale, map_optmap_of_empty _ out he]
    | minmax mr => simp [convertSpec, undoScaling, minmaxScale, map_optmap_of_empty _ out he]
    | minmaxFixed lo hi => simp [convertSpec, undoScaling, minmaxScale, map_optmap_of_empty _ out he]
    | step st sc =>
      simp only [convertSpec, undoScaling]
      rw [stepScale_undo_ok out st sc hdom.1 hdom.2.1, map_optmap_of_empty _ out he]
  · cases spec with
    | none => simp [convertSpec, undoScaling, scaleFn]
    | shift s k =>
      have hk : k ≠ 0 := hdom
      cases s <;>
        simp [convertSpec, undoScaling, shiftAndScale, scaleFn, Function.comp_def,
          shiftScale1_undo_do _ k hk]
    | minmax mr =>
      obtain ⟨_, _, hw, _⟩ := minrange2minmax_spec vals mr he hdom.1
      have hne : (minrange2minmax vals mr).1 ≠ (minrange2minmax vals mr).2 := by
        intro heq
        have := hdom.2
        rw [heq] at hw
        linarith
      simp [convertSpec, undoScaling, minmaxScale, scaleFn, Function.comp_def,
        minmax1_undo_do _ _ hne]
    | minmaxFixed lo hi =>
      have hne : lo ≠ hi := hdom
      simp [convertSpec, undoScaling, minmaxScale, scaleFn, Function.comp_def,
        minmax1_undo_do _ _ hne]
    | step st sc =>
      simp only [convertSpec, undoScaling]
      rw [stepScale_undo_ok _ st sc hdom.1 hdom.2.1]
      simp [scaleFn, Function.comp_def, stepUndo_do st sc hdom.1 hdom.2.1 hdom.2.2]

/-- Every successful scaling applies a strictly increasing function on the domain of `applyScaling_mono`. -/
theorem scaleFn_strictMono (vals : List (Option Rat)) (spec : ScaleSpec) (he : valids vals ≠ [])
    (hdom : match spec with
      | .none => True
      | .shift _ k => 0 < k
      | .minmax mr => 0 ≤ mr ∧ 0 < max (nanmax vals - nanmin vals) mr
      | .minmaxFixed lo hi => lo < hi
      | .step st sc => st.length + 1 = sc.length ∧ sortedRat st = true ∧ PosScales sc)
    (a b : Rat) (hab : a < b) : scaleFn vals spec a < scaleFn vals spec b := by
  cases spec with
  | none => exact hab
  | shift s k => exact shiftScale1_strictMono _ k hdom a b hab
  | minmax mr =>
    obtain ⟨_, _, hw, _⟩ := minrange2minmax_spec vals mr he hdom.1
    have := hdom.2
    exact minmax1_strictMono _ _ (by linarith) a b hab
  | minmaxFixed lo hi => exact minmax1_strictMono lo hi hdom a b hab
  | step st sc => exact stepDo_strictMono st sc hdom.1 hdom.2.1 hdom.2.2 a b hab

/-- Every mode is order-preserving on the data: it never reverses two values. -/
theorem applyScaling_mono (vals : List (Option Rat)) (spec : ScaleSpec) (out : List (Option Rat))
    (hdom : match spec with
      | .none => True
      | .shift _ k => 0 < k
      | .minmax mr => 0 ≤ mr ∧ 0 < max (nanmax vals - nanmin vals) mr
      | .minmaxFixed lo hi => lo < hi
      | .step st sc => st.length + 1 = sc.length ∧ sortedRat st = true ∧ PosScales sc)
    (h : applyScaling vals spec = .ok out) (i j : Nat) (a b a' b' : Rat)
    (hi : vals[i]? = some (some a)) (hj : vals[j]? = some (some b))
    (hi' : out[i]? = some (some a')) (hj' : out[j]? = some (some b')) (hab : a < b) : a' < b' := by
  rcases applyScaling_nf vals spec out h with ⟨he, rfl⟩ | ⟨he, _, rfl⟩
  · rw [hi] at hi'; rw [hj] at hj'
    cases hi'; cases hj'; exact hab
  · simp only [List.getElem?_map, hi, hj, Option.map_some, Option.some.injEq] at hi' hj'
    subst hi' hj'
    exact scaleFn_strictMono vals spec he hdom a b hab

end Ampy
