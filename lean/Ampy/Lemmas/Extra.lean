import Ampy.Lemmas.Total
import Ampy.Lemmas.RunFacts
/-!
Extensions: range of `ncomp` (behind C20), the split layers of a group are as far apart as its mixture
components when nothing was re-merged (second clause of C06).
-/
namespace Ampy
open Lay

/-! ### helpers: the tail of `ncompFromGmm`, one step of the layering loop in full detail -/

/-- The tail of `ncomp_from_gmm` was entered on an existing fit, reports at most as many components as
there are fits, and its count is either 1 or the (asserted) number of distinct ids. -/
theorem gmmTail_range {α} (K : Kern) (P : PPrms α) (q : Rat) (hK : KernOK K q) (vals sc : List Rat)
    (m : Nat) (minSep : Rat) (best n : Nat) (ids : List Nat)
    (h : gmmTail K P vals minSep ((List.range m).map fun i => K.gmm P.gmmScores sc (i + 1)) best = .ok (n, ids)) :
    0 < m ∧ n ≤ m ∧ (n = 1 ∨ ids.eraseDups.length = n) := by
  have _ := hK
  unfold gmmTail at h
  split at h
  · cases h
  · rename_i f hf
    rw [List.getElem?_map] at hf
    obtain ⟨i, hi, rfl⟩ := Option.map_eq_some_iff.mp hf
    have hbm : best < m := by
      have := (List.getElem?_eq_some_iff.mp hi).1
      simpa using this
    simp only at h
    split_ifs at h with h1
    · cases h
      exact ⟨by omega, by omega, .inl rfl⟩
    · simp only [bind, Except.bind, pure, Except.pure] at h
      split at h
      · cases h
      · rename_i bases hb
        have hle := remerge_le minSep (applyPerm (K.argsort bases) bases) (K.argsort bases)
          (K.gmm P.gmmScores sc (i + 1)).labels (best + 1)
        generalize remerge minSep (applyPerm (K.argsort bases) bases) (K.argsort bases)
          (K.gmm P.gmmScores sc (i + 1)).labels (best + 1) = rm at h hle
        split_ifs at h with h2
        cases h
        exact ⟨by omega, by omega, .inr (not_not.mp h2)⟩

theorem eraseDups_nat_pos (l : List Nat) (h : l ≠ []) : 1 ≤ (l.eraseDups).length := by
  cases l with
  | nil => exact absurd rfl h
  | cons a t =>
    rw [List.eraseDups_cons, List.length_cons]
    omega

/-- `ncomp_from_gmm` reports between 1 and `ncompMax` components. -/
theorem ncompFromGmm_range {α} (K : Kern) (P : PPrms α) (hK : KernOK K P.basePerc) (vals : List Rat) (m : Nat)
    (minSep : Rat) (n : Nat) (ids : List Nat) (hm : 1 ≤ m) (h : ncompFromGmm K P vals m minSep = .ok (n, ids)) :
    1 ≤ n ∧ n ≤ m := by
  rcases ncompFromGmm_cases K P vals m minSep (n, ids) h with h | ⟨best, h⟩
  · cases h
    exact ⟨le_refl _, hm⟩
  · obtain ⟨h0, h1, h2⟩ := gmmTail_range K P _ hK vals _ _ minSep best n ids h
    obtain ⟨hl, _, _⟩ := gmmTail_spec K P _ hK vals _ _ minSep best n ids h
    refine ⟨?_, by omega⟩
    rcases h2 with h2 | h2
    · omega
    · have hv : vals ≠ [] := by
        rintro rfl
        simp at h0
      have hil : ids ≠ [] := by
        rintro rfl
        have hl2 : (gmmScaled P vals).length = vals.length := gmmScaled_length P.gmmRescale vals
        rw [hl2] at hl
        exact hv (List.length_eq_zero_iff.mp hl.symm)
      have := eraseDups_nat_pos ids hil
      omega
/-- A successful step with full detail. -/
theorem layerStep_full {α} (K : Kern) (P : PPrms α) (data : List (Hit α)) (gids : List Int) (groups : Table)
    (lids : List (Option Int)) (ncomps : List Int) (ind : Nat) (g : Row) (hgi : groups[ind]? = some g)
    (st' : List (Option Int) × List Int)
    (h : layerStep K P data gids groups (lids, ncomps) ind = .ok st') :
    st' = (lids, ncomps ++ [-1]) ∨
    (∃ (n : Nat) (ids : List Nat) (minSep : Rat),
      minSepFor P.toPrms g.base = .ok minSep ∧
      30 ≤ (grpHs data (grpPos K data gids g.cid)).length ∧
      ncompFromGmm K P (grpHs data (grpPos K data gids g.cid))
        (min ((grpHs data (grpPos K data gids g.cid)).eraseDups).length 3) minSep = .ok (n, ids) ∧
      ((1 < n ∧ st' = (writeIds (lidOffset gids) ind lids ((grpPos K data gids g.cid).zip ids),
          ncomps ++ [(n : Int)])) ∨
       (n ≤ 1 ∧ st' = (lids, ncomps ++ [(n : Int)])))) := by
  unfold layerStep at h
  simp only [hgi, bind, Except.bind, pure, Except.pure] at h
  split at h
  · cases h
    exact .inl rfl
  · rename_i hc
    simp only [Bool.or_eq_true, decide_eq_true_eq, not_or, not_lt] at hc
    split at h
    · cases h
    · rename_i minSep hms
      split at h
      · cases h
      · rename_i r hr
        obtain ⟨n, ids⟩ := r
        simp only at h
        split at h
        · rename_i hn
          cases h
          exact .inr ⟨n, ids, minSep, hms, hc.1.2, hr, .inl ⟨hn, rfl⟩⟩
        · rename_i hn
          cases h
          exact .inr ⟨n, ids, minSep, hms, hc.1.2, hr, .inr ⟨by omega, rfl⟩⟩

/-- The `ncomp` column written by `find_layers` only holds -1, 1, 2 or 3. -/
theorem layerIds_ncomp_range {α} [DecidableEq α] (K : Kern) (P : PPrms α) (hK : KernOK K P.basePerc)
    (data : List (Hit α)) (gids : List Int) (groups : Table) (lids ncomps : List Int)
    (h : layerIds K P data gids groups = .ok (lids, ncomps)) :
    ∀ k ∈ ncomps, k = -1 ∨ k = 1 ∨ k = 2 ∨ k = 3 := by
  obtain ⟨l0, hf, _⟩ := layerIds_ok K P data gids groups lids ncomps h
  refine foldlM_range_inv _ (fun _ (s : List (Option Int) × List Int) =>
      ∀ k ∈ s.2, k = -1 ∨ k = 1 ∨ k = 2 ∨ k = 3) _ groups.length (fun k hk => by cases hk)
    ?_ groups.length (Nat.le_refl _) (l0, ncomps) hf
  rintro k ⟨l, nc⟩ s' hk hI hs
  have hgk : groups[k]? = some groups[k] := List.getElem?_eq_getElem hk
  simp only at hI
  have hadd : ∀ x : Int, (x = -1 ∨ x = 1 ∨ x = 2 ∨ x = 3) →
      ∀ y ∈ nc ++ [x], y = -1 ∨ y = 1 ∨ y = 2 ∨ y = 3 := by
    intro x hx y hy
    rcases List.mem_append.mp hy with hy | hy
    · exact hI y hy
    · rw [List.mem_singleton.mp hy]
      exact hx
  rcases layerStep_full K P data gids groups l nc k _ hgk s' hs with
    rfl | ⟨n, ids, minSep, _, h30, hgmm, hcase⟩
  · exact hadd (-1) (.inl rfl)
  · have hne : grpHs data (grpPos K data gids groups[k].cid) ≠ [] := by
      intro he
      rw [he] at h30
      simp at h30
    have hm : 1 ≤ min ((grpHs data (grpPos K data gids groups[k].cid)).eraseDups).length 3 := by
      have := eraseDups_length_pos _ hne
      omega
    obtain ⟨h1, h2⟩ := ncompFromGmm_range K P hK _ _ minSep n ids hm hgmm
    have hx : ((n : Int) = -1 ∨ (n : Int) = 1 ∨ (n : Int) = 2 ∨ (n : Int) = 3) := by omega
    rcases hcase with ⟨_, rfl⟩ | ⟨_, rfl⟩ <;> exact hadd _ hx

/-- After `run`, every group's `ncomp` is -1, 1, 2 or 3 (the keys of the plot's symbol table). -/
theorem run_ncomp_range {α} [DecidableEq α] (K : Kern) (P : PPrms α) (hK : KernOK K P.basePerc)
    (checked : List (Hit α)) (c : Chunk α) (h : run K P checked = .ok c) (gr : Table) (hg : c.groups = some gr) :
    ∀ g ∈ gr, g.ncomp = some (-1) ∨ g.ncomp = some 1 ∨ g.ncomp = some 2 ∨ g.ncomp = some 3 := by
  obtain ⟨_, _, sids, sl, gids, iso, gr₀, lids, nc, lay, hs, hsl, hgi, hgr₀, hli, hlay, e1, e2, e3, e4, e5, e6⟩ :=
    run_parts K P checked c h
  obtain rfl : setNcomp gr₀ nc = gr := Option.some.inj (e5.symm.trans hg)
  have hlen := layerIds_ncomps_length K P c.data gids gr₀ lids nc hli
  have hrange := layerIds_ncomp_range K P hK c.data gids gr₀ lids nc hli
  intro g hgm
  obtain ⟨ind, hind⟩ := List.getElem?_of_mem hgm
  obtain ⟨r₀, hr₀, rfl⟩ := setNcomp_getElem? gr₀ nc ind g hind
  have hi : ind < gr₀.length := (List.getElem?_eq_some_iff.mp hr₀).1
  have hi' : ind < nc.length := hlen ▸ hi
  have hnc : nc.getD ind (-1) = nc[ind] := by
    rw [List.getD_eq_getElem?_getD, List.getElem?_eq_getElem hi']
    rfl
  have := hrange nc[ind] (List.getElem_mem hi')
  simp only [hnc]
  rcases this with h | h | h | h <;> rw [h] <;> simp
theorem groupHeights_eq {α} (K : Kern) (data : List (Hit α)) (gids : List Int) (cid : Int) :
    groupHeights K data gids cid = grpHs data (grpPos K data gids cid) := rfl

/-! ### list lemmas -/

theorem filterMap_filter_of_none {β γ} (p : β → Bool) (F : β → Option γ) (l : List β)
    (h : ∀ x ∈ l, p x = false → F x = none) : l.filterMap F = (l.filter p).filterMap F := by
  induction l with
  | nil => rfl
  | cons a t ih =>
    have iht := ih (fun x hx => h x (List.mem_cons_of_mem _ hx))
    cases hp : p a with
    | true =>
      rw [List.filter_cons_of_pos hp, List.filterMap_cons, List.filterMap_cons, iht]
    | false =>
      rw [List.filter_cons_of_neg (by simp [hp]), List.filterMap_cons, h a List.mem_cons_self hp, iht]

theorem filterMap_zip_sel {β} (hgt F : Nat → Option β) (k : Nat) : ∀ (pos ids : List Nat),
    pos.length = ids.length → (∀ i ∈ pos, (hgt i).isSome = true) →
    (∀ j (hj : j < pos.length) (hj2 : j < ids.length), F pos[j] = if ids[j] = k then hgt pos[j] else none) →
    pos.filterMap F = ((pos.filterMap hgt).zip ids).filterMap fun (v, l) => if l = k then some v else none := by
  intro pos
  induction pos with
  | nil => intro ids _ _ _; rfl
  | cons a t ih =>
    intro ids hlen hsome hF
    cases ids with
    | nil => simp at hlen
    | cons b u =>
      obtain ⟨y, hy⟩ := Option.isSome_iff_exists.mp (hsome a List.mem_cons_self)
      have h0 := hF 0 (by simp) (by simp)
      simp only [List.getElem_cons_zero] at h0
      have iht := ih u (by simpa using hlen) (fun i hi => hsome i (List.mem_cons_of_mem _ hi))
        (fun j hj hj2 => by
          have := hF (j + 1) (by simpa using hj) (by simpa using hj2)
          simpa using this)
      rw [List.filterMap_cons, List.filterMap_cons, hy, h0, hy]
      simp only [List.zip_cons_cons, List.filterMap_cons]
      by_cases hb : b = k
      · simp only [hb, if_true]
        rw [iht]
      · simp only [hb, if_false]
        rw [iht]

/-! ### the selection without exclusions -/

theorem selectSorted_noexcl {α} [DecidableEq α] (K : MetK) (P : Prms α) (hex : P.exclude = [])
    (data : List (Hit α)) (lids : List Int) (L : Int) :
    selectSorted K data (baseMask P data lids L) =
      (K.dtOrder (data.map (·.dt))).filterMap fun i =>
        if lids[i]? = some L then (data[i]?).bind (·.height) else none := by
  unfold selectSorted baseMask
  simp only [hex, ne_eq, not_true_eq_false, if_false]
  apply List.filterMap_congr
  intro i _
  have : ((lids.map (· == L)).getD i false = true) ↔ lids[i]? = some L := by
    rw [getD_true_iff, map_beq_getElem?]
    constructor
    · rintro ⟨h', he⟩
      rw [List.getElem?_eq_getElem h', he]
    · intro he
      obtain ⟨h', he⟩ := List.getElem?_eq_some_iff.mp he
      exact ⟨h', he⟩
  simp only [this]

/-! ### the rows of the split group -/

def PInv {α} (K : Kern) (data : List (Hit α)) (gids : List Int) (ind : Nat) (cid : Int) (n : Nat)
    (ids : List Nat) (k : Nat) (st : List (Option Int) × List Int) : Prop :=
  ind < k → st.2[ind]? = some (n : Int) →
    30 ≤ (grpHs data (grpPos K data gids cid)).length ∧
    ∀ j (hj : j < (grpPos K data gids cid).length) (hj2 : j < ids.length),
      st.1[(grpPos K data gids cid)[j]]? = some (some (lidOffset gids + 10 * (ind : Int) + (ids[j] : Int)))

theorem PInv_step {α} (K : Kern) (P : PPrms α) (data : List (Hit α)) (q : Rat) (hK : KernOK K q)
    (gids : List Int) (groups : Table) (hg : IdsExact data gids) (hcid : (groups.map (·.cid)).Nodup)
    (ind : Nat) (g : Row) (hgi : groups[ind]? = some g) (n : Nat) (hn2 : 2 ≤ n)
    (minSep : Rat) (hms : minSepFor P.toPrms g.base = .ok minSep) (ids : List Nat)
    (hgmm : ncompFromGmm K P (grpHs data (grpPos K data gids g.cid))
              (min ((grpHs data (grpPos K data gids g.cid)).eraseDups).length 3) minSep = .ok (n, ids))
    (k : Nat) (st st' : List (Option Int) × List Int) (hk : k < groups.length)
    (hI : LInv data gids groups k st) (hP : PInv K data gids ind g.cid n ids k st)
    (h : layerStep K P data gids groups st k = .ok st') : PInv K data gids ind g.cid n ids (k + 1) st' := by
  obtain ⟨lids, ncomps⟩ := st
  have hnl : ncomps.length = k := hI.nlen
  have hll : lids.length = data.length := hI.len
  have hgk : groups[k]? = some groups[k] := List.getElem?_eq_getElem hk
  intro hlt hnc
  by_cases hik : ind < k
  · have hkeep : ∀ x : Int, (ncomps ++ [x])[ind]? = some (n : Int) → ncomps[ind]? = some (n : Int) := by
      intro x hx
      rwa [List.getElem?_append_left (by omega)] at hx
    rcases layerStep_full K P data gids groups lids ncomps k _ hgk st' h with
      rfl | ⟨n', ids', minSep', _, _, _, ⟨_, rfl⟩ | ⟨_, rfl⟩⟩
    · exact hP hik (hkeep _ hnc)
    · obtain ⟨h30, hall⟩ := hP hik (hkeep _ hnc)
      refine ⟨h30, fun j hj hj2 => ?_⟩
      simp only
      rw [writeIds_of_not_mem]
      · exact hall j hj hj2
      · intro p hp hpi
        have h1 := ((mem_grpPos K data gids _ _).mp (List.of_mem_zip hp).1).2
        have h2 := ((mem_grpPos K data gids _ _).mp (List.getElem_mem hj)).2
        rw [hpi, h2] at h1
        have := nodup_cid hcid hgi hgk (Option.some.inj h1)
        omega
    · exact hP hik (hkeep _ hnc)
  · have hke : k = ind := by omega
    subst hke
    rw [hgk] at hgi
    cases hgi
    have hlast : ∀ x : Int, (ncomps ++ [x])[k]? = some (n : Int) → x = (n : Int) := by
      intro x hx
      rw [← hnl] at hx
      simpa using hx
    rcases layerStep_full K P data gids groups lids ncomps k _ hgk st' h with
      rfl | ⟨n', ids', minSep', hms', h30, hgmm', ⟨_, rfl⟩ | ⟨hle, rfl⟩⟩
    · have := hlast _ hnc
      omega
    · rw [hms] at hms'
      cases hms'
      rw [hgmm] at hgmm'
      cases hgmm'
      refine ⟨h30, fun j hj hj2 => ?_⟩
      apply writeIds_of_mem _ _ _ _ _ (grpPos_nodup K q hK data gids _) j hj hj2
      have h2 := ((mem_grpPos K data gids _ _).mp (List.getElem_mem hj)).2
      have := (List.getElem?_eq_some_iff.mp h2).1
      have := hg.len
      omega
    · have := hlast _ hnc
      omega

/-- The rows of a group split in `n ≥ 2` layers carry, at the end, the component ids returned by the
mixture call, in the order of the group's positions. -/
theorem split_rows {α} [DecidableEq α] (K : Kern) (P : PPrms α) (q : Rat) (hK : KernOK K q)
    (data : List (Hit α)) (gids : List Int) (groups : Table) (hg : IdsExact data gids)
    (hcid : (groups.map (·.cid)).Nodup)
    (lids ncomps : List Int) (h : layerIds K P data gids groups = .ok (lids, ncomps))
    (ind : Nat) (g : Row) (hgi : groups[ind]? = some g) (n : Nat) (hn : ncomps[ind]? = some (n : Int)) (hn2 : 2 ≤ n)
    (minSep : Rat) (hms : minSepFor P.toPrms g.base = .ok minSep) (ids : List Nat)
    (hgmm : ncompFromGmm K P (grpHs data (grpPos K data gids g.cid))
              (min ((grpHs data (grpPos K data gids g.cid)).eraseDups).length 3) minSep = .ok (n, ids)) :
    30 ≤ (grpHs data (grpPos K data gids g.cid)).length ∧
    ∀ j (hj : j < (grpPos K data gids g.cid).length) (hj2 : j < ids.length),
      lids[(grpPos K data gids g.cid)[j]]? = some (lidOffset gids + 10 * (ind : Int) + (ids[j] : Int)) := by
  obtain ⟨l0, hf, rfl⟩ := layerIds_ok K P data gids groups lids ncomps h
  have hind : ind < groups.length := (List.getElem?_eq_some_iff.mp hgi).1
  have key := foldlM_range_inv _
    (fun k s => LInv data gids groups k s ∧ PInv K data gids ind g.cid n ids k s) _ groups.length
    ⟨LInv_init data gids groups, fun hk => absurd hk (Nat.not_lt_zero _)⟩
    (fun k s s' hk hI hs => ⟨LInv_step K P data q hK gids groups hg k s s' hk hI.1 hs,
      PInv_step K P data q hK gids groups hg hcid ind g hgi n hn2 minSep hms ids hgmm k s s' hk hI.1 hI.2 hs⟩)
    groups.length (Nat.le_refl _) _ hf
  obtain ⟨h30, hall⟩ := key.2 hind hn
  refine ⟨h30, fun j hj hj2 => ?_⟩
  have h2 := ((mem_grpPos K data gids _ _).mp (List.getElem_mem hj)).2
  exact (finCol_getElem? l0 gids _ _).mpr ⟨_, g.cid, hall j hj hj2, h2, rfl⟩

/-- A row carrying the layer id `off + 10·ind + k` (`k < 10`) belongs to group number `ind`. -/
theorem lid_row_group {α} [DecidableEq α] (K : Kern) (P : PPrms α) (q : Rat) (hK : KernOK K q)
    (data : List (Hit α)) (gids : List Int) (groups : Table) (hg : IdsExact data gids)
    (lids ncomps : List Int) (h : layerIds K P data gids groups = .ok (lids, ncomps))
    (ind : Nat) (g : Row) (hgi : groups[ind]? = some g) (k : Nat) (hk : k < 10) (i : Nat)
    (hi : lids[i]? = some (lidOffset gids + 10 * (ind : Int) + (k : Int))) : gids[i]? = some g.cid := by
  obtain ⟨l0, hf, rfl⟩ := layerIds_ok K P data gids groups lids ncomps h
  have hI := loop_linv K P data q hK gids groups hg _ hf
  obtain ⟨l, c, _, hc, _⟩ := (finCol_getElem? l0 gids i _).mp hi
  have hlt := lidOffset_gt gids c (List.mem_of_getElem? hc)
  rcases fin_class hI i _ c hi hc with e | ⟨ind', c', gr, a, b, _, d, e⟩
  · omega
  · have : ind' = ind := by omega
    subst this
    rw [a] at hgi
    cases hgi
    rw [hc, b]

/-- Report-time base = decision-time base (the hypothesis `k < 10` is necessary: for `k ≥ 10` the id
`off + 10·ind + k` belongs to a later group of the table): when group number `ind`
of the table is split in `n ≥ 2` layers and no ceilometer is excluded, the values handed to
`calc_base_height` for the layer `off + 10·ind + k` at report time are exactly the values of mixture
component `k` in the order seen by `ncomp_from_gmm`. -/
theorem layer_selection_eq_component' {α} [DecidableEq α] (K : Kern) (P : PPrms α) (hK : KernOK K P.basePerc)
    (data : List (Hit α)) (gids : List Int) (groups : Table) (hg : IdsExact data gids)
    (hcid : (groups.map (·.cid)).Nodup) (hex : P.exclude = [])
    (lids ncomps : List Int) (h : layerIds K P data gids groups = .ok (lids, ncomps))
    (ind : Nat) (g : Row) (hgi : groups[ind]? = some g) (n : Nat) (hn : ncomps[ind]? = some (n : Int)) (hn2 : 2 ≤ n)
    (minSep : Rat) (hms : minSepFor P.toPrms g.base = .ok minSep)
    (ids : List Nat)
    (hgmm : ncompFromGmm K P (groupHeights K data gids g.cid)
              (min ((groupHeights K data gids g.cid).eraseDups).length 3) minSep = .ok (n, ids))
    (k : Nat) (hk : k < 10) :
    selectSorted K.toMetK data (baseMask P.toPrms data lids (lidOffset gids + 10 * (ind : Int) + (k : Int))) =
      ((groupHeights K data gids g.cid).zip ids).filterMap fun (v, l) => if l = k then some v else none := by
  rw [groupHeights_eq] at hgmm ⊢
  obtain ⟨h30, hrows⟩ := split_rows K P _ hK data gids groups hg hcid lids ncomps h ind g hgi n hn hn2
    minSep hms ids hgmm
  have hne : grpHs data (grpPos K data gids g.cid) ≠ [] := by
    intro he
    rw [he] at h30
    simp at h30
  have h0 := grp_cid_nonneg K hg _ hne
  have hlen := grpHs_length K hg _ h0
  obtain ⟨hil, _, _⟩ := ncompFromGmm_spec K P _ hK _ _ _ _ _ hgmm
  rw [selectSorted_noexcl K.toMetK P.toPrms hex,
    filterMap_filter_of_none (fun i => gids[i]? == some g.cid)]
  · show (grpPos K data gids g.cid).filterMap _ = _
    unfold grpHs
    apply filterMap_zip_sel
    · rw [← hlen, hil]
    · intro i hi
      obtain ⟨y, hy⟩ := exact_height hg i g.cid ((mem_grpPos K data gids g.cid i).mp hi).2 h0
      rw [hy]
      rfl
    · intro j hj hj2
      rw [hrows j hj hj2]
      by_cases hjk : ids[j] = k
      · rw [if_pos hjk, if_pos (by rw [hjk])]
      · rw [if_neg hjk, if_neg]
        intro he
        have := Option.some.inj he
        omega
  · intro i _ hp
    rw [if_neg]
    intro hi
    have := lid_row_group K P _ hK data gids groups hg lids ncomps h ind g hgi k hk i hi
    rw [this] at hp
    simp at hp
/-- The same for the components actually reported (`k < n ≤ 3`). -/
theorem layer_selection_eq_component_lt {α} [DecidableEq α] (K : Kern) (P : PPrms α) (hK : KernOK K P.basePerc)
    (data : List (Hit α)) (gids : List Int) (groups : Table) (hg : IdsExact data gids)
    (hcid : (groups.map (·.cid)).Nodup) (hex : P.exclude = [])
    (lids ncomps : List Int) (h : layerIds K P data gids groups = .ok (lids, ncomps))
    (ind : Nat) (g : Row) (hgi : groups[ind]? = some g) (n : Nat) (hn : ncomps[ind]? = some (n : Int)) (hn2 : 2 ≤ n)
    (minSep : Rat) (hms : minSepFor P.toPrms g.base = .ok minSep)
    (ids : List Nat)
    (hgmm : ncompFromGmm K P (groupHeights K data gids g.cid)
              (min ((groupHeights K data gids g.cid).eraseDups).length 3) minSep = .ok (n, ids))
    (k : Nat) (hk : k < n) :
    selectSorted K.toMetK data (baseMask P.toPrms data lids (lidOffset gids + 10 * (ind : Int) + (k : Int))) =
      ((groupHeights K data gids g.cid).zip ids).filterMap fun (v, l) => if l = k then some v else none := by
  have hgmm' := hgmm
  rw [groupHeights_eq] at hgmm'
  obtain ⟨h30, _⟩ := split_rows K P _ hK data gids groups hg hcid lids ncomps h ind g hgi n hn hn2
    minSep hms ids hgmm'
  have hne : grpHs data (grpPos K data gids g.cid) ≠ [] := by
    intro he
    rw [he] at h30
    simp at h30
  have hm : 1 ≤ min ((grpHs data (grpPos K data gids g.cid)).eraseDups).length 3 := by
    have := eraseDups_length_pos _ hne
    omega
  obtain ⟨_, hle⟩ := ncompFromGmm_range K P hK _ _ minSep n ids hm hgmm'
  exact layer_selection_eq_component' K P hK data gids groups hg hcid hex lids ncomps h ind g hgi n hn hn2
    minSep hms ids hgmm k (by omega)

end Ampy
