import Ampy.Lemmas.Total
import Ampy.Lemmas.RunFacts
/-!
Extensions: range of `ncomp` (behind C20), the split layers of a group are as far apart as its mixture
components when nothing was re-merged (second clause of C06).
-/
namespace Ampy

/-- `ncomp_from_gmm` reports between 1 and `ncompMax` components. -/
theorem ncompFromGmm_range {α} (K : Kern) (P : PPrms α) (hK : KernOK K P.basePerc) (vals : List Rat) (m : Nat)
    (minSep : Rat) (n : Nat) (ids : List Nat) (hm : 1 ≤ m) (h : ncompFromGmm K P vals m minSep = .ok (n, ids)) :
    1 ≤ n ∧ n ≤ m := by
  sorry

/-- The `ncomp` column written by `find_layers` only holds -1, 1, 2 or 3. -/
theorem layerIds_ncomp_range {α} [DecidableEq α] (K : Kern) (P : PPrms α) (hK : KernOK K P.basePerc)
    (data : List (Hit α)) (gids : List Int) (groups : Table) (lids ncomps : List Int)
    (h : layerIds K P data gids groups = .ok (lids, ncomps)) :
    ∀ k ∈ ncomps, k = -1 ∨ k = 1 ∨ k = 2 ∨ k = 3 := by
  sorry

/-- After `run`, every group's `ncomp` is -1, 1, 2 or 3 (the keys of the plot's symbol table). -/
theorem run_ncomp_range {α} [DecidableEq α] (K : Kern) (P : PPrms α) (hK : KernOK K P.basePerc)
    (checked : List (Hit α)) (c : Chunk α) (h : run K P checked = .ok c) (gr : Table) (hg : c.groups = some gr) :
    ∀ g ∈ gr, g.ncomp = some (-1) ∨ g.ncomp = some 1 ∨ g.ncomp = some 2 ∨ g.ncomp = some 3 := by
  sorry

/-- The heights of the hits of group `cid` in the time order returned by the sort (what `find_layers`
hands to `ncomp_from_gmm`). -/
def groupHeights {α} (K : Kern) (data : List (Hit α)) (gids : List Int) (cid : Int) : List Rat :=
  ((K.dtOrder (data.map (·.dt))).filter fun i => gids[i]? == some cid).filterMap fun i => (data[i]?).bind (·.height)

/-- When group number `ind` of the table is split in `n ≥ 2` layers and no ceilometer is excluded, the
values handed to `calc_base_height` for the layer `off + 10·ind + k` at report time are exactly the
values of mixture component `k` in the order seen by `ncomp_from_gmm`: report-time base = decision-time
base (this is what the repair of F2b establishes, for every row order and look-back). -/
theorem layer_selection_eq_component {α} [DecidableEq α] (K : Kern) (P : PPrms α) (hK : KernOK K P.basePerc)
    (data : List (Hit α)) (gids : List Int) (groups : Table) (hg : IdsExact data gids)
    (hcid : (groups.map (·.cid)).Nodup) (hex : P.exclude = [])
    (lids ncomps : List Int) (h : layerIds K P data gids groups = .ok (lids, ncomps))
    (ind : Nat) (g : Row) (hgi : groups[ind]? = some g) (n : Nat) (hn : ncomps[ind]? = some (n : Int)) (hn2 : 2 ≤ n)
    (minSep : Rat) (hms : minSepFor P.toPrms g.base = .ok minSep)
    (ids : List Nat)
    (hgmm : ncompFromGmm K P (groupHeights K data gids g.cid)
              (min ((groupHeights K data gids g.cid).eraseDups).length 3) minSep = .ok (n, ids))
    (k : Nat) :
    selectSorted K.toMetK data (baseMask P.toPrms data lids (lidOffset gids + 10 * (ind : Int) + (k : Int))) =
      ((groupHeights K data gids g.cid).zip ids).filterMap fun (v, l) => if l = k then some v else none := by
  sorry

end Ampy
