import Ampy.Model.Icao
/-! Helper lemmas for C17: the loop equals a recursive specification. -/
namespace Ampy

/-- Recursive form of the 1-3-5 rule: `c` flags were already set below. -/
def specFrom : Nat → List Int → List Bool
  | _, [] => []
  | c, o :: os =>
    if c < 3 ∧ o ≥ 2 * (c : Int) + 1 then true :: specFrom (c + 1) os
    else false :: specFrom c os

theorem sigLoop_eq (os : List Int) : ∀ (lvl : Int) (sig : List Bool),
    lvl = 2 * (sig.count true : Int) →
    sigLoop lvl sig os = sig ++ specFrom (sig.count true) os := by
  induction os with
  | nil => intro lvl sig _; simp [sigLoop, specFrom]
  | cons o os ih =>
    intro lvl sig h
    unfold sigLoop specFrom
    by_cases hc : o > lvl ∧ sig.count true < 3
    · have hc' : sig.count true < 3 ∧ o ≥ 2 * (sig.count true : Int) + 1 := by omega
      rw [if_pos hc, if_pos hc']
      rw [ih (lvl + 2) (sig ++ [true]) (by simp [List.count_append]; omega)]
      simp [List.count_append]
    · have hc' : ¬ (sig.count true < 3 ∧ o ≥ 2 * (sig.count true : Int) + 1) := by omega
      rw [if_neg hc, if_neg hc']
      rw [ih lvl (sig ++ [false]) (by simp [List.count_append]; omega)]
      simp [List.count_append]

theorem significantCloud_eq_spec (os : List Int) : significantCloud os = specFrom 0 os := by
  unfold significantCloud
  rw [sigLoop_eq os 0 [] (by simp)]
  simp

theorem specFrom_length (os : List Int) : ∀ c, (specFrom c os).length = os.length := by
  induction os with
  | nil => intro c; simp [specFrom]
  | cons o os ih => intro c; unfold specFrom; split <;> simp [ih]

theorem specFrom_append (xs ys : List Int) : ∀ c,
    specFrom c (xs ++ ys) = specFrom c xs ++ specFrom (c + (specFrom c xs).count true) ys := by
  induction xs with
  | nil => intro c; simp [specFrom]
  | cons x xs ih =>
    intro c
    simp only [List.cons_append, specFrom]
    split
    · rw [ih (c + 1)]; simp; congr 1; omega
    · rw [ih c]; simp

theorem specFrom_count_le (os : List Int) : ∀ c, c ≤ 3 → c + (specFrom c os).count true ≤ 3 := by
  induction os with
  | nil => intro c h; simp [specFrom]; exact h
  | cons o os ih =>
    intro c h
    unfold specFrom
    split
    · rename_i hc
      have := ih (c + 1) (by omega)
      simp; omega
    · have := ih c h
      simp; omega

/-- Index form: the flag at position `i` is decided by the number of flags before it. -/
theorem specFrom_getElem (os : List Int) : ∀ (c i : Nat) (h : i < os.length),
    ((specFrom c os)[i]'(by rw [specFrom_length]; exact h) = true ↔
      c + ((specFrom c os).take i).count true < 3 ∧
      os[i] ≥ 2 * ((c + ((specFrom c os).take i).count true : Nat) : Int) + 1) := by
  induction os with
  | nil => intro c i h; simp at h
  | cons o os ih =>
    intro c i h
    cases i with
    | zero =>
      simp only [specFrom]
      split <;> rename_i hc
      · simp; omega
      · simp; omega
    | succ i =>
      have h' : i < os.length := by simpa using h
      simp only [specFrom]
      split <;> rename_i hc
      · have := ih (c + 1) i h'
        simp only [List.getElem_cons_succ, List.take_succ_cons, List.count_cons_self]
        rw [this]
        have e : c + 1 + (List.take i (specFrom (c + 1) os)).count true
            = c + ((List.take i (specFrom (c + 1) os)).count true + 1) := by omega
        rw [e]
      · have := ih c i h'
        simp only [List.getElem_cons_succ, List.take_succ_cons]
        rw [this]
        simp

end Ampy
