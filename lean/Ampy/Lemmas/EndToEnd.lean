import Ampy.Lemmas.RunFacts
import Ampy.Lemmas.Msg
import Ampy.Lemmas.Merge
import Ampy.Lemmas.Crop
import Ampy.Lemmas.Total
import Ampy.Model.Stage
/-!
End-to-end composition: the table-level theorems (C01-C04, C06) instantiated on what `run` returns.

Until here the table-level theorems were stated for any table satisfying `TableOK` / any id column
satisfying `IdsOK`, and separate lemmas showed that the cascade produces such tables and columns.  This file
closes the chain once and for all: the only hypotheses left are those of the properties' quantifier
(`Accepted`: hit heights in the physical range, parameters inside their documented meaning, third-party
answers of the documented shape).
-/
namespace Ampy

/-- The quantifier of the processing properties: accepted input in the physical range, parameters inside
their documented meaning, third-party answers of the documented shape. -/
structure Accepted {α} (K : Kern) (P : PPrms α) (checked : List (Hit α)) : Prop where
  kern : KernOK K P.basePerc
  prms : PrmsOK P
  range : HeightsInRange checked

/-! ### cropping keeps the heights in range -/

theorem cropRows_inRange {α} (lim : Rat) (d : List (Hit α)) (h : HeightsInRange d) :
    HeightsInRange (cropRows lim d) := by
  intro x hx y hy
  rw [cropRows_eq, List.mem_filterMap] at hx
  obtain ⟨x0, hx0, hc⟩ := hx
  unfold cropOne at hc
  split at hc
  · split at hc
    · cases hc; simp at hy
    · cases hc
  · cases hc; exact h x hx0 y hy

theorem crop_inRange {α} (P : Prms α) (d : List (Hit α)) (h : HeightsInRange d) :
    HeightsInRange (crop P d).1 := by
  unfold crop
  split
  · exact h
  · exact cropRows_inRange _ d h

/-! ### the bookkeeping columns `isolated` and `ncomp` do not touch what `TableOK` reads -/

theorem TableOK_of_map {t t' : Table} (h : TableOK t)
    (hl : t'.length = t.length)
    (hrow : ∀ i (hi : i < t'.length), (t'[i]).base = (t[i]'(hl ▸ hi)).base ∧ (t'[i]).okta = (t[i]'(hl ▸ hi)).okta ∧
      (t'[i]).code = (t[i]'(hl ▸ hi)).code ∧ (t'[i]).significant = (t[i]'(hl ▸ hi)).significant) :
    TableOK t' := by
  have hb : t'.map (·.base) = t.map (·.base) := by
    apply List.ext_getElem (by simp [hl])
    intro i h1 h2
    simp only [List.getElem_map]
    exact (hrow i (by simpa using h1)).1
  have ho : t'.map (·.okta) = t.map (·.okta) := by
    apply List.ext_getElem (by simp [hl])
    intro i h1 h2
    simp only [List.getElem_map]
    exact (hrow i (by simpa using h1)).2.1
  have hs : t'.map (·.significant) = t.map (·.significant) := by
    apply List.ext_getElem (by simp [hl])
    intro i h1 h2
    simp only [List.getElem_map]
    exact (hrow i (by simpa using h1)).2.2.2
  have hmem : ∀ r' ∈ t', ∃ r ∈ t, r'.base = r.base ∧ r'.okta = r.okta ∧ r'.code = r.code := by
    intro r' hr'
    obtain ⟨i, hi, rfl⟩ := List.getElem_of_mem hr'
    exact ⟨t[i]'(hl ▸ hi), List.getElem_mem _, (hrow i hi).1, (hrow i hi).2.1, (hrow i hi).2.2.1⟩
  refine ⟨?_, ?_, ?_, ?_, ?_⟩
  · have h1 : (t.map (·.base)).Pairwise (· ≤ ·) := List.pairwise_map.mpr h.sorted
    rw [← hb] at h1
    exact List.pairwise_map.mp h1
  · rw [hs, ho]; exact h.flags
  · intro r' hr'
    obtain ⟨r, hr, e1, e2, e3⟩ := hmem r' hr'
    rw [e1, e2, e3]; exact h.codes r hr
  · intro r' hr'
    obtain ⟨r, hr, _, e2, _⟩ := hmem r' hr'
    rw [e2]; exact h.oktas r hr
  · intro r' hr'
    obtain ⟨r, hr, e1, _, _⟩ := hmem r' hr'
    rw [e1]; exact h.bases r hr

theorem TableOK_setIsolated (t : Table) (iso : List Bool) (h : TableOK t) : TableOK (setIsolated t iso) := by
  rw [setIsolated_eq]
  apply TableOK_of_map h (by simp)
  intro i hi
  simp

theorem TableOK_setNcomp (t : Table) (nc : List Int) (h : TableOK t) : TableOK (setNcomp t nc) := by
  rw [setNcomp_eq]
  apply TableOK_of_map h (by simp)
  intro i hi
  simp

/-! ### every table of a successful run -/

/-- For every level `w`, the chunk `run` returns holds an id column that assigns every valid hit, and a
table that satisfies `TableOK` and has `n_slices/n_groups/n_layers` rows. -/
theorem run_tableOK {α} [DecidableEq α] (K : Kern) (P : PPrms α) (checked : List (Hit α))
    (hA : Accepted K P checked) (c : Chunk α) (h : run K P checked = .ok c) (w : Which) :
    ∃ t ids, tableOf c w = some t ∧ idsOf c w = some ids ∧ IdsExact c.data ids ∧ TableOK t ∧
      nWhich ids = t.length ∧ (t.map (·.cid)).Perm (clusterIds ids) := by
  obtain ⟨hd, _, sids, sl, gids, iso, gr, lids, nc, lay, hs, hsl, hg, hgr, hl, hlay, e1, e2, e3, e4, e5, e6⟩ :=
    run_parts K P checked c h
  have hK := hA.kern
  have hr : HeightsInRange c.data := by rw [hd]; exact crop_inRange P.toPrms checked hA.range
  have x1 := sliceIds_exact K P c.data _ hK sids hs
  have x2 := groupIds_exact K P c.data _ hK sids sl x1 gids iso hg
  have x3 := layerIds_exact K P c.data _ hK gids gr x2 lids nc hl
  have t1 := metarize_tableOK K.toMetK P.toPrms .slices false c.data sids hK.met x1.toOK hr hA.prms.t0 sl hsl
  have t2 := metarize_tableOK K.toMetK P.toPrms .groups false c.data gids hK.met x2.toOK hr hA.prms.t0 gr hgr
  have t3 := metarize_tableOK K.toMetK P.toPrms .layers true c.data lids hK.met x3.toOK hr hA.prms.t0 lay hlay
  have c1 := metarize_cids K.toMetK P.toPrms .slices false c.data sids hK.met sl hsl
  have c2 := metarize_cids K.toMetK P.toPrms .groups false c.data gids hK.met gr hgr
  have c3 := metarize_cids K.toMetK P.toPrms .layers true c.data lids hK.met lay hlay
  cases w with
  | slices =>
    refine ⟨setIsolated sl iso, sids, e4, e1, x1, TableOK_setIsolated sl iso t1, ?_, ?_⟩
    · rw [nWhich_eq sids x1.toOK.ge, ← c1.length_eq, List.length_map, setIsolated_eq, List.length_mapIdx]
    · rw [setIsolated_map_cid]; exact c1
  | groups =>
    refine ⟨setNcomp gr nc, gids, e5, e2, x2, TableOK_setNcomp gr nc t2, ?_, ?_⟩
    · rw [nWhich_eq gids x2.toOK.ge, ← c2.length_eq, List.length_map, setNcomp_eq, List.length_mapIdx]
    · rw [setNcomp_map_cid]; exact c2
  | layers =>
    refine ⟨lay, lids, e6, e3, x3, t3, ?_, c3⟩
    rw [nWhich_eq lids x3.toOK.ge, ← c3.length_eq, List.length_map]

/-- `metar_msg(which)` on the chunk `run` returns never refuses, and its value is `metarMsg` of a table
satisfying `TableOK` with the chunk's own MSA and high-cloud flag. -/
theorem run_msg {α} [DecidableEq α] (K : Kern) (P : PPrms α) (checked : List (Hit α))
    (hA : Accepted K P checked) (c : Chunk α) (h : run K P checked = .ok c) (w : Which) :
    ∃ t, tableOf c w = some t ∧ TableOK t ∧ metarMsgOp P c w = .ok (metarMsg P.msa c.flag t.length t) := by
  obtain ⟨t, ids, ht, hi, _, hok, hn, _⟩ := run_tableOK K P checked hA c h w
  refine ⟨t, ht, hok, ?_⟩
  unfold metarMsgOp
  rw [ht, hi]
  simp only [hn]

/-- The high-cloud flag of the chunk is the one the property prescribes: raised exactly when an MSA is set
and the number of input hits above MSA + buffer exceeds MAX_HITS_OKTA0. -/
theorem run_flag_iff {α} [DecidableEq α] (K : Kern) (P : PPrms α) (checked : List (Hit α))
    (c : Chunk α) (h : run K P checked = .ok c) :
    c.flag = true ↔ ∃ m, P.msa = some m ∧
      (((checked.filter (aboveLim (m + P.msaBuf))).length : Nat) : Rat) > P.t0 := by
  rw [(run_parts K P checked c h).flag]
  unfold crop
  cases hm : P.msa with
  | none => simp
  | some m => simp

/-- The groups `run` reports are pairwise separated by the minimum separation of the upper one's bin. -/
theorem run_groups_separated {α} [DecidableEq α] (K : Kern) (P : PPrms α) (checked : List (Hit α))
    (hA : Accepted K P checked) (hn : SepNonneg P.toPrms) (c : Chunk α) (h : run K P checked = .ok c)
    (gr : Table) (hg : c.groups = some gr) :
    ∀ r₁ ∈ gr, ∀ r₂ ∈ gr, r₁.cid ≠ r₂.cid → r₁.base ≤ r₂.base →
      ∃ s, minSepFor P.toPrms r₂.base = .ok s ∧ r₂.base - r₁.base ≥ s := by
  obtain ⟨_, _, sids, sl, gids, iso, gr0, lids, nc, lay, hs, hsl, hgi, hgr, hl, hlay, e1, e2, e3, e4, e5, e6⟩ :=
    run_parts K P checked c h
  rw [e5] at hg
  cases hg
  -- decompose groupIds into the merge of the filled column
  unfold groupIds at hgi
  simp only [bind, Except.bind, pure, Except.pure] at hgi
  split at hgi
  · cases hgi
  · rename_i g1 hg1
    split at hgi
    · cases hgi
    · rename_i merged hm
      cases hgi
      have key := groups_table_separated K P c.data P.basePerc hA.kern hA.prms.sep hn _ _ hm gr0 hgr
      -- rows of `setNcomp gr0 nc` are rows of `gr0` up to the `ncomp` column
      have hrow : ∀ r ∈ setNcomp gr0 nc, ∃ r₀ ∈ gr0, r.cid = r₀.cid ∧ r.base = r₀.base := by
        intro r hr
        obtain ⟨i, hi, rfl⟩ := List.getElem_of_mem hr
        obtain ⟨r₀, h0, he⟩ := setNcomp_getElem? gr0 nc i _ (List.getElem?_eq_getElem hi)
        exact ⟨r₀, List.mem_of_getElem? h0, by rw [he], by rw [he]⟩
      intro r₁ h₁ r₂ h₂ hne hle
      obtain ⟨a, ha, ca, ba⟩ := hrow r₁ h₁
      obtain ⟨b, hb, cb, bb⟩ := hrow r₂ h₂
      rw [ba, bb]
      exact key a ha b hb (by rw [← ca, ← cb]; exact hne) (by rw [← ba, ← bb]; exact hle)

theorem row_core_iso (r r₀ : Row) (x : Option Bool) (he : r = { r₀ with significant := r.significant }) :
    ({ r with isolated := x } : Row) =
      { r₀ with significant := r.significant, isolated := x, ncomp := r.ncomp } := by
  cases r; cases r₀; simp only [Row.mk.injEq] at he ⊢; simp_all

theorem row_core_ncomp (r r₀ : Row) (x : Option Int) (he : r = { r₀ with significant := r.significant }) :
    ({ r with ncomp := x } : Row) =
      { r₀ with significant := r.significant, isolated := r.isolated, ncomp := x } := by
  cases r; cases r₀; simp only [Row.mk.injEq] at he ⊢; simp_all

theorem row_core_id (r r₀ : Row) (he : r = { r₀ with significant := r.significant }) :
    r = { r₀ with significant := r.significant, isolated := r.isolated, ncomp := r.ncomp } := by
  cases r; cases r₀; simp only [Row.mk.injEq] at he ⊢; simp_all

/-- Every row of every table of a successful run is what `mkRow` computes for its cluster id from the
chunk's data and id column, up to the three bookkeeping columns (`significant`, `isolated`, `ncomp`). -/
theorem run_rows {α} [DecidableEq α] (K : Kern) (P : PPrms α) (checked : List (Hit α))
    (hA : Accepted K P checked) (c : Chunk α) (h : run K P checked = .ok c) (w : Which) :
    ∃ t ids, tableOf c w = some t ∧ idsOf c w = some ids ∧ IdsExact c.data ids ∧
      ∀ r ∈ t, r.cid ∈ clusterIds ids ∧ ∃ r₀, mkRow K.toMetK P.toPrms w c.data ids r.cid = .ok r₀ ∧
        r = { r₀ with significant := r.significant, isolated := r.isolated, ncomp := r.ncomp } := by
  obtain ⟨hd, _, sids, sl, gids, iso, gr, lids, nc, lay, hs, hsl, hg, hgr, hl, hlay, e1, e2, e3, e4, e5, e6⟩ :=
    run_parts K P checked c h
  have hK := hA.kern
  have x1 := sliceIds_exact K P c.data _ hK sids hs
  have x2 := groupIds_exact K P c.data _ hK sids sl x1 gids iso hg
  have x3 := layerIds_exact K P c.data _ hK gids gr x2 lids nc hl
  have r1 := metarize_rows K.toMetK P.toPrms .slices false c.data sids hK.met sl hsl
  have r2 := metarize_rows K.toMetK P.toPrms .groups false c.data gids hK.met gr hgr
  have r3 := metarize_rows K.toMetK P.toPrms .layers true c.data lids hK.met lay hlay
  cases w with
  | slices =>
    refine ⟨setIsolated sl iso, sids, e4, e1, x1, ?_⟩
    intro r hr
    rw [setIsolated_eq] at hr
    obtain ⟨i, hi, rfl⟩ := List.getElem_of_mem hr
    simp only [List.getElem_mapIdx]
    rw [List.length_mapIdx] at hi
    obtain ⟨hc, r₀, hm, he⟩ := r1 (sl[i]) (List.getElem_mem hi)
    exact ⟨hc, r₀, hm, row_core_iso _ r₀ _ he⟩
  | groups =>
    refine ⟨setNcomp gr nc, gids, e5, e2, x2, ?_⟩
    intro r hr
    rw [setNcomp_eq] at hr
    obtain ⟨i, hi, rfl⟩ := List.getElem_of_mem hr
    simp only [List.getElem_mapIdx]
    rw [List.length_mapIdx] at hi
    obtain ⟨hc, r₀, hm, he⟩ := r2 (gr[i]) (List.getElem_mem hi)
    exact ⟨hc, r₀, hm, row_core_ncomp _ r₀ _ he⟩
  | layers =>
    refine ⟨lay, lids, e6, e3, x3, ?_⟩
    intro r hr
    obtain ⟨hc, r₀, hm, he⟩ := r3 r hr
    exact ⟨hc, r₀, hm, row_core_id r r₀ he⟩

end Ampy
