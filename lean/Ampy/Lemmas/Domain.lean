import Ampy.Lemmas.Total
/-!
Behind C08 (kernel pre-conditions): the cascade only ever consults a third-party kernel inside its documented
domain.  Stated extensionally: two kernels that agree on every argument inside the documented domains give
the same run — so whatever a kernel would answer (or raise) outside its domain is never observed.
-/
namespace Ampy

/-- Agreement of two kernels on the documented domains:
 * agglomerative clustering: at least 2 points (scikit-learn refuses fewer);
 * Gaussian mixture: at least 30 values and `1 ≤ n ≤ 3` components;
 * `np.percentile`: a non-empty array;
 * LOWESS: at least 2 points;
 * sorts, `argsort`, `best_gmm`: any argument. -/
structure KernAgree (K K' : Kern) : Prop where
  dtOrder : ∀ l, K.dtOrder l = K'.dtOrder l
  baseOrder : ∀ l, K.baseOrder l = K'.baseOrder l
  prelimOrder : ∀ l, K.prelimOrder l = K'.prelimOrder l
  ptsOrder : ∀ l, K.ptsOrder l = K'.ptsOrder l
  argsort : ∀ l, K.argsort l = K'.argsort l
  bestProb : ∀ l mp, K.bestProb l mp = K'.bestProb l mp
  pctl : ∀ l q, l ≠ [] → K.pctl l q = K'.pctl l q
  lowess : ∀ pts, 2 ≤ pts.length → K.lowess pts = K'.lowess pts
  cluster : ∀ lk thr pts, 2 ≤ pts.length → K.cluster lk thr pts = K'.cluster lk thr pts
  gmm : ∀ sc vals n, 30 ≤ vals.length → 1 ≤ n → n ≤ 3 → K.gmm sc vals n = K'.gmm sc vals n

/-- `ptsOrder` returns a permutation of the positions (so LOWESS receives as many points as the set has). -/
def PtsOrderOK (K : Kern) : Prop := ∀ l, isPermOf (K.ptsOrder l) l.length = true

/-- The table of one level only consults `np.percentile` on non-empty selections and LOWESS on at least two
points, for id columns meeting the id invariants. -/
theorem metarize_agree {α} [DecidableEq α] (K K' : Kern) (P : Prms α) (w : Which) (ld : Bool) (data : List (Hit α))
    (ids : List Int) (hA : KernAgree K K') (hK : MetKOK K.toMetK P.basePerc) (hp : PtsOrderOK K) (h : IdsOK data ids)
    (ht0 : 0 ≤ P.t0) :
    metarize K.toMetK P w ld data ids = metarize K'.toMetK P w ld data ids := by
  sorry

/-- The whole cascade only consults the kernels inside their documented domains. -/
theorem run_agree {α} [DecidableEq α] (K K' : Kern) (P : PPrms α) (checked : List (Hit α)) (hA : KernAgree K K')
    (hK : KernOK K P.basePerc) (hp : PtsOrderOK K) (hP : PrmsOK P) :
    run K P checked = run K' P checked := by
  sorry

end Ampy
