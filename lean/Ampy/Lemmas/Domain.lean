import Ampy.Lemmas.Total
import Ampy.Lemmas.Rename
/-!
Behind C08 (kernel pre-conditions): the cascade only ever consults a third-party kernel inside its documented
domain.  Stated extensionally: two kernels that agree on every argument inside the documented domains give
the same run — so whatever a kernel would answer (or raise) outside its domain is never observed.
-/
namespace Ampy

/-- Agreement of two kernels on the documented domains:
 * agglomerative clustering: at least 2 points (scikit-learn refuses fewer);
 * Gaussian mixture: at least 30 values and `1 ≤ n ≤ 3` components;
 * `np.percentile`: a non-empty array;
 * LOWESS: at least 2 points;
 * sorts, `argsort`, `best_gmm`: any argument. -/
structure KernAgree (K K' : Kern) : Prop where
  dtOrder : ∀ l, K.dtOrder l = K'.dtOrder l
  baseOrder : ∀ l, K.baseOrder l = K'.baseOrder l
  prelimOrder : ∀ l, K.prelimOrder l = K'.prelimOrder l
  ptsOrder : ∀ l, K.ptsOrder l = K'.ptsOrder l
  argsort : ∀ l, K.argsort l = K'.argsort l
  bestProb : ∀ l mp, K.bestProb l mp = K'.bestProb l mp
  pctl : ∀ l q, l ≠ [] → K.pctl l q = K'.pctl l q
  lowess : ∀ pts, 2 ≤ pts.length → K.lowess pts = K'.lowess pts
  cluster : ∀ lk thr pts, 2 ≤ pts.length → K.cluster lk thr pts = K'.cluster lk thr pts
  gmm : ∀ sc vals n, 30 ≤ vals.length → 1 ≤ n → n ≤ 3 → K.gmm sc vals n = K'.gmm sc vals n

/-- `ptsOrder` returns a permutation of the positions (so LOWESS receives as many points as the set has). -/
def PtsOrderOK (K : Kern) : Prop := ∀ l, isPermOf (K.ptsOrder l) l.length = true

/-! ### generic congruences -/

theorem mapM_congr_mem {ε β γ} (f g : β → Except ε γ) :
    ∀ (l : List β), (∀ c ∈ l, f c = g c) → l.mapM f = l.mapM g
  | [], _ => by rw [List.mapM_nil, List.mapM_nil]
  | a :: l, h => by
    rw [List.mapM_cons, List.mapM_cons, h a List.mem_cons_self,
      mapM_congr_mem f g l (fun c hc => h c (List.mem_cons_of_mem _ hc))]

/-! ### `metarize` -/

/-- `np.percentile` is reached only behind the emptiness test of `calc_base_height`. -/
theorem calcBase_agree {K K' : Kern} (hA : KernAgree K K') (vals : List Rat) (lb q : Rat) :
    calcBase K.pctl vals lb q = calcBase K'.pctl vals lb q := by
  unfold calcBase
  simp only
  split
  · rfl
  · rename_i h
    rw [hA.pctl _ _ (fun he => h (by rw [he]; rfl))]

theorem selectSorted_agree {α} {K K' : Kern} (hA : KernAgree K K') (data : List (Hit α)) (mask : List Bool) :
    selectSorted K.toMetK data mask = selectSorted K'.toMetK data mask := by
  unfold selectSorted
  rw [hA.dtOrder]

theorem baseForMask_agree {α} {K K' : Kern} (hA : KernAgree K K') (P : Prms α) (data : List (Hit α))
    (mask : List Bool) : baseForMask K.toMetK P data mask = baseForMask K'.toMetK P data mask := by
  unfold baseForMask
  rw [selectSorted_agree hA, calcBase_agree hA]

/-- LOWESS receives as many points as the set has: at least two, unless there is exactly one (no call). -/
theorem fluffiness_agree {K K' : Kern} (hA : KernAgree K K') (hp : PtsOrderOK K) (pts : List (Rat × Rat))
    (hne : pts ≠ []) : fluffiness K.toMetK pts = fluffiness K'.toMetK pts := by
  unfold fluffiness
  split
  · rfl
  · rename_i h1
    simp only
    rw [← hA.ptsOrder]
    have hlen : (applyPerm (K.ptsOrder (pts.map (·.1))) pts).length = pts.length :=
      (applyPerm_perm _ _ (by have := hp (pts.map (·.1)); rwa [List.length_map] at this)).length_eq
    have h2 : 2 ≤ (applyPerm (K.ptsOrder (pts.map (·.1))) pts).length := by
      rw [hlen]
      have := List.length_pos_iff.mpr hne
      omega
    rw [← hA.lowess _ h2]

theorem mkRow_agree {α} [DecidableEq α] {K K' : Kern} (hA : KernAgree K K') (hp : PtsOrderOK K) (P : Prms α)
    (w : Which) (data : List (Hit α)) (ids : List Int) (cid : Int) (h : IdsOK data ids)
    (hc : cid ∈ clusterIds ids) :
    mkRow K.toMetK P w data ids cid = mkRow K'.toMetK P w data ids cid := by
  have hne : ((members data ids cid).filterMap fun h => h.height.map fun y => (h.dt, y)) ≠ [] := by
    obtain ⟨m, hm, y, hy⟩ := members_ne_nil data ids cid h hc
    apply List.ne_nil_of_mem (a := (m.dt, y))
    rw [List.mem_filterMap]
    exact ⟨m, hm, by rw [hy]; rfl⟩
  unfold mkRow
  simp only []
  rw [← baseForMask_agree hA, ← fluffiness_agree hA hp _ hne]

/-- The table of one level only consults `np.percentile` on non-empty selections and LOWESS on at least two
points, for id columns meeting the id invariants. -/
theorem metarize_agree {α} [DecidableEq α] (K K' : Kern) (P : Prms α) (w : Which) (ld : Bool) (data : List (Hit α))
    (ids : List Int) (hA : KernAgree K K') (hK : MetKOK K.toMetK P.basePerc) (hp : PtsOrderOK K) (h : IdsOK data ids)
    (ht0 : 0 ≤ P.t0) :
    metarize K.toMetK P w ld data ids = metarize K'.toMetK P w ld data ids := by
  have _ := hK
  have _ := ht0
  unfold metarize
  simp only []
  rw [mapM_congr_mem (mkRow K.toMetK P w data ids) (mkRow K'.toMetK P w data ids) (clusterIds ids)
    (fun c hc => mkRow_agree hA hp P w data ids c h hc)]
  have hb : K.baseOrder = K'.baseOrder := funext hA.baseOrder
  rw [hb]

/-! ### `find_slices`, `find_groups` -/

/-- Slicing clusters only when more than one hit has a height, and hands over one point per such hit. -/
theorem sliceIds_agree {α} {K K' : Kern} (hA : KernAgree K K') (P : PPrms α) (data : List (Hit α)) :
    sliceIds K P data = sliceIds K' P data := by
  unfold sliceIds
  simp only []
  split
  · rfl
  · split
    · rename_i h1 h2
      cases hpts : scaledPoints data P.sliceDtScale P.sliceHScale (data.map fun _ => true) with
      | error e => simp only [error_bind]
      | ok pts =>
        have hl := scaledPoints_length data _ _ pts hpts
        simp only [ok_bind]
        rw [hA.cluster _ _ _ (by omega)]
    · rfl

/-- Grouping clusters a bundle only when it has at least two hits. -/
theorem groupBundle_agree {α} {K K' : Kern} (hA : KernAgree K K') (P : PPrms α) (data : List (Hit α))
    (sids : List Int) (slices : Table) (bundle : List Nat) (gids : List (Option Int)) :
    groupBundle K P data sids slices bundle gids = groupBundle K' P data sids slices bundle gids := by
  unfold groupBundle
  simp only []
  generalize scaledPoints data P.grpDtScale _ _ = sp
  cases sp with
  | error e => simp only [error_bind]
  | ok pts =>
    simp only [ok_bind]
    split
    · rfl
    · rename_i h
      rw [hA.cluster _ _ _ (by omega)]

theorem groupBase_agree {α} [DecidableEq α] {K K' : Kern} (hA : KernAgree K K') (P : PPrms α)
    (data : List (Hit α)) (gids : List Int) (cid : Int) :
    groupBase K P data gids cid = groupBase K' P data gids cid := by
  unfold groupBase
  rw [baseForMask_agree hA]

theorem mergeLoop_agree {α} [DecidableEq α] {K K' : Kern} (hA : KernAgree K K') (P : PPrms α)
    (data : List (Hit α)) : ∀ (fuel : Nat) (gids : List Int) (prelim : List (Int × Rat)),
    mergeLoop K P data fuel gids prelim = mergeLoop K' P data fuel gids prelim := by
  intro fuel
  induction fuel with
  | zero => intro gids prelim; rfl
  | succ n ih =>
    intro gids prelim
    rw [mergeLoop, mergeLoop]
    simp only [groupBase_agree hA, ih]

theorem mergeCloseGroups_agree {α} [DecidableEq α] {K K' : Kern} (hA : KernAgree K K') (P : PPrms α)
    (data : List (Hit α)) (gids : List Int) :
    mergeCloseGroups K P data gids = mergeCloseGroups K' P data gids := by
  unfold mergeCloseGroups
  have h1 : groupBase K P data gids = groupBase K' P data gids := funext (groupBase_agree hA P data gids)
  have h2 : K.prelimOrder = K'.prelimOrder := funext hA.prelimOrder
  rw [h1, h2]
  simp only [mergeLoop_agree hA]

theorem groupIds_agree {α} [DecidableEq α] {K K' : Kern} (hA : KernAgree K K') (P : PPrms α)
    (data : List (Hit α)) (sids : List Int) (slices : Table) :
    groupIds K P data sids slices = groupIds K' P data sids slices := by
  unfold groupIds
  simp only [groupBundle_agree hA, mergeCloseGroups_agree hA]

/-! ### `find_layers` -/

/-- The mixtures are fitted on as many (rescaled) values as handed in, with `1 .. ncomp_max` components. -/
theorem ncompFromGmm_agree {α} {K K' : Kern} (hA : KernAgree K K') (P : PPrms α) (vals : List Rat) (m : Nat)
    (minSep : Rat) (h30 : 30 ≤ vals.length) (hm : m ≤ 3) :
    ncompFromGmm K P vals m minSep = ncompFromGmm K' P vals m minSep := by
  have hf : ∀ sc : List Rat, sc.length = vals.length →
      ((List.range (min m (vals.eraseDups).length)).map fun i => K.gmm P.gmmScores sc (i + 1)) =
      ((List.range (min m (vals.eraseDups).length)).map fun i => K'.gmm P.gmmScores sc (i + 1)) := by
    intro sc hsc
    apply List.map_congr_left
    intro i hi
    have := List.mem_range.mp hi
    exact hA.gmm _ _ _ (by omega) (by omega) (by omega)
  have e1 : K.bestProb = K'.bestProb := funext fun l => funext fun mp => hA.bestProb l mp
  have e2 : K.argsort = K'.argsort := funext hA.argsort
  have e3 : calcBase K.pctl = calcBase K'.pctl :=
    funext fun v => funext fun lb => funext fun q => calcBase_agree hA v lb q
  unfold ncompFromGmm
  generalize P.gmmRescale = r
  cases r with
  | none =>
    simp only []
    rw [hf vals rfl, e1, e2, e3]
  | some x =>
    simp only []
    rw [hf _ (Lay.gmmScaled_length (some x) vals), e1, e2, e3]

theorem layerStep_agree {α} {K K' : Kern} (hA : KernAgree K K') (P : PPrms α) (data : List (Hit α))
    (gids : List Int) (groups : Table) (st : List (Option Int) × List Int) (ind : Nat) :
    Lay.layerStep K P data gids groups st ind = Lay.layerStep K' P data gids groups st ind := by
  have hpos : ∀ cid, Lay.grpPos K data gids cid = Lay.grpPos K' data gids cid := by
    intro cid
    unfold Lay.grpPos
    rw [hA.dtOrder]
  unfold Lay.layerStep
  simp only [hpos]
  cases groups[ind]? with
  | none => rfl
  | some g =>
    simp only []
    split
    · rfl
    · rename_i hc
      simp only [Bool.or_eq_true, decide_eq_true_eq, not_or, not_lt] at hc
      have hn := fun ms => ncompFromGmm_agree hA P (Lay.grpHs data (Lay.grpPos K' data gids g.cid))
        (min ((Lay.grpHs data (Lay.grpPos K' data gids g.cid)).eraseDups).length 3) ms hc.1.2
        (Nat.min_le_right _ _)
      simp only [hn]

theorem layerIds_agree {α} [DecidableEq α] {K K' : Kern} (hA : KernAgree K K') (P : PPrms α)
    (data : List (Hit α)) (gids : List Int) (groups : Table) :
    layerIds K P data gids groups = layerIds K' P data gids groups := by
  rw [Lay.layerIds_eq, Lay.layerIds_eq]
  have : Lay.layerStep K P data gids groups = Lay.layerStep K' P data gids groups :=
    funext fun st => funext fun ind => layerStep_agree hA P data gids groups st ind
  rw [this]

/-! ### the stages -/

/-- The slice id column of a chunk, when present, meets the strong id invariant. -/
def SidsExact {α} (c : Chunk α) : Prop := ∀ sids, c.sids = some sids → IdsExact c.data sids

/-- The group id column of a chunk, when present, meets the strong id invariant. -/
def GidsExact {α} (c : Chunk α) : Prop := ∀ gids, c.gids = some gids → IdsExact c.data gids

theorem findSlices_agree {α} [DecidableEq α] {K K' : Kern} (hA : KernAgree K K') (P : PPrms α)
    (hK : KernOK K P.basePerc) (hp : PtsOrderOK K) (hP : PrmsOK P) (c : Chunk α) :
    findSlices K P c = findSlices K' P c := by
  unfold findSlices
  rw [← sliceIds_agree hA]
  cases hs : sliceIds K P c.data with
  | error e => simp only [error_bind]
  | ok sids =>
    simp only [ok_bind]
    rw [metarize_agree K K' P.toPrms .slices _ c.data sids hA hK.met hp
      (sliceIds_exact K P c.data P.basePerc hK sids hs).toOK hP.t0]

theorem findSlices_sids {α} [DecidableEq α] (K : Kern) (P : PPrms α) (hK : KernOK K P.basePerc)
    (c c1 : Chunk α) (h : findSlices K P c = .ok c1) : SidsExact c1 := by
  unfold findSlices at h
  simp only [bind, Except.bind, pure, Except.pure] at h
  split at h
  · cases h
  · rename_i sids hs
    split at h
    · cases h
    · cases h
      intro s hs'
      cases hs'
      exact sliceIds_exact K P c.data P.basePerc hK sids hs

theorem throw_bind {γ δ : Type} (e : AmpyErr) (g : γ → Except AmpyErr δ) :
    ((throw e : Except AmpyErr γ) >>= g) = Except.error e := rfl

theorem findGroups_agree {α} [DecidableEq α] {K K' : Kern} (hA : KernAgree K K') (P : PPrms α)
    (hK : KernOK K P.basePerc) (hp : PtsOrderOK K) (hP : PrmsOK P) (c : Chunk α) (hc : SidsExact c) :
    findGroups K P c = findGroups K' P c := by
  unfold findGroups
  cases hsi : c.sids with
  | none => cases hsl : c.slices <;> simp only []
  | some sids =>
    cases hsl : c.slices with
    | none => simp only []
    | some sl =>
      simp only []
      split
      · simp only [throw_bind]
      · rw [← groupIds_agree hA]
        cases hg : groupIds K P c.data sids sl with
        | error e => simp only [error_bind]
        | ok r =>
          obtain ⟨gids, iso⟩ := r
          simp only [ok_bind]
          rw [metarize_agree K K' P.toPrms .groups false c.data gids hA hK.met hp
            (groupIds_exact K P c.data P.basePerc hK sids sl (hc sids hsi) gids iso hg).toOK hP.t0]

theorem findGroups_gids {α} [DecidableEq α] (K : Kern) (P : PPrms α) (hK : KernOK K P.basePerc)
    (c c2 : Chunk α) (hc : SidsExact c) (h : findGroups K P c = .ok c2) : GidsExact c2 := by
  unfold findGroups at h
  cases hsl : c.slices with
  | none => rw [hsl] at h; cases h
  | some sl =>
    cases hsi : c.sids with
    | none => rw [hsl, hsi] at h; cases h
    | some sids =>
      rw [hsl, hsi] at h
      simp only [bind, Except.bind, pure, Except.pure] at h
      split at h
      · cases h
      · split at h
        · cases h
        · rename_i r hg
          obtain ⟨gids, iso⟩ := r
          simp only at h
          split at h
          · cases h
          · cases h
            intro g hg'
            cases hg'
            exact groupIds_exact K P c.data P.basePerc hK sids sl (hc sids hsi) gids iso hg

theorem findLayers_agree {α} [DecidableEq α] {K K' : Kern} (hA : KernAgree K K') (P : PPrms α)
    (hK : KernOK K P.basePerc) (hp : PtsOrderOK K) (hP : PrmsOK P) (c : Chunk α) (hc : GidsExact c) :
    findLayers K P c = findLayers K' P c := by
  unfold findLayers
  cases hgi : c.gids with
  | none => cases hgr : c.groups <;> simp only []
  | some gids =>
    cases hgr : c.groups with
    | none => simp only []
    | some gr =>
      simp only []
      rw [← layerIds_agree hA]
      cases hl : layerIds K P c.data gids gr with
      | error e => simp only [error_bind]
      | ok r =>
        obtain ⟨lids, nc⟩ := r
        simp only [ok_bind]
        rw [metarize_agree K K' P.toPrms .layers true c.data lids hA hK.met hp
          (layerIds_exact K P c.data P.basePerc hK gids gr (hc gids hgi) lids nc hl).toOK hP.t0]

/-- The whole cascade only consults the kernels inside their documented domains. -/
theorem run_agree {α} [DecidableEq α] (K K' : Kern) (P : PPrms α) (checked : List (Hit α)) (hA : KernAgree K K')
    (hK : KernOK K P.basePerc) (hp : PtsOrderOK K) (hP : PrmsOK P) :
    run K P checked = run K' P checked := by
  unfold run
  simp only []
  rw [← findSlices_agree hA P hK hp hP]
  cases h1 : findSlices K P (construct P checked) with
  | error e => simp only [error_bind]
  | ok c1 =>
    have hc1 := findSlices_sids K P hK _ c1 h1
    simp only [ok_bind]
    rw [← findGroups_agree hA P hK hp hP c1 hc1]
    cases h2 : findGroups K P c1 with
    | error e => simp only [error_bind]
    | ok c2 =>
      simp only [ok_bind]
      exact findLayers_agree hA P hK hp hP c2 (findGroups_gids K P hK c1 c2 hc1 h2)

end Ampy
