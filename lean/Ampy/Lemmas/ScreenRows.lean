import Ampy.Lemmas.Screen
/-! The part of `screen` that `runFrom` reads: the refusal, or the checked rows.  It depends only on the
number of rows and on the cells of the four columns. -/
namespace Ampy

/-- The refusal of `screen`, or the rows of the checked frame (index and warnings dropped). -/
def screenRows {α} [DecidableEq α] (arg : PyArg α) : Except AmpyErr (List (Hit α)) :=
  match screen arg with
  | .error e => .error e
  | .ok (c, _) => .ok c.rows

theorem runFrom_eq {α} [DecidableEq α] (K : Kern) (P : PPrms α) (arg : PyArg α) :
    runFrom K P arg = (match screenRows arg with | .error e => .error e | .ok rows => run K P rows) := by
  unfold runFrom screenRows
  cases screen arg with
  | error e => rfl
  | ok r => rfl

/-- Closed form of `screenRows` on a frame, in terms of `nrows` and the cells of the four columns. -/
def rowsCore {α} [DecidableEq α] (n : Nat) (c : Option (List α)) (d : Option (List Rat))
    (h : Option (List (Option Rat))) (t : Option (List Int)) : Except AmpyErr (List (Hit α)) :=
  if n = 0 then .error (.ampy "len(data) is 0")
  else
    match c with
    | none => .error (.ampy "Column ceilo is missing from the input data.")
    | some c =>
    match d with
    | none => .error (.ampy "Column dt is missing from the input data.")
    | some d =>
    match h with
    | none => .error (.ampy "Column height is missing from the input data.")
    | some h =>
    match t with
    | none => .error (.ampy "Column type is missing from the input data.")
    | some t =>
      if hasDup (zipRows c d h t) then .error (.ampy "Duplicated hits in the input data")
      else if coincident 0 (zipRows c d h t) then
        .error (.ampy "Inconsistent input data (simultaneous type 0 and !0)")
      else if coincident (-1) (zipRows c d h t) then
        .error (.ampy "Inconsistent input data (simultaneous type -1 and !-1)")
      else .ok (zipRows c d h t)

theorem screenRows_frame {α} [DecidableEq α] (f : RawFrame α) :
    screenRows (.frame f) =
      rowsCore f.nrows (f.ceilo.map (·.cells)) (f.dt.map (·.cells)) (f.height.map (·.cells))
        (f.type.map (·.cells)) := by
  obtain ⟨n, idx, c, d, h, t, ex⟩ := f
  by_cases hn : n = 0
  · simp [screenRows, screen, rowsCore, hn]
  rcases c with _ | c
  · simp [screenRows, screen, rowsCore, hn]
  rcases d with _ | d
  · simp [screenRows, screen, rowsCore, hn]
  rcases h with _ | h
  · simp [screenRows, screen, rowsCore, hn]
  rcases t with _ | t
  · simp [screenRows, screen, rowsCore, hn]
  by_cases h1 : hasDup (zipRows c.cells d.cells h.cells t.cells) = true
  · simp [screenRows, screen, rowsCore, hn, h1]
  by_cases h2 : coincident 0 (zipRows c.cells d.cells h.cells t.cells) = true
  · simp [screenRows, screen, rowsCore, hn, h1, h2]
  by_cases h3 : coincident (-1) (zipRows c.cells d.cells h.cells t.cells) = true
  · simp [screenRows, screen, rowsCore, hn, h1, h2, h3]
  simp [screenRows, screen, rowsCore, hn, h1, h2, h3]

theorem screenRows_index {α} [DecidableEq α] (f : RawFrame α) (idx : List Int) :
    screenRows (.frame { f with index := idx }) = screenRows (.frame f) := by
  rw [screenRows_frame, screenRows_frame]

theorem screenRows_extra {α} [DecidableEq α] (f : RawFrame α) (extra : List String) :
    screenRows (.frame { f with extra := extra }) = screenRows (.frame f) := by
  rw [screenRows_frame, screenRows_frame]

theorem screenRows_exact {α} [DecidableEq α] (f : RawFrame α)
    (c : Col α) (d : Col Rat) (h : Col (Option Rat)) (t : Col Int) (e1 e2 e3 e4 : Bool)
    (hc : f.ceilo = some c) (hd : f.dt = some d) (hh : f.height = some h) (ht : f.type = some t) :
    screenRows (.frame { f with ceilo := some { c with exact := e1 }, dt := some { d with exact := e2 },
                                height := some { h with exact := e3 }, type := some { t with exact := e4 } })
      = screenRows (.frame f) := by
  rw [screenRows_frame, screenRows_frame, hc, hd, hh, ht]
  rfl

end Ampy
