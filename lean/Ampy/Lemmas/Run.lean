import Ampy.Lemmas.Layers
/-! Decomposition of a successful `run` into its stages. -/
namespace Ampy

/-- Everything a successful `run` computed, stage by stage. -/
structure RunParts {α} [DecidableEq α] (K : Kern) (P : PPrms α) (checked : List (Hit α)) (c : Chunk α) : Prop where
  data : c.data = (crop P.toPrms checked).1
  flag : c.flag = (crop P.toPrms checked).2
  parts : ∃ sids sl gids iso gr lids nc lay,
    sliceIds K P c.data = .ok sids ∧
    metarize K.toMetK P.toPrms .slices false c.data sids = .ok sl ∧
    groupIds K P c.data sids sl = .ok (gids, iso) ∧
    metarize K.toMetK P.toPrms .groups false c.data gids = .ok gr ∧
    layerIds K P c.data gids gr = .ok (lids, nc) ∧
    metarize K.toMetK P.toPrms .layers true c.data lids = .ok lay ∧
    c.sids = some sids ∧ c.gids = some gids ∧ c.lids = some lids ∧
    c.slices = some (setIsolated sl iso) ∧ c.groups = some (setNcomp gr nc) ∧ c.layers = some lay

theorem run_parts {α} [DecidableEq α] (K : Kern) (P : PPrms α) (checked : List (Hit α)) (c : Chunk α)
    (h : run K P checked = .ok c) : RunParts K P checked c := by
  unfold run at h
  simp only [bind, Except.bind, construct] at h
  -- findSlices
  split at h
  · cases h
  · rename_i c1 h1
    unfold findSlices at h1
    simp only [bind, Except.bind, pure, Except.pure] at h1
    split at h1
    · cases h1
    · rename_i sids hs
      split at h1
      · cases h1
      · rename_i sl hsl
        cases h1
        -- findGroups
        split at h
        · cases h
        · rename_i c2 h2
          unfold findGroups at h2
          simp only [bind, Except.bind, pure, Except.pure, carryIsolated, Option.isSome_none, Bool.false_eq_true,
            if_false] at h2
          split at h2
          · cases h2
          · rename_i gi hg
            obtain ⟨gids, iso⟩ := gi
            split at h2
            · cases h2
            · rename_i gr hgr
              cases h2
              -- findLayers
              unfold findLayers at h
              simp only [bind, Except.bind, pure, Except.pure] at h
              split at h
              · cases h
              · rename_i li hl
                obtain ⟨lids, nc⟩ := li
                split at h
                · cases h
                · rename_i lay hlay
                  cases h
                  exact ⟨rfl, rfl, sids, sl, gids, iso, gr, lids, nc, lay, hs, hsl, hg, hgr, hl, hlay,
                    rfl, rfl, rfl, rfl, rfl, rfl⟩

end Ampy
