import Ampy.Model.Params
/-!
Lemmas behind C11: object identities in the parameter world. Snapshots never share a mutable node with
the global dictionary; edits of one never reach the other; construction mutates nothing that existed.
-/
namespace Ampy

def disjointIds (a b : List Nat) : Prop := ∀ i, i ∈ a → i ∉ b

/-- Every tag in use is below the allocation counter. -/
structure Sys.WF (s : Sys) : Prop where
  global : ∀ i ∈ s.global.ids, i < s.next
  callers : ∀ t ∈ s.callers, ∀ i ∈ t.ids, i < s.next
  snaps : ∀ t ∈ s.snaps, ∀ i ∈ t.ids, i < s.next

/-- Separation: the global shares no mutable node with any snapshot or caller dictionary; two distinct
snapshots, and a snapshot and a caller dictionary, share no *dict* node (they may share list leaves: a
snapshot stores the caller's list objects themselves — a real alias, outside what C11 claims). -/
structure Sys.Sep (s : Sys) : Prop where
  gs : ∀ t ∈ s.snaps, disjointIds s.global.ids t.ids
  gc : ∀ t ∈ s.callers, disjointIds s.global.ids t.ids
  ss : ∀ (i j : Nat) (ti tj : PTree), i ≠ j → s.snaps[i]? = some ti → s.snaps[j]? = some tj → disjointIds ti.dictIds tj.ids
  sc : ∀ t ∈ s.snaps, ∀ c ∈ s.callers, disjointIds t.dictIds c.ids ∧ disjointIds c.dictIds t.ids
  cc : ∀ (i j : Nat) (ti tj : PTree), i ≠ j → s.callers[i]? = some ti → s.callers[j]? = some tj → disjointIds ti.ids tj.ids

/-- The initial world: a freshly loaded global, no callers, no snapshots. -/
def Sys.init (defaults : PTree) : Sys :=
  let (g, n) := defaults.deepcopy 1
  { next := n, global := g, defaults := defaults, callers := [], snaps := [] }


theorem disjointIds_symm {a b : List Nat} (h : disjointIds a b) : disjointIds b a :=
  fun i hb ha => h i ha hb

mutual
/-- Tags of the list nodes only. -/
def PTree.listIds : PTree → List Nat
  | .leaf _ => []
  | .list id _ => [id]
  | .dict _ es => es.listIds
def PEntries.listIds : PEntries → List Nat
  | .nil => []
  | .cons _ v rest => v.listIds ++ rest.listIds
end

mutual
theorem PTree.dictIds_sub : ∀ (t : PTree) (i : Nat), i ∈ t.dictIds → i ∈ t.ids
  | .leaf _, i, h => by simp [PTree.dictIds] at h
  | .list _ _, i, h => by simp [PTree.dictIds] at h
  | .dict _ es, i, h => by
    simp only [PTree.dictIds, PTree.ids, List.mem_cons] at h ⊢
    exact h.imp id (PEntries.dictIds_sub es i)
theorem PEntries.dictIds_sub : ∀ (es : PEntries) (i : Nat), i ∈ es.dictIds → i ∈ es.ids
  | .nil, i, h => by simp [PEntries.dictIds] at h
  | .cons _ v rest, i, h => by
    simp only [PEntries.dictIds, PEntries.ids, List.mem_append] at h ⊢
    exact h.imp (PTree.dictIds_sub v i) (PEntries.dictIds_sub rest i)
end

mutual
theorem PTree.listIds_sub : ∀ (t : PTree) (i : Nat), i ∈ t.listIds → i ∈ t.ids
  | .leaf _, i, h => by simp [PTree.listIds] at h
  | .list _ _, i, h => by simpa [PTree.listIds, PTree.ids] using h
  | .dict _ es, i, h => by
    simp only [PTree.listIds, PTree.ids, List.mem_cons] at h ⊢
    exact Or.inr (PEntries.listIds_sub es i h)
theorem PEntries.listIds_sub : ∀ (es : PEntries) (i : Nat), i ∈ es.listIds → i ∈ es.ids
  | .nil, i, h => by simp [PEntries.listIds] at h
  | .cons _ v rest, i, h => by
    simp only [PEntries.listIds, PEntries.ids, List.mem_append] at h ⊢
    exact h.imp (PTree.listIds_sub v i) (PEntries.listIds_sub rest i)
end

mutual
theorem PTree.ids_split : ∀ (t : PTree) (i : Nat), i ∈ t.ids → i ∈ t.dictIds ∨ i ∈ t.listIds
  | .leaf _, i, h => by simp [PTree.ids] at h
  | .list _ _, i, h => by simpa [PTree.listIds, PTree.ids, PTree.dictIds] using h
  | .dict _ es, i, h => by
    simp only [PTree.listIds, PTree.ids, PTree.dictIds, List.mem_cons] at h ⊢
    rcases h with h | h
    · exact Or.inl (Or.inl h)
    · exact (PEntries.ids_split es i h).imp Or.inr id
theorem PEntries.ids_split : ∀ (es : PEntries) (i : Nat), i ∈ es.ids → i ∈ es.dictIds ∨ i ∈ es.listIds
  | .nil, i, h => by simp [PEntries.ids] at h
  | .cons _ v rest, i, h => by
    simp only [PEntries.listIds, PEntries.ids, PEntries.dictIds, List.mem_append] at h ⊢
    rcases h with h | h
    · exact (PTree.ids_split v i h).imp Or.inl Or.inl
    · exact (PEntries.ids_split rest i h).imp Or.inr Or.inr
end

/-! ### deepcopy -/

mutual
theorem deepcopy_tree_spec : ∀ (t : PTree) (n : Nat),
    (t.deepcopy n).1.strip = t.strip ∧ n ≤ (t.deepcopy n).2 ∧
    ∀ i ∈ (t.deepcopy n).1.ids, n ≤ i ∧ i < (t.deepcopy n).2
  | .leaf _, n => by simp [PTree.deepcopy, PTree.strip, PTree.ids]
  | .list _ _, n => by simp [PTree.deepcopy, PTree.strip, PTree.ids]
  | .dict _ es, n => by
    obtain ⟨h1, h2, h3⟩ := deepcopy_entries_spec es (n + 1)
    simp only [PTree.deepcopy, PTree.strip, PTree.ids, h1, List.mem_cons]
    refine ⟨trivial, by omega, ?_⟩
    rintro i (rfl | hi)
    · omega
    · have := h3 i hi; omega
theorem deepcopy_entries_spec : ∀ (es : PEntries) (n : Nat),
    (es.deepcopy n).1.strip = es.strip ∧ n ≤ (es.deepcopy n).2 ∧
    ∀ i ∈ (es.deepcopy n).1.ids, n ≤ i ∧ i < (es.deepcopy n).2
  | .nil, n => by simp [PEntries.deepcopy, PEntries.strip, PEntries.ids]
  | .cons k v rest, n => by
    obtain ⟨h1, h2, h3⟩ := deepcopy_tree_spec v n
    obtain ⟨g1, g2, g3⟩ := deepcopy_entries_spec rest (v.deepcopy n).2
    simp only [PEntries.deepcopy, PEntries.strip, PEntries.ids, h1, g1, List.mem_append]
    refine ⟨trivial, by omega, ?_⟩
    rintro i (hi | hi)
    · have := h3 i hi; omega
    · have := g3 i hi; omega
end

mutual
theorem deepcopy_tree_kinds : ∀ (t : PTree) (n : Nat),
    disjointIds (t.deepcopy n).1.dictIds (t.deepcopy n).1.listIds
  | .leaf _, n => by simp [PTree.deepcopy, PTree.dictIds, disjointIds]
  | .list _ _, n => by simp [PTree.deepcopy, PTree.dictIds, disjointIds]
  | .dict _ es, n => by
    have h := deepcopy_entries_kinds es (n + 1)
    obtain ⟨-, -, h3⟩ := deepcopy_entries_spec es (n + 1)
    simp only [PTree.deepcopy, PTree.dictIds, PTree.listIds]
    intro i hi hl
    rcases List.mem_cons.1 hi with rfl | hi
    · have := h3 _ (PEntries.listIds_sub _ _ hl); omega
    · exact h i hi hl
theorem deepcopy_entries_kinds : ∀ (es : PEntries) (n : Nat),
    disjointIds (es.deepcopy n).1.dictIds (es.deepcopy n).1.listIds
  | .nil, n => by simp [PEntries.deepcopy, PEntries.dictIds, disjointIds]
  | .cons k v rest, n => by
    have hv := deepcopy_tree_kinds v n
    have hr := deepcopy_entries_kinds rest (v.deepcopy n).2
    obtain ⟨-, h2, h3⟩ := deepcopy_tree_spec v n
    obtain ⟨-, g2, g3⟩ := deepcopy_entries_spec rest (v.deepcopy n).2
    simp only [PEntries.deepcopy, PEntries.dictIds, PEntries.listIds]
    intro i hi hl
    rcases List.mem_append.1 hi with hi | hi <;> rcases List.mem_append.1 hl with hl | hl
    · exact hv i hi hl
    · have := h3 _ (PTree.dictIds_sub _ _ hi); have := g3 _ (PEntries.listIds_sub _ _ hl); omega
    · have := g3 _ (PEntries.dictIds_sub _ _ hi); have := h3 _ (PTree.listIds_sub _ _ hl); omega
    · exact hr i hi hl
end

/-! ### lookup and set -/

theorem PEntries.lookup_ids : ∀ (es : PEntries) (k : String) (v : PTree), es.lookup k = some v →
    (∀ i ∈ v.ids, i ∈ es.ids) ∧ (∀ i ∈ v.dictIds, i ∈ es.dictIds) ∧ (∀ i ∈ v.listIds, i ∈ es.listIds)
  | .nil, k, v, h => by simp [PEntries.lookup] at h
  | .cons k0 v0 rest, k, v, h => by
    simp only [PEntries.lookup] at h
    simp only [PEntries.ids, PEntries.dictIds, PEntries.listIds, List.mem_append]
    split at h
    · cases h
      exact ⟨fun i hi => Or.inl hi, fun i hi => Or.inl hi, fun i hi => Or.inl hi⟩
    · obtain ⟨a, b, c⟩ := PEntries.lookup_ids rest k v h
      exact ⟨fun i hi => Or.inr (a i hi), fun i hi => Or.inr (b i hi), fun i hi => Or.inr (c i hi)⟩

theorem PEntries.set_ids : ∀ (es : PEntries) (k : String) (v : PTree),
    (∀ i ∈ (es.set k v).ids, i ∈ es.ids ∨ i ∈ v.ids) ∧
    (∀ i ∈ (es.set k v).dictIds, i ∈ es.dictIds ∨ i ∈ v.dictIds) ∧
    (∀ i ∈ (es.set k v).listIds, i ∈ es.listIds ∨ i ∈ v.listIds)
  | .nil, k, v => by
    simp [PEntries.set, PEntries.ids, PEntries.dictIds, PEntries.listIds]
  | .cons k0 v0 rest, k, v => by
    obtain ⟨a, b, c⟩ := PEntries.set_ids rest k v
    simp only [PEntries.set]
    split
    · simp only [PEntries.ids, PEntries.dictIds, PEntries.listIds, List.mem_append]
      refine ⟨?_, ?_, ?_⟩ <;> intro i hi <;> rcases hi with hi | hi <;> simp [hi]
    · simp only [PEntries.ids, PEntries.dictIds, PEntries.listIds, List.mem_append]
      refine ⟨?_, ?_, ?_⟩ <;> intro i hi <;> rcases hi with hi | hi
      · simp [hi]
      · rcases a i hi with h | h <;> simp [h]
      · simp [hi]
      · rcases b i hi with h | h <;> simp [h]
      · simp [hi]
      · rcases c i hi with h | h <;> simp [h]

theorem PEntries.lookup_strip : ∀ (es : PEntries) (k : String),
    es.strip.lookup k = (es.lookup k).map PTree.strip
  | .nil, k => by simp [PEntries.lookup, PEntries.strip]
  | .cons k0 v0 rest, k => by
    simp only [PEntries.lookup, PEntries.strip]
    split
    · rfl
    · exact PEntries.lookup_strip rest k

theorem PEntries.set_strip : ∀ (es : PEntries) (k : String) (v : PTree),
    (es.set k v).strip = es.strip.set k v.strip
  | .nil, k, v => by simp [PEntries.set, PEntries.strip]
  | .cons k0 v0 rest, k, v => by
    simp only [PEntries.set, PEntries.strip]
    split
    · simp [PEntries.strip]
    · simp [PEntries.strip, PEntries.set_strip rest k v]


/-! ### adjust_nested_dict -/

mutual
theorem adjustTree_ids : ∀ (n r : PTree) (l : List String),
    (∀ i ∈ (adjustTree r n l).1.tree.ids, i ∈ r.ids ∨ i ∈ n.listIds) ∧
    (∀ i ∈ (adjustTree r n l).1.tree.dictIds, i ∈ r.dictIds)
  | .leaf _, r, l => by cases r <;> simp +contextual [adjustTree]
  | .list _ _, r, l => by cases r <;> simp +contextual [adjustTree]
  | .dict nid nes, r, l => by
    have hE := fun res l => adjustEntries_ids nes res l
    cases r with
    | dict rid res =>
      obtain ⟨a, b⟩ := hE res l
      rw [adjustTree.eq_1]
      rcases h : adjustEntries res nes l with ⟨es, w, cr, lv⟩
      rw [h] at a b
      simp only [PTree.ids, PTree.dictIds, PTree.listIds, List.mem_cons]
      refine ⟨?_, ?_⟩
      · rintro i (hi | hi)
        · exact Or.inl (Or.inl hi)
        · exact (a i hi).imp Or.inr id
      · rintro i (hi | hi)
        · exact Or.inl hi
        · exact Or.inr (b i hi)
    | leaf _ => cases nes <;> simp +contextual [adjustTree]
    | list _ _ => cases nes <;> simp +contextual [adjustTree]
theorem adjustEntries_ids : ∀ (nes res : PEntries) (l : List String),
    (∀ i ∈ (adjustEntries res nes l).1.ids, i ∈ res.ids ∨ i ∈ nes.listIds) ∧
    (∀ i ∈ (adjustEntries res nes l).1.dictIds, i ∈ res.dictIds)
  | .nil, res, l => by simp +contextual [adjustEntries]
  | .cons k item rest, res, l => by
    have hT := fun r l => adjustTree_ids item r l
    have hE := fun r l => adjustEntries_ids rest r l
    rw [adjustEntries.eq_2]
    simp only [PEntries.listIds, List.mem_append]
    split
    · obtain ⟨a, b⟩ := hE res (l ++ [k])
      rcases h : adjustEntries res rest (l ++ [k]) with ⟨es, w, cr, lv⟩
      rw [h] at a b
      exact ⟨fun i hi => (a i hi).imp id Or.inr, b⟩
    · rename_i cur hcur
      obtain ⟨lk1, lk2, -⟩ := PEntries.lookup_ids res k cur hcur
      split
      · rename_i id' es
        obtain ⟨a, b⟩ := hT cur (l ++ [k])
        rcases h : adjustTree cur (PTree.dict id' es) (l ++ [k]) with ⟨o, lv⟩
        rw [h] at a b
        obtain ⟨s1, s2, -⟩ := PEntries.set_ids res k o.tree
        have a' : ∀ i ∈ (res.set k o.tree).ids, i ∈ res.ids ∨ i ∈ (PTree.dict id' es).listIds := by
          intro i hi
          rcases s1 i hi with h | h
          · exact Or.inl h
          · exact (a i h).imp (lk1 i) id
        have b' : ∀ i ∈ (res.set k o.tree).dictIds, i ∈ res.dictIds := by
          intro i hi
          rcases s2 i hi with h | h
          · exact h
          · exact lk2 i (b i h)
        simp only
        split
        · exact ⟨fun i hi => (a' i hi).imp id Or.inl, b'⟩
        · obtain ⟨c, d⟩ := hE (res.set k o.tree) lv
          rcases h2 : adjustEntries (res.set k o.tree) rest lv with ⟨es2, w2, cr2, lv2⟩
          rw [h2] at c d
          refine ⟨fun i hi => ?_, fun i hi => b' i (d i hi)⟩
          rcases c i hi with h | h
          · exact (a' i h).imp id Or.inl
          · exact Or.inr (Or.inr h)
      · rename_i hnd
        obtain ⟨c, d⟩ := hE (res.set k item) (l ++ [k])
        rcases h2 : adjustEntries (res.set k item) rest (l ++ [k]) with ⟨es2, w2, cr2, lv2⟩
        rw [h2] at c d
        obtain ⟨s1, s2, -⟩ := PEntries.set_ids res k item
        have hd : item.dictIds = [] := by
          cases item with
          | dict id es => exact absurd rfl (hnd id es)
          | leaf _ => rfl
          | list _ _ => rfl
        have hl : ∀ i ∈ item.ids, i ∈ item.listIds := by
          intro i hi
          rcases PTree.ids_split item i hi with h | h
          · rw [hd] at h; cases h
          · exact h
        refine ⟨fun i hi => ?_, fun i hi => ?_⟩
        · rcases c i hi with h | h
          · rcases s1 i h with h | h
            · exact Or.inl h
            · exact Or.inr (Or.inl (hl i h))
          · exact Or.inr (Or.inr h)
        · rcases s2 i (d i hi) with h | h
          · exact h
          · rw [hd] at h; cases h
end

mutual
theorem adjustTree_strip : ∀ (n r r' : PTree) (l : List String), r.strip = r'.strip →
    (adjustTree r n l).1.tree.strip = (adjustTree r' n l).1.tree.strip ∧
    (adjustTree r n l).1.warnings = (adjustTree r' n l).1.warnings ∧
    (adjustTree r n l).1.crashed = (adjustTree r' n l).1.crashed ∧
    (adjustTree r n l).2 = (adjustTree r' n l).2
  | .leaf _, r, r', l, h => by cases r <;> cases r' <;> simp_all [adjustTree, PTree.strip]
  | .list _ _, r, r', l, h => by cases r <;> cases r' <;> simp_all [adjustTree, PTree.strip]
  | .dict nid nes, r, r', l, h => by
    have hE := fun res res' l h => adjustEntries_strip nes res res' l h
    cases r with
    | dict rid res =>
      cases r' with
      | dict rid' res' =>
        have h' : res.strip = res'.strip := by simpa [PTree.strip] using h
        obtain ⟨a, b, c, d⟩ := hE res res' l h'
        rw [adjustTree.eq_1, adjustTree.eq_1]
        rcases h1 : adjustEntries res nes l with ⟨es, w, cr, lv⟩
        rcases h2 : adjustEntries res' nes l with ⟨es', w', cr', lv'⟩
        rw [h1, h2] at a b c d
        simp only at a b c d
        simp only [PTree.strip, a, b, c, d, and_self]
      | leaf _ => simp [PTree.strip] at h
      | list _ _ => simp [PTree.strip] at h
    | leaf _ => cases r' <;> cases nes <;> simp_all [adjustTree, PTree.strip]
    | list _ _ => cases r' <;> cases nes <;> simp_all [adjustTree, PTree.strip]
theorem adjustEntries_strip : ∀ (nes res res' : PEntries) (l : List String), res.strip = res'.strip →
    (adjustEntries res nes l).1.strip = (adjustEntries res' nes l).1.strip ∧
    (adjustEntries res nes l).2.1 = (adjustEntries res' nes l).2.1 ∧
    (adjustEntries res nes l).2.2.1 = (adjustEntries res' nes l).2.2.1 ∧
    (adjustEntries res nes l).2.2.2 = (adjustEntries res' nes l).2.2.2
  | .nil, res, res', l, h => by simp [adjustEntries, h]
  | .cons k item rest, res, res', l, h => by
    have hT := fun r r' l h => adjustTree_strip item r r' l h
    have hE := fun r r' l h => adjustEntries_strip rest r r' l h
    have hl : (res.lookup k).map PTree.strip = (res'.lookup k).map PTree.strip := by
      rw [← PEntries.lookup_strip, ← PEntries.lookup_strip, h]
    rw [adjustEntries.eq_2, adjustEntries.eq_2]
    cases hc : res.lookup k with
    | none =>
      cases hc' : res'.lookup k with
      | none =>
        obtain ⟨a, b, c, d⟩ := hE res res' (l ++ [k]) h
        rcases h1 : adjustEntries res rest (l ++ [k]) with ⟨es, w, cr, lv⟩
        rcases h2 : adjustEntries res' rest (l ++ [k]) with ⟨es', w', cr', lv'⟩
        rw [h1, h2] at a b c d
        simp only at a b c d
        simp only [a, b, c, d, and_self]
      | some cur' => simp [hc, hc'] at hl
    | some cur =>
      cases hc' : res'.lookup k with
      | none => simp [hc, hc'] at hl
      | some cur' =>
        have hcur : cur.strip = cur'.strip := by simpa [hc, hc'] using hl
        simp only
        split
        · rename_i id' es
          obtain ⟨a, b, c, d⟩ := hT cur cur' (l ++ [k]) hcur
          rcases h1 : adjustTree cur (PTree.dict id' es) (l ++ [k]) with ⟨o, lv⟩
          rcases h2 : adjustTree cur' (PTree.dict id' es) (l ++ [k]) with ⟨o', lv'⟩
          rw [h1, h2] at a b c d
          simp only at a b c d
          have hset : (res.set k o.tree).strip = (res'.set k o'.tree).strip := by
            rw [PEntries.set_strip, PEntries.set_strip, h, a]
          subst d
          simp only [c]
          split
          · simp only [hset, b, and_self]
          · obtain ⟨a2, b2, c2, d2⟩ := hE _ _ lv hset
            rcases h3 : adjustEntries (res.set k o.tree) rest lv with ⟨es3, w3, cr3, lv3⟩
            rcases h4 : adjustEntries (res'.set k o'.tree) rest lv with ⟨es4, w4, cr4, lv4⟩
            rw [h3, h4] at a2 b2 c2 d2
            simp only at a2 b2 c2 d2
            simp only [a2, b, b2, c2, d2, and_self]
        · have hset : (res.set k item).strip = (res'.set k item).strip := by
            rw [PEntries.set_strip, PEntries.set_strip, h]
          obtain ⟨a2, b2, c2, d2⟩ := hE _ _ (l ++ [k]) hset
          rcases h3 : adjustEntries (res.set k item) rest (l ++ [k]) with ⟨es3, w3, cr3, lv3⟩
          rcases h4 : adjustEntries (res'.set k item) rest (l ++ [k]) with ⟨es4, w4, cr4, lv4⟩
          rw [h3, h4] at a2 b2 c2 d2
          simp only at a2 b2 c2 d2
          simp only [a2, b2, c2, d2, and_self]
end

/-! ### paths -/

theorem PTree.setPath_ids : ∀ (p : List String) (t v t' : PTree), t.setPath p v = some t' →
    (∀ i ∈ t'.ids, i ∈ t.ids ∨ i ∈ v.ids) ∧ (∀ i ∈ t'.dictIds, i ∈ t.dictIds ∨ i ∈ v.dictIds) ∧
    (∀ i ∈ t'.listIds, i ∈ t.listIds ∨ i ∈ v.listIds)
  | [], t, v, t', h => by simp [PTree.setPath] at h
  | k :: ks, .leaf _, v, t', h => by simp [PTree.setPath] at h
  | k :: ks, .list _ _, v, t', h => by simp [PTree.setPath] at h
  | [k], .dict d es, v, t', h => by
    rw [PTree.setPath.eq_2] at h
    cases h
    obtain ⟨a, b, c⟩ := PEntries.set_ids es k v
    simp only [PTree.ids, PTree.dictIds, PTree.listIds, List.mem_cons]
    refine ⟨?_, ?_, c⟩
    · rintro i (hi | hi)
      · exact Or.inl (Or.inl hi)
      · exact (a i hi).imp Or.inr id
    · rintro i (hi | hi)
      · exact Or.inl (Or.inl hi)
      · exact (b i hi).imp Or.inr id
  | k :: k2 :: ks, .dict d es, v, t', h => by
    rw [PTree.setPath.eq_3 _ _ _ _ _ (by simp)] at h
    split at h
    · rename_i sub hsub
      cases hs : sub.setPath (k2 :: ks) v with
      | none => simp [hs] at h
      | some sub' =>
        rw [hs] at h
        cases h
        obtain ⟨a, b, c⟩ := PTree.setPath_ids (k2 :: ks) sub v sub' hs
        obtain ⟨l1, l2, l3⟩ := PEntries.lookup_ids es k sub hsub
        obtain ⟨s1, s2, s3⟩ := PEntries.set_ids es k sub'
        simp only [PTree.ids, PTree.dictIds, PTree.listIds, List.mem_cons]
        refine ⟨?_, ?_, ?_⟩
        · rintro i (hi | hi)
          · exact Or.inl (Or.inl hi)
          · rcases s1 i hi with h | h
            · exact Or.inl (Or.inr h)
            · exact (a i h).imp (fun h => Or.inr (l1 i h)) id
        · rintro i (hi | hi)
          · exact Or.inl (Or.inl hi)
          · rcases s2 i hi with h | h
            · exact Or.inl (Or.inr h)
            · exact (b i h).imp (fun h => Or.inr (l2 i h)) id
        · intro i hi
          rcases s3 i hi with h | h
          · exact Or.inl h
          · exact (c i h).imp (l3 i) id
    · cases h

theorem PTree.pathDictId_mem : ∀ (p : List String) (t : PTree) (i : Nat), t.pathDictId p = some i →
    i ∈ t.dictIds
  | [], t, i, h => by simp [PTree.pathDictId] at h
  | k :: ks, .leaf _, i, h => by simp [PTree.pathDictId] at h
  | k :: ks, .list _ _, i, h => by simp [PTree.pathDictId] at h
  | [k], .dict d es, i, h => by
    simp only [PTree.pathDictId, Option.some.injEq] at h
    simp [PTree.dictIds, h]
  | k :: k2 :: ks, .dict d es, i, h => by
    rw [PTree.pathDictId.eq_3 _ _ _ _ (by simp)] at h
    cases hl : es.lookup k with
    | none => simp [hl] at h
    | some sub =>
      rw [hl] at h
      have := PTree.pathDictId_mem (k2 :: ks) sub i h
      obtain ⟨-, l2, -⟩ := PEntries.lookup_ids es k sub hl
      simp only [PTree.dictIds, List.mem_cons]
      exact Or.inr (l2 i this)

theorem PTree.getPath_one_ids (t : PTree) (k : String) (v : PTree) (h : t.getPath [k] = some v) :
    ∀ i ∈ v.ids, i ∈ t.ids := by
  cases t with
  | leaf _ => simp [PTree.getPath] at h
  | list _ _ => simp [PTree.getPath] at h
  | dict d es =>
    simp only [PTree.getPath] at h
    cases hl : es.lookup k with
    | none => simp [hl] at h
    | some sub =>
      simp only [hl, Option.bind_some, Option.some.injEq] at h
      subst h
      obtain ⟨l1, -, -⟩ := PEntries.lookup_ids es k sub hl
      intro i hi
      simp only [PTree.ids, List.mem_cons]
      exact Or.inr (l1 i hi)

/-! ### sync -/

mutual
theorem sync_tree_of_disjoint (src : PTree) (ids : List Nat) : ∀ (t : PTree), disjointIds ids t.ids →
    PTree.sync src ids t = t
  | .leaf _, _ => by simp [PTree.sync]
  | .list i items, h => by
    have : i ∉ ids := fun hi => h i hi (by simp [PTree.ids])
    simp [PTree.sync, this]
  | .dict i es, h => by
    have : i ∉ ids := fun hi => h i hi (by simp [PTree.ids])
    have he := sync_entries_of_disjoint src ids es (fun j hj hm => h j hj (by simp [PTree.ids, hm]))
    simp [PTree.sync, this, he]
theorem sync_entries_of_disjoint (src : PTree) (ids : List Nat) : ∀ (es : PEntries), disjointIds ids es.ids →
    PEntries.sync src ids es = es
  | .nil, _ => by simp [PEntries.sync]
  | .cons k v rest, h => by
    have hv := sync_tree_of_disjoint src ids v (fun j hj hm => h j hj (by simp [PEntries.ids, hm]))
    have hr := sync_entries_of_disjoint src ids rest (fun j hj hm => h j hj (by simp [PEntries.ids, hm]))
    simp [PEntries.sync, hv, hr]
end

/-! ### the parameter world -/

/-- In every caller dictionary, no tag is used both for a dict node and for a list node. -/
def Sys.Kinds (s : Sys) : Prop := ∀ c ∈ s.callers, disjointIds c.dictIds c.listIds

/-- The inductive invariant: `WF`, `Sep` and `Kinds`. -/
structure Sys.Inv (s : Sys) : Prop where
  wf : s.WF
  sep : s.Sep
  kinds : s.Kinds

theorem disj_grow_left {A B A' : List Nat} {n n1 : Nat} (h : disjointIds A B) (hB : ∀ i ∈ B, i < n)
    (hA' : ∀ i ∈ A', i ∈ A ∨ (n ≤ i ∧ i < n1)) : disjointIds A' B := by
  intro i hi hb
  rcases hA' i hi with h1 | h1
  · exact h i h1 hb
  · have := hB i hb; omega

theorem disj_grow_right {A B B' : List Nat} {n n1 : Nat} (h : disjointIds A B) (hA : ∀ i ∈ A, i < n)
    (hB' : ∀ i ∈ B', i ∈ B ∨ (n ≤ i ∧ i < n1)) : disjointIds A B' :=
  disjointIds_symm (disj_grow_left (disjointIds_symm h) hA hB')

theorem getElem?_set_cases {α} {l : List α} {j a : Nat} {x y : α} (h : (l.set j x)[a]? = some y) :
    (a = j ∧ y = x) ∨ (a ≠ j ∧ l[a]? = some y) := by
  rw [List.getElem?_set] at h
  split at h
  · split at h
    · cases h; exact Or.inl ⟨by omega, rfl⟩
    · cases h
  · exact Or.inr ⟨by omega, h⟩

theorem getElem?_append_single {α} {l : List α} {a : Nat} {x y : α} (h : (l ++ [x])[a]? = some y) :
    l[a]? = some y ∨ (a = l.length ∧ y = x) := by
  rcases Nat.lt_or_ge a l.length with hl | hl
  · rw [List.getElem?_append_left hl] at h; exact Or.inl h
  · rw [List.getElem?_append_right hl] at h
    rcases Nat.eq_zero_or_pos (a - l.length) with h0 | h0
    · rw [h0] at h; simp at h; exact Or.inr ⟨by omega, h.symm⟩
    · have : [x][a - l.length]? = none := by simp; omega
      rw [this] at h; cases h

theorem Sys.Inv.replaceGlobal {s : Sys} (h : s.Inv) (g : PTree) (n1 : Nat) (hn : s.next ≤ n1)
    (hg : ∀ i ∈ g.ids, i ∈ s.global.ids ∨ (s.next ≤ i ∧ i < n1)) :
    ({ s with next := n1, global := g } : Sys).Inv := by
  obtain ⟨hw, hs, hk⟩ := h
  refine ⟨⟨?_, ?_, ?_⟩, ⟨?_, ?_, hs.ss, hs.sc, hs.cc⟩, hk⟩
  · intro i hi
    rcases hg i hi with h | h
    · have := hw.global i h; simp only; omega
    · exact h.2
  · intro t ht i hi; have := hw.callers t ht i hi; simp only; omega
  · intro t ht i hi; have := hw.snaps t ht i hi; simp only; omega
  · intro t ht; exact disj_grow_left (hs.gs t ht) (hw.snaps t ht) hg
  · intro t ht; exact disj_grow_left (hs.gc t ht) (hw.callers t ht) hg

theorem mem_set_cases {α} {l : List α} {j : Nat} {x y : α} (h : y ∈ l.set j x) : y = x ∨ y ∈ l :=
  (List.mem_or_eq_of_mem_set h).symm

theorem Sys.Inv.replaceSnap {s : Sys} (h : s.Inv) (j : Nat) (t t' : PTree) (n1 : Nat) (hn : s.next ≤ n1)
    (ht : s.snaps[j]? = some t)
    (hi : ∀ i ∈ t'.ids, i ∈ t.ids ∨ (s.next ≤ i ∧ i < n1))
    (hd : ∀ i ∈ t'.dictIds, i ∈ t.dictIds ∨ (s.next ≤ i ∧ i < n1)) :
    ({ s with next := n1, snaps := s.snaps.set j t' } : Sys).Inv := by
  obtain ⟨hw, hs, hk⟩ := h
  have htm : t ∈ s.snaps := List.mem_of_getElem? ht
  have wfd : ∀ x ∈ s.snaps, ∀ i ∈ x.dictIds, i < s.next :=
    fun x hx i hi => hw.snaps x hx i (PTree.dictIds_sub _ _ hi)
  have wfc : ∀ x ∈ s.callers, ∀ i ∈ x.dictIds, i < s.next :=
    fun x hx i hi => hw.callers x hx i (PTree.dictIds_sub _ _ hi)
  refine ⟨⟨?_, ?_, ?_⟩, ⟨?_, hs.gc, ?_, ?_, hs.cc⟩, hk⟩
  · intro i hi; have := hw.global i hi; simp only; omega
  · intro x hx i hi; have := hw.callers x hx i hi; simp only; omega
  · intro x hx i hi'
    simp only
    rcases mem_set_cases hx with rfl | hx
    · rcases hi i hi' with h | h
      · have := hw.snaps t htm i h; omega
      · exact h.2
    · have := hw.snaps x hx i hi'; omega
  · intro x hx
    rcases mem_set_cases hx with rfl | hx
    · exact disj_grow_right (hs.gs t htm) hw.global hi
    · exact hs.gs x hx
  · intro a b ta tb hab ha hb
    rcases getElem?_set_cases ha with ⟨rfl, rfl⟩ | ⟨ha1, ha2⟩ <;>
      rcases getElem?_set_cases hb with ⟨rfl, rfl⟩ | ⟨hb1, hb2⟩
    · exact absurd rfl hab
    · exact disj_grow_left (hs.ss _ _ _ _ hab ht hb2) (hw.snaps _ (List.mem_of_getElem? hb2)) hd
    · exact disj_grow_right (hs.ss _ _ _ _ hab ha2 ht) (wfd _ (List.mem_of_getElem? ha2)) hi
    · exact hs.ss _ _ _ _ hab ha2 hb2
  · intro x hx c hc
    rcases mem_set_cases hx with rfl | hx
    · exact ⟨disj_grow_left (hs.sc t htm c hc).1 (hw.callers c hc) hd,
        disj_grow_right (hs.sc t htm c hc).2 (wfc c hc) hi⟩
    · exact hs.sc x hx c hc

theorem Sys.Inv.replaceCaller {s : Sys} (h : s.Inv) (j : Nat) (t t' : PTree) (n1 : Nat) (hn : s.next ≤ n1)
    (ht : s.callers[j]? = some t)
    (hi : ∀ i ∈ t'.ids, i ∈ t.ids ∨ (s.next ≤ i ∧ i < n1))
    (hd : ∀ i ∈ t'.dictIds, i ∈ t.dictIds ∨ (s.next ≤ i ∧ i < n1))
    (hk' : disjointIds t.dictIds t.listIds → disjointIds t'.dictIds t'.listIds) :
    ({ s with next := n1, callers := s.callers.set j t' } : Sys).Inv := by
  obtain ⟨hw, hs, hk⟩ := h
  have htm : t ∈ s.callers := List.mem_of_getElem? ht
  have wfd : ∀ x ∈ s.snaps, ∀ i ∈ x.dictIds, i < s.next :=
    fun x hx i hi => hw.snaps x hx i (PTree.dictIds_sub _ _ hi)
  refine ⟨⟨?_, ?_, ?_⟩, ⟨hs.gs, ?_, hs.ss, ?_, ?_⟩, ?_⟩
  · intro i hi; have := hw.global i hi; simp only; omega
  · intro x hx i hi'
    simp only
    rcases mem_set_cases hx with rfl | hx
    · rcases hi i hi' with h | h
      · have := hw.callers t htm i h; omega
      · exact h.2
    · have := hw.callers x hx i hi'; omega
  · intro x hx i hi; have := hw.snaps x hx i hi; simp only; omega
  · intro x hx
    rcases mem_set_cases hx with rfl | hx
    · exact disj_grow_right (hs.gc t htm) hw.global hi
    · exact hs.gc x hx
  · intro x hx c hc
    rcases mem_set_cases hc with rfl | hc
    · exact ⟨disj_grow_right (hs.sc x hx t htm).1 (wfd x hx) hi,
        disj_grow_left (hs.sc x hx t htm).2 (hw.snaps x hx) hd⟩
    · exact hs.sc x hx c hc
  · intro a b ta tb hab ha hb
    rcases getElem?_set_cases ha with ⟨rfl, rfl⟩ | ⟨ha1, ha2⟩ <;>
      rcases getElem?_set_cases hb with ⟨rfl, rfl⟩ | ⟨hb1, hb2⟩
    · exact absurd rfl hab
    · exact disj_grow_left (hs.cc _ _ _ _ hab ht hb2) (hw.callers _ (List.mem_of_getElem? hb2)) hi
    · exact disj_grow_right (hs.cc _ _ _ _ hab ha2 ht) (hw.callers _ (List.mem_of_getElem? ha2)) hi
    · exact hs.cc _ _ _ _ hab ha2 hb2
  · intro x hx
    rcases mem_set_cases hx with rfl | hx
    · exact hk' (hk t htm)
    · exact hk x hx

theorem Sys.Inv.appendCaller {s : Sys} (h : s.Inv) (t' : PTree) (n1 : Nat) (hn : s.next ≤ n1)
    (hi : ∀ i ∈ t'.ids, s.next ≤ i ∧ i < n1)
    (hk' : disjointIds t'.dictIds t'.listIds) :
    ({ s with next := n1, callers := s.callers ++ [t'] } : Sys).Inv := by
  obtain ⟨hw, hs, hk⟩ := h
  have fr1 : ∀ A : List Nat, (∀ i ∈ A, i < s.next) → disjointIds A t'.ids := by
    intro A hA i h1 h2; have := hA i h1; have := hi i h2; omega
  have fr2 : ∀ A : List Nat, (∀ i ∈ A, i < s.next) → disjointIds t'.ids A := fun A hA =>
    disjointIds_symm (fr1 A hA)
  refine ⟨⟨?_, ?_, ?_⟩, ⟨hs.gs, ?_, hs.ss, ?_, ?_⟩, ?_⟩
  · intro i hi; have := hw.global i hi; simp only; omega
  · intro x hx i hi'
    simp only
    rcases List.mem_append.1 hx with hx | hx
    · have := hw.callers x hx i hi'; omega
    · rw [List.mem_singleton] at hx; subst hx; exact (hi i hi').2
  · intro x hx i hi; have := hw.snaps x hx i hi; simp only; omega
  · intro x hx
    rcases List.mem_append.1 hx with hx | hx
    · exact hs.gc x hx
    · rw [List.mem_singleton] at hx; subst hx; exact fr1 _ hw.global
  · intro x hx c hc
    rcases List.mem_append.1 hc with hc | hc
    · exact hs.sc x hx c hc
    · rw [List.mem_singleton] at hc; subst hc
      exact ⟨fr1 _ (fun i hi => hw.snaps x hx i (PTree.dictIds_sub _ _ hi)),
        fun i h1 h2 => fr2 _ (hw.snaps x hx) i (PTree.dictIds_sub _ _ h1) h2⟩
  · intro a b ta tb hab ha hb
    rcases getElem?_append_single ha with ha' | ⟨rfl, rfl⟩ <;>
      rcases getElem?_append_single hb with hb' | ⟨rfl, rfl⟩
    · exact hs.cc _ _ _ _ hab ha' hb'
    · exact fr1 _ (hw.callers _ (List.mem_of_getElem? ha'))
    · exact fr2 _ (hw.callers _ (List.mem_of_getElem? hb'))
    · exact absurd rfl hab
  · intro x hx
    rcases List.mem_append.1 hx with hx | hx
    · exact hk x hx
    · rw [List.mem_singleton] at hx; subst hx; exact hk'

theorem Sys.Inv.appendSnap {s : Sys} (h : s.Inv) (T : PTree) (n1 : Nat) (hn : s.next ≤ n1)
    (hd : ∀ i ∈ T.dictIds, s.next ≤ i ∧ i < n1)
    (hi : ∀ i ∈ T.ids, (s.next ≤ i ∧ i < n1) ∨ ∃ c ∈ s.callers, i ∈ c.listIds) :
    ({ s with next := n1, snaps := s.snaps ++ [T] } : Sys).Inv := by
  obtain ⟨hw, hs, hk⟩ := h
  have frd : ∀ A : List Nat, (∀ i ∈ A, i < s.next) → disjointIds T.dictIds A := by
    intro A hA i h1 h2; have := hA i h2; have := hd i h1; omega
  refine ⟨⟨?_, ?_, ?_⟩, ⟨?_, hs.gc, ?_, ?_, hs.cc⟩, hk⟩
  · intro i hi; have := hw.global i hi; simp only; omega
  · intro x hx i hi; have := hw.callers x hx i hi; simp only; omega
  · intro x hx i hi'
    simp only
    rcases List.mem_append.1 hx with hx | hx
    · have := hw.snaps x hx i hi'; omega
    · rw [List.mem_singleton] at hx; subst hx
      rcases hi i hi' with h | ⟨c, hc, hl⟩
      · exact h.2
      · have := hw.callers c hc i (PTree.listIds_sub _ _ hl); omega
  · intro x hx
    rcases List.mem_append.1 hx with hx | hx
    · exact hs.gs x hx
    · rw [List.mem_singleton] at hx; subst hx
      intro i h1 h2
      rcases hi i h2 with h | ⟨c, hc, hl⟩
      · have := hw.global i h1; omega
      · exact hs.gc c hc i h1 (PTree.listIds_sub _ _ hl)
  · intro a b ta tb hab ha hb
    rcases getElem?_append_single ha with ha' | ⟨rfl, rfl⟩ <;>
      rcases getElem?_append_single hb with hb' | ⟨rfl, rfl⟩
    · exact hs.ss _ _ _ _ hab ha' hb'
    · intro i h1 h2
      have hta := List.mem_of_getElem? ha'
      rcases hi i h2 with h | ⟨c, hc, hl⟩
      · have := hw.snaps _ hta i (PTree.dictIds_sub _ _ h1); omega
      · exact (hs.sc _ hta c hc).1 i h1 (PTree.listIds_sub _ _ hl)
    · exact frd _ (hw.snaps _ (List.mem_of_getElem? hb'))
    · exact absurd rfl hab
  · intro x hx c hc
    rcases List.mem_append.1 hx with hx | hx
    · exact hs.sc x hx c hc
    · rw [List.mem_singleton] at hx; subst hx
      refine ⟨frd _ (hw.callers c hc), ?_⟩
      intro i h1 h2
      rcases hi i h2 with h | ⟨c', hc', hl⟩
      · have := hw.callers c hc i (PTree.dictIds_sub _ _ h1); omega
      · obtain ⟨a, ha⟩ := List.getElem?_of_mem hc
        obtain ⟨b, hb⟩ := List.getElem?_of_mem hc'
        by_cases hab : a = b
        · subst hab
          rw [ha] at hb; cases hb
          exact hk c hc i h1 hl
        · exact hs.cc a b c c' hab ha hb i (PTree.dictIds_sub _ _ h1) (PTree.listIds_sub _ _ hl)

/-! ### the shape of one step -/

theorem map_sync_fix (src : PTree) (ids : List Nat) (l : List PTree)
    (h : ∀ t ∈ l, disjointIds ids t.ids) : l.map (PTree.sync src ids) = l := by
  have : ∀ t ∈ l, PTree.sync src ids t = id t := fun t ht => sync_tree_of_disjoint src ids t (h t ht)
  rw [List.map_congr_left this, List.map_id]

theorem set_map_fix {α} (f : α → α) (l : List α) (j : Nat) (x : α)
    (h : ∀ a y, a ≠ j → l[a]? = some y → f y = y) : (l.map f).set j x = l.set j x := by
  apply List.ext_getElem?
  intro a
  rw [List.getElem?_set, List.getElem?_set, List.length_map]
  split
  · rfl
  · rename_i hne
    rw [List.getElem?_map]
    cases hl : l[a]? with
    | none => rfl
    | some y => simp [h a y (fun e => hne e.symm) hl]

theorem step_setGlobal_eq (s : Sys) (p : List String) (v : PTree) : s.step (.setGlobal p v) =
    match s.global.setPath p (v.deepcopy s.next).1, s.global.pathDictId p with
    | some g', some id =>
      ({ (s.syncAll g' [id]) with next := (v.deepcopy s.next).2, global := g' }, .ok [])
    | _, _ => (s, .crash "KeyError") := rfl

theorem step_setSnap_eq (s : Sys) (j : Nat) (p : List String) (v : PTree) : s.step (.setSnap j p v) =
    match s.snaps[j]? with
    | none => (s, .crash "IndexError")
    | some t =>
      match t.setPath p (v.deepcopy s.next).1, t.pathDictId p with
      | some t', some id =>
        ({ (s.syncAll t' [id]) with next := (v.deepcopy s.next).2,
                                     snaps := (s.syncAll t' [id]).snaps.set j t' }, .ok [])
      | _, _ => (s, .crash "KeyError") := rfl

theorem step_setCaller_eq (s : Sys) (j : Nat) (p : List String) (v : PTree) : s.step (.setCaller j p v) =
    match s.callers[j]? with
    | none => (s, .crash "IndexError")
    | some t =>
      match t.setPath p (v.deepcopy s.next).1, t.pathDictId p with
      | some t', some id =>
        ({ (s.syncAll t' [id]) with next := (v.deepcopy s.next).2,
                                     callers := (s.syncAll t' [id]).callers.set j t' }, .ok [])
      | _, _ => (s, .crash "KeyError") := rfl

theorem step_setPrms_eq (s : Sys) (y : PTree) : s.step (.setPrms y) =
    ({ (s.syncAll (adjustTree s.global (y.deepcopy s.next).1 []).1.tree s.global.dictIds) with
         next := (y.deepcopy s.next).2,
         global := (adjustTree s.global (y.deepcopy s.next).1 []).1.tree },
     if (adjustTree s.global (y.deepcopy s.next).1 []).1.crashed then .crash "AttributeError"
     else .ok (adjustTree s.global (y.deepcopy s.next).1 []).1.warnings) := rfl

theorem step_resetNone_eq (s : Sys) : s.step (.reset none) =
    ({ s with next := (s.defaults.deepcopy s.next).2, global := (s.defaults.deepcopy s.next).1 }, .ok []) := rfl

/-- The fold of `reset_prms(which)`. -/
def resetGo (d g : PTree) (names : List String) : PTree × Bool :=
  names.foldl (fun (acc : PTree × Bool) name =>
      if acc.2 then acc
      else
        match d.getPath [name], acc.1.setPath [name] (d.getPath [name] |>.getD (.leaf .none)) with
        | some _, some g' => (g', false)
        | _, _ => (acc.1, true)) (g, false)

theorem step_resetSome_eq (s : Sys) (names : List String) : s.step (.reset (some names)) =
    match s.global.pathDictId ["_"] with
    | some gid =>
      ({ (s.syncAll (resetGo (s.defaults.deepcopy s.next).1 s.global names).1 [gid]) with
           next := (s.defaults.deepcopy s.next).2,
           global := (resetGo (s.defaults.deepcopy s.next).1 s.global names).1 },
       if (resetGo (s.defaults.deepcopy s.next).1 s.global names).2 then .ampyError else .ok [])
    | none => (s, .crash "TypeError") := rfl

theorem step_newCaller_eq (s : Sys) (t : PTree) : s.step (.newCaller t) =
    ({ s with next := (t.deepcopy s.next).2, callers := s.callers ++ [(t.deepcopy s.next).1] }, .ok []) := rfl

theorem step_constructNone_eq (s : Sys) : s.step (.construct none) =
    ({ s with next := (s.global.deepcopy s.next).2, snaps := s.snaps ++ [(s.global.deepcopy s.next).1] },
     .ok []) := rfl

theorem step_constructSome_eq (s : Sys) (i : Nat) : s.step (.construct (some i)) =
    match s.callers[i]? with
    | none => (s, .crash "IndexError")
    | some prm =>
      if (adjustTree (s.global.deepcopy s.next).1 prm []).1.crashed then
        ({ s with next := (s.global.deepcopy s.next).2 }, .crash "AttributeError")
      else
        ({ s with next := (s.global.deepcopy s.next).2,
                  snaps := s.snaps ++ [(adjustTree (s.global.deepcopy s.next).1 prm []).1.tree] },
         .ok (adjustTree (s.global.deepcopy s.next).1 prm []).1.warnings) := rfl

theorem resetGo_ids (d g : PTree) (names : List String) :
    ∀ i ∈ (resetGo d g names).1.ids, i ∈ g.ids ∨ i ∈ d.ids := by
  unfold resetGo
  suffices H : ∀ (acc : PTree × Bool), (∀ i ∈ acc.1.ids, i ∈ g.ids ∨ i ∈ d.ids) →
      ∀ i ∈ (names.foldl (fun (acc : PTree × Bool) name =>
        if acc.2 then acc
        else
          match d.getPath [name], acc.1.setPath [name] (d.getPath [name] |>.getD (.leaf .none)) with
          | some _, some g' => (g', false)
          | _, _ => (acc.1, true)) acc).1.ids, i ∈ g.ids ∨ i ∈ d.ids from
    H (g, false) (fun i hi => Or.inl hi)
  induction names with
  | nil => intro acc h; exact h
  | cons name rest ih =>
    intro acc h
    rw [List.foldl_cons]
    apply ih
    split
    · exact h
    · split
      · rename_i x g' hx hg'
        rw [hx] at hg'
        obtain ⟨a, -, -⟩ := PTree.setPath_ids _ _ _ _ hg'
        intro i hi
        rcases a i hi with h1 | h1
        · exact h i h1
        · exact Or.inr (PTree.getPath_one_ids d name x hx i h1)
      · exact h

theorem pathDictId_disj_of_ids {t : PTree} {p : List String} {id : Nat} {B : List Nat}
    (h : t.pathDictId p = some id) (hd : disjointIds t.dictIds B) : disjointIds [id] B := by
  intro i hi
  rw [List.mem_singleton] at hi; subst hi
  exact hd i (PTree.pathDictId_mem p t i h)

theorem Sys.Sep.global_dict_snaps {s : Sys} (hs : s.Sep) : ∀ t ∈ s.snaps, disjointIds s.global.dictIds t.ids :=
  fun t ht i hi => hs.gs t ht i (PTree.dictIds_sub _ _ hi)

theorem Sys.Sep.global_dict_callers {s : Sys} (hs : s.Sep) :
    ∀ t ∈ s.callers, disjointIds s.global.dictIds t.ids :=
  fun t ht i hi => hs.gc t ht i (PTree.dictIds_sub _ _ hi)

/-- A `syncAll` on dict tags of the global leaves callers and snapshots alone. -/
theorem Sys.Sep.syncAll_global {s : Sys} (hs : s.Sep) (src : PTree) (ids : List Nat)
    (h : ∀ i ∈ ids, i ∈ s.global.dictIds) :
    (s.syncAll src ids).callers = s.callers ∧ (s.syncAll src ids).snaps = s.snaps := by
  constructor
  · exact map_sync_fix _ _ _ (fun t ht i hi => hs.global_dict_callers t ht i (h i hi))
  · exact map_sync_fix _ _ _ (fun t ht i hi => hs.global_dict_snaps t ht i (h i hi))

theorem step_setGlobal_shape (s : Sys) (hs : s.Sep) (p : List String) (v : PTree) :
    (s.step (.setGlobal p v)).1 = s ∨
    ∃ g', s.global.setPath p (v.deepcopy s.next).1 = some g' ∧
      (s.step (.setGlobal p v)).1 = { s with next := (v.deepcopy s.next).2, global := g' } := by
  rw [step_setGlobal_eq]
  split
  · rename_i g' id hg hid
    refine Or.inr ⟨g', hg, ?_⟩
    obtain ⟨a, b⟩ := hs.syncAll_global g' [id] (by
      intro i hi; rw [List.mem_singleton] at hi; subst hi; exact PTree.pathDictId_mem _ _ _ hid)
    simp only [a, b]
    rfl
  · exact Or.inl rfl

theorem step_setPrms_shape (s : Sys) (hs : s.Sep) (y : PTree) :
    (s.step (.setPrms y)).1 =
      { s with
        next := (y.deepcopy s.next).2,
        global := (adjustTree s.global (y.deepcopy s.next).1 []).1.tree } := by
  rw [step_setPrms_eq]
  obtain ⟨a, b⟩ := hs.syncAll_global (adjustTree s.global (y.deepcopy s.next).1 []).1.tree s.global.dictIds
    (fun i hi => hi)
  simp only [a, b]
  rfl

theorem step_resetSome_shape (s : Sys) (hs : s.Sep) (names : List String) :
    (s.step (.reset (some names))).1 = s ∨
    (s.step (.reset (some names))).1 =
      { s with
        next := (s.defaults.deepcopy s.next).2,
        global := (resetGo (s.defaults.deepcopy s.next).1 s.global names).1 } := by
  rw [step_resetSome_eq]
  split
  · rename_i gid hid
    refine Or.inr ?_
    obtain ⟨a, b⟩ := hs.syncAll_global (resetGo (s.defaults.deepcopy s.next).1 s.global names).1 [gid] (by
      intro i hi; rw [List.mem_singleton] at hi; subst hi; exact PTree.pathDictId_mem _ _ _ hid)
    simp only [a, b]
    rfl
  · exact Or.inl rfl

theorem step_setSnap_shape (s : Sys) (hs : s.Sep) (j : Nat) (p : List String) (v : PTree) :
    (s.step (.setSnap j p v)).1 = s ∨
    ∃ t t', s.snaps[j]? = some t ∧ t.setPath p (v.deepcopy s.next).1 = some t' ∧
      (s.step (.setSnap j p v)).1 = { s with next := (v.deepcopy s.next).2, snaps := s.snaps.set j t' } := by
  rw [step_setSnap_eq]
  split
  · exact Or.inl rfl
  · rename_i t ht
    split
    · rename_i t' id ht' hid
      refine Or.inr ⟨t, t', ht, ht', ?_⟩
      have hmem := PTree.pathDictId_mem _ _ _ hid
      have htm : t ∈ s.snaps := List.mem_of_getElem? ht
      have hg : PTree.sync t' [id] s.global = s.global := by
        apply sync_tree_of_disjoint
        intro i hi hgl
        rw [List.mem_singleton] at hi; subst hi
        exact hs.gs t htm i hgl (PTree.dictIds_sub _ _ hmem)
      have hc : s.callers.map (PTree.sync t' [id]) = s.callers := by
        apply map_sync_fix
        intro c hc i hi
        rw [List.mem_singleton] at hi; subst hi
        exact (hs.sc t htm c hc).1 i hmem
      have hsn : (s.snaps.map (PTree.sync t' [id])).set j t' = s.snaps.set j t' := by
        apply set_map_fix
        intro a y haj hy
        apply sync_tree_of_disjoint
        intro i hi
        rw [List.mem_singleton] at hi; subst hi
        exact hs.ss j a t y (fun e => haj e.symm) ht hy i hmem
      simp only [Sys.syncAll, hg, hc, hsn]
    · exact Or.inl rfl

theorem step_setCaller_shape (s : Sys) (hs : s.Sep) (j : Nat) (p : List String) (v : PTree) :
    (s.step (.setCaller j p v)).1 = s ∨
    ∃ t t', s.callers[j]? = some t ∧ t.setPath p (v.deepcopy s.next).1 = some t' ∧
      (s.step (.setCaller j p v)).1 = { s with next := (v.deepcopy s.next).2, callers := s.callers.set j t' } := by
  rw [step_setCaller_eq]
  split
  · exact Or.inl rfl
  · rename_i t ht
    split
    · rename_i t' id ht' hid
      refine Or.inr ⟨t, t', ht, ht', ?_⟩
      have hmem := PTree.pathDictId_mem _ _ _ hid
      have htm : t ∈ s.callers := List.mem_of_getElem? ht
      have hg : PTree.sync t' [id] s.global = s.global := by
        apply sync_tree_of_disjoint
        intro i hi hgl
        rw [List.mem_singleton] at hi; subst hi
        exact hs.gc t htm i hgl (PTree.dictIds_sub _ _ hmem)
      have hsn : s.snaps.map (PTree.sync t' [id]) = s.snaps := by
        apply map_sync_fix
        intro c hc i hi
        rw [List.mem_singleton] at hi; subst hi
        exact (hs.sc c hc t htm).2 i hmem
      have hc : (s.callers.map (PTree.sync t' [id])).set j t' = s.callers.set j t' := by
        apply set_map_fix
        intro a y haj hy
        apply sync_tree_of_disjoint
        intro i hi
        rw [List.mem_singleton] at hi; subst hi
        exact hs.cc j a t y (fun e => haj e.symm) ht hy i (PTree.dictIds_sub _ _ hmem)
      simp only [Sys.syncAll, hg, hc, hsn]
    · exact Or.inl rfl

/-! ### the invariant is inductive -/

theorem step_inv (s : Sys) (op : SOp) (h : s.Inv) : (s.step op).1.Inv := by
  cases op with
  | construct c =>
    obtain ⟨-, hn, hf⟩ := deepcopy_tree_spec s.global s.next
    cases c with
    | none =>
      rw [step_constructNone_eq]
      exact h.appendSnap _ _ hn (fun i hi => hf i (PTree.dictIds_sub _ _ hi)) (fun i hi => Or.inl (hf i hi))
    | some i =>
      rw [step_constructSome_eq]
      split
      · exact h
      · rename_i prm hprm
        obtain ⟨a, b⟩ := adjustTree_ids prm (s.global.deepcopy s.next).1 []
        split
        · exact h.replaceGlobal s.global _ hn (fun i hi => Or.inl hi)
        · refine h.appendSnap _ _ hn (fun i hi => hf i (PTree.dictIds_sub _ _ (b i hi))) (fun i hi => ?_)
          rcases a i hi with h1 | h1
          · exact Or.inl (hf i h1)
          · exact Or.inr ⟨prm, List.mem_of_getElem? hprm, h1⟩
  | setGlobal p v =>
    obtain ⟨-, hn, hf⟩ := deepcopy_tree_spec v s.next
    rcases step_setGlobal_shape s h.sep p v with h0 | ⟨g', hg, h0⟩
    · rw [h0]; exact h
    · rw [h0]
      obtain ⟨a, -, -⟩ := PTree.setPath_ids _ _ _ _ hg
      exact h.replaceGlobal g' _ hn (fun i hi => (a i hi).imp id (hf i))
  | setSnap j p v =>
    obtain ⟨-, hn, hf⟩ := deepcopy_tree_spec v s.next
    rcases step_setSnap_shape s h.sep j p v with h0 | ⟨t, t', ht, ht', h0⟩
    · rw [h0]; exact h
    · rw [h0]
      obtain ⟨a, b, -⟩ := PTree.setPath_ids _ _ _ _ ht'
      exact h.replaceSnap j t t' _ hn ht (fun i hi => (a i hi).imp id (hf i))
        (fun i hi => (b i hi).imp id (fun hi => hf i (PTree.dictIds_sub _ _ hi)))
  | setCaller j p v =>
    obtain ⟨-, hn, hf⟩ := deepcopy_tree_spec v s.next
    rcases step_setCaller_shape s h.sep j p v with h0 | ⟨t, t', ht, ht', h0⟩
    · rw [h0]; exact h
    · rw [h0]
      obtain ⟨a, b, c⟩ := PTree.setPath_ids _ _ _ _ ht'
      have hwt := h.wf.callers t (List.mem_of_getElem? ht)
      refine h.replaceCaller j t t' _ hn ht (fun i hi => (a i hi).imp id (hf i))
        (fun i hi => (b i hi).imp id (fun hi => hf i (PTree.dictIds_sub _ _ hi))) ?_
      intro hk i hd hl
      rcases b i hd with hd | hd <;> rcases c i hl with hl | hl
      · exact hk i hd hl
      · have := hwt i (PTree.dictIds_sub _ _ hd); have := hf i (PTree.listIds_sub _ _ hl); omega
      · have := hwt i (PTree.listIds_sub _ _ hl); have := hf i (PTree.dictIds_sub _ _ hd); omega
      · exact deepcopy_tree_kinds v s.next i hd hl
  | setPrms y =>
    obtain ⟨-, hn, hf⟩ := deepcopy_tree_spec y s.next
    rw [step_setPrms_shape s h.sep y]
    obtain ⟨a, -⟩ := adjustTree_ids (y.deepcopy s.next).1 s.global []
    exact h.replaceGlobal _ _ hn (fun i hi => (a i hi).imp id (fun hi => hf i (PTree.listIds_sub _ _ hi)))
  | reset w =>
    obtain ⟨-, hn, hf⟩ := deepcopy_tree_spec s.defaults s.next
    cases w with
    | none =>
      rw [step_resetNone_eq]
      exact h.replaceGlobal _ _ hn (fun i hi => Or.inr (hf i hi))
    | some names =>
      rcases step_resetSome_shape s h.sep names with h0 | h0
      · rw [h0]; exact h
      · rw [h0]
        exact h.replaceGlobal _ _ hn (fun i hi => (resetGo_ids _ _ _ i hi).imp id (hf i))
  | newCaller t =>
    obtain ⟨-, hn, hf⟩ := deepcopy_tree_spec t s.next
    rw [step_newCaller_eq]
    exact h.appendCaller _ _ hn hf (deepcopy_tree_kinds t s.next)

theorem init_inv (defaults : PTree) : (Sys.init defaults).Inv := by
  obtain ⟨-, hn, hf⟩ := deepcopy_tree_spec defaults 1
  have e : Sys.init defaults = ⟨(defaults.deepcopy 1).2, (defaults.deepcopy 1).1, defaults, [], []⟩ := rfl
  rw [e]
  refine ⟨⟨fun i hi => (hf i hi).2, ?_, ?_⟩, ⟨?_, ?_, ?_, ?_, ?_⟩, ?_⟩
  · intro t ht; cases ht
  · intro t ht; cases ht
  · intro t ht; cases ht
  · intro t ht; cases ht
  · intro i j ti tj _ hi; simp at hi
  · intro t ht; cases ht
  · intro i j ti tj _ hi; simp at hi
  · intro t ht; cases ht

theorem run_inv (s : Sys) (ops : List SOp) (h : s.Inv) : (s.run ops).1.Inv := by
  induction ops generalizing s with
  | nil => exact h
  | cons op rest ih => exact ih (s.step op).1 (step_inv s op h)

/-! ### counterexamples to two statements as originally written -/

/-- A caller dictionary in which one tag is used both for a dict node and for a list node. -/
def cexSys1 : Sys :=
  { next := 10, global := .dict 1 (.cons "a" (.list 2 []) .nil), defaults := .leaf .none,
    callers := [.dict 5 (.cons "a" (.list 5 []) .nil)], snaps := [] }

theorem cexSys1_wf : cexSys1.WF := by
  refine ⟨?_, ?_, ?_⟩ <;> simp [cexSys1, PTree.ids, PEntries.ids] <;> omega

theorem cexSys1_sep : cexSys1.Sep := by
  refine ⟨?_, ?_, ?_, ?_, ?_⟩
  · simp [cexSys1]
  · simp [cexSys1, disjointIds, PTree.ids, PEntries.ids]
  · simp [cexSys1]
  · simp [cexSys1]
  · intro i j ti tj hij hi hj
    have h1 := (List.getElem?_eq_some_iff.1 hi).1
    have h2 := (List.getElem?_eq_some_iff.1 hj).1
    simp [cexSys1] at h1 h2
    omega

theorem cexSys1_step : (cexSys1.step (.construct (some 0))).1.snaps =
    [.dict 10 (.cons "a" (.list 5 []) .nil)] := by
  rw [step_constructSome_eq]
  simp [cexSys1, PTree.deepcopy, PEntries.deepcopy, adjustTree, adjustEntries, PEntries.lookup, PEntries.set]

/-- `step_wf_sep` as originally stated (from `WF` and `Sep` alone) is false: constructing a chunk from
the caller dictionary of `cexSys1` stores the caller's list node, whose tag 5 is also a dict tag of
that caller, in the new snapshot. -/
theorem step_wf_sep_false :
    ¬ ∀ (s : Sys) (op : SOp), s.WF → s.Sep → (s.step op).1.WF ∧ (s.step op).1.Sep := by
  intro H
  have hs := (H cexSys1 (.construct (some 0)) cexSys1_wf cexSys1_sep).2
  have hc : (cexSys1.step (.construct (some 0))).1.callers = [.dict 5 (.cons "a" (.list 5 []) .nil)] := by
    rw [step_constructSome_eq]
    simp [cexSys1, PTree.deepcopy, PEntries.deepcopy, adjustTree, adjustEntries, PEntries.lookup, PEntries.set]
  have := (hs.sc (.dict 10 (.cons "a" (.list 5 []) .nil)) (by rw [cexSys1_step]; simp)
    (.dict 5 (.cons "a" (.list 5 []) .nil)) (by rw [hc]; simp)).2 5
  simp [PTree.ids, PEntries.ids, PTree.dictIds, PEntries.dictIds] at this

def cexSys2 : Sys :=
  { next := 2, global := .dict 0 .nil, defaults := .leaf .none, callers := [],
    snaps := [.dict 1 (.cons "a" (.leaf (.int 0)) .nil)] }

theorem cexSys2_wf : cexSys2.WF := by
  refine ⟨?_, ?_, ?_⟩ <;> simp [cexSys2, PTree.ids, PEntries.ids]

theorem cexSys2_sep : cexSys2.Sep := by
  refine ⟨?_, ?_, ?_, ?_, ?_⟩
  · simp [cexSys2, disjointIds, PTree.ids, PEntries.ids]
  · simp [cexSys2]
  · intro i j ti tj hij hi hj
    have h1 := (List.getElem?_eq_some_iff.1 hi).1
    have h2 := (List.getElem?_eq_some_iff.1 hj).1
    simp [cexSys2] at h1 h2
    omega
  · simp [cexSys2]
  · simp [cexSys2]

/-- `snap_edit_later_construct` as originally stated is false when the later construction fails (here:
caller index out of range): no snapshot is appended, so the last snapshot is the edited one. -/
theorem snap_edit_later_construct_false :
    ¬ ∀ (s : Sys), s.WF → s.Sep → ∀ (j : Nat) (p : List String) (v : PTree) (c : Option Nat),
      ((s.step (.setSnap j p v)).1.step (.construct c)).2 = (s.step (.construct c)).2 ∧
      (((s.step (.setSnap j p v)).1.step (.construct c)).1.snaps.getLast?).map PTree.strip =
        ((s.step (.construct c)).1.snaps.getLast?).map PTree.strip := by
  intro H
  have := (H cexSys2 cexSys2_wf cexSys2_sep 0 ["a"] (.leaf (.int 1)) (some 0)).2
  rw [step_constructSome_eq, step_constructSome_eq, step_setSnap_eq] at this
  simp [cexSys2, PTree.deepcopy, PTree.setPath, PTree.pathDictId, PEntries.set, Sys.syncAll, PTree.sync,
    PEntries.sync, PTree.strip, PEntries.strip] at this

/-! ### the lemmas behind C11 -/

/-- A deep copy has the same contents and only fresh tags. -/
theorem deepcopy_spec (t : PTree) (n : Nat) :
    (t.deepcopy n).1.strip = t.strip ∧ n ≤ (t.deepcopy n).2 ∧
    ∀ i ∈ (t.deepcopy n).1.ids, n ≤ i ∧ i < (t.deepcopy n).2 :=
  deepcopy_tree_spec t n

/-- Synchronising on tags that do not occur in a tree leaves it unchanged. -/
theorem sync_of_disjoint (src : PTree) (ids : List Nat) (t : PTree) (h : disjointIds ids t.ids) :
    PTree.sync src ids t = t :=
  sync_tree_of_disjoint src ids t h

theorem init_wf_sep (defaults : PTree) : (Sys.init defaults).WF ∧ (Sys.init defaults).Sep :=
  ⟨(init_inv defaults).wf, (init_inv defaults).sep⟩

/-- Corrected `step_wf_sep`: well-formedness, separation and tag-kind consistency of the caller
dictionaries are, together, invariants of every operation. -/
theorem step_wf_sep' (s : Sys) (op : SOp) (hw : s.WF) (hs : s.Sep) (hk : s.Kinds) :
    (s.step op).1.WF ∧ (s.step op).1.Sep ∧ (s.step op).1.Kinds :=
  have h := step_inv s op ⟨hw, hs, hk⟩
  ⟨h.wf, h.sep, h.kinds⟩

/-- … hence of every history from the initial world. -/
theorem run_wf_sep (defaults : PTree) (ops : List SOp) :
    ((Sys.init defaults).run ops).1.WF ∧ ((Sys.init defaults).run ops).1.Sep :=
  have h := run_inv (Sys.init defaults) ops (init_inv defaults)
  ⟨h.wf, h.sep⟩

theorem getElem?_append_of_some {α} {l : List α} {j : Nat} {t : α} (x : α) (h : l[j]? = some t) :
    (l ++ [x])[j]? = some t := by
  rw [List.getElem?_append_left (List.getElem?_eq_some_iff.1 h).1]; exact h

/-- Constructing a chunk changes neither the global dictionary, nor any caller dictionary, nor any
existing snapshot. -/
theorem construct_pure (s : Sys) (c : Option Nat) :
    (s.step (.construct c)).1.global = s.global ∧ (s.step (.construct c)).1.callers = s.callers ∧
    ∀ (j : Nat) (t : PTree), s.snaps[j]? = some t → (s.step (.construct c)).1.snaps[j]? = some t := by
  cases c with
  | none =>
    rw [step_constructNone_eq]
    exact ⟨rfl, rfl, fun j t h => getElem?_append_of_some _ h⟩
  | some i =>
    rw [step_constructSome_eq]
    split
    · exact ⟨rfl, rfl, fun j t h => h⟩
    · split
      · exact ⟨rfl, rfl, fun j t h => h⟩
      · exact ⟨rfl, rfl, fun j t h => getElem?_append_of_some _ h⟩

/-- Later edits of the global parameters (direct edits, `set_prms`, `reset_prms`) do not affect any
existing snapshot. -/
theorem global_edit_keeps_snaps (s : Sys) (hw : s.WF) (hs : s.Sep) (op : SOp)
    (hop : (∃ p v, op = .setGlobal p v) ∨ (∃ y, op = .setPrms y) ∨ (∃ w, op = .reset w)) :
    (s.step op).1.snaps = s.snaps ∧ (s.step op).1.callers = s.callers := by
  have _ := hw
  rcases hop with ⟨p, v, rfl⟩ | ⟨y, rfl⟩ | ⟨w, rfl⟩
  · rcases step_setGlobal_shape s hs p v with h0 | ⟨g', -, h0⟩ <;> rw [h0] <;> exact ⟨rfl, rfl⟩
  · rw [step_setPrms_shape s hs y]; exact ⟨rfl, rfl⟩
  · cases w with
    | none => rw [step_resetNone_eq]; exact ⟨rfl, rfl⟩
    | some names =>
      rcases step_resetSome_shape s hs names with h0 | h0 <;> rw [h0] <;> exact ⟨rfl, rfl⟩

/-- Edits of a snapshot never leak into the global parameters, the caller dictionaries or the other
snapshots. -/
theorem snap_edit_no_leak (s : Sys) (hw : s.WF) (hs : s.Sep) (j : Nat) (p : List String) (v : PTree) :
    (s.step (.setSnap j p v)).1.global = s.global ∧ (s.step (.setSnap j p v)).1.callers = s.callers ∧
    ∀ (i : Nat) (t : PTree), i ≠ j → s.snaps[i]? = some t → (s.step (.setSnap j p v)).1.snaps[i]? = some t := by
  have _ := hw
  rcases step_setSnap_shape s hs j p v with h0 | ⟨t, t', -, -, h0⟩ <;> rw [h0]
  · exact ⟨rfl, rfl, fun i t _ h => h⟩
  · refine ⟨rfl, rfl, fun i t hij h => ?_⟩
    simp only
    rw [List.getElem?_set_ne (fun e => hij e.symm)]
    exact h

/-- The outcome of a construction, and the contents of the snapshot it appends when it succeeds, depend
only on the global dictionary and the caller dictionaries, not on the counter or on the snapshots. -/
theorem construct_congr (s s' : Sys) (hg : s'.global = s.global) (hc : s'.callers = s.callers)
    (c : Option Nat) :
    (s'.step (.construct c)).2 = (s.step (.construct c)).2 ∧
    ((∃ w, (s.step (.construct c)).2 = .ok w) →
      ((s'.step (.construct c)).1.snaps.getLast?).map PTree.strip =
        ((s.step (.construct c)).1.snaps.getLast?).map PTree.strip) := by
  have hfull : (s'.global.deepcopy s'.next).1.strip = (s.global.deepcopy s.next).1.strip := by
    rw [(deepcopy_tree_spec _ _).1, (deepcopy_tree_spec _ _).1, hg]
  cases c with
  | none =>
    rw [step_constructNone_eq, step_constructNone_eq]
    refine ⟨rfl, fun _ => ?_⟩
    simp only [List.getLast?_concat, Option.map_some, hfull]
  | some i =>
    rw [step_constructSome_eq, step_constructSome_eq, hc]
    cases hi : s.callers[i]? with
    | none => exact ⟨rfl, fun ⟨w, hw⟩ => by cases hw⟩
    | some prm =>
      obtain ⟨a, b, c, -⟩ := adjustTree_strip prm _ _ [] hfull
      simp only [c]
      split
      · exact ⟨rfl, fun ⟨w, hw⟩ => by cases hw⟩
      · refine ⟨by rw [b], fun _ => ?_⟩
        simp only [List.getLast?_concat, Option.map_some, a]

/-- Corrected `snap_edit_later_construct`: the comparison of the built snapshots is made for a
construction that succeeds. (The outcomes agree unconditionally: `snap_edit_later_construct_out`.) -/
theorem snap_edit_later_construct' (s : Sys) (hw : s.WF) (hs : s.Sep) (j : Nat) (p : List String) (v : PTree)
    (c : Option Nat) (hok : ∃ w, (s.step (.construct c)).2 = .ok w) :
    ((s.step (.setSnap j p v)).1.step (.construct c)).2 = (s.step (.construct c)).2 ∧
    (((s.step (.setSnap j p v)).1.step (.construct c)).1.snaps.getLast?).map PTree.strip =
      ((s.step (.construct c)).1.snaps.getLast?).map PTree.strip := by
  obtain ⟨hg, hc, -⟩ := snap_edit_no_leak s hw hs j p v
  obtain ⟨a, b⟩ := construct_congr s (s.step (.setSnap j p v)).1 hg hc c
  exact ⟨a, b hok⟩

theorem snap_edit_later_construct_out (s : Sys) (hw : s.WF) (hs : s.Sep) (j : Nat) (p : List String)
    (v : PTree) (c : Option Nat) :
    ((s.step (.setSnap j p v)).1.step (.construct c)).2 = (s.step (.construct c)).2 := by
  obtain ⟨hg, hc, -⟩ := snap_edit_no_leak s hw hs j p v
  exact (construct_congr s (s.step (.setSnap j p v)).1 hg hc c).1

end Ampy
