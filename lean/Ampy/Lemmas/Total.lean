import Ampy.Lemmas.Layers
import Ampy.Lemmas.Merge
import Mathlib.Data.Finset.Card
/-!
Lemmas behind C08: on accepted input and in-domain parameters no error branch of the cascade model is
reachable (every `AmpycloudError` the code can raise itself, its bare `assert`, and the `IndexError` /
`TypeError` a mis-shaped table would cause), and the third-party kernels are only consulted inside
their documented domains.
-/
namespace Ampy

/-- Parameter sets in which every leaf keeps its documented meaning (the part the model reads). -/
structure PrmsOK {α} (P : PPrms α) : Prop where
  t0 : 0 ≤ P.t0
  sep : SepShape P.toPrms
  scores : P.gmmScores = "AIC" ∨ P.gmmScores = "BIC"
  mode : P.gmmMode = "delta" ∨ P.gmmMode = "prob"
  hscale : match P.sliceHScale with
    | .step st sc => st.length + 1 = sc.length ∧ sortedRat st = true
    | _ => True


/-- A3: the mixture finally selected has no empty component (the code boosts the score of the others
to rule them out, and `assert`s the outcome; monitored on every scene). -/
def SelectedPopulated {α} (K : Kern) (P : PPrms α) : Prop :=
  ∀ vals ncompMax n f, selectedFit K P vals ncompMax = some (n, f) → ∀ i, i < n → i ∈ f.labels

/-! ### generic: folds and maps in `Except` that cannot fail, and where their errors come from -/

theorem foldlM_ok_of_inv {ε β γ} (f : β → γ → Except ε β) (Inv : β → Prop) :
    ∀ (l : List γ), (∀ b c, c ∈ l → Inv b → ∃ b', f b c = .ok b' ∧ Inv b') →
      ∀ b, Inv b → ∃ b', l.foldlM f b = .ok b' ∧ Inv b'
  | [], _, b, hb => ⟨b, by rw [List.foldlM_nil]; rfl, hb⟩
  | c :: t, hstep, b, hb => by
    obtain ⟨b1, h1, hI1⟩ := hstep b c List.mem_cons_self hb
    obtain ⟨b2, h2, hI2⟩ := foldlM_ok_of_inv f Inv t
      (fun b c hc hI => hstep b c (List.mem_cons_of_mem _ hc) hI) b1 hI1
    refine ⟨b2, ?_, hI2⟩
    rw [List.foldlM_cons]
    simp only [bind, Except.bind, h1]
    exact h2

theorem foldlM_error_of {ε β γ} (f : β → γ → Except ε β) (S : ε → Prop)
    (hstep : ∀ b c e, f b c = .error e → S e) :
    ∀ (l : List γ) (b : β) (e : ε), l.foldlM f b = .error e → S e
  | [], b, e, h => by
    rw [List.foldlM_nil] at h
    cases h
  | c :: t, b, e, h => by
    rw [List.foldlM_cons] at h
    simp only [bind, Except.bind] at h
    split at h
    · rename_i e' he'
      cases h
      exact hstep b c _ he'
    · exact foldlM_error_of f S hstep t _ e h

theorem mapM_error_of {ε β γ} (f : β → Except ε γ) (S : ε → Prop) :
    ∀ (l : List β), (∀ c ∈ l, ∀ e, f c = .error e → S e) → ∀ e, l.mapM f = .error e → S e
  | [], _, e, h => by
    rw [List.mapM_nil] at h
    cases h
  | a :: l, hs, e, h => by
    rw [List.mapM_cons] at h
    simp only [bind, Except.bind, pure, Except.pure] at h
    split at h
    · rename_i e' he'
      cases h
      exact hs a List.mem_cons_self _ he'
    · split at h
      · rename_i e' he'
        cases h
        exact mapM_error_of f S l (fun c hc => hs c (List.mem_cons_of_mem _ hc)) _ he'
      · cases h

/-! ### the choice of the mixture -/

theorem bestDelta_lt (abics : List Rat) (gain : Rat) (h : abics ≠ []) : bestDelta abics gain < abics.length := by
  unfold bestDelta
  apply foldl_inv _ (fun b => b < abics.length)
  · intro b m hb
    split
    · rename_i a _ ha _
      split
      · exact (List.getElem?_eq_some_iff.mp ha).1
      · exact hb
    · exact hb
  · exact List.length_pos_iff.mpr h

theorem boostScores_length (fits : List GmmFit) : (boostScores fits).length = fits.length := by
  unfold boostScores
  apply foldl_inv _ (fun (ab : List Rat) => ab.length = fits.length)
  · intro ab i hab
    split
    · split
      · rw [List.length_set]; exact hab
      · exact hab
    · exact hab
  · rw [List.length_map]

/-! ### the re-merge pass keeps count of the distinct component ids -/

theorem remerge_pair (minSep : Rat) (sb : List Rat) (order ids : List Nat) (n : Nat) :
    remerge minSep sb order ids n =
      (((List.range (sb.length - 1)).foldl (remergeStep minSep sb) (order, ids, n)).2.1,
       ((List.range (sb.length - 1)).foldl (remergeStep minSep sb) (order, ids, n)).2.2) := rfl

/-- Invariant of the re-merge pass after the indices `< k`: the ids beyond `k` are untouched, those up
to `k` come from positions up to `k`, the values met in the label column are exactly those two families,
and the counter is their number. -/
structure RInv (order : List Nat) (n k : Nat) (st : List Nat × List Nat × Nat) : Prop where
  len : st.1.length = n
  tail : ∀ j, k < j → st.1[j]? = order[j]?
  head : ∀ j x, j ≤ k → st.1[j]? = some x → ∃ j', j' ≤ k ∧ order[j']? = some x
  mem : ∀ x, x ∈ st.2.1 ↔ (∃ j, j ≤ k ∧ st.1[j]? = some x) ∨ (∃ j, k < j ∧ order[j]? = some x)
  card : st.2.2 = st.2.1.toFinset.card

theorem RInv_skip {order : List Nat} {n k : Nat} {st : List Nat × List Nat × Nat}
    (h : RInv order n k st) : RInv order n (k + 1) st := by
  refine ⟨h.len, fun j hj => h.tail j (by omega), ?_, ?_, h.card⟩
  · intro j x hj hx
    by_cases hjk : j ≤ k
    · obtain ⟨j', h1, h2⟩ := h.head j x hjk hx
      exact ⟨j', by omega, h2⟩
    · have : j = k + 1 := by omega
      subst this
      rw [h.tail (k + 1) (by omega)] at hx
      exact ⟨k + 1, le_refl _, hx⟩
  · intro x
    rw [h.mem x]
    constructor
    · rintro (⟨j, hj, hx⟩ | ⟨j, hj, hx⟩)
      · exact .inl ⟨j, by omega, hx⟩
      · by_cases hjk : j = k + 1
        · subst hjk
          rw [← h.tail (k + 1) (by omega)] at hx
          exact .inl ⟨k + 1, le_refl _, hx⟩
        · exact .inr ⟨j, by omega, hx⟩
    · rintro (⟨j, hj, hx⟩ | ⟨j, hj, hx⟩)
      · by_cases hjk : j ≤ k
        · exact .inl ⟨j, hjk, hx⟩
        · have : j = k + 1 := by omega
          subst this
          rw [h.tail (k + 1) (by omega)] at hx
          exact .inr ⟨k + 1, by omega, hx⟩
      · exact .inr ⟨j, by omega, hx⟩

theorem mem_relabel (b : List Nat) (src dst : Nat) (hne : dst ≠ src) (hd : dst ∈ b) (x : Nat) :
    x ∈ b.map (fun y => if y = src then dst else y) ↔ x ∈ b ∧ x ≠ src := by
  rw [List.mem_map]
  constructor
  · rintro ⟨y, hy, rfl⟩
    by_cases hys : y = src
    · rw [if_pos hys]; exact ⟨hd, hne⟩
    · rw [if_neg hys]; exact ⟨hy, hys⟩
  · rintro ⟨hx, hxs⟩
    exact ⟨x, hx, if_neg hxs⟩

theorem RInv_merge {order : List Nat} {n k : Nat} {st : List Nat × List Nat × Nat}
    (hon : order.length = n) (hnd : order.Nodup) (hk : k + 1 < n)
    (h : RInv order n k st) (src dst : Nat) (hs : st.1[k + 1]? = some src) (hd : st.1[k]? = some dst) :
    RInv order n (k + 1)
      (st.1.set (k + 1) dst, st.2.1.map (fun y => if y = src then dst else y), st.2.2 - 1) := by
  have hsrc : order[k + 1]? = some src := by rw [← h.tail (k + 1) (by omega)]; exact hs
  obtain ⟨jd, hjd, hdo⟩ := h.head k dst (le_refl _) hd
  -- a value sitting at a position `≤ k` of `order` is not `src`
  have hlow : ∀ j x, j ≤ k → order[j]? = some x → x ≠ src := by
    intro j x hj hx he
    subst he
    have := (List.getElem?_inj (by omega : j < order.length) hnd).mp (hx.trans hsrc.symm)
    omega
  have hhigh : ∀ j x, k + 1 < j → order[j]? = some x → x ≠ src := by
    intro j x hj hx he
    subst he
    have := (List.getElem?_inj (by omega : k + 1 < order.length) hnd).mp (hsrc.trans hx.symm)
    omega
  have hne : dst ≠ src := hlow jd dst hjd hdo
  have hsm : src ∈ st.2.1 := (h.mem src).mpr (.inr ⟨k + 1, by omega, hsrc⟩)
  have hdm : dst ∈ st.2.1 := (h.mem dst).mpr (.inl ⟨k, le_refl _, hd⟩)
  have hk1 : k + 1 < st.1.length := by rw [h.len]; exact hk
  refine ⟨by simp only [List.length_set]; exact h.len, ?_, ?_, ?_, ?_⟩
  · intro j hj
    simp only
    rw [List.getElem?_set_ne (by omega)]
    exact h.tail j (by omega)
  · intro j x hj hx
    simp only at hx
    by_cases hjk : j = k + 1
    · subst hjk
      rw [List.getElem?_set_self hk1] at hx
      cases hx
      exact ⟨jd, by omega, hdo⟩
    · rw [List.getElem?_set_ne (fun e => hjk e.symm)] at hx
      obtain ⟨j', h1, h2⟩ := h.head j x (by omega) hx
      exact ⟨j', by omega, h2⟩
  · intro x
    simp only
    rw [mem_relabel _ src dst hne hdm x, h.mem x]
    constructor
    · rintro ⟨(⟨j, hj, hx⟩ | ⟨j, hj, hx⟩), hxs⟩
      · refine .inl ⟨j, by omega, ?_⟩
        rw [List.getElem?_set_ne (by omega)]
        exact hx
      · by_cases hjk : j = k + 1
        · subst hjk
          rw [hsrc] at hx
          cases hx
          exact absurd rfl hxs
        · exact .inr ⟨j, by omega, hx⟩
    · rintro (⟨j, hj, hx⟩ | ⟨j, hj, hx⟩)
      · by_cases hjk : j = k + 1
        · subst hjk
          rw [List.getElem?_set_self hk1] at hx
          cases hx
          exact ⟨.inl ⟨k, le_refl _, hd⟩, hne⟩
        · rw [List.getElem?_set_ne (fun e => hjk e.symm)] at hx
          obtain ⟨j', h1, h2⟩ := h.head j x (by omega) hx
          exact ⟨.inl ⟨j, by omega, hx⟩, hlow j' x h1 h2⟩
      · exact ⟨.inr ⟨j, by omega, hx⟩, hhigh j x hj hx⟩
  · simp only
    have hfs : (st.2.1.map (fun y => if y = src then dst else y)).toFinset = st.2.1.toFinset.erase src := by
      ext x
      rw [List.mem_toFinset, mem_relabel _ src dst hne hdm x, Finset.mem_erase, List.mem_toFinset]
      exact And.comm
    rw [hfs, Finset.card_erase_of_mem (List.mem_toFinset.mpr hsm), h.card]

theorem RInv_step {order : List Nat} {n k : Nat} {st : List Nat × List Nat × Nat} (minSep : Rat) (sb : List Rat)
    (hon : order.length = n) (hnd : order.Nodup) (hk : k + 1 < n)
    (h : RInv order n k st) : RInv order n (k + 1) (remergeStep minSep sb st k) := by
  unfold remergeStep
  split
  · split
    · exact RInv_skip h
    · split
      · rename_i src dst hs hd
        exact RInv_merge hon hnd hk h src dst hs hd
      · exact RInv_skip h
  · exact RInv_skip h

theorem RInv_fold {order : List Nat} {n : Nat} (minSep : Rat) (sb : List Rat)
    (hon : order.length = n) (hnd : order.Nodup) :
    ∀ m, m + 1 ≤ n → ∀ st, RInv order n 0 st →
      RInv order n m ((List.range m).foldl (remergeStep minSep sb) st) := by
  intro m
  induction m with
  | zero => intro _ st h; exact h
  | succ m ih =>
    intro hm st h
    rw [List.range_succ, List.foldl_append, List.foldl_cons, List.foldl_nil]
    exact RInv_step minSep sb hon hnd (by omega) (ih (by omega) st h)

/-- With all `n` components populated (labels are exactly `0 .. n-1`) and `order` a permutation of
`0 .. n-1`, the `assert` of `ncomp_from_gmm` holds: the counter equals the number of distinct ids. -/
theorem remerge_count (minSep : Rat) (sb : List Rat) (order ids : List Nat) (n : Nat) (hn : 1 ≤ n)
    (hsb : sb.length = n) (hperm : order.Perm (List.range n)) (hids : ∀ x, x ∈ ids ↔ x < n) :
    ((remerge minSep sb order ids n).1.eraseDups).length = (remerge minSep sb order ids n).2 := by
  have hon : order.length = n := by rw [hperm.length_eq, List.length_range]
  have hnd : order.Nodup := hperm.nodup_iff.mpr List.nodup_range
  have h0 : RInv order n 0 (order, ids, n) := by
    refine ⟨hon, fun _ _ => rfl, fun j x hj hx => ⟨j, hj, hx⟩, ?_, ?_⟩
    · intro x
      simp only
      rw [hids x]
      constructor
      · intro hx
        have : x ∈ order := hperm.symm.subset (List.mem_range.mpr hx)
        obtain ⟨j, hj⟩ := List.mem_iff_getElem?.mp this
        by_cases h0 : j = 0
        · subst h0; exact .inl ⟨0, le_refl _, hj⟩
        · exact .inr ⟨j, by omega, hj⟩
      · rintro (⟨j, _, hx⟩ | ⟨j, _, hx⟩) <;>
          exact List.mem_range.mp (hperm.subset (List.mem_of_getElem? hx))
    · simp only
      have : ids.toFinset = Finset.range n := by
        ext x
        rw [List.mem_toFinset, Finset.mem_range, hids x]
      rw [this, Finset.card_range]
  rw [remerge_pair]
  simp only
  rw [eraseDups_length_eq_card]
  exact (RInv_fold minSep sb hon hnd _ (by omega) _ h0).card.symm

/-! ### `ncompFromGmm`: which branch is taken -/

theorem eraseDups_length_pos (vals : List Rat) (h : vals ≠ []) : 1 ≤ (vals.eraseDups).length := by
  cases vals with
  | nil => exact absurd rfl h
  | cons a t =>
    rw [List.eraseDups_cons, List.length_cons]
    omega

theorem map_getElem?_map_range {β γ} (f : Nat → β) (g : β → γ) (m i : Nat) (h : i < m) :
    (((List.range m).map f)[i]?).map g = some (g (f i)) := by
  rw [List.getElem?_map, List.getElem?_range h]
  rfl

theorem prob_ne_delta : ¬ ("prob" : String) = "delta" := by decide

/-- Outside the single-value shortcut and in-domain, `ncompFromGmm` is `gmmTail` on an index inside
the list of fits, which is the index `selectedFit` reports. -/
theorem ncompFromGmm_tail {α} (K : Kern) (P : PPrms α) (hK : KernOK K P.basePerc) (hP : PrmsOK P)
    (vals : List Rat) (ncompMax : Nat) (minSep : Rat) (hne : vals ≠ []) (hmax : 1 ≤ ncompMax)
    (h1 : (vals.eraseDups).length ≠ 1) :
    ∃ best, best < min ncompMax (vals.eraseDups).length ∧
      selectedFit K P vals ncompMax =
        some (best + 1, K.gmm P.gmmScores (Lay.gmmScaled P vals) (best + 1)) ∧
      ncompFromGmm K P vals ncompMax minSep = Lay.gmmTail K P vals minSep
        ((List.range (min ncompMax (vals.eraseDups).length)).map fun i =>
          K.gmm P.gmmScores (Lay.gmmScaled P vals) (i + 1)) best := by
  have hm : 1 ≤ min ncompMax (vals.eraseDups).length := by
    have := eraseDups_length_pos vals hne
    omega
  have hsc : ¬ (P.gmmScores ≠ "AIC" ∧ P.gmmScores ≠ "BIC") := by
    rintro ⟨a, b⟩
    rcases hP.scores with h | h
    · exact a h
    · exact b h
  have hfl : ((List.range (min ncompMax (vals.eraseDups).length)).map fun i =>
      K.gmm P.gmmScores (Lay.gmmScaled P vals) (i + 1)).length = min ncompMax (vals.eraseDups).length := by
    rw [List.length_map, List.length_range]
  have hal := boostScores_length ((List.range (min ncompMax (vals.eraseDups).length)).map fun i =>
      K.gmm P.gmmScores (Lay.gmmScaled P vals) (i + 1))
  rw [hfl] at hal
  have hane : boostScores ((List.range (min ncompMax (vals.eraseDups).length)).map fun i =>
      K.gmm P.gmmScores (Lay.gmmScaled P vals) (i + 1)) ≠ [] := by
    intro h
    rw [h] at hal
    simp at hal
    omega
  rcases hP.mode with hmode | hmode
  · have hb := bestDelta_lt _ P.gmmGain hane
    rw [hal] at hb
    refine ⟨_, hb, ?_, ?_⟩
    · unfold selectedFit
      simp only [hmode, if_true]
      exact map_getElem?_map_range _ _ _ _ hb
    · unfold ncompFromGmm
      rw [if_neg h1]
      simp only []
      rw [if_neg hsc, if_pos hmode]
      rfl
  · have hnd : ¬ P.gmmMode = "delta" := by rw [hmode]; exact prob_ne_delta
    have hb := hK.bestProb_lt _ P.gmmMinProb hane
    rw [hal] at hb
    refine ⟨_, hb, ?_, ?_⟩
    · unfold selectedFit
      simp only [if_neg hnd]
      exact map_getElem?_map_range _ _ _ _ hb
    · unfold ncompFromGmm
      rw [if_neg h1]
      simp only []
      rw [if_neg hsc, if_neg hnd, if_pos hmode]
      rfl

theorem calcBase_error (pctl : List Rat → Rat → Rat) (vals : List Rat) (lb q : Rat) (e : AmpyErr)
    (h : calcBase pctl vals lb q = .error e) : e = .ampy "Cloud base calculation got an empty array" := by
  unfold calcBase at h
  simp only at h
  split at h
  · cases h; rfl
  · cases h

theorem calcBase_ok (pctl : List Rat → Rat → Rat) (vals : List Rat) (lb q : Rat) (h : vals ≠ []) :
    ∃ b, calcBase pctl vals lb q = .ok b := by
  have hsel := latest_ne_nil vals lb h
  have hlen : (latest vals lb).length ≠ 0 := fun h => hsel (List.length_eq_zero_iff.mp h)
  unfold calcBase
  simp only
  rw [if_neg hlen]
  exact ⟨_, rfl⟩

theorem getElem?_map_range {β} (f : Nat → β) (m i : Nat) (h : i < m) :
    ((List.range m).map f)[i]? = some (f i) := by
  rw [List.getElem?_map, List.getElem?_range h]
  rfl

/-- Errors of the tail of `ncomp_from_gmm` on an index inside the list of fits. -/
theorem gmmTail_error_kinds {α} (K : Kern) (P : PPrms α) (vals sc : List Rat) (m : Nat) (minSep : Rat)
    (best : Nat) (hb : best < m) (e : AmpyErr)
    (h : Lay.gmmTail K P vals minSep ((List.range m).map fun i => K.gmm P.gmmScores sc (i + 1)) best = .error e) :
    e = .ampy "Cloud base calculation got an empty array" ∨ e = .other "AssertionError" := by
  unfold Lay.gmmTail at h
  rw [getElem?_map_range _ m best hb] at h
  simp only at h
  split_ifs at h with h1
  · cases h
  · simp only [bind, Except.bind, pure, Except.pure] at h
    split at h
    · rename_i e' he'
      cases h
      left
      exact mapM_error_of _ (fun e => e = .ampy "Cloud base calculation got an empty array") _
        (fun c _ e he => calcBase_error _ _ _ _ e he) _ he'
    · rename_i bases _
      generalize remerge minSep (applyPerm (K.argsort bases) bases) (K.argsort bases)
        (K.gmm P.gmmScores sc (best + 1)).labels (best + 1) = rm at h
      split_ifs at h
      · cases h
        right
        rfl

/-- The tail of `ncomp_from_gmm` returns when every component of the selected mixture is populated. -/
theorem gmmTail_total {α} (K : Kern) (P : PPrms α) (hK : KernOK K P.basePerc) (vals sc : List Rat)
    (hlen : sc.length = vals.length) (m : Nat) (minSep : Rat) (best : Nat) (hb : best < m)
    (hpop : ∀ i, i < best + 1 → i ∈ (K.gmm P.gmmScores sc (best + 1)).labels) :
    ∃ r, Lay.gmmTail K P vals minSep ((List.range m).map fun i => K.gmm P.gmmScores sc (i + 1)) best = .ok r := by
  unfold Lay.gmmTail
  rw [getElem?_map_range _ m best hb]
  simp only
  by_cases h1 : best + 1 = 1
  · rw [if_pos h1]
    exact ⟨_, rfl⟩
  · rw [if_neg h1]
    have hll : (K.gmm P.gmmScores sc (best + 1)).labels.length = vals.length := by
      rw [hK.gmm_len, hlen]
    obtain ⟨bases, hbases⟩ := mapM_ok_of_forall (fun i =>
        calcBase K.pctl ((vals.zip (K.gmm P.gmmScores sc (best + 1)).labels).filterMap
          fun (x : Rat × Nat) => if x.2 = i then some x.1 else none) P.lookback P.basePerc)
      (List.range (best + 1)) (by
        intro i hi
        apply calcBase_ok
        obtain ⟨j, hj, hji⟩ := List.mem_iff_getElem.mp (hpop i (List.mem_range.mp hi))
        have hjv : j < vals.length := hll ▸ hj
        apply List.ne_nil_of_mem (a := vals[j])
        rw [List.mem_filterMap]
        exact ⟨_, zip_getElem_mem vals _ j hjv hj, by simp [hji]⟩)
    have hbl : bases.length = best + 1 := by
      rw [Lay.mapM_ok_length _ _ _ hbases, List.length_range]
    have hperm := hK.argsort_perm bases
    have hsb : (applyPerm (K.argsort bases) bases).length = best + 1 := by
      rw [(applyPerm_perm _ _ hperm).length_eq, hbl]
    have hcount := remerge_count minSep (applyPerm (K.argsort bases) bases) (K.argsort bases)
      (K.gmm P.gmmScores sc (best + 1)).labels (best + 1) (by omega) hsb
      (by have := isPermOf_perm hperm; rwa [hbl] at this)
      (fun x => ⟨hK.gmm_lt _ _ _ (Nat.succ_pos best) x, hpop x⟩)
    simp only [bind, Except.bind, pure, Except.pure]
    have hbases' : (List.range (best + 1)).mapM (fun i =>
        calcBase K.pctl ((vals.zip (K.gmm P.gmmScores sc (best + 1)).labels).filterMap
          fun (x : Rat × Nat) => match x with | (v, l) => if l = i then some v else none) P.lookback P.basePerc)
        = .ok bases := hbases
    rw [hbases']
    simp only
    generalize remerge minSep (applyPerm (K.argsort bases) bases) (K.argsort bases)
        (K.gmm P.gmmScores sc (best + 1)).labels (best + 1) = rm at hcount
    rw [if_neg (not_not.mpr hcount)]
    exact ⟨_, rfl⟩

/-- `ncomp_from_gmm` returns for at least two distinct values, `1 ≤ ncompMax`, in-domain parameters and
a populated selection: neither `AmpycloudError` (unknown scores / mode, empty component) nor the `assert`
nor an `IndexError` is reachable. -/
theorem ncompFromGmm_total {α} (K : Kern) (P : PPrms α) (hK : KernOK K P.basePerc) (hP : PrmsOK P)
    (hA3 : SelectedPopulated K P) (vals : List Rat) (ncompMax : Nat) (minSep : Rat)
    (hne : vals ≠ []) (hmax : 1 ≤ ncompMax) :
    ∃ r, ncompFromGmm K P vals ncompMax minSep = .ok r := by
  by_cases h1 : (vals.eraseDups).length = 1
  · unfold ncompFromGmm
    rw [if_pos h1]
    exact ⟨_, rfl⟩
  · obtain ⟨best, hb, hsel, heq⟩ := ncompFromGmm_tail K P hK hP vals ncompMax minSep hne hmax h1
    rw [heq]
    exact gmmTail_total K P hK vals _ (Lay.gmmScaled_length P.gmmRescale vals) _ minSep best hb
      (hA3 vals ncompMax _ _ hsel)

/-- Without A3: the only failures of `ncomp_from_gmm` in-domain are the empty-component refusal of
`calc_base_height` and the bare `assert`. -/
theorem ncompFromGmm_error_kinds {α} (K : Kern) (P : PPrms α) (hK : KernOK K P.basePerc) (hP : PrmsOK P)
    (vals : List Rat) (ncompMax : Nat) (minSep : Rat) (hne : vals ≠ []) (hmax : 1 ≤ ncompMax) (e : AmpyErr)
    (h : ncompFromGmm K P vals ncompMax minSep = .error e) :
    e = .ampy "Cloud base calculation got an empty array" ∨ e = .other "AssertionError" := by
  by_cases h1 : (vals.eraseDups).length = 1
  · unfold ncompFromGmm at h
    rw [if_pos h1] at h
    cases h
  · obtain ⟨best, hb, _, heq⟩ := ncompFromGmm_tail K P hK hP vals ncompMax minSep hne hmax h1
    rw [heq] at h
    exact gmmTail_error_kinds K P vals _ _ minSep best hb e h

/-! ### `find_slices` -/

theorem applyScaling_total (vals : List (Option Rat)) (spec : ScaleSpec)
    (h : match spec with
      | .step st sc => st.length + 1 = sc.length ∧ sortedRat st = true
      | _ => True) : ∃ out, applyScaling vals spec = .ok out := by
  cases spec with
  | none => exact ⟨_, rfl⟩
  | shift s k =>
    unfold applyScaling
    simp only
    split <;> exact ⟨_, rfl⟩
  | minmax mr =>
    unfold applyScaling
    simp only
    split <;> exact ⟨_, rfl⟩
  | minmaxFixed lo hi =>
    unfold applyScaling
    simp only
    split <;> exact ⟨_, rfl⟩
  | step st sc =>
    simp only at h
    unfold applyScaling
    simp only
    split
    · exact ⟨_, rfl⟩
    · unfold stepScale isSortedRat
      rw [if_neg (not_not.mpr h.1), h.2]
      exact ⟨_, rfl⟩

theorem scaledPoints_total {α} (data : List (Hit α)) (dtScale : Rat) (hSpec : ScaleSpec) (keep : List Bool)
    (h : ∀ vals, ∃ out, applyScaling vals hSpec = .ok out) :
    ∃ pts, scaledPoints data dtScale hSpec keep = .ok pts := by
  obtain ⟨sdt, h1⟩ := applyScaling_total (dts data) (.shift none dtScale) trivial
  obtain ⟨sh, h2⟩ := h (heights data)
  unfold scaledPoints
  simp only [bind, Except.bind, pure, Except.pure, h1, h2]
  exact ⟨_, rfl⟩

theorem sliceIds_total {α} (K : Kern) (P : PPrms α) (hP : PrmsOK P) (data : List (Hit α)) :
    ∃ sids, sliceIds K P data = .ok sids := by
  unfold sliceIds
  simp only [bind, Except.bind, pure, Except.pure]
  split
  · exact ⟨_, rfl⟩
  · split
    · obtain ⟨pts, hpts⟩ := scaledPoints_total data P.sliceDtScale P.sliceHScale (data.map fun _ => true)
        (fun vals => applyScaling_total vals P.sliceHScale hP.hscale)
      rw [hpts]
      exact ⟨_, rfl⟩
    · exact ⟨_, rfl⟩

/-! ### `find_groups` -/

theorem groupBundle_total {α} (K : Kern) (P : PPrms α) (data : List (Hit α)) (sids : List Int) (slices : Table)
    (bundle : List Nat) (g : List (Option Int)) : ∃ g', groupBundle K P data sids slices bundle g = .ok g' := by
  unfold groupBundle
  simp only [bind, Except.bind, pure, Except.pure]
  split
  · rename_i e he
    obtain ⟨pts, hpts⟩ := scaledPoints_total data P.grpDtScale
      (.shift (some 0) (min P.hScaleHi (max P.hScaleLo
        (minRat (bundle.filterMap fun i => (slices[i]?).map (·.fluff))))))
      (sids.map ((bundle.filterMap fun i => (slices[i]?).map (·.cid)).contains ·))
      (fun vals => applyScaling_total vals _ trivial)
    rw [hpts] at he
    cases he
  · split <;> exact ⟨_, rfl⟩

theorem groupBase_ok {α} [DecidableEq α] (K : Kern) (P : PPrms α) (hK : KernOK K P.basePerc) (hP : PrmsOK P)
    (data : List (Hit α)) (gids : List Int) (cid : Int) (h : IdsOK data gids) (hc : cid ∈ clusterIds gids) :
    ∃ b, groupBase K P data gids cid = .ok b := by
  unfold groupBase baseForMask
  exact calcBase_ok _ _ _ _ (selectSorted_mem K.toMetK P.toPrms data gids cid hK.met h hc hP.t0).1

theorem firstTooClose_total {α} (P : Prms α) (hs : SepShape P) (bases : List Rat) :
    ∃ r, firstTooClose P bases = .ok r := by
  obtain ⟨seps, hseps⟩ := mapM_ok_of_forall (minSepFor P) bases (fun c _ => by
    obtain ⟨v, hv, _⟩ := minSepFor_ok P hs c
    exact ⟨v, hv⟩)
  unfold firstTooClose
  simp only [bind, Except.bind, pure, Except.pure, hseps]
  exact ⟨_, rfl⟩

theorem mergeLoop_total {α} [DecidableEq α] (K : Kern) (P : PPrms α) (hK : KernOK K P.basePerc) (hP : PrmsOK P)
    (data : List (Hit α)) (sids : List Int) :
    ∀ (fuel : Nat) (gids : List Int) (prelim : List (Int × Rat)), MOK data sids gids →
      BasesCurrent K P data gids prelim → (prelim.map (·.1)).Perm (clusterIds gids) →
      ∃ out, mergeLoop K P data fuel gids prelim = .ok out := by
  intro fuel
  induction fuel with
  | zero =>
    intro gids prelim _ _ _
    rw [mergeLoop]
    exact ⟨_, rfl⟩
  | succ n ih =>
    intro gids prelim hg hcur hcids
    obtain ⟨r, hr⟩ := firstTooClose_total P.toPrms hP.sep (prelim.map (·.2))
    rw [mergeLoop]
    simp only [bind, Except.bind, pure, Except.pure, hr]
    cases r with
    | none => exact ⟨_, rfl⟩
    | some k =>
      obtain ⟨hk1, hk⟩ := firstTooClose_some _ _ k hr
      rw [List.length_map] at hk
      simp only
      split
      · rename_i cidK bK cidB bB hkK hkB
        have hmem : ∀ (c : Int) (b : Rat), (c, b) ∈ prelim → c ∈ gids ∧ c ≠ -1 ∧ 0 ≤ c ∧ c ∈ sids := by
          intro c b hcb
          have h1 : c ∈ clusterIds gids := hcids.subset (List.mem_map.mpr ⟨(c, b), hcb, rfl⟩)
          obtain ⟨h2, h3⟩ := (mem_clusterIds gids c).mp h1
          have := hg.1.toOK.ge c h2
          exact ⟨h2, h3, by omega, hg.2 c h2⟩
        obtain ⟨_, _, hK0, _⟩ := hmem cidK bK (List.mem_of_getElem? hkK)
        obtain ⟨hBg, hB1, hB0, hBs⟩ := hmem cidB bB (List.mem_of_getElem? hkB)
        have hg' := relabel_ok data sids gids hg cidK cidB hK0 hB0 hBs
        have hBc : cidB ∈ clusterIds (gids.map fun g => if g = cidK then cidB else g) := by
          rw [mem_clusterIds]
          refine ⟨List.mem_map.mpr ⟨cidB, hBg, ?_⟩, hB1⟩
          split <;> rfl
        obtain ⟨b, hb⟩ := groupBase_ok K P hK hP data _ cidB hg'.1.toOK hBc
        obtain ⟨_, hcur', hcids'⟩ :=
          merge_step_inv K P data gids prelim hcur hcids k hk1 hk cidK cidB bK bB b hkK hkB hb
        rw [hb]
        exact ih _ _ hg' hcur' hcids'
      · exact ⟨_, rfl⟩

theorem mergeCloseGroups_total {α} [DecidableEq α] (K : Kern) (P : PPrms α) (hK : KernOK K P.basePerc)
    (hP : PrmsOK P) (data : List (Hit α)) (sids gids : List Int) (hg : MOK data sids gids) :
    ∃ out, mergeCloseGroups K P data gids = .ok out := by
  obtain ⟨bases, hbases⟩ := mapM_ok_of_forall (groupBase K P data gids) (clusterIds gids)
    (fun c hc => groupBase_ok K P hK hP data gids c hg.1.toOK hc)
  have hf2 := mapM_ok_forall₂ _ _ _ hbases
  have hlenb := hf2.length_eq
  have hperm : (applyPerm (K.prelimOrder bases) ((clusterIds gids).zip bases)).Perm
      ((clusterIds gids).zip bases) := by
    apply applyPerm_perm
    have := hK.prelimOrder_perm bases
    rwa [List.length_zip, hlenb, Nat.min_self]
  have hcur : BasesCurrent K P data gids
      (applyPerm (K.prelimOrder bases) ((clusterIds gids).zip bases)) := by
    intro e he
    exact forall₂_zip_mem hf2 e (hperm.subset he)
  have hfst : ((clusterIds gids).zip bases).map (·.1) = clusterIds gids :=
    List.map_fst_zip (le_of_eq hlenb)
  have hcids : ((applyPerm (K.prelimOrder bases) ((clusterIds gids).zip bases)).map (·.1)).Perm
      (clusterIds gids) := by
    have := hperm.map (·.1)
    rwa [hfst] at this
  obtain ⟨res, hres⟩ := mergeLoop_total K P hK hP data sids
    (applyPerm (K.prelimOrder bases) ((clusterIds gids).zip bases)).length gids _ hg hcur hcids
  unfold mergeCloseGroups
  simp only [bind, Except.bind, pure, Except.pure, hbases, hres]
  exact ⟨_, rfl⟩

theorem groupIds_total {α} [DecidableEq α] (K : Kern) (P : PPrms α) (hK : KernOK K P.basePerc) (hP : PrmsOK P)
    (data : List (Hit α)) (sids : List Int) (slices : Table) (hs : IdsExact data sids) :
    ∃ r, groupIds K P data sids slices = .ok r := by
  have hg0 : GOK data sids (data.map fun _ => none) := by
    refine ⟨by simp, ?_⟩
    intro i m hi
    rw [List.getElem?_map] at hi
    obtain ⟨_, _, hv⟩ := Option.map_eq_some_iff.mp hi
    cases hv
  obtain ⟨g1, hg1, hG1⟩ := foldlM_ok_of_inv
    (fun g b => groupBundle K P data sids slices b g) (GOK data sids) (bundlesOf (P.padPerc / 100) slices).1
    (fun g b _ hg => by
      obtain ⟨g', hg'⟩ := groupBundle_total K P data sids slices b g
      exact ⟨g', hg', groupBundle_ok K P data sids slices hs b g g' hg hg'⟩)
    _ hg0
  obtain ⟨merged, hm⟩ := mergeCloseGroups_total K P hK hP data sids _ (filled_ok data sids hs g1 hG1)
  unfold groupIds
  simp only [bind, Except.bind, pure, Except.pure, hg1, hm]
  exact ⟨_, rfl⟩

/-! ### `find_layers` -/

/-- A step of the layering loop returns, unless `ncomp_from_gmm` (called on a non-empty array with
`ncomp_max ≥ 1`) fails, in which case the step fails with the same error. -/
theorem layerStep_reduce {α} (K : Kern) (P : PPrms α) (hP : PrmsOK P) (data : List (Hit α)) (gids : List Int)
    (groups : Table) (st : List (Option Int) × List Int) (ind : Nat) :
    (∃ st', Lay.layerStep K P data gids groups st ind = .ok st') ∨
    (∃ (hs : List Rat) (m : Nat) (minSep : Rat) (e : AmpyErr), hs ≠ [] ∧ 1 ≤ m ∧
      ncompFromGmm K P hs m minSep = .error e ∧ Lay.layerStep K P data gids groups st ind = .error e) := by
  obtain ⟨lids, ncomps⟩ := st
  cases hgi : groups[ind]? with
  | none => exact .inl ⟨_, Lay.layerStep_none K P data gids groups _ ind hgi⟩
  | some g =>
    unfold Lay.layerStep
    simp only [hgi, bind, Except.bind, pure, Except.pure]
    split
    · exact .inl ⟨_, rfl⟩
    · rename_i hc
      simp only [Bool.or_eq_true, decide_eq_true_eq, not_or, not_lt] at hc
      have hne : Lay.grpHs data (Lay.grpPos K data gids g.cid) ≠ [] := by
        intro he
        rw [he] at hc
        simp at hc
      obtain ⟨minSep, hms, _⟩ := minSepFor_ok P.toPrms hP.sep g.base
      rw [hms]
      simp only
      have hm : 1 ≤ min ((Lay.grpHs data (Lay.grpPos K data gids g.cid)).eraseDups).length 3 := by
        have := eraseDups_length_pos _ hne
        omega
      cases hr : ncompFromGmm K P (Lay.grpHs data (Lay.grpPos K data gids g.cid))
          (min ((Lay.grpHs data (Lay.grpPos K data gids g.cid)).eraseDups).length 3) minSep with
      | error e => exact .inr ⟨_, _, _, e, hne, hm, hr, rfl⟩
      | ok r =>
        left
        simp only
        split <;> exact ⟨_, rfl⟩

theorem layerIds_total {α} [DecidableEq α] (K : Kern) (P : PPrms α) (hK : KernOK K P.basePerc) (hP : PrmsOK P)
    (hA3 : SelectedPopulated K P) (data : List (Hit α)) (gids : List Int) (groups : Table) :
    ∃ r, layerIds K P data gids groups = .ok r := by
  obtain ⟨st, hst, _⟩ := foldlM_ok_of_inv (Lay.layerStep K P data gids groups) (fun _ => True)
    (List.range groups.length)
    (fun st ind _ _ => by
      rcases layerStep_reduce K P hP data gids groups st ind with ⟨st', h⟩ | ⟨hs, m, minSep, e, h1, h2, h3, _⟩
      · exact ⟨st', h, trivial⟩
      · obtain ⟨r, hr⟩ := ncompFromGmm_total K P hK hP hA3 hs m minSep h1 h2
        rw [hr] at h3
        cases h3)
    (data.map (fun _ => none), []) trivial
  rw [Lay.layerIds_eq]
  simp only [bind, Except.bind, pure, Except.pure, hst]
  exact ⟨_, rfl⟩

theorem layerIds_error_kinds {α} [DecidableEq α] (K : Kern) (P : PPrms α) (hK : KernOK K P.basePerc)
    (hP : PrmsOK P) (data : List (Hit α)) (gids : List Int) (groups : Table) (e : AmpyErr)
    (h : layerIds K P data gids groups = .error e) :
    e = .ampy "Cloud base calculation got an empty array" ∨ e = .other "AssertionError" := by
  rw [Lay.layerIds_eq] at h
  simp only [bind, Except.bind, pure, Except.pure] at h
  split at h
  · rename_i e' he'
    cases h
    refine foldlM_error_of (Lay.layerStep K P data gids groups)
      (fun e => e = .ampy "Cloud base calculation got an empty array" ∨ e = .other "AssertionError")
      ?_ _ _ _ he'
    intro st ind e hse
    rcases layerStep_reduce K P hP data gids groups st ind with ⟨st', h⟩ | ⟨hs, m, minSep, e', h1, h2, h3, h4⟩
    · rw [h] at hse
      cases hse
    · rw [h4] at hse
      cases hse
      exact ncompFromGmm_error_kinds K P hK hP hs m minSep h1 h2 _ h3
  · cases h

/-! ### the whole chunk -/

/-- `find_slices` and `find_groups` always return on accepted input: `run` is `find_layers` on a chunk
whose group ids respect the id invariant. -/
theorem run_reduce {α} [DecidableEq α] (K : Kern) (P : PPrms α) (hK : KernOK K P.basePerc) (hP : PrmsOK P)
    (checked : List (Hit α)) :
    ∃ (c2 : Chunk α) (gids : List Int) (gr : Table), IdsExact c2.data gids ∧ c2.groups = some gr ∧
      c2.gids = some gids ∧ run K P checked = findLayers K P c2 := by
  unfold run
  simp only [bind, Except.bind]
  have hl0 : (construct P checked).layers = none := rfl
  have hs0 : (construct P checked).slices = none := rfl
  generalize construct P checked = c0 at hl0 hs0 ⊢
  obtain ⟨sids, hs⟩ := sliceIds_total K P hP c0.data
  have hse := sliceIds_exact K P c0.data P.basePerc hK sids hs
  obtain ⟨sl, hsl⟩ := metarize_total K.toMetK P.toPrms .slices c0.layers.isSome c0.data sids hK.met
    hse.toOK hP.t0 (by rintro ⟨h, _⟩; cases h)
  obtain ⟨⟨gids, iso⟩, hg⟩ := groupIds_total K P hK hP c0.data sids sl hse
  have hge := groupIds_exact K P c0.data P.basePerc hK sids sl hse gids iso hg
  obtain ⟨gr, hgr⟩ := metarize_total K.toMetK P.toPrms .groups false c0.data gids hK.met
    hge.toOK hP.t0 (by rintro ⟨_, h, _⟩; cases h)
  have e1 : findSlices K P c0 = .ok { c0 with sids := some sids, slices := some sl } := by
    unfold findSlices
    simp only [bind, Except.bind, pure, Except.pure, hs, hsl, hs0, carryIsolated]
  rw [e1]
  simp only
  have e2 : findGroups K P { c0 with sids := some sids, slices := some sl } =
      .ok { c0 with sids := some sids, gids := some gids, slices := some (setIsolated sl iso),
                    groups := some gr } := by
    unfold findGroups
    simp only [bind, Except.bind, pure, Except.pure, hl0, Option.isSome_none, Bool.false_eq_true, if_false,
      hg, hgr]
  rw [e2]
  simp only
  exact ⟨{ c0 with sids := some sids, gids := some gids, slices := some (setIsolated sl iso),
                   groups := some gr }, gids, gr, hge, rfl, rfl, rfl⟩

theorem findLayers_of_layerIds {α} [DecidableEq α] (K : Kern) (P : PPrms α) (hK : KernOK K P.basePerc)
    (hP : PrmsOK P) (c2 : Chunk α) (gids : List Int) (gr : Table) (hg : IdsExact c2.data gids)
    (h1 : c2.groups = some gr) (h2 : c2.gids = some gids) (lids nc : List Int)
    (hl : layerIds K P c2.data gids gr = .ok (lids, nc)) : ∃ c, findLayers K P c2 = .ok c := by
  have hle := layerIds_exact K P c2.data P.basePerc hK gids gr hg lids nc hl
  obtain ⟨lay, hlay⟩ := metarize_total K.toMetK P.toPrms .layers true c2.data lids hK.met
    hle.toOK hP.t0 (by rintro ⟨h, _⟩; cases h)
  unfold findLayers
  simp only [h1, h2, bind, Except.bind, pure, Except.pure, hl, hlay]
  exact ⟨_, rfl⟩

/-- No error branch of the cascade is reachable: `run` returns a chunk. -/
theorem run_total {α} [DecidableEq α] (K : Kern) (P : PPrms α) (hK : KernOK K P.basePerc) (hP : PrmsOK P)
    (hA3 : SelectedPopulated K P) (checked : List (Hit α)) :
    ∃ c, run K P checked = .ok c := by
  obtain ⟨c2, gids, gr, hg, h1, h2, heq⟩ := run_reduce K P hK hP checked
  rw [heq]
  obtain ⟨⟨lids, nc⟩, hl⟩ := layerIds_total K P hK hP hA3 c2.data gids gr
  obtain ⟨c, hc⟩ := findLayers_of_layerIds K P hK hP c2 gids gr hg h1 h2 lids nc hl
  exact ⟨c, hc⟩

/-- Whatever the mixtures answer (A3 not assumed), the only way the cascade can fail on accepted input
with in-domain parameters is the empty-component refusal of `calc_base_height` (an `AmpycloudError`) or
the bare `assert` of `ncomp_from_gmm`: never an `IndexError`/`TypeError`, never another `AmpycloudError`. -/
theorem run_error_kinds {α} [DecidableEq α] (K : Kern) (P : PPrms α) (hK : KernOK K P.basePerc) (hP : PrmsOK P)
    (checked : List (Hit α)) (e : AmpyErr) (h : run K P checked = .error e) :
    e = .ampy "Cloud base calculation got an empty array" ∨ e = .other "AssertionError" := by
  obtain ⟨c2, gids, gr, hg, h1, h2, heq⟩ := run_reduce K P hK hP checked
  rw [heq] at h
  cases hl : layerIds K P c2.data gids gr with
  | error e' =>
    have : findLayers K P c2 = .error e' := by
      unfold findLayers
      simp only [h1, h2, bind, Except.bind, hl]
    rw [this] at h
    cases h
    exact layerIds_error_kinds K P hK hP c2.data gids gr _ hl
  | ok r =>
    obtain ⟨lids, nc⟩ := r
    obtain ⟨c, hc⟩ := findLayers_of_layerIds K P hK hP c2 gids gr hg h1 h2 lids nc hl
    rw [hc] at h
    cases h

/-- The message can be built for every level of every chunk `run` returns: `metarMsg` is a total
function (the model has no error branch once the table exists). -/
theorem metarMsg_total (msa : Option Rat) (flag : Bool) (n : Nat) (t : Table) : ∃ s, metarMsg msa flag n t = s :=
  ⟨_, rfl⟩

end Ampy
