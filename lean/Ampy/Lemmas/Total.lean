import Ampy.Lemmas.Layers
import Ampy.Lemmas.Merge
import Mathlib.Data.Finset.Card
/-!
Lemmas behind C08: on accepted input and in-domain parameters no error branch of the cascade model is
reachable (every `AmpycloudError` the code can raise itself, its bare `assert`, and the `IndexError` /
`TypeError` a mis-shaped table would cause), and the third-party kernels are only consulted inside
their documented domains.
-/
namespace Ampy

/-- Parameter sets in which every leaf keeps its documented meaning (the part the model reads). -/
structure PrmsOK {α} (P : PPrms α) : Prop where
  t0 : 0 ≤ P.t0
  sep : SepShape P.toPrms
  scores : P.gmmScores = "AIC" ∨ P.gmmScores = "BIC"
  mode : P.gmmMode = "delta" ∨ P.gmmMode = "prob"
  hscale : match P.sliceHScale with
    | .step st sc => st.length + 1 = sc.length ∧ sortedRat st = true
    | _ => True

/-- The mixture that `ncomp_from_gmm` ends up selecting, with its number of components. -/
def selectedFit {α} (K : Kern) (P : PPrms α) (vals : List Rat) (ncompMax : Nat) : Option (Nat × GmmFit) :=
  let ncompMax := min ncompMax (vals.eraseDups).length
  let scaled : List Rat :=
    match P.gmmRescale with
    | none => vals
    | some x => (valids (minmaxScale (vals.map some) none none .doIt)).map (· * x)
  let fits := (List.range ncompMax).map fun i => K.gmm P.gmmScores scaled (i + 1)
  let abics := boostScores fits
  let best := if P.gmmMode = "delta" then bestDelta abics P.gmmGain else K.bestProb abics P.gmmMinProb
  (fits[best]?).map fun f => (best + 1, f)

/-- A3: the mixture finally selected has no empty component (the code boosts the score of the others
to rule them out, and `assert`s the outcome; monitored on every scene). -/
def SelectedPopulated {α} (K : Kern) (P : PPrms α) : Prop :=
  ∀ vals ncompMax n f, selectedFit K P vals ncompMax = some (n, f) → ∀ i, i < n → i ∈ f.labels

/-! ### generic: folds and maps in `Except` that cannot fail, and where their errors come from -/

theorem foldlM_ok_of_inv {ε β γ} (f : β → γ → Except ε β) (Inv : β → Prop) :
    ∀ (l : List γ), (∀ b c, c ∈ l → Inv b → ∃ b', f b c = .ok b' ∧ Inv b') →
      ∀ b, Inv b → ∃ b', l.foldlM f b = .ok b' ∧ Inv b'
  | [], _, b, hb => ⟨b, by rw [List.foldlM_nil]; rfl, hb⟩
  | c :: t, hstep, b, hb => by
    obtain ⟨b1, h1, hI1⟩ := hstep b c List.mem_cons_self hb
    obtain ⟨b2, h2, hI2⟩ := foldlM_ok_of_inv f Inv t
      (fun b c hc hI => hstep b c (List.mem_cons_of_mem _ hc) hI) b1 hI1
    refine ⟨b2, ?_, hI2⟩
    rw [List.foldlM_cons]
    simp only [bind, Except.bind, h1]
    exact h2

theorem foldlM_error_of {ε β γ} (f : β → γ → Except ε β) (S : ε → Prop)
    (hstep : ∀ b c e, f b c = .error e → S e) :
    ∀ (l : List γ) (b : β) (e : ε), l.foldlM f b = .error e → S e
  | [], b, e, h => by
    rw [List.foldlM_nil] at h
    cases h
  | c :: t, b, e, h => by
    rw [List.foldlM_cons] at h
    simp only [bind, Except.bind] at h
    split at h
    · rename_i e' he'
      cases h
      exact hstep b c _ he'
    · exact foldlM_error_of f S hstep t _ e h

theorem mapM_error_of {ε β γ} (f : β → Except ε γ) (S : ε → Prop) :
    ∀ (l : List β), (∀ c ∈ l, ∀ e, f c = .error e → S e) → ∀ e, l.mapM f = .error e → S e
  | [], _, e, h => by
    rw [List.mapM_nil] at h
    cases h
  | a :: l, hs, e, h => by
    rw [List.mapM_cons] at h
    simp only [bind, Except.bind, pure, Except.pure] at h
    split at h
    · rename_i e' he'
      cases h
      exact hs a List.mem_cons_self _ he'
    · split at h
      · rename_i e' he'
        cases h
        exact mapM_error_of f S l (fun c hc => hs c (List.mem_cons_of_mem _ hc)) _ he'
      · cases h

/-! ### the choice of the mixture -/

theorem bestDelta_lt (abics : List Rat) (gain : Rat) (h : abics ≠ []) : bestDelta abics gain < abics.length := by
  unfold bestDelta
  apply foldl_inv _ (fun b => b < abics.length)
  · intro b m hb
    split
    · rename_i a _ ha _
      split
      · exact (List.getElem?_eq_some_iff.mp ha).1
      · exact hb
    · exact hb
  · exact List.length_pos_iff.mpr h

theorem boostScores_length (fits : List GmmFit) : (boostScores fits).length = fits.length := by
  unfold boostScores
  apply foldl_inv _ (fun (ab : List Rat) => ab.length = fits.length)
  · intro ab i hab
    split
    · split
      · rw [List.length_set]; exact hab
      · exact hab
    · exact hab
  · rw [List.length_map]

/-! ### the re-merge pass keeps count of the distinct component ids -/

theorem remerge_pair (minSep : Rat) (sb : List Rat) (order ids : List Nat) (n : Nat) :
    remerge minSep sb order ids n =
      (((List.range (sb.length - 1)).foldl (remergeStep minSep sb) (order, ids, n)).2.1,
       ((List.range (sb.length - 1)).foldl (remergeStep minSep sb) (order, ids, n)).2.2) := rfl

/-- Invariant of the re-merge pass after the indices `< k`: the ids beyond `k` are untouched, those up
to `k` come from positions up to `k`, the values met in the label column are exactly those two families,
and the counter is their number. -/
structure RInv (order : List Nat) (n k : Nat) (st : List Nat × List Nat × Nat) : Prop where
  len : st.1.length = n
  tail : ∀ j, k < j → st.1[j]? = order[j]?
  head : ∀ j x, j ≤ k → st.1[j]? = some x → ∃ j', j' ≤ k ∧ order[j']? = some x
  mem : ∀ x, x ∈ st.2.1 ↔ (∃ j, j ≤ k ∧ st.1[j]? = some x) ∨ (∃ j, k < j ∧ order[j]? = some x)
  card : st.2.2 = st.2.1.toFinset.card

theorem RInv_skip {order : List Nat} {n k : Nat} {st : List Nat × List Nat × Nat}
    (h : RInv order n k st) : RInv order n (k + 1) st := by
  refine ⟨h.len, fun j hj => h.tail j (by omega), ?_, ?_, h.card⟩
  · intro j x hj hx
    by_cases hjk : j ≤ k
    · obtain ⟨j', h1, h2⟩ := h.head j x hjk hx
      exact ⟨j', by omega, h2⟩
    · have : j = k + 1 := by omega
      subst this
      rw [h.tail (k + 1) (by omega)] at hx
      exact ⟨k + 1, le_refl _, hx⟩
  · intro x
    rw [h.mem x]
    constructor
    · rintro (⟨j, hj, hx⟩ | ⟨j, hj, hx⟩)
      · exact .inl ⟨j, by omega, hx⟩
      · by_cases hjk : j = k + 1
        · subst hjk
          rw [← h.tail (k + 1) (by omega)] at hx
          exact .inl ⟨k + 1, le_refl _, hx⟩
        · exact .inr ⟨j, by omega, hx⟩
    · rintro (⟨j, hj, hx⟩ | ⟨j, hj, hx⟩)
      · by_cases hjk : j ≤ k
        · exact .inl ⟨j, hjk, hx⟩
        · have : j = k + 1 := by omega
          subst this
          rw [h.tail (k + 1) (by omega)] at hx
          exact .inr ⟨k + 1, by omega, hx⟩
      · exact .inr ⟨j, by omega, hx⟩

theorem mem_relabel (b : List Nat) (src dst : Nat) (hne : dst ≠ src) (hd : dst ∈ b) (x : Nat) :
    x ∈ b.map (fun y => if y = src then dst else y) ↔ x ∈ b ∧ x ≠ src := by
  rw [List.mem_map]
  constructor
  · rintro ⟨y, hy, rfl⟩
    by_cases hys : y = src
    · rw [if_pos hys]; exact ⟨hd, hne⟩
    · rw [if_neg hys]; exact ⟨hy, hys⟩
  · rintro ⟨hx, hxs⟩
    exact ⟨x, hx, if_neg hxs⟩

theorem RInv_merge {order : List Nat} {n k : Nat} {st : List Nat × List Nat × Nat}
    (hon : order.length = n) (hnd : order.Nodup) (hk : k + 1 < n)
    (h : RInv order n k st) (src dst : Nat) (hs : st.1[k + 1]? = some src) (hd : st.1[k]? = some dst) :
    RInv order n (k + 1)
      (st.1.set (k + 1) dst, st.2.1.map (fun y => if y = src then dst else y), st.2.2 - 1) := by
  have hsrc : order[k + 1]? = some src := by rw [← h.tail (k + 1) (by omega)]; exact hs
  obtain ⟨jd, hjd, hdo⟩ := h.head k dst (le_refl _) hd
  -- a value sitting at a position `≤ k` of `order` is not `src`
  have hlow : ∀ j x, j ≤ k → order[j]? = some x → x ≠ src := by
    intro j x hj hx he
    subst he
    have := (List.getElem?_inj (by omega : j < order.length) hnd).mp (hx.trans hsrc.symm)
    omega
  have hhigh : ∀ j x, k + 1 < j → order[j]? = some x → x ≠ src := by
    intro j x hj hx he
    subst he
    have := (List.getElem?_inj (by omega : k + 1 < order.length) hnd).mp (hsrc.trans hx.symm)
    omega
  have hne : dst ≠ src := hlow jd dst hjd hdo
  have hsm : src ∈ st.2.1 := (h.mem src).mpr (.inr ⟨k + 1, by omega, hsrc⟩)
  have hdm : dst ∈ st.2.1 := (h.mem dst).mpr (.inl ⟨k, le_refl _, hd⟩)
  have hk1 : k + 1 < st.1.length := by rw [h.len]; exact hk
  refine ⟨by simp only [List.length_set]; exact h.len, ?_, ?_, ?_, ?_⟩
  · intro j hj
    simp only
    rw [List.getElem?_set_ne (by omega)]
    exact h.tail j (by omega)
  · intro j x hj hx
    simp only at hx
    by_cases hjk : j = k + 1
    · subst hjk
      rw [List.getElem?_set_self hk1] at hx
      cases hx
      exact ⟨jd, by omega, hdo⟩
    · rw [List.getElem?_set_ne (fun e => hjk e.symm)] at hx
      obtain ⟨j', h1, h2⟩ := h.head j x (by omega) hx
      exact ⟨j', by omega, h2⟩
  · intro x
    simp only
    rw [mem_relabel _ src dst hne hdm x, h.mem x]
    constructor
    · rintro ⟨(⟨j, hj, hx⟩ | ⟨j, hj, hx⟩), hxs⟩
      · refine .inl ⟨j, by omega, ?_⟩
        rw [List.getElem?_set_ne (by omega)]
        exact hx
      · by_cases hjk : j = k + 1
        · subst hjk
          rw [hsrc] at hx
          cases hx
          exact absurd rfl hxs
        · exact .inr ⟨j, by omega, hx⟩
    · rintro (⟨j, hj, hx⟩ | ⟨j, hj, hx⟩)
      · by_cases hjk : j = k + 1
        · subst hjk
          rw [List.getElem?_set_self hk1] at hx
          cases hx
          exact ⟨.inl ⟨k, le_refl _, hd⟩, hne⟩
        · rw [List.getElem?_set_ne (fun e => hjk e.symm)] at hx
          obtain ⟨j', h1, h2⟩ := h.head j x (by omega) hx
          exact ⟨.inl ⟨j, by omega, hx⟩, hlow j' x h1 h2⟩
      · exact ⟨.inr ⟨j, by omega, hx⟩, hhigh j x hj hx⟩
  · simp only
    have hfs : (st.2.1.map (fun y => if y = src then dst else y)).toFinset = st.2.1.toFinset.erase src := by
      ext x
      rw [List.mem_toFinset, mem_relabel _ src dst hne hdm x, Finset.mem_erase, List.mem_toFinset]
      exact And.comm
    rw [hfs, Finset.card_erase_of_mem (List.mem_toFinset.mpr hsm), h.card]

theorem RInv_step {order : List Nat} {n k : Nat} {st : List Nat × List Nat × Nat} (minSep : Rat) (sb : List Rat)
    (hon : order.length = n) (hnd : order.Nodup) (hk : k + 1 < n)
    (h : RInv order n k st) : RInv order n (k + 1) (remergeStep minSep sb st k) := by
  unfold remergeStep
  split
  · split
    · exact RInv_skip h
    · split
      · rename_i src dst hs hd
        exact RInv_merge hon hnd hk h src dst hs hd
      · exact RInv_skip h
  · exact RInv_skip h

theorem RInv_fold {order : List Nat} {n : Nat} (minSep : Rat) (sb : List Rat)
    (hon : order.length = n) (hnd : order.Nodup) :
    ∀ m, m + 1 ≤ n → ∀ st, RInv order n 0 st →
      RInv order n m ((List.range m).foldl (remergeStep minSep sb) st) := by
  intro m
  induction m with
  | zero => intro _ st h; exact h
  | succ m ih =>
    intro hm st h
    rw [List.range_succ, List.foldl_append, List.foldl_cons, List.foldl_nil]
    exact RInv_step minSep sb hon hnd (by omega) (ih (by omega) st h)

/-- With all `n` components populated (labels are exactly `0 .. n-1`) and `order` a permutation of
`0 .. n-1`, the `assert` of `ncomp_from_gmm` holds: the counter equals the number of distinct ids. -/
theorem remerge_count (minSep : Rat) (sb : List Rat) (order ids : List Nat) (n : Nat) (hn : 1 ≤ n)
    (hsb : sb.length = n) (hperm : order.Perm (List.range n)) (hids : ∀ x, x ∈ ids ↔ x < n) :
    ((remerge minSep sb order ids n).1.eraseDups).length = (remerge minSep sb order ids n).2 := by
  have hon : order.length = n := by rw [hperm.length_eq, List.length_range]
  have hnd : order.Nodup := hperm.nodup_iff.mpr List.nodup_range
  have h0 : RInv order n 0 (order, ids, n) := by
    refine ⟨hon, fun _ _ => rfl, fun j x hj hx => ⟨j, hj, hx⟩, ?_, ?_⟩
    · intro x
      simp only
      rw [hids x]
      constructor
      · intro hx
        have : x ∈ order := hperm.symm.subset (List.mem_range.mpr hx)
        obtain ⟨j, hj⟩ := List.mem_iff_getElem?.mp this
        by_cases h0 : j = 0
        · subst h0; exact .inl ⟨0, le_refl _, hj⟩
        · exact .inr ⟨j, by omega, hj⟩
      · rintro (⟨j, _, hx⟩ | ⟨j, _, hx⟩) <;>
          exact List.mem_range.mp (hperm.subset (List.mem_of_getElem? hx))
    · simp only
      have : ids.toFinset = Finset.range n := by
        ext x
        rw [List.mem_toFinset, Finset.mem_range, hids x]
      rw [this, Finset.card_range]
  rw [remerge_pair]
  simp only
  rw [eraseDups_length_eq_card]
  exact (RInv_fold minSep sb hon hnd _ (by omega) _ h0).card.symm

/-! ### `ncompFromGmm`: which branch is taken -/

theorem eraseDups_length_pos (vals : List Rat) (h : vals ≠ []) : 1 ≤ (vals.eraseDups).length := by
  cases vals with
  | nil => exact absurd rfl h
  | cons a t =>
    rw [List.eraseDups_cons, List.length_cons]
    omega

theorem prob_ne_delta : ¬ ("prob" : String) = "delta" := by decide

/-- Outside the single-value shortcut and in-domain, `ncompFromGmm` is `gmmTail` on an index inside
the list of fits, which is the index `selectedFit` reports. -/
theorem ncompFromGmm_tail {α} (K : Kern) (P : PPrms α) (hK : KernOK K P.basePerc) (hP : PrmsOK P)
    (vals : List Rat) (ncompMax : Nat) (minSep : Rat) (hne : vals ≠ []) (hmax : 1 ≤ ncompMax)
    (h1 : (vals.eraseDups).length ≠ 1) :
    ∃ best, best < min ncompMax (vals.eraseDups).length ∧
      selectedFit K P vals ncompMax =
        some (best + 1, K.gmm P.gmmScores (Lay.gmmScaled P vals) (best + 1)) ∧
      ncompFromGmm K P vals ncompMax minSep = Lay.gmmTail K P vals minSep
        ((List.range (min ncompMax (vals.eraseDups).length)).map fun i =>
          K.gmm P.gmmScores (Lay.gmmScaled P vals) (i + 1)) best := by
  have hm : 1 ≤ min ncompMax (vals.eraseDups).length := by
    have := eraseDups_length_pos vals hne
    omega
  have hsc : ¬ (P.gmmScores ≠ "AIC" ∧ P.gmmScores ≠ "BIC") := by
    rintro ⟨a, b⟩
    rcases hP.scores with h | h
    · exact a h
    · exact b h
  have hfl : ((List.range (min ncompMax (vals.eraseDups).length)).map fun i =>
      K.gmm P.gmmScores (Lay.gmmScaled P vals) (i + 1)).length = min ncompMax (vals.eraseDups).length := by
    rw [List.length_map, List.length_range]
  have hal := boostScores_length ((List.range (min ncompMax (vals.eraseDups).length)).map fun i =>
      K.gmm P.gmmScores (Lay.gmmScaled P vals) (i + 1))
  rw [hfl] at hal
  have hane : boostScores ((List.range (min ncompMax (vals.eraseDups).length)).map fun i =>
      K.gmm P.gmmScores (Lay.gmmScaled P vals) (i + 1)) ≠ [] := by
    intro h
    rw [h] at hal
    simp at hal
    omega
  rcases hP.mode with hmode | hmode
  · have hb := bestDelta_lt _ P.gmmGain hane
    rw [hal] at hb
    refine ⟨_, hb, ?_, ?_⟩
    · unfold selectedFit
      simp only [hmode, if_true]
      unfold Lay.gmmScaled at hb ⊢
      rw [List.getElem?_map, List.getElem?_range hb]
      rfl
    · unfold ncompFromGmm
      rw [if_neg h1]
      simp only []
      rw [if_neg hsc, if_pos hmode]
      rfl
  · have hnd : ¬ P.gmmMode = "delta" := by rw [hmode]; exact prob_ne_delta
    have hb := hK.bestProb_lt _ P.gmmMinProb hane
    rw [hal] at hb
    refine ⟨_, hb, ?_, ?_⟩
    · unfold selectedFit
      simp only [if_neg hnd]
      unfold Lay.gmmScaled at hb ⊢
      rw [List.getElem?_map, List.getElem?_range hb]
      rfl
    · unfold ncompFromGmm
      rw [if_neg h1]
      simp only []
      rw [if_neg hsc, if_neg hnd, if_pos hmode]
      rfl

/-- `ncomp_from_gmm` returns for at least two distinct values, `1 ≤ ncompMax`, in-domain parameters and
a populated selection: neither `AmpycloudError` (unknown scores / mode, empty component) nor the `assert`
nor an `IndexError` is reachable. -/
theorem ncompFromGmm_total {α} (K : Kern) (P : PPrms α) (hK : KernOK K P.basePerc) (hP : PrmsOK P)
    (hA3 : SelectedPopulated K P) (vals : List Rat) (ncompMax : Nat) (minSep : Rat)
    (hne : vals ≠ []) (hmax : 1 ≤ ncompMax) :
    ∃ r, ncompFromGmm K P vals ncompMax minSep = .ok r := by
  sorry

theorem sliceIds_total {α} (K : Kern) (P : PPrms α) (hP : PrmsOK P) (data : List (Hit α)) :
    ∃ sids, sliceIds K P data = .ok sids := by
  sorry

theorem groupIds_total {α} [DecidableEq α] (K : Kern) (P : PPrms α) (hK : KernOK K P.basePerc) (hP : PrmsOK P)
    (data : List (Hit α)) (sids : List Int) (slices : Table) (hs : IdsExact data sids) :
    ∃ r, groupIds K P data sids slices = .ok r := by
  sorry

theorem layerIds_total {α} [DecidableEq α] (K : Kern) (P : PPrms α) (hK : KernOK K P.basePerc) (hP : PrmsOK P)
    (hA3 : SelectedPopulated K P) (data : List (Hit α)) (gids : List Int) (groups : Table) :
    ∃ r, layerIds K P data gids groups = .ok r := by
  sorry

/-- No error branch of the cascade is reachable: `run` returns a chunk. -/
theorem run_total {α} [DecidableEq α] (K : Kern) (P : PPrms α) (hK : KernOK K P.basePerc) (hP : PrmsOK P)
    (hA3 : SelectedPopulated K P) (checked : List (Hit α)) :
    ∃ c, run K P checked = .ok c := by
  sorry

/-- Whatever the mixtures answer (A3 not assumed), the only way the cascade can fail on accepted input
with in-domain parameters is the empty-component refusal of `calc_base_height` (an `AmpycloudError`) or
the bare `assert` of `ncomp_from_gmm`: never an `IndexError`/`TypeError`, never another `AmpycloudError`. -/
theorem run_error_kinds {α} [DecidableEq α] (K : Kern) (P : PPrms α) (hK : KernOK K P.basePerc) (hP : PrmsOK P)
    (checked : List (Hit α)) (e : AmpyErr) (h : run K P checked = .error e) :
    e = .ampy "Cloud base calculation got an empty array" ∨ e = .other "AssertionError" := by
  sorry

/-- The message can be built for every level of every chunk `run` returns: `metarMsg` is a total
function (the model has no error branch once the table exists). -/
theorem metarMsg_total (msa : Option Rat) (flag : Bool) (n : Nat) (t : Table) : ∃ s, metarMsg msa flag n t = s :=
  ⟨_, rfl⟩

end Ampy
