import Ampy.Model.Pipeline
import Mathlib.Tactic.Linarith
/-! Lemmas behind C07: cropping above MSA + buffer. -/
namespace Ampy

/-- Two hits that agree except, possibly, for heights that are both above the limit. -/
def SameButAbove {α} (lim : Rat) (h h' : Hit α) : Prop :=
  h = h' ∨ (h.ceilo = h'.ceilo ∧ h.dt = h'.dt ∧ h.type = h'.type ∧ aboveLim lim h = true ∧ aboveLim lim h' = true)

/-- What happens to one row. -/
def cropOne {α} (lim : Rat) (h : Hit α) : Option (Hit α) :=
  if aboveLim lim h then (if h.type ≤ 1 then some { h with type := 0, height := none } else none) else some h

theorem cropRows_eq {α} (lim : Rat) (data : List (Hit α)) : cropRows lim data = data.filterMap (cropOne lim) := rfl

theorem cropRows_append {α} (lim : Rat) (a b : List (Hit α)) :
    cropRows lim (a ++ b) = cropRows lim a ++ cropRows lim b := by
  simp [cropRows_eq, List.filterMap_append]

theorem cropRows_cons {α} (lim : Rat) (h : Hit α) (t : List (Hit α)) :
    cropRows lim (h :: t) = (cropOne lim h).toList ++ cropRows lim t := by
  simp only [cropRows_eq, List.filterMap_cons]
  cases cropOne lim h <;> simp

theorem cropOne_below {α} (lim : Rat) (h : Hit α) (hb : aboveLim lim h = false) : cropOne lim h = some h := by
  simp [cropOne, hb]

theorem cropOne_same {α} (lim : Rat) (h h' : Hit α) (hs : SameButAbove lim h h') :
    cropOne lim h = cropOne lim h' := by
  rcases hs with rfl | ⟨hc, hd, ht, ha, ha'⟩
  · rfl
  · simp only [cropOne, ha, ha', if_true, ht]
    split
    · cases h; cases h'; simp_all
    · rfl

theorem aboveLim_cropOne {α} (lim : Rat) (h h' : Hit α) (hc : cropOne lim h = some h') : aboveLim lim h' = false := by
  unfold cropOne at hc
  by_cases ha : aboveLim lim h = true
  · rw [if_pos ha] at hc
    split at hc
    · cases hc; rfl
    · cases hc
  · rw [if_neg ha] at hc; cases hc; simpa using ha

theorem cropOne_idem {α} (lim : Rat) (h h' : Hit α) (hc : cropOne lim h = some h') : cropOne lim h' = some h' :=
  cropOne_below lim h' (aboveLim_cropOne lim h h' hc)

theorem cropRows_idem {α} (lim : Rat) (data : List (Hit α)) : cropRows lim (cropRows lim data) = cropRows lim data := by
  induction data with
  | nil => rfl
  | cons h t ih =>
    rw [cropRows_cons, cropRows_append, ih]
    cases hc : cropOne lim h with
    | none => simp [cropRows_eq]
    | some h' =>
      simp only [Option.toList_some]
      rw [cropRows_cons, cropOne_idem lim h h' hc]
      simp [cropRows_eq]

theorem cropRows_same {α} (lim : Rat) (d d' : List (Hit α)) (h : List.Forall₂ (SameButAbove lim) d d') :
    cropRows lim d = cropRows lim d' := by
  induction h with
  | nil => rfl
  | cons hab _ ih => rw [cropRows_cons, cropRows_cons, ih, cropOne_same _ _ _ hab]

theorem aboveLim_same {α} (lim : Rat) (h h' : Hit α) (hs : SameButAbove lim h h') : aboveLim lim h = aboveLim lim h' := by
  rcases hs with rfl | ⟨_, _, _, ha, ha'⟩
  · rfl
  · rw [ha, ha']

theorem filter_above_length_same {α} (lim : Rat) (d d' : List (Hit α)) (h : List.Forall₂ (SameButAbove lim) d d') :
    (d.filter (aboveLim lim)).length = (d'.filter (aboveLim lim)).length := by
  induction h with
  | nil => rfl
  | cons hab _ ih =>
    simp only [List.filter_cons, aboveLim_same _ _ _ hab]
    split <;> simp [ih]

theorem mem_cropRows_not_above {α} (lim : Rat) (data : List (Hit α)) : ∀ h ∈ cropRows lim data, aboveLim lim h = false := by
  intro h hm
  rw [cropRows_eq, List.mem_filterMap] at hm
  obtain ⟨h0, _, hc⟩ := hm
  exact aboveLim_cropOne lim h0 h hc

end Ampy
