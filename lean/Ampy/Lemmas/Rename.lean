import Ampy.Model.Pipeline
/-!
Lemmas behind C16: the cascade is equivariant under injective renaming of the ceilometers. The model
is polymorphic in the name type with decidable equality only, so it cannot sort, hash or slice names;
the theorem makes that explicit.
-/
namespace Ampy

def Hit.mapCeilo {α β} (f : α → β) (h : Hit α) : Hit β := ⟨f h.ceilo, h.dt, h.height, h.type⟩

def Prms.mapCeilo {α β} (f : α → β) (P : Prms α) : Prms β :=
  { msa := P.msa, msaBuf := P.msaBuf, t0 := P.t0, t8 := P.t8, basePerc := P.basePerc, lookback := P.lookback,
    exclude := P.exclude.map f, minSepVals := P.minSepVals, minSepLims := P.minSepLims, sliceThr := P.sliceThr,
    sliceDtScale := P.sliceDtScale, padPerc := P.padPerc, grpDtScale := P.grpDtScale, hScaleLo := P.hScaleLo,
    hScaleHi := P.hScaleHi, minOktaToSplit := P.minOktaToSplit, gmmScores := P.gmmScores, gmmMode := P.gmmMode,
    gmmMinProb := P.gmmMinProb, gmmGain := P.gmmGain, gmmRescale := P.gmmRescale }

def PPrms.mapCeilo {α β} (f : α → β) (P : PPrms α) : PPrms β :=
  { toPrms := P.toPrms.mapCeilo f, sliceHScale := P.sliceHScale }

def Chunk.mapCeilo {α β} (f : α → β) (c : Chunk α) : Chunk β :=
  { data := c.data.map (Hit.mapCeilo f), flag := c.flag, sids := c.sids, gids := c.gids, lids := c.lids,
    slices := c.slices, groups := c.groups, layers := c.layers }

section helpers
variable {α β : Type}

theorem map_dt_mapCeilo (f : α → β) (data : List (Hit α)) :
    (data.map (Hit.mapCeilo f)).map (·.dt) = data.map (·.dt) := by
  rw [List.map_map]; rfl

theorem map_height_mapCeilo (f : α → β) (data : List (Hit α)) :
    (data.map (Hit.mapCeilo f)).map (·.height) = data.map (·.height) := by
  rw [List.map_map]; rfl

theorem map_ceilo_mapCeilo (f : α → β) (data : List (Hit α)) :
    (data.map (Hit.mapCeilo f)).map (·.ceilo) = (data.map (·.ceilo)).map f := by
  rw [List.map_map, List.map_map]; rfl

theorem getElem?_height_mapCeilo (f : α → β) (data : List (Hit α)) (i : Nat) :
    ((data.map (Hit.mapCeilo f))[i]?).bind (·.height) = (data[i]?).bind (·.height) := by
  rw [List.getElem?_map]; cases data[i]? <;> rfl

theorem members_map (g : Hit α → Hit β) (data : List (Hit α)) (ids : List Int) (cid : Int) :
    members (data.map g) ids cid = (members data ids cid).map g := by
  unfold members
  rw [List.zip_map_left, List.filterMap_map, List.map_filterMap]
  congr 1
  funext ⟨h, i⟩
  by_cases hi : i = cid <;> simp [hi]

theorem filter_ne_map_inj [DecidableEq α] [DecidableEq β] (f : α → β) (hf : Function.Injective f)
    (a : α) (l : List α) :
    (l.map f).filter (fun b => !b == f a) = (l.filter (fun b => !b == a)).map f := by
  rw [List.filter_map]
  congr 2
  funext b
  show (!(f b == f a)) = !(b == a)
  congr 1
  rw [Bool.eq_iff_iff, beq_iff_eq, beq_iff_eq]
  exact hf.eq_iff

theorem eraseDups_map_inj_aux [DecidableEq α] [DecidableEq β] (f : α → β) (hf : Function.Injective f) :
    ∀ (n : Nat) (l : List α), l.length ≤ n → (l.map f).eraseDups = l.eraseDups.map f := by
  intro n
  induction n with
  | zero =>
    intro l hl
    have : l = [] := List.eq_nil_of_length_eq_zero (Nat.le_zero.mp hl)
    subst this; simp
  | succ n ih =>
    intro l hl
    cases l with
    | nil => simp
    | cons a t =>
      rw [List.map_cons, List.eraseDups_cons, List.eraseDups_cons, List.map_cons,
        filter_ne_map_inj f hf, ih]
      have := List.length_filter_le (fun b => !b == a) t
      simp at hl; omega

theorem eraseDups_map_inj [DecidableEq α] [DecidableEq β] (f : α → β) (hf : Function.Injective f)
    (l : List α) : (l.map f).eraseDups = l.eraseDups.map f :=
  eraseDups_map_inj_aux f hf l.length l (Nat.le_refl _)

theorem ceilos_mapCeilo [DecidableEq α] [DecidableEq β] (f : α → β) (hf : Function.Injective f)
    (data : List (Hit α)) : ceilos (data.map (Hit.mapCeilo f)) = (ceilos data).map f := by
  unfold ceilos
  rw [map_ceilo_mapCeilo, eraseDups_map_inj f hf]

theorem hitCount_mapCeilo [DecidableEq α] [DecidableEq β] (f : α → β) (hf : Function.Injective f)
    (cs : List α) (hs : List (Hit α)) :
    hitCount (cs.map f) (hs.map (Hit.mapCeilo f)) = hitCount cs hs := by
  unfold hitCount
  rw [List.map_map]
  congr 1
  apply List.map_congr_left
  intro c _
  show (((hs.map (Hit.mapCeilo f)).filter (fun h => decide (h.ceilo = f c))).map (·.dt)).eraseDups.length = _
  rw [List.filter_map, map_dt_mapCeilo]
  have : ((fun (h : Hit β) => decide (h.ceilo = f c)) ∘ Hit.mapCeilo f)
      = fun (h : Hit α) => decide (h.ceilo = c) := by
    funext h
    simp [Hit.mapCeilo, hf.eq_iff]
  rw [this]

theorem maxHits_mapCeilo [DecidableEq α] [DecidableEq β] (f : α → β) (hf : Function.Injective f)
    (data : List (Hit α)) : maxHits (data.map (Hit.mapCeilo f)) = maxHits data := by
  unfold maxHits
  rw [ceilos_mapCeilo f hf, hitCount_mapCeilo f hf]

theorem contains_map_inj [DecidableEq α] [DecidableEq β] (f : α → β) (hf : Function.Injective f)
    (l : List α) (x : α) : (l.map f).contains (f x) = l.contains x := by
  rw [Bool.eq_iff_iff]
  simp [hf.eq_iff]

theorem baseMask_mapCeilo [DecidableEq α] [DecidableEq β] (f : α → β) (hf : Function.Injective f)
    (P : Prms α) (data : List (Hit α)) (ids : List Int) (cid : Int) :
    baseMask (P.mapCeilo f) (data.map (Hit.mapCeilo f)) ids cid = baseMask P data ids cid := by
  unfold baseMask
  have hfilt : ((data.map (Hit.mapCeilo f)).zip (ids.map (· == cid))).map
        (fun (x : Hit β × Bool) => x.2 && !((P.mapCeilo f).exclude.contains x.1.ceilo))
      = (data.zip (ids.map (· == cid))).map
        (fun (x : Hit α × Bool) => x.2 && !(P.exclude.contains x.1.ceilo)) := by
    rw [List.zip_map_left, List.map_map]
    apply List.map_congr_left
    rintro ⟨h, b⟩ _
    simp only [Function.comp, Prod.map, id, Prms.mapCeilo, Hit.mapCeilo, contains_map_inj f hf]
  have hex : ((P.mapCeilo f).exclude ≠ []) ↔ (P.exclude ≠ []) := by
    simp [Prms.mapCeilo]
  have ht0 : (P.mapCeilo f).t0 = P.t0 := rfl
  by_cases he : P.exclude ≠ []
  · have he' := hex.mpr he
    simp only [if_pos he, if_pos he']
    rw [hfilt, ht0]
  · have he' := fun h => he (hex.mp h)
    simp only [if_neg he, if_neg he']

theorem selectSorted_mapCeilo (f : α → β) (K : MetK) (data : List (Hit α)) (mask : List Bool) :
    selectSorted K (data.map (Hit.mapCeilo f)) mask = selectSorted K data mask := by
  unfold selectSorted
  rw [map_dt_mapCeilo]
  simp only [getElem?_height_mapCeilo]

theorem baseForMask_mapCeilo (f : α → β) (K : MetK) (P : Prms α) (data : List (Hit α)) (mask : List Bool) :
    baseForMask K (P.mapCeilo f) (data.map (Hit.mapCeilo f)) mask = baseForMask K P data mask := by
  unfold baseForMask
  rw [selectSorted_mapCeilo]; rfl

theorem filterMap_height_mapCeilo (f : α → β) (l : List (Hit α)) :
    (l.map (Hit.mapCeilo f)).filterMap (·.height) = l.filterMap (·.height) := by
  rw [List.filterMap_map]; rfl

theorem filterMap_pts_mapCeilo (f : α → β) (l : List (Hit α)) :
    (l.map (Hit.mapCeilo f)).filterMap (fun h => h.height.map fun y => (h.dt, y))
      = l.filterMap (fun h => h.height.map fun y => (h.dt, y)) := by
  rw [List.filterMap_map]; rfl

theorem mkRow_mapCeilo [DecidableEq α] [DecidableEq β] (f : α → β) (hf : Function.Injective f)
    (K : MetK) (P : Prms α) (w : Which) (data : List (Hit α)) (ids : List Int) (cid : Int) :
    mkRow K (P.mapCeilo f) w (data.map (Hit.mapCeilo f)) ids cid = mkRow K P w data ids cid := by
  unfold mkRow
  simp only [members_map, ceilos_mapCeilo f hf, hitCount_mapCeilo f hf, maxHits_mapCeilo f hf,
    baseMask_mapCeilo f hf, baseForMask_mapCeilo, filterMap_height_mapCeilo, filterMap_pts_mapCeilo]
  rfl

theorem aboveLim_mapCeilo (f : α → β) (lim : Rat) (h : Hit α) :
    aboveLim lim (Hit.mapCeilo f h) = aboveLim lim h := rfl

theorem cropRows_mapCeilo (f : α → β) (lim : Rat) (data : List (Hit α)) :
    cropRows lim (data.map (Hit.mapCeilo f)) = (cropRows lim data).map (Hit.mapCeilo f) := by
  unfold cropRows
  rw [List.filterMap_map, List.map_filterMap]
  congr 1
  funext h
  simp only [Function.comp, aboveLim_mapCeilo]
  by_cases h1 : aboveLim lim h = true <;> by_cases h2 : h.type ≤ 1 <;>
    simp [h1, h2, Hit.mapCeilo]

theorem length_filter_mapCeilo (f : α → β) (p : Hit β → Bool) (q : Hit α → Bool)
    (hpq : ∀ h, p (Hit.mapCeilo f h) = q h) (data : List (Hit α)) :
    ((data.map (Hit.mapCeilo f)).filter p).length = (data.filter q).length := by
  rw [List.filter_map, List.length_map]
  have : p ∘ Hit.mapCeilo f = q := funext hpq
  rw [this]

theorem map_const_mapCeilo {γ : Type} (f : α → β) (c : γ) (data : List (Hit α)) :
    (data.map (Hit.mapCeilo f)).map (fun _ => c) = data.map (fun _ => c) := by
  rw [List.map_map]; rfl

theorem dts_mapCeilo (f : α → β) (data : List (Hit α)) : dts (data.map (Hit.mapCeilo f)) = dts data := by
  unfold dts; rw [List.map_map]; rfl

theorem heights_mapCeilo (f : α → β) (data : List (Hit α)) :
    heights (data.map (Hit.mapCeilo f)) = heights data := by
  unfold heights; rw [List.map_map]; rfl

theorem scaledPoints_mapCeilo (f : α → β) (data : List (Hit α)) (dtScale : Rat) (hSpec : ScaleSpec)
    (keep : List Bool) :
    scaledPoints (data.map (Hit.mapCeilo f)) dtScale hSpec keep = scaledPoints data dtScale hSpec keep := by
  unfold scaledPoints
  rw [dts_mapCeilo, heights_mapCeilo]

theorem scatterLabels_mapCeilo (f : α → β) (data : List (Hit α)) (labels : List Int) (dflt : Int) :
    scatterLabels (data.map (Hit.mapCeilo f)) labels dflt = scatterLabels data labels dflt := by
  unfold scatterLabels
  rw [List.foldl_map]; rfl

theorem ncompFromGmm_mapCeilo (f : α → β) (K : Kern) (P : PPrms α) (vals : List Rat) (n : Nat) (s : Rat) :
    ncompFromGmm K (P.mapCeilo f) vals n s = ncompFromGmm K P vals n s := rfl

theorem minSepFor_mapCeilo (f : α → β) (P : Prms α) (h : Rat) :
    minSepFor (P.mapCeilo f) h = minSepFor P h := rfl

theorem firstTooClose_mapCeilo (f : α → β) (P : Prms α) (bases : List Rat) :
    firstTooClose (P.mapCeilo f) bases = firstTooClose P bases := by
  unfold firstTooClose
  have : minSepFor (P.mapCeilo f) = minSepFor P := funext (minSepFor_mapCeilo f P)
  rw [this]

theorem rowsIdx_mapCeilo (f : α → β) (data : List (Hit α)) (k : List Bool) :
    ((List.range (data.map (Hit.mapCeilo f)).length).zip ((data.map (Hit.mapCeilo f)).zip k)).filterMap
        (fun (x : Nat × Hit β × Bool) => if x.2.2 && x.2.1.height.isSome then some x.1 else none)
      = ((List.range data.length).zip (data.zip k)).filterMap
        (fun (x : Nat × Hit α × Bool) => if x.2.2 && x.2.1.height.isSome then some x.1 else none) := by
  rw [List.length_map, List.zip_map_left, List.zip_map_right, List.filterMap_map]
  rfl

theorem groupBundle_mapCeilo (f : α → β) (K : Kern) (P : PPrms α) (data : List (Hit α)) (sids : List Int)
    (slices : Table) (bundle : List Nat) (gids : List (Option Int)) :
    groupBundle K (P.mapCeilo f) (data.map (Hit.mapCeilo f)) sids slices bundle gids
      = groupBundle K P data sids slices bundle gids := by
  unfold groupBundle
  simp only [scaledPoints_mapCeilo]
  have := rowsIdx_mapCeilo f data (sids.map ((bundle.filterMap fun i => (slices[i]?).map (·.cid)).contains ·))
  rw [this]
  rfl

theorem groupBase_mapCeilo [DecidableEq α] [DecidableEq β] (f : α → β) (hf : Function.Injective f)
    (K : Kern) (P : PPrms α) (data : List (Hit α)) (gids : List Int) (cid : Int) :
    groupBase K (P.mapCeilo f) (data.map (Hit.mapCeilo f)) gids cid = groupBase K P data gids cid := by
  unfold groupBase
  show baseForMask K.toMetK (P.toPrms.mapCeilo f) _ (baseMask (P.toPrms.mapCeilo f) _ gids cid) = _
  rw [baseMask_mapCeilo f hf, baseForMask_mapCeilo]

theorem mergeLoop_mapCeilo [DecidableEq α] [DecidableEq β] (f : α → β) (hf : Function.Injective f)
    (K : Kern) (P : PPrms α) (data : List (Hit α)) :
    ∀ (fuel : Nat) (gids : List Int) (prelim : List (Int × Rat)),
      mergeLoop K (P.mapCeilo f) (data.map (Hit.mapCeilo f)) fuel gids prelim
        = mergeLoop K P data fuel gids prelim := by
  intro fuel
  induction fuel with
  | zero => intro gids prelim; rfl
  | succ n ih =>
    intro gids prelim
    rw [mergeLoop, mergeLoop]
    have h1 : (PPrms.mapCeilo f P).toPrms = P.toPrms.mapCeilo f := rfl
    rw [h1]
    simp only [firstTooClose_mapCeilo, groupBase_mapCeilo f hf, ih]

theorem mergeCloseGroups_mapCeilo [DecidableEq α] [DecidableEq β] (f : α → β) (hf : Function.Injective f)
    (K : Kern) (P : PPrms α) (data : List (Hit α)) (gids : List Int) :
    mergeCloseGroups K (P.mapCeilo f) (data.map (Hit.mapCeilo f)) gids = mergeCloseGroups K P data gids := by
  unfold mergeCloseGroups
  have : groupBase K (P.mapCeilo f) (data.map (Hit.mapCeilo f)) gids = groupBase K P data gids :=
    funext (groupBase_mapCeilo f hf K P data gids)
  rw [this]
  simp only [mergeLoop_mapCeilo f hf]

end helpers

theorem crop_mapCeilo {α β} (f : α → β) (P : Prms α) (data : List (Hit α)) :
    crop (P.mapCeilo f) (data.map (Hit.mapCeilo f)) = ((crop P data).1.map (Hit.mapCeilo f), (crop P data).2) := by
  unfold crop
  have hmsa : (P.mapCeilo f).msa = P.msa := rfl
  have hbuf : (P.mapCeilo f).msaBuf = P.msaBuf := rfl
  have ht0 : (P.mapCeilo f).t0 = P.t0 := rfl
  rw [hmsa, hbuf, ht0]
  cases P.msa with
  | none => rfl
  | some m =>
    simp only []
    rw [cropRows_mapCeilo, length_filter_mapCeilo f _ _ (aboveLim_mapCeilo f (m + P.msaBuf))]

theorem metarize_mapCeilo {α β} [DecidableEq α] [DecidableEq β] (f : α → β) (hf : Function.Injective f)
    (K : MetK) (P : Prms α) (w : Which) (ld : Bool) (data : List (Hit α)) (ids : List Int) :
    metarize K (P.mapCeilo f) w ld (data.map (Hit.mapCeilo f)) ids = metarize K P w ld data ids := by
  unfold metarize
  have : mkRow K (P.mapCeilo f) w (data.map (Hit.mapCeilo f)) ids = mkRow K P w data ids := by
    funext cid; exact mkRow_mapCeilo f hf K P w data ids cid
  rw [this]

theorem sliceIds_mapCeilo {α β} (f : α → β) (K : Kern) (P : PPrms α) (data : List (Hit α)) :
    sliceIds K (P.mapCeilo f) (data.map (Hit.mapCeilo f)) = sliceIds K P data := by
  unfold sliceIds
  rw [length_filter_mapCeilo f (fun h => h.height.isSome) (fun h => h.height.isSome) (fun _ => rfl)]
  simp only [scatterLabels_mapCeilo, scaledPoints_mapCeilo, map_const_mapCeilo]
  rfl

theorem groupIds_mapCeilo {α β} [DecidableEq α] [DecidableEq β] (f : α → β) (hf : Function.Injective f)
    (K : Kern) (P : PPrms α) (data : List (Hit α)) (sids : List Int) (slices : Table) :
    groupIds K (P.mapCeilo f) (data.map (Hit.mapCeilo f)) sids slices = groupIds K P data sids slices := by
  unfold groupIds
  simp only [groupBundle_mapCeilo, map_const_mapCeilo, mergeCloseGroups_mapCeilo f hf]
  rfl

theorem layerIds_mapCeilo {α β} [DecidableEq α] [DecidableEq β] (f : α → β)
    (K : Kern) (P : PPrms α) (data : List (Hit α)) (gids : List Int) (groups : Table) :
    layerIds K (P.mapCeilo f) (data.map (Hit.mapCeilo f)) gids groups = layerIds K P data gids groups := by
  unfold layerIds
  simp only [map_dt_mapCeilo, getElem?_height_mapCeilo, map_const_mapCeilo, ncompFromGmm_mapCeilo]
  rfl

section stages
variable {α β : Type}

theorem construct_mapCeilo (f : α → β) (P : PPrms α) (checked : List (Hit α)) :
    construct (P.mapCeilo f) (checked.map (Hit.mapCeilo f)) = Chunk.mapCeilo f (construct P checked) := by
  unfold construct
  have h1 : (PPrms.mapCeilo f P).toPrms = P.toPrms.mapCeilo f := rfl
  rw [h1, crop_mapCeilo]
  cases crop P.toPrms checked
  rfl

theorem Chunk.mapCeilo_data (f : α → β) (c : Chunk α) :
    (Chunk.mapCeilo f c).data = c.data.map (Hit.mapCeilo f) := rfl

theorem PPrms.mapCeilo_toPrms (f : α → β) (P : PPrms α) :
    (PPrms.mapCeilo f P).toPrms = P.toPrms.mapCeilo f := rfl

theorem ok_bind {ε γ δ : Type} (a : γ) (g : γ → Except ε δ) : (Except.ok a >>= g) = g a := rfl
theorem error_bind {ε γ δ : Type} (e : ε) (g : γ → Except ε δ) :
    ((Except.error e : Except ε γ) >>= g) = Except.error e := rfl
theorem map_ok {ε γ δ : Type} (φ : γ → δ) (a : γ) :
    Except.map φ (Except.ok a : Except ε γ) = Except.ok (φ a) := rfl
theorem map_error {ε γ δ : Type} (φ : γ → δ) (e : ε) :
    Except.map φ (Except.error e : Except ε γ) = Except.error e := rfl
theorem map_pure {ε γ δ : Type} (φ : γ → δ) (a : γ) :
    Except.map φ (pure a : Except ε γ) = pure (φ a) := rfl

theorem findSlices_mapCeilo [DecidableEq α] [DecidableEq β] (f : α → β) (hf : Function.Injective f)
    (K : Kern) (P : PPrms α) (c : Chunk α) :
    findSlices K (P.mapCeilo f) (Chunk.mapCeilo f c) = (findSlices K P c).map (Chunk.mapCeilo f) := by
  unfold findSlices
  have h2 : (Chunk.mapCeilo f c).layers = c.layers := rfl
  simp only [h2, Chunk.mapCeilo_data, PPrms.mapCeilo_toPrms, sliceIds_mapCeilo, metarize_mapCeilo f hf]
  cases sliceIds K P c.data with
  | error e => rfl
  | ok sids =>
    simp only [ok_bind]
    cases metarize K.toMetK P.toPrms Which.slices c.layers.isSome c.data sids with
    | error e => rfl
    | ok t => rfl

theorem findGroups_mapCeilo [DecidableEq α] [DecidableEq β] (f : α → β) (hf : Function.Injective f)
    (K : Kern) (P : PPrms α) (c : Chunk α) :
    findGroups K (P.mapCeilo f) (Chunk.mapCeilo f c) = (findGroups K P c).map (Chunk.mapCeilo f) := by
  unfold findGroups
  have h1 : (Chunk.mapCeilo f c).slices = c.slices := rfl
  have h2 : (Chunk.mapCeilo f c).sids = c.sids := rfl
  have h3 : (Chunk.mapCeilo f c).layers = c.layers := rfl
  simp only [h1, h2, h3, Chunk.mapCeilo_data, PPrms.mapCeilo_toPrms, groupIds_mapCeilo f hf,
    metarize_mapCeilo f hf]
  cases c.slices with
  | none => rfl
  | some sl =>
    cases c.sids with
    | none => rfl
    | some sids =>
      cases c.layers.isSome with
      | true => rfl
      | false =>
        show (groupIds K P c.data sids sl >>= _) = Except.map _ (groupIds K P c.data sids sl >>= _)
        cases groupIds K P c.data sids sl with
        | error e => rfl
        | ok r =>
          obtain ⟨gids, iso⟩ := r
          simp only [ok_bind]
          cases metarize K.toMetK P.toPrms Which.groups false c.data gids with
          | error e => rfl
          | ok t => rfl

theorem findLayers_mapCeilo [DecidableEq α] [DecidableEq β] (f : α → β) (hf : Function.Injective f)
    (K : Kern) (P : PPrms α) (c : Chunk α) :
    findLayers K (P.mapCeilo f) (Chunk.mapCeilo f c) = (findLayers K P c).map (Chunk.mapCeilo f) := by
  unfold findLayers
  have h1 : (Chunk.mapCeilo f c).groups = c.groups := rfl
  have h2 : (Chunk.mapCeilo f c).gids = c.gids := rfl
  simp only [h1, h2, Chunk.mapCeilo_data, PPrms.mapCeilo_toPrms, layerIds_mapCeilo f,
    metarize_mapCeilo f hf]
  cases c.groups with
  | none => rfl
  | some gr =>
    cases c.gids with
    | none => rfl
    | some gids =>
      show (layerIds K P c.data gids gr >>= _) = Except.map _ (layerIds K P c.data gids gr >>= _)
      cases layerIds K P c.data gids gr with
      | error e => rfl
      | ok r =>
        obtain ⟨lids, nc⟩ := r
        simp only [ok_bind]
        cases metarize K.toMetK P.toPrms Which.layers true c.data lids with
        | error e => rfl
        | ok t => rfl

end stages

/-- Renaming the ceilometers by an injective map (applied to the exclusion list as well) commutes with
the whole cascade: same ids, same tables, same flag; only the names in the data differ. -/
theorem run_mapCeilo {α β} [DecidableEq α] [DecidableEq β] (f : α → β) (hf : Function.Injective f)
    (K : Kern) (P : PPrms α) (checked : List (Hit α)) :
    run K (P.mapCeilo f) (checked.map (Hit.mapCeilo f)) = (run K P checked).map (Chunk.mapCeilo f) := by
  unfold run
  simp only [construct_mapCeilo, findSlices_mapCeilo f hf]
  cases findSlices K P (construct P checked) with
  | error e => rfl
  | ok c1 =>
    simp only [map_ok, ok_bind, findGroups_mapCeilo f hf]
    cases findGroups K P c1 with
    | error e => rfl
    | ok c2 =>
      simp only [map_ok, ok_bind, findLayers_mapCeilo f hf]

end Ampy
