import Ampy.Model.Params
/-!
Lemmas behind C12: `adjust_nested_dict` on valid (nested, partial) assignments keeps the key tree of the
reference, warns once per unknown key, overrides only the keys named and is blind to what it overrides;
the per-call route and the YAML route give equal effective parameters; `reset_prms` restores the packaged
defaults.
-/
namespace Ampy

mutual
/-- `new` is a valid (nested, partial) assignment for `ref`: a dict only where `ref` has a dict and a
non-dict only where `ref` has a non-dict; unknown keys are allowed anywhere. -/
def PTree.valid : PTree → PTree → Bool
  | .dict _ res, .dict _ nes => PEntries.valid res nes
  | _, _ => false
def PEntries.valid (res : PEntries) : PEntries → Bool
  | .nil => true
  | .cons k item rest =>
    (match res.lookup k, item with
     | none, _ => true
     | some cur, .dict i nes => PTree.valid cur (.dict i nes)
     | some (.dict _ _), _ => false
     | some _, _ => true) && PEntries.valid res rest
end

mutual
/-- Same key tree: dicts with the same keys in the same order, recursively; non-dicts match non-dicts. -/
def PTree.sameShape : PTree → PTree → Bool
  | .dict _ a, .dict _ b => PEntries.sameShape a b
  | .dict _ _, _ => false
  | _, .dict _ _ => false
  | _, _ => true
def PEntries.sameShape : PEntries → PEntries → Bool
  | .nil, .nil => true
  | .cons k v r, .cons k' v' r' => k == k' && PTree.sameShape v v' && PEntries.sameShape r r'
  | _, _ => false
end

def hasDupStr : List String → Bool
  | [] => false
  | a :: r => r.contains a || hasDupStr r

mutual
/-- Structural equality test (tags included). -/
def PTree.eqb : PTree → PTree → Bool
  | .leaf a, .leaf b => a == b
  | .list i a, .list j b => i == j && a == b
  | .dict i a, .dict j b => i == j && PEntries.eqb a b
  | _, _ => false
def PEntries.eqb : PEntries → PEntries → Bool
  | .nil, .nil => true
  | .cons k v r, .cons k' v' r' => k == k' && PTree.eqb v v' && PEntries.eqb r r'
  | _, _ => false
end

mutual
/-- Keys are pairwise distinct in every dict (true of every Python dict). -/
def PTree.nodupKeys : PTree → Bool
  | .dict _ es => !(hasDupStr es.keys) && PEntries.nodupKeys es
  | _ => true
def PEntries.nodupKeys : PEntries → Bool
  | .nil => true
  | .cons _ v rest => PTree.nodupKeys v && PEntries.nodupKeys rest
end

mutual
/-- Number of keys of `new` (at any depth that is reached) that the reference does not have. -/
def PTree.unknown : PTree → PTree → Nat
  | .dict _ res, .dict _ nes => PEntries.unknown res nes
  | _, _ => 0
def PEntries.unknown (res : PEntries) : PEntries → Nat
  | .nil => 0
  | .cons k item rest =>
    (match res.lookup k with
     | none => 1
     | some cur => PTree.unknown cur item) + PEntries.unknown res rest
end

mutual
/-- `g₁` and `g₂` agree everywhere except, possibly, on the leaves that `new` names. -/
def PTree.agreeOff : PTree → PTree → PTree → Bool
  | .dict _ nes, .dict _ a, .dict _ b => PEntries.agreeOff nes a b
  | _, _, _ => false
def PEntries.agreeOff (nes : PEntries) : PEntries → PEntries → Bool
  | .nil, .nil => true
  | .cons k v r, .cons k' v' r' =>
    k == k' &&
    (match nes.lookup k with
     | none => PTree.eqb v.strip v'.strip
     | some (.dict i sub) => PTree.agreeOff (.dict i sub) v v'
     | some _ => PTree.sameShape v v') &&
    PEntries.agreeOff nes r r'
  | _, _ => false
end

/-! ### unfolding lemmas -/

def PTree.isDict : PTree → Bool
  | .dict _ _ => true
  | _ => false

theorem adjustTree_dd (rid nid : Nat) (res nes : PEntries) (l : List String) :
    adjustTree (.dict rid res) (.dict nid nes) l =
      (⟨.dict rid (adjustEntries res nes l).1, (adjustEntries res nes l).2.1, (adjustEntries res nes l).2.2.1⟩,
        (adjustEntries res nes l).2.2.2) := by
  simp [adjustTree]

theorem adjustTree_nd_nil (ref : PTree) (nid : Nat) (l : List String) (h : ref.isDict = false) :
    adjustTree ref (.dict nid .nil) l = (⟨ref, [], false⟩, l) := by
  cases ref <;> simp [adjustTree, PTree.isDict] at h ⊢

theorem adjustTree_nd_cons (ref : PTree) (nid : Nat) (k v r) (l : List String) (h : ref.isDict = false) :
    adjustTree ref (.dict nid (.cons k v r)) l = (⟨ref, [], true⟩, l) := by
  cases ref <;> simp [adjustTree, PTree.isDict] at h ⊢

theorem adjustTree_non (ref n : PTree) (l : List String) (h : n.isDict = false) :
    adjustTree ref n l = (⟨ref, [], true⟩, l) := by
  cases n <;> cases ref <;> simp [adjustTree, PTree.isDict] at h ⊢

theorem adjustEntries_nil (res : PEntries) (l : List String) :
    adjustEntries res .nil l = (res, [], false, l) := by
  simp [adjustEntries]

theorem adjustEntries_cons_none (res : PEntries) (k item rest) (l : List String) (h : res.lookup k = none) :
    adjustEntries res (.cons k item rest) l =
      ((adjustEntries res rest (l ++ [k])).1, ".".intercalate (l ++ [k]) :: (adjustEntries res rest (l ++ [k])).2.1,
       (adjustEntries res rest (l ++ [k])).2.2.1, (adjustEntries res rest (l ++ [k])).2.2.2) := by
  simp [adjustEntries, h]

theorem adjustEntries_cons_non (res : PEntries) (k item rest) (l : List String) (cur : PTree)
    (h : res.lookup k = some cur) (hi : item.isDict = false) :
    adjustEntries res (.cons k item rest) l = adjustEntries (res.set k item) rest (l ++ [k]) := by
  cases item <;> simp [adjustEntries, h, PTree.isDict] at hi ⊢

theorem adjustEntries_cons_dict (res : PEntries) (k i nes rest) (l : List String) (cur : PTree)
    (h : res.lookup k = some cur) :
    adjustEntries res (.cons k (.dict i nes) rest) l =
      if (adjustTree cur (.dict i nes) (l ++ [k])).1.crashed then
        (res.set k (adjustTree cur (.dict i nes) (l ++ [k])).1.tree, (adjustTree cur (.dict i nes) (l ++ [k])).1.warnings, true,
          (adjustTree cur (.dict i nes) (l ++ [k])).2)
      else
        ((adjustEntries (res.set k (adjustTree cur (.dict i nes) (l ++ [k])).1.tree) rest (adjustTree cur (.dict i nes) (l ++ [k])).2).1,
         (adjustTree cur (.dict i nes) (l ++ [k])).1.warnings ++ (adjustEntries (res.set k (adjustTree cur (.dict i nes) (l ++ [k])).1.tree) rest (adjustTree cur (.dict i nes) (l ++ [k])).2).2.1,
         (adjustEntries (res.set k (adjustTree cur (.dict i nes) (l ++ [k])).1.tree) rest (adjustTree cur (.dict i nes) (l ++ [k])).2).2.2.1,
         (adjustEntries (res.set k (adjustTree cur (.dict i nes) (l ++ [k])).1.tree) rest (adjustTree cur (.dict i nes) (l ++ [k])).2).2.2.2) := by
  simp [adjustEntries, h]
theorem PTree.isDict_false_iff (t : PTree) : t.isDict = false ↔ ∀ i es, t ≠ .dict i es := by
  cases t <;> simp [PTree.isDict]

theorem PTree.isDict_true_iff (t : PTree) : t.isDict = true ↔ ∃ i es, t = .dict i es := by
  cases t <;> simp [PTree.isDict]

/-! ### association lists -/

theorem PEntries.lookup_set_self : ∀ (es : PEntries) (k : String) (v : PTree), (es.set k v).lookup k = some v
  | .nil, k, v => by simp [PEntries.set, PEntries.lookup]
  | .cons k0 v0 rest, k, v => by
    by_cases h : k0 = k
    · simp [PEntries.set, PEntries.lookup, h]
    · simp [PEntries.set, PEntries.lookup, h, PEntries.lookup_set_self rest k v]

theorem PEntries.lookup_set_ne : ∀ (es : PEntries) (k k' : String) (v : PTree), k' ≠ k →
    (es.set k v).lookup k' = es.lookup k'
  | .nil, k, k', v, hne => by simp [PEntries.set, PEntries.lookup, Ne.symm hne]
  | .cons k0 v0 rest, k, k', v, hne => by
    by_cases h : k0 = k
    · subst h; simp [PEntries.set, PEntries.lookup, Ne.symm hne]
    · simp [PEntries.set, PEntries.lookup, h, PEntries.lookup_set_ne rest k k' v hne]

theorem PEntries.keys_set : ∀ (es : PEntries) (k : String) (v : PTree), (es.lookup k).isSome = true →
    (es.set k v).keys = es.keys
  | .nil, k, v, h => by simp [PEntries.lookup] at h
  | .cons k0 v0 rest, k, v, h => by
    by_cases hk : k0 = k
    · simp [PEntries.set, PEntries.keys, hk]
    · simp [PEntries.lookup, hk] at h
      simp [PEntries.set, PEntries.keys, hk, PEntries.keys_set rest k v h]

theorem PEntries.lookup_none_iff : ∀ (es : PEntries) (k : String), es.lookup k = none ↔ k ∉ es.keys
  | .nil, k => by simp [PEntries.lookup, PEntries.keys]
  | .cons k0 v0 rest, k => by
    by_cases hk : k0 = k
    · simp [PEntries.lookup, PEntries.keys, hk]
    · simp [PEntries.lookup, PEntries.keys, hk, PEntries.lookup_none_iff rest k, Ne.symm hk]

theorem PEntries.strip_lookup : ∀ (es : PEntries) (k : String), es.strip.lookup k = (es.lookup k).map PTree.strip
  | .nil, k => by simp [PEntries.lookup, PEntries.strip]
  | .cons k0 v0 rest, k => by
    by_cases hk : k0 = k
    · simp [PEntries.lookup, PEntries.strip, hk]
    · simp [PEntries.lookup, PEntries.strip, hk, PEntries.strip_lookup rest k]

theorem PEntries.strip_set : ∀ (es : PEntries) (k : String) (v : PTree), (es.set k v).strip = es.strip.set k v.strip
  | .nil, k, v => by simp [PEntries.set, PEntries.strip]
  | .cons k0 v0 rest, k, v => by
    by_cases hk : k0 = k
    · simp [PEntries.set, PEntries.strip, hk]
    · simp [PEntries.set, PEntries.strip, hk, PEntries.strip_set rest k v]

theorem PTree.strip_isDict (t : PTree) : t.strip.isDict = t.isDict := by
  cases t <;> simp [PTree.strip, PTree.isDict]

theorem PTree.isDict_of_strip_eq {a b : PTree} (h : a.strip = b.strip) : a.isDict = b.isDict := by
  rw [← PTree.strip_isDict a, h, PTree.strip_isDict]

/-! ### sameShape -/

theorem PTree.sameShape_isDict {a b : PTree} (h : a.sameShape b = true) : a.isDict = b.isDict := by
  cases a <;> cases b <;> simp [PTree.sameShape, PTree.isDict] at h ⊢

theorem PTree.sameShape_of_nondict {a b : PTree} (ha : a.isDict = false) (hb : b.isDict = false) :
    a.sameShape b = true := by
  cases a <;> cases b <;> simp [PTree.sameShape, PTree.isDict] at ha hb ⊢

mutual
theorem PTree.sameShape_refl : ∀ (a : PTree), a.sameShape a = true
  | .leaf _ => by simp [PTree.sameShape]
  | .list _ _ => by simp [PTree.sameShape]
  | .dict _ es => by simp [PTree.sameShape, PEntries.sameShape_refl es]
theorem PEntries.sameShape_refl : ∀ (a : PEntries), a.sameShape a = true
  | .nil => by simp [PEntries.sameShape]
  | .cons k v r => by simp [PEntries.sameShape, PTree.sameShape_refl v, PEntries.sameShape_refl r]
end

mutual
theorem PTree.sameShape_trans : ∀ (a b c : PTree), a.sameShape b = true → b.sameShape c = true → a.sameShape c = true
  | .leaf _, b, c, h1, h2 => by
    cases b <;> cases c <;> simp [PTree.sameShape] at h1 h2 ⊢
  | .list _ _, b, c, h1, h2 => by
    cases b <;> cases c <;> simp [PTree.sameShape] at h1 h2 ⊢
  | .dict _ ea, b, c, h1, h2 => by
    cases b <;> cases c <;> simp [PTree.sameShape] at h1 h2 ⊢
    exact PEntries.sameShape_trans ea _ _ h1 h2
theorem PEntries.sameShape_trans : ∀ (a b c : PEntries), a.sameShape b = true → b.sameShape c = true → a.sameShape c = true
  | .nil, b, c, h1, h2 => by
    cases b <;> cases c <;> simp [PEntries.sameShape] at h1 h2 ⊢
  | .cons k v r, b, c, h1, h2 => by
    cases b <;> cases c <;> simp [PEntries.sameShape] at h1 h2 ⊢
    obtain ⟨⟨e1, s1⟩, r1⟩ := h1
    obtain ⟨⟨e2, s2⟩, r2⟩ := h2
    exact ⟨⟨e1.trans e2, PTree.sameShape_trans v _ _ s1 s2⟩, PEntries.sameShape_trans r _ _ r1 r2⟩
end

theorem PEntries.sameShape_set : ∀ (es : PEntries) (k : String) (v cur : PTree), es.lookup k = some cur →
    v.sameShape cur = true → (es.set k v).sameShape es = true
  | .nil, k, v, cur, h, hs => by simp [PEntries.lookup] at h
  | .cons k0 v0 rest, k, v, cur, h, hs => by
    by_cases hk : k0 = k
    · simp [PEntries.lookup, hk] at h
      subst h
      simp [PEntries.set, hk, PEntries.sameShape, hs, PEntries.sameShape_refl]
    · simp [PEntries.lookup, hk] at h
      simp [PEntries.set, hk, PEntries.sameShape, PTree.sameShape_refl, PEntries.sameShape_set rest k v cur h hs]

theorem PEntries.sameShape_lookup : ∀ (a b : PEntries) (k : String), a.sameShape b = true →
    (a.lookup k = none ∧ b.lookup k = none) ∨
      ∃ x y, a.lookup k = some x ∧ b.lookup k = some y ∧ x.sameShape y = true
  | .nil, b, k, h => by cases b <;> simp [PEntries.sameShape, PEntries.lookup] at h ⊢
  | .cons k0 v0 r, b, k, h => by
    cases b with
    | nil => simp [PEntries.sameShape] at h
    | cons k1 v1 r1 =>
      simp [PEntries.sameShape] at h
      obtain ⟨⟨e, s⟩, hr⟩ := h
      subst e
      by_cases hk : k0 = k
      · simp [PEntries.lookup, hk, s]
      · simp only [PEntries.lookup, if_neg hk]
        exact PEntries.sameShape_lookup r r1 k hr

theorem PEntries.sameShape_keys : ∀ (a b : PEntries), a.sameShape b = true → a.keys = b.keys
  | .nil, b, h => by cases b <;> simp [PEntries.sameShape, PEntries.keys] at h ⊢
  | .cons k0 v0 r, b, h => by
    cases b with
    | nil => simp [PEntries.sameShape] at h
    | cons k1 v1 r1 =>
      simp [PEntries.sameShape] at h
      simp [PEntries.keys, h.1.1, PEntries.sameShape_keys r r1 h.2]

/-! ### valid / unknown -/

theorem PTree.valid_isDict {a b : PTree} (h : PTree.valid a b = true) : a.isDict = true ∧ b.isDict = true := by
  cases a <;> cases b <;> simp [PTree.valid, PTree.isDict] at h ⊢

theorem PEntries.valid_cons_none (res : PEntries) (k item rest) (h : res.lookup k = none) :
    PEntries.valid res (.cons k item rest) = PEntries.valid res rest := by
  rw [PEntries.valid.eq_2 _ _ _ _ h, Bool.true_and]

theorem PEntries.valid_cons_dict (res : PEntries) (k i nes rest cur) (h : res.lookup k = some cur) :
    PEntries.valid res (.cons k (.dict i nes) rest) = (PTree.valid cur (.dict i nes) && PEntries.valid res rest) :=
  PEntries.valid.eq_3 _ _ _ _ _ _ h

theorem PEntries.valid_cons_non (res : PEntries) (k item rest cur) (h : res.lookup k = some cur)
    (hi : item.isDict = false) :
    PEntries.valid res (.cons k item rest) = (!cur.isDict && PEntries.valid res rest) := by
  have hi' : ∀ (i : Nat) (nes : PEntries), item = PTree.dict i nes → False := by
    intro i nes e; subst e; simp [PTree.isDict] at hi
  cases hc : cur.isDict
  · have hc' : ∀ (i : Nat) (nes : PEntries), cur = PTree.dict i nes → False := by
      intro i nes e; subst e; simp [PTree.isDict] at hc
    rw [PEntries.valid.eq_5 _ _ _ _ _ h hi' hc']; rfl
  · obtain ⟨i, sub, rfl⟩ := (PTree.isDict_true_iff _).1 hc
    rw [PEntries.valid.eq_4 _ _ _ _ _ _ h hi']; rfl

theorem PEntries.unknown_cons_none (res : PEntries) (k item rest) (h : res.lookup k = none) :
    PEntries.unknown res (.cons k item rest) = 1 + PEntries.unknown res rest := by
  simp [PEntries.unknown, h]

theorem PEntries.unknown_cons_some (res : PEntries) (k item rest cur) (h : res.lookup k = some cur) :
    PEntries.unknown res (.cons k item rest) = PTree.unknown cur item + PEntries.unknown res rest := by
  simp [PEntries.unknown, h]

theorem PTree.unknown_non (cur item : PTree) (h : item.isDict = false) : PTree.unknown cur item = 0 := by
  cases item <;> cases cur <;> simp [PTree.unknown, PTree.isDict] at h ⊢

mutual
theorem PTree.valid_congr : ∀ (n a b : PTree), a.sameShape b = true → PTree.valid a n = PTree.valid b n
  | .leaf _, a, b, _ => by cases a <;> cases b <;> simp [PTree.valid]
  | .list _ _, a, b, _ => by cases a <;> cases b <;> simp [PTree.valid]
  | .dict _ nes, a, b, h => by
    cases a <;> cases b <;> simp [PTree.valid, PTree.sameShape] at h ⊢
    exact PEntries.valid_congr nes _ _ h
theorem PEntries.valid_congr : ∀ (nes a b : PEntries), a.sameShape b = true → PEntries.valid a nes = PEntries.valid b nes
  | .nil, a, b, _ => by simp [PEntries.valid]
  | .cons k item rest, a, b, h => by
    have ihT := PTree.valid_congr item
    have ihE := PEntries.valid_congr rest a b h
    rcases PEntries.sameShape_lookup a b k h with ⟨h1, h2⟩ | ⟨x, y, h1, h2, hs⟩
    · rw [PEntries.valid_cons_none _ _ _ _ h1, PEntries.valid_cons_none _ _ _ _ h2, ihE]
    · cases hi : item.isDict
      · rw [PEntries.valid_cons_non _ _ _ _ _ h1 hi, PEntries.valid_cons_non _ _ _ _ _ h2 hi, ihE,
          PTree.sameShape_isDict hs]
      · obtain ⟨i, sub, rfl⟩ := (PTree.isDict_true_iff _).1 hi
        rw [PEntries.valid_cons_dict _ _ _ _ _ _ h1, PEntries.valid_cons_dict _ _ _ _ _ _ h2, ihE, ihT x y hs]
end

mutual
theorem PTree.unknown_congr : ∀ (n a b : PTree), a.sameShape b = true → PTree.unknown a n = PTree.unknown b n
  | .leaf _, a, b, _ => by cases a <;> cases b <;> simp [PTree.unknown]
  | .list _ _, a, b, _ => by cases a <;> cases b <;> simp [PTree.unknown]
  | .dict _ nes, a, b, h => by
    cases a <;> cases b <;> simp [PTree.unknown, PTree.sameShape] at h ⊢
    exact PEntries.unknown_congr nes _ _ h
theorem PEntries.unknown_congr : ∀ (nes a b : PEntries), a.sameShape b = true → PEntries.unknown a nes = PEntries.unknown b nes
  | .nil, a, b, _ => by simp [PEntries.unknown]
  | .cons k item rest, a, b, h => by
    have ihT := PTree.unknown_congr item
    have ihE := PEntries.unknown_congr rest a b h
    rcases PEntries.sameShape_lookup a b k h with ⟨h1, h2⟩ | ⟨x, y, h1, h2, hs⟩
    · rw [PEntries.unknown_cons_none _ _ _ _ h1, PEntries.unknown_cons_none _ _ _ _ h2, ihE]
    · rw [PEntries.unknown_cons_some _ _ _ _ _ h1, PEntries.unknown_cons_some _ _ _ _ _ h2, ihE, ihT x y hs]
end

mutual
theorem adjust_valid_tree : ∀ (new ref : PTree) (l : List String), PTree.valid ref new = true →
    (adjustTree ref new l).1.crashed = false ∧
    PTree.sameShape (adjustTree ref new l).1.tree ref = true ∧
    (adjustTree ref new l).1.warnings.length = PTree.unknown ref new
  | .leaf _, ref, l, h => by cases ref <;> simp [PTree.valid] at h
  | .list _ _, ref, l, h => by cases ref <;> simp [PTree.valid] at h
  | .dict nid nes, ref, l, h => by
    cases ref with
    | leaf _ => simp [PTree.valid] at h
    | list _ _ => simp [PTree.valid] at h
    | dict rid res =>
      simp only [PTree.valid] at h
      have ih := adjust_valid_entries nes res l h
      rw [adjustTree_dd]
      simpa [PTree.sameShape, PTree.unknown] using ih
theorem adjust_valid_entries : ∀ (nes res : PEntries) (l : List String), PEntries.valid res nes = true →
    (adjustEntries res nes l).2.2.1 = false ∧
    PEntries.sameShape (adjustEntries res nes l).1 res = true ∧
    (adjustEntries res nes l).2.1.length = PEntries.unknown res nes
  | .nil, res, l, _ => by simp [adjustEntries_nil, PEntries.sameShape_refl, PEntries.unknown]
  | .cons k item rest, res, l, h => by
    have ihT := adjust_valid_tree item
    have ihE := adjust_valid_entries rest
    cases hl : res.lookup k with
    | none =>
      rw [PEntries.valid_cons_none _ _ _ _ hl] at h
      rw [adjustEntries_cons_none _ _ _ _ _ hl, PEntries.unknown_cons_none _ _ _ _ hl]
      obtain ⟨h1, h2, h3⟩ := ihE res (l ++ [k]) h
      refine ⟨h1, h2, ?_⟩
      simp [h3]; omega
    | some cur =>
      rw [PEntries.unknown_cons_some _ _ _ _ _ hl]
      cases hi : item.isDict
      · rw [PEntries.valid_cons_non _ _ _ _ _ hl hi] at h
        simp only [Bool.and_eq_true, Bool.not_eq_true'] at h
        rw [adjustEntries_cons_non _ _ _ _ _ _ hl hi, PTree.unknown_non _ _ hi]
        have hs : (res.set k item).sameShape res = true :=
          PEntries.sameShape_set res k item cur hl (PTree.sameShape_of_nondict hi h.1)
        have hv : PEntries.valid (res.set k item) rest = true := by
          rw [PEntries.valid_congr rest _ _ hs]; exact h.2
        obtain ⟨h1, h2, h3⟩ := ihE (res.set k item) (l ++ [k]) hv
        refine ⟨h1, PEntries.sameShape_trans _ _ _ h2 hs, ?_⟩
        rw [h3, PEntries.unknown_congr rest _ _ hs]; omega
      · obtain ⟨i, sub, rfl⟩ := (PTree.isDict_true_iff _).1 hi
        rw [PEntries.valid_cons_dict _ _ _ _ _ _ hl] at h
        simp only [Bool.and_eq_true] at h
        obtain ⟨c1, c2, c3⟩ := ihT cur (l ++ [k]) h.1
        rw [adjustEntries_cons_dict _ _ _ _ _ _ _ hl]
        simp only [c1, Bool.false_eq_true, if_false]
        have hs : (res.set k (adjustTree cur (.dict i sub) (l ++ [k])).1.tree).sameShape res = true :=
          PEntries.sameShape_set res k _ cur hl c2
        have hv : PEntries.valid (res.set k (adjustTree cur (.dict i sub) (l ++ [k])).1.tree) rest = true := by
          rw [PEntries.valid_congr rest _ _ hs]; exact h.2
        obtain ⟨h1, h2, h3⟩ := ihE _ (adjustTree cur (.dict i sub) (l ++ [k])).2 hv
        refine ⟨h1, PEntries.sameShape_trans _ _ _ h2 hs, ?_⟩
        rw [List.length_append, h3, c3, PEntries.unknown_congr rest _ _ hs]
end

/-- Valid assignments never crash, keep the key tree of the reference (unknown keys add nothing) and
raise exactly one warning per unknown key. -/
theorem adjust_valid (ref new : PTree) (l : List String) (h : PTree.valid ref new = true) :
    (adjustTree ref new l).1.crashed = false ∧
    PTree.sameShape (adjustTree ref new l).1.tree ref = true ∧
    (adjustTree ref new l).1.warnings.length = PTree.unknown ref new :=
  adjust_valid_tree new ref l h

/-! ### adjust only depends on contents -/

theorem PTree.strip_dict_inv {a : PTree} {j : Nat} {eb : PEntries} (h : a.strip = .dict j eb) :
    ∃ i ea, a = .dict i ea ∧ ea.strip = eb := by
  cases a <;> simp [PTree.strip] at h
  exact ⟨_, _, rfl, h.2⟩

theorem PEntries.strip_nil_inv {a : PEntries} (h : a.strip = .nil) : a = .nil := by
  cases a <;> simp [PEntries.strip] at h ⊢

theorem PEntries.strip_cons_inv {a : PEntries} {k : String} {v : PTree} {r : PEntries}
    (h : a.strip = .cons k v r) : ∃ v' r', a = .cons k v' r' ∧ v'.strip = v ∧ r'.strip = r := by
  cases a <;> simp [PEntries.strip] at h
  obtain ⟨rfl, h2, h3⟩ := h
  exact ⟨_, _, rfl, h2, h3⟩

theorem PEntries.lookup_of_strip_eq {a b : PEntries} (h : a.strip = b.strip) (k : String) :
    (a.lookup k = none ∧ b.lookup k = none) ∨
      ∃ x y, a.lookup k = some x ∧ b.lookup k = some y ∧ x.strip = y.strip := by
  have h1 := PEntries.strip_lookup a k
  have h2 := PEntries.strip_lookup b k
  rw [h, h2] at h1
  cases ha : a.lookup k <;> cases hb : b.lookup k <;> simp [ha, hb] at h1 ⊢
  exact h1.symm

mutual
theorem adjust_strip_tree : ∀ (n n' r r' : PTree) (l : List String), r.strip = r'.strip → n.strip = n'.strip →
    (adjustTree r n l).1.tree.strip = (adjustTree r' n' l).1.tree.strip ∧
    (adjustTree r n l).1.warnings = (adjustTree r' n' l).1.warnings ∧
    (adjustTree r n l).1.crashed = (adjustTree r' n' l).1.crashed ∧
    (adjustTree r n l).2 = (adjustTree r' n' l).2
  | .leaf v, n', r, r', l, hr, hn => by
    have h1 : n'.isDict = false := by rw [← PTree.isDict_of_strip_eq hn]; rfl
    rw [adjustTree_non _ _ _ h1, adjustTree_non _ (.leaf v) _ rfl]
    simp [hr]
  | .list i it, n', r, r', l, hr, hn => by
    have h1 : n'.isDict = false := by rw [← PTree.isDict_of_strip_eq hn]; rfl
    rw [adjustTree_non _ _ _ h1, adjustTree_non _ (.list i it) _ rfl]
    simp [hr]
  | .dict nid nes, n', r, r', l, hr, hn => by
    obtain ⟨nid', nes', rfl, hnes⟩ := PTree.strip_dict_inv (a := n') (by rw [← hn]; rfl)
    cases hd : r.isDict
    · have hd' : r'.isDict = false := by rw [← PTree.isDict_of_strip_eq hr]; exact hd
      cases nes with
      | nil =>
        have : nes' = .nil := PEntries.strip_nil_inv (by rw [hnes]; rfl)
        subst this
        rw [adjustTree_nd_nil _ _ _ hd, adjustTree_nd_nil _ _ _ hd']
        simp [hr]
      | cons k v rest =>
        obtain ⟨v', rest', rfl, -, -⟩ := PEntries.strip_cons_inv (a := nes') (by rw [hnes]; rfl)
        rw [adjustTree_nd_cons _ _ _ _ _ _ hd, adjustTree_nd_cons _ _ _ _ _ _ hd']
        simp [hr]
    · obtain ⟨rid, res, rfl⟩ := (PTree.isDict_true_iff _).1 hd
      obtain ⟨rid', res', rfl, hres⟩ := PTree.strip_dict_inv (a := r') (by rw [← hr]; rfl)
      have ih := adjust_strip_entries nes nes' res res' l hres.symm hnes.symm
      rw [adjustTree_dd, adjustTree_dd]
      simpa [PTree.strip] using ih
theorem adjust_strip_entries : ∀ (nes nes' res res' : PEntries) (l : List String), res.strip = res'.strip →
    nes.strip = nes'.strip →
    (adjustEntries res nes l).1.strip = (adjustEntries res' nes' l).1.strip ∧
    (adjustEntries res nes l).2.1 = (adjustEntries res' nes' l).2.1 ∧
    (adjustEntries res nes l).2.2.1 = (adjustEntries res' nes' l).2.2.1 ∧
    (adjustEntries res nes l).2.2.2 = (adjustEntries res' nes' l).2.2.2
  | .nil, nes', res, res', l, hr, hn => by
    have : nes' = .nil := PEntries.strip_nil_inv (by rw [← hn]; rfl)
    subst this
    simp [adjustEntries_nil, hr]
  | .cons k item rest, nes', res, res', l, hr, hn => by
    have ihT := adjust_strip_tree item
    have ihE := adjust_strip_entries rest
    obtain ⟨item', rest', rfl, hitem, hrest⟩ := PEntries.strip_cons_inv (a := nes') (by rw [← hn]; rfl)
    rcases PEntries.lookup_of_strip_eq hr k with ⟨h1, h2⟩ | ⟨cur, cur', h1, h2, hcur⟩
    · rw [adjustEntries_cons_none _ _ _ _ _ h1, adjustEntries_cons_none _ _ _ _ _ h2]
      obtain ⟨e1, e2, e3, e4⟩ := ihE rest' res res' (l ++ [k]) hr hrest.symm
      exact ⟨e1, by rw [e2], e3, e4⟩
    · have hid := PTree.isDict_of_strip_eq hitem
      cases hi : item.isDict
      · rw [hi] at hid
        rw [adjustEntries_cons_non _ _ _ _ _ _ h1 hi, adjustEntries_cons_non _ _ _ _ _ _ h2 hid]
        refine ihE rest' _ _ (l ++ [k]) ?_ hrest.symm
        rw [PEntries.strip_set, PEntries.strip_set, hr, hitem]
      · obtain ⟨i, sub, rfl⟩ := (PTree.isDict_true_iff _).1 hi
        obtain ⟨i', sub', rfl, -⟩ := PTree.strip_dict_inv (a := item') (by rw [hitem]; rfl)
        obtain ⟨ht, hw, hc, hlv⟩ := ihT (.dict i' sub') cur cur' (l ++ [k]) hcur hitem.symm
        rw [adjustEntries_cons_dict _ _ _ _ _ _ _ h1, adjustEntries_cons_dict _ _ _ _ _ _ _ h2]
        rw [← hw, ← hc, ← hlv]
        have hs : (res.set k (adjustTree cur (.dict i sub) (l ++ [k])).1.tree).strip =
            (res'.set k (adjustTree cur' (.dict i' sub') (l ++ [k])).1.tree).strip := by
          rw [PEntries.strip_set, PEntries.strip_set, hr, ht]
        cases hcr : (adjustTree cur (.dict i sub) (l ++ [k])).1.crashed
        · simp only [Bool.false_eq_true, if_false]
          obtain ⟨e1, e2, e3, e4⟩ := ihE rest' _ _ (adjustTree cur (.dict i sub) (l ++ [k])).2 hs hrest.symm
          exact ⟨e1, by rw [e2], e3, e4⟩
        · simp only [if_true]
          exact ⟨hs, trivial, trivial, trivial⟩
end

/-- `adjust` only depends on contents: equal contents in, equal contents (and warnings) out. -/
theorem adjust_strip (r r' n n' : PTree) (l : List String) (hr : r.strip = r'.strip) (hn : n.strip = n'.strip) :
    (adjustTree r n l).1.tree.strip = (adjustTree r' n' l).1.tree.strip ∧
    (adjustTree r n l).1.warnings = (adjustTree r' n' l).1.warnings ∧
    (adjustTree r n l).1.crashed = (adjustTree r' n' l).1.crashed ∧
    (adjustTree r n l).2 = (adjustTree r' n' l).2 :=
  adjust_strip_tree n n' r r' l hr hn

/-! ### override blindness -/

mutual
theorem PTree.eqb_eq : ∀ (a b : PTree), PTree.eqb a b = true → a = b
  | .leaf _, b, h => by cases b <;> simp [PTree.eqb] at h ⊢; exact h
  | .list _ _, b, h => by cases b <;> simp [PTree.eqb] at h ⊢; exact h
  | .dict _ ea, b, h => by
    cases b <;> simp [PTree.eqb] at h ⊢
    exact ⟨h.1, PEntries.eqb_eq ea _ h.2⟩
theorem PEntries.eqb_eq : ∀ (a b : PEntries), PEntries.eqb a b = true → a = b
  | .nil, b, h => by cases b <;> simp [PEntries.eqb] at h ⊢
  | .cons k v r, b, h => by
    cases b <;> simp [PEntries.eqb] at h ⊢
    exact ⟨h.1.1, PTree.eqb_eq v _ h.1.2, PEntries.eqb_eq r _ h.2⟩
end

mutual
theorem PTree.eqb_refl : ∀ (a : PTree), PTree.eqb a a = true
  | .leaf _ => by simp [PTree.eqb]
  | .list _ _ => by simp [PTree.eqb]
  | .dict _ ea => by simp [PTree.eqb, PEntries.eqb_refl ea]
theorem PEntries.eqb_refl : ∀ (a : PEntries), PEntries.eqb a a = true
  | .nil => by simp [PEntries.eqb]
  | .cons k v r => by simp [PEntries.eqb, PTree.eqb_refl v, PEntries.eqb_refl r]
end

theorem PTree.eqb_iff (a b : PTree) : PTree.eqb a b = true ↔ a = b :=
  ⟨PTree.eqb_eq a b, fun h => h ▸ PTree.eqb_refl a⟩

theorem hasDupStr_cons (k : String) (r : List String) :
    hasDupStr (k :: r) = false ↔ k ∉ r ∧ hasDupStr r = false := by
  simp [hasDupStr]

theorem PTree.nodupKeys_of_nondict {t : PTree} (h : t.isDict = false) : t.nodupKeys = true := by
  cases t <;> simp [PTree.nodupKeys, PTree.isDict] at h ⊢

theorem PEntries.nodupKeys_lookup : ∀ (es : PEntries) (k : String) (v : PTree), es.nodupKeys = true →
    es.lookup k = some v → v.nodupKeys = true
  | .nil, k, v, _, h => by simp [PEntries.lookup] at h
  | .cons k0 v0 rest, k, v, hn, h => by
    simp [PEntries.nodupKeys] at hn
    by_cases hk : k0 = k
    · simp [PEntries.lookup, hk] at h; subst h; exact hn.1
    · simp [PEntries.lookup, hk] at h
      exact PEntries.nodupKeys_lookup rest k v hn.2 h

theorem PEntries.nodupKeys_set : ∀ (es : PEntries) (k : String) (v : PTree), es.nodupKeys = true →
    v.nodupKeys = true → (es.set k v).nodupKeys = true
  | .nil, k, v, _, h => by simp [PEntries.set, PEntries.nodupKeys, h]
  | .cons k0 v0 rest, k, v, hn, h => by
    simp [PEntries.nodupKeys] at hn
    by_cases hk : k0 = k
    · simp [PEntries.set, hk, PEntries.nodupKeys, h, hn.2]
    · simp [PEntries.set, hk, PEntries.nodupKeys, hn.1, PEntries.nodupKeys_set rest k v hn.2 h]

mutual
theorem adjust_nodup_tree : ∀ (new ref : PTree) (l : List String), PTree.valid ref new = true →
    ref.nodupKeys = true → (adjustTree ref new l).1.tree.nodupKeys = true
  | .leaf _, ref, l, h, _ => by cases ref <;> simp [PTree.valid] at h
  | .list _ _, ref, l, h, _ => by cases ref <;> simp [PTree.valid] at h
  | .dict nid nes, ref, l, h, hn => by
    cases ref with
    | leaf _ => simp [PTree.valid] at h
    | list _ _ => simp [PTree.valid] at h
    | dict rid res =>
      simp only [PTree.valid] at h
      simp only [PTree.nodupKeys, Bool.and_eq_true, Bool.not_eq_true'] at hn
      have ih := adjust_nodup_entries nes res l h hn.2
      have hk := PEntries.sameShape_keys _ _ (adjust_valid_entries nes res l h).2.1
      rw [adjustTree_dd]
      simp only [PTree.nodupKeys, Bool.and_eq_true, Bool.not_eq_true']
      exact ⟨by rw [hk]; exact hn.1, ih⟩
theorem adjust_nodup_entries : ∀ (nes res : PEntries) (l : List String), PEntries.valid res nes = true →
    res.nodupKeys = true → (adjustEntries res nes l).1.nodupKeys = true
  | .nil, res, l, _, hn => by rw [adjustEntries_nil]; exact hn
  | .cons k item rest, res, l, h, hn => by
    have ihT := adjust_nodup_tree item
    have ihE := adjust_nodup_entries rest
    cases hl : res.lookup k with
    | none =>
      rw [PEntries.valid_cons_none _ _ _ _ hl] at h
      rw [adjustEntries_cons_none _ _ _ _ _ hl]
      exact ihE res _ h hn
    | some cur =>
      cases hi : item.isDict
      · rw [PEntries.valid_cons_non _ _ _ _ _ hl hi] at h
        simp only [Bool.and_eq_true, Bool.not_eq_true'] at h
        rw [adjustEntries_cons_non _ _ _ _ _ _ hl hi]
        have hs : (res.set k item).sameShape res = true :=
          PEntries.sameShape_set res k item cur hl (PTree.sameShape_of_nondict hi h.1)
        refine ihE _ _ ?_ (PEntries.nodupKeys_set _ _ _ hn (PTree.nodupKeys_of_nondict hi))
        rw [PEntries.valid_congr rest _ _ hs]; exact h.2
      · obtain ⟨i, sub, rfl⟩ := (PTree.isDict_true_iff _).1 hi
        rw [PEntries.valid_cons_dict _ _ _ _ _ _ hl] at h
        simp only [Bool.and_eq_true] at h
        obtain ⟨c1, c2, -⟩ := adjust_valid_tree (.dict i sub) cur (l ++ [k]) h.1
        have c4 := ihT cur (l ++ [k]) h.1 (PEntries.nodupKeys_lookup _ _ _ hn hl)
        rw [adjustEntries_cons_dict _ _ _ _ _ _ _ hl]
        simp only [c1, Bool.false_eq_true, if_false]
        have hs := PEntries.sameShape_set res k _ cur hl c2
        refine ihE _ _ ?_ (PEntries.nodupKeys_set _ _ _ hn c4)
        rw [PEntries.valid_congr rest _ _ hs]; exact h.2
end

/-- The agreement required of the two values stored under a key, given what `new` says about the key. -/
def agreeAt (o : Option PTree) (v v' : PTree) : Prop :=
  (o = none → v.strip = v'.strip) ∧
  (∀ i sub, o = some (.dict i sub) → PTree.agreeOff (.dict i sub) v v' = true) ∧
  (∀ x, o = some x → x.isDict = false → PTree.sameShape v v' = true)

theorem PEntries.agreeOff_cons_iff (nes : PEntries) (k k' : String) (v v' : PTree) (r r' : PEntries) :
    PEntries.agreeOff nes (.cons k v r) (.cons k' v' r') = true ↔
      k = k' ∧ agreeAt (nes.lookup k) v v' ∧ PEntries.agreeOff nes r r' = true := by
  rw [PEntries.agreeOff.eq_2]
  generalize nes.lookup k = o
  cases o with
  | none => simp [agreeAt, PTree.eqb_iff, and_assoc]
  | some x => cases x <;> simp [agreeAt, PTree.isDict, and_assoc]

theorem PEntries.agreeOff_nil_left (nes b : PEntries) : PEntries.agreeOff nes .nil b = true ↔ b = .nil := by
  cases b <;> simp [PEntries.agreeOff]

theorem PEntries.agreeOff_cons_left (nes : PEntries) (k : String) (v : PTree) (r b : PEntries)
    (h : PEntries.agreeOff nes (.cons k v r) b = true) : ∃ v' r', b = .cons k v' r' ∧
      agreeAt (nes.lookup k) v v' ∧ PEntries.agreeOff nes r r' = true := by
  cases b with
  | nil => simp [PEntries.agreeOff] at h
  | cons k' v' r' =>
    obtain ⟨rfl, h2, h3⟩ := (PEntries.agreeOff_cons_iff _ _ _ _ _ _ _).1 h
    exact ⟨v', r', rfl, h2, h3⟩

theorem PEntries.agreeOff_lookup (nes : PEntries) (k : String) : ∀ (a b : PEntries), PEntries.agreeOff nes a b = true →
    (a.lookup k = none ∧ b.lookup k = none) ∨
      ∃ v v', a.lookup k = some v ∧ b.lookup k = some v' ∧ agreeAt (nes.lookup k) v v'
  | .nil, b, h => by
    rw [PEntries.agreeOff_nil_left] at h; subst h; simp [PEntries.lookup]
  | .cons k0 v0 r, b, h => by
    obtain ⟨v', r', rfl, h2, h3⟩ := PEntries.agreeOff_cons_left _ _ _ _ _ h
    by_cases hk : k0 = k
    · subst hk; simp [PEntries.lookup, h2]
    · simp only [PEntries.lookup, if_neg hk]
      exact PEntries.agreeOff_lookup nes k r r' h3

theorem PEntries.agreeOff_congr (nes nes' : PEntries) : ∀ (a b : PEntries),
    (∀ k ∈ a.keys, nes.lookup k = nes'.lookup k) → PEntries.agreeOff nes a b = true →
    PEntries.agreeOff nes' a b = true
  | .nil, b, _, h => by
    rw [PEntries.agreeOff_nil_left] at h ⊢; exact h
  | .cons k0 v0 r, b, hk, h => by
    obtain ⟨v', r', rfl, h2, h3⟩ := PEntries.agreeOff_cons_left _ _ _ _ _ h
    rw [PEntries.agreeOff_cons_iff]
    refine ⟨rfl, ?_, PEntries.agreeOff_congr nes nes' r r' (fun k hk' => hk k (by simp [PEntries.keys, hk'])) h3⟩
    rw [← hk k0 (by simp [PEntries.keys])]; exact h2

theorem PEntries.agreeOff_set (nes nes' : PEntries) (k : String) (x x' : PTree)
    (hoff : ∀ k', k' ≠ k → nes.lookup k' = nes'.lookup k') (hk : nes'.lookup k = none)
    (hx : x.strip = x'.strip) : ∀ (a b : PEntries), hasDupStr a.keys = false →
    PEntries.agreeOff nes a b = true → PEntries.agreeOff nes' (a.set k x) (b.set k x') = true
  | .nil, b, _, h => by
    rw [PEntries.agreeOff_nil_left] at h; subst h
    simp only [PEntries.set]
    rw [PEntries.agreeOff_cons_iff]
    refine ⟨rfl, ?_, by simp [PEntries.agreeOff]⟩
    rw [hk]; simp [agreeAt, hx]
  | .cons k0 v0 r, b, hd, h => by
    obtain ⟨v', r', rfl, h2, h3⟩ := PEntries.agreeOff_cons_left _ _ _ _ _ h
    simp only [PEntries.keys] at hd
    rw [hasDupStr_cons] at hd
    by_cases hk0 : k0 = k
    · subst hk0
      simp only [PEntries.set, if_true]
      rw [PEntries.agreeOff_cons_iff]
      refine ⟨rfl, ?_, ?_⟩
      · rw [hk]; simp [agreeAt, hx]
      · refine PEntries.agreeOff_congr nes nes' r r' ?_ h3
        intro k' hk'
        exact hoff k' (fun e => hd.1 (e ▸ hk'))
    · simp only [PEntries.set, if_neg hk0]
      rw [PEntries.agreeOff_cons_iff]
      refine ⟨rfl, ?_, PEntries.agreeOff_set nes nes' k x x' hoff hk hx r r' hd.2 h3⟩
      rw [← hoff k0 hk0]; exact h2

theorem PEntries.agreeOff_nil_strip : ∀ (a b : PEntries), PEntries.agreeOff .nil a b = true → a.strip = b.strip
  | .nil, b, h => by rw [PEntries.agreeOff_nil_left] at h; subst h; rfl
  | .cons k0 v0 r, b, h => by
    obtain ⟨v', r', rfl, h2, h3⟩ := PEntries.agreeOff_cons_left _ _ _ _ _ h
    simp only [PEntries.strip]
    rw [h2.1 rfl, PEntries.agreeOff_nil_strip r r' h3]

mutual
theorem override_blind_tree : ∀ (new g₁ g₂ : PTree) (l₁ l₂ : List String), PTree.valid g₁ new = true →
    new.nodupKeys = true → g₁.nodupKeys = true → PTree.agreeOff new g₁ g₂ = true →
    (adjustTree g₁ new l₁).1.tree.strip = (adjustTree g₂ new l₂).1.tree.strip ∧
      (adjustTree g₂ new l₂).1.crashed = false
  | .leaf _, g₁, g₂, _, _, h, _, _, _ => by cases g₁ <;> simp [PTree.valid] at h
  | .list _ _, g₁, g₂, _, _, h, _, _, _ => by cases g₁ <;> simp [PTree.valid] at h
  | .dict nid nes, g₁, g₂, l₁, l₂, h, hk, hg, ha => by
    cases g₁ with
    | leaf _ => simp [PTree.valid] at h
    | list _ _ => simp [PTree.valid] at h
    | dict i₁ a =>
      cases g₂ with
      | leaf _ => simp [PTree.agreeOff] at ha
      | list _ _ => simp [PTree.agreeOff] at ha
      | dict i₂ b =>
        simp only [PTree.valid] at h
        simp only [PTree.agreeOff] at ha
        simp only [PTree.nodupKeys, Bool.and_eq_true, Bool.not_eq_true'] at hk hg
        have ih := override_blind_entries nes a b l₁ l₂ h hk.1 hk.2 hg.1 hg.2 ha
        rw [adjustTree_dd, adjustTree_dd]
        simpa [PTree.strip] using ih
theorem override_blind_entries : ∀ (nes a b : PEntries) (l₁ l₂ : List String), PEntries.valid a nes = true →
    hasDupStr nes.keys = false → nes.nodupKeys = true → hasDupStr a.keys = false → a.nodupKeys = true →
    PEntries.agreeOff nes a b = true →
    (adjustEntries a nes l₁).1.strip = (adjustEntries b nes l₂).1.strip ∧
      (adjustEntries b nes l₂).2.2.1 = false
  | .nil, a, b, l₁, l₂, _, _, _, _, _, ha => by
    rw [adjustEntries_nil, adjustEntries_nil]
    exact ⟨PEntries.agreeOff_nil_strip a b ha, rfl⟩
  | .cons k item rest, a, b, l₁, l₂, h, hdn, hnn, hda, hna, ha => by
    have ihT := override_blind_tree item
    have ihE := override_blind_entries rest
    simp only [PEntries.keys] at hdn
    rw [hasDupStr_cons] at hdn
    simp only [PEntries.nodupKeys, Bool.and_eq_true] at hnn
    have hrk : rest.lookup k = none := (PEntries.lookup_none_iff _ _).2 hdn.1
    have hoff : ∀ k', k' ≠ k → (PEntries.cons k item rest).lookup k' = rest.lookup k' := by
      intro k' hk'; simp [PEntries.lookup, Ne.symm hk']
    have hself : (PEntries.cons k item rest).lookup k = some item := by simp [PEntries.lookup]
    rcases PEntries.agreeOff_lookup _ k a b ha with ⟨h1, h2⟩ | ⟨cur, cur', h1, h2, hat⟩
    · rw [PEntries.valid_cons_none _ _ _ _ h1] at h
      rw [adjustEntries_cons_none _ _ _ _ _ h1, adjustEntries_cons_none _ _ _ _ _ h2]
      refine ihE a b _ _ h hdn.2 hnn.2 hda hna ?_
      refine PEntries.agreeOff_congr _ _ a b ?_ ha
      intro k' hk'
      refine hoff k' ?_
      rintro rfl
      exact (PEntries.lookup_none_iff _ _).1 h1 hk'
    · rw [hself] at hat
      cases hi : item.isDict
      · rw [PEntries.valid_cons_non _ _ _ _ _ h1 hi] at h
        simp only [Bool.and_eq_true, Bool.not_eq_true'] at h
        rw [adjustEntries_cons_non _ _ _ _ _ _ h1 hi, adjustEntries_cons_non _ _ _ _ _ _ h2 hi]
        have hs : (a.set k item).sameShape a = true :=
          PEntries.sameShape_set a k item cur h1 (PTree.sameShape_of_nondict hi h.1)
        refine ihE _ _ _ _ ?_ hdn.2 hnn.2 ?_ (PEntries.nodupKeys_set _ _ _ hna (PTree.nodupKeys_of_nondict hi)) ?_
        · rw [PEntries.valid_congr rest _ _ hs]; exact h.2
        · rw [PEntries.keys_set _ _ _ (by simp [h1])]; exact hda
        · exact PEntries.agreeOff_set _ _ k item item hoff hrk rfl a b hda ha
      · obtain ⟨i, sub, rfl⟩ := (PTree.isDict_true_iff _).1 hi
        rw [PEntries.valid_cons_dict _ _ _ _ _ _ h1] at h
        simp only [Bool.and_eq_true] at h
        have hcn := PEntries.nodupKeys_lookup _ _ _ hna h1
        obtain ⟨c1, c2, -⟩ := adjust_valid_tree (.dict i sub) cur (l₁ ++ [k]) h.1
        have c4 := adjust_nodup_tree (.dict i sub) cur (l₁ ++ [k]) h.1 hcn
        obtain ⟨t1, t2⟩ := ihT cur cur' (l₁ ++ [k]) (l₂ ++ [k]) h.1 hnn.1 hcn (hat.2.1 i sub rfl)
        rw [adjustEntries_cons_dict _ _ _ _ _ _ _ h1, adjustEntries_cons_dict _ _ _ _ _ _ _ h2]
        simp only [c1, t2, Bool.false_eq_true, if_false]
        have hs := PEntries.sameShape_set a k _ cur h1 c2
        refine ihE _ _ _ _ ?_ hdn.2 hnn.2 ?_ (PEntries.nodupKeys_set _ _ _ hna c4) ?_
        · rw [PEntries.valid_congr rest _ _ hs]; exact h.2
        · rw [PEntries.keys_set _ _ _ (by simp [h1])]; exact hda
        · exact PEntries.agreeOff_set _ _ k _ _ hoff hrk t1 a b hda ha
end

/-- Corrected form of `adjust_override_blind`: the reference must be a genuine dictionary tree (no repeated
keys), as every Python dict is. -/
theorem adjust_override_blind' (new g₁ g₂ : PTree) (l : List String) (hv : PTree.valid g₁ new = true)
    (hk : new.nodupKeys = true) (hg : g₁.nodupKeys = true) (ha : PTree.agreeOff new g₁ g₂ = true) :
    (adjustTree g₁ new l).1.tree.strip = (adjustTree g₂ new l).1.tree.strip :=
  (override_blind_tree new g₁ g₂ l l hv hk hg ha).1

/-! ### `adjust_override_blind` as stated is false

The statement does not ask the reference `g₁` to have pairwise distinct keys.  `lookup`/`set` only see the
first occurrence of a key, whereas `agreeOff` relaxes the agreement at *every* occurrence of a named key, so
the two references may differ at a second occurrence that is never overridden. -/

def cexNew : PTree := .dict 0 (.cons "x" (.leaf (.int 5)) .nil)
def cexG1 : PTree := .dict 1 (.cons "x" (.leaf (.int 1)) (.cons "x" (.leaf (.int 2)) .nil))
def cexG2 : PTree := .dict 2 (.cons "x" (.leaf (.int 1)) (.cons "x" (.leaf (.int 3)) .nil))

theorem adjust_override_blind_counterexample :
    PTree.valid cexG1 cexNew = true ∧ cexNew.nodupKeys = true ∧ PTree.agreeOff cexNew cexG1 cexG2 = true ∧
    (adjustTree cexG1 cexNew []).1.tree.strip ≠ (adjustTree cexG2 cexNew []).1.tree.strip := by
  refine ⟨by decide, by decide, by decide, ?_⟩
  intro h
  simp [cexG1, cexG2, cexNew, adjustTree, adjustEntries, PEntries.lookup, PEntries.set, PEntries.strip, PTree.strip] at h

theorem adjust_override_blind_false :
    ¬ ∀ (new g₁ g₂ : PTree) (l : List String), PTree.valid g₁ new = true → new.nodupKeys = true →
        PTree.agreeOff new g₁ g₂ = true →
        (adjustTree g₁ new l).1.tree.strip = (adjustTree g₂ new l).1.tree.strip := by
  intro h
  obtain ⟨h1, h2, h3, h4⟩ := adjust_override_blind_counterexample
  exact h4 (h cexNew cexG1 cexG2 [] h1 h2 h3)

/-! ### keys not named keep their value -/

theorem adjustEntries_lookup_unnamed (k : String) : ∀ (nes res : PEntries) (l : List String), nes.lookup k = none →
    (adjustEntries res nes l).1.lookup k = res.lookup k
  | .nil, res, l, _ => by rw [adjustEntries_nil]
  | .cons k0 item rest, res, l, h => by
    have ihE := adjustEntries_lookup_unnamed k rest
    have hk : k0 ≠ k := by
      intro e; simp [PEntries.lookup, e] at h
    have hrest : rest.lookup k = none := by
      simpa [PEntries.lookup, hk] using h
    cases hl : res.lookup k0 with
    | none =>
      rw [adjustEntries_cons_none _ _ _ _ _ hl]
      exact ihE res _ hrest
    | some cur =>
      cases hi : item.isDict
      · rw [adjustEntries_cons_non _ _ _ _ _ _ hl hi, ihE _ _ hrest, PEntries.lookup_set_ne _ _ _ _ (Ne.symm hk)]
      · obtain ⟨i, sub, rfl⟩ := (PTree.isDict_true_iff _).1 hi
        rw [adjustEntries_cons_dict _ _ _ _ _ _ _ hl]
        cases hcr : (adjustTree cur (.dict i sub) (l ++ [k0])).1.crashed
        · simp only [Bool.false_eq_true, if_false]
          rw [ihE _ _ hrest, PEntries.lookup_set_ne _ _ _ _ (Ne.symm hk)]
        · simp only [if_true]
          rw [PEntries.lookup_set_ne _ _ _ _ (Ne.symm hk)]

/-- Keys that `new` does not mention keep their value (whole sub-trees, identity included). -/
theorem adjust_only_named (rid nid : Nat) (res nes : PEntries) (l : List String) (k : String)
    (hk : nes.lookup k = none) (hc : (adjustTree (.dict rid res) (.dict nid nes) l).1.crashed = false) :
    ∃ es, (adjustTree (.dict rid res) (.dict nid nes) l).1.tree = .dict rid es ∧ es.lookup k = res.lookup k := by
  have _ := hc
  rw [adjustTree_dd]
  exact ⟨_, rfl, adjustEntries_lookup_unnamed k nes res l hk⟩

/-! ### deepcopy keeps the contents -/

mutual
theorem PTree.deepcopy_strip : ∀ (t : PTree) (n : Nat), (t.deepcopy n).1.strip = t.strip
  | .leaf _, n => by simp [PTree.deepcopy]
  | .list _ _, n => by simp [PTree.deepcopy, PTree.strip]
  | .dict _ es, n => by simp [PTree.deepcopy, PTree.strip, PEntries.deepcopy_strip es (n + 1)]
theorem PEntries.deepcopy_strip : ∀ (es : PEntries) (n : Nat), (es.deepcopy n).1.strip = es.strip
  | .nil, n => by simp [PEntries.deepcopy]
  | .cons k v rest, n => by
    simp [PEntries.deepcopy, PEntries.strip, PTree.deepcopy_strip v n, PEntries.deepcopy_strip rest (v.deepcopy n).2]
end

/-- The effective parameters of a chunk built with a per-call dictionary `t` equal those of a chunk built
with no dictionary after `set_prms` of the same contents (YAML route), whatever the prior global: same
contents, same warnings. -/
theorem routes_equal (s : Sys) (t : PTree) :
    let a := (s.step (.newCaller t)).1.step (.construct (some s.callers.length))
    let b := (s.step (.setPrms t)).1.step (.construct none)
    (s.step (.setPrms t)).2 = a.2 ∧
    ((s.step (.setPrms t)).2 ≠ .crash "AttributeError" →
      (a.1.snaps.getLast?).map PTree.strip = (b.1.snaps.getLast?).map PTree.strip ∧ b.2 = .ok []) := by
  intro a b
  have key := adjust_strip s.global (s.global.deepcopy (t.deepcopy s.next).2).1 (t.deepcopy s.next).1 (t.deepcopy s.next).1 []
    (PTree.deepcopy_strip _ _).symm rfl
  obtain ⟨kt, kw, kc, -⟩ := key
  cases hcr : (adjustTree (s.global.deepcopy (t.deepcopy s.next).2).1 (t.deepcopy s.next).1 []).1.crashed
  · rw [hcr] at kc
    simp [a, b, Sys.step, hcr, kc, kw, kt, PTree.deepcopy_strip]
  · rw [hcr] at kc
    simp [a, b, Sys.step, hcr, kc]

/-- Editing one leaf of the global directly is the same as assigning it through a one-leaf nested
dictionary (global-edit route = per-call/YAML route, leaf by leaf). -/
def nest : List String → PTree → PTree
  | [], v => v
  | k :: ks, v => .dict 0 (.cons k (nest ks v) .nil)

/-! ### global-edit route = one-leaf nested assignment -/

theorem PTree.getPath_nil (t : PTree) : t.getPath [] = some t := by
  cases t <;> simp [PTree.getPath]

theorem setPath_eq_adjust_aux (v : PTree) (hv : v.isDict = false) :
    ∀ (p : List String) (g g' cur : PTree) (l : List String),
      g.getPath p = some cur → cur.isDict = false → p ≠ [] → g.setPath p v = some g' →
      (adjustTree g (nest p v) l).1.tree = g' ∧ (adjustTree g (nest p v) l).1.crashed = false ∧
      (adjustTree g (nest p v) l).1.warnings = []
  | [], _, _, _, _, _, _, hp, _ => absurd rfl hp
  | [k], g, g', cur, l, hcur, hnd, _, h => by
    cases g with
    | leaf _ => simp [PTree.setPath] at h
    | list _ _ => simp [PTree.setPath] at h
    | dict i es =>
      simp [PTree.setPath] at h
      subst h
      simp [PTree.getPath] at hcur
      simp only [nest]
      rw [adjustTree_dd, adjustEntries_cons_non _ _ _ _ _ _ hcur hv, adjustEntries_nil]
      simp
  | k :: k2 :: ks, g, g', cur, l, hcur, hnd, _, h => by
    cases g with
    | leaf _ => simp [PTree.setPath] at h
    | list _ _ => simp [PTree.setPath] at h
    | dict i es =>
      simp only [PTree.getPath] at hcur
      cases hl : es.lookup k with
      | none => simp [hl] at hcur
      | some sub =>
        simp [hl] at hcur
        simp [PTree.setPath, hl] at h
        obtain ⟨sub', hs, rfl⟩ := h
        obtain ⟨e1, e2, e3⟩ := setPath_eq_adjust_aux v hv (k2 :: ks) sub sub' cur (l ++ [k]) hcur hnd (by simp) hs
        have hn : nest (k :: k2 :: ks) v = .dict 0 (.cons k (.dict 0 (.cons k2 (nest ks v) .nil)) .nil) := rfl
        have hn2 : nest (k2 :: ks) v = .dict 0 (.cons k2 (nest ks v) .nil) := rfl
        rw [hn2] at e1 e2 e3
        rw [hn, adjustTree_dd, adjustEntries_cons_dict _ _ _ _ _ _ _ hl]
        simp [e1, e2, e3, adjustEntries_nil]

theorem setPath_eq_adjust (g v : PTree) (p : List String) (g' : PTree) (cur : PTree)
    (hcur : g.getPath p = some cur) (hnd : ∀ i es, cur ≠ .dict i es) (hv : ∀ i es, v ≠ .dict i es)
    (hp : p ≠ []) (h : g.setPath p v = some g') :
    (adjustTree g (nest p v) []).1.tree = g' ∧ (adjustTree g (nest p v) []).1.crashed = false ∧
    (adjustTree g (nest p v) []).1.warnings = [] :=
  setPath_eq_adjust_aux v ((PTree.isDict_false_iff v).2 hv) p g g' cur [] hcur ((PTree.isDict_false_iff cur).2 hnd) hp h

/-! ### reset_prms -/

/-- `reset_prms()` restores exactly the packaged defaults, whatever happened before. -/
theorem reset_all (s : Sys) : (s.step (.reset none)).1.global.strip = s.defaults.strip ∧ (s.step (.reset none)).2 = .ok [] := by
  simp [Sys.step, PTree.deepcopy_strip]


/-- The loop of `reset_prms(names)`. -/
def resetFold (d : PTree) (names : List String) (init : PTree × Bool) : PTree × Bool :=
  names.foldl (fun (acc : PTree × Bool) name =>
      if acc.2 then acc
      else
        match d.getPath [name], acc.1.setPath [name] (d.getPath [name] |>.getD (.leaf .none)) with
        | some _, some g' => (g', false)
        | _, _ => (acc.1, true)) init

theorem step_reset_some (s : Sys) (gid : Nat) (ges : PEntries) (names : List String)
    (hg : s.global = .dict gid ges) :
    (s.step (.reset (some names))).1.global =
        (resetFold (s.defaults.deepcopy s.next).1 names (.dict gid ges, false)).1 ∧
      (s.step (.reset (some names))).2 =
        if (resetFold (s.defaults.deepcopy s.next).1 names (.dict gid ges, false)).2 then .ampyError else .ok [] := by
  simp only [Sys.step, hg, PTree.pathDictId, resetFold]
  exact ⟨rfl, rfl⟩

theorem resetFold_nil (d : PTree) (init : PTree × Bool) : resetFold d [] init = init := rfl

theorem resetFold_cons (d : PTree) (n : String) (names : List String) (init : PTree × Bool) :
    resetFold d (n :: names) init = resetFold d names (resetFold d [n] init) := rfl

theorem resetFold_append (d : PTree) (a b : List String) (init : PTree × Bool) :
    resetFold d (a ++ b) init = resetFold d b (resetFold d a init) := by
  simp [resetFold, List.foldl_append]

theorem resetFold_one_known (j gid : Nat) (des es : PEntries) (n : String) (v : PTree)
    (h : des.lookup n = some v) :
    resetFold (.dict j des) [n] (.dict gid es, false) = (.dict gid (es.set n v), false) := by
  simp [resetFold, PTree.getPath, PTree.setPath, h]

theorem resetFold_one_unknown (j gid : Nat) (des es : PEntries) (n : String)
    (h : des.lookup n = none) :
    resetFold (.dict j des) [n] (.dict gid es, false) = (.dict gid es, true) := by
  simp [resetFold, PTree.getPath, PTree.setPath, h]

theorem resetFold_flag (d : PTree) : ∀ (names : List String) (g : PTree), resetFold d names (g, true) = (g, true)
  | [], g => rfl
  | n :: names, g => by
    rw [resetFold_cons]
    have : resetFold d [n] (g, true) = (g, true) := by simp [resetFold]
    rw [this]; exact resetFold_flag d names g

theorem resetFold_known (j gid : Nat) (des : PEntries) : ∀ (names : List String) (es : PEntries),
    (∀ n ∈ names, (des.lookup n).isSome = true) →
    ∃ es', resetFold (.dict j des) names (.dict gid es, false) = (.dict gid es', false) ∧
      (∀ n ∈ names, es'.lookup n = des.lookup n) ∧ (∀ k, k ∉ names → es'.lookup k = es.lookup k)
  | [], es, _ => ⟨es, rfl, by simp, by simp⟩
  | n :: names, es, h => by
    obtain ⟨v, hv⟩ := Option.isSome_iff_exists.1 (h n (by simp))
    obtain ⟨es', e1, e2, e3⟩ := resetFold_known j gid des names (es.set n v) (fun m hm => h m (by simp [hm]))
    refine ⟨es', ?_, ?_, ?_⟩
    · rw [resetFold_cons, resetFold_one_known _ _ _ _ _ _ hv, e1]
    · intro m hm
      by_cases hmn : m ∈ names
      · exact e2 m hmn
      · have : m = n := by simpa [hmn] using hm
        subst this
        rw [e3 m hmn, PEntries.lookup_set_self, hv]
    · intro k hk
      simp only [List.mem_cons, not_or] at hk
      rw [e3 k hk.2, PEntries.lookup_set_ne _ _ _ _ hk.1]

theorem deepcopy_dict_lookup (did : Nat) (des : PEntries) (n0 : Nat) :
    ∃ j des', (PTree.deepcopy (.dict did des) n0).1 = .dict j des' ∧
      ∀ k, (des'.lookup k).map PTree.strip = (des.lookup k).map PTree.strip := by
  refine ⟨n0, (des.deepcopy (n0 + 1)).1, by simp [PTree.deepcopy], ?_⟩
  intro k
  rw [← PEntries.strip_lookup, ← PEntries.strip_lookup, PEntries.deepcopy_strip]

/-- `reset_prms(names)` with known names restores exactly those entries and leaves the others as they
are (even after nested in-place edits: the defaults are re-read at every call). -/
theorem reset_some (s : Sys) (gid did : Nat) (ges des : PEntries) (names : List String)
    (hg : s.global = .dict gid ges) (hd : s.defaults = .dict did des)
    (hn : ∀ n ∈ names, (des.lookup n).isSome = true) :
    ∃ es, (s.step (.reset (some names))).1.global = .dict gid es ∧ (s.step (.reset (some names))).2 = .ok [] ∧
      (∀ n ∈ names, ((es.lookup n).map PTree.strip) = ((des.lookup n).map PTree.strip)) ∧
      (∀ k, k ∉ names → es.lookup k = ges.lookup k) := by
  obtain ⟨h1, h2⟩ := step_reset_some s gid ges names hg
  obtain ⟨j, des', hj, hs⟩ := deepcopy_dict_lookup did des s.next
  rw [hd, hj] at h1 h2
  have hn' : ∀ n ∈ names, (des'.lookup n).isSome = true := by
    intro n hnn
    have := hs n
    have h3 := hn n hnn
    cases h4 : des'.lookup n <;> cases h5 : des.lookup n <;> simp [h4, h5] at this h3 ⊢
  obtain ⟨es', e1, e2, e3⟩ := resetFold_known j gid des' names ges hn'
  rw [e1] at h1 h2
  refine ⟨es', h1, by simpa using h2, ?_, e3⟩
  intro n hnn
  rw [e2 n hnn, hs]

/-- An unknown name raises `AmpycloudError`; the names listed before it have already been reset. -/
theorem reset_unknown (s : Sys) (gid did : Nat) (ges des : PEntries) (pre post : List String) (bad : String)
    (hg : s.global = .dict gid ges) (hd : s.defaults = .dict did des)
    (hn : ∀ n ∈ pre, (des.lookup n).isSome = true) (hb : des.lookup bad = none) :
    ∃ es, (s.step (.reset (some (pre ++ bad :: post)))).1.global = .dict gid es ∧
      (s.step (.reset (some (pre ++ bad :: post)))).2 = .ampyError ∧
      (∀ n ∈ pre, ((es.lookup n).map PTree.strip) = ((des.lookup n).map PTree.strip)) ∧
      (∀ k, k ∉ pre → es.lookup k = ges.lookup k) := by
  obtain ⟨h1, h2⟩ := step_reset_some s gid ges (pre ++ bad :: post) hg
  obtain ⟨j, des', hj, hs⟩ := deepcopy_dict_lookup did des s.next
  rw [hd, hj] at h1 h2
  have hn' : ∀ n ∈ pre, (des'.lookup n).isSome = true := by
    intro n hnn
    have := hs n
    have h3 := hn n hnn
    cases h4 : des'.lookup n <;> cases h5 : des.lookup n <;> simp [h4, h5] at this h3 ⊢
  have hb' : des'.lookup bad = none := by
    have := hs bad
    cases h4 : des'.lookup bad <;> simp [h4, hb] at this ⊢
  obtain ⟨es', e1, e2, e3⟩ := resetFold_known j gid des' pre ges hn'
  have e : resetFold (.dict j des') (pre ++ bad :: post) (.dict gid ges, false) = (.dict gid es', true) := by
    rw [resetFold_append, e1, resetFold_cons, resetFold_one_unknown _ _ _ _ _ hb', resetFold_flag]
  rw [e] at h1 h2
  refine ⟨es', h1, by simpa using h2, ?_, e3⟩
  intro n hnn
  rw [e2 n hnn, hs]

end Ampy
