import Ampy.Spec.Pipeline
import Ampy.Lemmas.EndToEnd
import Ampy.Lemmas.NonVacuous
import Ampy.Lemmas.LayerSep
import Ampy.Props.C05
import Ampy.Props.C07
/-!
# Soundness of the monitor predicates `Spec.c05`, `Spec.c06` (groups clause), `Spec.c07` on the model's own run

If the implementation's observables are exactly what the model's `run` returns (`obsOf`), then for every accepted
input (`Accepted K P checked`):

* `spec_c07_sound` : `Spec.c07 P.toPrms (obsOf checked c) = []`
* `spec_c05_sound` : `Spec.c05 P.toPrms (obsOf checked c) = []`
* `spec_c06_groups_sound` : the first clause of `Spec.c06` ("C06.groups-min-sep") raises nothing (needs `SepNonneg`,
  as `run_groups_separated` does).

## FALSE ALARM FOUND (and repaired): the second clause of `Spec.c06` ("C06.split-layers-min-sep") as first written

*Repair*: `Spec.c06` now takes the number of components of the selected mixture **before** re-merging for every group
(`rawComponents`, computed by the driver from the recorded mixture answers) and applies the clause only to groups whose
reported `ncomp` equals it. The two counterexamples below are kept as regression tests: guarded by `ncomp` alone the
clause fires on the model's own run, guarded by the raw count it is silent. What follows describes the monitor as first
written (`Spec.c06` without the `raw` argument).

`Spec.c06 P.toPrms (obsOf checked c) = []` was FALSE, even with all default parameters, `Accepted K P checked`,
`SepNonneg` and `P.exclude = []`.  The clause demands that the layers of every group with `ncomp = k ≥ 2` be pairwise
`minSepOf P g.base` apart; its guard `ls.length == k.toNat` is meant to select "as many layers as the mixture
distinguishes", but `ncomp` is the count *after* the re-merge pass of `ncomp_from_gmm`, so the guard always holds
(`run_k_components`) and does not exclude re-merged groups.  When the selected mixture has 3 components and the
re-merge pass merges two of them, the base of the merged layer is recomputed by `metarize` on the union of the two
components and is never compared again with the remaining layer: the model (and the code it models) only guarantees the
separation when nothing was re-merged (`C06_components_separated`, `run_split_layers_separated` in `LayerSep.lean`, which
carries the hypothesis `selectedFit … = some (n, f)`).  The pre-merge count is not part of `Spec.Obs`, so the monitor
cannot tell the two cases apart.

Concrete counterexamples (section "counterexample" at the end of this file; `Accepted` is proved, the run is evaluated
with `#eval` under `#guard_msgs` because `List.mergeSort` does not reduce in the kernel):

1. `cexKern`, default parameters, `cexScene` (one ceilometer, 40 hits, one slice, one group, base 1200, min sep 250).
   The selected mixture has 3 components with bases 1200, 1450, 1670: 1450 − 1200 = 250 passes, 1670 − 1450 = 220 < 250 merges
   the upper two.  Reported: `ncomp = 2`, layers `(100, base 1200)` and `(101, base 1380)` — 1380 is the 5th percentile
   (linear interpolation) of the union `{1000, 1400, 2000 × 18}`; 1380 − 1200 = 180 < 250 and `Spec.c06` returns
   `["C06.split-layers-min-sep"]`.
2. `cexKern2`, `BASE_LVL_LOOKBACK_PERC = 50`, `cexScene2` (60 hits): component bases 1350, 1600, 1800 (the middle one taken
   on its most recent half), the upper two are merged, the base of the union over *its* most recent half is 1300:
   reported layers `(101, 1300)`, `(100, 1350)`, 50 apart, same alarm.

The full statement for the repaired monitor is `spec_c06_sound` at the end of this file.
-/
namespace Ampy

/-- What the monitor would see if the implementation were the model. -/
def obsOf (checked : List (Hit String)) (c : Chunk String) : Spec.Obs :=
  { input := checked, data := c.data, flag := c.flag,
    sids := c.sids.getD [], gids := c.gids.getD [], lids := c.lids.getD [],
    slices := c.slices.getD [], groups := c.groups.getD [], layers := c.layers.getD [],
    nSlices := nWhich (c.sids.getD []), nGroups := nWhich (c.gids.getD []), nLayers := nWhich (c.lids.getD []) }

/-! ### C07 -/

theorem fails_true (name : String) : Spec.fails true name = [] := rfl

theorem fails_of {b : Bool} (h : b = true) (name : String) : Spec.fails b name = [] := by
  subst h; rfl

/-- The model's cropping is the expected cropping of the spec, row by row. -/
theorem crop_eq_expectCrop (P : Prms String) (d : List (Hit String)) :
    (crop P d).1 = Spec.expectCrop P.msa P.msaBuf d := by
  unfold crop Spec.expectCrop
  cases hm : P.msa with
  | none => rfl
  | some m =>
    simp only
    unfold cropRows
    induction d with
    | nil => rfl
    | cons h t ih =>
      rw [List.filterMap_cons, List.filterMap_cons, ih]
      congr 1
      unfold aboveLim
      cases hh : h.height with
      | none => rfl
      | some y =>
        simp only
        by_cases hy : y > m + P.msaBuf
        · simp only [hy, decide_true, if_true]
        · simp [hy]

theorem fails3 {a b c : Bool} (n1 n2 n3 : String) (ha : a = true) (hb : b = true) (hc : c = true) :
    Spec.fails a n1 ++ Spec.fails b n2 ++ Spec.fails c n3 = [] := by
  subst ha hb hc; rfl

/-- `Spec.c07` raises nothing on any observation whose data and flag are the model's cropping of its input. -/
theorem c07_of_crop (P : Prms String) (o : Spec.Obs) (hd : o.data = (crop P o.input).1)
    (hf : o.flag = (crop P o.input).2) : Spec.c07 P o = [] := by
  have hexp := crop_eq_expectCrop P o.input
  unfold Spec.c07
  cases hm : P.msa with
  | none =>
    simp only
    rw [hd, hf]
    simp [crop, hm, Spec.fails]
  | some m =>
    simp only
    apply fails3
    · rw [hf]
      simp only [crop, hm]
      rw [beq_iff_eq]
      rfl
    · rw [hd, hexp, hm]; exact beq_self_eq_true _
    · rw [List.all_eq_true]
      intro x hx
      rw [hd] at hx
      simp only [crop, hm] at hx
      have := C07_nothing_above (m + P.msaBuf) o.input x hx
      unfold aboveLim at this
      cases hh : x.height with
      | none => rfl
      | some y =>
        rw [hh] at this
        simp only [decide_eq_false_iff_not, not_lt] at this
        simpa using this

theorem spec_c07_sound (K : Kern) (P : PPrms String) (checked : List (Hit String)) (c : Chunk String)
    (hA : Accepted K P checked) (h : run K P checked = .ok c) :
    Spec.c07 P.toPrms (obsOf checked c) = [] := by
  have _ := hA
  obtain ⟨hd, hf⟩ := C05_hits_preserved K P checked c h
  exact c07_of_crop P.toPrms (obsOf checked c) hd hf

/-! ### C06, groups clause -/

theorem pairwiseSep_of_table (sep : Rat → Rat) : ∀ (t : Table), t.Pairwise (fun a b => a.base ≤ b.base) →
    (t.map (·.cid)).Nodup →
    (∀ r₁ ∈ t, ∀ r₂ ∈ t, r₁.cid ≠ r₂.cid → r₁.base ≤ r₂.base → r₂.base - r₁.base ≥ sep r₂.base) →
    Spec.pairwiseSep sep (t.map (·.base)) = true
  | [], _, _, _ => rfl
  | a :: r, hs, hnd, hsep => by
    rw [List.map_cons, Spec.pairwiseSep, Bool.and_eq_true]
    rw [List.pairwise_cons] at hs
    rw [List.map_cons, List.nodup_cons] at hnd
    constructor
    · rw [List.all_eq_true]
      intro b hb
      obtain ⟨x, hx, rfl⟩ := List.mem_map.mp hb
      rw [decide_eq_true_eq]
      refine hsep a List.mem_cons_self x (List.mem_cons_of_mem _ hx) ?_ (hs.1 x hx)
      intro he
      exact hnd.1 (he ▸ List.mem_map_of_mem hx)
    · exact pairwiseSep_of_table sep r hs.2 hnd.2
        (fun r₁ h₁ r₂ h₂ => hsep r₁ (List.mem_cons_of_mem _ h₁) r₂ (List.mem_cons_of_mem _ h₂))

theorem minSepOf_eq (P : Prms String) (hs : SepShape P) (b s : Rat) (h : minSepFor P b = .ok s) :
    Spec.minSepOf P b = s := by
  obtain ⟨v, hv, _, hl⟩ := minSepFor_ok P hs b
  rw [hv] at h
  cases h
  unfold Spec.minSepOf
  rw [hl]
  rfl

theorem spec_c06_groups_sound (K : Kern) (P : PPrms String) (checked : List (Hit String)) (c : Chunk String)
    (hA : Accepted K P checked) (h : run K P checked = .ok c) (hsn : SepNonneg P.toPrms) :
    Spec.pairwiseSep (Spec.minSepOf P.toPrms) ((obsOf checked c).groups.map (·.base)) = true := by
  obtain ⟨t, ids, ht, _, _, hok, _, hp⟩ := run_tableOK K P checked hA c h .groups
  have ht' : c.groups = some t := ht
  have hg : (obsOf checked c).groups = t := by simp [obsOf, ht']
  rw [hg]
  apply pairwiseSep_of_table _ t hok.sorted (hp.nodup_iff.mpr (clusterIds_nodup ids))
  intro r₁ h₁ r₂ h₂ hne hle
  obtain ⟨s, hs, hge⟩ := run_groups_separated K P checked hA hsn c h t ht' r₁ h₁ r₂ h₂ hne hle
  rw [minSepOf_eq P.toPrms hA.prms.sep _ s hs]
  exact hge

/-! ### C05 -/

theorem eraseDups_length_of_nodup (l : List Int) (h : l.Nodup) : l.eraseDups.length = l.length := by
  rw [eraseDups_length_eq_card, List.toFinset_card_of_nodup h]

theorem eraseDups_length_one (l : List Int) (hne : l ≠ []) (heq : ∀ x ∈ l, ∀ y ∈ l, x = y) :
    l.eraseDups.length = 1 := by
  cases l with
  | nil => exact absurd rfl hne
  | cons a r =>
    rw [List.eraseDups_cons]
    have : (r.filter fun b => !b == a) = [] := by
      rw [List.filter_eq_nil_iff]
      intro b hb
      have := heq b (List.mem_cons_of_mem _ hb) a List.mem_cons_self
      simp [this]
    rw [this]
    rfl

theorem mem_distinctNonNeg (ids : List Int) (x : Int) : x ∈ Spec.distinctNonNeg ids ↔ x ∈ ids ∧ 0 ≤ x := by
  unfold Spec.distinctNonNeg
  rw [List.mem_eraseDups, List.mem_filter]
  simp

theorem mem_distinctNonNeg_iff_clusterIds (ids : List Int) (hge : ∀ i ∈ ids, -1 ≤ i) (x : Int) :
    x ∈ Spec.distinctNonNeg ids ↔ x ∈ clusterIds ids := by
  rw [mem_distinctNonNeg, mem_clusterIds]
  constructor
  · rintro ⟨h1, h2⟩; exact ⟨h1, by omega⟩
  · rintro ⟨h1, h2⟩; have := hge x h1; exact ⟨h1, by omega⟩

theorem sameSet_of (a b : List Int) (h : ∀ x, x ∈ a ↔ x ∈ b) : Spec.sameSet a b = true := by
  unfold Spec.sameSet
  rw [Bool.and_eq_true, List.all_eq_true, List.all_eq_true]
  constructor
  · intro x hx; exact List.contains_iff_mem.mpr ((h x).mp hx)
  · intro x hx; exact List.contains_iff_mem.mpr ((h x).mpr hx)

theorem fails4 {a b c d : Bool} (n1 n2 n3 n4 : String) (ha : a = true) (hb : b = true) (hc : c = true)
    (hd : d = true) : Spec.fails a n1 ++ Spec.fails b n2 ++ Spec.fails c n3 ++ Spec.fails d n4 = [] := by
  subst ha hb hc hd; rfl

/-- The four clauses of one level of `Spec.c05`. -/
theorem c05_level (data : List (Hit String)) (ids : List Int) (t : Table) (n : Nat)
    (hx : IdsExact data ids) (hp : (t.map (·.cid)).Perm (clusterIds ids)) (hn : n = t.length)
    (n1 n2 n3 n4 : String) :
    Spec.fails (ids.length == data.length) n1 ++
    Spec.fails ((data.zip ids).all fun (h, i) => if h.height.isSome then decide (i ≥ 0) else i == -1) n2 ++
    Spec.fails (Spec.sameSet (t.map (·.cid)) (Spec.distinctNonNeg ids) &&
      (t.map (·.cid)).eraseDups.length == t.length) n3 ++
    Spec.fails (n == t.length) n4 = [] := by
  apply fails4
  · rw [beq_iff_eq]; exact hx.len
  · rw [List.all_eq_true]
    rintro ⟨h, i⟩ hm
    have hv := hx.valid _ hm
    simp only at hv ⊢
    cases hh : h.height with
    | none =>
      have := hv.2 hh
      simp [this]
    | some y =>
      have := hv.1 (by simp [hh])
      simp [this]
  · rw [Bool.and_eq_true]
    constructor
    · apply sameSet_of
      intro x
      rw [mem_distinctNonNeg_iff_clusterIds ids hx.toOK.ge]
      exact hp.mem_iff
    · rw [beq_iff_eq, eraseDups_length_of_nodup _ (hp.nodup_iff.mpr (clusterIds_nodup ids)), List.length_map]
  · rw [beq_iff_eq]; exact hn

theorem append_nil2 {a b : List String} (ha : a = []) (hb : b = []) : a ++ b = [] := by
  subst ha hb; rfl

/-- `Spec.c05` raises nothing on an observation with the facts C05 establishes for the model's run. -/
theorem c05_of (P : Prms String) (o : Spec.Obs)
    (hs : IdsExact o.data o.sids) (hg : IdsExact o.data o.gids) (hl : IdsExact o.data o.lids)
    (ps : (o.slices.map (·.cid)).Perm (clusterIds o.sids)) (pg : (o.groups.map (·.cid)).Perm (clusterIds o.gids))
    (pl : (o.layers.map (·.cid)).Perm (clusterIds o.lids))
    (ns : o.nSlices = o.slices.length) (ng : o.nGroups = o.groups.length) (nl : o.nLayers = o.layers.length)
    (href : ∀ p₁ ∈ o.lids.zip o.gids, ∀ p₂ ∈ o.lids.zip o.gids, p₁.1 = p₂.1 → p₁.2 = p₂.2)
    (hk : ∀ g ∈ o.groups, ∃ k, g.ncomp = some k ∧
      (((o.lids.zip o.gids).filter (·.2 = g.cid)).map (·.1)).eraseDups.length = (if k ≥ 1 then k.toNat else 1))
    (hd : o.data = (crop P o.input).1) : Spec.c05 P o = [] := by
  unfold Spec.c05
  simp only []
  refine append_nil2 (append_nil2 (append_nil2 (append_nil2 (append_nil2 ?_ ?_) ?_) ?_) ?_) ?_
  · exact c05_level o.data o.sids o.slices o.nSlices hs ps ns _ _ _ _
  · exact c05_level o.data o.gids o.groups o.nGroups hg pg ng _ _ _ _
  · exact c05_level o.data o.lids o.layers o.nLayers hl pl nl _ _ _ _
  · apply fails_of
    rw [List.all_eq_true]
    intro l hlm
    rw [beq_iff_eq]
    have hl1 := ((mem_distinctNonNeg o.lids l).mp hlm).1
    apply eraseDups_length_one
    · obtain ⟨i, hi, rfl⟩ := List.mem_iff_getElem.mp hl1
      have hi' : i < o.gids.length := by rw [hg.len, ← hl.len]; exact hi
      have hm := zip_getElem_mem o.lids o.gids i hi hi'
      intro hnil
      have : o.gids[i] ∈ ((o.lids.zip o.gids).filter (·.1 == o.lids[i])).map (·.2) :=
        List.mem_map.mpr ⟨_, List.mem_filter.mpr ⟨hm, by simp⟩, rfl⟩
      rw [hnil] at this
      cases this
    · intro x hx y hy
      obtain ⟨p, hp, rfl⟩ := List.mem_map.mp hx
      obtain ⟨q, hq, rfl⟩ := List.mem_map.mp hy
      rw [List.mem_filter] at hp hq
      have e1 : p.1 = l := by simpa using hp.2
      have e2 : q.1 = l := by simpa using hq.2
      exact href p hp.1 q hq.1 (e1.trans e2.symm)
  · apply fails_of
    rw [List.all_eq_true]
    intro g hgm
    obtain ⟨k, hk1, hk2⟩ := hk g hgm
    have hf : ((o.lids.zip o.gids).filter (·.2 == g.cid)) = ((o.lids.zip o.gids).filter (·.2 = g.cid)) := by
      apply List.filter_congr
      intro x _
      exact beq_eq_decide _ _
    simp only [hk1, hf, hk2]
    split <;> simp
  · apply fails_of
    rw [hd, crop_eq_expectCrop]
    exact beq_self_eq_true _

theorem spec_c05_sound (K : Kern) (P : PPrms String) (checked : List (Hit String)) (c : Chunk String)
    (hA : Accepted K P checked) (h : run K P checked = .ok c) :
    Spec.c05 P.toPrms (obsOf checked c) = [] := by
  have hK := hA.kern
  obtain ⟨sids, gids, lids, sl, gr, lay, e1, e2, e3, e4, e5, e6, p1, n1, p2, n2, p3, n3⟩ :=
    run_tables K P checked hK c h
  obtain ⟨sids', gids', lids', f1, f2, f3, x1, x2, x3⟩ := C05_every_hit_assigned K P checked hK c h
  obtain rfl : sids = sids' := Option.some.inj (e1.symm.trans f1)
  obtain rfl : gids = gids' := Option.some.inj (e2.symm.trans f2)
  obtain rfl : lids = lids' := Option.some.inj (e3.symm.trans f3)
  have o1 : (obsOf checked c).sids = sids := by simp [obsOf, e1]
  have o2 : (obsOf checked c).gids = gids := by simp [obsOf, e2]
  have o3 : (obsOf checked c).lids = lids := by simp [obsOf, e3]
  have o4 : (obsOf checked c).slices = sl := by simp [obsOf, e4]
  have o5 : (obsOf checked c).groups = gr := by simp [obsOf, e5]
  have o6 : (obsOf checked c).layers = lay := by simp [obsOf, e6]
  have o7 : (obsOf checked c).nSlices = nWhich sids := by simp [obsOf, e1]
  have o8 : (obsOf checked c).nGroups = nWhich gids := by simp [obsOf, e2]
  have o9 : (obsOf checked c).nLayers = nWhich lids := by simp [obsOf, e3]
  have od : (obsOf checked c).data = c.data := rfl
  apply c05_of
  · rw [o1, od]; exact x1
  · rw [o2, od]; exact x2
  · rw [o3, od]; exact x3
  · rw [o1, o4]; exact p1
  · rw [o2, o5]; exact p2
  · rw [o3, o6]; exact p3
  · rw [o7, o4]; exact n1
  · rw [o8, o5]; exact n2
  · rw [o9, o6]; exact n3
  · rw [o2, o3]; exact run_refine K P checked hK c h gids lids e2 e3
  · rw [o2, o3, o5]; exact run_k_components K P checked hK c h gids lids gr e2 e3 e5
  · exact (C05_hits_preserved K P checked c h).1

/-! ### counterexample: the split-layers clause of `Spec.c06` fires on the model's own run -/

/-- A kernel like `demoKern`, but: one cluster for everything, and mixtures whose labels are given per time position by
`lab n` (scores decreasing in `n`, so that the `delta` mode selects the largest mixture). -/
def cexKernOf (lab : Nat → Nat → Nat) : Kern :=
  { demoKern with
    cluster := fun _ _ pts => pts.map fun _ => 0
    gmm := fun _ vals n => ⟨(List.range vals.length).map (lab n), 100 / (n : Rat)⟩ }

theorem cexKernOf_ok (lab : Nat → Nat → Nat) (hlab : ∀ n i, 1 ≤ n → lab n i < n) (q : Rat) (h0 : 0 ≤ q) (h1 : q ≤ 100) :
    KernOK (cexKernOf lab) q where
  met := demoKern_met q h0 h1
  cluster_len := fun _ _ pts => List.length_map _
  gmm_len := fun _ vals _ => by simp [cexKernOf]
  gmm_lt := by
    intro s vals n hn l hl
    obtain ⟨i, _, rfl⟩ := List.mem_map.mp hl
    exact hlab n i hn
  bestProb_lt := fun ab _ hab => List.length_pos_iff.mpr hab
  argsort_perm := sortPerm_perm
  argsort_sorted := sortPerm_sorted
  prelimOrder_perm := sortPerm_perm
  prelimOrder_sorted := sortPerm_sorted

/-- Scenario 1 (all default parameters): positions 0-19 component 0, 20-29 component 1, 30-39 component 2. -/
def cexLabel (n i : Nat) : Nat :=
  if n = 2 then (if i < 20 then 0 else 1)
  else if n = 3 then (if i < 20 then 0 else if i < 30 then 1 else 2)
  else 0

def cexKern : Kern := cexKernOf cexLabel

def cexHeight (i : Nat) : Rat :=
  if i < 20 then 1200 else if i = 20 then 1000 else if i < 30 then 2000 else if i = 30 then 1400 else 2000

def cexScene : List (Hit String) :=
  (List.range 40).map fun (i : Nat) => { ceilo := "A", dt := 15 * (i : Rat) - 585, height := some (cexHeight i), type := 1 }

theorem cexLabel_lt (n i : Nat) (hn : 1 ≤ n) : cexLabel n i < n := by
  unfold cexLabel
  split_ifs <;> omega

theorem cex_accepted : Accepted cexKern demoPrms cexScene where
  kern := cexKernOf_ok cexLabel cexLabel_lt _ (by decide) (by decide)
  prms := demoPrms_ok
  range := by
    intro h hh y hy
    obtain ⟨i, _, rfl⟩ := List.mem_map.mp hh
    simp only [Option.some.injEq] at hy
    subst hy
    unfold cexHeight
    split_ifs <;> constructor <;> decide

/-- info: some (["C06.split-layers-min-sep"], [], [(1200, some 2)], [(100, 1200), (101, 1380)]) -/
#guard_msgs in
#eval (run cexKern demoPrms cexScene).toOption.map fun c =>
  (-- guarded by the reported `ncomp` alone (the monitor as first written): fires on the model's own run
   Spec.c06 demoPrms.toPrms (obsOf cexScene c) ((c.groups.getD []).map fun g => g.ncomp.map Int.toNat),
   -- guarded by the number of components of the selected mixture before re-merging (the monitor as repaired): silent
   Spec.c06 demoPrms.toPrms (obsOf cexScene c)
     ((c.groups.getD []).map fun g => rawComponents cexKern demoPrms c.data (c.gids.getD []) g),
   (c.groups.getD []).map (fun r => (r.base, r.ncomp)), (c.layers.getD []).map (fun r => (r.cid, r.base)))

/-- Scenario 2 (look-back 50 %): positions 0-19 component 2 (old, 1800), 20-29 and 50-59 component 1 (1300, then 1600),
30-49 component 0 (1350). -/
def cexLabel2 (n i : Nat) : Nat :=
  if n = 2 then (if 30 ≤ i ∧ i < 50 then 0 else 1)
  else if n = 3 then (if i < 20 then 2 else if i < 30 then 1 else if i < 50 then 0 else 1)
  else 0

def cexKern2 : Kern := cexKernOf cexLabel2

def cexPrms2 : PPrms String := { lookback := 50 }

def cexHeight2 (i : Nat) : Rat :=
  if i < 20 then 1800 else if i < 30 then 1300 else if i < 50 then 1350 else 1600

def cexScene2 : List (Hit String) :=
  (List.range 60).map fun (i : Nat) => { ceilo := "A", dt := 10 * (i : Rat) - 590, height := some (cexHeight2 i), type := 1 }

theorem cexLabel2_lt (n i : Nat) (hn : 1 ≤ n) : cexLabel2 n i < n := by
  unfold cexLabel2
  split_ifs <;> omega

theorem cex2_accepted : Accepted cexKern2 cexPrms2 cexScene2 where
  kern := cexKernOf_ok cexLabel2 cexLabel2_lt _ (by decide) (by decide)
  prms := ⟨by decide, rfl, .inr rfl, .inl rfl, trivial⟩
  range := by
    intro h hh y hy
    obtain ⟨i, _, rfl⟩ := List.mem_map.mp hh
    simp only [Option.some.injEq] at hy
    subst hy
    unfold cexHeight2
    split_ifs <;> constructor <;> decide

theorem cex2_sepNonneg : SepNonneg cexPrms2.toPrms := demoPrms_sepNonneg

/-- info: some (["C06.split-layers-min-sep"], [], [(1350, some 2)], [(101, 1300), (100, 1350)]) -/
#guard_msgs in
#eval (run cexKern2 cexPrms2 cexScene2).toOption.map fun c =>
  (Spec.c06 cexPrms2.toPrms (obsOf cexScene2 c) ((c.groups.getD []).map fun g => g.ncomp.map Int.toNat),
   Spec.c06 cexPrms2.toPrms (obsOf cexScene2 c)
     ((c.groups.getD []).map fun g => rawComponents cexKern2 cexPrms2 c.data (c.gids.getD []) g),
   (c.groups.getD []).map (fun r => (r.base, r.ncomp)), (c.layers.getD []).map (fun r => (r.cid, r.base)))

/-! ### C06, the whole predicate (repaired monitor: the split-layers clause is guarded by `rawComponents`) -/

open Lay in
/-- The missing link: when group number `ind` of the table was split in `n ≥ 2` layers and nothing was re-merged (the
selected mixture has `n` components), every layer id carried by a hit of the group is `off + 10·ind + j` with `j < n`. -/
theorem split_group_lids {α} [DecidableEq α] (K : Kern) (P : PPrms α) (hK : KernOK K P.basePerc)
    (data : List (Hit α)) (gids : List Int) (groups : Table) (hg : IdsExact data gids)
    (hcid : (groups.map (·.cid)).Nodup)
    (lids ncomps : List Int) (h : layerIds K P data gids groups = .ok (lids, ncomps))
    (ind : Nat) (g : Row) (hgi : groups[ind]? = some g) (n : Nat) (hn : ncomps[ind]? = some (n : Int)) (hn2 : 2 ≤ n)
    (minSep : Rat) (hms : minSepFor P.toPrms g.base = .ok minSep) (h0 : 0 ≤ minSep) (f : GmmFit)
    (hsel : selectedFit K P (groupHeights K data gids g.cid)
      (min ((groupHeights K data gids g.cid).eraseDups).length 3) = some (n, f)) :
    ∀ (i : Nat) (l : Int), gids[i]? = some g.cid → lids[i]? = some l →
      ∃ j : Nat, j < n ∧ l = lidOffset gids + 10 * (ind : Int) + (j : Int) := by
  obtain ⟨ids, hgmm⟩ := layerIds_gmm_call K P data gids groups lids ncomps h ind g hgi n hn minSep hms
  obtain ⟨best, ht, hs⟩ := ncompFromGmm_sel K P _ _ minSep n ids hgmm hn2
  rw [hs] at hsel
  obtain ⟨f', hf', he⟩ := Option.map_eq_some_iff.mp hsel
  cases he
  obtain ⟨hid, _⟩ := gmmTail_unmerged K P hK _ minSep h0 _ best ids f hf' hn2 ht
  have hlt : ∀ c ∈ ids, c < best + 1 := by
    rw [hid]
    rw [List.getElem?_map] at hf'
    obtain ⟨i0, hi0, rfl⟩ := Option.map_eq_some_iff.mp hf'
    have hib : i0 = best := by
      have := (List.getElem?_eq_some_iff.mp hi0).2
      simpa using this.symm
    subst hib
    exact hK.gmm_lt _ _ _ (Nat.succ_pos _)
  obtain ⟨h30, hall⟩ := split_rows K P P.basePerc hK data gids groups hg hcid lids ncomps h ind g hgi (best + 1) hn hn2
    minSep hms ids hgmm
  have hne : grpHs data (grpPos K data gids g.cid) ≠ [] := by
    intro he
    rw [he] at h30
    simp at h30
  have hc0 := grp_cid_nonneg K hg g.cid hne
  have hlen1 := grpHs_length K hg g.cid hc0
  have hlen2 : ids.length = (grpHs data (grpPos K data gids g.cid)).length :=
    (ncompFromGmm_spec K P _ hK _ _ minSep _ ids hgmm).1
  intro i l hgi' hli
  have hmem := mem_grpPos_of K _ hK data gids hg.len g.cid i hgi'
  obtain ⟨j, hj, rfl⟩ := List.mem_iff_getElem.mp hmem
  have hj2 : j < ids.length := by omega
  have := hall j hj hj2
  rw [hli] at this
  exact ⟨ids[j], hlt _ (List.getElem_mem _), Option.some.inj this⟩

/-- `pairwiseSep` with a constant separation on the selected rows of a sorted table with distinct ids. -/
theorem pairwiseSep_filter_of_table (s : Rat) (p : Row → Bool) (t : Table)
    (hs : t.Pairwise (fun a b => a.base ≤ b.base)) (hnd : (t.map (·.cid)).Nodup)
    (hsep : ∀ r₁ ∈ t, ∀ r₂ ∈ t, p r₁ = true → p r₂ = true → r₁.cid ≠ r₂.cid → r₁.base ≤ r₂.base →
      r₂.base - r₁.base ≥ s) :
    Spec.pairwiseSep (fun _ => s) ((t.filter p).map (·.base)) = true := by
  apply pairwiseSep_of_table (fun _ => s) (t.filter p) (hs.sublist List.filter_sublist)
    (hnd.sublist (List.filter_sublist.map _))
  intro r₁ h₁ r₂ h₂
  rw [List.mem_filter] at h₁ h₂
  exact hsep r₁ h₁.1 r₂ h₂.1 h₁.2 h₂.2

/-- `Spec.c06` raises nothing on an observation whose groups are separated and whose split, un-re-merged groups have
separated layers. -/
theorem c06_of (P : Prms String) (o : Spec.Obs) (raw : List (Option Nat))
    (h1 : Spec.pairwiseSep (Spec.minSepOf P) (o.groups.map (·.base)) = true)
    (h2 : P.exclude = [] → ∀ p ∈ o.groups.zip raw, ∀ k : Int, p.1.ncomp = some k → p.2 = some k.toNat → k ≥ 2 →
      Spec.pairwiseSep (fun _ => Spec.minSepOf P p.1.base)
        ((o.layers.filter fun r =>
          ((((o.lids.zip o.gids).filter (·.2 == p.1.cid)).map (·.1)).eraseDups).contains r.cid).map (·.base)) = true) :
    Spec.c06 P o raw = [] := by
  unfold Spec.c06
  simp only []
  apply append_nil2 (fails_of h1 _)
  split
  · rfl
  · rename_i hex
    have hex' : P.exclude = [] := not_not.mp hex
    apply fails_of
    rw [List.all_eq_true]
    rintro ⟨g, rw⟩ hm
    simp only
    cases hk : g.ncomp with
    | none => rfl
    | some k =>
      cases hr : rw with
      | none => rfl
      | some n0 =>
        simp only
        split
        · rename_i hc
          obtain ⟨hk2, _, hn0⟩ := hc
          rw [beq_iff_eq] at hn0
          exact h2 hex' (g, rw) hm k hk (by rw [hr, hn0]) hk2
        · rfl

theorem mem_groupLs_iff (lids gids : List Int) (cid v : Int) :
    ((((lids.zip gids).filter (·.2 == cid)).map (·.1)).eraseDups).contains v = true ↔
      ∃ i : Nat, gids[i]? = some cid ∧ lids[i]? = some v := by
  have hf : ((lids.zip gids).filter (·.2 == cid)) = ((lids.zip gids).filter (·.2 = cid)) :=
    List.filter_congr (fun x _ => beq_eq_decide _ _)
  rw [List.contains_iff_mem, List.mem_eraseDups, hf]
  exact Lay.mem_groupLids lids gids cid v

/-- Soundness of the whole (repaired) `Spec.c06` on the model's own run, the raw component counts being those of the
model (`rawComponents`). -/
theorem spec_c06_sound (K : Kern) (P : PPrms String) (checked : List (Hit String)) (c : Chunk String)
    (hA : Accepted K P checked) (h : run K P checked = .ok c) (hsn : SepNonneg P.toPrms) :
    Spec.c06 P.toPrms (obsOf checked c)
      ((c.groups.getD []).map fun g => rawComponents K P c.data (c.gids.getD []) g) = [] := by
  obtain ⟨hd, _, sids, sl, gids, iso, gr₀, lids, nc, lay, hs, hsl, hgids, hgr₀, hli, hlay, e1, e2, e3, e4, e5, e6⟩ :=
    run_parts K P checked c h
  have hK := hA.kern
  have x1 := sliceIds_exact K P c.data _ hK sids hs
  have x2 := groupIds_exact K P c.data _ hK sids sl x1 gids iso hgids
  have p2 := metarize_cids K.toMetK P.toPrms .groups false c.data gids hK.met gr₀ hgr₀
  have hcid : (gr₀.map (·.cid)).Nodup := p2.nodup_iff.mpr (clusterIds_nodup gids)
  have hlen := layerIds_ncomps_length K P c.data gids gr₀ lids nc hli
  obtain ⟨lay', lids', ht3, hi3, _, hok3, _, hp3⟩ := run_tableOK K P checked hA c h .layers
  obtain rfl : lay = lay' := Option.some.inj (e6.symm.trans ht3)
  obtain rfl : lids = lids' := Option.some.inj (e3.symm.trans hi3)
  have o2 : (obsOf checked c).gids = gids := by simp [obsOf, e2]
  have o3 : (obsOf checked c).lids = lids := by simp [obsOf, e3]
  have o5 : (obsOf checked c).groups = setNcomp gr₀ nc := by simp [obsOf, e5]
  have o6 : (obsOf checked c).layers = lay := by simp [obsOf, e6]
  apply c06_of
  · exact spec_c06_groups_sound K P checked c hA h hsn
  · intro hex p hp k hk hraw hk2
    rw [o2, o3, o6]
    rw [o5, e5, e2] at hp
    simp only [Option.getD_some] at hp
    obtain ⟨ind, hi, he⟩ := List.mem_iff_getElem.mp hp
    rw [List.getElem_zip, List.getElem_map] at he
    have hi1 : ind < (setNcomp gr₀ nc).length := by
      rw [List.length_zip] at hi
      omega
    subst he
    simp only at hk hraw ⊢
    have hgr : (setNcomp gr₀ nc)[ind]? = some (setNcomp gr₀ nc)[ind] := List.getElem?_eq_getElem hi1
    generalize (setNcomp gr₀ nc)[ind] = g at hk hraw hgr ⊢
    -- the row `find_layers` saw
    obtain ⟨r₀, hr₀, hge⟩ := setNcomp_getElem? gr₀ nc ind g hgr
    have hcidE : g.cid = r₀.cid := by rw [hge]
    have hbaseE : g.base = r₀.base := by rw [hge]
    have hncE : g.ncomp = some (nc.getD ind (-1)) := by rw [hge]
    have hi0 : ind < gr₀.length := (List.getElem?_eq_some_iff.mp hr₀).1
    have hnk : ((k.toNat : Nat) : Int) = k := Int.toNat_of_nonneg (by omega)
    have hn2 : 2 ≤ k.toNat := by omega
    have hnc : g.ncomp = some ((k.toNat : Nat) : Int) := by rw [hnk]; exact hk
    have hncI : nc[ind]? = some ((k.toNat : Nat) : Int) := by
      have hi' : ind < nc.length := hlen ▸ hi0
      have : nc.getD ind (-1) = k := Option.some.inj (hncE.symm.trans hk)
      rw [hnk, ← this, List.getD_eq_getElem?_getD, List.getElem?_eq_getElem hi']
      rfl
    -- the selected mixture has as many components as reported
    obtain ⟨f, hsel⟩ : ∃ f, selectedFit K P (groupHeights K c.data gids g.cid)
        (min ((groupHeights K c.data gids g.cid).eraseDups).length 3) = some (k.toNat, f) := by
      unfold rawComponents at hraw
      simp only at hraw
      split at hraw
      · cases hraw
      · obtain ⟨a, ha, ha1⟩ := Option.map_eq_some_iff.mp hraw
        refine ⟨a.2, ?_⟩
        rw [ha, ← ha1]
    -- the separation of the group's bin
    obtain ⟨v, hms, hvm, _⟩ := minSepFor_ok P.toPrms hA.prms.sep g.base
    have h0 : 0 ≤ v := hsn v hvm
    rw [minSepOf_eq P.toPrms hA.prms.sep g.base v hms]
    have sep := run_split_layers_separated K P checked hA hsn hex c h gids (setNcomp gr₀ nc) lay e2 e5 e6 ind g hgr
      k.toNat hnc hn2 v hms f hsel
    have link := split_group_lids K P hK c.data gids gr₀ x2 hcid lids nc hli ind r₀ hr₀ k.toNat hncI hn2 v
      (hbaseE ▸ hms) h0 f (hcidE ▸ hsel)
    apply pairwiseSep_filter_of_table v _ lay hok3.sorted (hp3.nodup_iff.mpr (clusterIds_nodup lids))
    intro r₁ h₁ r₂ h₂ hc₁ hc₂ hne hle
    obtain ⟨i₁, hg₁, hl₁⟩ := (mem_groupLs_iff lids gids g.cid r₁.cid).mp hc₁
    obtain ⟨i₂, hg₂, hl₂⟩ := (mem_groupLs_iff lids gids g.cid r₂.cid).mp hc₂
    obtain ⟨j₁, hj₁, ej₁⟩ := link i₁ r₁.cid (hcidE ▸ hg₁) hl₁
    obtain ⟨j₂, hj₂, ej₂⟩ := link i₂ r₂.cid (hcidE ▸ hg₂) hl₂
    have hjne : j₁ ≠ j₂ := by
      rintro rfl
      exact hne (ej₁.trans ej₂.symm)
    exact sep r₁ h₁ r₂ h₂ j₁ j₂ hj₁ hj₂ hjne ej₁ ej₂ hle

end Ampy
