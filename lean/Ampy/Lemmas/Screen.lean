import Ampy.Model.Screen
/-! Lemmas behind C15: the consistency check refuses exactly the documented conditions. -/
namespace Ampy

/-- Every present column has one cell per row. -/
structure RawFrame.WF {α} (f : RawFrame α) : Prop where
  ceilo : ∀ c, f.ceilo = some c → c.cells.length = f.nrows
  dt : ∀ c, f.dt = some c → c.cells.length = f.nrows
  height : ∀ c, f.height = some c → c.cells.length = f.nrows
  type : ∀ c, f.type = some c → c.cells.length = f.nrows
  index : f.index.length = f.nrows

/-- The documented refusal conditions on the (coerced) rows. -/
def BadRows {α} (rows : List (Hit α)) : Prop :=
  ¬ rows.Nodup ∨
  (∃ a ∈ rows, ∃ b ∈ rows, a.ceilo = b.ceilo ∧ a.dt = b.dt ∧ a.type = 0 ∧ b.type ≠ 0) ∨
  (∃ a ∈ rows, ∃ b ∈ rows, a.ceilo = b.ceilo ∧ a.dt = b.dt ∧ a.type = -1 ∧ b.type ≠ -1)

/-- The documented list: not a DataFrame, empty, a required column missing, duplicated rows, a
(ceilometer, time) carrying both a type-0 and a non-0 hit, or both a VV and a non-VV hit. -/
def Rejected {α} : PyArg α → Prop
  | .notFrame => True
  | .frame f =>
    f.nrows = 0 ∨ f.ceilo = none ∨ f.dt = none ∨ f.height = none ∨ f.type = none ∨
    ∃ c d h t, f.ceilo = some c ∧ f.dt = some d ∧ f.height = some h ∧ f.type = some t ∧
      BadRows (zipRows c.cells d.cells h.cells t.cells)

theorem hasDup_iff {α} [DecidableEq α] (rows : List (Hit α)) : hasDup rows = true ↔ ¬ rows.Nodup := by
  induction rows with
  | nil => simp [hasDup]
  | cons h t ih =>
    simp only [hasDup, Bool.or_eq_true, List.contains_iff_mem, ih, List.nodup_cons]
    by_cases hm : h ∈ t <;> simp [hm]

theorem coincident_iff {α} [DecidableEq α] (k : Int) (rows : List (Hit α)) :
    coincident k rows = true ↔
      ∃ a ∈ rows, ∃ b ∈ rows, a.ceilo = b.ceilo ∧ a.dt = b.dt ∧ a.type = k ∧ b.type ≠ k := by
  unfold coincident
  simp only [List.any_eq_true, Bool.and_eq_true, beq_iff_eq, bne_iff_ne, ne_eq]
  constructor
  · rintro ⟨a, ha, hk, b, hb, ⟨hbk, hc⟩, hd⟩
    exact ⟨a, ha, b, hb, hc, hd, hk, hbk⟩
  · rintro ⟨a, ha, b, hb, hc, hd, hk, hbk⟩
    exact ⟨a, ha, hk, b, hb, ⟨hbk, hc⟩, hd⟩

theorem badRows_iff {α} [DecidableEq α] (rows : List (Hit α)) :
    BadRows rows ↔ (hasDup rows = true ∨ coincident 0 rows = true ∨ coincident (-1) rows = true) := by
  unfold BadRows
  rw [hasDup_iff, coincident_iff, coincident_iff]

theorem screen_error_iff {α} [DecidableEq α] (arg : PyArg α) :
    (∃ e, screen arg = .error e) ↔ Rejected arg := by
  cases arg with
  | notFrame => simp [screen, Rejected]
  | frame f =>
    obtain ⟨n, idx, c, d, h, t, ex⟩ := f
    simp only [Rejected, screen, badRows_iff]
    by_cases hn : n = 0
    · simp [hn]
    · rcases c with _ | c <;> rcases d with _ | d <;> rcases h with _ | h <;> rcases t with _ | t <;>
        simp [hn]
      by_cases h1 : hasDup (zipRows c.cells d.cells h.cells t.cells) = true
      · simp [h1]
      · by_cases h2 : coincident 0 (zipRows c.cells d.cells h.cells t.cells) = true
        · simp [h1, h2]
        · by_cases h3 : coincident (-1) (zipRows c.cells d.cells h.cells t.cells) = true
          · simp [h1, h2, h3]
          · simp [h1, h2, h3]

/-- The warnings about dtypes and superfluous columns. -/
def colWarnings {α} (f : RawFrame α) (c : Col α) (d : Col Rat) (h : Col (Option Rat)) (t : Col Int) : List Warn :=
  (if c.exact then [] else [Warn.dtype "ceilo"]) ++ (if d.exact then [] else [Warn.dtype "dt"]) ++
    (if h.exact then [] else [Warn.dtype "height"]) ++ (if t.exact then [] else [Warn.dtype "type"]) ++
    f.extra.map Warn.superfluous

/-- Normal form of `screen`: an `.ampy` refusal, or a frame that passed every test. -/
theorem screen_cases {α} [DecidableEq α] (arg : PyArg α) :
    (∃ why, screen arg = .error (.ampy why)) ∨
    ∃ f c d h t, arg = .frame f ∧ f.nrows ≠ 0 ∧ f.ceilo = some c ∧ f.dt = some d ∧ f.height = some h ∧
      f.type = some t ∧ hasDup (zipRows c.cells d.cells h.cells t.cells) = false ∧
      coincident 0 (zipRows c.cells d.cells h.cells t.cells) = false ∧
      coincident (-1) (zipRows c.cells d.cells h.cells t.cells) = false ∧
      screen arg = .ok (⟨f.index, zipRows c.cells d.cells h.cells t.cells⟩,
        colWarnings f c d h t ++ heightWarnings (zipRows c.cells d.cells h.cells t.cells)) := by
  cases arg with
  | notFrame => exact Or.inl ⟨_, rfl⟩
  | frame f =>
    obtain ⟨n, idx, c, d, h, t, ex⟩ := f
    by_cases hn : n = 0
    · left; simp [screen, hn]
    · rcases c with _ | c
      · left; simp [screen, hn]
      rcases d with _ | d
      · left; simp [screen, hn]
      rcases h with _ | h
      · left; simp [screen, hn]
      rcases t with _ | t
      · left; simp [screen, hn]
      by_cases h1 : hasDup (zipRows c.cells d.cells h.cells t.cells) = true
      · left; simp [screen, hn, h1]
      by_cases h2 : coincident 0 (zipRows c.cells d.cells h.cells t.cells) = true
      · left; simp [screen, hn, h1, h2]
      by_cases h3 : coincident (-1) (zipRows c.cells d.cells h.cells t.cells) = true
      · left; simp [screen, hn, h1, h2, h3]
      right
      refine ⟨_, c, d, h, t, rfl, hn, rfl, rfl, rfl, rfl, by simpa using h1, by simpa using h2, by simpa using h3, ?_⟩
      simp only [screen, hn, h1, h2, h3, colWarnings, if_false]
      rfl

theorem screen_error_ampy {α} [DecidableEq α] (arg : PyArg α) (e : AmpyErr) (h : screen arg = .error e) :
    ∃ why, e = .ampy why := by
  rcases screen_cases arg with ⟨why, hw⟩ | ⟨f, c, d, hh, t, -, -, -, -, -, -, -, -, -, hok⟩
  · rw [hw] at h; injection h with h; exact ⟨why, h.symm⟩
  · rw [hok] at h; cases h

/-- On success: exactly the rows of the caller's frame (coerced values unchanged, in order), its index. -/
theorem screen_ok_rows {α} [DecidableEq α] (f : RawFrame α) (c : Checked α) (w : List Warn)
    (h : screen (.frame f) = .ok (c, w)) :
    ∃ cc d hh t, f.ceilo = some cc ∧ f.dt = some d ∧ f.height = some hh ∧ f.type = some t ∧
      c.rows = zipRows cc.cells d.cells hh.cells t.cells ∧ c.index = f.index ∧ ¬ BadRows c.rows := by
  rcases screen_cases (.frame f) with ⟨why, hw⟩ | ⟨f', cc, d, hh, t, hf, -, hc, hd, hh', ht, h1, h2, h3, hok⟩
  · rw [hw] at h; cases h
  · cases hf
    rw [hok] at h
    injection h with h
    injection h with h _
    subst h
    refine ⟨cc, d, hh, t, hc, hd, hh', ht, rfl, rfl, ?_⟩
    rw [badRows_iff]
    simp [h1, h2, h3]

theorem zipRows_self {α} (rows : List (Hit α)) :
    zipRows (rows.map (·.ceilo)) (rows.map (·.dt)) (rows.map (·.height)) (rows.map (·.type)) = rows := by
  induction rows with
  | nil => rfl
  | cons r rs ih =>
    unfold zipRows at ih ⊢
    simp only [List.map_cons, List.zip_cons_cons]
    rw [ih]

theorem length_zipRows {α} (c : List α) (d : List Rat) (h : List (Option Rat)) (t : List Int) (n : Nat)
    (hc : c.length = n) (hd : d.length = n) (hh : h.length = n) (ht : t.length = n) :
    (zipRows c d h t).length = n := by
  simp [zipRows, hc, hd, hh, ht]

theorem heightWarnings_not_col {α} (rows : List (Hit α)) :
    ∀ x ∈ heightWarnings rows, (∀ col, x ≠ .dtype col) ∧ (∀ col, x ≠ .superfluous col) := by
  intro x hx
  unfold heightWarnings at hx
  simp only [List.mem_append] at hx
  rcases hx with (((hx | hx) | hx) | hx) | hx <;> split at hx <;> simp at hx <;> subst hx <;> simp

/-- Checking an already-checked frame changes nothing and warns about no column or dtype. -/
theorem screen_idem {α} [DecidableEq α] (arg : PyArg α) (hwf : ∀ f, arg = .frame f → f.WF) (c : Checked α) (w : List Warn)
    (h : screen arg = .ok (c, w)) :
    ∃ w', screen c.toArg = .ok (c, w') ∧ ∀ x ∈ w', (∀ col, x ≠ .dtype col) ∧ (∀ col, x ≠ .superfluous col) := by
  rcases screen_cases arg with ⟨why, hw⟩ | ⟨f, cc, d, hh, t, hf, hn, hc, hd, hh', ht, h1, h2, h3, hok⟩
  · rw [hw] at h; cases h
  · have wf := hwf f hf
    rw [hok] at h
    injection h with h
    injection h with h _
    subst h
    have hlen := length_zipRows cc.cells d.cells hh.cells t.cells f.nrows
      (wf.ceilo _ hc) (wf.dt _ hd) (wf.height _ hh') (wf.type _ ht)
    refine ⟨heightWarnings (zipRows cc.cells d.cells hh.cells t.cells), ?_, heightWarnings_not_col _⟩
    simp only [Checked.toArg, screen, zipRows_self, hlen, hn, h1, h2, h3, if_false]
    simp
end Ampy
