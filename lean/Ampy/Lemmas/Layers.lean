import Ampy.Lemmas.Ids
/-!
Lemmas behind C05 about `find_layers`: the layer id column respects the id invariant, layers refine
groups, and a group reported with `k` sub-components owns exactly `k` layer ids.
-/
namespace Ampy
namespace Lay

/-! ### generic fold principles -/

theorem foldl_inv {σ β} (f : σ → β → σ) (Inv : σ → Prop) (hstep : ∀ s b, Inv s → Inv (f s b)) :
    ∀ (l : List β) (s : σ), Inv s → Inv (l.foldl f s)
  | [], _, h => h
  | b :: l, s, h => by
    rw [List.foldl_cons]
    exact foldl_inv f Inv hstep l _ (hstep s b h)

theorem foldlM_range_inv {ε σ} (f : σ → Nat → Except ε σ) (Inv : Nat → σ → Prop) (s0 : σ) (n : Nat)
    (h0 : Inv 0 s0) (hstep : ∀ k s s', k < n → Inv k s → f s k = .ok s' → Inv (k + 1) s') :
    ∀ m, m ≤ n → ∀ s', (List.range m).foldlM f s0 = .ok s' → Inv m s' := by
  intro m
  induction m with
  | zero =>
    intro _ s' h
    rw [List.range_zero, List.foldlM_nil] at h
    cases h
    exact h0
  | succ m ih =>
    intro hm s' h
    rw [List.range_succ, List.foldlM_append] at h
    simp only [bind, Except.bind] at h
    split at h
    · cases h
    · rename_i s hs
      rw [List.foldlM_cons] at h
      simp only [bind, Except.bind] at h
      split at h
      · cases h
      · rename_i s'' hs''
        rw [List.foldlM_nil] at h
        cases h
        exact hstep m s s' (by omega) (ih (by omega) s hs) hs''

/-! ### the step of `layerIds`, named -/

def grpPos {α} (K : Kern) (data : List (Hit α)) (gids : List Int) (cid : Int) : List Nat :=
  (K.dtOrder (data.map (·.dt))).filter fun i => gids[i]? == some cid

def grpHs {α} (data : List (Hit α)) (pos : List Nat) : List Rat :=
  pos.filterMap fun i => (data[i]?).bind (·.height)

def writeIds (off : Int) (ind : Nat) (lids : List (Option Int)) (assign : List (Nat × Nat)) :
    List (Option Int) :=
  (List.range lids.length).map fun i =>
    match assign.find? (·.1 = i) with
    | some (_, k) => some (off + 10 * (ind : Int) + (k : Int))
    | none => lids.getD i none

def layerStep {α} (K : Kern) (P : PPrms α) (data : List (Hit α)) (gids : List Int) (groups : Table)
    (st : List (Option Int) × List Int) (ind : Nat) : Except AmpyErr (List (Option Int) × List Int) := do
  let (lids, ncomps) := st
  match groups[ind]? with
  | none => pure st
  | some g =>
    let pos := grpPos K data gids g.cid
    let hs := grpHs data pos
    let cond1 := decide ((g.okta : Rat) < P.minOktaToSplit)
    let cond2 := decide (hs.length < 30)
    let cond3 := decide ((hs.eraseDups).length = 1)
    if cond1 || cond2 || cond3 then pure (lids, ncomps ++ [-1])
    else
      let minSep ← minSepFor P.toPrms g.base
      let ncompMax := min (hs.eraseDups).length 3
      let (n, ids) ← ncompFromGmm K P hs ncompMax minSep
      if n > 1 then
        pure (writeIds (lidOffset gids) ind lids (pos.zip ids), ncomps ++ [(n : Int)])
      else pure (lids, ncomps ++ [(n : Int)])

theorem layerIds_eq {α} [DecidableEq α] (K : Kern) (P : PPrms α) (data : List (Hit α)) (gids : List Int)
    (groups : Table) :
    layerIds K P data gids groups =
      (do
        let (lids, ncomps) ← (List.range groups.length).foldlM (layerStep K P data gids groups)
          (data.map (fun _ => none), [])
        pure ((lids.zip gids).map (fun (l, g) => l.getD g), ncomps)) := rfl


/-! ### `ncompFromGmm` -/

theorem remerge_spec (minSep : Rat) (sb : List Rat) (order ids : List Nat) (n B : Nat)
    (ho : ∀ c ∈ order, c < B) (hi : ∀ c ∈ ids, c < B) :
    (remerge minSep sb order ids n).1.length = ids.length ∧
      ∀ c ∈ (remerge minSep sb order ids n).1, c < B := by
  unfold remerge
  simp only
  have key := foldl_inv
    (fun (st : List Nat × List Nat × Nat) (ind : Nat) =>
      match st with
      | (compIds, bestIds, ncomp) =>
        match sb[ind + 1]?, sb[ind]? with
        | some hi, some lo =>
          if hi - lo ≥ minSep then st
          else
            match compIds[ind + 1]?, compIds[ind]? with
            | some src, some dst =>
              (compIds.set (ind + 1) dst, bestIds.map (fun b => if b = src then dst else b), ncomp - 1)
            | _, _ => st
        | _, _ => st)
    (fun st => (∀ c ∈ st.1, c < B) ∧ st.2.1.length = ids.length ∧ ∀ c ∈ st.2.1, c < B)
    (by
      rintro ⟨compIds, bestIds, ncomp⟩ ind ⟨h1, h2, h3⟩
      simp only
      split
      · split
        · exact ⟨h1, h2, h3⟩
        · split
          · rename_i src dst _ hdst
            have hd : dst < B := h1 dst (List.mem_of_getElem? hdst)
            refine ⟨?_, ?_, ?_⟩
            · intro c hc
              rcases List.mem_or_eq_of_mem_set hc with hc | hc
              · exact h1 c hc
              · exact hc ▸ hd
            · simpa using h2
            · intro c hc
              simp only [List.mem_map] at hc
              obtain ⟨b, hb, rfl⟩ := hc
              split
              · exact hd
              · exact h3 b hb
          · exact ⟨h1, h2, h3⟩
      · exact ⟨h1, h2, h3⟩)
    (List.range (sb.length - 1)) (order, ids, n) ⟨ho, rfl, hi⟩
  exact ⟨key.2.1, key.2.2⟩

theorem valids_map_some (f : Rat → Rat) (vals : List Rat) :
    valids ((vals.map some).map (Option.map f)) = vals.map f := by
  unfold valids
  induction vals with
  | nil => rfl
  | cons a t ih => simp

theorem gmmScaled_length (r : Option Rat) (vals : List Rat) :
    (match r with
      | none => vals
      | some x => (valids (minmaxScale (vals.map some) none none .doIt)).map (· * x)).length = vals.length := by
  cases r with
  | none => rfl
  | some x =>
    simp only [minmaxScale, valids_map_some, List.length_map]

theorem mapM_ok_length {ε β γ} (f : β → Except ε γ) (l : List β) (rows : List γ)
    (h : l.mapM f = .ok rows) : rows.length = l.length := by
  have := mapM_ok_forall₂ f l rows h
  clear h
  induction this with
  | nil => rfl
  | cons _ _ ih => simp [ih]


/-- The part of `ncompFromGmm` after the choice of the best mixture. -/
def gmmTail {α} (K : Kern) (P : PPrms α) (vals : List Rat) (minSep : Rat) (fits : List GmmFit) (best : Nat) :
    Except AmpyErr (Nat × List Nat) :=
  match fits[best]? with
  | none => throw (.other "IndexError")
  | some f =>
    let n := best + 1
    if n = 1 then pure (1, f.labels)
    else do
      let bases ← (List.range n).mapM fun i =>
        calcBase K.pctl ((vals.zip f.labels).filterMap fun (v, l) => if l = i then some v else none)
          P.lookback P.basePerc
      let order := K.argsort bases
      let (ids, n') := remerge minSep (applyPerm order bases) order f.labels n
      if (ids.eraseDups).length ≠ n' then throw (.other "AssertionError")
      pure (n', ids)

def gmmScaled {α} (P : PPrms α) (vals : List Rat) : List Rat :=
  match P.gmmRescale with
  | none => vals
  | some x => (valids (minmaxScale (vals.map some) none none .doIt)).map (· * x)

theorem ncompFromGmm_cases {α} (K : Kern) (P : PPrms α) (vals : List Rat)
    (m : Nat) (minSep : Rat) (r : Nat × List Nat)
    (h : ncompFromGmm K P vals m minSep = .ok r) :
    r = (1, vals.map fun _ => 0) ∨
    ∃ best, gmmTail K P vals minSep
      ((List.range (min m (vals.eraseDups).length)).map fun i => K.gmm P.gmmScores (gmmScaled P vals) (i + 1))
      best = .ok r := by
  unfold ncompFromGmm at h
  split at h
  · cases h
    exact .inl rfl
  · right
    simp only [] at h
    by_cases hsc : P.gmmScores ≠ "AIC" ∧ P.gmmScores ≠ "BIC"
    · rw [if_pos hsc] at h
      cases h
    · rw [if_neg hsc] at h
      by_cases hm1 : P.gmmMode = "delta"
      · rw [if_pos hm1] at h
        exact ⟨_, h⟩
      · rw [if_neg hm1] at h
        by_cases hm2 : P.gmmMode = "prob"
        · rw [if_pos hm2] at h
          exact ⟨_, h⟩
        · rw [if_neg hm2] at h
          split_ifs at h
          · exact ⟨_, h⟩
          · cases h

theorem gmmTail_spec {α} (K : Kern) (P : PPrms α) (q : Rat) (hK : KernOK K q) (vals sc : List Rat)
    (m : Nat) (minSep : Rat) (best n : Nat) (ids : List Nat)
    (h : gmmTail K P vals minSep ((List.range m).map fun i => K.gmm P.gmmScores sc (i + 1)) best = .ok (n, ids)) :
    ids.length = sc.length ∧ (∀ c ∈ ids, c < m) ∧ (1 < n → ids.eraseDups.length = n) := by
  unfold gmmTail at h
  split at h
  · cases h
  · rename_i f hf
    rw [List.getElem?_map] at hf
    obtain ⟨i, hi, rfl⟩ := Option.map_eq_some_iff.mp hf
    have hbm : best < m := by
      have := (List.getElem?_eq_some_iff.mp hi).1
      simpa using this
    have hib : i = best := by
      have := (List.getElem?_eq_some_iff.mp hi).2
      simpa using this.symm
    subst hib
    have hlen := hK.gmm_len P.gmmScores sc (i + 1)
    have hlt := hK.gmm_lt P.gmmScores sc (i + 1) (Nat.succ_pos i)
    simp only at h
    split_ifs at h with h1
    · cases h
      refine ⟨hlen, fun c hc => by have := hlt c hc; omega, by omega⟩
    · simp only [bind, Except.bind, pure, Except.pure] at h
      split at h
      · cases h
      · rename_i bases hb
        have hbl := mapM_ok_length _ _ _ hb
        rw [List.length_range] at hbl
        have hperm := hK.argsort_perm bases
        have hord : ∀ c ∈ K.argsort bases, c < i + 1 := by
          intro c hc
          have := (isPermOf_perm hperm).subset hc
          rw [List.mem_range] at this
          omega
        have hsp := remerge_spec minSep (applyPerm (K.argsort bases) bases) (K.argsort bases)
          (K.gmm P.gmmScores sc (i + 1)).labels (i + 1) (i + 1) hord hlt
        generalize remerge minSep (applyPerm (K.argsort bases) bases) (K.argsort bases)
          (K.gmm P.gmmScores sc (i + 1)).labels (i + 1) = rm at h hsp
        split_ifs at h with h2
        cases h
        refine ⟨hsp.1.trans hlen, fun c hc => by have := hsp.2 c hc; omega, fun _ => ?_⟩
        exact not_not.mp h2

theorem ncompFromGmm_spec {α} (K : Kern) (P : PPrms α) (q : Rat) (hK : KernOK K q) (vals : List Rat)
    (m : Nat) (minSep : Rat) (n : Nat) (ids : List Nat)
    (h : ncompFromGmm K P vals m minSep = .ok (n, ids)) :
    ids.length = vals.length ∧ (∀ c ∈ ids, c < max m 1) ∧ (1 < n → ids.eraseDups.length = n) := by
  rcases ncompFromGmm_cases K P vals m minSep (n, ids) h with h | ⟨best, h⟩
  · cases h
    refine ⟨by simp, ?_, by omega⟩
    intro c hc
    simp only [List.mem_map] at hc
    obtain ⟨_, _, rfl⟩ := hc
    omega
  · obtain ⟨h1, h2, h3⟩ := gmmTail_spec K P q hK vals _ _ minSep best n ids h
    refine ⟨?_, fun c hc => by have := h2 c hc; omega, h3⟩
    rw [h1]
    exact gmmScaled_length P.gmmRescale vals

/-! ### what a step does -/

/-- What a successful step does: it appends one entry to `ncomps`, and either leaves the ids alone
(entry `≤ 1`) or writes the sub-layer ids of a group with at least 30 heights (entry `> 1`). -/
theorem layerStep_ok {α} (K : Kern) (P : PPrms α) (data : List (Hit α)) (gids : List Int) (groups : Table)
    (lids : List (Option Int)) (ncomps : List Int) (ind : Nat) (g : Row) (hgi : groups[ind]? = some g)
    (st' : List (Option Int) × List Int)
    (h : layerStep K P data gids groups (lids, ncomps) ind = .ok st') :
    (∃ k : Int, k ≤ 1 ∧ st' = (lids, ncomps ++ [k])) ∨
    (∃ (n : Nat) (ids : List Nat) (minSep : Rat),
      30 ≤ (grpHs data (grpPos K data gids g.cid)).length ∧
      ncompFromGmm K P (grpHs data (grpPos K data gids g.cid))
        (min ((grpHs data (grpPos K data gids g.cid)).eraseDups).length 3) minSep = .ok (n, ids) ∧
      1 < n ∧
      st' = (writeIds (lidOffset gids) ind lids ((grpPos K data gids g.cid).zip ids), ncomps ++ [(n : Int)])) := by
  unfold layerStep at h
  simp only [hgi, bind, Except.bind, pure, Except.pure] at h
  split at h
  · cases h
    exact .inl ⟨-1, by omega, rfl⟩
  · rename_i hc
    split at h
    · cases h
    · rename_i minSep _
      split at h
      · cases h
      · rename_i r hr
        obtain ⟨n, ids⟩ := r
        simp only at h
        split at h
        · rename_i hn
          cases h
          refine .inr ⟨n, ids, minSep, ?_, hr, hn, rfl⟩
          simp only [Bool.or_eq_true, decide_eq_true_eq, not_or, not_lt] at hc
          exact hc.1.2
        · rename_i hn
          cases h
          exact .inl ⟨n, by omega, rfl⟩

theorem layerStep_none {α} (K : Kern) (P : PPrms α) (data : List (Hit α)) (gids : List Int) (groups : Table)
    (st : List (Option Int) × List Int) (ind : Nat) (hgi : groups[ind]? = none) :
    layerStep K P data gids groups st ind = .ok st := by
  unfold layerStep
  simp only [hgi]
  rfl

/-! ### writing sub-layer ids -/

theorem writeIds_length (off : Int) (ind : Nat) (lids : List (Option Int)) (assign : List (Nat × Nat)) :
    (writeIds off ind lids assign).length = lids.length := by
  simp [writeIds]

/-- An entry of the rewritten column is either freshly written from a pair of `assign`, or the old one. -/
theorem writeIds_getElem?_cases (off : Int) (ind : Nat) (lids : List (Option Int)) (assign : List (Nat × Nat))
    (i : Nat) (x : Option Int) (h : (writeIds off ind lids assign)[i]? = some x) :
    (∃ p ∈ assign, p.1 = i ∧ x = some (off + 10 * (ind : Int) + (p.2 : Int))) ∨
    ((∀ p ∈ assign, p.1 ≠ i) ∧ lids[i]? = some x) := by
  unfold writeIds at h
  rw [List.getElem?_map] at h
  obtain ⟨j, hj, hx⟩ := Option.map_eq_some_iff.mp h
  obtain ⟨hjl, hji⟩ := List.getElem?_eq_some_iff.mp hj
  rw [List.length_range] at hjl
  rw [List.getElem_range] at hji
  subst hji
  split at hx
  · rename_i a k hf
    left
    refine ⟨(a, k), List.mem_of_find?_eq_some hf, ?_, hx.symm⟩
    simpa using List.find?_some hf
  · rename_i hf
    right
    rw [List.find?_eq_none] at hf
    refine ⟨fun p hp => by simpa using hf p hp, ?_⟩
    rw [← hx, List.getD_eq_getElem?_getD, List.getElem?_eq_getElem hjl]
    rfl

theorem writeIds_of_not_mem (off : Int) (ind : Nat) (lids : List (Option Int)) (assign : List (Nat × Nat))
    (i : Nat) (h : ∀ p ∈ assign, p.1 ≠ i) : (writeIds off ind lids assign)[i]? = lids[i]? := by
  by_cases hi : i < lids.length
  · have hi' : i < (writeIds off ind lids assign).length := by rw [writeIds_length]; exact hi
    rcases writeIds_getElem?_cases off ind lids assign i _ (List.getElem?_eq_getElem hi') with
      ⟨p, hp, hpi, _⟩ | ⟨_, h2⟩
    · exact absurd hpi (h p hp)
    · rw [List.getElem?_eq_getElem hi', h2]
  · rw [List.getElem?_eq_none (by rw [writeIds_length]; omega), List.getElem?_eq_none (by omega)]

theorem find?_zip_nodup (pos ids : List Nat) (hnd : pos.Nodup) (j : Nat) (h1 : j < pos.length) (h2 : j < ids.length) :
    (pos.zip ids).find? (·.1 = pos[j]) = some (pos[j], ids[j]) := by
  induction pos generalizing ids j with
  | nil => simp at h1
  | cons a t ih =>
    cases ids with
    | nil => simp at h2
    | cons b u =>
      rw [List.zip_cons_cons, List.find?_cons]
      cases j with
      | zero => simp
      | succ j =>
        have h1' : j < t.length := by simpa using h1
        have hne : ¬ a = t[j] := by
          intro he
          have := (List.nodup_cons.mp hnd).1
          exact this (he ▸ List.getElem_mem _)
        simp only [List.getElem_cons_succ, hne, decide_false]
        exact ih u (List.nodup_cons.mp hnd).2 j (by simpa using h1) (by simpa using h2)

theorem writeIds_of_mem (off : Int) (ind : Nat) (lids : List (Option Int)) (pos ids : List Nat)
    (hnd : pos.Nodup) (j : Nat) (h1 : j < pos.length) (h2 : j < ids.length) (hl : pos[j] < lids.length) :
    (writeIds off ind lids (pos.zip ids))[pos[j]]? = some (some (off + 10 * (ind : Int) + (ids[j] : Int))) := by
  unfold writeIds
  rw [List.getElem?_map, List.getElem?_range hl, Option.map_some, find?_zip_nodup pos ids hnd j h1 h2]

theorem length_filterMap_of_isSome {β γ} (f : β → Option γ) (l : List β) (h : ∀ x ∈ l, (f x).isSome = true) :
    (l.filterMap f).length = l.length := by
  induction l with
  | nil => rfl
  | cons a t ih =>
    have ha := h a List.mem_cons_self
    obtain ⟨y, hy⟩ := Option.isSome_iff_exists.mp ha
    rw [List.filterMap_cons, hy]
    simp [ih (fun x hx => h x (List.mem_cons_of_mem _ hx))]


/-! ### rows of a group -/

theorem mem_grpPos {α} (K : Kern) (data : List (Hit α)) (gids : List Int) (cid : Int) (i : Nat) :
    i ∈ grpPos K data gids cid ↔ i ∈ K.dtOrder (data.map (·.dt)) ∧ gids[i]? = some cid := by
  unfold grpPos
  rw [List.mem_filter]
  simp

theorem grpPos_nodup {α} (K : Kern) (q : Rat) (hK : KernOK K q) (data : List (Hit α)) (gids : List Int)
    (cid : Int) : (grpPos K data gids cid).Nodup := by
  unfold grpPos
  apply List.Nodup.filter
  exact (isPermOf_perm (hK.met.dtOrder_perm _)).nodup_iff.mpr List.nodup_range

theorem mem_grpPos_of {α} (K : Kern) (q : Rat) (hK : KernOK K q) (data : List (Hit α)) (gids : List Int)
    (hl : gids.length = data.length) (cid : Int) (i : Nat) (h : gids[i]? = some cid) :
    i ∈ grpPos K data gids cid := by
  rw [mem_grpPos]
  refine ⟨isPermOf_mem (hK.met.dtOrder_perm _) ?_, h⟩
  have := (List.getElem?_eq_some_iff.mp h).1
  rw [List.length_map]
  omega

theorem exact_nonneg {α} {data : List (Hit α)} {gids : List Int} (hg : IdsExact data gids) (i : Nat) (y : Rat)
    (c : Int) (hy : (data[i]?).bind (·.height) = some y) (hc : gids[i]? = some c) : 0 ≤ c := by
  obtain ⟨hd, hh⟩ := (getElem?_bind_height data i y).mp hy
  obtain ⟨hi, hci⟩ := List.getElem?_eq_some_iff.mp hc
  have := (hg.valid (data[i], gids[i]) (zip_getElem_mem data gids i hd hi)).1 (by simp [hh])
  rw [← hci]
  exact this

theorem exact_height {α} {data : List (Hit α)} {gids : List Int} (hg : IdsExact data gids) (i : Nat)
    (c : Int) (hc : gids[i]? = some c) (h0 : 0 ≤ c) : ∃ y, (data[i]?).bind (·.height) = some y := by
  obtain ⟨hi, hci⟩ := List.getElem?_eq_some_iff.mp hc
  have hd : i < data.length := hg.len ▸ hi
  cases hh : data[i].height with
  | none =>
    have := (hg.valid (data[i], gids[i]) (zip_getElem_mem data gids i hd hi)).2 hh
    simp only at this
    omega
  | some y => exact ⟨y, (getElem?_bind_height data i y).mpr ⟨hd, hh⟩⟩

/-- A group with at least one height has a non-negative id. -/
theorem grp_cid_nonneg {α} (K : Kern) {data : List (Hit α)} {gids : List Int} (hg : IdsExact data gids)
    (cid : Int) (h : grpHs data (grpPos K data gids cid) ≠ []) : 0 ≤ cid := by
  obtain ⟨y, hy⟩ := List.exists_mem_of_ne_nil _ h
  unfold grpHs at hy
  obtain ⟨i, hi, hiy⟩ := List.mem_filterMap.mp hy
  exact exact_nonneg hg i y cid hiy ((mem_grpPos K data gids cid i).mp hi).2

theorem grpHs_length {α} (K : Kern) {data : List (Hit α)} {gids : List Int} (hg : IdsExact data gids)
    (cid : Int) (h0 : 0 ≤ cid) :
    (grpHs data (grpPos K data gids cid)).length = (grpPos K data gids cid).length := by
  unfold grpHs
  apply length_filterMap_of_isSome
  intro i hi
  obtain ⟨y, hy⟩ := exact_height hg i cid ((mem_grpPos K data gids cid i).mp hi).2 h0
  rw [hy]
  rfl

theorem nodup_cid {groups : Table} (hcid : (groups.map (·.cid)).Nodup) {i j : Nat} {g g' : Row}
    (hi : groups[i]? = some g) (hj : groups[j]? = some g') (h : g.cid = g'.cid) : i = j := by
  obtain ⟨hi1, hi2⟩ := List.getElem?_eq_some_iff.mp hi
  obtain ⟨hj1, hj2⟩ := List.getElem?_eq_some_iff.mp hj
  have hi' : i < (groups.map (·.cid)).length := by simpa using hi1
  have hj' : j < (groups.map (·.cid)).length := by simpa using hj1
  apply (List.Nodup.getElem_inj_iff hcid (hi := hi') (hj := hj')).mp
  simp only [List.getElem_map, hi2, hj2, h]

/-! ### the loop invariants -/

/-- After `k` groups: one (optional) id per row, one `ncomp` entry per processed group, and every id
written so far is `off + 10·ind + c` with `c < 10`, on a row of group number `ind`, whose id is `≥ 0`. -/
structure LInv {α} (data : List (Hit α)) (gids : List Int) (groups : Table) (k : Nat)
    (st : List (Option Int) × List Int) : Prop where
  len : st.1.length = data.length
  nlen : st.2.length = k
  gen : ∀ (i : Nat) (v : Int), st.1[i]? = some (some v) → ∃ (ind c : Nat) (g : Row), ind < k ∧ groups[ind]? = some g ∧
    gids[i]? = some g.cid ∧ 0 ≤ g.cid ∧ c < 10 ∧ v = lidOffset gids + 10 * (ind : Int) + (c : Int)

theorem LInv_init {α} (data : List (Hit α)) (gids : List Int) (groups : Table) :
    LInv data gids groups 0 (data.map (fun _ => none), []) := by
  refine ⟨by simp, rfl, ?_⟩
  intro i v h
  simp only [List.getElem?_map] at h
  obtain ⟨_, _, h2⟩ := Option.map_eq_some_iff.mp h
  cases h2

theorem LInv_step {α} (K : Kern) (P : PPrms α) (data : List (Hit α)) (q : Rat) (hK : KernOK K q)
    (gids : List Int) (groups : Table) (hg : IdsExact data gids) (k : Nat)
    (st st' : List (Option Int) × List Int) (hk : k < groups.length) (hI : LInv data gids groups k st)
    (h : layerStep K P data gids groups st k = .ok st') : LInv data gids groups (k + 1) st' := by
  obtain ⟨lids, ncomps⟩ := st
  have hgk : groups[k]? = some groups[k] := List.getElem?_eq_getElem hk
  have hweak : ∀ (i : Nat) (v : Int), lids[i]? = some (some v) → ∃ (ind c : Nat) (g : Row), ind < k + 1 ∧
      groups[ind]? = some g ∧ gids[i]? = some g.cid ∧ 0 ≤ g.cid ∧ c < 10 ∧
      v = lidOffset gids + 10 * (ind : Int) + (c : Int) := by
    intro i v hv
    obtain ⟨ind, c, g, h1, h2⟩ := hI.gen i v hv
    exact ⟨ind, c, g, by omega, h2⟩
  rcases layerStep_ok K P data gids groups lids ncomps k _ hgk st' h with
    ⟨kk, _, rfl⟩ | ⟨n, ids, minSep, h30, hgmm, hn, rfl⟩
  · exact ⟨hI.len, by simp [hI.nlen], hweak⟩
  · refine ⟨by rw [writeIds_length]; exact hI.len, by simp [hI.nlen], ?_⟩
    intro i v hv
    rcases writeIds_getElem?_cases _ _ _ _ i _ hv with ⟨p, hp, hpi, hpv⟩ | ⟨_, hold⟩
    · have hpos := (List.of_mem_zip hp).1
      have hids := (List.of_mem_zip hp).2
      have hne : grpHs data (grpPos K data gids groups[k].cid) ≠ [] := by
        intro he
        rw [he] at h30
        simp at h30
      obtain ⟨_, hb, _⟩ := ncompFromGmm_spec K P q hK _ _ _ _ _ hgmm
      have hc := hb p.2 hids
      refine ⟨k, p.2, groups[k], by omega, hgk, ?_, grp_cid_nonneg K hg _ hne, by omega, ?_⟩
      · rw [← hpi]
        exact ((mem_grpPos K data gids _ _).mp hpos).2
      · exact Option.some.inj hpv
    · exact hweak i v hold

/-- State of group number `ind` (id `cid`) once processed, with `ncomp` entry `kk`: untouched when
`kk ≤ 1`, else its rows carry exactly the ids `off + 10·ind + c` for the `kk` distinct entries `c` of `ids`. -/
def GState (gids : List Int) (ind : Nat) (cid : Int) (kk : Int) (lids : List (Option Int)) : Prop :=
  (kk ≤ 1 ∧ ∀ i : Nat, gids[i]? = some cid → lids[i]? = some none) ∨
  (1 < kk ∧ ∃ ids : List Nat, ((ids.eraseDups).length : Int) = kk ∧
    (∀ i : Nat, gids[i]? = some cid →
      ∃ c ∈ ids, lids[i]? = some (some (lidOffset gids + 10 * (ind : Int) + (c : Int)))) ∧
    (∀ c ∈ ids, ∃ i : Nat, gids[i]? = some cid ∧
      lids[i]? = some (some (lidOffset gids + 10 * (ind : Int) + (c : Int)))))

def GInv (gids : List Int) (groups : Table) (k : Nat) (st : List (Option Int) × List Int) : Prop :=
  ∀ ind g, ind < k → groups[ind]? = some g → ∃ kk, st.2[ind]? = some kk ∧ GState gids ind g.cid kk st.1

theorem GState_congr {gids : List Int} {ind : Nat} {cid kk : Int} {lids lids' : List (Option Int)}
    (h : ∀ i : Nat, gids[i]? = some cid → lids'[i]? = lids[i]?) (hs : GState gids ind cid kk lids) :
    GState gids ind cid kk lids' := by
  rcases hs with ⟨h1, h2⟩ | ⟨h1, ids, h2, h3, h4⟩
  · exact .inl ⟨h1, fun i hi => (h i hi).trans (h2 i hi)⟩
  · refine .inr ⟨h1, ids, h2, ?_, ?_⟩
    · intro i hi
      obtain ⟨c, hc, e⟩ := h3 i hi
      exact ⟨c, hc, (h i hi).trans e⟩
    · intro c hc
      obtain ⟨i, hi, e⟩ := h4 c hc
      exact ⟨i, hi, (h i hi).trans e⟩

/-- The rows of a group not yet processed carry no sub-layer id. -/
theorem untouched {α} {data : List (Hit α)} {gids : List Int} {groups : Table} (hl : gids.length = data.length)
    (hcid : (groups.map (·.cid)).Nodup) {k : Nat} {st : List (Option Int) × List Int}
    (hI : LInv data gids groups k st) {g : Row} (hgk : groups[k]? = some g) (i : Nat)
    (hi : gids[i]? = some g.cid) : st.1[i]? = some none := by
  have hil : i < st.1.length := by
    have := (List.getElem?_eq_some_iff.mp hi).1
    rw [hI.len]
    omega
  rw [List.getElem?_eq_getElem hil]
  cases hv : st.1[i] with
  | none => rfl
  | some v =>
    have : st.1[i]? = some (some v) := by rw [List.getElem?_eq_getElem hil, hv]
    obtain ⟨ind, c, g', h1, h2, h3, _⟩ := hI.gen i v this
    rw [hi] at h3
    have := nodup_cid hcid hgk h2 (Option.some.inj h3)
    omega

theorem GInv_step {α} (K : Kern) (P : PPrms α) (data : List (Hit α)) (q : Rat) (hK : KernOK K q)
    (gids : List Int) (groups : Table) (hg : IdsExact data gids) (hcid : (groups.map (·.cid)).Nodup) (k : Nat)
    (st st' : List (Option Int) × List Int) (hk : k < groups.length) (hI : LInv data gids groups k st)
    (hG : GInv gids groups k st)
    (h : layerStep K P data gids groups st k = .ok st') : GInv gids groups (k + 1) st' := by
  have hgk : groups[k]? = some groups[k] := List.getElem?_eq_getElem hk
  have hpre := fun i hi => untouched hg.len hcid hI hgk i hi
  obtain ⟨lids, ncomps⟩ := st
  have hnl : ncomps.length = k := hI.nlen
  -- older groups: their rows are not rewritten
  have hold : ∀ (x : Int) (lids' : List (Option Int)),
      (∀ (ind : Nat) (g : Row), ind < k → groups[ind]? = some g →
        ∀ i : Nat, gids[i]? = some g.cid → lids'[i]? = lids[i]?) →
      GState gids k groups[k].cid x lids' → GInv gids groups (k + 1) (lids', ncomps ++ [x]) := by
    intro x lids' hsame hnew ind g hind hgi
    by_cases hlt : ind < k
    · obtain ⟨kk, h1, h2⟩ := hG ind g hlt hgi
      refine ⟨kk, ?_, GState_congr (hsame ind g hlt hgi) h2⟩
      simp only
      rw [List.getElem?_append_left (by omega)]
      exact h1
    · have : ind = k := by omega
      subst this
      rw [hgk] at hgi
      cases hgi
      refine ⟨x, ?_, hnew⟩
      simp only
      rw [← hnl]
      simp
  rcases layerStep_ok K P data gids groups lids ncomps k _ hgk st' h with
    ⟨kk, hkk, rfl⟩ | ⟨n, ids, minSep, h30, hgmm, hn, rfl⟩
  · exact hold kk lids (fun _ _ _ _ _ _ => rfl) (.inl ⟨hkk, hpre⟩)
  · have hne : grpHs data (grpPos K data gids groups[k].cid) ≠ [] := by
      intro he
      rw [he] at h30
      simp at h30
    have h0 := grp_cid_nonneg K hg _ hne
    have hlen := grpHs_length K hg _ h0
    have hnd := grpPos_nodup K q hK data gids groups[k].cid
    obtain ⟨hil, _, hdist⟩ := ncompFromGmm_spec K P q hK _ _ _ _ _ hgmm
    rw [hlen] at hil
    apply hold
    · intro ind g hind hgi i hi
      apply writeIds_of_not_mem
      intro p hp hpi
      have hpos := ((mem_grpPos K data gids _ _).mp (List.of_mem_zip hp).1).2
      rw [hpi, hi] at hpos
      have := nodup_cid hcid hgi hgk (Option.some.inj hpos)
      omega
    · refine .inr ⟨by omega, ids, by rw [hdist hn], ?_, ?_⟩
      · intro i hi
        have hmem := mem_grpPos_of K q hK data gids hg.len _ i hi
        obtain ⟨j, hj, hji⟩ := List.getElem_of_mem hmem
        have hj2 : j < ids.length := by omega
        refine ⟨ids[j], List.getElem_mem _, ?_⟩
        rw [← hji]
        apply writeIds_of_mem _ _ _ _ _ hnd j hj hj2
        have := (List.getElem?_eq_some_iff.mp hi).1
        rw [hji]
        have hl : lids.length = data.length := hI.len
        have := hg.len
        omega
      · intro c hc
        obtain ⟨j, hj2, hjc⟩ := List.getElem_of_mem hc
        have hj : j < (grpPos K data gids groups[k].cid).length := by omega
        have hpos := ((mem_grpPos K data gids _ _).mp (List.getElem_mem hj)).2
        refine ⟨_, hpos, ?_⟩
        rw [← hjc]
        apply writeIds_of_mem _ _ _ _ _ hnd j hj hj2
        have := (List.getElem?_eq_some_iff.mp hpos).1
        have hl : lids.length = data.length := hI.len
        have := hg.len
        omega

/-! ### from the loop to `layerIds` -/

theorem layerIds_ok {α} [DecidableEq α] (K : Kern) (P : PPrms α) (data : List (Hit α)) (gids : List Int)
    (groups : Table) (lids ncomps : List Int) (h : layerIds K P data gids groups = .ok (lids, ncomps)) :
    ∃ l0, (List.range groups.length).foldlM (layerStep K P data gids groups)
        (data.map (fun _ => none), []) = .ok (l0, ncomps) ∧
      lids = (l0.zip gids).map (fun p => p.1.getD p.2) := by
  rw [layerIds_eq] at h
  simp only [bind, Except.bind, pure, Except.pure] at h
  split at h
  · cases h
  · rename_i st hst
    obtain ⟨l0, nc⟩ := st
    cases h
    exact ⟨l0, hst, rfl⟩

theorem loop_linv {α} (K : Kern) (P : PPrms α) (data : List (Hit α)) (q : Rat) (hK : KernOK K q)
    (gids : List Int) (groups : Table) (hg : IdsExact data gids) (st : List (Option Int) × List Int)
    (h : (List.range groups.length).foldlM (layerStep K P data gids groups)
      (data.map (fun _ => none), []) = .ok st) : LInv data gids groups groups.length st :=
  foldlM_range_inv _ (LInv data gids groups) _ groups.length (LInv_init data gids groups)
    (fun k s s' hk hI hs => LInv_step K P data q hK gids groups hg k s s' hk hI hs)
    groups.length (Nat.le_refl _) st h

theorem loop_ginv {α} (K : Kern) (P : PPrms α) (data : List (Hit α)) (q : Rat) (hK : KernOK K q)
    (gids : List Int) (groups : Table) (hg : IdsExact data gids) (hcid : (groups.map (·.cid)).Nodup)
    (st : List (Option Int) × List Int)
    (h : (List.range groups.length).foldlM (layerStep K P data gids groups)
      (data.map (fun _ => none), []) = .ok st) :
    LInv data gids groups groups.length st ∧ GInv gids groups groups.length st :=
  foldlM_range_inv _ (fun k s => LInv data gids groups k s ∧ GInv gids groups k s) _ groups.length
    ⟨LInv_init data gids groups, fun _ _ hk => absurd hk (Nat.not_lt_zero _)⟩
    (fun k s s' hk hI hs => ⟨LInv_step K P data q hK gids groups hg k s s' hk hI.1 hs,
      GInv_step K P data q hK gids groups hg hcid k s s' hk hI.1 hI.2 hs⟩)
    groups.length (Nat.le_refl _) st h

theorem finCol_getElem? (l0 : List (Option Int)) (gids : List Int) (i : Nat) (v : Int) :
    ((l0.zip gids).map (fun p => p.1.getD p.2))[i]? = some v ↔
      ∃ l g, l0[i]? = some l ∧ gids[i]? = some g ∧ v = l.getD g := by
  rw [List.getElem?_map, Option.map_eq_some_iff]
  constructor
  · rintro ⟨⟨l, g⟩, hp, rfl⟩
    obtain ⟨h1, h2⟩ := List.getElem?_zip_eq_some.mp hp
    exact ⟨l, g, h1, h2, rfl⟩
  · rintro ⟨l, g, h1, h2, rfl⟩
    exact ⟨(l, g), List.getElem?_zip_eq_some.mpr ⟨h1, h2⟩, rfl⟩

theorem lidOffset_ge (gids : List Int) : 100 ≤ lidOffset gids := by
  unfold lidOffset
  exact le_max_left _ _

/-- A final layer id is the group id of its row, or a generated id of the group of its row. -/
theorem fin_class {α} {data : List (Hit α)} {gids : List Int} {groups : Table} {k : Nat}
    {l0 : List (Option Int)} {nc : List Int} (hI : LInv data gids groups k (l0, nc)) (i : Nat) (v g : Int)
    (hv : ((l0.zip gids).map (fun p => p.1.getD p.2))[i]? = some v) (hgi : gids[i]? = some g) :
    v = g ∨ ∃ (ind c : Nat) (gr : Row), groups[ind]? = some gr ∧ g = gr.cid ∧ 0 ≤ gr.cid ∧ c < 10 ∧
      v = lidOffset gids + 10 * (ind : Int) + (c : Int) := by
  obtain ⟨l, g', hl, hg', rfl⟩ := (finCol_getElem? l0 gids i v).mp hv
  rw [hgi] at hg'
  cases hg'
  cases l with
  | none => exact .inl rfl
  | some w =>
    obtain ⟨ind, c, gr, _, h2, h3, h4, h5, h6⟩ := hI.gen i w hl
    rw [hgi] at h3
    exact .inr ⟨ind, c, gr, h2, Option.some.inj h3, h4, h5, h6⟩

/-- The layer ids met on the rows of group `cid`. -/
theorem mem_groupLids (fin gids : List Int) (cid v : Int) :
    v ∈ ((fin.zip gids).filter (·.2 = cid)).map (·.1) ↔ ∃ i : Nat, gids[i]? = some cid ∧ fin[i]? = some v := by
  simp only [List.mem_map, List.mem_filter, decide_eq_true_eq]
  constructor
  · rintro ⟨⟨a, b⟩, ⟨hp, hb⟩, rfl⟩
    obtain ⟨i, hi⟩ := List.mem_iff_getElem?.mp hp
    obtain ⟨h1, h2⟩ := List.getElem?_zip_eq_some.mp hi
    simp only at hb
    subst hb
    exact ⟨i, h2, h1⟩
  · rintro ⟨i, h1, h2⟩
    exact ⟨(v, cid), ⟨List.mem_iff_getElem?.mpr ⟨i, List.getElem?_zip_eq_some.mpr ⟨h2, h1⟩⟩, rfl⟩, rfl⟩

end Lay
open Lay

/-! ### the four statements -/

theorem layerIds_exact {α} [DecidableEq α] (K : Kern) (P : PPrms α) (data : List (Hit α)) (q : Rat)
    (hK : KernOK K q) (gids : List Int) (groups : Table) (hg : IdsExact data gids)
    (lids ncomps : List Int) (h : layerIds K P data gids groups = .ok (lids, ncomps)) :
    IdsExact data lids := by
  obtain ⟨l0, hf, rfl⟩ := layerIds_ok K P data gids groups lids ncomps h
  have hI := loop_linv K P data q hK gids groups hg _ hf
  refine ⟨?_, ?_⟩
  · have h1 : l0.length = data.length := hI.len
    have h2 := hg.len
    simp [h1, h2]
  · rintro ⟨hit, v⟩ hp
    obtain ⟨i, hi⟩ := List.mem_iff_getElem?.mp hp
    obtain ⟨hd, hv⟩ := List.getElem?_zip_eq_some.mp hi
    obtain ⟨l, g, hl, hgi, rfl⟩ := (finCol_getElem? l0 gids i v).mp hv
    have hmem : (hit, g) ∈ data.zip gids :=
      List.mem_iff_getElem?.mpr ⟨i, List.getElem?_zip_eq_some.mpr ⟨hd, hgi⟩⟩
    cases l with
    | none => exact hg.valid _ hmem
    | some w =>
      obtain ⟨ind, c, gr, _, _, h3, h4, _, h6⟩ := hI.gen i w hl
      rw [hgi] at h3
      cases h3
      have hoff := lidOffset_ge gids
      simp only [Option.getD_some]
      constructor
      · intro _
        omega
      · intro hnone
        have := (hg.valid _ hmem).2 hnone
        simp only at this
        omega

/-- Each layer lies inside exactly one group: hits with equal layer ids have equal group ids.
Needs the group table to list each group once (`metarize_cids`) and the mixture labels to be below 10
(they are below `ncomp_max ≤ 3`). -/
theorem layers_refine_groups {α} [DecidableEq α] (K : Kern) (P : PPrms α) (data : List (Hit α)) (q : Rat)
    (hK : KernOK K q) (gids : List Int) (groups : Table) (hg : IdsExact data gids)
    (hcid : (groups.map (·.cid)).Nodup)
    (lids ncomps : List Int) (h : layerIds K P data gids groups = .ok (lids, ncomps)) :
    ∀ p₁ ∈ lids.zip gids, ∀ p₂ ∈ lids.zip gids, p₁.1 = p₂.1 → p₁.2 = p₂.2 := by
  -- `hcid` is not needed: a generated id determines the index of its group in the table
  have _ := hcid
  obtain ⟨l0, hf, rfl⟩ := layerIds_ok K P data gids groups lids ncomps h
  have hI := loop_linv K P data q hK gids groups hg _ hf
  rintro ⟨v₁, g₁⟩ hp₁ ⟨v₂, g₂⟩ hp₂ hv
  simp only at hv ⊢
  subst hv
  obtain ⟨i₁, hi₁⟩ := List.mem_iff_getElem?.mp hp₁
  obtain ⟨i₂, hi₂⟩ := List.mem_iff_getElem?.mp hp₂
  obtain ⟨hv₁, hg₁⟩ := List.getElem?_zip_eq_some.mp hi₁
  obtain ⟨hv₂, hg₂⟩ := List.getElem?_zip_eq_some.mp hi₂
  have hlt₁ := lidOffset_gt gids g₁ (List.mem_of_getElem? hg₁)
  have hlt₂ := lidOffset_gt gids g₂ (List.mem_of_getElem? hg₂)
  rcases fin_class hI i₁ v₁ g₁ hv₁ hg₁ with e₁ | ⟨ind₁, c₁, gr₁, a₁, b₁, _, d₁, e₁⟩ <;>
  rcases fin_class hI i₂ v₁ g₂ hv₂ hg₂ with e₂ | ⟨ind₂, c₂, gr₂, a₂, b₂, _, d₂, e₂⟩
  · omega
  · omega
  · omega
  · have : ind₁ = ind₂ := by omega
    subst this
    rw [a₁] at a₂
    cases a₂
    rw [b₁, b₂]

/-- One `ncomp` entry per group. -/
theorem layerIds_ncomps_length {α} [DecidableEq α] (K : Kern) (P : PPrms α) (data : List (Hit α))
    (gids : List Int) (groups : Table) (lids ncomps : List Int)
    (h : layerIds K P data gids groups = .ok (lids, ncomps)) : ncomps.length = groups.length := by
  obtain ⟨l0, hf, _⟩ := layerIds_ok K P data gids groups lids ncomps h
  refine foldlM_range_inv _ (fun k (s : List (Option Int) × List Int) => s.2.length = k) _ groups.length rfl
    ?_ groups.length (Nat.le_refl _) (l0, ncomps) hf
  rintro k ⟨l, nc⟩ s' hk hI hs
  have hgk : groups[k]? = some groups[k] := List.getElem?_eq_getElem hk
  simp only at hI
  rcases layerStep_ok K P data gids groups l nc k _ hgk s' hs with
    ⟨kk, _, rfl⟩ | ⟨n, ids, minSep, _, _, _, rfl⟩ <;> simp [hI]

/-- A group reported with `k ≥ 1` sub-components owns exactly `k` layer ids, a group that was not
examined (`-1`) exactly one — for groups that have at least one hit and are listed once. -/
theorem ncomp_layers {α} [DecidableEq α] (K : Kern) (P : PPrms α) (data : List (Hit α)) (q : Rat)
    (hK : KernOK K q) (gids : List Int) (groups : Table) (hg : IdsExact data gids)
    (hcid : (groups.map (·.cid)).Nodup) (hmem : ∀ g ∈ groups, g.cid ∈ gids)
    (lids ncomps : List Int) (h : layerIds K P data gids groups = .ok (lids, ncomps))
    (ind : Nat) (g : Row) (hgi : groups[ind]? = some g) (k : Int) (hk : ncomps[ind]? = some k) :
    (((lids.zip gids).filter (·.2 = g.cid)).map (·.1)).eraseDups.length = (if k ≥ 1 then k.toNat else 1) := by
  obtain ⟨l0, hf, rfl⟩ := layerIds_ok K P data gids groups lids ncomps h
  obtain ⟨hI, hG⟩ := loop_ginv K P data q hK gids groups hg hcid _ hf
  have hind : ind < groups.length := (List.getElem?_eq_some_iff.mp hgi).1
  obtain ⟨kk, hkk, hst⟩ := hG ind g hind hgi
  simp only at hkk hst
  rw [hk] at hkk
  cases hkk
  have hlen : l0.length = data.length := hI.len
  -- the final id of a row of the group, from its optional sub-layer id
  have hfin : ∀ (i : Nat) (x : Option Int), gids[i]? = some g.cid → l0[i]? = some x →
      ((l0.zip gids).map (fun p => p.1.getD p.2))[i]? = some (x.getD g.cid) :=
    fun i x h1 h2 => (finCol_getElem? l0 gids i _).mpr ⟨x, g.cid, h2, h1, rfl⟩
  rw [eraseDups_length_eq_card]
  rcases hst with ⟨hle, hnone⟩ | ⟨hgt, ids, hcard, hall, hex⟩
  · have hset : (((((l0.zip gids).map (fun p => p.1.getD p.2)).zip gids).filter (·.2 = g.cid)).map (·.1)).toFinset
        = {g.cid} := by
      ext v
      rw [List.mem_toFinset, mem_groupLids, Finset.mem_singleton]
      constructor
      · rintro ⟨i, h1, h2⟩
        have := hfin i none h1 (hnone i h1)
        rw [h2] at this
        exact Option.some.inj this
      · rintro rfl
        obtain ⟨i, hi, hic⟩ := List.mem_iff_getElem.mp (hmem g (List.mem_of_getElem? hgi))
        have h1 : gids[i]? = some g.cid := by rw [List.getElem?_eq_getElem hi, hic]
        exact ⟨i, h1, hfin i none h1 (hnone i h1)⟩
    rw [hset, Finset.card_singleton]
    split_ifs with h1
    · have : k = 1 := by omega
      subst this
      rfl
    · rfl
  · have hinj : Function.Injective (fun c : Nat => lidOffset gids + 10 * (ind : Int) + (c : Int)) := by
      intro a b hab
      simp only at hab
      omega
    have hset : (((((l0.zip gids).map (fun p => p.1.getD p.2)).zip gids).filter (·.2 = g.cid)).map (·.1)).toFinset
        = ids.toFinset.image (fun c : Nat => lidOffset gids + 10 * (ind : Int) + (c : Int)) := by
      ext v
      rw [List.mem_toFinset, mem_groupLids, Finset.mem_image]
      constructor
      · rintro ⟨i, h1, h2⟩
        obtain ⟨c, hc, hl⟩ := hall i h1
        have := hfin i _ h1 hl
        rw [h2] at this
        exact ⟨c, List.mem_toFinset.mpr hc, (Option.some.inj this).symm⟩
      · rintro ⟨c, hc, rfl⟩
        obtain ⟨i, h1, hl⟩ := hex c (List.mem_toFinset.mp hc)
        exact ⟨i, h1, hfin i _ h1 hl⟩
    rw [hset, Finset.card_image_of_injective _ hinj, ← eraseDups_length_eq_card]
    rw [if_pos (by omega)]
    omega

end Ampy
