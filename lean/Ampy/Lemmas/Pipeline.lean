import Ampy.Spec.Table
import Ampy.Lemmas.Base
import Ampy.Lemmas.Count
import Ampy.Lemmas.Icao
import Mathlib.Data.List.Perm.Subperm
import Mathlib.Data.List.Range
/-!
The "pipeline lemma": every table `metarize` builds — for any hits, any id column that respects the
id invariants, any parameters and any third-party answers of the right shape — satisfies `TableOK`,
lists exactly the ids present in the column, and no error branch is reachable.
-/
namespace Ampy

/-- Shape conditions on the third-party answers (checked on every scene by the harness). -/
structure MetKOK (K : MetK) (q : Rat) : Prop where
  baseOrder_perm : ∀ l, isPermOf (K.baseOrder l) l.length = true
  baseOrder_sorted : ∀ l, (applyPerm (K.baseOrder l) l).Pairwise (· ≤ ·)
  dtOrder_perm : ∀ l, isPermOf (K.dtOrder l) l.length = true
  pctl_between : ∀ l, l ≠ [] → minRat l ≤ K.pctl l q ∧ K.pctl l q ≤ maxRat l

/-- Invariants of an id column: one id per row, `-1` or a non-negative id, and a non-negative
id only on rows with a valid height. -/
structure IdsOK {α} (data : List (Hit α)) (ids : List Int) : Prop where
  len : ids.length = data.length
  ge : ∀ i ∈ ids, -1 ≤ i
  valid : ∀ p ∈ data.zip ids, 0 ≤ p.2 → p.1.height ≠ none

/-- Hit heights are in the physical range of the quantifier. -/
def HeightsInRange {α} (data : List (Hit α)) : Prop :=
  ∀ h ∈ data, ∀ y, h.height = some y → 0 ≤ y ∧ y < 100000

/-! ### permutations given as position lists -/

theorem isPermOf_length {perm : List Nat} {n : Nat} (h : isPermOf perm n = true) : perm.length = n := by
  unfold isPermOf at h
  simp only [Bool.and_eq_true, beq_iff_eq] at h
  exact h.1

theorem isPermOf_mem {perm : List Nat} {n : Nat} (h : isPermOf perm n = true) {i : Nat} (hi : i < n) :
    i ∈ perm := by
  unfold isPermOf at h
  simp only [Bool.and_eq_true, List.all_eq_true, List.mem_range, List.contains_iff_mem] at h
  exact h.2 i hi

theorem isPermOf_perm {perm : List Nat} {n : Nat} (h : isPermOf perm n = true) :
    perm.Perm (List.range n) := by
  have hsub : (List.range n).Subperm perm :=
    List.subperm_of_subset List.nodup_range (fun x hx => isPermOf_mem h (List.mem_range.mp hx))
  exact (hsub.perm_of_length_le (by rw [isPermOf_length h, List.length_range])).symm

theorem range_filterMap_getElem? {β} (l : List β) : (List.range l.length).filterMap (l[·]?) = l := by
  induction l with
  | nil => rfl
  | cons a t ih =>
    rw [List.length_cons, List.range_succ_eq_map, List.filterMap_cons]
    simp only [List.getElem?_cons_zero, List.filterMap_map]
    congr 1

/-- `applyPerm` of a permutation of the positions is a permutation of the list. -/
theorem applyPerm_perm {β} (perm : List Nat) (l : List β) (h : isPermOf perm l.length = true) :
    (applyPerm perm l).Perm l := by
  unfold applyPerm
  have := (isPermOf_perm h).filterMap (l[·]?)
  rwa [range_filterMap_getElem?] at this

theorem applyPerm_map {β γ} (f : β → γ) (perm : List Nat) (l : List β) :
    applyPerm perm (l.map f) = (applyPerm perm l).map f := by
  unfold applyPerm
  rw [List.map_filterMap]
  congr 1
  funext i
  simp

/-! ### cluster ids -/

theorem mem_uniqueSorted (l : List Int) (c : Int) : c ∈ uniqueSorted l ↔ c ∈ l := by
  unfold uniqueSorted
  rw [List.mem_eraseDups, List.mem_mergeSort]

theorem clusterIds_nodup (ids : List Int) : (clusterIds ids).Nodup := by
  unfold clusterIds uniqueSorted
  exact (eraseDups_nodup _).filter _

theorem mem_clusterIds (ids : List Int) (c : Int) : c ∈ clusterIds ids ↔ c ∈ ids ∧ c ≠ -1 := by
  unfold clusterIds
  rw [List.mem_filter, mem_uniqueSorted]
  simp

/-- `n_slices`/`n_groups`/`n_layers` equals the number of cluster ids when no id is below `-1`. -/
theorem nWhich_eq (ids : List Int) (h : ∀ i ∈ ids, -1 ≤ i) : nWhich ids = (clusterIds ids).length := by
  unfold nWhich
  apply List.Perm.length_eq
  apply (List.perm_ext_iff_of_nodup (eraseDups_nodup _) (clusterIds_nodup ids)).mpr
  intro a
  rw [List.mem_eraseDups, List.mem_filter, mem_clusterIds]
  simp only [ge_iff_le, decide_eq_true_eq, ne_eq]
  constructor
  · rintro ⟨h1, h2⟩
    exact ⟨h1, by omega⟩
  · rintro ⟨h1, h2⟩
    have := h a h1
    exact ⟨h1, by omega⟩

theorem zip_getElem_mem {β γ} (l₁ : List β) (l₂ : List γ) (i : Nat) (h₁ : i < l₁.length) (h₂ : i < l₂.length) :
    (l₁[i], l₂[i]) ∈ l₁.zip l₂ := by
  rw [List.mem_iff_getElem]
  exact ⟨i, by simp [h₁, h₂], by simp⟩

theorem getElem_mem_members {α} (data : List (Hit α)) (ids : List Int) (cid : Int) (i : Nat)
    (h₁ : i < data.length) (h₂ : i < ids.length) (hc : ids[i] = cid) : data[i] ∈ members data ids cid := by
  unfold members
  rw [List.mem_filterMap]
  exact ⟨(data[i], ids[i]), zip_getElem_mem data ids i h₁ h₂, by simp [hc]⟩

theorem clusterId_nonneg {α} {data : List (Hit α)} {ids : List Int} {cid : Int} (h : IdsOK data ids)
    (hc : cid ∈ clusterIds ids) : 0 ≤ cid := by
  obtain ⟨h1, h2⟩ := (mem_clusterIds ids cid).mp hc
  have := h.ge cid h1
  omega

/-- Every cluster id has at least one member, with a valid height. -/
theorem members_ne_nil {α} (data : List (Hit α)) (ids : List Int) (cid : Int) (h : IdsOK data ids)
    (hc : cid ∈ clusterIds ids) :
    ∃ m ∈ members data ids cid, ∃ y, m.height = some y := by
  have h0 := clusterId_nonneg h hc
  obtain ⟨h1, _⟩ := (mem_clusterIds ids cid).mp hc
  obtain ⟨i, hi, hic⟩ := List.mem_iff_getElem.mp h1
  have hd : i < data.length := h.len ▸ hi
  refine ⟨data[i], getElem_mem_members data ids cid i hd hi hic, ?_⟩
  have hv := h.valid _ (zip_getElem_mem data ids i hd hi) (by simpa [hic] using h0)
  exact Option.ne_none_iff_exists'.mp hv


/-! ### the selection mask -/

theorem getD_true_iff (m : List Bool) (i : Nat) :
    m.getD i false = true ↔ m[i]? = some true := by
  rw [List.getD_eq_getElem?_getD]
  cases m[i]? <;> simp

theorem map_beq_getElem? (ids : List Int) (cid : Int) (i : Nat) :
    (ids.map (· == cid))[i]? = some true ↔ ∃ h' : i < ids.length, ids[i] = cid := by
  by_cases h : i < ids.length
  · simp [h]
  · simp [h]

/-- A selected position carries the id `cid`. -/
theorem baseMask_true {α} [DecidableEq α] (P : Prms α) (data : List (Hit α)) (ids : List Int) (cid : Int)
    (i : Nat) (ht : (baseMask P data ids cid)[i]? = some true) :
    ∃ h' : i < ids.length, ids[i] = cid := by
  unfold baseMask at ht
  simp only at ht
  split at ht
  · split at ht
    · rw [List.getElem?_map] at ht
      obtain ⟨p, hp, hpt⟩ := Option.map_eq_some_iff.mp ht
      obtain ⟨hp1, hp2⟩ := List.getElem?_zip_eq_some.mp hp
      apply (map_beq_getElem? ids cid i).mp
      rw [hp2]
      simp only [Bool.and_eq_true] at hpt
      rw [hpt.1]
    · exact (map_beq_getElem? ids cid i).mp ht
  · exact (map_beq_getElem? ids cid i).mp ht

/-- Some position inside the frame is selected. -/
theorem baseMask_exists {α} [DecidableEq α] (P : Prms α) (data : List (Hit α)) (ids : List Int) (cid : Int)
    (hl : ids.length = data.length) (hc : cid ∈ ids) (ht0 : 0 ≤ P.t0) :
    ∃ i, (baseMask P data ids cid)[i]? = some true ∧ i < data.length := by
  have hin : ∃ i, (ids.map (· == cid))[i]? = some true ∧ i < data.length := by
    obtain ⟨i, hi, hic⟩ := List.mem_iff_getElem.mp hc
    exact ⟨i, (map_beq_getElem? ids cid i).mpr ⟨hi, hic⟩, hl ▸ hi⟩
  unfold baseMask
  simp only
  split
  · split
    · rename_i hcount
      have hpos : 0 < List.count true
          ((data.zip (ids.map (· == cid))).map fun (h, b) => b && !(P.exclude.contains h.ceilo)) := by
        have : (0 : Rat) < ((List.count true
          ((data.zip (ids.map (· == cid))).map fun (h, b) => b && !(P.exclude.contains h.ceilo)) : Nat) : Rat) :=
          lt_of_le_of_lt ht0 hcount
        exact_mod_cast this
      obtain ⟨i, hi, hit⟩ := List.mem_iff_getElem.mp (List.count_pos_iff.mp hpos)
      refine ⟨i, ?_, ?_⟩
      · rw [List.getElem?_eq_getElem hi, hit]
      · simp only [List.length_map, List.length_zip] at hi
        omega
    · exact hin
  · exact hin

theorem getElem?_bind_height {α} (data : List (Hit α)) (i : Nat) (y : Rat) :
    (data[i]?).bind (·.height) = some y ↔ ∃ h : i < data.length, data[i].height = some y := by
  by_cases h : i < data.length
  · simp [h]
  · simp [h]

/-- The selection handed to `calc_base_height` is a non-empty list of member heights
(needs `0 ≤ MAX_HITS_OKTA0`, so that the exclusion filter falls back when it removes everything). -/
theorem selectSorted_mem {α} [DecidableEq α] (K : MetK) (P : Prms α) (data : List (Hit α)) (ids : List Int)
    (cid : Int) (hK : MetKOK K P.basePerc) (h : IdsOK data ids) (hc : cid ∈ clusterIds ids) (ht0 : 0 ≤ P.t0) :
    selectSorted K data (baseMask P data ids cid) ≠ [] ∧
    ∀ y ∈ selectSorted K data (baseMask P data ids cid),
      y ∈ (members data ids cid).filterMap (·.height) := by
  have h0 := clusterId_nonneg h hc
  obtain ⟨hcm, _⟩ := (mem_clusterIds ids cid).mp hc
  constructor
  · obtain ⟨i, hit, hid⟩ := baseMask_exists P data ids cid h.len hcm ht0
    obtain ⟨hi', hic⟩ := baseMask_true P data ids cid i hit
    have hv := h.valid _ (zip_getElem_mem data ids i hid hi') (by simpa [hic] using h0)
    obtain ⟨y, hy⟩ := Option.ne_none_iff_exists'.mp hv
    have hperm := hK.dtOrder_perm (data.map (·.dt))
    have hmem : i ∈ K.dtOrder (data.map (·.dt)) := isPermOf_mem hperm (by simpa using hid)
    have : y ∈ selectSorted K data (baseMask P data ids cid) := by
      unfold selectSorted
      rw [List.mem_filterMap]
      refine ⟨i, hmem, ?_⟩
      rw [if_pos ((getD_true_iff _ _).mpr hit)]
      exact (getElem?_bind_height data i y).mpr ⟨hid, hy⟩
    exact List.ne_nil_of_mem this
  · intro y hy
    unfold selectSorted at hy
    rw [List.mem_filterMap] at hy
    obtain ⟨i, _, hiy⟩ := hy
    split at hiy
    · rename_i hm
      have hit := (getD_true_iff _ _).mp hm
      obtain ⟨hi', hic⟩ := baseMask_true P data ids cid i hit
      obtain ⟨hid, hh⟩ := (getElem?_bind_height data i y).mp hiy
      rw [List.mem_filterMap]
      exact ⟨data[i], getElem_mem_members data ids cid i hid hi' hic, hh⟩
    · cases hiy


/-! ### `List.mapM` in `Except` -/

theorem mapM_ok_forall₂ {ε β γ} (f : β → Except ε γ) : ∀ (l : List β) (rows : List γ),
    l.mapM f = .ok rows → List.Forall₂ (fun c r => f c = .ok r) l rows
  | [], rows, h => by
    rw [List.mapM_nil] at h
    cases h
    exact .nil
  | a :: l, rows, h => by
    rw [List.mapM_cons] at h
    simp only [bind, Except.bind, pure, Except.pure] at h
    split at h
    · cases h
    · rename_i r hr
      split at h
      · cases h
      · rename_i rs hrs
        cases h
        exact .cons hr (mapM_ok_forall₂ f l rs hrs)

theorem mapM_ok_of_forall {ε β γ} (f : β → Except ε γ) : ∀ (l : List β),
    (∀ c ∈ l, ∃ r, f c = .ok r) → ∃ rows, l.mapM f = .ok rows
  | [], _ => ⟨[], by rw [List.mapM_nil]; rfl⟩
  | a :: l, h => by
    obtain ⟨r, hr⟩ := h a List.mem_cons_self
    obtain ⟨rs, hrs⟩ := mapM_ok_of_forall f l (fun c hc => h c (List.mem_cons_of_mem _ hc))
    refine ⟨r :: rs, ?_⟩
    rw [List.mapM_cons]
    simp only [bind, Except.bind, pure, Except.pure, hr, hrs]

theorem forall₂_map_eq {β γ} {R : β → γ → Prop} (g : γ → β) (hg : ∀ c r, R c r → g r = c)
    {l : List β} {rows : List γ} (h : List.Forall₂ R l rows) : rows.map g = l := by
  induction h with
  | nil => rfl
  | cons hr _ ih => rw [List.map_cons, ih, hg _ _ hr]

theorem forall₂_mem_right {β γ} {R : β → γ → Prop} {l : List β} {rows : List γ}
    (h : List.Forall₂ R l rows) : ∀ r ∈ rows, ∃ c ∈ l, R c r := by
  induction h with
  | nil => intro r hr; cases hr
  | cons hr _ ih =>
    intro r hm
    rcases List.mem_cons.mp hm with rfl | hm
    · exact ⟨_, List.mem_cons_self, hr⟩
    · obtain ⟨c, hc, hcr⟩ := ih r hm
      exact ⟨c, List.mem_cons_of_mem _ hc, hcr⟩

/-! ### one row -/

theorem mkRow_cid {α} [DecidableEq α] (K : MetK) (P : Prms α) (w : Which) (data : List (Hit α))
    (ids : List Int) (cid : Int) (r : Row) (h : mkRow K P w data ids cid = .ok r) : r.cid = cid := by
  unfold mkRow at h
  simp only [bind, Except.bind, pure, Except.pure] at h
  split at h
  · cases h
  · split at h
    · cases h
    · split at h
      · cases h
      · cases h; rfl

theorem mkRow_parts {α} [DecidableEq α] (K : MetK) (P : Prms α) (w : Which) (data : List (Hit α))
    (ids : List Int) (cid : Int) (r : Row) (h : mkRow K P w data ids cid = .ok r) :
    oktaOf (hitCount (ceilos data) (members data ids cid)) (maxHits data) P.t0 P.t8 = .ok r.okta ∧
    calcBase K.pctl (selectSorted K data (baseMask P data ids cid)) P.lookback P.basePerc = .ok r.base ∧
    mkCode r.okta r.base = .ok r.code := by
  unfold mkRow at h
  simp only [bind, Except.bind, pure, Except.pure] at h
  split at h
  · cases h
  · rename_i okta hok
    split at h
    · cases h
    · rename_i base hb
      split at h
      · cases h
      · rename_i code hc
        cases h
        exact ⟨hok, hb, hc⟩

theorem maxHits_pos {α} [DecidableEq α] (data : List (Hit α)) (h : data ≠ []) : 0 < maxHits data := by
  unfold maxHits
  rw [hitCount_eq_distinct_pairs _ _ (ceilos_nodup data) (fun h hm => mem_ceilos data h hm)]
  cases data with
  | nil => exact absurd rfl h
  | cons a t =>
    rw [List.map_cons, List.eraseDups_cons]
    exact Nat.succ_pos _

theorem data_ne_nil {α} {data : List (Hit α)} {ids : List Int} {cid : Int} (h : IdsOK data ids)
    (hc : cid ∈ clusterIds ids) : data ≠ [] := by
  obtain ⟨m, hm, _⟩ := members_ne_nil data ids cid h hc
  exact List.ne_nil_of_mem ((members_sublist data ids cid).subset hm)

theorem mkCode_ok (o : Int) (b : Rat) (h0 : 0 ≤ o) (h8 : o ≤ 8) : ∃ c, mkCode o b = .ok c := by
  have : o = 0 ∨ o = 1 ∨ o = 2 ∨ o = 3 ∨ o = 4 ∨ o = 5 ∨ o = 6 ∨ o = 7 ∨ o = 8 := by omega
  have hp : ∃ p, okta2code (.int o) = .ok (some p) := by
    rcases this with rfl | rfl | rfl | rfl | rfl | rfl | rfl | rfl | rfl <;> exact ⟨_, rfl⟩
  obtain ⟨p, hp⟩ := hp
  exact ⟨p ++ height2code (some b), by unfold mkCode; rw [hp]⟩

/-- The okta of a cluster exists and is within 0..8. -/
theorem row_okta_ok {α} [DecidableEq α] (P : Prms α) (data : List (Hit α)) (ids : List Int) (cid : Int)
    (h : IdsOK data ids) (hc : cid ∈ clusterIds ids) :
    ∃ o, oktaOf (hitCount (ceilos data) (members data ids cid)) (maxHits data) P.t0 P.t8 = .ok o ∧
      0 ≤ o ∧ o ≤ 8 := by
  have hM := maxHits_pos data (data_ne_nil h hc)
  have hn : hitCount (ceilos data) (members data ids cid) ≤ maxHits data :=
    hitCount_le_of_sublist _ _ _ (members_sublist data ids cid)
  have he := oktaOf_eq _ _ P.t0 P.t8 hM hn
  exact ⟨_, he, oktaOf_range _ _ P.t0 P.t8 hM hn _ he⟩

/-- The base of a cluster exists and is within the range of its member heights. -/
theorem row_base_ok {α} [DecidableEq α] (K : MetK) (P : Prms α) (data : List (Hit α)) (ids : List Int)
    (cid : Int) (hK : MetKOK K P.basePerc) (h : IdsOK data ids) (hc : cid ∈ clusterIds ids) (ht0 : 0 ≤ P.t0) :
    ∃ b, calcBase K.pctl (selectSorted K data (baseMask P data ids cid)) P.lookback P.basePerc = .ok b ∧
      (∃ y₁ ∈ (members data ids cid).filterMap (·.height), y₁ ≤ b) ∧
      (∃ y₂ ∈ (members data ids cid).filterMap (·.height), b ≤ y₂) := by
  obtain ⟨hne, hmem⟩ := selectSorted_mem K P data ids cid hK h hc ht0
  obtain ⟨b, hb, hlo, hhi⟩ := calcBase_between K.pctl _ P.lookback P.basePerc hne hK.pctl_between
  exact ⟨b, hb, ⟨_, hmem _ (minRat_mem hne), hlo⟩, ⟨_, hmem _ (maxRat_mem hne), hhi⟩⟩

theorem mkRow_ok {α} [DecidableEq α] (K : MetK) (P : Prms α) (w : Which) (data : List (Hit α))
    (ids : List Int) (cid : Int) (hK : MetKOK K P.basePerc) (h : IdsOK data ids)
    (hc : cid ∈ clusterIds ids) (ht0 : 0 ≤ P.t0) : ∃ r, mkRow K P w data ids cid = .ok r := by
  obtain ⟨o, ho, ho0, ho8⟩ := row_okta_ok P data ids cid h hc
  obtain ⟨b, hb, _, _⟩ := row_base_ok K P data ids cid hK h hc ht0
  obtain ⟨c, hcode⟩ := mkCode_ok o b ho0 ho8
  unfold mkRow baseForMask
  simp only [bind, Except.bind, pure, Except.pure, ho, hb, hcode]
  exact ⟨_, rfl⟩

/-! ### flags -/

theorem significantCloud_length (os : List Int) : (significantCloud os).length = os.length := by
  rw [significantCloud_eq_spec, specFrom_length]

theorem flagRows_map {γ} (p : Row → γ) (hp : ∀ r s, p { r with significant := s } = p r) (rows : List Row) :
    (flagRows rows).map p = rows.map p := by
  unfold flagRows
  rw [List.map_map]
  have : (p ∘ fun (x : Row × Bool) => { x.1 with significant := x.2 }) = p ∘ Prod.fst := by
    funext x
    exact hp x.1 x.2
  rw [this, ← List.map_map, List.map_fst_zip]
  rw [significantCloud_length, List.length_map]

theorem flagRows_flags (rows : List Row) :
    (flagRows rows).map (·.significant) = significantCloud (rows.map (·.okta)) := by
  unfold flagRows
  rw [List.map_map]
  have : ((fun r : Row => r.significant) ∘ fun (x : Row × Bool) => { x.1 with significant := x.2 }) = Prod.snd := by
    funext x
    rfl
  rw [this, List.map_snd_zip]
  rw [significantCloud_length, List.length_map]

theorem flagRows_mem (rows : List Row) (r : Row) (h : r ∈ flagRows rows) :
    ∃ r₀ ∈ rows, r = { r₀ with significant := r.significant } := by
  unfold flagRows at h
  obtain ⟨x, hx, rfl⟩ := List.mem_map.mp h
  exact ⟨x.1, (List.of_mem_zip hx).1, rfl⟩

/-! ### the table -/

theorem metarize_ok {α} [DecidableEq α] (K : MetK) (P : Prms α) (w : Which) (layersDone : Bool)
    (data : List (Hit α)) (ids : List Int) (t : Table)
    (ht : metarize K P w layersDone data ids = .ok t) :
    ∃ rows, (clusterIds ids).mapM (mkRow K P w data ids) = .ok rows ∧
      t = flagRows (applyPerm (K.baseOrder (rows.map (·.base))) rows) := by
  unfold metarize at ht
  simp only [bind, Except.bind, pure, Except.pure] at ht
  split at ht
  · simp [throw, throwThe, MonadExceptOf.throw] at ht
  · split at ht
    · cases ht
    · rename_i rows hrows
      cases ht
      exact ⟨rows, hrows, rfl⟩


/-- No error branch of `metarize` is reachable (C08), unless the call would discard the layering. -/
theorem metarize_total {α} [DecidableEq α] (K : MetK) (P : Prms α) (w : Which) (layersDone : Bool)
    (data : List (Hit α)) (ids : List Int) (hK : MetKOK K P.basePerc) (h : IdsOK data ids) (ht0 : 0 ≤ P.t0)
    (hg : ¬ (w = .groups ∧ layersDone = true ∧ clusterIds ids ≠ [])) :
    ∃ t, metarize K P w layersDone data ids = .ok t := by
  obtain ⟨rows, hrows⟩ := mapM_ok_of_forall (mkRow K P w data ids) (clusterIds ids)
    (fun c hc => mkRow_ok K P w data ids c hK h hc ht0)
  unfold metarize
  simp only [bind, Except.bind, pure, Except.pure]
  rw [if_neg hg, hrows]
  exact ⟨_, rfl⟩

/-- The only refusal of `metarize`: groups asked again once layers exist. -/
theorem metarize_refuses {α} [DecidableEq α] (K : MetK) (P : Prms α) (layersDone : Bool)
    (data : List (Hit α)) (ids : List Int) (hg : layersDone = true ∧ clusterIds ids ≠ []) :
    ∃ why, metarize K P .groups layersDone data ids = .error (.ampy why) := by
  unfold metarize
  simp only [bind, Except.bind, pure, Except.pure]
  rw [if_pos ⟨trivial, hg⟩]
  exact ⟨_, rfl⟩

/-- The table lists exactly the ids present in the column, once each. -/
theorem metarize_cids {α} [DecidableEq α] (K : MetK) (P : Prms α) (w : Which) (layersDone : Bool)
    (data : List (Hit α)) (ids : List Int) (hK : MetKOK K P.basePerc) (t : Table)
    (ht : metarize K P w layersDone data ids = .ok t) :
    (t.map (·.cid)).Perm (clusterIds ids) := by
  obtain ⟨rows, hrows, rfl⟩ := metarize_ok K P w layersDone data ids t ht
  have hf := mapM_ok_forall₂ _ _ _ hrows
  have hmap : rows.map (·.cid) = clusterIds ids :=
    forall₂_map_eq (·.cid) (fun c r hr => mkRow_cid K P w data ids c r hr) hf
  rw [flagRows_map (·.cid) (fun _ _ => rfl), ← hmap]
  apply List.Perm.map
  apply applyPerm_perm
  have := hK.baseOrder_perm (rows.map (·.base))
  rwa [List.length_map] at this

/-- Every row of the table is what `mkRow` computes for its cluster id, up to the significance flag. -/
theorem metarize_rows {α} [DecidableEq α] (K : MetK) (P : Prms α) (w : Which) (layersDone : Bool)
    (data : List (Hit α)) (ids : List Int) (hK : MetKOK K P.basePerc) (t : Table)
    (ht : metarize K P w layersDone data ids = .ok t) :
    ∀ r ∈ t, r.cid ∈ clusterIds ids ∧
      ∃ r₀, mkRow K P w data ids r.cid = .ok r₀ ∧ r = { r₀ with significant := r.significant } := by
  obtain ⟨rows, hrows, rfl⟩ := metarize_ok K P w layersDone data ids t ht
  have hf := mapM_ok_forall₂ _ _ _ hrows
  intro r hr
  obtain ⟨r₀, hr₀, hrr⟩ := flagRows_mem _ r hr
  have hperm : (applyPerm (K.baseOrder (rows.map (·.base))) rows).Perm rows := by
    apply applyPerm_perm
    have := hK.baseOrder_perm (rows.map (·.base))
    rwa [List.length_map] at this
  obtain ⟨c, hc, hcr⟩ := forall₂_mem_right hf r₀ (hperm.subset hr₀)
  have hcid : r.cid = c := by
    rw [hrr]
    exact mkRow_cid K P w data ids c r₀ hcr
  rw [hcid]
  exact ⟨hc, r₀, hcr, hrr⟩

/-- The pipeline lemma. -/
theorem metarize_tableOK {α} [DecidableEq α] (K : MetK) (P : Prms α) (w : Which) (layersDone : Bool)
    (data : List (Hit α)) (ids : List Int) (hK : MetKOK K P.basePerc) (h : IdsOK data ids)
    (hr : HeightsInRange data) (ht0 : 0 ≤ P.t0) (t : Table)
    (ht : metarize K P w layersDone data ids = .ok t) : TableOK t := by
  have hrows := metarize_rows K P w layersDone data ids hK t ht
  have hparts : ∀ r ∈ t, r.cid ∈ clusterIds ids ∧
      oktaOf (hitCount (ceilos data) (members data ids r.cid)) (maxHits data) P.t0 P.t8 = .ok r.okta ∧
      calcBase K.pctl (selectSorted K data (baseMask P data ids r.cid)) P.lookback P.basePerc = .ok r.base ∧
      mkCode r.okta r.base = .ok r.code := by
    intro r hrt
    obtain ⟨hc, r₀, hr₀, hrr⟩ := hrows r hrt
    have hp := mkRow_parts K P w data ids r.cid r₀ hr₀
    have e₁ : r.okta = r₀.okta := by rw [hrr]
    have e₂ : r.base = r₀.base := by rw [hrr]
    have e₃ : r.code = r₀.code := by rw [hrr]
    rw [e₁, e₂, e₃]
    exact ⟨hc, hp⟩
  obtain ⟨rows, _, rfl⟩ := metarize_ok K P w layersDone data ids t ht
  refine ⟨?_, ?_, ?_, ?_, ?_⟩
  · rw [← List.pairwise_map (f := fun r : Row => r.base) (R := fun a b : Rat => a ≤ b)]
    rw [flagRows_map (·.base) (fun _ _ => rfl), ← applyPerm_map]
    exact hK.baseOrder_sorted _
  · rw [flagRows_flags, flagRows_map (·.okta) (fun _ _ => rfl)]
  · intro r hrt
    exact (hparts r hrt).2.2.2
  · intro r hrt
    obtain ⟨hc, ho, _, _⟩ := hparts r hrt
    obtain ⟨o, ho', hrange⟩ := row_okta_ok P data ids r.cid h hc
    rw [ho] at ho'
    cases ho'
    exact hrange
  · intro r hrt
    obtain ⟨hc, _, hb, _⟩ := hparts r hrt
    obtain ⟨b, hb', ⟨y₁, hy₁, hlo⟩, ⟨y₂, hy₂, hhi⟩⟩ := row_base_ok K P data ids r.cid hK h hc ht0
    rw [hb] at hb'
    cases hb'
    obtain ⟨m₁, hm₁, hh₁⟩ := List.mem_filterMap.mp hy₁
    obtain ⟨m₂, hm₂, hh₂⟩ := List.mem_filterMap.mp hy₂
    have r₁ := hr m₁ ((members_sublist data ids r.cid).subset hm₁) y₁ hh₁
    have r₂ := hr m₂ ((members_sublist data ids r.cid).subset hm₂) y₂ hh₂
    exact ⟨le_trans r₁.1 hlo, lt_of_le_of_lt hhi r₂.2⟩

end Ampy
