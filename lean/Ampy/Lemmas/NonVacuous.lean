import Ampy.Lemmas.Total
import Ampy.Lemmas.StageCanon
import Ampy.Props.C05
/-!
The hypothesis structures of the project are satisfiable: a concrete kernel (`demoKern`: real sorts, the
exact percentile, a threshold clustering, one populated mixture component), the default parameters (`demoPrms`) and
a concrete scene (`demoScene`) meet `KernOK`, `MetKOK`, `PrmsOK`, `SepShape`, `SepNonneg`,
`SelectedPopulated`, and through them `run_total`, `Canon` and `IdsExact`/`IdsOK` have instances.  None
of the theorems that assume them is therefore vacuous.
-/
namespace Ampy

/-! ### a real sort, as a list of positions -/

/-- Positions of `l` in non-decreasing order of the values (stable). -/
def sortPerm (l : List Rat) : List Nat :=
  (List.range l.length).mergeSort (fun i j => decide (l.getD i 0 ≤ l.getD j 0))

theorem isPermOf_of_perm {perm : List Nat} {n : Nat} (h : perm.Perm (List.range n)) :
    isPermOf perm n = true := by
  unfold isPermOf
  simp only [Bool.and_eq_true, beq_iff_eq, List.all_eq_true, List.mem_range, List.contains_iff_mem]
  refine ⟨by rw [h.length_eq, List.length_range], fun i hi => h.symm.subset (List.mem_range.mpr hi)⟩

theorem sortPerm_perm (l : List Rat) : isPermOf (sortPerm l) l.length = true :=
  isPermOf_of_perm (List.mergeSort_perm _ _)

theorem sortPerm_sorted (l : List Rat) : (applyPerm (sortPerm l) l).Pairwise (· ≤ ·) := by
  have h := List.pairwise_mergeSort (le := fun i j => decide (l.getD i 0 ≤ l.getD j 0))
    (fun a b c h1 h2 => by
      simp only [decide_eq_true_eq] at h1 h2 ⊢
      exact Rat.le_trans h1 h2)
    (fun a b => by
      simp only [Bool.or_eq_true, decide_eq_true_eq]
      exact Rat.le_total)
    (List.range l.length)
  unfold applyPerm
  rw [List.pairwise_filterMap]
  refine h.imp ?_
  intro i j hij x hx y hy
  simp only [decide_eq_true_eq] at hij
  rw [List.getD_eq_getElem?_getD, List.getD_eq_getElem?_getD] at hij
  rw [hx, hy] at hij
  exact hij

/-! ### the concrete kernel -/

/-- A kernel made of real sorts, the exact percentile, the identity smoother, a clustering that cuts the
(scaled) height axis at `1/2` (labels `0` below, `1` from there on), and mixtures that put every point in
component `0` with a score that grows with the number of components. -/
def demoKern : Kern where
  dtOrder := sortPerm
  pctl := percentile
  ptsOrder := sortPerm
  lowess := fun pts => pts.map (·.2)
  baseOrder := sortPerm
  cluster := fun _ _ pts => pts.map fun p => if p.2 < 1 / 2 then 0 else 1
  gmm := fun _ vals n => ⟨vals.map (fun _ => 0), (n : Rat)⟩
  bestProb := fun _ _ => 0
  argsort := sortPerm
  prelimOrder := sortPerm

theorem demoKern_met (q : Rat) (h0 : 0 ≤ q) (h1 : q ≤ 100) : MetKOK demoKern.toMetK q where
  baseOrder_perm := sortPerm_perm
  baseOrder_sorted := sortPerm_sorted
  dtOrder_perm := sortPerm_perm
  pctl_between := fun l hl => percentile_between l hl q h0 h1

/-- `KernOK` is satisfiable (for every percentile level in `[0, 100]`). -/
theorem demoKern_ok (q : Rat) (h0 : 0 ≤ q) (h1 : q ≤ 100) : KernOK demoKern q where
  met := demoKern_met q h0 h1
  cluster_len := fun _ _ pts => List.length_map _
  gmm_len := fun _ vals _ => List.length_map _
  gmm_lt := by
    intro s vals n hn l hl
    obtain ⟨_, _, rfl⟩ := List.mem_map.mp hl
    exact hn
  bestProb_lt := fun ab _ hab => List.length_pos_iff.mpr hab
  argsort_perm := sortPerm_perm
  argsort_sorted := sortPerm_sorted
  prelimOrder_perm := sortPerm_perm
  prelimOrder_sorted := sortPerm_sorted

/-! ### the default parameters -/

/-- All defaults of `AMPYCLOUD_PRMS`. -/
def demoPrms : PPrms String := {}

theorem demoPrms_sepShape : SepShape demoPrms.toPrms := rfl

theorem demoPrms_sepNonneg : SepNonneg demoPrms.toPrms := by
  intro v hv
  have hv' : v ∈ [(250 : Rat), 1000] := hv
  simp only [List.mem_cons, List.not_mem_nil, or_false] at hv'
  rcases hv' with rfl | rfl <;> decide

/-- `PrmsOK` is satisfiable. -/
theorem demoPrms_ok : PrmsOK demoPrms where
  t0 := by decide
  sep := demoPrms_sepShape
  scores := .inr rfl
  mode := .inl rfl
  hscale := trivial

/-! ### A3 for the concrete kernel -/

theorem bestDelta_eq_zero (abics : List Rat) (gain : Rat)
    (h : ∀ m a b, abics[m + 1]? = some a → abics[0]? = some b → ¬ a < gain * b) :
    bestDelta abics gain = 0 := by
  unfold bestDelta
  apply foldl_inv _ (fun b => b = 0)
  · intro b m hb
    subst hb
    split
    · rename_i a b ha hb
      rw [if_neg (h m a b ha hb)]
    · rfl
  · rfl

theorem eraseDups_length_pos_nat (l : List Nat) (h : l ≠ []) : 1 ≤ (l.eraseDups).length := by
  cases l with
  | nil => exact absurd rfl h
  | cons a t =>
    rw [List.eraseDups_cons, List.length_cons]
    omega

/-- Boosting keeps every score `≥ 1` and the first one equal to `1`, when the first score is `1`, all
are `≥ 1` and the first mixture has a non-empty label column. -/
theorem boostScores_demo (fits : List GmmFit) (h0 : ∀ f, fits[0]? = some f → f.labels ≠ [] ∧ f.score = 1)
    (h1 : ∀ f ∈ fits, 1 ≤ f.score) :
    (∀ a ∈ boostScores fits, (1 : Rat) ≤ a) ∧ (∀ b, (boostScores fits)[0]? = some b → b = 1) := by
  unfold boostScores
  apply foldl_inv _ (fun (ab : List Rat) => (∀ a ∈ ab, (1 : Rat) ≤ a) ∧ (∀ b, ab[0]? = some b → b = 1))
  · intro ab i ⟨hge, hz⟩
    split
    · rename_i f hf
      split
      · rename_i hlt
        have hi : i ≠ 0 := by
          rintro rfl
          have := eraseDups_length_pos_nat _ (h0 f hf).1
          omega
        refine ⟨?_, ?_⟩
        · intro a ha
          rcases List.mem_or_eq_of_mem_set ha with ha | rfl
          · exact hge a ha
          · by_cases hab : ab = []
            · subst hab
              simp at ha
            · have := hge _ (maxRat_mem hab)
              linarith
        · intro b hb
          rw [List.getElem?_set_ne hi] at hb
          exact hz b hb
      · exact ⟨hge, hz⟩
    · exact ⟨hge, hz⟩
  · refine ⟨?_, ?_⟩
    · intro a ha
      obtain ⟨f, hf, rfl⟩ := List.mem_map.mp ha
      exact h1 f hf
    · intro b hb
      rw [List.getElem?_map] at hb
      obtain ⟨f, hf, rfl⟩ := Option.map_eq_some_iff.mp hb
      exact (h0 f hf).2

theorem selectedFit_delta {α} (K : Kern) (P : PPrms α) (hmode : P.gmmMode = "delta") (vals : List Rat)
    (ncompMax : Nat) :
    selectedFit K P vals ncompMax =
      (((List.range (min ncompMax (vals.eraseDups).length)).map fun i =>
          K.gmm P.gmmScores (Lay.gmmScaled P vals) (i + 1))[
        bestDelta (boostScores ((List.range (min ncompMax (vals.eraseDups).length)).map fun i =>
          K.gmm P.gmmScores (Lay.gmmScaled P vals) (i + 1))) P.gmmGain]?).map fun f =>
        (bestDelta (boostScores ((List.range (min ncompMax (vals.eraseDups).length)).map fun i =>
          K.gmm P.gmmScores (Lay.gmmScaled P vals) (i + 1))) P.gmmGain + 1, f) := by
  unfold selectedFit
  simp only [hmode, if_true]
  rfl

/-- The scores of the concrete mixtures are `1, 2, 3, …`; those beyond the first are boosted further;
with a gain `≤ 1` the selection never leaves the first. -/
theorem demo_select (s : String) (sc : List Rat) (m : Nat) (gain : Rat) (hg : gain ≤ 1) (hsc : sc ≠ []) :
    bestDelta (boostScores ((List.range m).map fun i => demoKern.gmm s sc (i + 1))) gain = 0 := by
  obtain ⟨hge, hz⟩ := boostScores_demo ((List.range m).map fun i => demoKern.gmm s sc (i + 1))
    (by
      intro f hf
      rw [List.getElem?_map] at hf
      obtain ⟨j, hj, rfl⟩ := Option.map_eq_some_iff.mp hf
      obtain ⟨_, hj⟩ := List.getElem?_eq_some_iff.mp hj
      rw [List.getElem_range] at hj
      subst hj
      refine ⟨?_, ?_⟩
      · show sc.map (fun _ => 0) ≠ []
        simpa using hsc
      · show ((0 + 1 : Nat) : Rat) = 1
        simp)
    (by
      intro f hf
      obtain ⟨j, _, rfl⟩ := List.mem_map.mp hf
      show (1 : Rat) ≤ ((j + 1 : Nat) : Rat)
      have : (1 : Nat) ≤ j + 1 := by omega
      exact_mod_cast this)
  apply bestDelta_eq_zero
  intro m' a b ha hb
  have h1 := hz b hb
  have h2 := hge a (List.mem_of_getElem? ha)
  subst h1
  rw [mul_one]
  intro hlt
  linarith

/-- With the concrete kernel, in mode `delta` with a gain `≤ 1`, the one-component mixture is always the
one selected, and its only component holds every value: A3 holds. -/
theorem demoKern_populated_of {α} (P : PPrms α) (hmode : P.gmmMode = "delta") (hg : P.gmmGain ≤ 1) :
    SelectedPopulated demoKern P := by
  intro vals ncompMax n f h i hi
  rw [selectedFit_delta demoKern P hmode] at h
  by_cases hv : vals = []
  · subst hv
    simp at h
  · have hsc : Lay.gmmScaled P vals ≠ [] := by
      intro he
      have := Lay.gmmScaled_length P.gmmRescale vals
      unfold Lay.gmmScaled at he
      rw [he] at this
      exact hv (List.length_eq_zero_iff.mp this.symm)
    rw [demo_select P.gmmScores _ _ P.gmmGain hg hsc] at h
    obtain ⟨f', hf', he⟩ := Option.map_eq_some_iff.mp h
    cases he
    rw [List.getElem?_map] at hf'
    obtain ⟨j, _, rfl⟩ := Option.map_eq_some_iff.mp hf'
    have : i = 0 := by omega
    subst this
    show 0 ∈ (Lay.gmmScaled P vals).map (fun _ => 0)
    rw [List.mem_map]
    obtain ⟨x, hx⟩ := List.exists_mem_of_ne_nil _ hsc
    exact ⟨x, hx, rfl⟩

/-- `SelectedPopulated` is satisfiable, together with `KernOK` and `PrmsOK`. -/
theorem demoKern_populated : SelectedPopulated demoKern demoPrms :=
  demoKern_populated_of demoPrms rfl (by show (19 / 20 : Rat) ≤ 1; norm_num)

/-! ### a concrete scene -/

/-- Two ceilometers over ten minutes: a low deck near 1000 ft seen by both, a higher one near 3000 ft,
and a few non-detections. -/
def demoScene : List (Hit String) := [
  ⟨"A", -540, some 1000, 1⟩, ⟨"A", -480, some 1010, 1⟩, ⟨"A", -420, some 990, 1⟩,
  ⟨"A", -360, none, 0⟩,      ⟨"A", -300, some 1020, 1⟩, ⟨"A", -240, some 1000, 1⟩,
  ⟨"A", -180, some 3000, 1⟩, ⟨"A", -120, some 1010, 1⟩, ⟨"A", -60, some 980, 1⟩,
  ⟨"A", 0, some 1000, 1⟩,
  ⟨"B", -540, some 3010, 1⟩, ⟨"B", -480, some 2990, 1⟩, ⟨"B", -420, none, 0⟩,
  ⟨"B", -360, some 3000, 1⟩, ⟨"B", -300, some 3020, 1⟩, ⟨"B", -240, some 1000, 1⟩,
  ⟨"B", -180, some 2980, 1⟩, ⟨"B", -120, none, 0⟩,      ⟨"B", -60, some 3000, 1⟩,
  ⟨"B", 0, some 3010, 1⟩]

/-- The run on the concrete scene returns (from `run_total`, not by evaluation). -/
theorem demo_run_ok : ∃ c, run demoKern demoPrms demoScene = .ok c :=
  run_total demoKern demoPrms (demoKern_ok _ (by decide) (by decide)) demoPrms_ok demoKern_populated demoScene

/-- `Canon` has an instance: the four canonical states of the concrete run. -/
theorem demo_canon : ∃ S1 S2 S3, Canon demoKern demoPrms (construct demoPrms demoScene) S1 S2 S3 := by
  obtain ⟨c, hc⟩ := demo_run_ok
  obtain ⟨S1, S2, h⟩ := canon_of_run demoKern demoPrms demoScene c hc
  exact ⟨S1, S2, c, h⟩

/-- `IdsExact` (hence `IdsOK`) has instances: the three id columns of the concrete run. -/
theorem demo_idsExact : ∃ c sids gids lids, run demoKern demoPrms demoScene = .ok c ∧
    c.sids = some sids ∧ c.gids = some gids ∧ c.lids = some lids ∧
    IdsExact c.data sids ∧ IdsExact c.data gids ∧ IdsExact c.data lids := by
  obtain ⟨c, hc⟩ := demo_run_ok
  obtain ⟨sids, gids, lids, h⟩ := C05_every_hit_assigned demoKern demoPrms demoScene
    (demoKern_ok _ (by decide) (by decide)) c hc
  exact ⟨c, sids, gids, lids, hc, h⟩

/-- The heights of the concrete scene are in the physical range (`HeightsInRange`). -/
theorem demoScene_inRange : HeightsInRange demoScene := by
  have h : ∀ h ∈ demoScene, ∀ y ∈ h.height, 0 ≤ y ∧ y < 100000 := by decide
  exact fun x hx y hy => h x hx y hy

/-- `TableOK` has instances: the empty table, and the layers table of the concrete run (through
`metarize_tableOK`, whose hypotheses `MetKOK`, `IdsOK`, `HeightsInRange` are all met here). -/
theorem tableOK_nil : TableOK [] := ⟨List.Pairwise.nil, by decide, by simp, by simp, by simp⟩

theorem demo_layers_tableOK : ∃ c lay, run demoKern demoPrms demoScene = .ok c ∧ c.layers = some lay ∧
    TableOK lay := by
  obtain ⟨c, hc⟩ := demo_run_ok
  have hK : KernOK demoKern demoPrms.basePerc := demoKern_ok _ (by decide) (by decide)
  obtain ⟨hd, _, sids, sl, gids, iso, gr, lids, nc, lay, hs, _, hg, _, hl, hm, _, _, _, _, _, e⟩ :=
    run_parts demoKern demoPrms demoScene c hc
  have h1 := sliceIds_exact demoKern demoPrms c.data _ hK sids hs
  have h2 := groupIds_exact demoKern demoPrms c.data _ hK sids sl h1 gids iso hg
  have h3 := layerIds_exact demoKern demoPrms c.data _ hK gids gr h2 lids nc hl
  have hdata : c.data = demoScene := hd
  have hr : HeightsInRange c.data := by rw [hdata]; exact demoScene_inRange
  exact ⟨c, lay, hc, e, metarize_tableOK _ _ _ _ _ _ hK.met h3.toOK hr (by decide) lay hm⟩

/-- Checked by kernel evaluation: `find_slices` on the concrete scene separates the two height bands
(non-detections keep `-1`). -/
example : sliceIds demoKern demoPrms demoScene =
    .ok [0, 0, 0, -1, 0, 0, 1, 0, 0, 0, 1, 1, -1, 1, 1, 0, 1, -1, 1, 1] := by
  decide +kernel

/-
The layers message of the concrete run is "SCT009 SCT029" (two layers).  This is an interpreter
evaluation (`#eval`, checked below by `#guard_msgs`), not a kernel-checked statement: `decide +kernel`,
`decide` and `rfl` all get stuck on `List.mergeSort` (well-founded recursion, used by the model in
`percentile` and `uniqueSorted`), which does not reduce in the kernel.
-/
/-- info: some "SCT009 SCT029" -/
#guard_msgs in
#eval (run demoKern demoPrms demoScene).toOption.map fun c =>
  metarMsg demoPrms.msa c.flag (nWhich (c.lids.getD [])) (c.layers.getD [])

end Ampy
