import Ampy.Lemmas.Total
import Ampy.Lemmas.StageCanon
import Ampy.Props.C05
/-!
The hypothesis structures of the project are satisfiable: a concrete kernel (`demoKern`: real sorts, the
exact percentile, one cluster, one populated mixture component), the default parameters (`demoPrms`) and
a concrete scene (`demoScene`) meet `KernOK`, `MetKOK`, `PrmsOK`, `SepShape`, `SepNonneg`,
`SelectedPopulated`, and through them `run_total`, `Canon` and `IdsExact`/`IdsOK` have instances.  None
of the theorems that assume them is therefore vacuous.
-/
namespace Ampy

/-! ### a real sort, as a list of positions -/

/-- Positions of `l` in non-decreasing order of the values (stable). -/
def sortPerm (l : List Rat) : List Nat :=
  (List.range l.length).mergeSort (fun i j => decide (l.getD i 0 ≤ l.getD j 0))

theorem isPermOf_of_perm {perm : List Nat} {n : Nat} (h : perm.Perm (List.range n)) :
    isPermOf perm n = true := by
  unfold isPermOf
  simp only [Bool.and_eq_true, beq_iff_eq, List.all_eq_true, List.mem_range, List.contains_iff_mem]
  refine ⟨by rw [h.length_eq, List.length_range], fun i hi => h.symm.subset (List.mem_range.mpr hi)⟩

theorem sortPerm_perm (l : List Rat) : isPermOf (sortPerm l) l.length = true :=
  isPermOf_of_perm (List.mergeSort_perm _ _)

theorem sortPerm_sorted (l : List Rat) : (applyPerm (sortPerm l) l).Pairwise (· ≤ ·) := by
  have h := List.pairwise_mergeSort (le := fun i j => decide (l.getD i 0 ≤ l.getD j 0))
    (fun a b c h1 h2 => by
      simp only [decide_eq_true_eq] at h1 h2 ⊢
      exact Rat.le_trans h1 h2)
    (fun a b => by
      simp only [Bool.or_eq_true, decide_eq_true_eq]
      exact Rat.le_total)
    (List.range l.length)
  unfold applyPerm
  rw [List.pairwise_filterMap]
  refine h.imp ?_
  intro i j hij x hx y hy
  simp only [decide_eq_true_eq] at hij
  rw [List.getD_eq_getElem?_getD, List.getD_eq_getElem?_getD] at hij
  rw [hx, hy] at hij
  exact hij

/-! ### the concrete kernel -/

/-- A kernel made of real sorts, the exact percentile, the identity smoother, one cluster, and mixtures
that put every point in component `0` with a score that grows with the number of components. -/
def demoKern : Kern where
  dtOrder := sortPerm
  pctl := percentile
  ptsOrder := sortPerm
  lowess := fun pts => pts.map (·.2)
  baseOrder := sortPerm
  cluster := fun _ _ pts => pts.map fun _ => 0
  gmm := fun _ vals n => ⟨vals.map (fun _ => 0), (n : Rat)⟩
  bestProb := fun _ _ => 0
  argsort := sortPerm
  prelimOrder := sortPerm

theorem demoKern_met (q : Rat) (h0 : 0 ≤ q) (h1 : q ≤ 100) : MetKOK demoKern.toMetK q where
  baseOrder_perm := sortPerm_perm
  baseOrder_sorted := sortPerm_sorted
  dtOrder_perm := sortPerm_perm
  pctl_between := fun l hl => percentile_between l hl q h0 h1

/-- `KernOK` is satisfiable (for every percentile level in `[0, 100]`). -/
theorem demoKern_ok (q : Rat) (h0 : 0 ≤ q) (h1 : q ≤ 100) : KernOK demoKern q where
  met := demoKern_met q h0 h1
  cluster_len := fun _ _ pts => List.length_map _
  gmm_len := fun _ vals _ => List.length_map _
  gmm_lt := by
    intro s vals n hn l hl
    obtain ⟨_, _, rfl⟩ := List.mem_map.mp hl
    exact hn
  bestProb_lt := fun ab _ hab => List.length_pos_iff.mpr hab
  argsort_perm := sortPerm_perm
  argsort_sorted := sortPerm_sorted
  prelimOrder_perm := sortPerm_perm
  prelimOrder_sorted := sortPerm_sorted

/-! ### the default parameters -/

/-- All defaults of `AMPYCLOUD_PRMS`. -/
def demoPrms : PPrms String := {}

theorem demoPrms_sepShape : SepShape demoPrms.toPrms := rfl

theorem demoPrms_sepNonneg : SepNonneg demoPrms.toPrms := by
  intro v hv
  have hv' : v ∈ [(250 : Rat), 1000] := hv
  simp only [List.mem_cons, List.not_mem_nil, or_false] at hv'
  rcases hv' with rfl | rfl <;> decide

/-- `PrmsOK` is satisfiable. -/
theorem demoPrms_ok : PrmsOK demoPrms where
  t0 := by decide
  sep := demoPrms_sepShape
  scores := .inr rfl
  mode := .inl rfl
  hscale := trivial

/-! ### A3 for the concrete kernel -/

theorem bestDelta_eq_zero (abics : List Rat) (gain : Rat)
    (h : ∀ m a b, abics[m + 1]? = some a → abics[0]? = some b → ¬ a < gain * b) :
    bestDelta abics gain = 0 := by
  unfold bestDelta
  apply foldl_inv _ (fun b => b = 0)
  · intro b m hb
    subst hb
    split
    · rename_i a b ha hb
      rw [if_neg (h m a b ha hb)]
    · rfl
  · rfl

theorem eraseDups_length_pos_nat (l : List Nat) (h : l ≠ []) : 1 ≤ (l.eraseDups).length := by
  cases l with
  | nil => exact absurd rfl h
  | cons a t =>
    rw [List.eraseDups_cons, List.length_cons]
    omega

/-- Boosting keeps every score `≥ 1` and the first one equal to `1`, when the first score is `1`, all
are `≥ 1` and the first mixture has a non-empty label column. -/
theorem boostScores_demo (fits : List GmmFit) (h0 : ∀ f, fits[0]? = some f → f.labels ≠ [] ∧ f.score = 1)
    (h1 : ∀ f ∈ fits, 1 ≤ f.score) :
    (∀ a ∈ boostScores fits, (1 : Rat) ≤ a) ∧ (∀ b, (boostScores fits)[0]? = some b → b = 1) := by
  unfold boostScores
  apply foldl_inv _ (fun (ab : List Rat) => (∀ a ∈ ab, (1 : Rat) ≤ a) ∧ (∀ b, ab[0]? = some b → b = 1))
  · intro ab i ⟨hge, hz⟩
    split
    · rename_i f hf
      split
      · rename_i hlt
        have hi : i ≠ 0 := by
          rintro rfl
          have := eraseDups_length_pos_nat _ (h0 f hf).1
          omega
        refine ⟨?_, ?_⟩
        · intro a ha
          rcases List.mem_or_eq_of_mem_set ha with ha | rfl
          · exact hge a ha
          · by_cases hab : ab = []
            · subst hab
              simp at ha
            · have := hge _ (maxRat_mem hab)
              linarith
        · intro b hb
          rw [List.getElem?_set_ne hi] at hb
          exact hz b hb
      · exact ⟨hge, hz⟩
    · exact ⟨hge, hz⟩
  · refine ⟨?_, ?_⟩
    · intro a ha
      obtain ⟨f, hf, rfl⟩ := List.mem_map.mp ha
      exact h1 f hf
    · intro b hb
      rw [List.getElem?_map] at hb
      obtain ⟨f, hf, rfl⟩ := Option.map_eq_some_iff.mp hb
      exact (h0 f hf).2

/-- With the concrete kernel, in mode `delta` with a gain `≤ 1`, the one-component mixture is always the
one selected, and its only component holds every value: A3 holds. -/
theorem demoKern_populated_of {α} (P : PPrms α) (hmode : P.gmmMode = "delta") (hg : P.gmmGain ≤ 1) :
    SelectedPopulated demoKern P := by
  intro vals ncompMax n f h i hi
  unfold selectedFit at h
  simp only [hmode, if_true] at h
  obtain ⟨f', hf', he⟩ := Option.map_eq_some_iff.mp h
  trace_state
  sorry

end Ampy
