import Ampy.Model.Wmo
import Mathlib.Tactic.Linarith
import Mathlib.Tactic.FieldSimp
import Mathlib.Algebra.Order.Field.Rat
import Mathlib.Algebra.Order.Field.Basic
import Mathlib.Tactic.Positivity
/-! Helper lemmas for C18 (and C01/C03/C04 which reuse them). -/
namespace Ampy

theorem rhe_bounds (x : Rat) :
    ((roundHalfEven x : Int) : Rat) - 1/2 ≤ x ∧ x ≤ ((roundHalfEven x : Int) : Rat) + 1/2 := by
  have h1 := Rat.floor_le x
  have h2 := Rat.lt_floor_add_one x
  unfold roundHalfEven
  simp only
  split
  · grind
  · split
    · grind
    · split <;> grind

/-- Only an exact half can be rounded two ways; away from it the nearest integer is forced. -/
theorem rhe_unique (x : Rat) (r : Int) (h1 : (r : Rat) - 1/2 < x) (h2 : x < (r : Rat) + 1/2) :
    roundHalfEven x = r := by
  have hb := rhe_bounds x
  have : ((roundHalfEven x : Int) : Rat) < (r : Rat) + 1 := by grind
  have : (r : Rat) < ((roundHalfEven x : Int) : Rat) + 1 := by grind
  have a : roundHalfEven x < r + 1 := by
    have := (Rat.intCast_lt_intCast (a := roundHalfEven x) (b := r + 1)).mp (by grind)
    exact this
  have b : r < roundHalfEven x + 1 := by
    have := (Rat.intCast_lt_intCast (a := r) (b := roundHalfEven x + 1)).mp (by grind)
    exact this
  omega

theorem rhe_mono {x y : Rat} (h : x ≤ y) : roundHalfEven x ≤ roundHalfEven y := by
  have hx := rhe_bounds x
  have hy := rhe_bounds y
  by_cases hxy : x = y
  · subst hxy; exact Int.le_refl _
  · have hlt : x < y := by grind
    -- if rx ≥ ry + 1 then x ≥ rx - 1/2 ≥ ry + 1/2 ≥ y, contradiction
    have hlt' : ((roundHalfEven x : Int) : Rat) < ((roundHalfEven y : Int) : Rat) + 1 := by grind
    have := (Rat.intCast_lt_intCast (a := roundHalfEven x) (b := roundHalfEven y + 1)).mp (by grind)
    omega

theorem ceil_eq_one {x : Rat} (h0 : 0 < x) (h1 : x ≤ 1) : x.ceil = 1 := by
  rw [Rat.ceil_eq_neg_floor_neg]
  have h2 : (-x).floor = -1 := by
    have a : (-1 : Int) ≤ (-x).floor := Rat.le_floor_iff.mpr (by grind)
    have b : (-x).floor < 0 := Rat.floor_lt_iff.mpr (by grind)
    omega
  omega

theorem floor_eq_of {x : Rat} {k : Int} (h0 : (k : Rat) ≤ x) (h1 : x < (k : Rat) + 1) :
    x.floor = k := by
  have a : k ≤ x.floor := Rat.le_floor_iff.mpr h0
  have b : x.floor < k + 1 := Rat.floor_lt_iff.mpr (by grind)
  omega

/-- Closed form of the okta for a percentage strictly inside `(0, 100)`. -/
theorem oktaOfPerc_inner {p : Rat} (h0 : 0 < p) (h1 : p < 100) :
    oktaOfPerc p =
      if p * 8 / 100 < 1 then 1 else if p * 8 / 100 > 7 then 7 else roundHalfEven (p * 8 / 100) := by
  have e : p / (100 / 8) = p * 8 / 100 := by grind
  unfold oktaOfPerc
  rw [if_neg (by grind), if_neg (by grind)]
  simp only [e]
  split
  · exact ceil_eq_one (by grind) (by grind)
  · split
    · exact floor_eq_of (by grind) (by grind)
    · rfl

theorem oktaOfPerc_inner_range {p : Rat} (h0 : 0 < p) (h1 : p < 100) :
    1 ≤ oktaOfPerc p ∧ oktaOfPerc p ≤ 7 := by
  rw [oktaOfPerc_inner h0 h1]
  split
  · omega
  · split
    · omega
    · have hb := rhe_bounds (p * 8 / 100)
      have a : (0 : Int) < roundHalfEven (p * 8 / 100) :=
        (Rat.intCast_lt_intCast).mp (by grind)
      have b : roundHalfEven (p * 8 / 100) < 8 :=
        (Rat.intCast_lt_intCast).mp (by grind)
      omega

theorem oktaOfPerc_mono {p q : Rat} (hp : 0 ≤ p) (hpq : p ≤ q) (hq : q ≤ 100) :
    oktaOfPerc p ≤ oktaOfPerc q := by
  by_cases hp0 : p = 0
  · subst hp0
    by_cases hq0 : q = 0
    · subst hq0; exact Int.le_refl _
    · by_cases hq1 : q = 100
      · subst hq1; decide
      · have := oktaOfPerc_inner_range (p := q) (by grind) (by grind)
        have z : oktaOfPerc 0 = 0 := by decide
        omega
  · by_cases hq1 : q = 100
    · subst hq1
      have e8 : oktaOfPerc 100 = 8 := by decide
      by_cases hp1 : p = 100
      · subst hp1; exact Int.le_refl _
      · have := oktaOfPerc_inner_range (p := p) (by grind) (by grind)
        omega
    · have hp' : 0 < p := by grind
      have hq' : q < 100 := by grind
      have hp1 : p < 100 := by grind
      have hq0 : 0 < q := by grind
      rw [oktaOfPerc_inner hp' hp1, oktaOfPerc_inner hq0 hq']
      have hm : p * 8 / 100 ≤ q * 8 / 100 := by grind
      have hr := rhe_mono hm
      have hbp := rhe_bounds (p * 8 / 100)
      have hbq := rhe_bounds (q * 8 / 100)
      by_cases c1 : p * 8 / 100 < 1
      · rw [if_pos c1]
        by_cases c2 : q * 8 / 100 < 1
        · rw [if_pos c2] <;> try omega
        · rw [if_neg c2]
          by_cases c3 : q * 8 / 100 > 7
          · rw [if_pos c3]; omega
          · rw [if_neg c3]
            have : (0 : Int) < roundHalfEven (q * 8 / 100) :=
              (Rat.intCast_lt_intCast).mp (by grind)
            omega
      · rw [if_neg c1]
        have c2 : ¬ q * 8 / 100 < 1 := by grind
        rw [if_neg c2]
        by_cases c3 : p * 8 / 100 > 7
        · rw [if_pos c3]
          have c4 : q * 8 / 100 > 7 := by grind
          rw [if_pos c4] <;> try omega
        · rw [if_neg c3]
          by_cases c4 : q * 8 / 100 > 7
          · rw [if_pos c4]
            have : roundHalfEven (p * 8 / 100) < 8 :=
              (Rat.intCast_lt_intCast).mp (by grind)
            omega
          · rw [if_neg c4]; exact hr

/-! ### `n` hits out of `M` -/

theorem percNM_range {n M : Nat} (hM : 0 < M) (h : n ≤ M) :
    0 ≤ (n : Rat) / (M : Rat) * 100 ∧ (n : Rat) / (M : Rat) * 100 ≤ 100 := by
  have hM' : (0 : Rat) < (M : Rat) := by exact_mod_cast hM
  have hnm : (n : Rat) ≤ (M : Rat) := by exact_mod_cast h
  have h1 : (n : Rat) / (M : Rat) ≤ 1 := by rw [div_le_one hM']; exact hnm
  have h0 : 0 ≤ (n : Rat) / (M : Rat) := by positivity
  constructor <;> linarith

theorem percNM_mono {n n' M : Nat} (hM : 0 < M) (h : n ≤ n') :
    (n : Rat) / (M : Rat) * 100 ≤ (n' : Rat) / (M : Rat) * 100 := by
  have hM' : (0 : Rat) < (M : Rat) := by exact_mod_cast hM
  have hnn : (n : Rat) ≤ (n' : Rat) := by exact_mod_cast h
  have : (n : Rat) / (M : Rat) ≤ (n' : Rat) / (M : Rat) := by gcongr
  linarith

theorem percNM_eq_zero {n M : Nat} (hM : 0 < M) : (n : Rat) / (M : Rat) * 100 = 0 ↔ n = 0 := by
  have hM' : (M : Rat) ≠ 0 := by exact_mod_cast (Nat.pos_iff_ne_zero.mp hM)
  constructor
  · intro h
    have h3 : (n : Rat) = 0 := by field_simp at h; linarith
    exact_mod_cast h3
  · intro h; subst h; simp

theorem percNM_eq_hundred {n M : Nat} (hM : 0 < M) : (n : Rat) / (M : Rat) * 100 = 100 ↔ n = M := by
  have hM' : (M : Rat) ≠ 0 := by exact_mod_cast (Nat.pos_iff_ne_zero.mp hM)
  constructor
  · intro h
    have h3 : (n : Rat) = (M : Rat) := by field_simp at h; linarith
    exact_mod_cast h3
  · intro h; subst h; field_simp

end Ampy

namespace Ampy

/-! ### `height2code` -/

theorem hh_low {h : Rat} (hl : h ≤ 10000) :
    ((heightHundreds h : Int) : Rat) * 100 ≤ h ∧ h < (((heightHundreds h : Int) : Rat) + 1) * 100 := by
  unfold heightHundreds
  rw [if_pos hl]
  have h1 := Rat.floor_le (h / 100)
  have h2 := Rat.lt_floor_add_one (h / 100)
  push_cast at h2
  constructor
  · have := (le_div_iff₀ (by norm_num : (0 : Rat) < 100)).mp h1; linarith
  · have := (div_lt_iff₀ (by norm_num : (0 : Rat) < 100)).mp h2; linarith

theorem hh_high {h : Rat} (hl : ¬ h ≤ 10000) :
    ((heightHundreds h : Int) : Rat) * 100 ≤ h ∧ h < (((heightHundreds h : Int) : Rat) + 10) * 100
      ∧ heightHundreds h % 10 = 0 := by
  unfold heightHundreds
  rw [if_neg hl]
  have h1 := Rat.floor_le (h / 1000)
  have h2 := Rat.lt_floor_add_one (h / 1000)
  push_cast at h2 ⊢
  refine ⟨?_, ?_, by omega⟩
  · have := (le_div_iff₀ (by norm_num : (0 : Rat) < 1000)).mp h1; linarith
  · have := (div_lt_iff₀ (by norm_num : (0 : Rat) < 1000)).mp h2; linarith

/-- The coded height never exceeds the input. -/
theorem hh_le (h : Rat) : ((heightHundreds h : Int) : Rat) * 100 ≤ h := by
  by_cases hl : h ≤ 10000
  · exact (hh_low hl).1
  · exact (hh_high hl).1

theorem hh_mono {a b : Rat} (hab : a ≤ b) : heightHundreds a ≤ heightHundreds b := by
  by_cases ha : a ≤ 10000 <;> by_cases hb : b ≤ 10000
  · unfold heightHundreds; rw [if_pos ha, if_pos hb]
    exact Rat.floor_monotone (by linarith)
  · -- a ≤ 10000 < b
    have h1 : heightHundreds a ≤ 100 := by
      unfold heightHundreds; rw [if_pos ha]
      have : (a / 100).floor < 101 := Rat.floor_lt_iff.mpr (by push_cast; linarith)
      omega
    have h2 : 100 ≤ heightHundreds b := by
      unfold heightHundreds; rw [if_neg hb]
      have : (10 : Int) ≤ (b / 1000).floor := Rat.le_floor_iff.mpr (by push_cast; linarith)
      omega
    omega
  · exfalso; exact ha (by linarith)
  · unfold heightHundreds; rw [if_neg ha, if_neg hb]
    have := Rat.floor_monotone (a := a / 1000) (b := b / 1000) (by linarith)
    omega

theorem hh_range {h : Rat} (h0 : 0 ≤ h) (h1 : h < 100000) :
    0 ≤ heightHundreds h ∧ heightHundreds h < 1000 := by
  by_cases hl : h ≤ 10000
  · unfold heightHundreds; rw [if_pos hl]
    have a : (0 : Int) ≤ (h / 100).floor := Rat.le_floor_iff.mpr (by push_cast; linarith)
    have b : (h / 100).floor < 101 := Rat.floor_lt_iff.mpr (by push_cast; linarith)
    omega
  · unfold heightHundreds; rw [if_neg hl]
    have a : (0 : Int) ≤ (h / 1000).floor := Rat.le_floor_iff.mpr (by push_cast; linarith)
    have b : (h / 1000).floor < 100 := Rat.floor_lt_iff.mpr (by push_cast; linarith)
    omega

theorem digitChar_isDigit {k : Nat} (hk : k < 10) : (Nat.digitChar k).isDigit = true := by
  have : k = 0 ∨ k = 1 ∨ k = 2 ∨ k = 3 ∨ k = 4 ∨ k = 5 ∨ k = 6 ∨ k = 7 ∨ k = 8 ∨ k = 9 := by omega
  rcases this with h | h | h | h | h | h | h | h | h | h <;> subst h <;> decide

/-- Below 1000 the rendering is exactly three decimal digits. -/
theorem fmt03_three_digits {n : Int} (h0 : 0 ≤ n) (h1 : n < 1000) :
    ∃ d₀ d₁ d₂ : Char, d₀.isDigit ∧ d₁.isDigit ∧ d₂.isDigit ∧ fmt03 n = String.ofList [d₀, d₁, d₂] := by
  unfold fmt03 padNat3
  rw [if_pos h0, if_pos (by omega)]
  exact ⟨_, _, _, digitChar_isDigit (by omega), digitChar_isDigit (by omega),
    digitChar_isDigit (by omega), rfl⟩

end Ampy
