import Ampy.Spec.Checks
import Ampy.Lemmas.Msg
import Ampy.Lemmas.Base
import Batteries.Data.String.Lemmas
import Std.Data.String.ToNat

/-!
# Soundness of the monitor predicates `Spec.c01` / `Spec.c02` on the model's own message

If the implementation's table satisfies `TableOK` and its message is the model's `metarMsg`, the
run-time monitor predicates of `Ampy/Spec/Checks.lean` raise nothing:

* `Ampy.spec_c02_sound : Spec.c02 msa flag t (metarMsg msa flag t.length t) = []`
* `Ampy.spec_c01_sound : Spec.c01 msa t (metarMsg msa flag t.length t) = []`

Both are proved unconditionally (only `TableOK t`): no bridging hypothesis, no weakened clause, no
counterexample found -- every clause of both predicates holds, so neither can raise a false alarm
on a `TableOK` table carrying the model's message.

The `String.splitOn` bridge is proved in full generality (`Ampy.SpecB.splitOn_intercalate`):
`String.splitOn` is the legacy `String.splitOnAux` over raw byte positions; for the one-character
separator `" "` it is shown equal to `List.splitOn ' '` on `toList` (`splitOn_space`, same
technique as Batteries' `splitAux_of_valid`; Batteries leaves `splitOn` as a TODO), then core's
`List.splitOn_intercalate` applies.  `String.toNat?` on three digit characters is handled with
`Std.Data.String.ToNat` (`String.isNat_of_isDigit`, `String.toNat?_eq_some_ofDigitChars`).

Helper lemmas live in `Ampy.SpecB` to avoid name clashes with other files.
-/
namespace Ampy.SpecB

/-! ### `String.splitOn " "` undoes `" ".intercalate` -/

section Split
open String

private theorem get_sp : Pos.Raw.get " " 0 = ' ' := by decide
private theorem next_sp : Pos.Raw.next " " 0 = ⟨1⟩ := by decide
private theorem end_sp : " ".rawEndPos = ⟨1⟩ := by decide
private theorem size_sp : (' ').utf8Size = 1 := by decide

/-- `String.splitOnAux` with the one-character separator `" "`, at valid positions, is
`List.splitOnP (· == ' ')` on the characters (the analogue of Batteries' `splitAux_of_valid`). -/
theorem splitOnAux_space_of_valid (l m r : List Char) (acc : List String) :
    String.splitOnAux (String.ofList (l ++ m ++ r)) " " ⟨utf8Len l⟩ ⟨utf8Len l + utf8Len m⟩ 0 acc =
      acc.reverse ++ (List.splitOnPPrepend (· == ' ') r m.reverse).map String.ofList := by
  unfold String.splitOnAux
  simp only [List.append_assoc, atEnd_iff, rawEndPos_ofList, utf8Len_append, Pos.Raw.mk_le_mk,
    Nat.add_le_add_iff_left, (by omega : utf8Len m + utf8Len r ≤ utf8Len m ↔ utf8Len r = 0),
    utf8Len_eq_zero, List.reverse_cons]
  split
  · subst r
    simpa using extract_of_valid l m []
  · obtain ⟨c, r, rfl⟩ := r.exists_cons_of_ne_nil ‹_›
    simp only [by
      simpa [-ofList_append] using
        (⟨get_of_valid (l ++ m) (c :: r), next_of_valid (l ++ m) c r,
            extract_of_valid l m (c :: r)⟩ :
          _ ∧ _ ∧ _)]
    simp only [get_sp, next_sp, end_sp, Pos.Raw.unoffsetBy, Pos.Raw.byteIdx_zero, Nat.sub_zero,
      Pos.Raw.mk_le_mk, Nat.le_refl, if_true]
    split <;> rename_i h
    · have hc : c = ' ' := by simpa using h
      subst hc
      have e := extract_of_valid l m (' ' :: r)
      simp only [List.append_assoc] at e
      simp only [size_sp, Nat.add_sub_cancel, e]
      simpa [Nat.add_assoc, List.splitOnPPrepend_cons_eq_if, size_sp] using
        splitOnAux_space_of_valid (l++m++[' ']) [] r ((ofList m)::acc)
    · have e := next_of_valid (l ++ m) c r
      simp only [List.append_assoc, utf8Len_append] at e
      rw [e]
      simpa [List.splitOnPPrepend_cons_eq_if, h, Nat.add_assoc] using
        splitOnAux_space_of_valid l (m++[c]) r acc
termination_by r.length

/-- `s.splitOn " "` is `List.splitOn ' '` on the characters. -/
theorem splitOn_space (s : String) : s.splitOn " " = (s.toList.splitOn ' ').map String.ofList := by
  have := splitOnAux_space_of_valid [] [] s.toList []
  simpa [String.splitOn, List.splitOn_eq_splitOnP] using this

/-- The bridge: splitting the space-joined message gives the groups back. -/
theorem splitOn_intercalate (gs : List String) (hne : gs ≠ []) (hns : ∀ g ∈ gs, ' ' ∉ g.toList) :
    (" ".intercalate gs).splitOn " " = gs := by
  rw [splitOn_space]
  have : (" ".intercalate gs).toList = [' '].intercalate (gs.map String.toList) := by
    simp [String.toList_intercalate]
  rw [this, List.splitOn_intercalate]
  · simp
  · simpa using hns
  · simpa using hne

end Split

/-! ### Shape of the codes of reported rows -/

theorem isGroup_no_space {g : String} (h : IsGroup g) : ' ' ∉ g.toList := by
  obtain ⟨p, hp, d0, d1, d2, h0, h1, h2, rfl⟩ := h
  have n0 : d0 ≠ ' ' := by rintro rfl; simp at h0
  have n1 : d1 ≠ ' ' := by rintro rfl; simp at h1
  have n2 : d2 ≠ ' ' := by rintro rfl; simp at h2
  simp only [List.mem_cons, List.not_mem_nil, or_false] at hp
  rcases hp with rfl | rfl | rfl | rfl <;>
    simp [String.toList_append, n0.symm, n1.symm, n2.symm]

theorem isGroupB_of_isGroup {g : String} (h : IsGroup g) : isGroupB g = true := by
  obtain ⟨p, hp, d0, d1, d2, h0, h1, h2, rfl⟩ := h
  simp only [List.mem_cons, List.not_mem_nil, or_false] at hp
  rcases hp with rfl | rfl | rfl | rfl <;>
    simp [isGroupB, String.toList_append, h0, h1, h2]

/-- What the monitor's `groupsOf` extracts from the model's message: the codes of the reported rows. -/
theorem groupsOf_msg (msa : Option Rat) (flag : Bool) (t : Table) (h : TableOK t) :
    Spec.groupsOf (metarMsg msa flag t.length t) = (reported msa t).map (·.code) := by
  by_cases hr : reported msa t = []
  · rw [hr]
    have : metarMsg msa flag t.length t = "NCD" ∨ metarMsg msa flag t.length t = "NSC" := by
      by_cases ht : t = []
      · subst ht
        cases flag <;> simp [metarMsg, ncdOrNsc]
      · rw [msg_rep_nil ht hr]
        split
        · exact Or.inr rfl
        · cases flag <;> simp [ncdOrNsc]
    simp [Spec.groupsOf, this]
  · obtain ⟨e, h6⟩ := msg_rep_ne (flag := flag) h hr
    have hne := len3_ne h6
    unfold Spec.groupsOf
    rw [if_neg (not_or.mpr hne), e]
    apply splitOn_intercalate
    · simpa using hr
    · intro g hg
      obtain ⟨r, hr', rfl⟩ := List.mem_map.mp hg
      exact isGroup_no_space (rep_groups h r hr')


/-! ### C02 -/

theorem c02_lowest (msa : Option Rat) (t : Table) (h : TableOK t) :
    Spec.headCodeIs (cloudBelow msa t).head? ((reported msa t).map (·.code)).head? = true := by
  by_cases hL : cloudBelow msa t = []
  · simp [hL, Spec.headCodeIs]
  · have := lowest_first msa t h hL
    obtain ⟨x, xs, hx⟩ := List.exists_cons_of_ne_nil hL
    rw [hx] at this ⊢
    simp only [List.head?_cons] at this ⊢
    simp [Spec.headCodeIs, List.head?_map, this]

theorem c02_ceiling (msa : Option Rat) (t : Table) (h : TableOK t) :
    Spec.containsCode (t.filter fun r => decide (r.okta ≥ 5) && belowMsa msa r.base).head?
      ((reported msa t).map (·.code)) = true := by
  cases hc : (t.filter fun r => decide (r.okta ≥ 5) && belowMsa msa r.base).head? with
  | none => rfl
  | some r =>
    have := ceiling_reported msa t h r hc
    simp only [Spec.containsCode, List.contains_eq_mem, decide_eq_true_eq]
    exact List.mem_map.mpr ⟨r, this, rfl⟩

theorem c02_layer_code (msa : Option Rat) (t : Table) :
    ((reported msa t).map (·.code)).all (fun g => t.any (·.code == g)) = true := by
  simp only [List.all_eq_true, List.any_eq_true]
  intro g hg
  obtain ⟨r, hr, rfl⟩ := List.mem_map.mp hg
  exact ⟨r, (List.mem_filter.mp hr).1, by simp⟩

theorem c02_ncd (msa : Option Rat) (flag : Bool) (t : Table) (h : TableOK t) :
    ((metarMsg msa flag t.length t == "NCD") ==
      (t.all (fun r => decide (r.okta ≤ 0)) && !flag)) = true := by
  have := ncd_iff msa flag t h
  rw [beq_iff_eq, Bool.eq_iff_iff]
  simp only [beq_iff_eq, this, Bool.and_eq_true, List.all_eq_true, decide_eq_true_eq,
    Bool.not_eq_true']

theorem c02_nsc (msa : Option Rat) (flag : Bool) (t : Table) (h : TableOK t) :
    ((metarMsg msa flag t.length t == "NSC") ==
      ((cloudBelow msa t).isEmpty &&
        ((t.any fun r => decide (r.okta ≥ 1) && !(belowMsa msa r.base)) || flag))) = true := by
  have := nsc_iff msa flag t h
  rw [beq_iff_eq, Bool.eq_iff_iff]
  simp only [beq_iff_eq, this, Bool.and_eq_true, Bool.or_eq_true, List.any_eq_true,
    decide_eq_true_eq, Bool.not_eq_true', List.isEmpty_iff]

end Ampy.SpecB

namespace Ampy
open SpecB

theorem spec_c02_sound (msa : Option Rat) (flag : Bool) (t : Table) (h : TableOK t) :
    Spec.c02 msa flag t (metarMsg msa flag t.length t) = [] := by
  simp only [Spec.c02, groupsOf_msg msa flag t h, c02_lowest msa t h, c02_ceiling msa t h,
    c02_layer_code msa t, c02_ncd msa flag t h, c02_nsc msa flag t h, Spec.fails, if_true,
    List.append_nil]



end Ampy

namespace Ampy.SpecB

/-! ### C01 -/

/-- The monitor reads three digit characters back as the number they were formatted from. -/
theorem digitsVal_padNat3 {k : Nat} (hk : k < 1000) : Spec.digitsVal (padNat3 k) = some k := by
  have e : padNat3 k = String.ofList [Nat.digitChar (k / 100), Nat.digitChar (k / 10 % 10),
      Nat.digitChar (k % 10)] := by
    unfold padNat3; rw [if_pos hk]
  have d0 := digitChar_isDigit (k := k / 100) (by omega)
  have d1 := digitChar_isDigit (k := k / 10 % 10) (by omega)
  have d2 := digitChar_isDigit (k := k % 10) (by omega)
  have hnat : (padNat3 k).isNat = true := by
    apply String.isNat_of_isDigit
    · rw [e]; simp
    · rw [e]; simp [d0, d1, d2]
  have hv : (padNat3 k).toNat? = some k := by
    rw [String.toNat?_eq_some_ofDigitChars hnat, e, String.toList_ofList]
    have f0 : (Nat.digitChar (k / 100) != '_') = true := by
      rw [bne_iff_ne]; rintro h; rw [h] at d0; simp at d0
    have f1 : (Nat.digitChar (k / 10 % 10) != '_') = true := by
      rw [bne_iff_ne]; rintro h; rw [h] at d1; simp at d1
    have f2 : (Nat.digitChar (k % 10) != '_') = true := by
      rw [bne_iff_ne]; rintro h; rw [h] at d2; simp at d2
    simp only [List.filter_cons, f0, f1, f2, if_true, List.filter_nil]
    rw [Nat.ofDigitChars_cons_digitChar_of_lt_ten (by omega),
      Nat.ofDigitChars_cons_digitChar_of_lt_ten (by omega),
      Nat.ofDigitChars_cons_digitChar_of_lt_ten (by omega), Nat.ofDigitChars_nil]
    congr 1
    omega
  unfold Spec.digitsVal
  rw [hv, e]
  simp [d0, d1, d2]

theorem prefix_length {p : String} (hp : p ∈ ["FEW", "SCT", "BKN", "OVC"]) : p.toList.length = 3 := by
  simp only [List.mem_cons, List.not_mem_nil, or_false] at hp
  rcases hp with rfl | rfl | rfl | rfl <;> rfl

theorem drop3_code {p x : String} (hp : p ∈ ["FEW", "SCT", "BKN", "OVC"]) :
    String.ofList ((p ++ x).toList.drop 3) = x := by
  rw [String.toList_append, List.drop_append_of_le_length (by have := prefix_length hp; omega),
    List.drop_of_length_le (by have := prefix_length hp; omega)]
  simp

theorem take3_code {p x : String} (hp : p ∈ ["FEW", "SCT", "BKN", "OVC"]) :
    String.ofList ((p ++ x).toList.take 3) = p := by
  rw [String.toList_append, List.take_append_of_le_length (by have := prefix_length hp; omega),
    List.take_of_length_le (by have := prefix_length hp; omega)]
  simp

/-- Shape of the code of a reported row. -/
theorem rep_code_shape {msa : Option Rat} {t : Table} (h : TableOK t) {r : Row}
    (hr : r ∈ reported msa t) :
    ∃ p, okta2code (.int r.okta) = .ok (some p) ∧ p ∈ ["FEW", "SCT", "BKN", "OVC"] ∧
      r.code = p ++ padNat3 (heightHundreds r.base).toNat ∧ (heightHundreds r.base).toNat < 1000 ∧
      0 ≤ heightHundreds r.base := by
  obtain ⟨p, hp1, hp2, hc⟩ := rep_prefix msa t h r hr
  have hb := h.bases r (rep_facts h r hr).1
  have hh := hh_range hb.1 hb.2
  refine ⟨p, hp1, hp2, ?_, by omega, hh.1⟩
  rw [hc]
  simp only [height2code, fmt03]
  rw [if_pos hh.1]

theorem rep_digitsVal {msa : Option Rat} {t : Table} (h : TableOK t) {r : Row}
    (hr : r ∈ reported msa t) :
    Spec.digitsVal (String.ofList (r.code.toList.drop 3)) = some (heightHundreds r.base).toNat := by
  obtain ⟨p, _, hp, hc, hk, _⟩ := rep_code_shape h hr
  rw [hc, drop3_code hp, digitsVal_padNat3 hk]

theorem filterMap_map_of_some {α β γ} (f : β → Option γ) (c : α → β) (k : α → γ) :
    ∀ (l : List α), (∀ r ∈ l, f (c r) = some (k r)) → (l.map c).filterMap f = l.map k := by
  intro l
  induction l with
  | nil => intro _; rfl
  | cons a l ih =>
    intro hl
    rw [List.map_cons, List.filterMap_cons, hl a List.mem_cons_self]
    simp only [List.map_cons]
    rw [ih (fun r hr => hl r (List.mem_cons_of_mem _ hr))]

theorem c01_order (msa : Option Rat) (t : Table) (h : TableOK t) :
    sortedRat ((((reported msa t).map (·.code)).filterMap fun g =>
      Spec.digitsVal (String.ofList (g.toList.drop 3))).map fun (n : Nat) => (n : Rat)) = true := by
  have hfm : ((reported msa t).map (·.code)).filterMap (fun g =>
      Spec.digitsVal (String.ofList (g.toList.drop 3))) =
      (reported msa t).map (fun r => (heightHundreds r.base).toNat) := by
    apply filterMap_map_of_some
    intro r hr
    exact rep_digitsVal h hr
  rw [hfm]
  rw [sortedRat_iff, List.map_map, List.pairwise_map]
  have hb : ∀ r ∈ reported msa t, 0 ≤ heightHundreds r.base := by
    intro r hr
    obtain ⟨_, _, _, _, _, h0⟩ := rep_code_shape h hr
    exact h0
  have ho := rep_order msa t h
  refine List.Pairwise.imp_of_mem ?_ ho
  intro a b ha hb' hab
  have h1 := hb a ha
  have h2 := hb b hb'
  have : (heightHundreds a.base).toNat ≤ (heightHundreds b.base).toNat := by
    have := hab.2; omega
  simp only [Function.comp]
  exact_mod_cast this

theorem c01_grammar (msa : Option Rat) (flag : Bool) (t : Table) (h : TableOK t) :
    (metarMsg msa flag t.length t == "NCD" || metarMsg msa flag t.length t == "NSC" ||
      (decide (1 ≤ ((reported msa t).map (·.code)).length) &&
        decide (((reported msa t).map (·.code)).length ≤ 3) &&
        ((reported msa t).map (·.code)).all isGroupB)) = true := by
  by_cases hr : reported msa t = []
  · have : metarMsg msa flag t.length t = "NCD" ∨ metarMsg msa flag t.length t = "NSC" := by
      by_cases ht : t = []
      · subst ht
        cases flag <;> simp [metarMsg, ncdOrNsc]
      · rw [msg_rep_nil ht hr]
        split
        · exact Or.inr rfl
        · cases flag <;> simp [ncdOrNsc]
    rcases this with e | e <;> simp [e]
  · have hl := (msg_groups_are_rep msa flag t h hr).2
    have h1 : 1 ≤ (reported msa t).length := List.length_pos_iff.mpr hr
    have hall : ((reported msa t).map (·.code)).all isGroupB = true := by
      simp only [List.all_eq_true]
      intro g hg
      obtain ⟨r, hr', rfl⟩ := List.mem_map.mp hg
      exact isGroupB_of_isGroup (rep_groups h r hr')
    simp [hall, hl, h1]

theorem c01_prefix_ge {msa : Option Rat} {t : Table} (h : TableOK t) (i : Nat) (ps : List String)
    (hps : ∀ r ∈ reported msa t, r.okta ≥ 2 * (i : Int) + 1 → ∀ p,
      okta2code (.int r.okta) = .ok (some p) → p ∈ ps) :
    Spec.prefixIn ((reported msa t).map (·.code))[i]? ps = true := by
  rw [List.getElem?_map]
  cases hi : (reported msa t)[i]? with
  | none => rfl
  | some r =>
    obtain ⟨hlt, hget⟩ := List.getElem?_eq_some_iff.mp hi
    have hmem : r ∈ reported msa t := hget ▸ List.getElem_mem hlt
    have hok := rep_135 msa t h i hlt
    rw [hget] at hok
    obtain ⟨p, hp1, hp2, hc, _, _⟩ := rep_code_shape h hmem
    simp only [Option.map_some, Spec.prefixIn, List.contains_eq_mem, decide_eq_true_eq]
    rw [hc, take3_code hp2]
    exact hps r hmem hok p hp1

theorem c01_second (msa : Option Rat) (t : Table) (h : TableOK t) :
    Spec.prefixIn ((reported msa t).map (·.code))[1]? ["SCT", "BKN", "OVC"] = true := by
  apply c01_prefix_ge h 1
  intro r hr hok p hp
  have hb := (h.oktas r (rep_facts h r hr).1).2
  have : r.okta = 3 ∨ r.okta = 4 ∨ r.okta = 5 ∨ r.okta = 6 ∨ r.okta = 7 ∨ r.okta = 8 := by omega
  rcases this with e | e | e | e | e | e <;> rw [e] at hp <;>
    simp [okta2code, okta2codeInt] at hp <;> subst hp <;> simp

theorem c01_third (msa : Option Rat) (t : Table) (h : TableOK t) :
    Spec.prefixIn ((reported msa t).map (·.code))[2]? ["BKN", "OVC"] = true := by
  apply c01_prefix_ge h 2
  intro r hr hok p hp
  have hb := (h.oktas r (rep_facts h r hr).1).2
  have : r.okta = 5 ∨ r.okta = 6 ∨ r.okta = 7 ∨ r.okta = 8 := by omega
  rcases this with e | e | e | e <;> rw [e] at hp <;>
    simp [okta2code, okta2codeInt] at hp <;> subst hp <;> simp

theorem c01_listed (msa : Option Rat) (t : Table) (h : TableOK t) :
    (((reported msa t).map (·.code)).all fun g =>
      t.any fun r => r.code == g && decide (r.okta ≥ 1) && belowMsa msa r.base) = true := by
  simp only [List.all_eq_true, List.any_eq_true]
  intro g hg
  obtain ⟨r, hr, rfl⟩ := List.mem_map.mp hg
  obtain ⟨hm, _, hb, ho⟩ := rep_facts h r hr
  exact ⟨r, hm, by simp [hb, ho]⟩

end Ampy.SpecB

namespace Ampy
open SpecB

theorem spec_c01_sound (msa : Option Rat) (flag : Bool) (t : Table) (h : TableOK t) :
    Spec.c01 msa t (metarMsg msa flag t.length t) = [] := by
  simp only [Spec.c01, groupsOf_msg msa flag t h, c01_grammar msa flag t h, c01_order msa t h,
    c01_second msa t h, c01_third msa t h, c01_listed msa t h, Spec.fails, if_true,
    List.append_nil, beq_self_eq_true]

end Ampy
