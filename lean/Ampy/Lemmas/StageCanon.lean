import Ampy.Model.Stage
import Ampy.Lemmas.RunFacts
/-!
Lemmas behind C14: from a fresh chunk, any sequence of stage / query calls keeps the chunk in one of the
four canonical states (fresh, sliced, grouped, layered) of the slices-groups-layers run; a refused call
changes nothing; repeating a permitted call changes nothing; nothing but `AmpycloudError` is raised.
-/
namespace Ampy

/-- The canonical run from the fresh chunk `c0`. -/
structure Canon {α} [DecidableEq α] (K : Kern) (P : PPrms α) (c0 S1 S2 S3 : Chunk α) : Prop where
  fresh : c0.sids = none ∧ c0.gids = none ∧ c0.lids = none ∧ c0.slices = none ∧ c0.groups = none ∧ c0.layers = none
  h1 : findSlices K P c0 = .ok S1
  h2 : findGroups K P S1 = .ok S2
  h3 : findLayers K P S2 = .ok S3

/-- Membership in the four canonical states. -/
def IsCanon {α} (c0 S1 S2 S3 c : Chunk α) : Prop := c = c0 ∨ c = S1 ∨ c = S2 ∨ c = S3

/-- Why a call may be refused: a prerequisite is missing, or it would discard the layering. -/
def RefusalReason {α} (c : Chunk α) : Op → Prop
  | .findSlices => False
  | .findGroups => c.slices = none ∨ c.layers.isSome = true
  | .findLayers => c.groups = none
  | .metarize w => idsOf c w = none ∨ (w = .groups ∧ c.layers.isSome = true)
  | .metarMsg w => tableOf c w = none

namespace SC

section helpers
variable {α : Type} [DecidableEq α]

theorem metarize_slices_flag (K : MetK) (P : Prms α) (b b' : Bool) (data : List (Hit α)) (ids : List Int) :
    metarize K P .slices b data ids = metarize K P .slices b' data ids := by
  unfold metarize; simp

theorem metarize_layers_flag (K : MetK) (P : Prms α) (b b' : Bool) (data : List (Hit α)) (ids : List Int) :
    metarize K P .layers b data ids = metarize K P .layers b' data ids := by
  unfold metarize; simp

theorem metarize_groups_nil (K : MetK) (P : Prms α) (b b' : Bool) (data : List (Hit α)) (ids : List Int)
    (h : clusterIds ids = []) :
    metarize K P .groups b data ids = metarize K P .groups b' data ids := by
  unfold metarize; simp [h]

theorem find_cid (o : Table) (hnd : (o.map (·.cid)).Nodup) :
    ∀ (i : Nat) (h : i < o.length), o.find? (fun p => decide (p.cid = o[i].cid)) = some o[i] := by
  induction o with
  | nil => intro i h; simp at h
  | cons a t ih =>
    intro i h
    rw [List.map_cons, List.nodup_cons] at hnd
    cases i with
    | zero => simp
    | succ j =>
      have hj : j < t.length := by simpa using h
      have hne : ¬ a.cid = t[j].cid := by
        intro he
        exact hnd.1 (he ▸ List.mem_map_of_mem (List.getElem_mem hj))
      rw [List.find?_cons]
      simp only [List.getElem_cons_succ, hne, decide_false]
      exact ih hnd.2 j hj

theorem carry_eq (o t : Table) (hlen : o.length = t.length)
    (hcid : ∀ i (h1 : i < o.length) (h2 : i < t.length), t[i].cid = o[i].cid)
    (hnd : (o.map (·.cid)).Nodup)
    (hrow : ∀ i (h1 : i < o.length) (h2 : i < t.length), { t[i] with isolated := o[i].isolated } = o[i]) :
    carryIsolated (some o) t = o := by
  apply List.ext_getElem
  · simp [carryIsolated, hlen]
  · intro i h1 h2
    have h3 : i < t.length := hlen ▸ h2
    have hf := find_cid o hnd i h2
    rw [← hcid i h2 h3] at hf
    simp only [carryIsolated, List.getElem_map, hf]
    exact hrow i h2 h3

theorem carry_self (t : Table) (hnd : (t.map (·.cid)).Nodup) : carryIsolated (some t) t = t :=
  carry_eq t t rfl (fun _ _ _ => rfl) hnd (fun _ _ _ => rfl)

theorem setIsolated_length (t : Table) (iso : List Bool) : (setIsolated t iso).length = t.length := by
  rw [setIsolated_eq, List.length_mapIdx]

theorem setNcomp_length (t : Table) (nc : List Int) : (setNcomp t nc).length = t.length := by
  rw [setNcomp_eq, List.length_mapIdx]

theorem setIsolated_getElem (t : Table) (iso : List Bool) (i : Nat) (h : i < (setIsolated t iso).length)
    (h' : i < t.length) :
    (setIsolated t iso)[i] = { t[i] with isolated := some (iso.getD i true) } := by
  simp only [setIsolated_eq, List.getElem_mapIdx]

theorem carry_setIsolated (t : Table) (iso : List Bool) (hnd : (t.map (·.cid)).Nodup) :
    carryIsolated (some (setIsolated t iso)) t = setIsolated t iso := by
  apply carry_eq
  · exact setIsolated_length t iso
  · intro i h1 h2
    rw [setIsolated_getElem t iso i h1 h2]
  · rw [setIsolated_map_cid]; exact hnd
  · intro i h1 h2
    rw [setIsolated_getElem t iso i h1 h2]

theorem setIsolated_idem (t : Table) (iso : List Bool) :
    setIsolated (setIsolated t iso) iso = setIsolated t iso := by
  simp only [setIsolated_eq]
  apply List.ext_getElem?
  intro i
  simp only [List.getElem?_mapIdx, Option.map_map]
  cases t[i]? <;> rfl

theorem setNcomp_idem (t : Table) (nc : List Int) :
    setNcomp (setNcomp t nc) nc = setNcomp t nc := by
  simp only [setNcomp_eq]
  apply List.ext_getElem?
  intro i
  simp only [List.getElem?_mapIdx, Option.map_map]
  cases t[i]? <;> rfl


theorem closeInds_setIsolated (pad : Rat) (t : Table) (iso : List Bool) (i : Nat) :
    closeInds pad (setIsolated t iso) i = closeInds pad t i := by
  rw [setIsolated_eq]
  unfold closeInds
  simp only [List.getElem?_mapIdx, List.length_mapIdx]
  cases t[i]? with
  | none => rfl
  | some ri =>
    simp only [Option.map_some]
    apply List.filter_congr
    intro j _
    cases t[j]? <;> rfl

theorem bundlesOf_setIsolated (pad : Rat) (t : Table) (iso : List Bool) :
    bundlesOf pad (setIsolated t iso) = bundlesOf pad t := by
  unfold bundlesOf
  simp only [closeInds_setIsolated, setIsolated_length]

theorem setIsolated_cid (t : Table) (iso : List Bool) (i : Nat) :
    ((setIsolated t iso)[i]?).map (·.cid) = (t[i]?).map (·.cid) := by
  rw [setIsolated_eq, List.getElem?_mapIdx, Option.map_map]
  cases t[i]? <;> rfl

theorem setIsolated_fluff (t : Table) (iso : List Bool) (i : Nat) :
    ((setIsolated t iso)[i]?).map (·.fluff) = (t[i]?).map (·.fluff) := by
  rw [setIsolated_eq, List.getElem?_mapIdx, Option.map_map]
  cases t[i]? <;> rfl

omit [DecidableEq α] in
theorem groupBundle_setIsolated (K : Kern) (P : PPrms α) (data : List (Hit α)) (sids : List Int) (t : Table)
    (iso : List Bool) (b : List Nat) (g : List (Option Int)) :
    groupBundle K P data sids (setIsolated t iso) b g = groupBundle K P data sids t b g := by
  unfold groupBundle
  simp only [setIsolated_cid, setIsolated_fluff]

theorem groupIds_setIsolated (K : Kern) (P : PPrms α) (data : List (Hit α)) (sids : List Int) (t : Table)
    (iso : List Bool) :
    groupIds K P data sids (setIsolated t iso) = groupIds K P data sids t := by
  unfold groupIds
  simp only [bundlesOf_setIsolated, groupBundle_setIsolated]

omit [DecidableEq α] in
theorem layerStep_setNcomp (K : Kern) (P : PPrms α) (data : List (Hit α)) (gids : List Int) (t : Table)
    (nc : List Int) (st : List (Option Int) × List Int) (ind : Nat) :
    Lay.layerStep K P data gids (setNcomp t nc) st ind = Lay.layerStep K P data gids t st ind := by
  unfold Lay.layerStep
  rw [setNcomp_eq, List.getElem?_mapIdx]
  cases t[ind]? <;> rfl

theorem layerIds_setNcomp (K : Kern) (P : PPrms α) (data : List (Hit α)) (gids : List Int) (t : Table)
    (nc : List Int) :
    layerIds K P data gids (setNcomp t nc) = layerIds K P data gids t := by
  rw [Lay.layerIds_eq, Lay.layerIds_eq, setNcomp_length]
  have : Lay.layerStep K P data gids (setNcomp t nc) = Lay.layerStep K P data gids t := by
    funext st ind
    exact layerStep_setNcomp K P data gids t nc st ind
  rw [this]


end helpers

/-- Everything the canonical run computes. -/
structure Pt (α : Type) where
  data : List (Hit α)
  flag : Bool
  sids : List Int
  sl : Table
  gids : List Int
  iso : List Bool
  gr : Table
  lids : List Int
  nc : List Int
  lay : Table

def T0 {α} (p : Pt α) : Chunk α := ⟨p.data, p.flag, none, none, none, none, none, none⟩
def T1 {α} (p : Pt α) : Chunk α := ⟨p.data, p.flag, some p.sids, none, none, some p.sl, none, none⟩
def T2 {α} (p : Pt α) : Chunk α :=
  ⟨p.data, p.flag, some p.sids, some p.gids, none, some (setIsolated p.sl p.iso), some p.gr, none⟩
def T3 {α} (p : Pt α) : Chunk α :=
  ⟨p.data, p.flag, some p.sids, some p.gids, some p.lids, some (setIsolated p.sl p.iso),
    some (setNcomp p.gr p.nc), some p.lay⟩

structure Parts {α} [DecidableEq α] (K : Kern) (P : PPrms α) (p : Pt α) : Prop where
  hs : sliceIds K P p.data = .ok p.sids
  hsl : ∀ b, metarize K.toMetK P.toPrms .slices b p.data p.sids = .ok p.sl
  hg : groupIds K P p.data p.sids p.sl = .ok (p.gids, p.iso)
  hgr : metarize K.toMetK P.toPrms .groups false p.data p.gids = .ok p.gr
  hl : layerIds K P p.data p.gids p.gr = .ok (p.lids, p.nc)
  hlay : ∀ b, metarize K.toMetK P.toPrms .layers b p.data p.lids = .ok p.lay

theorem parts_of_canon {α} [DecidableEq α] (K : Kern) (P : PPrms α) (c0 S1 S2 S3 : Chunk α)
    (hC : Canon K P c0 S1 S2 S3) :
    ∃ p : Pt α, Parts K P p ∧ c0 = T0 p ∧ S1 = T1 p ∧ S2 = T2 p ∧ S3 = T3 p := by
  obtain ⟨hf, h1, h2, h3⟩ := hC
  obtain ⟨data, flag, s, g, l, osl, ogr, olay⟩ := c0
  simp only at hf
  obtain ⟨rfl, rfl, rfl, rfl, rfl, rfl⟩ := hf
  unfold findSlices at h1
  simp only [bind, Except.bind, pure, Except.pure] at h1
  split at h1
  · cases h1
  · rename_i sids hs
    split at h1
    · cases h1
    · rename_i sl hsl
      cases h1
      unfold findGroups at h2
      simp only [bind, Except.bind, pure, Except.pure, carryIsolated, Option.isSome_none, Bool.false_eq_true,
        if_false] at h2
      split at h2
      · cases h2
      · rename_i gi hg
        obtain ⟨gids, iso⟩ := gi
        split at h2
        · cases h2
        · rename_i gr hgr
          cases h2
          unfold findLayers at h3
          simp only [bind, Except.bind, pure, Except.pure] at h3
          split at h3
          · cases h3
          · rename_i li hl
            obtain ⟨lids, nc⟩ := li
            split at h3
            · cases h3
            · rename_i lay hlay
              cases h3
              refine ⟨⟨data, flag, sids, sl, gids, iso, gr, lids, nc, lay⟩, ⟨hs, ?_, hg, hgr, hl, ?_⟩, rfl, rfl, rfl, rfl⟩
              · intro b
                rw [metarize_slices_flag K.toMetK P.toPrms b _]
                exact hsl
              · intro b
                rw [metarize_layers_flag K.toMetK P.toPrms b _]
                exact hlay


structure Full {α} [DecidableEq α] (K : Kern) (P : PPrms α) (p : Pt α) : Prop extends Parts K P p where
  hc1 : carryIsolated (some p.sl) p.sl = p.sl
  hc2 : carryIsolated (some (setIsolated p.sl p.iso)) p.sl = setIsolated p.sl p.iso
  hi2 : setIsolated (setIsolated p.sl p.iso) p.iso = setIsolated p.sl p.iso
  hn2 : setNcomp (setNcomp p.gr p.nc) p.nc = setNcomp p.gr p.nc
  hg2 : groupIds K P p.data p.sids (setIsolated p.sl p.iso) = .ok (p.gids, p.iso)
  hl2 : layerIds K P p.data p.gids (setNcomp p.gr p.nc) = .ok (p.lids, p.nc)
  hgT : (∃ why, metarize K.toMetK P.toPrms .groups true p.data p.gids = .error (.ampy why)) ∨
    (metarize K.toMetK P.toPrms .groups true p.data p.gids = .ok p.gr ∧ setNcomp p.gr p.nc = p.gr)

section steps
set_option linter.unusedSimpArgs false
set_option linter.unusedVariables false
variable {α : Type} [DecidableEq α] {K : Kern} {P : PPrms α} {p : Pt α}

theorem s0_fs (h : Full K P p) : step K P (T0 p) .findSlices = (T1 p, .done) := by
  simp [step, findSlices, T0, T1, h.hs, h.hsl, carryIsolated, bind, Except.bind, pure, Except.pure]
theorem s1_fs (h : Full K P p) : step K P (T1 p) .findSlices = (T1 p, .done) := by
  simp [step, findSlices, T1, h.hs, h.hsl, h.hc1, bind, Except.bind, pure, Except.pure]
theorem s2_fs (h : Full K P p) : step K P (T2 p) .findSlices = (T2 p, .done) := by
  simp [step, findSlices, T2, h.hs, h.hsl, h.hc2, bind, Except.bind, pure, Except.pure]
theorem s3_fs (h : Full K P p) : step K P (T3 p) .findSlices = (T3 p, .done) := by
  simp [step, findSlices, T3, h.hs, h.hsl, h.hc2, bind, Except.bind, pure, Except.pure]

theorem s0_fg (h : Full K P p) : step K P (T0 p) .findGroups = (T0 p, .ampyError) := by
  simp [step, findGroups, T0, outOfErr, bind, Except.bind, pure, Except.pure, throw, throwThe, MonadExceptOf.throw]
theorem s1_fg (h : Full K P p) : step K P (T1 p) .findGroups = (T2 p, .done) := by
  simp [step, findGroups, T1, T2, h.hg, h.hgr, bind, Except.bind, pure, Except.pure, throw, throwThe, MonadExceptOf.throw]
theorem s2_fg (h : Full K P p) : step K P (T2 p) .findGroups = (T2 p, .done) := by
  simp [step, findGroups, T2, h.hg2, h.hgr, h.hi2, bind, Except.bind, pure, Except.pure, throw, throwThe, MonadExceptOf.throw]
theorem s3_fg (h : Full K P p) : step K P (T3 p) .findGroups = (T3 p, .ampyError) := by
  simp [step, findGroups, T3, outOfErr, bind, Except.bind, pure, Except.pure, throw, throwThe, MonadExceptOf.throw]

theorem s0_fl (h : Full K P p) : step K P (T0 p) .findLayers = (T0 p, .ampyError) := by
  simp [step, findLayers, T0, outOfErr, bind, Except.bind, pure, Except.pure, throw, throwThe, MonadExceptOf.throw]
theorem s1_fl (h : Full K P p) : step K P (T1 p) .findLayers = (T1 p, .ampyError) := by
  simp [step, findLayers, T1, outOfErr, bind, Except.bind, pure, Except.pure, throw, throwThe, MonadExceptOf.throw]
theorem s2_fl (h : Full K P p) : step K P (T2 p) .findLayers = (T3 p, .done) := by
  simp [step, findLayers, T2, T3, h.hl, h.hlay, bind, Except.bind, pure, Except.pure]
theorem s3_fl (h : Full K P p) : step K P (T3 p) .findLayers = (T3 p, .done) := by
  simp [step, findLayers, T3, h.hl2, h.hlay, h.hn2, bind, Except.bind, pure, Except.pure]


theorem s0_mz (h : Full K P p) (w : Which) : step K P (T0 p) (.metarize w) = (T0 p, .ampyError) := by
  cases w <;> simp [step, metarizeOp, idsOf, T0, outOfErr]
theorem s1_ms (h : Full K P p) : step K P (T1 p) (.metarize .slices) = (T1 p, .done) := by
  simp [step, metarizeOp, idsOf, T1, h.hsl, h.hc1]
theorem s1_mg (h : Full K P p) : step K P (T1 p) (.metarize .groups) = (T1 p, .ampyError) := by
  simp [step, metarizeOp, idsOf, T1, outOfErr]
theorem s1_ml (h : Full K P p) : step K P (T1 p) (.metarize .layers) = (T1 p, .ampyError) := by
  simp [step, metarizeOp, idsOf, T1, outOfErr]
theorem s2_ms (h : Full K P p) : step K P (T2 p) (.metarize .slices) = (T2 p, .done) := by
  simp [step, metarizeOp, idsOf, T2, h.hsl, h.hc2]
theorem s2_mg (h : Full K P p) : step K P (T2 p) (.metarize .groups) = (T2 p, .done) := by
  simp [step, metarizeOp, idsOf, T2, h.hgr]
theorem s2_ml (h : Full K P p) : step K P (T2 p) (.metarize .layers) = (T2 p, .ampyError) := by
  simp [step, metarizeOp, idsOf, T2, outOfErr]
theorem s3_ms (h : Full K P p) : step K P (T3 p) (.metarize .slices) = (T3 p, .done) := by
  simp [step, metarizeOp, idsOf, T3, h.hsl, h.hc2]
theorem s3_mg (h : Full K P p) : step K P (T3 p) (.metarize .groups) = (T3 p, .ampyError) ∨
    step K P (T3 p) (.metarize .groups) = (T3 p, .done) := by
  rcases h.hgT with ⟨why, e⟩ | ⟨e, e2⟩
  · left; simp [step, metarizeOp, idsOf, T3, e, outOfErr]
  · right; simp [step, metarizeOp, idsOf, T3, e, e2]
theorem s3_ml (h : Full K P p) : step K P (T3 p) (.metarize .layers) = (T3 p, .done) := by
  simp [step, metarizeOp, idsOf, T3, h.hlay]

theorem s0_mm (h : Full K P p) (w : Which) : step K P (T0 p) (.metarMsg w) = (T0 p, .ampyError) := by
  cases w <;> simp [step, metarMsgOp, idsOf, tableOf, T0, outOfErr]
theorem s1_mms (h : Full K P p) : ∃ s, step K P (T1 p) (.metarMsg .slices) = (T1 p, .msg s) := by
  simp [step, metarMsgOp, idsOf, tableOf, T1]
theorem s1_mmg (h : Full K P p) : step K P (T1 p) (.metarMsg .groups) = (T1 p, .ampyError) := by
  simp [step, metarMsgOp, idsOf, tableOf, T1, outOfErr]
theorem s1_mml (h : Full K P p) : step K P (T1 p) (.metarMsg .layers) = (T1 p, .ampyError) := by
  simp [step, metarMsgOp, idsOf, tableOf, T1, outOfErr]
theorem s2_mms (h : Full K P p) : ∃ s, step K P (T2 p) (.metarMsg .slices) = (T2 p, .msg s) := by
  simp [step, metarMsgOp, idsOf, tableOf, T2]
theorem s2_mmg (h : Full K P p) : ∃ s, step K P (T2 p) (.metarMsg .groups) = (T2 p, .msg s) := by
  simp [step, metarMsgOp, idsOf, tableOf, T2]
theorem s2_mml (h : Full K P p) : step K P (T2 p) (.metarMsg .layers) = (T2 p, .ampyError) := by
  simp [step, metarMsgOp, idsOf, tableOf, T2, outOfErr]
theorem s3_mm (h : Full K P p) (w : Which) : ∃ s, step K P (T3 p) (.metarMsg w) = (T3 p, .msg s) := by
  cases w <;> simp [step, metarMsgOp, idsOf, tableOf, T3]

theorem full_of_parts (hK : KernOK K P.basePerc) (h : Parts K P p) : Full K P p := by
  have hnd : (p.sl.map (·.cid)).Nodup :=
    (metarize_cids K.toMetK P.toPrms .slices false p.data p.sids hK.met p.sl (h.hsl false)).nodup_iff.mpr
      (clusterIds_nodup p.sids)
  refine { h with
    hc1 := carry_self p.sl hnd
    hc2 := carry_setIsolated p.sl p.iso hnd
    hi2 := setIsolated_idem p.sl p.iso
    hn2 := setNcomp_idem p.gr p.nc
    hg2 := by rw [groupIds_setIsolated]; exact h.hg
    hl2 := by rw [layerIds_setNcomp]; exact h.hl
    hgT := ?_ }
  by_cases hc : clusterIds p.gids = []
  · right
    have hperm := metarize_cids K.toMetK P.toPrms .groups false p.data p.gids hK.met p.gr h.hgr
    rw [hc] at hperm
    have hnil : p.gr = [] := List.map_eq_nil_iff.mp hperm.eq_nil
    refine ⟨?_, ?_⟩
    · rw [metarize_groups_nil K.toMetK P.toPrms true false p.data p.gids hc]
      exact h.hgr
    · rw [hnil]; rfl
  · left
    exact metarize_refuses K.toMetK P.toPrms true p.data p.gids ⟨rfl, hc⟩

/-- What `step_canon` and `step_idem` need from one call. -/
def Good (K : Kern) (P : PPrms α) (p : Pt α) (c : Chunk α) (op : Op) : Prop :=
  ((step K P c op).1 = c ∨ (c = T0 p ∧ (step K P c op).1 = T1 p) ∨ (c = T1 p ∧ (step K P c op).1 = T2 p) ∨
    (c = T2 p ∧ (step K P c op).1 = T3 p)) ∧
  ((step K P c op).2 = .ampyError → (step K P c op).1 = c ∧ RefusalReason c op) ∧
  (∀ cls, (step K P c op).2 ≠ .crash cls) ∧
  ((step K P c op).2 = .done → step K P (step K P c op).1 op = ((step K P c op).1, .done))

theorem good_stay {c : Chunk α} {op : Op} (e : step K P c op = (c, .done)) : Good K P p c op := by
  unfold Good
  rw [e]
  exact ⟨.inl rfl, fun h => (by cases h), fun _ h => (by cases h), fun _ => e⟩

theorem good_adv {c c' : Chunk α} {op : Op} (e : step K P c op = (c', .done)) (e' : step K P c' op = (c', .done))
    (adv : (c = T0 p ∧ c' = T1 p) ∨ (c = T1 p ∧ c' = T2 p) ∨ (c = T2 p ∧ c' = T3 p)) : Good K P p c op := by
  unfold Good
  rw [e]
  exact ⟨.inr adv, fun h => (by cases h), fun _ h => (by cases h), fun _ => e'⟩

theorem good_refuse {c : Chunk α} {op : Op} (e : step K P c op = (c, .ampyError)) (r : RefusalReason c op) :
    Good K P p c op := by
  unfold Good
  rw [e]
  exact ⟨.inl rfl, fun _ => ⟨rfl, r⟩, fun _ h => (by cases h), fun h => by cases h⟩

theorem good_msg {c : Chunk α} {op : Op} (e : ∃ s, step K P c op = (c, .msg s)) : Good K P p c op := by
  obtain ⟨s, e⟩ := e
  unfold Good
  rw [e]
  exact ⟨.inl rfl, fun h => (by cases h), fun _ h => (by cases h), fun h => by cases h⟩

theorem good_all (h : Full K P p) (c : Chunk α) (hc : c = T0 p ∨ c = T1 p ∨ c = T2 p ∨ c = T3 p) (op : Op) :
    Good K P p c op := by
  rcases hc with rfl | rfl | rfl | rfl
  · rcases op with _ | _ | _ | w | w
    · exact good_adv (s0_fs h) (s1_fs h) (.inl ⟨rfl, rfl⟩)
    · exact good_refuse (s0_fg h) (.inl rfl)
    · exact good_refuse (s0_fl h) rfl
    · exact good_refuse (s0_mz h w) (.inl (by cases w <;> rfl))
    · exact good_refuse (s0_mm h w) (by cases w <;> rfl)
  · rcases op with _ | _ | _ | w | w
    · exact good_stay (s1_fs h)
    · exact good_adv (s1_fg h) (s2_fg h) (.inr (.inl ⟨rfl, rfl⟩))
    · exact good_refuse (s1_fl h) rfl
    · cases w
      · exact good_stay (s1_ms h)
      · exact good_refuse (s1_mg h) (.inl rfl)
      · exact good_refuse (s1_ml h) (.inl rfl)
    · cases w
      · exact good_msg (s1_mms h)
      · exact good_refuse (s1_mmg h) rfl
      · exact good_refuse (s1_mml h) rfl
  · rcases op with _ | _ | _ | w | w
    · exact good_stay (s2_fs h)
    · exact good_stay (s2_fg h)
    · exact good_adv (s2_fl h) (s3_fl h) (.inr (.inr ⟨rfl, rfl⟩))
    · cases w
      · exact good_stay (s2_ms h)
      · exact good_stay (s2_mg h)
      · exact good_refuse (s2_ml h) (.inl rfl)
    · cases w
      · exact good_msg (s2_mms h)
      · exact good_msg (s2_mmg h)
      · exact good_refuse (s2_mml h) rfl
  · rcases op with _ | _ | _ | w | w
    · exact good_stay (s3_fs h)
    · exact good_refuse (s3_fg h) (.inr rfl)
    · exact good_stay (s3_fl h)
    · cases w
      · exact good_stay (s3_ms h)
      · rcases s3_mg h with e | e
        · exact good_refuse e (.inr ⟨rfl, rfl⟩)
        · exact good_stay e
      · exact good_stay (s3_ml h)
    · exact good_msg (s3_mm h w)

/-- Tables are only gained along `T0 → T1 → T2 → T3`. -/
theorem good_tables {c : Chunk α} {op : Op} (g : Good K P p c op) :
    (c.slices.isSome = true → (step K P c op).1.slices.isSome = true) ∧
    (c.groups.isSome = true → (step K P c op).1.groups.isSome = true) ∧
    (c.layers.isSome = true → (step K P c op).1.layers.isSome = true) := by
  rcases g.1 with e | ⟨rfl, e⟩ | ⟨rfl, e⟩ | ⟨rfl, e⟩ <;> rw [e]
  · exact ⟨id, id, id⟩
  · simp [T0, T1]
  · simp [T1, T2]
  · simp [T2, T3]

theorem good_canon {c : Chunk α} {op : Op} (g : Good K P p c op)
    (hc : IsCanon (T0 p) (T1 p) (T2 p) (T3 p) c) : IsCanon (T0 p) (T1 p) (T2 p) (T3 p) (step K P c op).1 := by
  rcases g.1 with e | ⟨_, e⟩ | ⟨_, e⟩ | ⟨_, e⟩ <;> rw [e]
  · exact hc
  · exact .inr (.inl rfl)
  · exact .inr (.inr (.inl rfl))
  · exact .inr (.inr (.inr rfl))

end steps

end SC

/-- A successful `run` provides the canonical states. -/
theorem canon_of_run {α} [DecidableEq α] (K : Kern) (P : PPrms α) (checked : List (Hit α)) (c : Chunk α)
    (h : run K P checked = .ok c) :
    ∃ S1 S2, Canon K P (construct P checked) S1 S2 c := by
  unfold run at h
  simp only [bind, Except.bind] at h
  split at h
  · cases h
  · rename_i c1 h1
    split at h
    · cases h
    · rename_i c2 h2
      exact ⟨c1, c2, ⟨⟨rfl, rfl, rfl, rfl, rfl, rfl⟩, h1, h2, h⟩⟩

/-- One call from a canonical state: the new state is canonical (the same one, or the next stage), a
refusal has one of the documented reasons, nothing else than `AmpycloudError` is raised. -/
theorem step_canon {α} [DecidableEq α] (K : Kern) (P : PPrms α) (hK : KernOK K P.basePerc)
    (c0 S1 S2 S3 : Chunk α) (hC : Canon K P c0 S1 S2 S3) (c : Chunk α) (hc : IsCanon c0 S1 S2 S3 c) (op : Op) :
    IsCanon c0 S1 S2 S3 (step K P c op).1 ∧
    ((step K P c op).2 = .ampyError → (step K P c op).1 = c ∧ RefusalReason c op) ∧
    (∀ cls, (step K P c op).2 ≠ .crash cls) := by
  obtain ⟨p, hp, rfl, rfl, rfl, rfl⟩ := SC.parts_of_canon K P c0 S1 S2 S3 hC
  have g := SC.good_all (SC.full_of_parts hK hp) c hc op
  exact ⟨SC.good_canon g hc, g.2.1, g.2.2.1⟩

/-- Repeating a permitted call is idempotent. -/
theorem step_idem {α} [DecidableEq α] (K : Kern) (P : PPrms α) (hK : KernOK K P.basePerc)
    (c0 S1 S2 S3 : Chunk α) (hC : Canon K P c0 S1 S2 S3) (c : Chunk α) (hc : IsCanon c0 S1 S2 S3 c) (op : Op)
    (h : (step K P c op).2 = .done) :
    step K P (step K P c op).1 op = ((step K P c op).1, .done) := by
  obtain ⟨p, hp, rfl, rfl, rfl, rfl⟩ := SC.parts_of_canon K P c0 S1 S2 S3 hC
  exact (SC.good_all (SC.full_of_parts hK hp) c hc op).2.2.2 h

theorem SC.runOps_cons {α} [DecidableEq α] (K : Kern) (P : PPrms α) (c : Chunk α) (op : Op) (rest : List Op) :
    runOps K P c (op :: rest) =
      ((runOps K P (step K P c op).1 rest).1, (step K P c op).2 :: (runOps K P (step K P c op).1 rest).2) := rfl

/-- Any history of calls from the fresh chunk ends in a canonical state and raises nothing but
`AmpycloudError`. -/
theorem runOps_canon {α} [DecidableEq α] (K : Kern) (P : PPrms α) (hK : KernOK K P.basePerc)
    (c0 S1 S2 S3 : Chunk α) (hC : Canon K P c0 S1 S2 S3) (c : Chunk α) (hc : IsCanon c0 S1 S2 S3 c) (ops : List Op) :
    IsCanon c0 S1 S2 S3 (runOps K P c ops).1 ∧ ∀ o ∈ (runOps K P c ops).2, ∀ cls, o ≠ .crash cls := by
  induction ops generalizing c with
  | nil => exact ⟨hc, fun o ho => by cases ho⟩
  | cons op rest ih =>
    have hs := step_canon K P hK c0 S1 S2 S3 hC c hc op
    have hr := ih (step K P c op).1 hs.1
    rw [SC.runOps_cons]
    refine ⟨hr.1, ?_⟩
    intro o ho
    rcases List.mem_cons.mp ho with rfl | ho
    · exact hs.2.2
    · exact hr.2 o ho

/-- Stages only move forward: once a stage is completed its table stays that of the canonical run. -/
theorem runOps_monotone {α} [DecidableEq α] (K : Kern) (P : PPrms α) (hK : KernOK K P.basePerc)
    (c0 S1 S2 S3 : Chunk α) (hC : Canon K P c0 S1 S2 S3) (c : Chunk α) (hc : IsCanon c0 S1 S2 S3 c) (ops : List Op) :
    (c.slices.isSome = true → (runOps K P c ops).1.slices.isSome = true) ∧
    (c.groups.isSome = true → (runOps K P c ops).1.groups.isSome = true) ∧
    (c.layers.isSome = true → (runOps K P c ops).1.layers.isSome = true) := by
  induction ops generalizing c with
  | nil => exact ⟨id, id, id⟩
  | cons op rest ih =>
    have hs := step_canon K P hK c0 S1 S2 S3 hC c hc op
    have hr := ih (step K P c op).1 hs.1
    have ht : (c.slices.isSome = true → (step K P c op).1.slices.isSome = true) ∧
        (c.groups.isSome = true → (step K P c op).1.groups.isSome = true) ∧
        (c.layers.isSome = true → (step K P c op).1.layers.isSome = true) := by
      obtain ⟨p, hp, rfl, rfl, rfl, rfl⟩ := SC.parts_of_canon K P c0 S1 S2 S3 hC
      exact SC.good_tables (SC.good_all (SC.full_of_parts hK hp) c hc op)
    rw [SC.runOps_cons]
    exact ⟨fun h => hr.1 (ht.1 h), fun h => hr.2.1 (ht.2.1 h), fun h => hr.2.2 (ht.2.2 h)⟩

end Ampy
