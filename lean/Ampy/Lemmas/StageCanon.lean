import Ampy.Model.Stage
import Ampy.Lemmas.RunFacts
/-!
Lemmas behind C14: from a fresh chunk, any sequence of stage / query calls keeps the chunk in one of the
four canonical states (fresh, sliced, grouped, layered) of the slices-groups-layers run; a refused call
changes nothing; repeating a permitted call changes nothing; nothing but `AmpycloudError` is raised.
-/
namespace Ampy

/-- The canonical run from the fresh chunk `c0`. -/
structure Canon {α} [DecidableEq α] (K : Kern) (P : PPrms α) (c0 S1 S2 S3 : Chunk α) : Prop where
  fresh : c0.sids = none ∧ c0.gids = none ∧ c0.lids = none ∧ c0.slices = none ∧ c0.groups = none ∧ c0.layers = none
  h1 : findSlices K P c0 = .ok S1
  h2 : findGroups K P S1 = .ok S2
  h3 : findLayers K P S2 = .ok S3

/-- Membership in the four canonical states. -/
def IsCanon {α} (c0 S1 S2 S3 c : Chunk α) : Prop := c = c0 ∨ c = S1 ∨ c = S2 ∨ c = S3

/-- Why a call may be refused: a prerequisite is missing, or it would discard the layering. -/
def RefusalReason {α} (c : Chunk α) : Op → Prop
  | .findSlices => False
  | .findGroups => c.slices = none ∨ c.layers.isSome = true
  | .findLayers => c.groups = none
  | .metarize w => idsOf c w = none ∨ (w = .groups ∧ c.layers.isSome = true)
  | .metarMsg w => tableOf c w = none

/-- A successful `run` provides the canonical states. -/
theorem canon_of_run {α} [DecidableEq α] (K : Kern) (P : PPrms α) (checked : List (Hit α)) (c : Chunk α)
    (h : run K P checked = .ok c) :
    ∃ S1 S2, Canon K P (construct P checked) S1 S2 c := by
  sorry

/-- One call from a canonical state: the new state is canonical (the same one, or the next stage), a
refusal has one of the documented reasons, nothing else than `AmpycloudError` is raised. -/
theorem step_canon {α} [DecidableEq α] (K : Kern) (P : PPrms α) (hK : KernOK K P.basePerc)
    (c0 S1 S2 S3 : Chunk α) (hC : Canon K P c0 S1 S2 S3) (c : Chunk α) (hc : IsCanon c0 S1 S2 S3 c) (op : Op) :
    IsCanon c0 S1 S2 S3 (step K P c op).1 ∧
    ((step K P c op).2 = .ampyError → (step K P c op).1 = c ∧ RefusalReason c op) ∧
    (∀ cls, (step K P c op).2 ≠ .crash cls) := by
  sorry

/-- Repeating a permitted call is idempotent. -/
theorem step_idem {α} [DecidableEq α] (K : Kern) (P : PPrms α) (hK : KernOK K P.basePerc)
    (c0 S1 S2 S3 : Chunk α) (hC : Canon K P c0 S1 S2 S3) (c : Chunk α) (hc : IsCanon c0 S1 S2 S3 c) (op : Op)
    (h : (step K P c op).2 = .done) :
    step K P (step K P c op).1 op = ((step K P c op).1, .done) := by
  sorry

/-- Any history of calls from the fresh chunk ends in a canonical state and raises nothing but
`AmpycloudError`. -/
theorem runOps_canon {α} [DecidableEq α] (K : Kern) (P : PPrms α) (hK : KernOK K P.basePerc)
    (c0 S1 S2 S3 : Chunk α) (hC : Canon K P c0 S1 S2 S3) (c : Chunk α) (hc : IsCanon c0 S1 S2 S3 c) (ops : List Op) :
    IsCanon c0 S1 S2 S3 (runOps K P c ops).1 ∧ ∀ o ∈ (runOps K P c ops).2, ∀ cls, o ≠ .crash cls := by
  sorry

/-- Stages only move forward: once a stage is completed its table stays that of the canonical run. -/
theorem runOps_monotone {α} [DecidableEq α] (K : Kern) (P : PPrms α) (hK : KernOK K P.basePerc)
    (c0 S1 S2 S3 : Chunk α) (hC : Canon K P c0 S1 S2 S3) (c : Chunk α) (hc : IsCanon c0 S1 S2 S3 c) (ops : List Op) :
    (c.slices.isSome = true → (runOps K P c ops).1.slices.isSome = true) ∧
    (c.groups.isSome = true → (runOps K P c ops).1.groups.isSome = true) ∧
    (c.layers.isSome = true → (runOps K P c ops).1.layers.isSome = true) := by
  sorry

end Ampy
