import Ampy.Spec.Table
import Ampy.Lemmas.Wmo
import Mathlib.Data.Finset.Card
import Mathlib.Data.Finset.Image
import Mathlib.Data.List.Nodup
import Mathlib.Algebra.BigOperators.Group.Finset.Basic
/-! Lemmas behind C03: hit counts, percentages, oktas. -/
namespace Ampy

/-! ### `List.eraseDups` -/

theorem eraseDups_nodup {β} [BEq β] [LawfulBEq β] : ∀ (l : List β), l.eraseDups.Nodup
  | [] => by simp
  | a :: as => by
    rw [List.eraseDups_cons]
    have ih := eraseDups_nodup (as.filter fun b => !b == a)
    rw [List.nodup_cons]
    refine ⟨?_, ih⟩
    simp [List.mem_eraseDups]
termination_by l => l.length
decreasing_by
  simp only [List.length_cons]
  exact Nat.lt_succ_of_le (List.length_filter_le _ _)

theorem eraseDups_length_eq_card {β} [BEq β] [LawfulBEq β] [DecidableEq β] (l : List β) :
    l.eraseDups.length = l.toFinset.card := by
  rw [← List.toFinset_card_of_nodup (eraseDups_nodup l)]
  congr 1
  ext x
  simp [List.mem_eraseDups]

theorem eraseDups_length_le_of_subset {β} [BEq β] [LawfulBEq β] (a b : List β) (h : a ⊆ b) :
    a.eraseDups.length ≤ b.eraseDups.length := by
  classical
  rw [eraseDups_length_eq_card, eraseDups_length_eq_card]
  apply Finset.card_le_card
  intro x hx
  rw [List.mem_toFinset] at hx ⊢
  exact h hx

/-! ### hit counts -/

theorem hitCount_cons {α} [DecidableEq α] (c : α) (cs : List α) (hs : List (Hit α)) :
    hitCount (c :: cs) hs =
      ((hs.filter (·.ceilo = c)).map (·.dt)).eraseDups.length + hitCount cs hs := by
  simp [hitCount]

/-- The distinct time stamps of the hits of ceilometer `c`, as a fiber of the distinct pairs. -/
theorem fiber_card {α} [DecidableEq α] (hs : List (Hit α)) (c : α) :
    (((hs.filter (·.ceilo = c)).map (·.dt)).toFinset).card =
      (((hs.map fun h => (h.ceilo, h.dt)).toFinset).filter (fun p => p.1 = c)).card := by
  have hinj : Function.Injective (fun d : Rat => (c, d)) := by
    intro x y hxy
    exact (Prod.mk.injEq _ _ _ _ ▸ hxy).2
  rw [← Finset.card_image_of_injective _ hinj]
  congr 1
  ext ⟨c', d⟩
  simp only [Finset.mem_image, List.mem_toFinset, List.mem_map, List.mem_filter,
    Finset.mem_filter, decide_eq_true_eq, Prod.mk.injEq]
  constructor
  · rintro ⟨d', ⟨h, ⟨hm, hc⟩, hd⟩, hc', hdd⟩
    exact ⟨⟨h, hm, by rw [hc, hc'], by rw [hd, hdd]⟩, hc'.symm⟩
  · rintro ⟨⟨h, hm, hc, hd⟩, hcc⟩
    exact ⟨d, ⟨h, ⟨hm, by rw [hc, hcc]⟩, hd⟩, hcc.symm, rfl⟩

/-- The per-ceilometer sum of distinct time stamps equals the number of distinct
(ceilometer, time) pairs, as soon as the ceilometer list has no repeats and covers the hits. -/
theorem hitCount_eq_distinct_pairs {α} [DecidableEq α] (cs : List α) (hs : List (Hit α))
    (hnd : cs.Nodup) (hcov : ∀ h ∈ hs, h.ceilo ∈ cs) :
    hitCount cs hs = ((hs.map fun h => (h.ceilo, h.dt)).eraseDups).length := by
  rw [eraseDups_length_eq_card]
  have hmaps : ((((hs.map fun h => (h.ceilo, h.dt)).toFinset : Finset (α × Rat)) : Set (α × Rat))).MapsTo
      (fun p => p.1) (cs.toFinset : Finset α) := by
    intro p hp
    simp only [Finset.mem_coe, List.mem_toFinset, List.mem_map] at hp ⊢
    obtain ⟨h, hm, rfl⟩ := hp
    exact hcov h hm
  rw [Finset.card_eq_sum_card_fiberwise hmaps, List.sum_toFinset _ hnd]
  unfold hitCount
  congr 1
  apply List.map_congr_left
  intro c _
  rw [eraseDups_length_eq_card, fiber_card]

theorem ceilos_nodup {α} [DecidableEq α] (data : List (Hit α)) : (ceilos data).Nodup :=
  eraseDups_nodup _

theorem mem_ceilos {α} [DecidableEq α] (data : List (Hit α)) (h : Hit α) (hm : h ∈ data) :
    h.ceilo ∈ ceilos data := by
  unfold ceilos
  rw [List.mem_eraseDups]
  exact List.mem_map.mpr ⟨h, hm, rfl⟩

theorem members_sublist {α} (data : List (Hit α)) (ids : List Int) (cid : Int) :
    (members data ids cid).Sublist data := by
  unfold members
  induction data generalizing ids with
  | nil => simp
  | cons h t ih =>
    cases ids with
    | nil => simp
    | cons i is =>
      rw [List.zip_cons_cons, List.filterMap_cons]
      by_cases hi : i = cid
      · simp only [hi, if_true]
        exact (ih is).cons_cons h
      · simp only [hi, if_false]
        exact (ih is).cons h

/-- Distinct pairs of a sublist are at most those of the list. -/
theorem hitCount_le_of_sublist {α} [DecidableEq α] (cs : List α) (a b : List (Hit α)) (h : a.Sublist b) :
    hitCount cs a ≤ hitCount cs b := by
  induction cs with
  | nil => simp [hitCount]
  | cons c cs ih =>
    rw [hitCount_cons, hitCount_cons]
    apply Nat.add_le_add _ ih
    apply eraseDups_length_le_of_subset
    exact ((h.filter _).map _).subset

/-! ### oktas -/

/-- Closed form of the okta computed by `_calculate_cloud_amount` (no error branch is reachable
for `n ≤ M`, `0 < M`). -/
theorem oktaOf_eq (n M : Nat) (t0 t8 : Rat) (hM : 0 < M) (h : n ≤ M) :
    oktaOf n M t0 t8 = .ok (if (n : Rat) ≤ t0 then 0
      else if (((M : Int) - (n : Int) : Int) : Rat) ≤ t8 then 8
      else oktaOfPerc ((n : Rat) / (M : Rat) * 100)) := by
  unfold oktaOf
  by_cases h0 : (n : Rat) ≤ t0
  · rw [if_pos h0, if_pos h0]
  · rw [if_neg h0, if_neg h0]
    by_cases h8 : (((M : Int) - (n : Int) : Int) : Rat) ≤ t8
    · rw [if_pos h8, if_pos h8]
    · rw [if_neg h8, if_neg h8]
      unfold perc2oktaNM perc2okta
      rw [if_pos (percNM_range hM h)]

/-- The okta never decreases with the count (same `M`, same buffers). -/
theorem oktaOf_mono (n n' M : Nat) (t0 t8 : Rat) (hM : 0 < M) (hn : n ≤ n') (h : n' ≤ M)
    (a b : Int) (ha : oktaOf n M t0 t8 = .ok a) (hb : oktaOf n' M t0 t8 = .ok b) : a ≤ b := by
  have hnM : n ≤ M := Nat.le_trans hn h
  rw [oktaOf_eq n M t0 t8 hM hnM] at ha
  rw [oktaOf_eq n' M t0 t8 hM h] at hb
  injection ha with ha
  injection hb with hb
  subst ha; subst hb
  have hnn : (n : Rat) ≤ (n' : Rat) := by exact_mod_cast hn
  have hr := percNM_range hM hnM
  have hr' := percNM_range hM h
  have hmono : oktaOfPerc ((n : Rat) / (M : Rat) * 100) ≤ oktaOfPerc ((n' : Rat) / (M : Rat) * 100) :=
    oktaOfPerc_mono hr.1 (percNM_mono hM hn) hr'.2
  -- range of oktaOfPerc on [0,100]
  have hrange : ∀ p : Rat, 0 ≤ p → p ≤ 100 → 0 ≤ oktaOfPerc p ∧ oktaOfPerc p ≤ 8 := by
    intro p hp0 hp1
    have z : oktaOfPerc 0 = 0 := by decide
    have e : oktaOfPerc 100 = 8 := by decide
    have l := oktaOfPerc_mono (p := 0) (q := p) (le_refl _) hp0 hp1
    have u := oktaOfPerc_mono (p := p) (q := 100) hp0 hp1 (le_refl _)
    omega
  have r1 := hrange _ hr.1 hr.2
  have r2 := hrange _ hr'.1 hr'.2
  have hholes : (((M : Int) - (n' : Int) : Int) : Rat) ≤ (((M : Int) - (n : Int) : Int) : Rat) := by
    have : (M : Int) - (n' : Int) ≤ (M : Int) - (n : Int) := by omega
    exact_mod_cast this
  by_cases c1 : (n' : Rat) ≤ t0
  · have c0 : (n : Rat) ≤ t0 := le_trans hnn c1
    rw [if_pos c0, if_pos c1]
  · rw [if_neg c1]
    by_cases c0 : (n : Rat) ≤ t0
    · rw [if_pos c0]
      split
      · omega
      · exact r2.1
    · rw [if_neg c0]
      by_cases d0 : (((M : Int) - (n : Int) : Int) : Rat) ≤ t8
      · have d1 : (((M : Int) - (n' : Int) : Int) : Rat) ≤ t8 := le_trans hholes d0
        rw [if_pos d0, if_pos d1]
      · rw [if_neg d0]
        split
        · exact r1.2
        · exact hmono

theorem oktaOf_range (n M : Nat) (t0 t8 : Rat) (hM : 0 < M) (h : n ≤ M) (a : Int)
    (ha : oktaOf n M t0 t8 = .ok a) : 0 ≤ a ∧ a ≤ 8 := by
  rw [oktaOf_eq n M t0 t8 hM h] at ha
  injection ha with ha
  subst ha
  have hr := percNM_range hM h
  have z : oktaOfPerc 0 = 0 := by decide
  have e : oktaOfPerc 100 = 8 := by decide
  have l := oktaOfPerc_mono (p := 0) (q := (n : Rat) / (M : Rat) * 100) (le_refl _) hr.1 hr.2
  have u := oktaOfPerc_mono (p := (n : Rat) / (M : Rat) * 100) (q := 100) hr.1 hr.2 (le_refl _)
  split
  · omega
  · split <;> omega

/-- The code starts with the WMO abbreviation of the okta and continues with the coded height. -/
theorem mkCode_eq (okta : Int) (base : Rat) (code : String) (h : mkCode okta base = .ok code) :
    ∃ p, okta2code (.int okta) = .ok (some p) ∧ code = p ++ height2code (some base) := by
  unfold mkCode at h
  split at h
  · rename_i c hc
    injection h with h
    exact ⟨c, hc, h.symm⟩
  · cases h
  · cases h

end Ampy
