import Ampy.Spec.Table
import Ampy.Lemmas.Icao
import Ampy.Lemmas.Wmo
/-! Lemmas behind C01 and C02: the message as a function of a well-formed table. -/
namespace Ampy

/-- The `significant` column is what the 1-3-5 recursion gives when `c` flags are already set. -/
def FlagsFrom (c : Nat) (t : Table) : Prop :=
  t.map (·.significant) = specFrom c (t.map (·.okta))

theorem flagsFrom_cons (c : Nat) (r : Row) (rs : Table) :
    FlagsFrom c (r :: rs) ↔
      if c < 3 ∧ r.okta ≥ 2 * (c : Int) + 1 then r.significant = true ∧ FlagsFrom (c + 1) rs
      else r.significant = false ∧ FlagsFrom c rs := by
  unfold FlagsFrom
  simp only [List.map_cons, specFrom]
  split <;> simp

theorem flagsFrom_of_ok {t : Table} (h : TableOK t) : FlagsFrom 0 t := by
  unfold FlagsFrom
  rw [h.flags, significantCloud_eq_spec]

theorem reported_cons_pos {msa : Option Rat} {r : Row} {rs : Table}
    (hs : r.significant = true) (hb : belowMsa msa r.base = true) :
    reported msa (r :: rs) = r :: reported msa rs := by
  simp [reported, hs, hb]

theorem reported_cons_nsig {msa : Option Rat} {r : Row} {rs : Table}
    (hs : r.significant = false) :
    reported msa (r :: rs) = reported msa rs := by
  simp [reported, hs]

theorem reported_cons_nbelow {msa : Option Rat} {r : Row} {rs : Table}
    (hb : belowMsa msa r.base = false) :
    reported msa (r :: rs) = reported msa rs := by
  simp [reported, hb]

theorem belowMsa_mono {msa : Option Rat} {a b : Rat} (hab : a ≤ b)
    (h : belowMsa msa a = false) : belowMsa msa b = false := by
  cases msa with
  | none => simp [belowMsa] at h
  | some m =>
    simp only [belowMsa, decide_eq_false_iff_not, Rat.not_lt] at h ⊢
    exact Rat.le_trans h hab

theorem not_below_tail {msa : Option Rat} {r : Row} {rs : Table}
    (hs : (r :: rs).Pairwise (fun a b => a.base ≤ b.base))
    (hb : belowMsa msa r.base = false) : ∀ x ∈ rs, belowMsa msa x.base = false := by
  intro x hx
  exact belowMsa_mono ((List.pairwise_cons.mp hs).1 x hx) hb

theorem rep_135_aux (msa : Option Rat) : ∀ (t : Table) (c : Nat), FlagsFrom c t →
    ∀ (i : Nat) (x : Row), (reported msa t)[i]? = some x → x.okta ≥ 2 * ((c + i : Nat) : Int) + 1 := by
  intro t
  induction t with
  | nil => intro c _ i x hx; simp [reported] at hx
  | cons r rs ih =>
    intro c h i x hx
    rw [flagsFrom_cons] at h
    split at h
    · rename_i hc
      obtain ⟨hs, hf⟩ := h
      cases hb : belowMsa msa r.base with
      | true =>
        rw [reported_cons_pos hs hb] at hx
        cases i with
        | zero =>
          simp at hx; subst hx; omega
        | succ i =>
          simp only [List.getElem?_cons_succ] at hx
          have := ih (c + 1) hf i x hx
          omega
      | false =>
        rw [reported_cons_nbelow hb] at hx
        have := ih (c + 1) hf i x hx
        omega
    · obtain ⟨hs, hf⟩ := h
      rw [reported_cons_nsig hs] at hx
      exact ih c hf i x hx

theorem rep_len_aux (msa : Option Rat) : ∀ (t : Table) (c : Nat), c ≤ 3 → FlagsFrom c t →
    c + (reported msa t).length ≤ 3 := by
  intro t
  induction t with
  | nil => intro c hc _; simpa [reported] using hc
  | cons r rs ih =>
    intro c hc3 h
    rw [flagsFrom_cons] at h
    split at h
    · rename_i hc
      obtain ⟨hs, hf⟩ := h
      have := ih (c + 1) (by omega) hf
      cases hb : belowMsa msa r.base with
      | true => rw [reported_cons_pos hs hb]; simp only [List.length_cons]; omega
      | false => rw [reported_cons_nbelow hb]; omega
    · obtain ⟨hs, hf⟩ := h
      rw [reported_cons_nsig hs]
      exact ih c hc3 hf

theorem lowest_first_aux (msa : Option Rat) : ∀ (t : Table), FlagsFrom 0 t →
    t.Pairwise (fun a b => a.base ≤ b.base) → cloudBelow msa t ≠ [] →
    (reported msa t).head? = (cloudBelow msa t).head? := by
  intro t
  induction t with
  | nil => intro _ _ h; simp [cloudBelow] at h
  | cons r rs ih =>
    intro h hs hL
    rw [flagsFrom_cons] at h
    split at h
    · rename_i hc
      obtain ⟨hsig, hf⟩ := h
      cases hb : belowMsa msa r.base with
      | true =>
        rw [reported_cons_pos hsig hb]
        have : decide (r.okta ≥ 1) = true := by simp; omega
        simp [cloudBelow, hb, this]
      | false =>
        exfalso
        apply hL
        have := not_below_tail hs hb
        simp only [cloudBelow, List.filter_eq_nil_iff]
        intro x hx
        rcases List.mem_cons.mp hx with rfl | hx
        · simp [hb]
        · simp [this x hx]
    · rename_i hc
      obtain ⟨hsig, hf⟩ := h
      have hok : decide (r.okta ≥ 1) = false := by simp; omega
      have e : cloudBelow msa (r :: rs) = cloudBelow msa rs := by
        simp [cloudBelow, hok]
      rw [reported_cons_nsig hsig, e]
      rw [e] at hL
      exact ih hf (List.pairwise_cons.mp hs).2 hL

theorem ceiling_aux (msa : Option Rat) : ∀ (t : Table) (c : Nat), c ≤ 2 → FlagsFrom c t →
    t.Pairwise (fun a b => a.base ≤ b.base) → ∀ x : Row,
    (t.filter fun r => decide (r.okta ≥ 5) && belowMsa msa r.base).head? = some x →
    x ∈ reported msa t := by
  intro t
  induction t with
  | nil => intro c _ _ _ x hx; simp at hx
  | cons r rs ih =>
    intro c hc2 h hs x hx
    have hs' := (List.pairwise_cons.mp hs).2
    rw [flagsFrom_cons] at h
    by_cases hr : (decide (r.okta ≥ 5) && belowMsa msa r.base) = true
    · rw [List.filter_cons, if_pos hr] at hx
      simp only [List.head?_cons, Option.some.injEq] at hx
      subst hx
      simp only [Bool.and_eq_true, decide_eq_true_eq] at hr
      rw [if_pos (by omega)] at h
      rw [reported_cons_pos h.1 hr.2]
      exact List.mem_cons_self
    · rw [List.filter_cons, if_neg hr] at hx
      split at h
      · rename_i hc
        obtain ⟨hsig, hf⟩ := h
        cases hb : belowMsa msa r.base with
        | true =>
          rw [reported_cons_pos hsig hb]
          apply List.mem_cons_of_mem
          have h5 : ¬ r.okta ≥ 5 := by
            intro h5; apply hr; simp [hb, h5]
          exact ih (c + 1) (by omega) hf hs' x hx
        | false =>
          exfalso
          have hmem := List.mem_of_mem_head? hx
          have := (List.mem_filter.mp hmem)
          have hnb := not_below_tail hs hb x this.1
          simp [hnb] at this
      · obtain ⟨hsig, hf⟩ := h
        rw [reported_cons_nsig hsig]
        exact ih c hc2 hf hs' x hx



theorem sig_pos {t : Table} (h : TableOK t) {r : Row} (hr : r ∈ t) (hs : r.significant = true) :
    r.okta ≥ 1 := by
  have hm : r ∈ reported none t := by simp [reported, belowMsa, hr, hs]
  obtain ⟨i, hi⟩ := List.getElem?_of_mem hm
  have := rep_135_aux none t 0 (flagsFrom_of_ok h) i r hi
  omega

theorem exists_sig {t : Table} (h : TableOK t) (he : ∃ r ∈ t, r.okta ≥ 1) :
    ∃ x ∈ t, x.significant = true ∧ x.okta ≥ 1 := by
  obtain ⟨r, hr, ho⟩ := he
  have hne : cloudBelow none t ≠ [] := by
    intro e
    have : r ∈ cloudBelow none t := by simp [cloudBelow, belowMsa, hr, ho]
    rw [e] at this; simp at this
  have hl := lowest_first_aux none t (flagsFrom_of_ok h) h.sorted hne
  obtain ⟨x, xs, hx⟩ := List.exists_cons_of_ne_nil hne
  rw [hx] at hl
  simp only [List.head?_cons] at hl
  have hm := List.mem_of_mem_head? hl
  have hf := List.mem_filter.mp hm
  have hsig : x.significant = true := by simpa [belowMsa] using hf.2
  exact ⟨x, hf.1, hsig, sig_pos h hf.1 hsig⟩

theorem code_of_pos {t : Table} (h : TableOK t) {r : Row} (hr : r ∈ t) (ho : r.okta ≥ 1) :
    ∃ p, okta2code (.int r.okta) = .ok (some p) ∧ p ∈ ["FEW", "SCT", "BKN", "OVC"] ∧
      r.code = p ++ height2code (some r.base) := by
  have hc := h.codes r hr
  have hb := (h.oktas r hr).2
  have : r.okta = 1 ∨ r.okta = 2 ∨ r.okta = 3 ∨ r.okta = 4 ∨ r.okta = 5 ∨ r.okta = 6 ∨
      r.okta = 7 ∨ r.okta = 8 := by omega
  rcases this with e | e | e | e | e | e | e | e <;> rw [e] at hc ⊢ <;>
    simp [mkCode, okta2code, okta2codeInt] at hc ⊢ <;> exact hc.symm

theorem isGroup_of_pos {t : Table} (h : TableOK t) {r : Row} (hr : r ∈ t) (ho : r.okta ≥ 1) :
    IsGroup r.code := by
  obtain ⟨p, _, hp, hc⟩ := code_of_pos h hr ho
  have hb := h.bases r hr
  have hh := hh_range hb.1 hb.2
  obtain ⟨d0, d1, d2, h0, h1, h2, e⟩ := fmt03_three_digits hh.1 hh.2
  exact ⟨p, hp, d0, d1, d2, h0, h1, h2, by rw [hc]; simp [height2code, e]⟩

theorem isGroup_length {g : String} (h : IsGroup g) : g.length = 6 := by
  obtain ⟨p, hp, d0, d1, d2, -, -, -, rfl⟩ := h
  simp only [List.mem_cons, List.not_mem_nil, or_false] at hp
  rcases hp with rfl | rfl | rfl | rfl <;>
    (simp only [String.length_append, String.length_ofList, List.length_cons, List.length_nil]; decide)

theorem intercalate_length_ge (s g : String) (gs : List String) :
    g.length ≤ (s.intercalate (g :: gs)).length := by
  cases gs with
  | nil => simp
  | cons u l => simp [String.length_append]; omega

theorem metarMsg_unfold (msa : Option Rat) (flag : Bool) (t : Table) (ht : t ≠ []) :
    metarMsg msa flag t.length t =
      if (" ".intercalate ((reported msa t).map (·.code))).length = 0 then
        (if t.any (fun r => r.significant && !(belowMsa msa r.base)) then "NSC" else ncdOrNsc flag)
      else " ".intercalate ((reported msa t).map (·.code)) := by
  unfold metarMsg reported
  rw [if_neg (by simpa using ht)]

theorem rep_groups {msa : Option Rat} {t : Table} (h : TableOK t) :
    ∀ r ∈ reported msa t, IsGroup r.code := by
  intro r hr
  have hf := List.mem_filter.mp hr
  have hs : r.significant = true := by
    have := hf.2; simp only [Bool.and_eq_true] at this; exact this.1
  exact isGroup_of_pos h hf.1 (sig_pos h hf.1 hs)

theorem msg_rep_ne {msa : Option Rat} {flag : Bool} {t : Table} (h : TableOK t)
    (hr : reported msa t ≠ []) :
    metarMsg msa flag t.length t = " ".intercalate ((reported msa t).map (·.code)) ∧
      6 ≤ (metarMsg msa flag t.length t).length := by
  have ht : t ≠ [] := by
    intro e; subst e; simp [reported] at hr
  obtain ⟨x, xs, hx⟩ := List.exists_cons_of_ne_nil hr
  have hg : IsGroup x.code := rep_groups h x (by rw [hx]; exact List.mem_cons_self)
  have hlen : 6 ≤ (" ".intercalate ((reported msa t).map (·.code))).length := by
    rw [hx, List.map_cons]
    have := intercalate_length_ge " " x.code (xs.map (·.code))
    rw [isGroup_length hg] at this
    exact this
  rw [metarMsg_unfold msa flag t ht, if_neg (by omega)]
  exact ⟨rfl, hlen⟩

theorem msg_rep_nil {msa : Option Rat} {flag : Bool} {t : Table} (ht : t ≠ [])
    (hr : reported msa t = []) :
    metarMsg msa flag t.length t =
      if t.any (fun r => r.significant && !(belowMsa msa r.base)) then "NSC" else ncdOrNsc flag := by
  rw [metarMsg_unfold msa flag t ht, hr]
  simp

theorem len3_ne {s : String} (h : 6 ≤ s.length) : s ≠ "NCD" ∧ s ≠ "NSC" := by
  constructor <;> (intro e; subst e; revert h; decide)



theorem rep_facts {msa : Option Rat} {t : Table} (h : TableOK t) :
    ∀ r ∈ reported msa t, r ∈ t ∧ r.significant = true ∧ belowMsa msa r.base = true ∧ r.okta ≥ 1 := by
  intro r hr
  have hf := List.mem_filter.mp hr
  have hs : r.significant = true ∧ belowMsa msa r.base = true := by
    have := hf.2; simp only [Bool.and_eq_true] at this; exact this
  exact ⟨hf.1, hs.1, hs.2, sig_pos h hf.1 hs.1⟩

theorem cloudBelow_nil_of_rep_nil {msa : Option Rat} {t : Table} (h : TableOK t)
    (hr : reported msa t = []) : cloudBelow msa t = [] := by
  by_contra hne
  have := lowest_first_aux msa t (flagsFrom_of_ok h) h.sorted hne
  rw [hr] at this
  obtain ⟨x, xs, hx⟩ := List.exists_cons_of_ne_nil hne
  rw [hx] at this
  simp at this

theorem any_above_iff {msa : Option Rat} {t : Table} (h : TableOK t)
    (hcb : cloudBelow msa t = []) :
    (t.any fun r => r.significant && !(belowMsa msa r.base)) = true ↔
      ∃ r ∈ t, r.okta ≥ 1 ∧ belowMsa msa r.base = false := by
  simp only [List.any_eq_true]
  constructor
  · rintro ⟨x, hx, hp⟩
    simp only [Bool.and_eq_true, Bool.not_eq_true'] at hp
    exact ⟨x, hx, sig_pos h hx hp.1, hp.2⟩
  · rintro ⟨r, hrt, ho, _⟩
    obtain ⟨x, hx, hsig, hxo⟩ := exists_sig h ⟨r, hrt, ho⟩
    refine ⟨x, hx, ?_⟩
    cases hb : belowMsa msa x.base with
    | true =>
      exfalso
      have : x ∈ cloudBelow msa t := by simp [cloudBelow, hx, hxo, hb]
      rw [hcb] at this; simp at this
    | false => simp [hsig]

/-! ### The lemmas used by C01 / C02 -/

theorem msg_grammar (msa : Option Rat) (flag : Bool) (t : Table) (h : TableOK t) :
    metarMsg msa flag t.length t = "NCD" ∨ metarMsg msa flag t.length t = "NSC" ∨
    ∃ gs : List String, 1 ≤ gs.length ∧ gs.length ≤ 3 ∧ (∀ g ∈ gs, IsGroup g) ∧
      metarMsg msa flag t.length t = " ".intercalate gs := by
  by_cases ht : t = []
  · subst ht
    cases flag <;> simp [metarMsg, ncdOrNsc]
  · by_cases hr : reported msa t = []
    · rw [msg_rep_nil ht hr]
      split
      · right; left; rfl
      · cases flag <;> simp [ncdOrNsc]
    · right; right
      refine ⟨(reported msa t).map (·.code), ?_, ?_, ?_, (msg_rep_ne h hr).1⟩
      · rw [List.length_map]; exact List.length_pos_iff.mpr hr
      · rw [List.length_map]
        have := rep_len_aux msa t 0 (by omega) (flagsFrom_of_ok h)
        omega
      · intro g hg
        obtain ⟨r, hr', rfl⟩ := List.mem_map.mp hg
        exact rep_groups h r hr'

theorem msg_groups_are_rep (msa : Option Rat) (flag : Bool) (t : Table) (h : TableOK t)
    (hr : reported msa t ≠ []) :
    metarMsg msa flag t.length t = " ".intercalate ((reported msa t).map (·.code)) ∧
    (reported msa t).length ≤ 3 := by
  refine ⟨(msg_rep_ne h hr).1, ?_⟩
  have := rep_len_aux msa t 0 (by omega) (flagsFrom_of_ok h)
  omega

theorem rep_order (msa : Option Rat) (t : Table) (h : TableOK t) :
    (reported msa t).Pairwise (fun a b => a.base ≤ b.base ∧ heightHundreds a.base ≤ heightHundreds b.base) := by
  have : t.Pairwise (fun a b => a.base ≤ b.base ∧ heightHundreds a.base ≤ heightHundreds b.base) :=
    h.sorted.imp (fun hab => ⟨hab, hh_mono hab⟩)
  exact this.filter _

theorem rep_135 (msa : Option Rat) (t : Table) (h : TableOK t) (i : Nat) (hi : i < (reported msa t).length) :
    ((reported msa t)[i]).okta ≥ 2 * (i : Int) + 1 := by
  have := rep_135_aux msa t 0 (flagsFrom_of_ok h) i _ (List.getElem?_eq_getElem hi)
  omega

theorem rep_no_zero (msa : Option Rat) (t : Table) (h : TableOK t) :
    ∀ r ∈ reported msa t, r.okta ≥ 1 :=
  fun r hr => (rep_facts h r hr).2.2.2

theorem rep_below_msa (m : Rat) (t : Table) : ∀ r ∈ reported (some m) t, r.base < m := by
  intro r hr
  have := (List.mem_filter.mp hr).2
  simp only [Bool.and_eq_true, belowMsa, decide_eq_true_eq] at this
  exact this.2

theorem rep_prefix (msa : Option Rat) (t : Table) (h : TableOK t) :
    ∀ r ∈ reported msa t, ∃ p, okta2code (.int r.okta) = .ok (some p) ∧ p ∈ ["FEW", "SCT", "BKN", "OVC"] ∧
      r.code = p ++ height2code (some r.base) := by
  intro r hr
  have hf := rep_facts h r hr
  exact code_of_pos h hf.1 hf.2.2.2

theorem lowest_first (msa : Option Rat) (t : Table) (h : TableOK t) (hL : cloudBelow msa t ≠ []) :
    (reported msa t).head? = (cloudBelow msa t).head? :=
  lowest_first_aux msa t (flagsFrom_of_ok h) h.sorted hL

theorem ceiling_reported (msa : Option Rat) (t : Table) (h : TableOK t) (r : Row)
    (hr : (t.filter fun r => decide (r.okta ≥ 5) && belowMsa msa r.base).head? = some r) :
    r ∈ reported msa t :=
  ceiling_aux msa t 0 (by omega) (flagsFrom_of_ok h) h.sorted r hr

theorem ncd_iff (msa : Option Rat) (flag : Bool) (t : Table) (h : TableOK t) :
    metarMsg msa flag t.length t = "NCD" ↔ (∀ r ∈ t, r.okta ≤ 0) ∧ flag = false := by
  by_cases ht : t = []
  · subst ht
    cases flag <;> simp [metarMsg, ncdOrNsc]
  · by_cases hr : reported msa t = []
    · rw [msg_rep_nil ht hr]
      constructor
      · intro hm
        split at hm
        · exact absurd hm (by decide)
        · rename_i hany
          have hf : flag = false := by
            cases flag
            · rfl
            · exact absurd hm (by decide)
          refine ⟨?_, hf⟩
          intro r hrt
          by_contra hcon
          obtain ⟨x, hx, hsig, _⟩ := exists_sig h ⟨r, hrt, by omega⟩
          cases hb : belowMsa msa x.base with
          | true =>
            have : x ∈ reported msa t := by simp [reported, hx, hsig, hb]
            rw [hr] at this; simp at this
          | false =>
            apply hany
            simp only [List.any_eq_true]
            exact ⟨x, hx, by simp [hsig, hb]⟩
      · rintro ⟨hall, hf⟩
        have hany : ¬ (t.any fun r => r.significant && !(belowMsa msa r.base)) = true := by
          simp only [List.any_eq_true]
          rintro ⟨x, hx, hp⟩
          simp only [Bool.and_eq_true] at hp
          have := sig_pos h hx hp.1
          have := hall x hx
          omega
        rw [if_neg hany, hf]
        rfl
    · have hm6 := msg_rep_ne (flag := flag) h hr
      constructor
      · intro hm; exact absurd hm (len3_ne hm6.2).1
      · rintro ⟨hall, _⟩
        exfalso
        obtain ⟨x, xs, hx⟩ := List.exists_cons_of_ne_nil hr
        have hm : x ∈ reported msa t := by rw [hx]; exact List.mem_cons_self
        have hf := rep_facts h x hm
        have := hall x hf.1
        omega

theorem nsc_iff (msa : Option Rat) (flag : Bool) (t : Table) (h : TableOK t) :
    metarMsg msa flag t.length t = "NSC" ↔
      cloudBelow msa t = [] ∧ ((∃ r ∈ t, r.okta ≥ 1 ∧ belowMsa msa r.base = false) ∨ flag = true) := by
  by_cases ht : t = []
  · subst ht
    cases flag <;> simp [metarMsg, ncdOrNsc, cloudBelow]
  · by_cases hr : reported msa t = []
    · have hcb := cloudBelow_nil_of_rep_nil h hr
      have hany := any_above_iff h hcb
      rw [msg_rep_nil ht hr]
      by_cases ha : (t.any fun r => r.significant && !(belowMsa msa r.base)) = true
      · rw [if_pos ha]
        exact ⟨fun _ => ⟨hcb, Or.inl (hany.mp ha)⟩, fun _ => rfl⟩
      · rw [if_neg ha]
        have hne : ¬ ∃ r ∈ t, r.okta ≥ 1 ∧ belowMsa msa r.base = false := fun he => ha (hany.mpr he)
        cases flag
        · constructor
          · intro hm; exact absurd hm (by decide)
          · rintro ⟨_, he | hf⟩
            · exact absurd he hne
            · exact absurd hf (by decide)
        · exact ⟨fun _ => ⟨hcb, Or.inr rfl⟩, fun _ => rfl⟩
    · have hm6 := msg_rep_ne (flag := flag) h hr
      constructor
      · intro hm; exact absurd hm (len3_ne hm6.2).2
      · rintro ⟨hcb, _⟩
        exfalso
        obtain ⟨x, xs, hx⟩ := List.exists_cons_of_ne_nil hr
        have hm : x ∈ reported msa t := by rw [hx]; exact List.mem_cons_self
        have hf := rep_facts h x hm
        have : x ∈ cloudBelow msa t := by simp [cloudBelow, hf.1, hf.2.2.1, hf.2.2.2]
        rw [hcb] at this; simp at this

end Ampy
