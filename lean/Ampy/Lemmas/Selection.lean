import Ampy.Lemmas.Total
import Mathlib.Data.Finset.Card
import Mathlib.Tactic.Linarith
/-!
Part of A3 (`SelectedPopulated`) as a theorem.

In mode `delta`, `best_gmm` never selects a mixture whose score was boosted by `Fix #119` (a mixture
with an empty component) provided every score handed back by the mixture fit is non-negative and the
gain is at most `1`.  With the shape facts of `KernOK` (one label per value, labels below `n`) this gives
`SelectedPopulated K P` by a pigeonhole argument.

Both side conditions are needed: with negative scores (`bestDelta_boosted_witness_negative_scores`) or
with a gain above `1` (`bestDelta_boosted_witness_gain_gt_one`) a boosted mixture is selected.
-/
namespace Ampy
namespace Sel

/-- Index `i` is boosted by `boostScores`: the mixture with `i + 1` components uses fewer than `i + 1`. -/
def Boosted (fits : List GmmFit) (i : Nat) : Prop :=
  ∃ f, fits[i]? = some f ∧ (f.labels.eraseDups).length < i + 1

/-- One step of the fold of `boostScores`. -/
def boostStep (fits : List GmmFit) (ab : List Rat) (i : Nat) : List Rat :=
  match fits[i]? with
  | some f => if (f.labels.eraseDups).length < i + 1 then ab.set i (maxRat ab + 1) else ab
  | none => ab

theorem boostScores_eq (fits : List GmmFit) :
    boostScores fits = (List.range fits.length).foldl (boostStep fits) (fits.map (·.score)) := rfl

/-- What holds of the score list after the first `k` indices have been processed. -/
structure BoostInv (fits : List GmmFit) (k : Nat) (ab : List Rat) : Prop where
  len : ab.length = fits.length
  /-- entries at unboosted positions are the original scores -/
  keep : ∀ j g, ¬ Boosted fits j → fits[j]? = some g → ab[j]? = some g.score
  /-- processed boosted entries exceed every unboosted original score by at least one -/
  above : ∀ i, i < k → Boosted fits i → ∀ j, ¬ Boosted fits j → ∀ a g,
    ab[i]? = some a → fits[j]? = some g → g.score + 1 ≤ a

theorem boostInv_step (fits : List GmmFit) (k : Nat) (ab : List Rat) (h : BoostInv fits k ab) :
    BoostInv fits (k + 1) (boostStep fits ab k) := by
  unfold boostStep
  split
  · rename_i f hf
    split
    · rename_i hlt
      have hB : Boosted fits k := ⟨f, hf, hlt⟩
      refine ⟨by rw [List.length_set]; exact h.len, ?_, ?_⟩
      · intro j g hj hg
        have hjk : k ≠ j := by
          rintro rfl
          exact hj hB
        rw [List.getElem?_set_ne hjk]
        exact h.keep j g hj hg
      · intro i hi hBi j hj a g ha hg
        by_cases hik : i = k
        · subst hik
          have hk : i < ab.length := by
            rw [h.len]
            exact (List.getElem?_eq_some_iff.mp hf).1
          rw [List.getElem?_set_self hk] at ha
          cases ha
          have := le_maxRat (List.mem_of_getElem? (h.keep j g hj hg))
          linarith
        · rw [List.getElem?_set_ne (Ne.symm hik)] at ha
          exact h.above i (by omega) hBi j hj a g ha hg
    · rename_i hlt
      refine ⟨h.len, h.keep, ?_⟩
      intro i hi hBi
      by_cases hik : i = k
      · subst hik
        obtain ⟨f', hf', hlt'⟩ := hBi
        rw [hf] at hf'
        cases hf'
        exact absurd hlt' hlt
      · exact h.above i (by omega) hBi
  · rename_i hf
    refine ⟨h.len, h.keep, ?_⟩
    intro i hi hBi
    by_cases hik : i = k
    · subst hik
      obtain ⟨f', hf', _⟩ := hBi
      rw [hf] at hf'
      cases hf'
    · exact h.above i (by omega) hBi

theorem boostInv_prefix (fits : List GmmFit) :
    ∀ k, BoostInv fits k ((List.range k).foldl (boostStep fits) (fits.map (·.score)))
  | 0 => by
    refine ⟨by simp, ?_, ?_⟩
    · intro j g _ hg
      simp [List.getElem?_map, hg]
    · intro i hi
      omega
  | k + 1 => by
    rw [List.range_succ, List.foldl_append, List.foldl_cons, List.foldl_nil]
    exact boostInv_step fits k _ (boostInv_prefix fits k)

/-- Characterisation of `boostScores`: same length; unboosted entries keep their score; every boosted
entry is at least one above every unboosted score. -/
theorem boostScores_inv (fits : List GmmFit) : BoostInv fits fits.length (boostScores fits) := by
  rw [boostScores_eq]
  exact boostInv_prefix fits fits.length

theorem boostScores_length (fits : List GmmFit) : (boostScores fits).length = fits.length :=
  (boostScores_inv fits).len

/-- The fold of `bestDelta` only ever holds an unboosted index. -/
theorem bestDelta_unboosted (fits : List GmmFit) (ab : List Rat) (gain : Rat) (hg1 : gain ≤ 1)
    (hnonneg : ∀ f ∈ fits, 0 ≤ f.score) (h0 : ¬ Boosted fits 0) (hinv : BoostInv fits fits.length ab) :
    ¬ Boosted fits (bestDelta ab gain) := by
  unfold bestDelta
  apply Lay.foldl_inv _ (fun b => ¬ Boosted fits b)
  · intro best m hbest
    split
    · rename_i a b ha hb
      split
      · rename_i hlt
        intro hBm
        have hm : m + 1 < fits.length := by
          obtain ⟨f, hf, _⟩ := hBm
          exact (List.getElem?_eq_some_iff.mp hf).1
        have hbl : best < fits.length := by
          rw [← hinv.len]
          exact (List.getElem?_eq_some_iff.mp hb).1
        have hg : fits[best]? = some fits[best] := List.getElem?_eq_getElem hbl
        have hk := hinv.keep best _ hbest hg
        rw [hb] at hk
        cases hk
        have h1 := hinv.above (m + 1) hm hBm best hbest a _ ha hg
        have h2 := hnonneg _ (List.mem_of_getElem? hg)
        have h3 : gain * (fits[best]).score ≤ 1 * (fits[best]).score :=
          mul_le_mul_of_nonneg_right hg1 h2
        linarith
      · exact hbest
    · exact hbest
  · exact h0

/-- Pigeonhole: naturals below `n` with at least `n` distinct values cover `0 .. n-1`. -/
theorem mem_of_eraseDups_length_ge (l : List Nat) (n : Nat) (hlt : ∀ x ∈ l, x < n)
    (hlen : n ≤ (l.eraseDups).length) : ∀ i, i < n → i ∈ l := by
  intro i hi
  rw [eraseDups_length_eq_card] at hlen
  have hsub : l.toFinset ⊆ Finset.range n := by
    intro x hx
    rw [List.mem_toFinset] at hx
    exact Finset.mem_range.mpr (hlt x hx)
  have heq := Finset.eq_of_subset_of_card_le hsub (by rw [Finset.card_range]; exact hlen)
  have : i ∈ l.toFinset := by
    rw [heq]
    exact Finset.mem_range.mpr hi
  exact List.mem_toFinset.mp this

theorem eraseDups_length_pos (l : List Nat) (h : l ≠ []) : 1 ≤ (l.eraseDups).length := by
  cases l with
  | nil => exact absurd rfl h
  | cons a t =>
    rw [List.eraseDups_cons, List.length_cons]
    omega

/-- `selectedFit` in mode `delta`, spelled out. -/
theorem selectedFit_delta {α} (K : Kern) (P : PPrms α) (hmode : P.gmmMode = "delta") (vals : List Rat)
    (ncompMax : Nat) :
    selectedFit K P vals ncompMax =
      (((List.range (min ncompMax (vals.eraseDups).length)).map fun i =>
          K.gmm P.gmmScores (Lay.gmmScaled P vals) (i + 1))[
        bestDelta (boostScores ((List.range (min ncompMax (vals.eraseDups).length)).map fun i =>
          K.gmm P.gmmScores (Lay.gmmScaled P vals) (i + 1))) P.gmmGain]?).map fun f =>
        (bestDelta (boostScores ((List.range (min ncompMax (vals.eraseDups).length)).map fun i =>
          K.gmm P.gmmScores (Lay.gmmScaled P vals) (i + 1))) P.gmmGain + 1, f) := by
  unfold selectedFit
  simp only [hmode, if_true]
  rfl

/-- The two mixtures of the witness: both put every point in component `0`. -/
def witnessNeg : List GmmFit := [⟨[0, 0], -1000⟩, ⟨[0, 0], -992⟩]

def witnessGain : List GmmFit := [⟨[0, 0], 10⟩, ⟨[0, 0], 5⟩]

end Sel

/-- (1) In mode `delta`, with non-negative scores and a gain `≤ 1`, the index `best_gmm` selects is never
one whose score `Fix #119` boosted (`0 ≤ gain` is not needed). -/
theorem bestDelta_never_boosted (fits : List GmmFit) (gain : Rat) (hg1 : gain ≤ 1)
    (hnonneg : ∀ f ∈ fits, 0 ≤ f.score)
    (h0 : ∀ f, fits[0]? = some f → ¬ ((f.labels.eraseDups).length < 0 + 1)) :
    ∀ f, fits[bestDelta (boostScores fits) gain]? = some f →
      ¬ ((f.labels.eraseDups).length < bestDelta (boostScores fits) gain + 1) := by
  intro f hf hlt
  exact Sel.bestDelta_unboosted fits (boostScores fits) gain hg1 hnonneg
    (fun ⟨g, hg, hl⟩ => h0 g hg hl) (Sel.boostScores_inv fits) ⟨f, hf, hlt⟩

/-- (2) A3 in mode `delta`: for a kernel of the documented shape whose mixture scores are non-negative,
and a gain `≤ 1`, the selected mixture has no empty component. -/
theorem selectedPopulated_of_delta {α} (K : Kern) (P : PPrms α) (q : Rat) (hK : KernOK K q)
    (hmode : P.gmmMode = "delta") (hg1 : P.gmmGain ≤ 1)
    (hscore : ∀ s vals n, 0 ≤ (K.gmm s vals n).score) :
    SelectedPopulated K P := by
  intro vals ncompMax n f h i hi
  rw [Sel.selectedFit_delta K P hmode] at h
  obtain ⟨f', hf', he⟩ := Option.map_eq_some_iff.mp h
  cases he
  have hnb := bestDelta_never_boosted
    ((List.range (min ncompMax (vals.eraseDups).length)).map fun i =>
      K.gmm P.gmmScores (Lay.gmmScaled P vals) (i + 1)) P.gmmGain hg1
    (by
      intro g hg
      obtain ⟨j, _, rfl⟩ := List.mem_map.mp hg
      exact hscore _ _ _)
    (by
      intro g hg
      rw [List.getElem?_map] at hg
      obtain ⟨j, hj, rfl⟩ := Option.map_eq_some_iff.mp hg
      obtain ⟨hj0, hj⟩ := List.getElem?_eq_some_iff.mp hj
      rw [List.length_range] at hj0
      have hv : vals ≠ [] := by
        rintro rfl
        simp at hj0
      have hl : (K.gmm P.gmmScores (Lay.gmmScaled P vals) (j + 1)).labels ≠ [] := by
        intro he
        have h1 := hK.gmm_len P.gmmScores (Lay.gmmScaled P vals) (j + 1)
        rw [he] at h1
        have h2 : (Lay.gmmScaled P vals).length = vals.length := Lay.gmmScaled_length P.gmmRescale vals
        rw [← h1] at h2
        exact hv (List.length_eq_zero_iff.mp h2.symm)
      have := Sel.eraseDups_length_pos _ hl
      omega)
    f hf'
  rw [List.getElem?_map] at hf'
  obtain ⟨j, hj, rfl⟩ := Option.map_eq_some_iff.mp hf'
  obtain ⟨_, hj⟩ := List.getElem?_eq_some_iff.mp hj
  rw [List.getElem_range] at hj
  subst hj
  exact Sel.mem_of_eraseDups_length_ge _ _
    (hK.gmm_lt _ _ _ (Nat.succ_pos _)) (Nat.le_of_not_lt hnb) i hi

/-- (3) Non-negativity cannot be dropped: with scores `-1000, -992` and gain `0.95` the second mixture,
which leaves a component empty, is boosted to `-991` and still selected (`-991 < 0.95 * -1000`). -/
theorem bestDelta_boosted_witness_negative_scores :
    bestDelta (boostScores Sel.witnessNeg) (95 / 100) = 1 ∧
    ((Sel.witnessNeg[1]?).map fun f => decide ((f.labels.eraseDups).length < 1 + 1)) = some true ∧
    ((Sel.witnessNeg[0]?).map fun f => decide ((f.labels.eraseDups).length < 0 + 1)) = some false := by
  decide +kernel

/-- The conclusion of `bestDelta_never_boosted` fails for the witness although `0 ≤ gain ≤ 1` and the
first mixture is populated: only `hnonneg` is missing. -/
theorem bestDelta_never_boosted_needs_nonneg :
    (0 : Rat) ≤ 95 / 100 ∧ (95 / 100 : Rat) ≤ 1 ∧ ¬ Sel.Boosted Sel.witnessNeg 0 ∧
    Sel.Boosted Sel.witnessNeg (bestDelta (boostScores Sel.witnessNeg) (95 / 100)) := by
  obtain ⟨h1, _, _⟩ := bestDelta_boosted_witness_negative_scores
  rw [h1]
  refine ⟨by decide +kernel, by decide +kernel, ?_, ?_⟩
  · rintro ⟨f, hf, hlt⟩
    cases hf
    revert hlt
    decide
  · exact ⟨⟨[0, 0], -992⟩, rfl, by decide⟩

/-- Nor can `gain ≤ 1`: with scores `10, 5` and gain `2` the boosted second mixture (`11 < 2 * 10`) is
selected. -/
theorem bestDelta_boosted_witness_gain_gt_one :
    bestDelta (boostScores Sel.witnessGain) 2 = 1 ∧
    ((Sel.witnessGain[1]?).map fun f => decide ((f.labels.eraseDups).length < 1 + 1)) = some true ∧
    ((Sel.witnessGain[0]?).map fun f => decide ((f.labels.eraseDups).length < 0 + 1)) = some false := by
  decide +kernel

end Ampy
