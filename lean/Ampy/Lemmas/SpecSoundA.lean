import Ampy.Spec.C17
import Ampy.Spec.C18
import Ampy.Spec.Checks
import Ampy.Lemmas.Icao
import Ampy.Lemmas.Wmo
import Ampy.Lemmas.Pipeline
import Ampy.Lemmas.Count
import Ampy.Lemmas.Base
import Ampy.Props.C03
import Ampy.Props.C04
import Ampy.Props.C17
import Ampy.Props.C18
import Mathlib.Tactic.Ring
/-!
# Soundness of the monitor predicates on the model's own output (part A: C17, C18, C03, C04)

"If the implementation behaves exactly like the model, the spec predicate raises nothing."

All five requested statements are TRUE as stated; no counterexample was found and nothing was
weakened:

* `spec_c17_sound`      : `Spec.c17 os (significantCloud os) = true`
* `spec_c18okta_sound`  : `perc2oktaNM n m = .ok k → Spec.c18okta n m k = true`   (`0 < m`, `n ≤ m`)
* `spec_c18row_sound`   : the whole row `n = 0..m` produced by `perc2oktaNM` passes `Spec.c18row`
* `spec_c18height_sound`: `Spec.c18height h (height2code (some h)) = true`        (`0 ≤ h < 10^5`)
* `spec_c03_sound`      : `Spec.c03 P.t0 P.t8 data ids t = []` for every table `metarize` builds
                          (`HeightsInRange` NOT needed; `0 ≤ P.t0` is in the statement but unused)
* `spec_c04_sound`      : `Spec.c04 data ids t = []` for every table `metarize` builds
                          (needs `HeightsInRange data`, as in the requested statement: the code-floor
                          clause `c18height` only accepts three-digit codes, i.e. bases in `[0, 10^5)`)

(`#print axioms` on each: propext, Classical.choice, Quot.sound only.)
-/

namespace Ampy

/-! ## 1. C17 -/

theorem spec_c17_sound (os : List Int) : Spec.c17 os (significantCloud os) = true := by
  unfold Spec.c17
  simp only [Bool.and_eq_true, beq_iff_eq, List.all_eq_true, List.mem_range]
  refine ⟨C17_length os, ?_⟩
  intro i hi
  have hi' : i < (significantCloud os).length := by rw [C17_length]; exact hi
  rw [List.getElem?_eq_getElem hi, List.getElem?_eq_getElem hi']
  simp only
  have hc := C17_char os i hi
  cases hb : (significantCloud os)[i] with
  | true =>
    have := hc.mp hb
    simp [this.1, this.2]
  | false =>
    have hn : ¬ (((significantCloud os).take i).count true < 3 ∧
      os[i] ≥ 2 * ((((significantCloud os).take i).count true : Nat) : Int) + 1) := by
      intro h; have := hc.mpr h; rw [hb] at this; cases this
    by_cases h1 : ((significantCloud os).take i).count true < 3
    · have h2 : ¬ os[i] ≥ 2 * ((((significantCloud os).take i).count true : Nat) : Int) + 1 :=
        fun h => hn ⟨h1, h⟩
      simp [h2]
    · simp [h1]

/-! ## 3. C18 height code -/

theorem digitChar_toNat_sub {k : Nat} (hk : k < 10) : (Nat.digitChar k).toNat - 48 = k := by
  have : k = 0 ∨ k = 1 ∨ k = 2 ∨ k = 3 ∨ k = 4 ∨ k = 5 ∨ k = 6 ∨ k = 7 ∨ k = 8 ∨ k = 9 := by omega
  rcases this with h | h | h | h | h | h | h | h | h | h <;> subst h <;> decide

/-- The spec predicate on the three digit characters of a natural number below 1000. -/
theorem c18height_of_digits (h : Rat) (n : Nat) (hn : n < 1000)
    (hlo : (n : Rat) * 100 ≤ h)
    (h1 : h ≤ 10000 → h < ((n : Rat) + 1) * 100)
    (h2 : ¬ h ≤ 10000 → n % 10 = 0 ∧ h < ((n : Rat) + 10) * 100) :
    Spec.c18height h
      (String.ofList [Nat.digitChar (n / 100), Nat.digitChar (n / 10 % 10), Nat.digitChar (n % 10)]) = true := by
  unfold Spec.c18height
  rw [String.toList_ofList]
  simp only
  have d0 : n / 100 < 10 := by omega
  have d1 : n / 10 % 10 < 10 := by omega
  have d2 : n % 10 < 10 := by omega
  rw [digitChar_isDigit d0, digitChar_isDigit d1, digitChar_isDigit d2,
    digitChar_toNat_sub d0, digitChar_toNat_sub d1, digitChar_toNat_sub d2]
  have ev : n / 100 * 100 + n / 10 % 10 * 10 + n % 10 = n := by omega
  rw [ev]
  simp only [Bool.true_and, Bool.and_eq_true, decide_eq_true_eq]
  refine ⟨hlo, ?_⟩
  by_cases hl : h ≤ 10000
  · rw [if_pos hl]; simpa using h1 hl
  · rw [if_neg hl]
    have := h2 hl
    simp only [Bool.and_eq_true, beq_iff_eq, decide_eq_true_eq]
    exact this

theorem spec_c18height_sound (h : Rat) (h0 : 0 ≤ h) (h1 : h < 100000) :
    Spec.c18height h (height2code (some h)) = true := by
  obtain ⟨r0, r1⟩ := hh_range h0 h1
  obtain ⟨n, hn⟩ : ∃ n : Nat, heightHundreds h = (n : Int) := ⟨(heightHundreds h).toNat, by omega⟩
  have hn' : n < 1000 := by omega
  have e : height2code (some h) =
      String.ofList [Nat.digitChar (n / 100), Nat.digitChar (n / 10 % 10), Nat.digitChar (n % 10)] := by
    show fmt03 (heightHundreds h) = _
    unfold fmt03 padNat3
    rw [hn, if_pos (by omega)]
    simp only [Int.toNat_natCast]
    rw [if_pos hn']
  rw [e]
  have cast : ((heightHundreds h : Int) : Rat) = (n : Rat) := by rw [hn]; simp
  apply c18height_of_digits h n hn'
  · rw [← cast]; exact hh_le h
  · intro hl; rw [← cast]; exact (hh_low hl).2
  · intro hl
    obtain ⟨_, b, c⟩ := hh_high hl
    refine ⟨by omega, ?_⟩
    rw [← cast]; exact b

/-! ## 2. C18 okta -/

theorem absRat_le_iff (x c : Rat) : absRat x ≤ c ↔ -c ≤ x ∧ x ≤ c := by
  unfold absRat
  by_cases hx : x < 0
  · rw [if_pos hx]
    exact ⟨fun h => ⟨by linarith, by linarith⟩, fun h => by linarith [h.1]⟩
  · rw [if_neg hx]
    exact ⟨fun h => ⟨by linarith, h⟩, fun h => h.2⟩

theorem c18okta_oktaOfPerc (n m : Nat) (hm : 0 < m) (h : n ≤ m) :
    Spec.c18okta n m (oktaOfPerc ((n : Rat) / (m : Rat) * 100)) = true := by
  unfold Spec.c18okta
  by_cases hn0 : n = 0
  · rw [if_pos hn0]
    simp only [beq_iff_eq]
    exact (C18_zero_iff n m hm h).mpr hn0
  · rw [if_neg hn0]
    by_cases hnm : n = m
    · rw [if_pos hnm]
      simp only [beq_iff_eq]
      exact (C18_eight_iff n m hm h).mpr hnm
    · rw [if_neg hnm]
      have hr := percNM_range hm h
      have p0 : 0 < (n : Rat) / (m : Rat) * 100 :=
        lt_of_le_of_ne hr.1 (fun e => hn0 ((percNM_eq_zero hm).mp e.symm))
      have p1 : (n : Rat) / (m : Rat) * 100 < 100 :=
        lt_of_le_of_ne hr.2 (fun e => hnm ((percNM_eq_hundred hm).mp e))
      have hrange := oktaOfPerc_inner_range p0 p1
      have hx : (n : Rat) / (m : Rat) * 100 * 8 / 100 = 8 * (n : Rat) / (m : Rat) := by ring
      have hin := oktaOfPerc_inner p0 p1
      rw [hx] at hin
      generalize oktaOfPerc ((n : Rat) / (m : Rat) * 100) = k at hrange hin
      generalize 8 * (n : Rat) / (m : Rat) = x at hin
      simp only [Bool.and_eq_true, Bool.or_eq_true, decide_eq_true_eq, beq_iff_eq]
      refine ⟨⟨hrange.1, hrange.2⟩, ?_⟩
      rw [absRat_le_iff]
      by_cases c1 : x < 1
      · rw [if_pos c1] at hin
        subst hin
        by_cases c : x ≤ 1/2
        · exact Or.inl (Or.inr ⟨rfl, c⟩)
        · refine Or.inl (Or.inl ⟨?_, ?_⟩) <;> push_cast <;> linarith
      · rw [if_neg c1] at hin
        by_cases c2 : x > 7
        · rw [if_pos c2] at hin
          subst hin
          by_cases c : x ≥ 15/2
          · exact Or.inr ⟨rfl, c⟩
          · refine Or.inl (Or.inl ⟨?_, ?_⟩) <;> push_cast <;> linarith
        · rw [if_neg c2] at hin
          subst hin
          have hb := rhe_bounds x
          refine Or.inl (Or.inl ⟨?_, ?_⟩) <;> linarith [hb.1, hb.2]

theorem spec_c18okta_sound (n m : Nat) (hm : 0 < m) (h : n ≤ m) (k : Int)
    (hk : perc2oktaNM n m = .ok k) : Spec.c18okta n m k = true := by
  rw [C18_nm_ok n m hm h] at hk
  injection hk with hk
  subst hk
  exact c18okta_oktaOfPerc n m hm h

theorem spec_c18row_sound (m : Nat) (hm : 0 < m) (ks : List Int) (hks : ks.length = m + 1)
    (h : ∀ n (hn : n < m + 1), perc2oktaNM n m = .ok (ks[n]'(by omega))) :
    Spec.c18row m ks = true := by
  have key : ∀ n (hn : n < m + 1), ks[n]'(by omega) = oktaOfPerc ((n : Rat) / (m : Rat) * 100) := by
    intro n hn
    have := h n hn
    rw [C18_nm_ok n m hm (by omega)] at this
    injection this with this
    exact this.symm
  unfold Spec.c18row
  simp only [Bool.and_eq_true, beq_iff_eq, List.all_eq_true, List.mem_range]
  refine ⟨⟨hks, ?_⟩, ?_⟩
  · intro n hn
    rw [List.getElem?_eq_getElem (by omega)]
    simp only
    rw [key n hn]
    exact c18okta_oktaOfPerc n m hm (by omega)
  · intro n hn
    rw [List.getElem?_eq_getElem (by omega), List.getElem?_eq_getElem (by omega)]
    simp only [decide_eq_true_eq]
    rw [key n (by omega), key (n + 1) (by omega)]
    exact C18_mono n (n + 1) m hm (by omega) (by omega)

/-! ## 4. C03 -/

theorem close_refl (a : Rat) : Spec.close a a = true := by
  unfold Spec.close
  simp only [sub_self, decide_eq_true_eq]
  have h0 : absRat 0 = 0 := by unfold absRat; simp
  rw [h0]
  have := absRat_nonneg a
  split <;> positivity

theorem foldl_nil_of {β γ} (g : List γ → β → List γ) (l : List β) (h : ∀ r ∈ l, g [] r = []) :
    l.foldl g [] = [] := by
  induction l with
  | nil => rfl
  | cons a l ih =>
    rw [List.foldl_cons, h a (List.mem_cons_self)]
    exact ih (fun r hr => h r (List.mem_cons_of_mem _ hr))

/-- The WMO abbreviation of an okta in `0..8` has three characters and stands for that okta. -/
theorem okta2code_prefix (o : Int) (h0 : 0 ≤ o) (h8 : o ≤ 8) (p : String)
    (hp : okta2code (.int o) = .ok (some p)) :
    p.toList.length = 3 ∧ (Spec.prefixOkta p).contains o = true := by
  have : o = 0 ∨ o = 1 ∨ o = 2 ∨ o = 3 ∨ o = 4 ∨ o = 5 ∨ o = 6 ∨ o = 7 ∨ o = 8 := by omega
  rcases this with rfl | rfl | rfl | rfl | rfl | rfl | rfl | rfl | rfl <;>
    (injection hp with hp; injection hp with hp; subst hp; exact ⟨by decide, by decide⟩)

theorem code_take3 (p s : String) (hp : p.toList.length = 3) :
    String.ofList ((p ++ s).toList.take 3) = p := by
  rw [String.toList_append, List.take_left' hp, String.ofList_toList]

theorem code_drop3 (p s : String) (hp : p.toList.length = 3) :
    String.ofList ((p ++ s).toList.drop 3) = s := by
  rw [String.toList_append, List.drop_left' hp, String.ofList_toList]

/-- What the model writes in one table row, in the vocabulary of the spec predicates. -/
theorem metarize_row_facts {α} [DecidableEq α] (K : MetK) (P : Prms α) (w : Which) (ld : Bool)
    (data : List (Hit α)) (ids : List Int) (hK : MetKOK K P.basePerc) (h : IdsOK data ids)
    (t : Table) (ht : metarize K P w ld data ids = .ok t) (r : Row) (hr : r ∈ t) :
    r.nHits = Spec.distinctMeas (members data ids r.cid) ∧
    maxHits data = Spec.distinctMeas data ∧
    r.perc = (r.nHits : Rat) / (maxHits data : Rat) * 100 ∧
    oktaOf r.nHits (maxHits data) P.t0 P.t8 = .ok r.okta ∧
    (0 ≤ r.okta ∧ r.okta ≤ 8) ∧
    (∃ p, okta2code (.int r.okta) = .ok (some p) ∧ r.code = p ++ height2code (some r.base)) ∧
    (let hs := (members data ids r.cid).filterMap (·.height)
     r.hmin = minRat hs ∧ r.hmax = maxRat hs ∧ r.mean = meanRat hs ∧ r.var = varRat hs ∧
     r.thick = maxRat hs - minRat hs ∧ 0 ≤ r.fluff) := by
  obtain ⟨hc, r₀, hm, he⟩ := metarize_rows K P w ld data ids hK t ht r hr
  obtain ⟨h1, h2, h3⟩ := C03_row_counts K P w data ids r.cid r₀ hm
  obtain ⟨s1, s2, s3, s4, s5, _, s7⟩ := C04_stats K P w data ids r.cid r₀ hm
  have hcode := (C04_row_base K P w data ids r.cid r₀ hm).2
  have en : r.nHits = r₀.nHits := by rw [he]
  have ep : r.perc = r₀.perc := by rw [he]
  have eo : r.okta = r₀.okta := by rw [he]
  have eb : r.base = r₀.base := by rw [he]
  have ec : r.code = r₀.code := by rw [he]
  have e1 : r.hmin = r₀.hmin := by rw [he]
  have e2 : r.hmax = r₀.hmax := by rw [he]
  have e3 : r.mean = r₀.mean := by rw [he]
  have e4 : r.var = r₀.var := by rw [he]
  have e5 : r.thick = r₀.thick := by rw [he]
  have e6 : r.fluff = r₀.fluff := by rw [he]
  obtain ⟨o, ho, hrange⟩ := row_okta_ok P data ids r.cid h hc
  rw [← h1, h3] at ho
  cases ho
  rw [en, ep, eo, eb, ec, e1, e2, e3, e4, e5, e6]
  refine ⟨?_, ?_, h2, h3, hrange, mkCode_eq _ _ _ hcode, s1, s2, s3, s4, ?_, s7⟩
  · rw [h1]; exact C03_nhits_distinct data ids r.cid
  · exact C03_M_distinct data
  · rw [s5, s1, s2]

theorem spec_c03_sound {α} [DecidableEq α] (K : MetK) (P : Prms α) (w : Which) (ld : Bool)
    (data : List (Hit α)) (ids : List Int) (hK : MetKOK K P.basePerc) (h : IdsOK data ids)
    (ht0 : 0 ≤ P.t0) (t : Table) (ht : metarize K P w ld data ids = .ok t) :
    Spec.c03 P.t0 P.t8 data ids t = [] := by
  have _ := ht0
  unfold Spec.c03
  simp only
  apply foldl_nil_of
  intro r hr
  obtain ⟨f1, f2, f3, f4, ⟨o0, o8⟩, ⟨p, hp, hcode⟩, _⟩ :=
    metarize_row_facts K P w ld data ids hK h t ht r hr
  obtain ⟨pl, pc⟩ := okta2code_prefix r.okta o0 o8 p hp
  rw [← f1, ← f2]
  have c1 : (if r.nHits = r.nHits then ([] : List String) else [s!"C03.n_hits cid={r.cid}"]) = [] :=
    if_pos rfl
  have c2 : Spec.close r.perc ((r.nHits : Rat) / (maxHits data : Rat) * 100) = true := by
    rw [← f3]; exact close_refl _
  have c4 : (Spec.prefixOkta (String.ofList (r.code.toList.take 3))).contains r.okta = true := by
    rw [hcode, code_take3 p _ pl]; exact pc
  rw [c1, if_pos c2, if_pos c4, if_pos]
  · rfl
  · unfold oktaOf at f4
    by_cases a : (r.nHits : Rat) ≤ P.t0
    · rw [if_pos a] at f4 ⊢; injection f4 with f4; exact f4.symm
    · rw [if_neg a] at f4 ⊢
      by_cases b : ((((maxHits data : Nat) : Int) - (r.nHits : Int) : Int) : Rat) ≤ P.t8
      · rw [if_pos b] at f4 ⊢; injection f4 with f4; exact f4.symm
      · rw [if_neg b] at f4 ⊢; rw [f4]

/-! ## 5. C04 -/

theorem spec_c04_sound {α} [DecidableEq α] (K : MetK) (P : Prms α) (w : Which) (ld : Bool)
    (data : List (Hit α)) (ids : List Int) (hK : MetKOK K P.basePerc) (h : IdsOK data ids)
    (hr : HeightsInRange data) (ht0 : 0 ≤ P.t0) (t : Table)
    (ht : metarize K P w ld data ids = .ok t) : Spec.c04 data ids t = [] := by
  have hok := metarize_tableOK K P w ld data ids hK h hr ht0 t ht
  have hsorted : sortedRat (t.map (·.base)) = true := by
    rw [sortedRat_iff, List.pairwise_map]; exact hok.sorted
  unfold Spec.c04
  rw [if_pos hsorted, List.nil_append]
  apply foldl_nil_of
  intro r hrt
  obtain ⟨_, _, _, _, ⟨o0, o8⟩, ⟨p, hp, hcode⟩, s1, s2, s3, s4, s5, s6⟩ :=
    metarize_row_facts K P w ld data ids hK h t ht r hrt
  obtain ⟨pl, _⟩ := okta2code_prefix r.okta o0 o8 p hp
  obtain ⟨b1, b2⟩ := C04_base_inside K P w ld data ids hK h ht0 t ht r hrt
  obtain ⟨g0, g1⟩ := hok.bases r hrt
  simp only
  have c1 : (decide (minRat ((members data ids r.cid).filterMap (·.height)) ≤ r.base) &&
      decide (r.base ≤ maxRat ((members data ids r.cid).filterMap (·.height)))) = true := by
    simp only [Bool.and_eq_true, decide_eq_true_eq]; exact ⟨b1, b2⟩
  have c3 : Spec.close r.thick (maxRat ((members data ids r.cid).filterMap (·.height)) -
      minRat ((members data ids r.cid).filterMap (·.height))) = true := by
    rw [← s5]; exact close_refl _
  have c4 : Spec.close r.mean (meanRat ((members data ids r.cid).filterMap (·.height))) = true := by
    rw [← s3]; exact close_refl _
  have c6 : decide (0 ≤ r.fluff) = true := by simpa using s6
  have c7 : Spec.c18height r.base (String.ofList (r.code.toList.drop 3)) = true := by
    rw [hcode, code_drop3 p _ pl]; exact spec_c18height_sound r.base g0 g1
  rw [if_pos c1, if_pos ⟨s1, s2⟩, if_pos c3, if_pos c4, if_pos c6, if_pos c7, s4]
  cases varRat ((members data ids r.cid).filterMap (·.height)) with
  | none => rfl
  | some v =>
    simp only
    rw [if_pos (close_refl v)]
    rfl

end Ampy
