import Ampy.Driver.Run
/-
Driver side of the scaler correspondence (`SCALE` requests, C19).

  SCALE | SPEC <minmax:r | minmaxfixed:lo:hi | shift:s|nan:k | step:a,b:c,d,e | none> | VALS <v|nan>* | OUT <impl values|nan|err>
Answer `SCALE ok` or findings: NE (model vs implementation, 1e-9), SPEC C19.* (on the implementation's output).
-/
namespace Ampy.Driver
open Ampy

def parseSpec (s : String) : ScaleSpec :=
  match s.splitOn ":" with
  | ["minmaxfixed", lo, hi] => .minmaxFixed ((parseRat? lo).getD 0) ((parseRat? hi).getD 1)
  | _ => parseHScale s

def orats (toks : List String) : List (Option Rat) := toks.filterMap parseORat?

def handleScale (ws : List String) : String :=
  let ss := parseSecs ("HEAD" :: ws)
  let spec := parseSpec ((sec ss "SPEC").headD "none")
  let vals := orats (sec ss "VALS")
  let outToks := sec ss "OUT"
  let implErr := outToks == ["err"]
  let impl := orats outToks
  let res := applyScaling vals spec
  let finds : List String :=
    match res with
    | .error _ => if implErr then [] else ["NE outcome impl=values model=AmpycloudError"]
    | .ok out =>
      if implErr then ["NE outcome impl=AmpycloudError model=values"]
      else
        (if out.length == impl.length then [] else [s!"NE length impl={impl.length} model={out.length}"]) ++
        ((zipIdx (impl.zip out)).filterMap fun (i, (a, b)) =>
          match a, b with
          | none, none => none
          | some x, some y => if Spec.close x y then none else some s!"NE value[{i}] impl={showRat x} model={showRat y}"
          | _, _ => some s!"NE nan-position[{i}]") ++
        -- spec on the implementation's output
        (if (vals.zip impl).all (fun (v, o) => v.isNone == o.isNone) then [] else ["SPEC C19.nan-stays-nan"]) ++
        (let pairs := (vals.zip impl).filterMap fun (v, o) => match v, o with | some a, some b => some (a, b) | _, _ => none
         if pairs.all (fun p => pairs.all fun q => !(decide (p.1 < q.1)) || decide (p.2 ≤ q.2)) then []
         else ["SPEC C19.order-preserving"]) ++
        (match spec with
         | .minmax _ => if (valids impl).all (fun y => decide (0 ≤ y) && decide (y ≤ 1)) then [] else ["SPEC C19.minmax-into-unit-interval"]
         | _ => []) ++
        -- NaN-blindness on the model side of the tie: scaling the NaN-free list gives the same non-NaN values
        (match applyScaling ((valids vals).map some) spec with
         | .ok o2 => if valids o2 == valids out then [] else ["NE nan-blind-model"]
         | .error _ => ["NE nan-blind-model-error"])
  if finds.isEmpty then "SCALE ok" else "SCALE " ++ "; ".intercalate (finds.take 6)

end Ampy.Driver
