import Ampy.Driver.Run
import Ampy.Model.Stage
/-
Driver side of the stage-machine correspondence (`HIST` requests, C14).

The harness explores the implementation's reachable states under the ten operations (states merged by
digest) and ships the graph; the driver walks the same graph with the model from the fresh chunk and
compares, edge by edge, what the caller sees and, node by node, the whole state.

  HIST | PRM .. | ROWS .. | <kernel sections as in RUN> | NNODES n
       | SIDS<k> <ids|none> | GIDS<k> .. | LIDS<k> .. | TSLICES<k> <rows|none> | TGROUPS<k> .. | TLAYERS<k> ..   (k < n)
       | EDGES <src> <op> <dst> <out> ; ...      op ∈ fs fg fl mS mG mL qS qG qL ; out ∈ done AmpycloudError crash:X msg:<text with _>
-/
namespace Ampy.Driver
open Ampy

def parseOp : String → Option Op
  | "fs" => some .findSlices | "fg" => some .findGroups | "fl" => some .findLayers
  | "mS" => some (.metarize .slices) | "mG" => some (.metarize .groups) | "mL" => some (.metarize .layers)
  | "qS" => some (.metarMsg .slices) | "qG" => some (.metarMsg .groups) | "qL" => some (.metarMsg .layers)
  | _ => none

def showOut : Out → String
  | .done => "done"
  | .msg s => "msg:" ++ s.replace " " "_"
  | .ampyError => "AmpycloudError"
  | .crash c => "crash:" ++ c

def optIds (toks : List String) : Option (Option (List Int)) :=
  if toks == ["none"] then some none else (allSome (toks.map parseInt?)).map some

def optTable (toks : List String) : Option (Option Table) :=
  if toks == ["none"] then some none else (parseTable toks).map some

structure ImplState where
  sids : Option (List Int)
  gids : Option (List Int)
  lids : Option (List Int)
  slices : Option Table
  groups : Option Table
  layers : Option Table

def cmpOptIds (name : String) (a b : Option (List Int)) : List String :=
  match a, b with
  | none, none => []
  | some x, some y => cmpIds name x y
  | _, _ => [s!"NE {name} presence impl={a.isSome} model={b.isSome}"]

def cmpOptTable (name : String) (a b : Option Table) : List String :=
  match a, b with
  | none, none => []
  | some x, some y => cmpTable name x y
  | _, _ => [s!"NE {name}-table presence impl={a.isSome} model={b.isSome}"]

def cmpState (k : Nat) (i : ImplState) (m : Chunk String) : List String :=
  (cmpOptIds "slice_id" i.sids m.sids ++ cmpOptIds "group_id" i.gids m.gids ++ cmpOptIds "layer_id" i.lids m.lids ++
   cmpOptTable "slices" i.slices m.slices ++ cmpOptTable "groups" i.groups m.groups ++
   cmpOptTable "layers" i.layers m.layers).map fun s => s ++ s!" @node{k}"

structure Edge where
  src : Nat
  op : Op
  opTok : String
  dst : Nat
  out : String

def parseEdge : List String → Option Edge
  | [s, o, d, out] =>
    match parseNat? s, parseOp o, parseNat? d with
    | some s, some op, some d => some ⟨s, op, o, d, out⟩
    | _, _, _ => none
  | _ => none

/-- Walk the implementation's graph with the model. `assoc` maps visited impl nodes to model states. -/
partial def walk (K : Kern) (P : PPrms String) (nodes : Array ImplState) (edges : List Edge)
    (todo : List Nat) (assoc : List (Nat × Chunk String)) (acc : List String) : List String :=
  match todo with
  | [] => acc
  | n :: rest =>
    match assoc.find? (·.1 == n) with
    | none => walk K P nodes edges rest assoc acc
    | some (_, mc) =>
      let out := (edges.filter (·.src == n)).foldl (fun (st : List Nat × List (Nat × Chunk String) × List String) e =>
        let (td, as, ac) := st
        let (mc', o) := step K P mc e.op
        let ac := if showOut o == e.out then ac else ac ++ [s!"NE outcome node{n}.{e.opTok} impl={e.out} model={showOut o}"]
        match as.find? (·.1 == e.dst) with
        | some _ => (td, as, ac)     -- already associated; its content was compared when first reached
        | none =>
          let ac := match nodes[e.dst]? with
            | some is => ac ++ cmpState e.dst is mc'
            | none => ac ++ [s!"NE unknown-node {e.dst}"]
          (td ++ [e.dst], as ++ [(e.dst, mc')], ac)) (rest, assoc, acc)
      walk K P nodes edges out.1 out.2.1 out.2.2

def handleHist (ws : List String) : String :=
  let ss := parseSecs ("HEAD" :: ws)
  let P := parsePPrms (sec ss "PRM")
  match allSome ((rowsOf (sec ss "ROWS")).map parseHit) with
  | none => "HIST bad-request rows"
  | some rows =>
    let n := ((sec ss "NNODES").head?.bind parseNat?).getD 0
    let nodesO := (List.range n).map fun k =>
      match optIds (sec ss s!"SIDS{k}"), optIds (sec ss s!"GIDS{k}"), optIds (sec ss s!"LIDS{k}"),
            optTable (sec ss s!"TSLICES{k}"), optTable (sec ss s!"TGROUPS{k}"), optTable (sec ss s!"TLAYERS{k}") with
      | some a, some b, some c, some d, some e, some f => some (ImplState.mk a b c d e f)
      | _, _, _, _, _, _ => none
    match allSome nodesO, allSome ((rowsOf (sec ss "EDGES")).map parseEdge) with
    | some nodes, some edges =>
      let c0 := construct P rows
      let dtord := natsOf (sec ss "DTORD")
      let K := mkKern (mkKernels (c0.data.map (·.dt)) dtord ((rowsOf (sec ss "PCTL")).filterMap parsePctl)
                 ((rowsOf (sec ss "FLUFF")).filterMap parseFluff) ((rowsOf (sec ss "BORD")).filterMap parseBord))
                 ((rowsOf (sec ss "CLUST")).filterMap parseClust) ((rowsOf (sec ss "GMM")).filterMap parseGmm)
                 ((rowsOf (sec ss "BPROB")).filterMap parseBprob) ((rowsOf (sec ss "ASORT")).filterMap parseBord)
                 ((rowsOf (sec ss "PORD")).filterMap parseBord)
      let first := match nodes[0]? with
        | some is => cmpState 0 is c0
        | none => ["NE no-initial-node"]
      let found := walk K P nodes.toArray edges [0] [(0, c0)] first
      if found.isEmpty then "HIST ok" else "HIST " ++ "; ".intercalate (found.take 12)
    | _, _ => "HIST bad-request nodes-or-edges"

end Ampy.Driver
