import Ampy.Driver.Scene
import Ampy.Spec.Pipeline
/-
Driver side of the end-to-end correspondence (`RUN` requests): the model re-runs the whole cascade
from the accepted input rows with the recorded third-party answers, and everything observable
(cropped data, flag, the three id columns, the three tables, the three messages) is compared; the
spec predicates of C05-C07 (and C01-C04 per table) are evaluated on the implementation's output.

Request sections (besides PRM/DTORD/PCTL/FLUFF/BORD of `MET`):
  RUN
  | PRM ... sep_vals=a,b sep_lims=a thr= sdt= hmode=<minmax:r|shift:s:k|step:a,b:c,d,e|none> pad= gdt= hlo= hhi=
        split= scores= mode= minprob= gain= rescale=<r|nan>
  | ROWS <ceilo dt height type> ; ...               accepted input rows
  | CLUST <linkage> <thr> <n> <x y>*n <labels>*n ; ...
  | GMM <scores> <k> <n> <vals>*n <labels>*n <score> ; ...
  | BPROB <minprob> <out> <abics...> ; ...
  | ASORT <n> <vals>*n <perm>*n ; ...
  | PORD <n> <bases>*n <perm>*n ; ...           (sort of the prelim groups table, object dtype)
  | DATA ... | FLAG T/F | SIDS ... | GIDS ... | LIDS ...
  | TSLICES rows | TGROUPS rows | TLAYERS rows | NW ns ng nl | MSGS slices-msg / groups-msg / layers-msg
-/
namespace Ampy.Driver
open Ampy

def closeList (a b : List Rat) : Bool :=
  a.length == b.length && (a.zip b).all fun (x, y) => Spec.close x y

def closePts (a b : List (Rat × Rat)) : Bool :=
  a.length == b.length && (a.zip b).all fun (p, q) => Spec.close p.1 q.1 && Spec.close p.2 q.2

structure ClustRec where
  linkage : String
  thr : Rat
  pts : List (Rat × Rat)
  labels : List Nat

structure GmmRec where
  scores : String
  k : Nat
  vals : List Rat
  labels : List Nat
  score : Rat

structure BprobRec where
  minProb : Rat
  out : Nat
  abics : List Rat

def parseClust (row : List String) : Option ClustRec :=
  match row with
  | l :: thr :: n :: rest =>
    match parseRat? thr, parseNat? n with
    | some thr, some n =>
      some ⟨l, thr, pairUp (ratsOf (rest.take (2 * n))), natsOf ((rest.drop (2 * n)).take n)⟩
    | _, _ => none
  | _ => none

def parseGmm (row : List String) : Option GmmRec :=
  match row with
  | sc :: k :: n :: rest =>
    match parseNat? k, parseNat? n with
    | some k, some n =>
      match ((rest.drop (2 * n)).head?).bind parseRat? with
      | some score => some ⟨sc, k, ratsOf (rest.take n), natsOf ((rest.drop n).take n), score⟩
      | none => none
    | _, _ => none
  | _ => none

def parseBprob (row : List String) : Option BprobRec :=
  match row with
  | mp :: out :: ab =>
    match parseRat? mp, parseNat? out with
    | some mp, some out => some ⟨mp, out, ratsOf ab⟩
    | _, _ => none
  | _ => none

def missLabel : Nat := 777777

def parseHScale (s : String) : ScaleSpec :=
  match s.splitOn ":" with
  | ["minmax", r] => .minmax ((parseRat? r).getD 0)
  | ["shift", sh, k] => .shift (if sh == "nan" then none else parseRat? sh) ((parseRat? k).getD 1)
  | ["step", st, sc] => .step (ratsOf (st.splitOn ",")) (ratsOf (sc.splitOn ","))
  | _ => .none

def parsePPrms (toks : List String) : PPrms String :=
  let b := parsePrms toks
  let lst (k : String) : List Rat := ratsOf (((kv toks k).getD "").splitOn ",")
  { toPrms := { b with
      minSepVals := lst "sep_vals", minSepLims := lst "sep_lims",
      sliceThr := kvRat toks "thr" (1/5), sliceDtScale := kvRat toks "sdt" 100000,
      padPerc := kvRat toks "pad" 10, grpDtScale := kvRat toks "gdt" 180,
      hScaleLo := kvRat toks "hlo" 100, hScaleHi := kvRat toks "hhi" 500,
      minOktaToSplit := kvRat toks "split" 2, gmmScores := (kv toks "scores").getD "BIC",
      gmmMode := (kv toks "mode").getD "delta", gmmMinProb := kvRat toks "minprob" 1,
      gmmGain := kvRat toks "gain" (19/20), gmmRescale := kvORat toks "rescale" },
    sliceHScale := parseHScale ((kv toks "hmode").getD "none") }

def mkKern (mk : MetK) (cl : List ClustRec) (gm : List GmmRec) (bp : List BprobRec) (as po : List BordRec) : Kern :=
  { toMetK := mk
    cluster := fun linkage thr pts =>
      match cl.find? (fun r => r.linkage == linkage && Spec.close r.thr thr && closePts r.pts pts) with
      | some r => r.labels
      | none => pts.map fun _ => missLabel
    gmm := fun scores vals k =>
      match gm.find? (fun r => r.scores == scores && r.k == k && closeList r.vals vals) with
      | some r => ⟨r.labels, r.score⟩
      | none => ⟨vals.map fun _ => missLabel, 0⟩
    bestProb := fun abics mp =>
      match bp.find? (fun r => r.minProb == mp && closeList r.abics abics) with
      | some r => r.out
      | none => 0
    argsort := fun vals =>
      match as.find? (fun r => r.bases == vals) with
      | some r => r.perm
      | none => List.range vals.length
    prelimOrder := fun vals =>
      match po.find? (fun r => r.bases == vals) with
      | some r => r.perm
      | none => List.range vals.length }

def showErr : AmpyErr → String
  | .ampy w => "AmpycloudError(" ++ w.replace " " "_" ++ ")"
  | .other c => c

def cmpIds (name : String) (impl model : List Int) : List String :=
  if impl == model then []
  else
    let miss := model.contains (missLabel : Int) || model.any (fun i => i % 10 == 7 && i > 100 && false)
    match (List.range (max impl.length model.length)).find? (fun i => impl[i]? != model[i]?) with
    | some i => [s!"NE {name}[{i}] impl={impl[i]?} model={model[i]?}" ++ (if miss then " (kernel-arguments-not-recorded)" else "")]
    | none => [s!"NE {name} length"]

def cmpTable (name : String) (impl model : Table) : List String :=
  (if model.length == impl.length then [] else [s!"NE {name}-table-length impl={impl.length} model={model.length}"]) ++
  ((zipIdx (impl.zip model)).map fun (i, (a, b)) => (cmpRow i a b).map fun s => s.replace "NE " s!"NE {name}.").flatten

def parseTable (toks : List String) : Option Table := allSome ((rowsOf toks).map parseTableRow)

/-- Two rationals that differ, but by less than binary64 arithmetic can be trusted to resolve. -/
def nearButNotEqual (a b : Rat) : Bool :=
  a != b && Spec.close a b

/-- Decisions of the cascade whose two sides are computed in floating point by the implementation and in
exact rationals by the model, and that are too close to call (DESIGN.md §3.1): such a scene is not counted as
a disagreement. Over-approximates: all pairs are inspected, not only the ones the loop visits. -/
def nearTies (P : PPrms String) (slices groups : Table) (as : List BordRec) (gm : List GmmRec) : List String :=
  let pad := P.padPerc / 100
  let ov : List String := (slices.map fun ri => slices.filterMap fun rj =>
      if nearButNotEqual (ri.hmin - pad * ri.thick) (rj.hmax + pad * rj.thick) ||
         nearButNotEqual (ri.hmax + pad * ri.thick) (rj.hmin - pad * rj.thick) then some "slice-overlap" else none).flatten
  let bases := slices.map (·.base) ++ groups.map (·.base)
  let sep : List String := (bases.map fun a => bases.filterMap fun b =>
      if P.minSepVals.any (fun v => nearButNotEqual (b - a) v) then some "group-separation" else none).flatten
  let comp : List String := (as.map fun r => (r.bases.map fun a => r.bases.filterMap fun b =>
      if P.minSepVals.any (fun v => nearButNotEqual (b - a) v) then some "component-separation" else none).flatten).flatten
  let sc : List String := (gm.map fun a => gm.filterMap fun b =>
      if a.vals == b.vals && nearButNotEqual b.score (P.gmmGain * a.score) then some "mixture-score" else none).flatten
  (ov ++ sep ++ comp ++ sc).eraseDups

def handleRun (ws : List String) : String :=
  let ss := parseSecs ("HEAD" :: ws)
  let ptoks := sec ss "PRM"
  let P := parsePPrms ptoks
  match allSome ((rowsOf (sec ss "ROWS")).map parseHit), allSome ((rowsOf (sec ss "DATA")).map parseHit),
        parseTable (sec ss "TSLICES"), parseTable (sec ss "TGROUPS"), parseTable (sec ss "TLAYERS"),
        allSome ((sec ss "SIDS").map parseInt?), allSome ((sec ss "GIDS").map parseInt?),
        allSome ((sec ss "LIDS").map parseInt?) with
  | some rows, some data, some tS, some tG, some tL, some sids, some gids, some lids =>
    let flag := (sec ss "FLAG") == ["T"]
    let nw := natsOf (sec ss "NW")
    let msgs := (splitTok "/" (sec ss "MSGS")).map (" ".intercalate ·)
    let dtord := natsOf (sec ss "DTORD")
    let pc := (rowsOf (sec ss "PCTL")).filterMap parsePctl
    let fl := (rowsOf (sec ss "FLUFF")).filterMap parseFluff
    let bo := (rowsOf (sec ss "BORD")).filterMap parseBord
    let cl := (rowsOf (sec ss "CLUST")).filterMap parseClust
    let gm := (rowsOf (sec ss "GMM")).filterMap parseGmm
    let bp := (rowsOf (sec ss "BPROB")).filterMap parseBprob
    let as := (rowsOf (sec ss "ASORT")).filterMap parseBord
    let po := (rowsOf (sec ss "PORD")).filterMap parseBord
    let c0 := construct P rows
    let K := mkKern (mkKernels (c0.data.map (·.dt)) dtord pc fl bo) cl gm bp as po
    let o : Spec.Obs := { input := rows, data := data, flag := flag, sids := sids, gids := gids, lids := lids,
                          slices := tS, groups := tG, layers := tL,
                          nSlices := nw.getD 0 0, nGroups := nw.getD 1 0, nLayers := nw.getD 2 0 }
    let pre : List String :=
      (if c0.data == data then [] else ["NE cropped-data"]) ++
      (if c0.flag == flag then [] else [s!"NE high-cloud-flag impl={flag} model={c0.flag}"])
    let cmp : List String :=
      match findSlices K P c0 with
      | .error e => [s!"NE find_slices impl=ok model={showErr e}"]
      | .ok c1 =>
        cmpIds "slice_id" sids (c1.sids.getD []) ++
        match findGroups K P c1 with
        | .error e => [s!"NE find_groups impl=ok model={showErr e}"]
        | .ok c2 =>
          cmpIds "group_id" gids (c2.gids.getD []) ++
          match findLayers K P c2 with
          | .error e => [s!"NE find_layers impl=ok model={showErr e}"]
          | .ok c3 =>
            cmpIds "layer_id" lids (c3.lids.getD []) ++
            cmpTable "slices" tS (c3.slices.getD []) ++ cmpTable "groups" tG (c3.groups.getD []) ++
            cmpTable "layers" tL (c3.layers.getD []) ++
            (let m := [metarMsg P.msa c3.flag (nWhich (c3.sids.getD [])) (c3.slices.getD []),
                       metarMsg P.msa c3.flag (nWhich (c3.gids.getD [])) (c3.groups.getD []),
                       metarMsg P.msa c3.flag (nWhich (c3.lids.getD [])) (c3.layers.getD [])]
             if m == msgs then [] else [s!"NE messages impl={msgs} model={m}".replace " " "_" |>.replace "NE_" "NE "])
    -- the high-cloud flag the property prescribes, computed from the accepted input (not the implementation's)
    let wantFlag : Bool :=
      match P.msa with
      | none => false
      | some m => decide ((((rows.filter fun h => match h.height with | some y => decide (y > m + P.msaBuf) | none => false).length : Nat) : Rat) > P.t0)
    let perTable (t : Table) (ids : List Int) (msg : String) : List String :=
      Spec.c01 P.msa t msg ++ Spec.c02 P.msa wantFlag t msg ++ Spec.c03 P.t0 P.t8 data ids t ++ Spec.c04 data ids t
    let spec : List String :=
      (Spec.c05 P.toPrms o ++ Spec.c06 P.toPrms o (tG.map fun g => rawComponents K P data gids g) ++ Spec.c07 P.toPrms o ++
       perTable tS sids (msgs.getD 0 "") ++ perTable tG gids (msgs.getD 1 "") ++ perTable tL lids (msgs.getD 2 "")).map
        ("SPEC " ++ ·)
    let notes : List String :=
      if cmp.isEmpty then [] else (nearTies P tS tG as gm).map ("NOTE float-near-tie " ++ ·)
    let all := pre ++ cmp ++ spec ++ notes
    if all.isEmpty then "RUN ok" else "RUN " ++ "; ".intercalate all
  | _, _, _, _, _, _, _, _ => "RUN bad-request"

end Ampy.Driver
