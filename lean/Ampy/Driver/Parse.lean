/-
Line-protocol helpers for the model driver: token parsing and canonical rendering.
Fractions are `p/q` or an integer; `nan` is the missing value.
-/
namespace Ampy.Driver

def parseInt? (s : String) : Option Int := s.toInt?

def parseNat? (s : String) : Option Nat := s.toNat?

/-- `p/q`, `p`, with `q > 0`. -/
def parseRat? (s : String) : Option Rat :=
  match s.splitOn "/" with
  | [p] => p.toInt?.map (fun (n : Int) => (n : Rat))
  | [p, q] =>
    match p.toInt?, q.toNat? with
    | some n, some d => if d = 0 then none else some (mkRat n d)
    | _, _ => none
  | _ => none

/-- `nan` ↦ `some none`; a fraction ↦ `some (some r)`. -/
def parseORat? (s : String) : Option (Option Rat) :=
  if s = "nan" then some none else (parseRat? s).map some

def showRat (r : Rat) : String :=
  if r.den = 1 then toString r.num else toString r.num ++ "/" ++ toString r.den

def showORat : Option Rat → String
  | none => "nan"
  | some r => showRat r

def showBools (bs : List Bool) : String :=
  String.ofList (bs.map fun b => if b then 'T' else 'F')

def words (s : String) : List String :=
  (s.splitOn " ").filter (· ≠ "")

/-- Split a token list at every occurrence of the separator token. -/
def splitTok (sep : String) : List String → List (List String)
  | [] => [[]]
  | t :: ts =>
    match splitTok sep ts with
    | [] => [[t]]
    | g :: gs => if t = sep then [] :: g :: gs else (t :: g) :: gs

def allSome {α} : List (Option α) → Option (List α)
  | [] => some []
  | none :: _ => none
  | some a :: r => (allSome r).map (a :: ·)

end Ampy.Driver
