import Ampy.Driver.Parse
import Ampy.Spec.Checks
/-
Driver side of the table-level correspondence (`MET` requests): rebuild one slices / groups /
layers table from the implementation's id column with the model, compare it with the
implementation's table, and evaluate the spec predicates on the implementation's output.

Request (one line, sections separated by `|`, rows inside a section by `;`):
  MET which=<slices|groups|layers> layersDone=<T|F> nw=<n_which>
  | PRM msa=<r|nan> t0=<r> t8=<r> q=<r> lb=<r> flag=<T|F> excl=<tok,tok,...>
  | DATA <ceilo> <dt> <height|nan> <type> ; ...
  | IDS <int> ...
  | DTORD <pos> ...
  | PCTL <q> <res> <vals...> ; ...
  | FLUFF <value> <n> <x y>*n <perm>*n <smooth>*n ; ...
  | BORD <n> <bases>*n <perm>*n ; ...
  | TABLE <n_hits perc okta base mean std min max thick fluff code sig cid iso ncomp> ; ...
  | MSG <tokens>
-/
namespace Ampy.Driver
open Ampy

structure Sec where
  name : String
  toks : List String

def parseSecs (ws : List String) : List Sec :=
  (splitTok "|" ws).filterMap fun
    | [] => none
    | n :: r => some ⟨n, r⟩

def sec (ss : List Sec) (name : String) : List String :=
  match ss.find? (·.name == name) with
  | some s => s.toks
  | none => []

def rowsOf (toks : List String) : List (List String) :=
  (splitTok ";" toks).filter (· ≠ [])

def kv (toks : List String) (key : String) : Option String :=
  toks.findSome? fun t =>
    match t.splitOn "=" with
    | k :: v => if k == key then some ("=".intercalate v) else none
    | _ => none

def kvRat (toks : List String) (key : String) (dflt : Rat) : Rat :=
  ((kv toks key).bind parseRat?).getD dflt

def kvORat (toks : List String) (key : String) : Option Rat :=
  ((kv toks key).bind parseORat?).getD none

def kvBool (toks : List String) (key : String) : Bool := kv toks key == some "T"

def parseHit : List String → Option (Hit String)
  | [c, dt, h, ty] =>
    match parseRat? dt, parseORat? h, parseInt? ty with
    | some dt, some h, some ty => some ⟨c, dt, h, ty⟩
    | _, _, _ => none
  | _ => none

def parseWhich (s : Option String) : Which :=
  if s == some "slices" then .slices else if s == some "groups" then .groups else .layers

def parsePrms (toks : List String) : Prms String :=
  { msa := kvORat toks "msa", msaBuf := kvRat toks "buf" 1500, t0 := kvRat toks "t0" 3, t8 := kvRat toks "t8" 1,
    basePerc := kvRat toks "q" 5, lookback := kvRat toks "lb" 100,
    exclude := ((kv toks "excl").getD "").splitOn "," |>.filter (· ≠ "") }

def parseTableRow : List String → Option Row
  | [n, perc, okta, base, mean, std, mn, mx, thick, fluff, code, sig, cid, iso, ncomp] =>
    match parseNat? n, parseRat? perc, parseInt? okta, parseRat? base, parseRat? mean, parseORat? std,
          parseRat? mn, parseRat? mx, parseRat? thick, parseRat? fluff, parseInt? cid with
    | some n, some perc, some okta, some base, some mean, some std, some mn, some mx, some thick, some fluff,
      some cid =>
      some { nHits := n, perc := perc, okta := okta, base := base, mean := mean,
             var := std.map fun s => s * s, hmin := mn, hmax := mx, thick := thick, fluff := fluff,
             code := code, significant := sig == "T", cid := cid,
             isolated := if iso == "T" then some true else if iso == "F" then some false else none,
             ncomp := parseInt? ncomp }
    | _, _, _, _, _, _, _, _, _, _, _ => none
  | _ => none

def ratsOf (toks : List String) : List Rat := toks.filterMap parseRat?
def natsOf (toks : List String) : List Nat := toks.filterMap parseNat?

structure PctlRec where
  q : Rat
  res : Rat
  vals : List Rat

structure FluffRec where
  value : Rat
  pts : List (Rat × Rat)
  perm : List Nat
  smooth : List Rat

structure BordRec where
  bases : List Rat
  perm : List Nat

def pairUp : List Rat → List (Rat × Rat)
  | a :: b :: r => (a, b) :: pairUp r
  | _ => []

def parsePctl (row : List String) : Option PctlRec :=
  match row with
  | q :: res :: vals =>
    match parseRat? q, parseRat? res with
    | some q, some res => some ⟨q, res, ratsOf vals⟩
    | _, _ => none
  | _ => none

def parseFluff (row : List String) : Option FluffRec :=
  match row with
  | v :: n :: rest =>
    match parseRat? v, parseNat? n with
    | some v, some n =>
      let pts := pairUp (ratsOf (rest.take (2 * n)))
      let perm := natsOf ((rest.drop (2 * n)).take n)
      let smooth := ratsOf ((rest.drop (3 * n)).take n)
      some ⟨v, pts, perm, smooth⟩
    | _, _ => none
  | _ => none

def parseBord (row : List String) : Option BordRec :=
  match row with
  | n :: rest =>
    match parseNat? n with
    | some n => some ⟨ratsOf (rest.take n), natsOf ((rest.drop n).take n)⟩
    | none => none
  | _ => none

/-- Kernel answers rebuilt from the recorded trace; an unrecorded argument falls back to the
exact model value (and is reported separately as `ARG`). -/
def mkKernels (dts : List Rat) (dtord : List Nat) (pc : List PctlRec) (fl : List FluffRec)
    (bo : List BordRec) : MetK :=
  { dtOrder := fun l => if l == dts ∧ isPermOf dtord l.length then dtord else List.range l.length
    pctl := fun vals q =>
      match pc.find? (fun r => r.q == q && r.vals == vals) with
      | some r => r.res
      | none => percentile vals q
    ptsOrder := fun xs =>
      match fl.find? (fun r => r.pts.map (·.1) == xs) with
      | some r => r.perm
      | none => List.range xs.length
    lowess := fun sorted =>
      match fl.find? (fun r => applyPerm r.perm r.pts == sorted) with
      | some r => r.smooth
      | none => sorted.map (·.2)
    baseOrder := fun bases =>
      match bo.find? (fun r => r.bases == bases) with
      | some r => r.perm
      | none => List.range bases.length }

def cmpRow (i : Nat) (impl model : Row) : List String :=
  let f (ok : Bool) (name : String) (a b : String) : List String :=
    if ok then [] else [s!"NE {name}[{i}] impl={a} model={b}"]
  f (impl.nHits == model.nHits) "n_hits" (toString impl.nHits) (toString model.nHits) ++
  f (Spec.close impl.perc model.perc) "perc" (showRat impl.perc) (showRat model.perc) ++
  f (impl.okta == model.okta) "okta" (toString impl.okta) (toString model.okta) ++
  f (impl.base == model.base) "height_base" (showRat impl.base) (showRat model.base) ++
  f (Spec.close impl.mean model.mean) "height_mean" (showRat impl.mean) (showRat model.mean) ++
  f (match impl.var, model.var with
      | some a, some b => Spec.close a b
      | none, none => true
      | _, _ => false) "height_std" (showORat impl.var) (showORat model.var) ++
  f (impl.hmin == model.hmin) "height_min" (showRat impl.hmin) (showRat model.hmin) ++
  f (impl.hmax == model.hmax) "height_max" (showRat impl.hmax) (showRat model.hmax) ++
  f (Spec.close impl.thick model.thick) "thickness" (showRat impl.thick) (showRat model.thick) ++
  f (Spec.close impl.fluff model.fluff) "fluffiness" (showRat impl.fluff) (showRat model.fluff) ++
  f (impl.code == model.code) "code" impl.code model.code ++
  f (impl.significant == model.significant) "significant" (toString impl.significant) (toString model.significant) ++
  f (impl.cid == model.cid) "cluster_id" (toString impl.cid) (toString model.cid) ++
  f (impl.isolated == model.isolated) "isolated" (toString impl.isolated) (toString model.isolated) ++
  f (impl.ncomp == model.ncomp) "ncomp" (toString impl.ncomp) (toString model.ncomp)

def zipIdx {β} (l : List β) : List (Nat × β) := (List.range l.length).zip l

/-- Handle one `MET` request. The answer is `MET` followed by `;`-separated findings; no finding =
`MET ok`. -/
def handleMet (ws : List String) : String :=
  let ss := parseSecs ("HEAD" :: ws)
  let head := sec ss "HEAD"
  let w := parseWhich (kv head "which")
  let layersDone := kvBool head "layersDone"
  let nw := ((kv head "nw").bind parseNat?).getD 0
  let ptoks := sec ss "PRM"
  let P := parsePrms ptoks
  let flag := kvBool ptoks "flag"
  let dataO := (rowsOf (sec ss "DATA")).map parseHit
  let tableO := (rowsOf (sec ss "TABLE")).map parseTableRow
  match allSome dataO, allSome tableO with
  | some data, some implT =>
    let idsO := (sec ss "IDS").map parseInt?
    match allSome idsO with
    | none => "MET bad-request ids"
    | some ids =>
      if ids.length ≠ data.length then "MET bad-request ids-length" else
      let dtord := natsOf (sec ss "DTORD")
      let pc := (rowsOf (sec ss "PCTL")).filterMap parsePctl
      let fl := (rowsOf (sec ss "FLUFF")).filterMap parseFluff
      let bo := (rowsOf (sec ss "BORD")).filterMap parseBord
      let K := mkKernels (data.map (·.dt)) dtord pc fl bo
      let msg := " ".intercalate (sec ss "MSG")
      -- shape of the third-party answers
      let kfind : List String :=
        (if (clusterIds ids).isEmpty || (isPermOf dtord data.length && sortedRat (applyPerm dtord (data.map (·.dt)))) then []
         else ["KERNEL dt-sort-not-a-sorted-permutation"]) ++
        (bo.filterMap fun r =>
          if isPermOf r.perm r.bases.length && sortedRat (applyPerm r.perm r.bases) then none
          else some "KERNEL base-sort-not-a-sorted-permutation") ++
        (pc.filterMap fun r =>
          if r.vals ≠ [] ∧ minRat r.vals ≤ r.res ∧ r.res ≤ maxRat r.vals ∧ Spec.close r.res (percentile r.vals r.q)
          then none else some s!"KERNEL percentile-oracle q={showRat r.q} res={showRat r.res} exact={showRat (percentile r.vals r.q)}") ++
        (fl.filterMap fun r =>
          if r.pts.length ≤ 1 then none
          else if isPermOf r.perm r.pts.length && sortedRat ((applyPerm r.perm r.pts).map (·.1)) && r.smooth.length == r.pts.length
          then none else some "KERNEL lowess-shape")
      -- the arguments the model hands to np.percentile must be among the recorded ones
      let cids := clusterIds ids
      let argfind : List String := cids.filterMap fun cid =>
        let vals := latest (selectSorted K data (baseMask P data ids cid)) P.lookback
        if pc.any (fun r => r.q == P.basePerc && r.vals == vals) then none
        else some s!"ARG percentile-arguments-not-recorded cid={cid}"
      let cmp : List String :=
        match metarize K P w layersDone data ids with
        | .error (.ampy why) => [s!"NE table impl=table model=AmpycloudError({why.replace " " "_"})"]
        | .error (.other c) => [s!"NE table impl=table model={c}"]
        | .ok modelT =>
          (if modelT.length == implT.length then [] else [s!"NE table-length impl={implT.length} model={modelT.length}"]) ++
          ((zipIdx (implT.zip modelT)).map fun (i, (a, b)) => cmpRow i a b).flatten ++
          (let m := metarMsg P.msa flag nw implT
           if m == msg then [] else [s!"NE message impl=[{msg.replace " " "_"}] model=[{m.replace " " "_"}]"]) ++
          (if nWhich ids == nw then [] else [s!"NE n_which impl={nw} model={nWhich ids}"])
      let spec : List String :=
        ((Spec.c01 P.msa implT msg).map ("SPEC " ++ ·)) ++
        ((Spec.c02 P.msa flag implT msg).map ("SPEC " ++ ·)) ++
        ((Spec.c03 P.t0 P.t8 data ids implT).map ("SPEC " ++ ·)) ++
        ((Spec.c04 data ids implT).map ("SPEC " ++ ·)) ++
        (if implT.length == nw then [] else ["SPEC C05.n_which-vs-table-length"]) ++
        -- the base height is the configured percentile of the selected member hits (exact percentile of the
        -- time-ordered, look-back-cut, exclusion-filtered selection; the float result must be within 1e-9)
        (implT.filterMap fun r =>
          match calcBase percentile (selectSorted K data (baseMask P data ids r.cid)) P.lookback P.basePerc with
          | .ok b => if Spec.close r.base b then none else some s!"SPEC C04.base-is-the-configured-percentile cid={r.cid} impl={showRat r.base} exact={showRat b}"
          | .error _ => some s!"SPEC C04.base-selection-empty cid={r.cid}")
      let all := kfind ++ argfind ++ cmp ++ spec
      if all.isEmpty then "MET ok" else "MET " ++ "; ".intercalate all
  | _, _ => "MET bad-request data-or-table"

end Ampy.Driver
