import Ampy.Driver.Scene
import Ampy.Model.Screen
/-
Driver side of the screening correspondence (`SCREEN` requests).

  SCREEN notframe
  SCREEN nrows=<n> | IDX <labels> | CEILO <exact T/F> <cells> | DT <T/F> <cells> | HEIGHT <T/F> <cells>
         | TYPE <T/F> <cells> | EXTRA <names>          (a missing column: section absent)

Answer: `SCREEN error` or `SCREEN ok <rows ;-separated> | <warning kinds>`, followed by
`; SPEC C15.rejects-iff` when the independent reading of the documented refusal list disagrees with the
model's verdict (never expected: it is theorem C15_rejects_iff; kept as a guard on the driver).
-/
namespace Ampy.Driver
open Ampy

/-- The documented refusal list, decidable, written from the docstring of `check_data_consistency`. -/
def rejectedB (f : RawFrame String) : Bool :=
  f.nrows == 0 || f.ceilo.isNone || f.dt.isNone || f.height.isNone || f.type.isNone ||
  (match f.ceilo, f.dt, f.height, f.type with
   | some c, some d, some h, some t =>
     let rows := zipRows c.cells d.cells h.cells t.cells
     let dup := (List.range rows.length).any fun i => (List.range rows.length).any fun j =>
       i < j && rows[i]? == rows[j]?
     let clash (k : Int) := rows.any fun a => rows.any fun b =>
       a.ceilo == b.ceilo && a.dt == b.dt && a.type == k && b.type != k
     dup || clash 0 || clash (-1)
   | _, _, _, _ => false)

def showWarn : Warn → String
  | .dtype c => "dtype:" ++ c
  | .superfluous c => "superfluous:" ++ c
  | .negativeHeight => "negative-height"
  | .type0WithHeight => "type0-with-height"
  | .type1NaN => "type1-nan"
  | .type2NoType1 => "type2-no-type1"
  | .type3NoType2 => "type3-no-type2"

def colOf {β} (toks : List String) (p : String → Option β) : Option (Col β) :=
  match toks with
  | e :: cells => (allSome (cells.map p)).map fun cs => ⟨e == "T", cs⟩
  | [] => none

def hasSec (ss : List Sec) (name : String) : Bool := ss.any (·.name == name)

def handleScreen (ws : List String) : String :=
  if ws == ["notframe"] then
    match screen (α := String) .notFrame with
    | .error _ => "SCREEN error"
    | .ok _ => "SCREEN ok"
  else
    let ss := parseSecs ("HEAD" :: ws)
    let n := ((kv (sec ss "HEAD") "nrows").bind parseNat?).getD 0
    let col {β} (name : String) (p : String → Option β) : Option (Option (Col β)) :=
      if hasSec ss name then (colOf (sec ss name) p).map some else some none
    match col "CEILO" (fun s => some s), col "DT" parseRat?, col "HEIGHT" parseORat?, col "TYPE" parseInt? with
    | some c, some d, some h, some t =>
      let f : RawFrame String :=
        { nrows := n, index := (sec ss "IDX").filterMap parseInt?, ceilo := c, dt := d, height := h, type := t,
          extra := sec ss "EXTRA" }
      let verdict := screen (.frame f)
      let guard := match verdict with
        | .error _ => if rejectedB f then "" else "; SPEC C15.rejects-iff"
        | .ok _ => if rejectedB f then "; SPEC C15.rejects-iff" else ""
      match verdict with
      | .error _ => "SCREEN error" ++ guard
      | .ok (ck, w) =>
        "SCREEN ok " ++ " ; ".intercalate (ck.rows.map fun r =>
            s!"{r.ceilo} {showRat r.dt} {showORat r.height} {r.type}") ++
          " | " ++ " ".intercalate (w.map showWarn) ++ guard
    | _, _, _, _ => "SCREEN bad-request"

end Ampy.Driver
