import Ampy.Driver.Parse
import Ampy.Model.Params
/-
Driver side of the parameter-world correspondence (`SYS` requests, C11/C12).

  SYS | DEF <tree> | N <number of ops> | OP<k> <op> | OBS<k> <out> ; G <tree> # <classes> ; C <tree> # .. ; S <tree> # ..

Trees in prefix notation: `L <leaf>`, `A <n> <leaf>*n`, `D <n> (<key> <tree>)*n`; leaves `none`, `b:T`,
`i:5`, `n:p/q`, `s:<hex>`; keys hex.  `<classes>`: for every mutable node of the root, in traversal order,
the number of its alias class (classes numbered by first occurrence over G, C.., S.. in that order).
The driver renders the model's state in the same format and compares strings.
-/
namespace Ampy.Driver
open Ampy

def parseLeaf (s : String) : Option PLeaf :=
  if s == "none" then some .none
  else if s == "b:T" then some (.bool true) else if s == "b:F" then some (.bool false)
  else if s.startsWith "i:" then ((s.drop 2).toString.toInt?).map PLeaf.int
  else if s.startsWith "n:" then
    match (s.drop 2).toString.splitOn "/" with
    | [p, q] => match p.toInt?, q.toInt? with | some p, some q => some (.num p q) | _, _ => none
    | [p] => (p.toInt?).map fun p => .num p 1
    | _ => none
  else if s.startsWith "s:" then some (.str (s.drop 2).toString)
  else none

def showLeaf : PLeaf → String
  | .none => "none" | .bool true => "b:T" | .bool false => "b:F" | .int n => s!"i:{n}"
  | .num p q => if q == 1 then s!"n:{p}" else s!"n:{p}/{q}" | .str s => "s:" ++ s

/-- Parse one tree from a token list; returns the tree (tags 0) and the rest. Fuel bounds the depth. -/
def parseTree : Nat → List String → Option (PTree × List String)
  | 0, _ => none
  | fuel + 1, toks =>
    match toks with
    | "L" :: l :: rest => (parseLeaf l).map fun v => (.leaf v, rest)
    | "A" :: n :: rest =>
      match n.toNat? with
      | some n =>
        match allSome ((rest.take n).map parseLeaf) with
        | some items => if (rest.take n).length == n then some (.list 0 items, rest.drop n) else none
        | none => none
      | none => none
    | "D" :: n :: rest =>
      match n.toNat? with
      | some n =>
        let rec entries (k : Nat) (toks : List String) : Option (PEntries × List String) :=
          match k with
          | 0 => some (.nil, toks)
          | k + 1 =>
            match toks with
            | key :: more =>
              match parseTree fuel more with
              | some (v, more') =>
                match entries k more' with
                | some (es, r) => some (.cons key v es, r)
                | none => none
              | none => none
            | [] => none
        (entries n rest).map fun (es, r) => (.dict 0 es, r)
      | none => none
    | _ => none

mutual
def showTree : PTree → String
  | .leaf v => "L " ++ showLeaf v
  | .list _ items => s!"A {items.length}" ++ String.join (items.map fun l => " " ++ showLeaf l)
  | .dict _ es => s!"D {lenEntries es}" ++ showEntries es
def showEntries : PEntries → String
  | .nil => ""
  | .cons k v rest => " " ++ k ++ " " ++ showTree v ++ showEntries rest
def lenEntries : PEntries → Nat
  | .nil => 0
  | .cons _ _ rest => 1 + lenEntries rest
end

/-- Alias classes of the mutable nodes of a list of roots, numbered by first occurrence. -/
def classesOf (roots : List PTree) : List (List Nat) :=
  let all := (roots.map PTree.ids).flatten.eraseDups
  roots.map fun r => r.ids.map fun i => all.idxOf i

def parseSOp (toks : List String) : Option SOp :=
  match toks with
  | ["construct", "none"] => some (.construct none)
  | ["construct", i] => (i.toNat?).map fun i => .construct (some i)
  | "setGlobal" :: path :: tree => (parseTree 32 tree).map fun (t, _) => .setGlobal (path.splitOn ".") t
  | "setSnap" :: j :: path :: tree =>
    match j.toNat?, parseTree 32 tree with
    | some j, some (t, _) => some (.setSnap j (path.splitOn ".") t)
    | _, _ => none
  | "setCaller" :: i :: path :: tree =>
    match i.toNat?, parseTree 32 tree with
    | some i, some (t, _) => some (.setCaller i (path.splitOn ".") t)
    | _, _ => none
  | "setPrms" :: tree => (parseTree 32 tree).map fun (t, _) => .setPrms t
  | ["reset", "all"] => some (.reset none)
  | "reset" :: names => some (.reset (some names))
  | "newCaller" :: tree => (parseTree 32 tree).map fun (t, _) => .newCaller t
  | _ => none

def showSOut : SOut → String
  | .ok [] => "ok"
  | .ok ws => "ok:" ++ ",".intercalate ws
  | .ampyError => "AmpycloudError"
  | .crash c => "crash:" ++ c

def showSys (s : Sys) (o : SOut) : String :=
  let roots := [s.global] ++ s.callers ++ s.snaps
  let cls := classesOf roots
  let tags := ["G"] ++ s.callers.map (fun _ => "C") ++ s.snaps.map (fun _ => "S")
  let parts := (tags.zip (roots.zip cls)).map fun (tg, (r, c)) =>
    tg ++ " " ++ showTree r ++ " # " ++ " ".intercalate (c.map toString)
  " ; ".intercalate (showSOut o :: parts)

def secOf (ss : List (String × List String)) (name : String) : List String :=
  match ss.find? (·.1 == name) with
  | some s => s.2
  | none => []

def handleSys (ws : List String) : String :=
  let ss := (splitTok "|" ("HEAD" :: ws)).filterMap fun | [] => none | n :: r => some (n, r)
  match parseTree 32 (secOf ss "DEF") with
  | none => "SYS bad-request defaults"
  | some (defs, _) =>
    let n := ((secOf ss "N").head?.bind String.toNat?).getD 0
    let (g0, n0) := defs.deepcopy 1
    let s0 : Sys := { next := n0, global := g0, defaults := defs, callers := [], snaps := [] }
    let res := (List.range n).foldl (fun (acc : Sys × List String × Bool) k =>
      let (s, finds, bad) := acc
      if bad then acc
      else
        match parseSOp (secOf ss s!"OP{k}") with
        | none => (s, finds ++ [s!"bad-op{k}"], true)
        | some op =>
          let (s', o) := s.step op
          let mine := showSys s' o
          let theirs := " ".intercalate (secOf ss s!"OBS{k}")
          if mine == theirs then (s', finds, false)
          else
            -- locate the first differing part
            let a := mine.splitOn " ; "
            let b := theirs.splitOn " ; "
            let idx := ((List.range (max a.length b.length)).find? fun i => a[i]? != b[i]?).getD 0
            (s', finds ++ [s!"NE op{k} part{idx} impl=[{(b[idx]?).getD "-"}] model=[{(a[idx]?).getD "-"}]"], false)) (s0, [], false)
    if res.2.1.isEmpty then "SYS ok" else "SYS " ++ "; ".intercalate (res.2.1.take 4)

end Ampy.Driver
