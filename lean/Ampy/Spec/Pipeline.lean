import Ampy.Model.Pipeline
import Ampy.Spec.Checks
/-
Spec predicates for C05, C06, C07 written from the property texts, evaluated on what the
implementation produced after a full run.
-/
namespace Ampy.Spec
open Ampy

/-- What the implementation exposes after `run`. -/
structure Obs where
  input : List (Hit String)          -- the accepted input rows
  data : List (Hit String)           -- chunk.data (after cropping)
  flag : Bool
  sids : List Int
  gids : List Int
  lids : List Int
  slices : Table
  groups : Table
  layers : Table
  nSlices : Nat
  nGroups : Nat
  nLayers : Nat

def distinctNonNeg (ids : List Int) : List Int := (ids.filter (· ≥ 0)).eraseDups

def sameSet (a b : List Int) : Bool := a.all (b.contains ·) && b.all (a.contains ·)

/-- Expected cropping of the accepted input, written from C07's text. -/
def expectCrop (msa : Option Rat) (buf : Rat) (input : List (Hit String)) : List (Hit String) :=
  match msa with
  | none => input
  | some m =>
    input.filterMap fun h =>
      match h.height with
      | some y =>
        if y > m + buf then (if h.type ≤ 1 then some ⟨h.ceilo, h.dt, none, 0⟩ else none) else some h
      | none => some h

def c05 (P : Prms String) (o : Obs) : List String :=
  let lvl (name : String) (ids : List Int) (t : Table) (n : Nat) : List String :=
    fails (ids.length == o.data.length) s!"C05.{name}-one-id-per-hit" ++
    fails ((o.data.zip ids).all fun (h, i) => if h.height.isSome then decide (i ≥ 0) else i == -1)
      s!"C05.{name}-valid-iff-assigned" ++
    fails (sameSet (t.map (·.cid)) (distinctNonNeg ids) && (t.map (·.cid)).eraseDups.length == t.length)
      s!"C05.{name}-table-lists-the-sets" ++
    fails (n == t.length) s!"C05.n_{name}"
  lvl "slices" o.sids o.slices o.nSlices ++ lvl "groups" o.gids o.groups o.nGroups ++
  lvl "layers" o.lids o.layers o.nLayers ++
  -- each layer inside exactly one group
  fails ((distinctNonNeg o.lids).all fun l =>
    (((o.lids.zip o.gids).filter (·.1 == l)).map (·.2)).eraseDups.length == 1) "C05.layer-inside-one-group" ++
  -- k sub-components => k layers, not split => one layer
  fails (o.groups.all fun g =>
    let nl := (((o.lids.zip o.gids).filter (·.2 == g.cid)).map (·.1)).eraseDups.length
    match g.ncomp with
    | some k => if k ≥ 1 then nl == k.toNat else nl == 1
    | none => false) "C05.ncomp-vs-layers" ++
  -- no hit created, lost or altered (cropping excepted)
  fails (o.data == expectCrop P.msa P.msaBuf o.input) "C05.hits-preserved"

def minSepOf (P : Prms String) (h : Rat) : Rat :=
  (P.minSepVals[(P.minSepLims.filter (· < h)).length]?).getD 0

def pairwiseSep (sep : Rat → Rat) : List Rat → Bool
  | [] => true
  | a :: r => r.all (fun b => decide (b - a ≥ sep b)) && pairwiseSep sep r

/-- `raw` lists, per row of the groups table, the number of components of the mixture selected for that group *before*
the re-merge pass of `ncomp_from_gmm` (computed by the driver from the recorded mixture answers; `none` = group not
examined or answers not recorded). The second clause of C06 speaks of groups "split into as many layers as the mixture
model distinguishes (no sub-layers re-merged)": exactly the groups whose reported `ncomp` equals that raw count. (The
`ncomp` column alone cannot tell: it is the count after re-merging — a monitor guarded by it only was refuted by proof,
see Lemmas/SpecSoundC.lean.) -/
def c06 (P : Prms String) (o : Obs) (raw : List (Option Nat)) : List String :=
  let gb := o.groups.map (·.base)
  fails (pairwiseSep (minSepOf P) gb) "C06.groups-min-sep" ++
  (if P.exclude ≠ [] then [] else
    fails ((o.groups.zip raw).all fun (g, rw) =>
      let ls := (((o.lids.zip o.gids).filter (·.2 == g.cid)).map (·.1)).eraseDups
      match g.ncomp, rw with
      | some k, some n0 =>
        if k ≥ 2 ∧ ls.length == k.toNat ∧ n0 == k.toNat then
          let bases := (o.layers.filter fun r => ls.contains r.cid).map (·.base)
          pairwiseSep (fun _ => minSepOf P g.base) bases
        else true
      | _, _ => true) "C06.split-layers-min-sep")

def c07 (P : Prms String) (o : Obs) : List String :=
  match P.msa with
  | none => fails (o.data == o.input) "C07.no-msa-nothing-cropped" ++ fails (!o.flag) "C07.no-msa-flag-false"
  | some m =>
    let lim := m + P.msaBuf
    let nAbove := (o.input.filter fun h => match h.height with | some y => decide (y > lim) | none => false).length
    fails (o.flag == decide (((nAbove : Nat) : Rat) > P.t0)) "C07.flag-iff" ++
    fails (o.data == expectCrop P.msa P.msaBuf o.input) "C07.kept-intact" ++
    fails (o.data.all fun h => match h.height with | some y => decide (y ≤ lim) | none => true) "C07.nothing-above-limit-left"

end Ampy.Spec
