import Ampy.Model.Icao
/-
Spec predicate for C17, written from the property text: evaluated by the driver on the flags the
*implementation* returned.
-/
namespace Ampy.Spec

/-- `flags` is what the 1-3-5 rule prescribes for `oktas`: same length, and position `i` is flagged
iff fewer than three earlier positions are flagged and the okta reaches `2·cnt+1`. -/
def c17 (oktas : List Int) (flags : List Bool) : Bool :=
  flags.length == oktas.length &&
  (List.range oktas.length).all fun i =>
    let cnt := (flags.take i).count true
    match oktas[i]?, flags[i]? with
    | some o, some f => f == (decide (cnt < 3) && decide (o ≥ 2 * (cnt : Int) + 1))
    | _, _ => false

end Ampy.Spec
