import Ampy.Model.Metar
/-
Table-level vocabulary shared by the property theorems (C01-C04) and by the driver, which
evaluates the decidable versions on the tables and messages the implementation produced.
-/
namespace Ampy

/-- Rows that `metar_msg` reports: significant and with a base below the MSA. -/
def reported (msa : Option Rat) (t : Table) : List Row :=
  t.filter fun r => r.significant && belowMsa msa r.base

/-- Rows of at least 1 okta with a base below the MSA. -/
def cloudBelow (msa : Option Rat) (t : Table) : List Row :=
  t.filter fun r => decide (r.okta ≥ 1) && belowMsa msa r.base

/-- What every table built by `metarize` satisfies (proved in `Lemmas/Pipeline`). -/
structure TableOK (t : Table) : Prop where
  sorted : t.Pairwise (fun a b => a.base ≤ b.base)
  flags : t.map (·.significant) = significantCloud (t.map (·.okta))
  codes : ∀ r ∈ t, mkCode r.okta r.base = .ok r.code
  oktas : ∀ r ∈ t, 0 ≤ r.okta ∧ r.okta ≤ 8
  bases : ∀ r ∈ t, 0 ≤ r.base ∧ r.base < 100000

/-- One METAR cloud group: FEW/SCT/BKN/OVC followed by three decimal digits. -/
def IsGroup (g : String) : Prop :=
  ∃ p ∈ ["FEW", "SCT", "BKN", "OVC"], ∃ d₀ d₁ d₂ : Char,
    d₀.isDigit ∧ d₁.isDigit ∧ d₂.isDigit ∧ g = p ++ String.ofList [d₀, d₁, d₂]

/-- Decidable version of `IsGroup` for the driver. -/
def isGroupB (g : String) : Bool :=
  match g.toList with
  | [a, b, c, d₀, d₁, d₂] =>
    ["FEW", "SCT", "BKN", "OVC"].contains (String.ofList [a, b, c]) && d₀.isDigit && d₁.isDigit && d₂.isDigit
  | _ => false

end Ampy
