import Ampy.Model.Basic
/-
Spec predicates for C18, written from the property text and evaluated on the implementation's
answers.
-/
namespace Ampy.Spec

/-- `k` is an acceptable okta for `n` hits out of `m` (`0 ≤ n ≤ m`, `0 < m`): 0 only for `n = 0`,
8 only for `n = m`, otherwise a nearest integer to `8n/m` clipped to `1..7`. -/
def c18okta (n m : Nat) (k : Int) : Bool :=
  if n = 0 then k == 0
  else if n = m then k == 8
  else
    let x : Rat := 8 * (n : Rat) / (m : Rat)
    decide (1 ≤ k) && decide (k ≤ 7) &&
      (decide (Ampy.absRat (x - k) ≤ 1/2) || (k == 1 && decide (x ≤ 1/2)) || (k == 7 && decide (x ≥ 15/2)))

/-- The whole row `n = 0..m`: every entry acceptable, and non-decreasing in `n`. -/
def c18row (m : Nat) (ks : List Int) : Bool :=
  ks.length == m + 1 &&
  (List.range (m + 1)).all (fun n => match ks[n]? with | some k => c18okta n m k | none => false) &&
  (List.range m).all (fun n => match ks[n]?, ks[n+1]? with | some a, some b => decide (a ≤ b) | _, _ => false)

/-- `code` is the three-digit floor of `h ∈ [0, 10^5)` in hundreds of feet (thousands above
10000 ft): three decimal digits, value `v` with `100·v ≤ h`, and `h < 100·(v+1)` up to 10000 ft,
`v` a multiple of 10 with `h < 100·(v+10)` above. -/
def c18height (h : Rat) (code : String) : Bool :=
  match code.toList with
  | [a, b, c] =>
    a.isDigit && b.isDigit && c.isDigit &&
    (let v : Nat := (a.toNat - 48) * 100 + (b.toNat - 48) * 10 + (c.toNat - 48)
     decide ((v : Rat) * 100 ≤ h) &&
     (if h ≤ 10000 then decide (h < ((v : Rat) + 1) * 100)
      else v % 10 == 0 && decide (h < ((v : Rat) + 10) * 100)))
  | _ => false

end Ampy.Spec
