import Ampy.Spec.Table
import Ampy.Spec.C18
/-
Decidable spec predicates for C01-C04, written from the property texts.  The driver evaluates them
on what the *implementation* produced (tables, message, id columns), never on the model's output.
Each returns the list of clauses that fail (empty = all hold).
-/
namespace Ampy.Spec

open Ampy

def close (a b : Rat) : Bool :=
  let d := Ampy.absRat (a - b)
  let m : Rat := if Ampy.absRat b < 1 then 1 else Ampy.absRat b
  decide (d ≤ m / 1000000000)

/-- The okta class a code prefix stands for. -/
def prefixOkta (p : String) : List Int :=
  if p = "FEW" then [1, 2] else if p = "SCT" then [3, 4] else if p = "BKN" then [5, 6, 7]
  else if p = "OVC" then [8] else if p = "NCD" then [0] else []

def digitsVal (s : String) : Option Nat :=
  if s.toList.all Char.isDigit && s.length > 0 then s.toNat? else none

def groupsOf (msg : String) : List String :=
  if msg = "NCD" ∨ msg = "NSC" then [] else msg.splitOn " "

def prefixIn (g : Option String) (ps : List String) : Bool :=
  match g with
  | some g => ps.contains (String.ofList (g.toList.take 3))
  | none => true

def fails (ok : Bool) (name : String) : List String := if ok then [] else [name]

/-- C01 on the implementation's table and message (heights in `[0, 10^5)`). -/
def c01 (msa : Option Rat) (t : Table) (msg : String) : List String :=
  let rep := reported msa t
  let gs := groupsOf msg
  let grammar : Bool := msg == "NCD" || msg == "NSC" || (decide (1 ≤ gs.length) && decide (gs.length ≤ 3) && gs.all isGroupB)
  let hts : List Nat := gs.filterMap fun g => digitsVal (String.ofList (g.toList.drop 3))
  let order : Bool := sortedRat (hts.map fun (n : Nat) => (n : Rat))
  -- every group is the code of a listed, non-zero layer with base below the MSA
  let listed : Bool := gs.all fun g => t.any fun r => r.code == g && decide (r.okta ≥ 1) && belowMsa msa r.base
  fails grammar "C01.grammar" ++ fails order "C01.height-order" ++
  fails (prefixIn gs[1]? ["SCT", "BKN", "OVC"]) "C01.second-SCT+" ++
  fails (prefixIn gs[2]? ["BKN", "OVC"]) "C01.third-BKN+" ++
  fails listed "C01.group-not-a-nonzero-layer-below-MSA" ++
  fails (gs == rep.map (·.code)) "C01.groups-are-reported-rows"

def headCodeIs (r : Option Row) (g : Option String) : Bool :=
  match r with
  | some r => g == some r.code
  | none => true

def containsCode (r : Option Row) (gs : List String) : Bool :=
  match r with
  | some r => gs.contains r.code
  | none => true

/-- C02 on the implementation's table and message. `flag` is the high-cloud flag. -/
def c02 (msa : Option Rat) (flag : Bool) (t : Table) (msg : String) : List String :=
  let L := cloudBelow msa t
  let gs := groupsOf msg
  let ceilRow := (t.filter fun r => decide (r.okta ≥ 5) && belowMsa msa r.base).head?
  let ncdOk : Bool := (msg == "NCD") == (t.all (fun r => decide (r.okta ≤ 0)) && !flag)
  let above : Bool := t.any fun r => decide (r.okta ≥ 1) && !(belowMsa msa r.base)
  let nscOk : Bool := (msg == "NSC") == (L.isEmpty && (above || flag))
  fails (headCodeIs L.head? gs.head?) "C02.lowest-first" ++
  fails (containsCode ceilRow gs) "C02.ceiling" ++
  fails (gs.all (fun g => t.any (·.code == g))) "C02.group-is-a-layer-code" ++
  fails ncdOk "C02.NCD-iff" ++ fails nscOk "C02.NSC-iff"

/-- Distinct (ceilometer, time) measurements. -/
def distinctMeas {α} [DecidableEq α] (hs : List (Hit α)) : Nat :=
  ((hs.map fun h => (h.ceilo, h.dt)).eraseDups).length

/-- C03 on the implementation's table, given the chunk data and the id column of that level. -/
def c03 {α} [DecidableEq α] (t0 t8 : Rat) (data : List (Hit α)) (ids : List Int) (t : Table) : List String :=
  let M := distinctMeas data
  t.foldl (fun acc r =>
    let n := distinctMeas (members data ids r.cid)
    let okta : Int :=
      if (n : Rat) ≤ t0 then 0
      else if (((M : Int) - (n : Int) : Int) : Rat) ≤ t8 then 8
      else match perc2oktaNM n M with | .ok k => k | .error _ => -99
    acc ++
    (if r.nHits = n then [] else [s!"C03.n_hits cid={r.cid}"]) ++
    (if close r.perc ((n : Rat) / (M : Rat) * 100) then [] else [s!"C03.perc cid={r.cid}"]) ++
    (if r.okta = okta then [] else [s!"C03.okta cid={r.cid}"]) ++
    (if (prefixOkta (String.ofList (r.code.toList.take 3))).contains r.okta then [] else [s!"C03.code-prefix cid={r.cid}"])) []

/-- C04 on the implementation's table (statistics against the member hits; base inside the
set; code floored; table sorted). `varOk` compares `height_std²`. -/
def c04 {α} [DecidableEq α] (data : List (Hit α)) (ids : List Int) (t : Table) : List String :=
  (if sortedRat (t.map (·.base)) then [] else ["C04.sorted"]) ++
  t.foldl (fun acc r =>
    let hs := (members data ids r.cid).filterMap (·.height)
    let code3 := String.ofList (r.code.toList.drop 3)
    acc ++
    (if decide (minRat hs ≤ r.base) && decide (r.base ≤ maxRat hs) then [] else [s!"C04.base-inside cid={r.cid}"]) ++
    (if r.hmin = minRat hs ∧ r.hmax = maxRat hs then [] else [s!"C04.min-max cid={r.cid}"]) ++
    (if close r.thick (maxRat hs - minRat hs) then [] else [s!"C04.thickness cid={r.cid}"]) ++
    (if close r.mean (meanRat hs) then [] else [s!"C04.mean cid={r.cid}"]) ++
    (match r.var, varRat hs with
      | some a, some b => if close a b then [] else [s!"C04.std cid={r.cid}"]
      | none, none => []
      | _, _ => [s!"C04.std-nan cid={r.cid}"]) ++
    (if decide (0 ≤ r.fluff) then [] else [s!"C04.fluffiness-negative cid={r.cid}"]) ++
    (if c18height r.base code3 then [] else [s!"C04.code-floor cid={r.cid}"])) []

end Ampy.Spec
