import Ampy.Model.Icao
import Ampy.Model.Wmo
import Ampy.Driver.Parse
import Ampy.Spec.C17
import Ampy.Spec.C18
import Ampy.Driver.Scene
import Ampy.Driver.Run
import Ampy.Driver.Screen
import Ampy.Driver.Hist
import Ampy.Driver.Sys
import Ampy.Driver.Scale
/-
Model driver: one request per input line, one canonical answer per output line.
Run as a compiled executable (`lake build ampydrv`) or with `lake env lean --run Main.lean`.
-/
open Ampy Ampy.Driver

def showExceptInt : Except AmpyErr Int → String
  | .ok k => "ok " ++ toString k
  | .error _ => "AmpycloudError"

def handle (line : String) : String :=
  match words line with
  | "SIG" :: rest =>
    match allSome (rest.map parseInt?) with
    | some os => "SIG " ++ showBools (significantCloud os)
    | none => "bad-request"
  | "MET" :: rest => handleMet rest
  | "RUN" :: rest => handleRun rest
  | "SCREEN" :: rest => handleScreen rest
  | "HIST" :: rest => handleHist rest
  | "SYS" :: rest => handleSys rest
  | "SCALE" :: rest => handleScale rest
  | "SPEC17" :: rest =>
    -- SPEC17 o1 o2 ... | TFTF
    match splitTok "|" rest with
    | [os, fl] =>
      match allSome (os.map parseInt?) with
      | some os =>
        let flags := (String.join fl).toList.map (· == 'T')
        "SPEC17 " ++ (if Spec.c17 os flags then "ok" else "FAIL")
      | none => "bad-request"
    | _ => "bad-request"
  | ["P2O", n, m] =>
    match parseNat? n, parseNat? m with
    | some n, some m => "P2O " ++ showExceptInt (perc2oktaNM n m)
    | _, _ => "bad-request"
  | "SPEC18ROW" :: m :: ks =>
    match parseNat? m, allSome (ks.map parseInt?) with
    | some m, some ks => "SPEC18ROW " ++ (if Spec.c18row m ks then "ok" else "FAIL")
    | _, _ => "bad-request"
  | ["SPEC18OKTA", n, m, k] =>
    match parseNat? n, parseNat? m, parseInt? k with
    | some n, some m, some k => "SPEC18OKTA " ++ (if Spec.c18okta n m k then "ok" else "FAIL")
    | _, _, _ => "bad-request"
  | ["SPEC18H", h, code] =>
    match parseRat? h with
    | some h => "SPEC18H " ++ (if Spec.c18height h code then "ok" else "FAIL")
    | none => "bad-request"
  | ["P2OROW", m] =>
    match parseNat? m with
    | some m => "P2OROW " ++ " ".intercalate ((List.range (m + 1)).map fun n => showExceptInt (perc2oktaNM n m))
    | none => "bad-request"
  | ["P2OP", "nan"] => "P2OP AmpycloudError"
  | ["P2OP", p] =>
    match parseRat? p with
    | some p => "P2OP " ++ showExceptInt (perc2okta p)
    | none => "bad-request"
  | ["O2C", kind, v] =>
    let pv : Option PyVal :=
      match kind with
      | "int" => (parseInt? v).map PyVal.int
      | "bool" => if v = "True" then some (.bool true) else if v = "False" then some (.bool false) else none
      | "float" => (parseRat? v).map PyVal.float
      | "npint" => (parseInt? v).map PyVal.npint
      | "str" => some (.str v)
      | "none" => some .none
      | _ => none
    match pv with
    | some pv =>
      match okta2code pv with
      | .ok (some c) => "O2C ok " ++ c
      | .ok none => "O2C ok None"
      | .error _ => "O2C AmpycloudError"
    | none => "bad-request"
  | ["H2C", h] =>
    match parseORat? h with
    | some h => "H2C [" ++ height2code h ++ "]"
    | none => "bad-request"
  | _ => "bad-request"

partial def loop (hin hout : IO.FS.Stream) : IO Unit := do
  let line ← hin.getLine
  if line.isEmpty then return ()
  hout.putStrLn (handle line.trimAscii.toString)
  loop hin hout

def main : IO Unit := do
  let hin ← IO.getStdin
  let hout ← IO.getStdout
  loop hin hout
  hout.flush
