"""Regenerates MANIFEST.json from the table below (run by hand after adding a check)."""
import json
from pathlib import Path

V = Path(__file__).resolve().parent.parent
BASE = ("cd /repo && /venv/bin/python -m pytest -ra -q -p no:cacheprovider --timeout=900 "
        "--continue-on-collection-errors")

NOTE = ("Trusted: Lean 4.33 kernel with axioms propext/Classical.choice/Quot.sound only (audited every run); the "
        "hand-written Lean model, tied to /repo by the correspondence harness (differential, bounded by its "
        "generators); third-party kernels and binary64 rounding are parameters / checked oracles, not verified.")

CHECKS = {
    'C01': dict(
        text="Lean theorems about the model of metar_msg for every table satisfying TableOK (grammar, groups = codes of the "
             "significant rows below the MSA in order, at most three, 1-3-5 thresholds, no zero-okta or at/above-MSA group), "
             "plus the pipeline lemma (metarize_tableOK) that every table metarize builds satisfies TableOK for any hits in "
             "[0,1e5) ft, id column, parameters and third-party answers of the right shape. Tie: real pipeline, every level of "
             "every generated scene, compared with the model and checked against the Lean spec predicate.",
        ref='§6 C01', technique='Lean 4 proof (induction over tables / okta lists) + scene-level model/implementation correspondence'),
    'C02': dict(
        text="Lean theorems on the same model: lowest >=1-okta layer below the MSA is the first group, the ceiling is among the "
             "groups, every group is a listed layer, NCD iff no layer reaches 1 okta and the high-cloud flag is down, NSC iff "
             "cloud exists (layer at/above MSA or flag) but none is reportable. Same tie as C01.",
        ref='§6 C02', technique='Lean 4 proof (invariant sig_level = 2*#flags over sorted tables) + correspondence'),
    'C03': dict(
        text="Lean theorems: the per-ceilometer sum of distinct time stamps equals the number of distinct (ceilometer, time) pairs "
             "(members and chunk), count <= total, okta definition with both buffers, monotone in the count, range 0..8, code "
             "prefix. Tie: n_hits/perc/okta/code of every table row of every scene against model and spec predicate.",
        ref='§6 C03', technique='Lean 4 proof (Finset fibre counting, case analysis on buffers) + correspondence'),
    'C04': dict(
        text="Lean theorems: exact linear percentile between min and max and permutation-invariant; look-back selection is a "
             "non-empty suffix (error branch unreachable); base inside the member hits for any percentile routine with the "
             "between-property and any exclusion list; statistics; fluffiness >= 0 for every LOWESS answer; code floored; tables "
             "sorted. np.percentile's float result is a checked oracle; 'fluffiness finite' is a kernel property (monitored only).",
        ref='§6 C04', technique='Lean 4 proof over Rat (mergeSort, interpolation bounds) + checked-oracle correspondence'),
    'C05': dict(
        text="Lean theorems about the model of the whole cascade (run = construct, find_slices, find_groups, find_layers, with "
             "agglomerative clustering, Gaussian mixtures and sorts as arbitrary parameters of the right shape): every hit with a "
             "valid height has an id >= 0 at each level and every non-detection -1; the three tables list exactly the ids present, "
             "once each, n_* = table length; equal layer id implies equal group id (sub-layer ids start beyond the largest group "
             "id, F3 repaired); a group with ncomp = k owns exactly k layer ids; the data is the cropped input. Tie: the real "
             "cascade is re-run by the model with the recorded third-party answers and all ids/tables/messages compared.",
        ref='§6 C05', technique='Lean 4 proof (fold invariants over the cascade model) + end-to-end correspondence with recorded kernels'),
    'C06': dict(
        text="Lean theorems: min-sep bin = searchsorted-left entry, length check only refusal; the merge loop terminates within "
             "its fuel and exits with all pairs separated, bases current and the table listing exactly the groups present (no "
             "re-sort assumed); reported group bases pairwise >= minSep(upper) apart for every percentile/look-back/exclusion "
             "setting (F2a repaired); re-merge pass: nothing merged implies components pairwise >= minSep apart; and (no "
             "ceilometer excluded) the values metarize('layers') feeds to calc_base_height for a split layer are exactly those of "
             "its mixture component, for any row order / look-back / percentile (F2b repaired), so reported layer bases are the "
             "component bases.",
        ref='§6 C06', technique='Lean 4 proof (loop invariant + termination by fuel) + end-to-end correspondence incl. exact min-sep ties'),
    'C07': dict(
        text="Lean theorems on the cropping model: no MSA => nothing cropped, flag false; flag iff #hits above MSA+buffer > "
             "MAX_HITS_OKTA0; rows at/below the limit kept unchanged and in order; nothing above the limit left; heights above "
             "the limit are irrelevant to the cropped frame, the flag and hence (run is a function of the cropped frame) to every "
             "table; cropping is idempotent (replacement by non-detections). Tie: crop family with hits at, around and above the "
             "limit, all hit types.",
        ref='§6 C07', technique='Lean 4 proof (row-wise filterMap lemmas, congruence of run) + correspondence'),
    'C08': dict(
        text="PARTIAL. Proved: the cascade model is total on accepted input with in-domain parameters and third-party answers "
             "of the documented shape (run returns a chunk; no AmpycloudError of the code itself, no assert, no "
             "IndexError/TypeError is reachable; without assumption A3 on the selected mixture only the empty-component "
             "AmpycloudError or the bare assert remain); the kernels are only consulted inside their documented domains "
             "(two kernels agreeing there give the same run); construction refusals are AmpycloudError. Not provable by any model "
             "of ampycloud: that scikit-learn/statsmodels/numpy/pandas do not raise inside their documented domain - that "
             "residue is searched (all scene families, random in-domain parameters; any exception is a violation).",
        ref='§6 C08', technique='Lean 4 proof of totality of the cascade model + crash search on the real code (search part is exploration)'),
    'C09': dict(
        category='other',
        text="PARTIAL. Proved on the model: the effect discipline - tmp_seed (save/seed/body/restore in finally) leaves the "
             "global random state unchanged for every body, raising or not, and the body's outcome is independent of the prior "
             "state; no API operation changes the global state along any history; processing is a function of data, parameters "
             "and kernel answers, independent of what other chunks did. Sampled on the real code, not proved (no model of "
             "ampycloud can exhibit it): bit-identical SHA-256 of data/ids/tables/messages under different prior RNG states, "
             "after other runs, in fresh processes with different PYTHONHASHSEED; RNG-state digest before/after every API "
             "operation incl. canonical_demo_data and tmp_seed with a raising body.",
        ref='§6 C09', technique='Lean 4 proof of the effect discipline + sampled bit-reproducibility (search part is exploration)'),
    'C10': dict(
        text="Lean theorems: in the model a frame's columns are read by name and its index is never read (F1 repaired by an "
             "index reset), so relabelling, extra columns and dtype variants leave runFrom unchanged - immediate in the model. "
             "The content is the tie: the real cascade on relabelled (shuffled/offset/float/string/repeated via pd.concat), "
             "column-permuted, extra-column and dtype-variant frames must be bit-identical to the plain frame, which in turn "
             "is re-run by the model.",
        ref='§6 C10', technique='Lean 4 proof (index/layout not read by the model) + metamorphic check on the real code tied to the model'),
    'C11': dict(
        text="Lean theorems on a model of the parameter dictionaries with Python object identity (in-place mutation reaches "
             "every alias; deepcopy allocates fresh identities; adjust_nested_dict mutates the reference in place and stores "
             "non-dict items themselves): the separation invariant (global shares no mutable node with any snapshot or caller "
             "dict; distinct snapshots/callers share no dict node) holds after every history; construction changes nothing that "
             "existed; global edits / set_prms / reset_prms leave every snapshot untouched; snapshot edits leak nowhere, nor "
             "into later chunks. Tie: histories on the real objects, contents AND alias classes (id()) after every operation "
             "reproduced by the model; caller DataFrame fingerprint (values, dtypes, index, buffers) before/after run().",
        ref='§6 C11', technique='Lean 4 proof (inductive separation invariant over a heap-like model) + identity-level correspondence'),
    'C12': dict(
        text="Lean theorems: valid nested partial assignments never crash, keep the key tree, warn once per unknown key, "
             "override only named keys, are blind to the overridden values of the global; per-call and YAML routes give equal "
             "effective parameters for any prior global; a direct leaf edit equals a one-leaf nested assignment; reset_prms "
             "restores all / exactly the named defaults, unknown name => AmpycloudError after resetting the names before it. "
             "Tie: set_prms/reset/construct histories reproduced by the model; on the real code three routes x scenes give "
             "bit-identical results, poisoned global, unknown keys, reset over subsets of the 14 names after nested in-place edits.",
        ref='§6 C12', technique='Lean 4 proof (mutual induction over nested dictionaries) + route-equivalence differential testing'),
    'C13': dict(
        category='proof',
        text="PARTIAL. Proved on the model for any number of chunks and any schedule length: a stage call touches one chunk "
             "only (frame), calls on different chunks commute, every chunk ends in the state and returns the outputs of its "
             "own calls alone (projection). Tie: all 70 (quick) / 34650 (thorough) stage-granularity interleavings of 2 / 3 "
             "real chunks with distinct data and per-call parameters, each compared bit for bit with its isolated run. "
             "Searched, not proved: real threads under seeded baton pre-emption at line granularity inside ampycloud/* and "
             "free-running threads (pre-emption inside C extensions and library thread pools is outside any model); one thread "
             "paused before every distinct source line of a pair of chunks that both have a group the mixture splits; per thread "
             "the arguments handed to np.percentile are compared with the chunk's own sequential run (a difference there alone is a "
             "broken tie with the frame theorem, reported as no-failing-input-found unless a result differs).",
        ref='§6 C13', technique='Lean 4 proof (frame/projection by induction over schedules) + exhaustive stage interleavings + seeded thread-schedule search'),
    'C14': dict(
        text="Lean theorems on the stage machine (ten calls on one chunk, deterministic kernels): from the fresh chunk every "
             "history of any length ends in one of the four canonical states of the slices-groups-layers run (so tables, ids, "
             "messages are canonical), a refused call changes nothing and has a documented reason, nothing but AmpycloudError "
             "is raised, repeating an accepted call is idempotent, completed stages are never lost (F5a, F5b repaired). Tie: per "
             "scene the closed graph of reachable real states (merged by digest, hence all histories of all lengths) is walked "
             "by the model edge by edge and node by node; directly executed random histories cross-check the merging.",
        ref='§6 C14', technique='Lean 4 proof (40-case transition table + induction over histories) + exhaustive state-graph correspondence'),
    'C15': dict(
        text="Lean theorems on the model of check_data_consistency over coercible frames: it raises iff the documented list "
             "holds (not a frame, empty, missing column, duplicated coerced rows, 0/non-0 or VV/non-VV on the same "
             "(ceilometer,time)), every refusal is an AmpycloudError, output = the coerced rows in order with the four columns, "
             "second pass is the identity and warns about no column/dtype. Tie: 600/12000 frames built by one or two defects; "
             "raise/no-raise, class, values, dtypes, warning kinds, idempotence, argument untouched, chunk construction agrees.",
        ref='§6 C15', technique='Lean 4 proof (case analysis of the check cascade) + defect-directed differential testing'),
    'C16': dict(
        text="Lean theorem C16_equivariant: the cascade model is polymorphic in the ceilometer-name type with decidable "
             "equality only, and for every injective renaming f (exclusion list mapped) run commutes with f: identical ids, "
             "tables, flag, messages. Tie: real cascade on renamed frames (order-reversing, '10'<'9', substring, whitespace, "
             "long, unicode, empty-ish names) must be bit-identical and hand identical arguments to every third-party kernel.",
        ref='§6 C16', technique='Lean 4 proof (equivariance under injective maps, parametricity in the name type) + metamorphic check'),
    'C19': dict(
        text="PARTIAL (float round trip sampled). Lean theorems over exact rationals for the models of shift_and_scale, "
             "minmax_scale + minrange2minmax, step_scale, apply_scaling, convert_kwargs: strictly order-preserving for "
             "positive scales, undo(do(x)) = x with the derived keywords, min-max into [0,1] with the minimum range honoured and "
             "centred, step scaling continuous at every step and strictly monotone, ill-formed step lists refused, NaN stays "
             "NaN and does not influence the other values. Tie: real functions vs model (1e-9), NaN positions and order "
             "exactly; binary64 round trip within 1e-6 only sampled.",
        ref='§6 C19', technique='Lean 4 proof over Rat (piecewise-linear monotonicity, inverse) + checked-oracle correspondence'),
    'C20': dict(
        category='other',
        text="PARTIAL. Proved on the model: every table position the plot reads exists (n_* = table length for every chunk run "
             "returns), marker/colour indices are taken modulo the list length (any number of sets), ncomp lies in the keys -1,1,2,3 of "
             "the symbol table, the style context is "
             "restored whatever the body does, the plot reads the chunk only. Searched on the real code, not proved "
             "(matplotlib cannot be modelled): diagnostic() on chunks from all families incl. no hits / single hit / VV / "
             "zero-okta / more sets than marker styles x upto x show_ceilos x ref-METAR x formats, in sequence in one process: no "
             "exception, chunk digest unchanged, rcParams equal, no figure open, exactly the requested files.",
        ref='§6 C20', technique='Lean 4 proof of the indexing/restore discipline + side-effect search on the real plotting code'),
    'C17': dict(
        text="Lean theorems C17_length/_char/_prefix/_at_most_three/_zero_never about the model of "
             "icao.significant_cloud for every integer sequence of any length; the model is tied to the real "
             "function by an exhaustive comparison over all okta sequences 0..8 up to length 5 (quick) / 7 "
             "(thorough) plus random long ones, and the Lean spec predicate is evaluated on the real output.",
        ref='§6 C17', technique='Lean 4 proof (induction over the okta list) + exhaustive model/implementation correspondence'),
    'C18': dict(
        text="Lean theorems over exact rationals for the models of wmo.perc2okta (range refusal, 0 iff n=0, 8 iff n=M, "
             "nearest-clipped, monotone in n), okta2code (full table, refusals by type) and height2code (floor, monotone, "
             "three digits on [0,1e5)). Binary64 rounding is not proved: the real functions are compared with the model "
             "on every (n,M<=512/4096), array and scalar paths, a 1-ft/0.01-ft height grid and all coding boundaries with "
             "their float neighbours.",
        ref='§6 C18', technique='Lean 4 proof over Rat + exhaustive float-vs-model validation at all boundaries'),
}


E2E = (" End to end: the clauses are also stated directly about what ampycloud.run returns (theorems Cxx_run_*), under the "
       "property's own quantifier only (structure Accepted: hit heights in [0,1e5) ft, parameters inside their documented "
       "meaning, third-party answers of the documented shape).")
MON = (" The run-time monitor (the decidable Lean spec predicate evaluated on the implementation's output) is proved to raise "
       "nothing on the model's own output (Cxx_monitor_sound*), so it demands nothing beyond the property as modelled.")
def SRC(fns, thms):
    return (f" Source tie (second tie, DESIGN 11.10): the Lean text of {fns} is regenerated from /repo's current source by "
            f"harness/py2lean.py on every run and proved equal to the model for all inputs (Ampy/GenEq); {thms} restate the "
            "property's clauses on the regenerated definitions. A source outside the translated Python subset falls back to the "
            "correspondence alone (explored at the thorough size), an equality that no longer checks is a broken proof obligation.")


KF = (" On a share of the scenes the mixture / clustering answers are distorted within the shape the theorems assume (kernel "
      "fuzzing, DESIGN 11.12) and the model replays the distorted answers.")
EXTRA = {
    'C01': E2E + MON,
    'C02': E2E + MON + SRC('CeiloChunk._ncd_or_nsc', 'C02_src_*'),
    'C03': E2E + MON,
    'C04': E2E + MON + SRC('utils.calc_base_height', 'C04_src_*'),
    'C05': MON + KF,
    'C06': (" End to end: C06_run_groups_separated (groups table of every run) and C06_run_split_layers_separated (layers of a "
            "group split into as many layers as the selected mixture distinguishes, no ceilometer excluded)." + MON +
            " That proof obligation exposed and removed a false alarm of the monitor as first written (guarded by the reported "
            "ncomp, which is the count after re-merging)." + SRC('CeiloChunk._get_min_sep_for_height', 'C06_src_*') + KF),
    'C07': MON,
    'C08': (" API level: C08_api_total (any argument: AmpycloudError from the consistency check, or a chunk) and C08_metar_total." + KF +
            " Assumption A3 (the selected mixture has no unpopulated component) is a theorem in mode delta for non-negative scores and "
            "gain <= 1 (C08_selected_populated_delta, C08_run_total_delta), with witnesses that neither condition can be dropped "
            "(C08_penalty_limits)." + SRC('layer.best_gmm (mode delta)', 'C08_src_*')),
    'C17': MON + SRC('icao.significant_cloud', 'C17_src_*'),
    'C18': MON + SRC('wmo.okta2code, height2code and perc2okta', 'C18_src_*'),
    'C19': SRC('scaler.minrange2minmax, shift_and_scale and minmax_scale', 'C19_src_*'),
    'C20': (" Source tie: wmo.okta2symb (the symbol behind every slice / group / layer label) is translated from /repo's current "
            "source by harness/py2lean.py on every run; C20_src_symb_* are stated about that text directly: total on every okta a "
            "table can hold (0..8 by C03_okta_range, and 9) in both styles - also source to source, for what the translated perc2okta returns (C20_src_symb_of_src_okta) -, injective in the metsymb style, AmpycloudError outside "
            "0..9; the same statement is run on the implementation (C20.okta-symbol-total)."),
}


def main():
    checks = []
    for pid, c in sorted(CHECKS.items()):
        c = dict(c, text=c['text'] + EXTRA.get(pid, ''))
        checks.append({
            'property_id': pid,
            'quick_cmd': f'./check {pid} --tier quick',
            'thorough_cmd': f'./check {pid} --tier thorough',
            'evidence_file': f'evidence/{pid}.json',
            'replay_cmd_template': f'./check {pid} --replay {{path}}',
            'engine': 'lean-proof+correspondence',
            'level_claimed': {'category': c.get('category', 'proof'), 'text': c['text'], 'design_ref': c['ref']},
            'level_note': c.get('note', NOTE),
            'technique': c['technique'],
        })
    props = [json.loads(l)['id'] for l in (V / 'properties.jsonl').read_text().splitlines() if l.strip()]
    na = [{'property_id': p, 'reason': 'check not built yet in this revision (planned, see DESIGN.md §10); not a limit of the technique'}
          for p in props if p not in CHECKS]
    man = {
        'version': 1,
        'setup_cmd': 'cd lean && lake build && cd .. && /venv/bin/python -m compileall -q harness >/dev/null; test -x lean/.lake/build/bin/ampydrv',
        'hooks': {
            'guard': 'AMPYCLOUD_VERIF',
            'enable': 'no source hooks: the harness sets AMPYCLOUD_VERIF=1 and installs run-time wrappers around the third-party kernels from outside; /repo is imported from its working tree',
            'baseline_off_cmd': BASE,
            'source_commits': [],
            'add_only': True,
        },
        'engines': [{'name': 'lean-proof+correspondence', 'path': 'lean/ + harness/',
                     'serves_properties': sorted(CHECKS),
                     'kind_free_text': 'Lean 4 model + theorems (lake build, #print axioms audit) and a Python correspondence harness driving the compiled model through a line protocol'}],
        'checks': checks,
        'not_applicable': na,
        'notes': 'See DESIGN.md. Exit 0 held / 1 violation / 2 infrastructure.',
    }
    (V / 'MANIFEST.json').write_text(json.dumps(man, indent=1) + '\n')


if __name__ == '__main__':
    main()
