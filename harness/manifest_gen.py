"""Regenerates MANIFEST.json from the table below (run by hand after adding a check)."""
import json
from pathlib import Path

V = Path(__file__).resolve().parent.parent
BASE = ("cd /repo && /venv/bin/python -m pytest -ra -q -p no:cacheprovider --timeout=900 "
        "--continue-on-collection-errors")

NOTE = ("Trusted: Lean 4.33 kernel with axioms propext/Classical.choice/Quot.sound only (audited every run); the "
        "hand-written Lean model, tied to /repo by the correspondence harness (differential, bounded by its "
        "generators); third-party kernels and binary64 rounding are parameters / checked oracles, not verified.")

CHECKS = {
    'C17': dict(
        text="Lean theorems C17_length/_char/_prefix/_at_most_three/_zero_never about the model of "
             "icao.significant_cloud for every integer sequence of any length; the model is tied to the real "
             "function by an exhaustive comparison over all okta sequences 0..8 up to length 5 (quick) / 7 "
             "(thorough) plus random long ones, and the Lean spec predicate is evaluated on the real output.",
        ref='§6 C17', technique='Lean 4 proof (induction over the okta list) + exhaustive model/implementation correspondence'),
    'C18': dict(
        text="Lean theorems over exact rationals for the models of wmo.perc2okta (range refusal, 0 iff n=0, 8 iff n=M, "
             "nearest-clipped, monotone in n), okta2code (full table, refusals by type) and height2code (floor, monotone, "
             "three digits on [0,1e5)). Binary64 rounding is not proved: the real functions are compared with the model "
             "on every (n,M<=512/4096), array and scalar paths, a 1-ft/0.01-ft height grid and all coding boundaries with "
             "their float neighbours.",
        ref='§6 C18', technique='Lean 4 proof over Rat + exhaustive float-vs-model validation at all boundaries'),
}


def main():
    checks = []
    for pid, c in sorted(CHECKS.items()):
        checks.append({
            'property_id': pid,
            'quick_cmd': f'./check {pid} --tier quick',
            'thorough_cmd': f'./check {pid} --tier thorough',
            'evidence_file': f'evidence/{pid}.json',
            'replay_cmd_template': f'./check {pid} --replay {{path}}',
            'engine': 'lean-proof+correspondence',
            'level_claimed': {'category': c.get('category', 'proof'), 'text': c['text'], 'design_ref': c['ref']},
            'level_note': c.get('note', NOTE),
            'technique': c['technique'],
        })
    props = [json.loads(l)['id'] for l in (V / 'properties.jsonl').read_text().splitlines() if l.strip()]
    na = [{'property_id': p, 'reason': 'check not built yet in this revision (planned, see DESIGN.md §10); not a limit of the technique'}
          for p in props if p not in CHECKS]
    man = {
        'version': 1,
        'setup_cmd': 'cd lean && lake build && cd .. && /venv/bin/python -m compileall -q harness >/dev/null; test -x lean/.lake/build/bin/ampydrv',
        'hooks': {
            'guard': 'AMPYCLOUD_VERIF',
            'enable': 'no source hooks: the harness sets AMPYCLOUD_VERIF=1 and installs run-time wrappers around the third-party kernels from outside; /repo is imported from its working tree',
            'baseline_off_cmd': BASE,
            'source_commits': [],
            'add_only': True,
        },
        'engines': [{'name': 'lean-proof+correspondence', 'path': 'lean/ + harness/',
                     'serves_properties': sorted(CHECKS),
                     'kind_free_text': 'Lean 4 model + theorems (lake build, #print axioms audit) and a Python correspondence harness driving the compiled model through a line protocol'}],
        'checks': checks,
        'not_applicable': na,
        'notes': 'See DESIGN.md. Exit 0 held / 1 violation / 2 infrastructure.',
    }
    (V / 'MANIFEST.json').write_text(json.dumps(man, indent=1) + '\n')


if __name__ == '__main__':
    main()
