"""Table-level correspondence shared by C01-C04 (and reused by later properties).

For every generated scene the real pipeline is run stage by stage; for each level the implementation's
id column, table and message go to the Lean driver (`MET` request), which rebuilds the table with the
model from the id column and the recorded third-party answers, compares, and evaluates the spec
predicates of C01-C04 on the implementation's output.  Each property reads only its own observables.
"""
from __future__ import annotations

import hashlib
import random
from multiprocessing import Pool

import numpy as np

from . import common, scenes

# which NE fields / SPEC prefixes / other findings count for which property
OBSERVABLES = {
    'C01': {'ne': ('message', 'code', 'significant', 'okta', 'height_base', 'table', 'n_which'), 'spec': ('C01.',)},
    'C02': {'ne': ('message', 'code', 'significant', 'okta', 'height_base', 'table', 'n_which'), 'spec': ('C02.',)},
    'C03': {'ne': ('n_hits', 'perc', 'okta', 'code', 'table'), 'spec': ('C03.',)},
    'C04': {'ne': ('height_base', 'height_mean', 'height_std', 'height_min', 'height_max', 'thickness',
                   'fluffiness', 'code', 'table', 'cluster_id'), 'spec': ('C04.',), 'arg': True, 'kernel': True},
}


def gen_scene(seed, k, family):
    """Deterministic scene number k of a family for a run seed: (rows, prms, meta)."""
    rng = random.Random(f'{seed}:{family}:{k}')
    meta = {'family': family, 'k': k}
    if family == 'synth':
        rows = scenes.synth_rows(rng, integer=rng.random() < 0.4, vv_frac=rng.choice([0, 0, 0.1]))
        prms = scenes.random_prms(rng, rows)
    elif family == 'exact':
        # flat integer layers with hit counts on the okta / buffer boundaries
        n_steps = rng.choice([8, 16, 24, 40])
        names = [str(i) for i in range(rng.choice([1, 2, 3]))]
        M = n_steps * len(names)
        t0 = rng.choice([0, 1, 2, 3])
        t8 = rng.choice([0, 1, 2])
        edges = sorted({0, 1, t0, t0 + 1, n_steps - t8, n_steps - t8 - 1, n_steps, n_steps // 2, n_steps // 8 + 1,
                        3 * n_steps // 8, 5 * n_steps // 8, n_steps // 16 + 1})
        nl = rng.choice([1, 2, 3, 4, 5])
        base = rng.choice([100, 900, 1000, 3000, 9900, 10000, 10900])
        gap = rng.choice([250, 300, 1000, 1100, 3000])
        spec = [(base + i * gap, max(0, min(n_steps, rng.choice(edges)))) for i in range(nl)]
        rows = scenes.flat_rows(spec, n_steps, names=names)
        prms = {'MAX_HITS_OKTA0': t0, 'MAX_HOLES_OKTA8': t8}
        hs = [h for h, _ in spec]
        r = rng.random()
        if r < 0.7:
            prms['MSA'] = rng.choice(hs + [h + 1 for h in hs] + [h - 1 for h in hs] + [hs[-1] + 5000, 0])
            prms['MSA_HIT_BUFFER'] = rng.choice([0, 100, gap, 1500])
        if rng.random() < 0.3:
            prms['BASE_LVL_HEIGHT_PERC'] = rng.choice([0, 50, 100])
        meta['M'] = M
    elif family == 'degenerate':
        kind = rng.choice(['single', 'allnan', 'identical', 'twovalued', 'vv', 'type0height', 'hightype', 'typednan',
                           'coincident', 'subsecond', 'daylong', 'typednan23', 'orphan', 'orphan', 'twofirst', 'twofirst',
                           'small_multi', 'small_multi', 'one_step', 'one_step', 'null_range', 'null_range', 'null_range'])
        meta['kind'] = kind
        n = rng.choice([1, 2, 5, 12, 40])
        if kind == 'single':
            rows = [('0', -10.0 * i, float('nan'), 0) for i in range(1, n)] + [('0', 0.0, float(rng.choice([0, 150, 5000, 99999])), 1)]
        elif kind == 'allnan':
            rows = [(str(i % 2), -15.0 * i, float('nan'), 0) for i in range(n)]
        elif kind == 'identical':
            rows = [(str(i % 2), -15.0 * i, 1500.0, 1) for i in range(max(n, 2))]
        elif kind == 'twovalued':
            rows = [(str(i % 2), -15.0 * i, rng.choice([1500.0, 1800.0]), 1) for i in range(max(n, 35))]
        elif kind == 'vv':
            rows = [('0', -15.0 * i, float(rng.choice([100, 200, 300])), -1) for i in range(max(n, 3))]
        elif kind == 'type0height':
            rows = [('0', -15.0 * i, 1200.0 if i % 3 == 0 else float('nan'), 0) for i in range(max(n, 4))]
        elif kind == 'hightype':
            rows = []
            for i in range(max(n, 4)):
                for ty in (1, 2, 3, 4, 5):
                    rows.append(('0', -15.0 * i, 1000.0 * ty + rng.randint(-50, 50), ty))
        elif kind == 'typednan':
            rows = [('0', -15.0 * i, float('nan') if i % 4 == 0 else 900.0 + i, 1) for i in range(max(n, 5))]
        elif kind == 'typednan23':
            rows = []
            for i in range(max(n, 6)):
                rows.append(('0', -15.0 * i, 1500.0 + (i % 4), 1))
                rows.append(('0', -15.0 * i, float('nan'), 2))
                rows.append(('0', -15.0 * i, float('nan'), 3))
        elif kind == 'orphan':
            # accepted with a warning only: higher-type hits with no coincident lower type, measurements that
            # consist of a type-2 / type-3 hit alone, next to ordinary ones
            rows = []
            for i in range(max(n, 8)):
                c = str(i % rng.choice([1, 2]))
                r = rng.random()
                if r < 0.35:
                    rows.append((c, -15.0 * i, 2600.0 + (i % 3), rng.choice([2, 3])))
                elif r < 0.5:
                    rows.append((c, -15.0 * i, 900.0 + (i % 2), 1))
                    rows.append((c, -15.0 * i, 2600.0 + (i % 3), 3))
                elif r < 0.65:
                    rows.append((c, -15.0 * i, float('nan'), 0))
                else:
                    rows.append((c, -15.0 * i, 900.0 + (i % 2), 1))
        elif kind == 'twofirst':
            # accepted silently: several rows of the same type at one (ceilo, dt) with different heights
            rows = []
            for i in range(max(n, 8)):
                c = str(i % rng.choice([1, 2]))
                rows.append((c, -15.0 * i, 1100.0 + (i % 2), 1))
                if rng.random() < 0.5:
                    rows.append((c, -15.0 * i, 1100.0 + (i % 2) + rng.choice([300.0, 2.0, 1700.0]), 1))
                if rng.random() < 0.2:
                    rows.append((c, -15.0 * i, 4100.0, 2))
        elif kind == 'small_multi':
            # a few measurements, each with several hits a few feet apart (one slice): more rows than distinct
            # (ceilometer, time) measurements, around the MAX_HITS_OKTA0 buffer
            rows = [('0', -15.0 * i, float('nan'), 0) for i in range(3, max(n, 12))]
            k_meas = rng.choice([1, 2, 3])
            for i in range(k_meas):
                for ty in range(1, rng.choice([2, 3, 4]) + 1):
                    rows.append(('0', -15.0 * i, 1200.0 + 7.0 * ty, ty))
        elif kind == 'one_step':
            # several ceilometers reporting at one single, common time step (a set whose hits all share the same dt)
            nc = rng.choice([2, 4, 5, 6])
            rows = [(str(c), -15.0 * i, float('nan'), 0) for c in range(nc) for i in range(1, max(n, 6))]
            rows += [(str(c), 0.0, 2900.0 + 3.0 * c, 1) for c in range(nc)]
        elif kind == 'null_range':
            # one or several valid hits of one single height among non-detections, with no minimum range for the height
            # scaling of the slicing: a range of width zero (the case repaired as F6)
            hv = float(rng.choice([0, 150, 1500, 30000]))
            nv = rng.choice([1, 1, 2, 7, 30])
            rows = [(str(i % rng.choice([1, 2])), -15.0 * i, hv if i < nv else float('nan'), 1 if i < nv else 0)
                    for i in range(nv + rng.choice([1, 3, 10]))]
            rng.shuffle(rows)
        elif kind == 'coincident':
            rows = [(str(c), -15.0 * i, 700.0 + 10 * c + i, 1) for i in range(max(n, 5)) for c in range(3)]
        elif kind == 'subsecond':
            rows = [('0', -0.001 * i, 2000.0 + (i % 5), 1) for i in range(max(n, 12))]
        else:
            rows = [('0', -7200.0 * i, 2000.0 + 30 * (i % 5), 1) for i in range(max(n, 12))]
        prms = scenes.random_prms(rng, rows) if rng.random() < 0.5 else {}
        if kind == 'null_range':
            prms.setdefault('SLICING_PRMS', {})
            prms['SLICING_PRMS'] = dict(prms['SLICING_PRMS'], height_scale_kwargs={'min_range': 0})
        if kind == 'small_multi':
            prms['MAX_HITS_OKTA0'] = rng.choice([2, 3, 3, 4])
        if kind == 'one_step':
            prms['MAX_HITS_OKTA0'] = rng.choice([0, 1, 3])
    elif family == 'boundary':
        # flat layers whose base lies just below / on / above a coding boundary (x00 ft up to 10000, x000 ft above)
        n_steps = rng.choice([12, 20, 30])
        nl = rng.choice([1, 2, 3])
        spec = []
        for i in range(nl):
            b = rng.choice([100, 1000, 3000, 9900, 10000, 11000, 20000, 99000]) + 0.0
            d = rng.choice([0.0, -0.01, -0.04, -0.06, -1e-6, -1e-9, 0.04, -0.5])
            h = b + d if rng.random() < 0.8 else float(np.nextafter(b, -np.inf))
            if h + 3000.0 * i < 99990:                       # the quantifier's range is [0, 100000) ft
                spec.append((h + 3000.0 * i, rng.randint(n_steps // 2, n_steps)))
        rows = []
        for s_ in range(n_steps):
            hs = sorted(h for (h, cnt) in spec if s_ < cnt)
            if not hs:
                rows.append(('0', -15.0 * (n_steps - s_), float('nan'), 0))
            for k_, h in enumerate(hs):
                rows.append(('0', -15.0 * (n_steps - s_), h, k_ + 1))
        prms = {'BASE_LVL_HEIGHT_PERC': rng.choice([0, 5, 50, 100])}
    elif family == 'multi':
        # many reportable layers, well separated, integer heights
        n_steps = rng.choice([30, 40, 60])
        nl = rng.choice([4, 5, 6, 7])
        spec = [(500 + 1500 * i + rng.randint(0, 99), rng.randint(n_steps // 8, n_steps)) for i in range(nl)]
        rows = scenes.flat_rows(spec, n_steps, names=['a', 'b'][:rng.choice([1, 2])])
        prms = scenes.random_prms(rng, rows)
        prms.pop('SLICING_PRMS', None)
    else:
        raise ValueError(family)
    return rows, prms, meta


def _work(args):
    seed, k, family = args
    rows, prms, meta = gen_scene(seed, k, family)
    try:
        obs = scenes.run_scene(rows, prms)
    except Exception as e:  # harness problem, not the implementation's
        return {'meta': meta, 'harness_error': f'{type(e).__name__}: {e}'}
    out = {'meta': meta, 'exc': obs['exc'], 'stage': obs['stage'], 'exc_msg': obs.get('exc_msg'), 'eff_mismatch': obs.get('eff_mismatch'), 'impure_queries': obs.get('impure_queries'),
           'stats': scenes.scene_stats(obs), 'reqs': {}, 'missing': obs['trace'].missing,
           'digest': hashlib.sha1(repr((rows, sorted(prms.items(), key=str))).encode()).hexdigest()[:16],
           'nrows': len(rows), 'prms': prms}
    if 'data' in obs:
        for w in obs['levels']:
            out['reqs'][w] = scenes.met_request(obs, w)
            out.setdefault('msgs', {})[w] = obs['levels'][w]['msg']
    return out


FAMILIES = (('synth', 0.4), ('exact', 0.25), ('degenerate', 0.1), ('multi', 0.15), ('boundary', 0.1))


def run_tables(chk, prop, n_scenes, families=FAMILIES):
    """Generate, run, ship to the driver, classify.  Fills chk.mismatches / chk.spec_fails."""
    tasks = []
    for fam, share in families:
        for k in range(max(1, int(n_scenes * share))):
            tasks.append((chk.seed, k, fam))
    obs_rules = OBSERVABLES[prop]
    with Pool(16) as pool:
        results = pool.map(_work, tasks, chunksize=4)
    reqs, owners = [], []
    for res, task in zip(results, tasks):
        if 'harness_error' in res:
            raise common.InfraError(f'scene {task}: {res["harness_error"]}')
        for w, line in res['reqs'].items():
            reqs.append(line)
            owners.append((res, task, w))
    answers = chk.driver.ask(reqs)
    per_scene = {}
    for (res, task, w), ans in zip(owners, answers):
        a = scenes.parse_met_answer(ans)
        if a['bad']:
            chk.mismatch('what the implementation produced cannot be expressed as a model request (driver: bad-request)', f'{w}: {ans[:200]}',
                         {'gen': {'seed': chk.seed, 'k': task[1], 'family': res['meta']['family']}, 'which': w})
            continue
        per_scene.setdefault(task, []).append((w, a))
    for res, task in zip(results, tasks):
        fam = res['meta']['family']
        for k, v in res['stats'].items():
            chk.count(k, v)
        chk.count('family_' + fam)
        nontriv = any(m not in ('NCD',) for m in res.get('msgs', {}).values())
        replay = {'gen': {'seed': chk.seed, 'k': task[1], 'family': fam}}
        chk.case(res['digest'], nontrivial=nontriv,
                 sample={'family': fam, 'k': task[1], 'rows': res['nrows'], 'prms': res['prms'],
                         'messages': res.get('msgs')} if task[1] < 2 else None)
        if res['missing']:
            chk.mismatch('wrapper targets missing', str(res['missing']), replay)
        if res.get('impure_queries'):
            chk.mismatch('reading messages / tables / properties leaves the chunk as it was', f"changed by the queries: {res['impure_queries']}", replay)
        if res.get('eff_mismatch'):
            chk.mismatch('chunk.prms = the parameters that were requested', f"differs in {res['eff_mismatch']}", replay)
        if res['exc']:
            chk.count('scene_raised_' + res['exc'])
            chk.mismatch('metarize/metar_msg model = implementation (the implementation raised on an accepted scene)',
                         f"{res['exc']}: {res.get('exc_msg')}", replay)
            continue
        for w, a in per_scene.get(task, []):
            rp = dict(replay, which=w)
            for ne in a['ne']:
                field = ne.split('[')[0].split(' ')[0]
                if field in obs_rules['ne']:
                    chk.mismatch(f'metarize/metar_msg model = implementation ({field})', f'{w}: {ne}', rp)
            if obs_rules.get('arg'):
                for x in a['arg']:
                    chk.mismatch('model predicts the values handed to np.percentile', f'{w}: {x}', rp)
            if obs_rules.get('kernel'):
                for x in a['kernel']:
                    chk.mismatch('third-party answer has the assumed shape', f'{w}: {x}', rp)
            for sp in a['spec']:
                if sp.startswith(obs_rules['spec']):
                    chk.spec_fail(sp.split(' ')[0], f'{w}: {sp}', rp, signature=None)


def replay_scene(chk, obj, prop):
    case = obj.get('case') or (obj.get('broken_correspondence') or [{}])[0].get('case')
    g = case['gen']
    res = _work((g['seed'], g['k'], g['family']))
    rows, prms, _ = gen_scene(g['seed'], g['k'], g['family'])
    print(f"scene family={g['family']} k={g['k']} seed={g['seed']} rows={len(rows)} prms={prms}")
    if res.get('exc'):
        print('implementation raised', res['exc'], res.get('exc_msg'))
        return 1
    bad = 0
    rules = OBSERVABLES[prop]
    for w, line in res['reqs'].items():
        ans = chk.driver.ask([line])[0]
        a = scenes.parse_met_answer(ans)
        print(f"{w}: message={res['msgs'][w]!r} driver={ans[:600]}")
        bad += sum(1 for sp in a['spec'] if sp.startswith(rules['spec']))
        bad += sum(1 for ne in a['ne'] if ne.split('[')[0].split(' ')[0] in rules['ne'])
    return 1 if bad else 0
