"""Metamorphic checks on the real code for C10 (index labels / layout) and C16 (ceilometer renaming).

For a base scene (also tied to the model by a RUN request) a transformed frame is run through the real
cascade; tables, id columns and messages must be identical to those of the base frame.  For C16 the
recorded third-party arguments of the two runs must be identical too (names never reach a kernel).
"""
from __future__ import annotations

import hashlib
import random
import warnings
from multiprocessing import Pool

import numpy as np
import pandas as pd

from . import common, pipecheck, scenes

LABELINGS = ['shuffled', 'offset', 'float', 'string', 'concat_repeats', 'all_equal', 'random_repeats', 'negative', 'sorted_repeats',
             'timestamp', 'named_like_column', 'named_like_column']
LAYOUTS = ['col_perm', 'extra_cols', 'dtype_obj_ceilo', 'dtype_int_dt', 'dtype_int_height', 'dtype_float_type',
           'dtype_int8_type', 'dtype_object_all', 'objint_ceilo', 'objint_ceilo', 'dup_extra_cols', 'many_extra_cols', 'rich_extra_cols', 'rich_extra_cols']
RENAMINGS = ['reverse_order', 'ten_nine', 'substring', 'whitespace', 'long', 'unicode', 'empty_ish', 'swap', 'concat_collision', 'concat_collision', 'escapes', 'escapes',
             'padded', 'padded']


def observe(obs):
    """Everything C10/C16 compare, as hashable protocol strings (floats as exact fractions)."""
    if obs['exc']:
        # the exception class and the stage it came from; the message text may legitimately quote labels or names
        return {'exc': obs['exc'] + ' at ' + str(obs.get('stage'))}
    c = obs['chunk']
    return {
        'data': [(common.frac(dt), common.frac(h), t) for _, dt, h, t in obs['data']],
        'sids': [int(v) for v in c.data['slice_id']], 'gids': [int(v) for v in c.data['group_id']],
        'lids': [int(v) for v in c.data['layer_id']],
        'slices': scenes.table_rows(c.slices), 'groups': scenes.table_rows(c.groups), 'layers': scenes.table_rows(c.layers),
        'msgs': [c.metar_msg(w) for w in ('slices', 'groups', 'layers')], 'flag': obs['flag'],
    }


def kernel_args(obs):
    tr = obs['trace']
    h = hashlib.sha1()
    for c in tr.cluster:
        h.update(c['pts'].tobytes())
        h.update(repr(sorted(c['kwargs'].items())).encode())
    for g in tr.gmm:
        h.update(g['vals'].tobytes())
    for p in tr.percentile:
        h.update(p['vals'].tobytes())
    for f in tr.fluff:
        h.update(f['pts'].tobytes())
    return h.hexdigest()


def relabel(df, how, rng):
    n = len(df)
    out = df.copy()
    if how == 'shuffled':
        idx = list(range(n)); rng.shuffle(idx); out.index = idx
    elif how == 'offset':
        out.index = range(1000, 1000 + n)
    elif how == 'float':
        out.index = [i + 0.5 for i in range(n)]
    elif how == 'string':
        out.index = [f'row{i % 7}_{i}' for i in range(n)]
    elif how == 'concat_repeats':
        parts = [df[df['ceilo'] == c].reset_index(drop=True) for c in sorted(set(df['ceilo']))]
        # same rows, grouped per ceilometer, labels 0..k repeated: compare against the same rows plainly indexed
        out = pd.concat(parts)
    elif how == 'all_equal':
        out.index = [0] * n
    elif how == 'random_repeats':
        out.index = [rng.randrange(max(1, n // 3)) for _ in range(n)]
    elif how == 'negative':
        out.index = [-(i * 3) for i in range(n)]
    elif how == 'sorted_repeats':
        out.index = [i // rng.choice([2, 3]) for i in range(n)]          # repeated AND ascending
    elif how == 'named_like_column':
        out = out.set_index(rng.choice(['dt', 'ceilo']), drop=False)      # an index level named like a column
    elif how == 'timestamp':
        out.index = list(df['dt'])                                        # the time stamp as label: repeats for multi-hit measurements
    return out


def relayout(df, how, rng):
    out = df.copy()
    if how == 'col_perm':
        cols = list(out.columns); rng.shuffle(cols); out = out[cols]
    elif how == 'extra_cols' and 'station' not in out.columns:
        out.insert(rng.randrange(len(out.columns) + 1), 'station', 'LSZH')
        out[rng.choice(['quality', 'Quality', 'QC flag'])] = np.arange(len(out)) * 0.5
    elif how == 'dup_extra_cols' and 'station' not in out.columns:
        out['station'] = 'LSZH'
        out = pd.concat([out, out[['station']]], axis=1)
    elif how == 'many_extra_cols':
        # several superfluous columns whose labels are of different kinds (ints, strings, tuples)
        for lab in rng.sample([0, 1, 'station', ('a', 1), 2.5, 'Quality'], rng.choice([2, 3])):
            if lab not in out.columns:
                out[lab] = 1
    elif how == 'rich_extra_cols' and 'profile' not in out.columns:
        # a superfluous column whose cells are objects of any kind: the raw profile behind every hit (array, list), a dict
        # of flags, a set, missing values, time stamps - nothing the package has any business looking into
        kind = rng.choice(['list', 'ndarray', 'dict', 'set', 'mixed', 'none', 'timestamp'])
        def cell(i):
            k_ = kind if kind != 'mixed' else ['list', 'dict', 'none', 'float'][i % 4]
            return {'list': [i, i + 1], 'ndarray': np.arange(3) + i, 'dict': {'qc': i}, 'set': {i}, 'none': None,
                    'timestamp': pd.Timestamp('2024-01-01') + pd.Timedelta(seconds=i), 'float': float(i)}[k_]
        col = pd.Series([cell(i) for i in range(len(out))], index=out.index, dtype=object)
        out.insert(rng.randrange(len(out.columns) + 1), 'profile', col)
    elif how == 'dtype_obj_ceilo':
        out['ceilo'] = out['ceilo'].astype(object)
    elif how == 'objint_ceilo':
        # an object column whose elements are Python ints (station numbers), or ints and strs mixed: the checker
        # turns them into the same strings
        if all(str(c).isdigit() and str(int(c)) == str(c) for c in out['ceilo']):
            mixed = rng.random() < 0.5
            out['ceilo'] = pd.Series([(int(c) if not (mixed and int(c) % 2 == 1) else str(c)) for c in out['ceilo']],
                                     dtype=object, index=out.index)
    elif how == 'dtype_int_dt':
        if (out['dt'] == out['dt'].round()).all():
            out['dt'] = out['dt'].astype('int64')
    elif how == 'dtype_int_height':
        if out['height'].notna().all() and (out['height'] == out['height'].round()).all():
            out['height'] = out['height'].astype('int64')
    elif how == 'dtype_float_type':
        out['type'] = out['type'].astype(float)
    elif how == 'dtype_int8_type':
        out['type'] = out['type'].astype('int8')
    elif how == 'dtype_object_all':
        out = out.astype(object)
    return out


def _collision_names(names, rows, rng):
    """Names built from the scene's own time stamps so that *gluing* a name and a time stamp into one key is ambiguous:
    if str(a) == pre + str(b) for time stamps a (seen by ceilometer i) and b (seen by j), then i -> 'K', j -> 'K' + pre
    gives 'K' + str(a) == ('K' + pre) + str(b).  Names are labels: a correct implementation cannot tell."""
    dts = {}
    for c, dt, _, _ in rows:
        dts.setdefault(c, set()).add(float(dt))
    cands = []
    for ci in names:
        for cj in names:
            if ci == cj:
                continue
            for a in dts.get(ci, ()):
                for b in dts.get(cj, ()):
                    for fmt in (str, lambda x: str(int(x)) if float(x).is_integer() else str(x)):
                        sa, sb = fmt(a), fmt(b)
                        if len(sa) > len(sb) and sa.endswith(sb):
                            cands.append((ci, cj, sa[:-len(sb)]))
    if not cands:
        return None
    ci, cj, pre = rng.choice(sorted(set(cands)))
    m = {c: f'c{i}' for i, c in enumerate(names)}
    m[ci], m[cj] = 'K', 'K' + pre
    return m


def rename_map(names, how, rng, rows=None):
    names = sorted(names)
    if how == 'concat_collision':
        m = _collision_names(names, rows or [], rng)
        if m is not None:
            return m
        how = 'substring'
    if how == 'reverse_order':
        new = sorted((f'c{i:03d}' for i in range(len(names))), reverse=True)
    elif how == 'ten_nine':
        new = [str(10 - i) for i in range(len(names))]            # '10' < '9' as strings
    elif how == 'substring':
        new = ['A' * (i + 1) for i in range(len(names))]            # each a substring of the next
    elif how == 'whitespace':
        new = [' ' * (i + 1) for i in range(len(names))]
    elif how == 'long':
        new = [('ceilometer-%d-' % i) * 20 for i in range(len(names))]
    elif how == 'unicode':
        new = ['Zürich-%d ☁' % i for i in range(len(names))]
    elif how == 'escapes':
        pool = ['LSZH\\north', 'a\\tb', 'rwy\\16', 'x"y', "it's", 'a b', 'a;b', '{c}', '%s', '$(x)', 'a`b', 'c == d', 'é\\u00e9', '@e', '#f',
                'None', 'nan', 'True', '1e3', '0x10', '-1', ' ', '\\']
        new = rng.sample(pool, len(names)) if len(names) <= len(pool) else [f'n\\{i}' for i in range(len(names))]
    elif how == 'padded':
        # fixed-width exports, hand-typed ids: names that differ only by padding, by case or by the form of a number
        pool = rng.choice([['GVA1    ', ' GVA1', 'GVA1', 'gva1', 'GVA1\t', 'Gva1 '], ['7', '07', '7.0', ' 7', '7 ', '+7'],
                           ['A', 'a', 'A ', ' a', 'Ａ', 'a\n']])
        new = rng.sample(pool, len(names)) if len(names) <= len(pool) else [f'p{i} ' + ' ' * i for i in range(len(names))]
    elif how == 'empty_ish':
        new = ['' if i == 0 else chr(0x200b) * i for i in range(len(names))]
    else:
        new = list(names); rng.shuffle(new)
    return dict(zip(names, new))


def _work(args):
    seed, k, prop = args
    rng = random.Random(f'{seed}:{prop}:{k}')
    fam = rng.choice(['synth', 'synth', 'crop', 'split', 'chain', 'exact', 'degenerate', 'drift', 'drift', 'bundle']
                     + (['sync', 'sync', 'sync', 'owned', 'owned', 'owned'] if prop == 'C16' else []))
    if fam == 'sync':
        # several ceilometers on the same time grid, different heights inside one layer, look-back cutting a time step
        nc = rng.choice([2, 3])
        nt = rng.choice([15, 30, 45])
        rows = [(str(c), -900.0 + 30.0 * i, float(1500 + 40 * c + (i * 7) % 25 + rng.choice([0, 13])), 1)
                for i in range(nt) for c in range(nc)]
        prms = {'BASE_LVL_LOOKBACK_PERC': rng.choice([33, 10, 7, 61, 12.5, 66.6]), 'BASE_LVL_HEIGHT_PERC': rng.choice([0, 5, 50, 100, 2.5])}
    else:
        rows, prms, meta = pipecheck.gen_scene(seed, k, fam)
    if prop == 'C16' and rng.random() < 0.3:
        # the time axis is relative to an arbitrary reference: scenes whose last measurement is at dt = 0 or later
        shift = rng.choice([0.0, 60.0, 450.0]) - max(r[1] for r in rows)
        rows = [(c, float(dt + shift), h, t) for c, dt, h, t in rows]
    if prop == 'C10' and rng.random() < 0.4 and 'EXCLUDE_FOR_BASE_HEIGHT_CALC' not in prms:
        names = sorted({r[0] for r in rows})
        if len(names) > 1:
            prms = dict(prms, EXCLUDE_FOR_BASE_HEIGHT_CALC=[rng.choice(names)])
    if prop == 'C16' and rng.random() < 0.6 and fam != 'owned':
        names = sorted({r[0] for r in rows})
        prms = dict(prms)
        prms['EXCLUDE_FOR_BASE_HEIGHT_CALC'] = rng.sample(names, rng.randint(1, len(names)))
        prms.setdefault('BASE_LVL_LOOKBACK_PERC', rng.choice([100, 40]))
    base_df = scenes.make_frame(rows)
    res = {'k': k, 'family': fam, 'prms': prms, 'nrows': len(rows)}
    with warnings.catch_warnings():
        warnings.simplefilter('ignore')
        if prop == 'C10':
            how = rng.choice(LABELINGS + LAYOUTS)
            res['transform'] = how
            if how == 'concat_repeats':
                parts = [base_df[base_df['ceilo'] == c] for c in sorted(set(base_df['ceilo']))]
                base_df = pd.concat(parts).reset_index(drop=True)      # same row order as the variant
                rows = scenes.data_rows(base_df)
            var_df = relabel(base_df, how, rng) if how in LABELINGS else relayout(base_df, how, rng)
            if rng.random() < 0.55:
                # composed transformations: labels and layout / dtypes changed together (each of the property's
                # "index labels, column order, extra columns, dtype variants" may come with any other)
                extra = [x for x in ([rng.choice(LAYOUTS)] if how in LABELINGS else
                                     [rng.choice([l for l in LABELINGS if l != 'concat_repeats'])]) ]
                if rng.random() < 0.4:
                    extra.append(rng.choice([l for l in LAYOUTS if l not in extra and l != how]))
                for x in extra:
                    var_df = relabel(var_df, x, rng) if x in LABELINGS else relayout(var_df, x, rng)
                how = '+'.join([how] + extra)
                res['transform'] = how
            if 'MSA' not in prms and rng.random() < 0.35:
                hs_ = sorted(r_[2] for r_ in rows if r_[2] == r_[2])
                if hs_:
                    prms = dict(prms, MSA=float(rng.choice([hs_[len(hs_) // 2], hs_[-1] - 1, 10000.0])),
                                MSA_HIT_BUFFER=rng.choice([0, 100, 1500]))
            var_prms = prms
        else:
            how = rng.choice(RENAMINGS)
            res['transform'] = how
            m = rename_map({r[0] for r in rows}, how, rng, rows)
            var_df = base_df.copy()
            var_df['ceilo'] = pd.array([m[c] for c in base_df['ceilo']], dtype=pd.StringDtype())
            var_prms = dict(prms)
            if 'EXCLUDE_FOR_BASE_HEIGHT_CALC' in prms:
                var_prms['EXCLUDE_FOR_BASE_HEIGHT_CALC'] = [m.get(c, c + '#') for c in prms['EXCLUDE_FOR_BASE_HEIGHT_CALC']]
        base = scenes.run_scene(rows, prms, frame=base_df)
        var = scenes.run_scene(rows, var_prms, frame=var_df)
    ob, ov = observe(base), observe(var)
    res['base_exc'], res['var_exc'] = base['exc'], var['exc']
    res['same'] = ob == ov
    if not res['same']:
        res['diff'] = [key for key in ob if ob.get(key) != ov.get(key)] or list(set(ob) ^ set(ov))
    if prop == 'C16' and not base['exc'] and not var['exc']:
        res['kernel_args_same'] = kernel_args(base) == kernel_args(var)
    res['req'] = scenes.run_request(base) if not base['exc'] else None
    res['msgs'] = ob.get('msgs')
    res['digest'] = hashlib.sha1(repr((rows, sorted(prms.items(), key=str), how)).encode()).hexdigest()[:16]
    return res


def run_metamorph(chk, prop, n):
    with Pool(16) as pool:
        results = pool.map(_work, [(chk.seed, k, prop) for k in range(n)], chunksize=2)
    live = [r for r in results if r.get('req')]
    answers = dict(zip([r['k'] for r in live], chk.driver.ask([r['req'] for r in live])))
    for r in results:
        chk.count('transform_' + r['transform'])
        chk.count('family_' + r['family'])
        replay = {'gen': {'seed': chk.seed, 'k': r['k'], 'prop': prop}, 'transform': r['transform']}
        nontriv = bool(r['msgs']) and any(m != 'NCD' for m in r['msgs'])
        chk.case(r['digest'], nontrivial=nontriv,
                 sample={'k': r['k'], 'family': r['family'], 'transform': r['transform'], 'rows': r['nrows'],
                         'messages': r['msgs']} if r['k'] < 6 else None)
        if r['base_exc']:
            chk.count('base_raised_' + r['base_exc'])
        if not r['same']:
            chk.spec_fail(f'{prop}.transformed-frame-gives-identical-result',
                          f"transform {r['transform']}: differs in {r.get('diff')} (base exc {r['base_exc']}, variant exc {r['var_exc']})",
                          replay)
        if prop == 'C16' and r.get('kernel_args_same') is False:
            chk.mismatch('names never reach a third-party kernel', f"transform {r['transform']}: recorded kernel arguments differ", replay)
        if r.get('req'):
            a = scenes.parse_run_answer(answers[r['k']])
            if a['bad']:
                chk.mismatch('what the implementation produced cannot be expressed as a model request (driver: bad-request)', answers[r['k']][:200], replay)
                continue
            for ne in a['ne']:
                chk.mismatch('cascade model = implementation (base frame)', ne[:300], replay)


def replay_metamorph(chk, obj, prop):
    case = obj.get('case') or (obj.get('broken_correspondence') or [{}])[0].get('case')
    g = case['gen']
    r = _work((g['seed'], g['k'], prop))
    print({k: v for k, v in r.items() if k != 'req'})
    return 0 if r['same'] and r.get('kernel_args_same', True) else 1
