"""End-to-end correspondence shared by C05, C06, C07, C08 (and reused by C10/C16 metamorphic checks).

Each generated scene is run through the real `CeiloChunk` cascade under recording; the accepted input
rows, the effective parameters, every third-party answer and everything observable afterwards go to
the Lean driver (`RUN` request).  The model re-runs the cascade with the recorded answers; all
observables are compared and the spec predicates are evaluated on the implementation's output.
"""
from __future__ import annotations

import hashlib
import math
import random

import numpy as np
from multiprocessing import Pool

from . import common, scenes, tablecheck

OBSERVABLES = {
    'C01': {'ne': ('messages',), 'spec': ('C01.',)},
    'C02': {'ne': ('messages', 'high-cloud-flag'), 'spec': ('C02.',)},
    'C03': {'ne': ('.n_hits', '.perc', '.okta', '.code'), 'spec': ('C03.',)},
    'C04': {'ne': ('.height_base', '.height_mean', '.height_std', '.height_min', '.height_max', '.thickness', '.fluffiness'),
            'spec': ('C04.',)},
    'C05': {'ne': ('slice_id', 'group_id', 'layer_id', 'cropped-data', 'find_', 'slices-table-length',
                   'groups-table-length', 'layers-table-length', '.cluster_id', '.ncomp', '.isolated', '.n_hits'),
            'spec': ('C05.',)},
    'C06': {'ne': ('group_id', 'layer_id', 'find_groups', 'find_layers', 'groups.height_base', 'layers.height_base',
                   'groups.ncomp', 'groups-table-length', 'layers-table-length'),
            'spec': ('C06.',)},
    'C07': {'ne': ('cropped-data', 'high-cloud-flag'), 'spec': ('C07.',)},
    'C08': {'ne': ('find_', 'slice_id', 'group_id', 'layer_id'), 'spec': ()},
}


def chain_rows(rng):
    """Chains of flat integer groups needing repeated merges; groups exactly min_sep apart / 1 ft closer."""
    n_steps = rng.choice([10, 20, 36])
    k = rng.choice([2, 3, 4, 5, 6])
    sep = rng.choice([250, 100, 400])
    base = rng.choice([300, 1200, 4700, 9700])
    hs = [base]
    for _ in range(k - 1):
        hs.append(hs[-1] + rng.choice([sep, sep - 1, sep + 1, sep // 2, 2 * sep, 3 * sep]))
    names = ['a', 'b'][:rng.choice([1, 2])]
    spec = [(h, rng.randint(max(2, n_steps // 4), n_steps)) for h in hs]
    rows = scenes.flat_rows(spec, n_steps, names=names)
    prms = {'MIN_SEP_VALS': [sep, 4 * sep], 'MIN_SEP_LIMS': [rng.choice([5000, 10000, hs[len(hs) // 2]])]}
    if rng.random() < 0.4:
        prms['MIN_SEP_VALS'] = [sep, 2 * sep, 4 * sep]
        prms['MIN_SEP_LIMS'] = [hs[0] + 1, hs[-1]]
    if rng.random() < 0.5 and len(names) > 1:
        prms['EXCLUDE_FOR_BASE_HEIGHT_CALC'] = [rng.choice(names)]
    if rng.random() < 0.5:
        prms['BASE_LVL_HEIGHT_PERC'] = rng.choice([0, 5, 50, 95, 100, 2.5, 12.5, 0.9, 99.5])
    if rng.random() < 0.4:
        prms['BASE_LVL_LOOKBACK_PERC'] = rng.choice([10, 40, 70, 12.5, 33.3, 66.6])
    return rows, prms


def owned_chain_rows(rng):
    """Chains of thin decks, each *seen by a subset of the ceilometers only* (with a small per-ceilometer height
    offset), under EXCLUDE_FOR_BASE_HEIGHT_CALC: a deck seen by excluded instruments only falls back to all its
    hits; once merged with a deck that has enough other hits the fall-back no longer applies and the base moves."""
    names = rng.choice([['a', 'b', 'c', 'd'], ['1', '10', '11', '2'], ['CL', 'CL3', 'CL31', 'X'], ['b', 'a', 'ab', 'aa']])[:rng.choice([2, 2, 3, 3, 4])]
    n_steps = rng.choice([12, 20, 30])
    S = rng.choice([250, 500, 100])
    base = rng.choice([400, 1000, 3000, 9000])
    k = rng.choice([3, 3, 4, 5])
    hs = [base]
    for _ in range(k - 1):
        hs.append(hs[-1] + rng.choice([S * 4 // 5, S * 4 // 5, S * 3 // 5, S // 2, S - 1, S, S + 1, 2 * S]))
    excl = rng.sample(names, rng.randint(1, len(names) - 1)) if rng.random() < 0.9 else []
    rest = [c for c in names if c not in excl]
    decks = []
    for h in hs:
        r = rng.random()
        if excl and r < 0.4:
            owners = rng.sample(excl, rng.randint(1, len(excl)))          # seen by excluded instruments only: fall-back
        elif r < 0.75:
            owners = rng.sample(rest, rng.randint(1, len(rest)))
        else:
            owners = rng.sample(names, rng.randint(1, len(names)))
        if excl and rng.random() < 0.2:                                     # a few stray hits of the other kind
            owners = list(set(owners) | {rng.choice(names)})
        decks.append({c: (h + rng.choice([0, 0, S // 10, -(S // 10), S // 4]),
                          rng.choice([1, 2, 3]) if (c not in owners[:1] and rng.random() < 0.3)
                          else rng.randint(max(2, n_steps // 3), n_steps))
                      for c in owners})
    rows = []
    for ci, c in enumerate(names):
        off_c = rng.choice([0.0, float((5 * ci) % 15)])          # one grid offset per ceilometer, smaller than the step
        for s_ in range(n_steps):
            dt = -(n_steps - s_) * 15.0 + off_c
            here = sorted(float(d[c][0] + rng.choice([0, 0, 3, -3])) for d in decks if c in d and s_ < d[c][1])
            if not here:
                rows.append((c, dt, float('nan'), 0))
            for t_, h in enumerate(here):
                rows.append((c, dt, h, t_ + 1))
    prms = {'MIN_SEP_VALS': [S, 4 * S], 'MIN_SEP_LIMS': [rng.choice([10000, 5000, hs[-1]])],
            'MAX_HITS_OKTA0': rng.choice([0, 1, 3]),
            'EXCLUDE_FOR_BASE_HEIGHT_CALC': excl}
    if rng.random() < 0.4:
        prms['BASE_LVL_HEIGHT_PERC'] = rng.choice([0, 5, 50, 95, 100])
    if rng.random() < 0.3:
        prms['BASE_LVL_LOOKBACK_PERC'] = rng.choice([10, 40, 70])
    if rng.random() < 0.3:
        # an MSA above all decks with higher-type hits far above it (rows dropped at construction: gaps in the labels)
        top = max(h for _, _, h, _ in rows if h == h)
        rows2 = []
        for (c, dt, h, t) in rows:
            rows2.append((c, dt, h, t))
        for ci, c in enumerate(names):
            for s_ in range(0, n_steps, 3):
                dt = -(n_steps - s_) * 15.0
                same = [r for r in rows2 if r[0] == c and abs(r[1] - dt) < 16 and r[3] >= 1]
                if same:
                    dt0 = same[0][1]
                    k_ = max(r[3] for r in rows2 if r[0] == c and r[1] == dt0)
                    rows2.append((c, dt0, top + 9000.0 + ci, k_ + 1))
        rows = rows2
        prms['MSA'] = float(top + 2000)
        prms['MSA_HIT_BUFFER'] = rng.choice([0, 1500])
    order = rng.choice(['asc', 'asc', 'desc', 'shuffled'])
    if order == 'desc':
        rows = rows[::-1]
    elif order == 'shuffled':
        rng.shuffle(rows)
    return rows, prms


def interleave_rows(rng):
    """Sets that interleave in height: a cloud base climbing (or sinking) steadily, a pause without detections, then a
    flat cloud whose height lies inside the range swept by the first.  The two are far apart in time and stay separate
    groups / layers, and the order of their *base* heights is the opposite of the order of their mean (or maximum,
    or first-seen) heights: whatever orders the tables must be the base."""
    n_ramp, n_gap, n_late = rng.choice([20, 29, 40]), rng.choice([6, 8, 12]), rng.choice([6, 9, 15])
    h0 = rng.choice([300.0, 1000.0, 4000.0])
    rise = rng.choice([600.0, 800.0, 1200.0])
    h_late = h0 + rise * rng.choice([0.3, 0.45, 0.6])
    step = rng.choice([30.0, 20.0])
    n = n_ramp + n_gap + n_late
    order_first = rng.random() < 0.5                     # ramp first, or flat cloud first
    rows = []
    for i in range(n):
        dt = -step * (n - 1 - i)
        j = i if order_first else n - 1 - i
        if j < n_ramp:
            rows.append(('A', dt, h0 + rise * j / (n_ramp - 1), 1))
        elif j < n_ramp + n_gap:
            rows.append(('A', dt, float('nan'), 0))
        else:
            rows.append(('A', dt, h_late + 10.0 * ((j * 7) % 5), 1))
    prms = {}
    if rng.random() < 0.4:
        prms['MSA'] = rng.choice([h0 + rise * 2, 10000, h_late + 100])
    if rng.random() < 0.3:
        prms['BASE_LVL_HEIGHT_PERC'] = rng.choice([0, 5, 50])
    return rows, prms


def split_rows(rng, force_quant=False):
    """One or two groups of >= 30 hits that are bi/tri-modal (mixture engaged), drifting, any row order."""
    n = rng.choice([30, 45, 60, 90])
    modes = rng.choice([2, 2, 3])
    gap = rng.choice([120, 200, 260, 400, 700])
    base = rng.choice([600, 1500, 3000, 9600])
    drift = rng.choice([0, 0, 2.0, -3.0, 5.0])
    noise = rng.choice([0, 5, 20, 40])
    integer = rng.random() < 0.5
    # quantised instruments: one mode a single repeated value, the others on a coarse grid (many ties: a mixture
    # component can come out unpopulated, which is what the empty-component penalty of ncomp_from_gmm is for)
    quant = rng.choice([0, 0, 0, 50, 25, 100])
    if force_quant and not quant:
        quant = rng.choice([50, 25, 100])
    # an MSA with hits of higher types above it: rows dropped at construction (gaps in the row labels) before a group is split
    high = rng.random() < 0.3
    rows = []
    for i in range(n):
        t = -900.0 + 900.0 / n * i
        hs = []
        for m in range(modes):
            if rng.random() < rng.choice([1.0, 0.8, 0.5]):
                if quant:
                    h = base + m * gap + (0 if m == 0 else quant * rng.randint(0, 7))
                    hs.append(float(h))
                    continue
                h = base + m * gap + (drift * i if m == 0 else -drift * i) + (rng.uniform(-noise, noise) if noise else 0)
                hs.append(float(round(h)) if integer else h)
        if high and rng.random() < 0.3:
            hs.append(base + 12000.0 + (i % 3))           # a higher-type hit far above MSA + buffer: dropped by the crop
        hs.sort()
        if not hs:
            rows.append(('0', t, float('nan'), 0))
        for k, h in enumerate(hs):
            rows.append(('0', t, h, k + 1))
    order = rng.choice(['asc', 'desc', 'shuffled'])
    if order == 'desc':
        rows = rows[::-1]
    elif order == 'shuffled':
        rng.shuffle(rows)
    prms = {'MIN_SEP_VALS': [rng.choice([100, 250, 300]), 1000],
            'BASE_LVL_LOOKBACK_PERC': rng.choice([100, 100, 10, 40, 70, 12.5, 33.3, 7.9, 99.9]),
            'BASE_LVL_HEIGHT_PERC': rng.choice([0, 5, 5, 50, 95, 100, 0.9, 12.5, 49.9, 99.5])}
    if rng.random() < 0.3:
        prms['LAYERING_PRMS'] = {'min_okta_to_split': rng.choice([0, 1, 2]),
                                 'gmm_kwargs': {'scores': rng.choice(['BIC', 'AIC']),
                                                'delta_mul_gain': rng.choice([0.95, 1.0, 0.8])}}
    if high:
        prms['MSA'] = base + rng.choice([3000, 5000])
        prms['MSA_HIT_BUFFER'] = rng.choice([0, 1500])
    elif rng.random() < 0.15:
        # the whole (split) group between the MSA and MSA + buffer: processed and listed, never reported
        prms['MSA'] = base - rng.choice([50, 400])
        prms['MSA_HIT_BUFFER'] = rng.choice([3000, 5000])
    if 'MSA' not in prms and rng.random() < 0.08:
        # an aerodrome above the cloud: negative heights (accepted with a warning)
        shift = base + gap + rng.choice([0, 150, 400])
        rows = [(c, t, (h - shift if h == h else h), ty) for c, t, h, ty in rows]
    if rng.random() < 0.1:
        prms.setdefault('LAYERING_PRMS', {}).setdefault('gmm_kwargs', {})['mode'] = 'prob'
        prms['LAYERING_PRMS']['gmm_kwargs']['min_prob'] = rng.choice([1.0, 0.9, 0.5])
    return rows, prms, order


def crop_rows(rng):
    """Hits on both sides of, and exactly at, MSA + buffer; first, second, third and VV types."""
    msa = rng.choice([0, 1000, 2500, 5000])
    buf = rng.choice([0, 100, 1500])
    inexact = rng.random() < 0.3
    if inexact:
        # settings that are not exactly representable (metric values converted to ft): the limit is the rounded
        # binary64 sum, and hits sit on it and one ulp on either side
        msa = rng.choice([800 / 0.3048, 2624.672, 1000.1, 3280.84, 0.1, 4921.26])
        buf = rng.choice([1500, 1000.5, 0.3, 328.084, 1e-3, 500 / 0.3048])
    lim = msa + buf
    n = rng.choice([8, 20, 40])
    rows = []
    for i in range(n):
        t = -15.0 * (n - i)
        c = str(i % rng.choice([1, 2]))
        kind = rng.random()
        if kind < 0.15:
            rows.append((c, t, float('nan'), 0))
        elif kind < 0.22:
            # a measurement with unused higher slots reported as NaN (accepted input: typed hits with NaN)
            rows.append((c, t, float(rng.choice([max(0, lim - 500), lim + 200])), 1))
            rows.append((c, t, float('nan'), 2))
            if rng.random() < 0.5:
                rows.append((c, t, float('nan'), 3))
        elif kind < 0.3:
            rows.append((c, t, float(rng.choice([lim, lim + 1, max(0, lim - 1), lim + 5000])), -1))
        else:
            cands = [max(0, lim - 800), max(0, lim - 1), lim, lim + 1, lim + 300, lim + 4000,
                     max(0, msa - 200), msa, msa + 1]
            if inexact:
                cands += [lim, math.nextafter(lim, math.inf), math.nextafter(lim, -math.inf),
                          math.nextafter(math.nextafter(lim, math.inf), math.inf)] * 2
            hs = sorted({float(rng.choice(cands)) for _ in range(rng.choice([1, 1, 2, 3]))})
            for k, h in enumerate(hs):
                rows.append((c, t, h, k + 1))
    prms = {'MSA': msa, 'MSA_HIT_BUFFER': buf, 'MAX_HITS_OKTA0': rng.choice([0, 1, 3, 5])}
    if len({r[0] for r in rows}) > 1 and rng.random() < 0.35:
        # one instrument excluded from the base heights
        prms['EXCLUDE_FOR_BASE_HEIGHT_CALC'] = [rng.choice(['0', '1'])]
    return rows, prms


def many_slices_rows(rng, k=None):
    """Around and beyond 100 / 200 slices (low distance threshold) with one splittable group as the lowest one:
    exercises the sub-layer id offset, in particular a largest inherited group id of exactly 99, 100, 101, 199, 200."""
    rows = []
    t = -5000.0
    for i in range(40):
        rows.append(('0', t, 200.0 if i % 2 == 0 else 530.0, 1)); t += 10
    sizes = [98, 198, 99, 100, 199, 104, 60, 200, 130, 101]
    ns = sizes[k % len(sizes)] if k is not None else rng.choice(sizes)
    for s in range(ns):
        for _ in range(2):
            rows.append(('0', t, 1000.0 + 400.0 * s, 1)); t += 10
    prms = {'SLICING_PRMS': {'distance_threshold': 0.002}, 'MIN_SEP_VALS': [100, 400], 'MIN_SEP_LIMS': [350],
            'MAX_HITS_OKTA0': 0, 'LAYERING_PRMS': {'min_okta_to_split': 0}}
    return rows, prms


def bundle_rows(rng):
    """Time axis matters (small dt_scale): overlapping slices, bundles, possibly one-hit slices inside bundles."""
    n = rng.choice([4, 6, 10, 20, 40])
    rows = []
    for i in range(n):
        rows.append((str(rng.choice([0, 1])), float(-rng.randint(0, 90) * 10 - i * 0.001), float(rng.choice([1700, 1800, 1900, 2400])
                                                                                   + rng.choice([0, 0, 30])), 1))
    rows = list({(c, t): (c, t, h, ty) for c, t, h, ty in rows}.values())
    prms = {'SLICING_PRMS': {'dt_scale': rng.choice([1000, 500, 5000])}}
    if rng.random() < 0.5:
        prms['GROUPING_PRMS'] = {'dt_scale': rng.choice([60, 180, 1000]), 'height_pad_perc': rng.choice([10, 50, 200])}
    return rows, prms


def drift_rows(rng):
    """A steadily drifting layer (cut in several height slices that overlap: non-isolated slices, bundles) next
    to a well separated flat one; hits of several types at the same time stamp inside the bundle."""
    n = rng.choice([24, 34, 50])
    slope = rng.choice([-12.0, -9.0, 11.0, 15.0])
    base = rng.choice([3000, 7100, 1500])
    names = ['0', '1'][:rng.choice([1, 2])]
    rows = []
    for i in range(n):
        t = -900.0 + 900.0 / n * i
        for c in names:
            h = base + slope * i + rng.choice([0, 3, -4, 17]) + 25.0 * int(c)
            hs = [h] + ([h + rng.choice([60, 140])] if rng.random() < 0.25 else []) + ([base + 6000.0] if rng.random() < 0.4 else [])
            for k_, y in enumerate(sorted(hs)):
                rows.append((c, t, float(y), k_ + 1))
    prms = {}
    if rng.random() < 0.5:
        prms['GROUPING_PRMS'] = {'height_scale_range': rng.choice([[500, 100], [100, 500], [300, 50]])}
    if rng.random() < 0.3:
        prms['MSA'] = base + 9000
    return rows, prms


def twin_prms(rng, prms0, j=1):
    """The same per-call parameters with one to three leaves changed (LOWESS, mixture, base level, padding, scaling,
    okta buffer): for runs on the SAME hits whose results must not leak into each other (anything keyed on the data
    alone - a cache, a memo - would hand one run the other's intermediate results)."""
    import copy
    pj = copy.deepcopy(prms0)
    for _ in range(rng.choice([1, 2, 3])):
        what = rng.choice(['lowess_frac', 'lowess_it', 'gain', 'rescale', 'perc', 'pad', 'minrange', 'okta0', 'lookback'])
        if what == 'lowess_frac':
            pj['LOWESS'] = dict(pj.get('LOWESS', {}), frac=[0.9, 0.15, 0.5, 1.0][j % 4])
        elif what == 'lowess_it':
            pj['LOWESS'] = dict(pj.get('LOWESS', {}), it=[1, 5, 2, 0][j % 4])
        elif what == 'gain':
            pj.setdefault('LAYERING_PRMS', {}).setdefault('gmm_kwargs', {})['delta_mul_gain'] = [0.6, 1.0, 0.8][j % 3]
        elif what == 'rescale':
            pj.setdefault('LAYERING_PRMS', {}).setdefault('gmm_kwargs', {})['rescale_0_to_x'] = [10, None, 1000][j % 3]
        elif what == 'perc':
            pj['BASE_LVL_HEIGHT_PERC'] = [50, 95, 0][j % 3]
        elif what == 'pad':
            pj['GROUPING_PRMS'] = dict(pj.get('GROUPING_PRMS', {}), height_pad_perc=[40, 5, 100][j % 3])
        elif what == 'minrange':
            pj.setdefault('SLICING_PRMS', {})['height_scale_kwargs'] = {'min_range': [300, 8000, 50][j % 3]}
        elif what == 'lookback':
            pj['BASE_LVL_LOOKBACK_PERC'] = [50, 20, 100][j % 3]
        else:
            pj['MAX_HITS_OKTA0'] = [0, 5, 1][j % 3]
    return pj


# Corpus: seeds of `quantised_rows` for which (with the pinned scikit-learn) a seeded 2- or 3-component mixture fit of the
# one group leaves a component without a single hit - found by scanning 4000 such tables on the unchanged tree (1 in 200);
# elsewhere in the generators this happens only through kernel fuzzing.
EMPTYCOMP_KS = [25, 70, 129, 224, 346, 449, 626, 1135, 1215, 1286, 1358, 1749, 1771, 2204, 2222, 2323, 2835, 2948, 3893, 3949]


def quantised_rows(k):
    """One ceilometer, one hit per time step, a skewed unimodal deck on a coarse height grid (25 / 50 / 100 ft)."""
    rng = random.Random(f'q:{k}')
    n = rng.choice([40, 60, 76, 100, 140])
    q = rng.choice([50, 100, 25])
    base = rng.choice([1000, 2500, 600])
    spread = rng.choice([3, 4, 5, 6])
    rows = []
    for i in range(n):
        lvl = min(int(abs(rng.gauss(0, 1.3)) * spread / 2 + rng.random() * 2), 9)
        rows.append(('0', round(-1200 + 1195.0 * i / n, 1), float(base + q * lvl), 1))
    return rows


def gen_scene(seed, k, family):
    rng = random.Random(f'{seed}:{family}:{k}')
    meta = {'family': family, 'k': k}
    if family in ('synth', 'exact', 'degenerate', 'multi'):
        return tablecheck.gen_scene(seed, k, family)
    if family == 'chain':
        rows, prms = chain_rows(rng)
    elif family == 'owned':
        rows, prms = owned_chain_rows(rng)
    elif family == 'interleave':
        rows, prms = interleave_rows(rng)
    elif family in ('split', 'splitq'):
        # 'splitq': the quantised variant only (ties galore: mixture fits with an unpopulated component)
        rows, prms, order = split_rows(rng, force_quant=(family == 'splitq'))
        meta['order'] = order
    elif family == 'emptycomp':
        kk = EMPTYCOMP_KS[(k + seed) % len(EMPTYCOMP_KS)] if rng.random() < 0.8 else rng.randrange(4000)
        rows = quantised_rows(kk)
        prms = rng.choice([{}, {}, {'MIN_SEP_VALS': [150, 1000]}, {'MIN_SEP_VALS': [100, 1000], 'BASE_LVL_HEIGHT_PERC': 50}])
        meta['corpus_k'] = kk
    elif family == 'crop':
        rows, prms = crop_rows(rng)
    elif family == 'manyslices':
        rows, prms = many_slices_rows(rng, k)
    elif family == 'bundle':
        rows, prms = bundle_rows(rng)
    elif family == 'drift':
        rows, prms = drift_rows(rng)
    else:
        raise ValueError(family)
    return rows, prms, meta


def index_variant(rng, rows):
    """Index labels for the caller's frame: mostly the plain RangeIndex, sometimes labels with repeats (as after
    pd.concat of per-ceilometer frames) - the accepted inputs of every property include those."""
    r = rng.random()
    n = len(rows)
    if r < 0.7:
        return None, 'plain'
    if r < 0.82:
        seen = {}
        out = []
        for c, *_ in rows:
            out.append(seen.get(c, 0)); seen[c] = seen.get(c, 0) + 1
        return out, 'per_ceilometer_restart'
    if r < 0.92:
        return [rng.randrange(max(1, n // 3)) for _ in range(n)], 'random_repeats'
    return [0] * n, 'all_equal'


def _work(args):
    seed, k, family = args
    rows, prms, meta = gen_scene(seed, k, family)
    rn = random.Random(f'{seed}:names:{family}:{k}')
    if rn.random() < 0.08 and rows:
        # ceilometer ids are labels: the same scene with ids as they turn up in the field (padded, differing by case only,
        # numbers in several spellings, blanks, escapes, very long ...)
        from . import metamorph as _mm
        how_n = rn.choice([h for h in _mm.RENAMINGS if h not in ('concat_collision', 'swap')])
        m_ = _mm.rename_map({r[0] for r in rows}, how_n, rn, rows)
        rows = [(m_[c], dt, h, t) for c, dt, h, t in rows]
        if prms.get('EXCLUDE_FOR_BASE_HEIGHT_CALC'):
            prms = dict(prms, EXCLUDE_FOR_BASE_HEIGHT_CALC=[m_.get(c, c + '#') for c in prms['EXCLUDE_FOR_BASE_HEIGHT_CALC']])
        meta['names'] = how_n
    index, ikind = index_variant(random.Random(f'{seed}:idx:{family}:{k}'), rows)
    meta['index'] = ikind
    # one scene in three goes through the package's entry point `ampycloud.run` instead of the stage methods
    rr = random.Random(f'{seed}:route:{family}:{k}')
    r_ = rr.random()
    route = 'run' if r_ < 0.3 else ('global' if r_ < 0.4 else ('full_over_poisoned' if r_ < 0.5 else 'stepwise'))
    if rr.random() < 0.06 and family in ('synth', 'multi', 'chain', 'exact', 'interleave', 'split', 'drift'):
        # another height scaling for the slicing, set the only way it can be set: by editing the global dictionary
        route = 'global'
        mode_ = rr.choice(['shift-and-scale', 'step-scale', 'step-scale'])
        kw_ = {'scale': rr.choice([1000, 250.0])} if mode_ == 'shift-and-scale' else \
            rr.choice([{'steps': [8000, 14000], 'scales': [100, 500, 1000]}, {'steps': [3000], 'scales': [50, 400]},
                       {'steps': [], 'scales': [200]}])
        prms = dict(prms)
        prms['SLICING_PRMS'] = dict(prms.get('SLICING_PRMS', {}), height_scale_mode=mode_, height_scale_kwargs=scenes.Replace(kw_))
        meta['slicing_height_scale_mode'] = mode_
    elif rr.random() < 0.12:
        prms = scenes.numpy_typed(prms, rr) if rr.random() < 0.6 else scenes.float_typed(prms, rr)   # NumPy scalars / floats
        meta['numpy_typed_prms'] = True
    meta['route'] = route
    # distorted mixture answers (within the shape the theorems assume) on a share of the scenes that engage the mixture
    fuzz = None
    if family in ('split', 'synth', 'manyslices', 'drift') and rr.random() < (0.35 if family == 'split' else 0.15):
        fuzz = f'{seed}:{family}:{k}'
        meta['kernel_fuzz'] = True
    elif family in ('synth', 'chain', 'multi', 'bundle', 'drift', 'interleave', 'exact') and rr.random() < 0.12:
        fuzz = f'{seed}:{family}:{k}+cluster'            # distorted clustering answers (merged / split / renumbered sets)
        meta['kernel_fuzz'] = True
    frame = None
    if rr.random() < 0.12:
        # the same table in a spelling the checker has to normalise (non-str ceilometer ids, other dtypes, extra column ...)
        frame, rows, how_, ren = scenes.frame_variant(rr, rows)
        if ren and prms.get('EXCLUDE_FOR_BASE_HEIGHT_CALC'):
            prms = dict(prms, EXCLUDE_FOR_BASE_HEIGHT_CALC=[ren.get(c, c) for c in prms['EXCLUDE_FOR_BASE_HEIGHT_CALC']])
        if index is not None:
            frame.index = index
        meta['frame_variant'] = how_
    try:
        plot_ = rr.random() < 0.02
        meta['plot_excursion'] = plot_
        obs = scenes.run_scene(rows, prms, index=index, route=route, kernel_fuzz=fuzz, frame=frame, plot_excursion=plot_)
    except Exception as e:
        return {'meta': meta, 'harness_error': f'{type(e).__name__}: {e}'}
    # cause signature of recorded finding F7: an MSA is set and every row is a hit of type >= 2 above MSA + buffer
    sig = None
    try:
        msa_ = (prms or {}).get('MSA')
        if msa_ is not None and rows:
            lim_ = float(msa_) + float((prms or {}).get('MSA_HIT_BUFFER', 1500))
            if all(t >= 2 and h == h and h > lim_ for _, _, h, t in rows):
                sig = 'crop-empties-the-table'
    except Exception:
        sig = None
    out = {'meta': meta, 'signature': sig, 'exc': obs['exc'], 'stage': obs['stage'], 'exc_msg': obs.get('exc_msg'), 'eff_mismatch': obs.get('eff_mismatch'), 'impure_queries': obs.get('impure_queries'),
           'stats': dict(scenes.scene_stats(obs), **{'index_' + ikind: 1, 'route_' + route: 1, 'numpy_typed_prms': int(bool(meta.get('numpy_typed_prms'))),
                                                       'slicing_mode_' + str(meta.get('slicing_height_scale_mode')): 1, 'plot_excursions': int(bool(meta.get('plot_excursion'))),
                                                       'mixture_answers_distorted': int(fuzz is not None and not fuzz.endswith('+cluster')),
                                                       'clustering_answers_distorted': int(fuzz is not None and fuzz.endswith('+cluster')),
                                                       'frame_variant_' + str(meta.get('frame_variant')): 1}), 'req': None, 'missing': obs['trace'].missing,
           'digest': hashlib.sha1(repr((rows, sorted(prms.items(), key=str))).encode()).hexdigest()[:16],
           'nrows': len(rows), 'prms': prms}
    if not obs['exc']:
        out['req'] = scenes.run_request(obs)
        out['msgs'] = {w: obs['levels'][w]['msg'] for w in obs['levels']}
        # the plainest clause of C05 read off the chunk directly (used when the outcome cannot even be phrased as a model
        # request): a non-detection belongs to no set, a hit with a height to one of each kind
        try:
            d_ = obs['chunk'].data
            nan_ = d_['height'].isna().to_numpy()
            acc = []
            for col in ('slice_id', 'group_id', 'layer_id'):
                if col in d_.columns:
                    ids_ = d_[col].to_numpy()
                    if (ids_[nan_] != -1).any():
                        acc.append(f'C05.valid-iff-assigned {col}: {int((ids_[nan_] != -1).sum())} non-detection(s) carry an id')
                    if (ids_[~nan_] < 0).any():
                        acc.append(f'C05.valid-iff-assigned {col}: {int((ids_[~nan_] < 0).sum())} hit(s) with a height carry none')
            out['direct_c05'] = acc
        except Exception:
            out['direct_c05'] = []
        tr = obs['trace']
        out['stats']['merge_recomputed_bases'] = 0
        if tr.gmm:
            out['stats']['gmm_calls'] = len(tr.gmm)
            if any(len(set(np.asarray(f['labels']).tolist())) < n_ for g in tr.gmm for n_, f in g.get('fits', {}).items() if 'labels' in f):
                out['stats']['gmm_fit_with_unpopulated_component'] = 1
            if any(g.get('best') and g.get('ncomp') is not None and g['best']['out'] + 1 > g['ncomp'] for g in tr.gmm):
                out['stats']['gmm_remerged'] = 1
        if obs['chunk'].n_groups is not None and obs['chunk'].n_slices is not None \
                and obs['chunk'].n_groups < obs['chunk'].n_slices:
            out['stats']['groups_fewer_than_slices'] = 1
        if obs['chunk'].n_slices and obs['chunk'].n_slices > 100:
            out['stats']['more_than_100_slices'] = 1
    return out


FAMILIES = (('synth', 0.27), ('exact', 0.08), ('degenerate', 0.08), ('multi', 0.07), ('chain', 0.14), ('split', 0.14),
            ('crop', 0.11), ('bundle', 0.04), ('drift', 0.06), ('manyslices', 0.012), ('owned', 0.08), ('interleave', 0.04), ('emptycomp', 0.015))


def run_pipeline(chk, prop, n_scenes, families=FAMILIES, crash_is_violation=False):
    tasks = []
    for fam, share in families:
        for k in range(max(1, int(round(n_scenes * share)))):
            tasks.append((chk.seed, k, fam))
    rules = OBSERVABLES[prop]
    with Pool(16) as pool:
        results = pool.map(_work, tasks, chunksize=2)
    reqs, owners = [], []
    for res, task in zip(results, tasks):
        if 'harness_error' in res:
            raise common.InfraError(f'scene {task}: {res["harness_error"]}')
        if res.get('req'):
            reqs.append(res['req'])
            owners.append(task)
    answers = dict(zip(owners, chk.driver.ask(reqs)))
    for res, task in zip(results, tasks):
        fam = res['meta']['family']
        for k, v in res['stats'].items():
            chk.count(k, v)
        chk.count('family_' + fam)
        replay = {'gen': {'seed': chk.seed, 'k': task[1], 'family': fam}}
        nontriv = any(m != 'NCD' for m in res.get('msgs', {}).values()) or bool(res['exc'])
        chk.case(res['digest'], nontrivial=nontriv,
                 sample={'family': fam, 'k': task[1], 'rows': res['nrows'], 'prms': res['prms'],
                         'messages': res.get('msgs'), 'raised': res['exc']} if task[1] < 1 else None)
        if res['missing']:
            chk.mismatch('wrapper targets missing', str(res['missing']), replay)
        if res.get('impure_queries') and 'clouds_above_msa_buffer' in res['impure_queries'] and prop in ('C02', 'C07'):
            # the flag is a function of the hits cropped at construction: a value that changes when messages are read is wrong
            # before or after
            chk.spec_fail('C07.flag-iff', 'clouds_above_msa_buffer changes when the messages / tables are read', replay, signature=None)
        if res.get('impure_queries'):
            chk.mismatch('reading messages / tables / properties leaves the chunk as it was', f"changed by the queries: {res['impure_queries']}", replay)
        if res.get('eff_mismatch'):
            chk.mismatch('chunk.prms = the parameters that were requested (global at construction updated with the per-call values)',
                         f"route {res['meta'].get('route')}: differs in {res['eff_mismatch']}", replay)
        if res['exc'] and res['meta'].get('kernel_fuzz'):
            # distorted (but well-shaped) mixture answers: the model is total for every such answer, so an exception of
            # the implementation is a disagreement with the model - not, by itself, a crash on valid input
            chk.count('scene_raised_under_distorted_mixture_answers_' + res['exc'])
            if res['exc'] in ('AmpycloudError', 'other:AssertionError'):
                # a distorted answer can make the *selected* mixture one with an unpopulated component (assumption A3 of
                # the model, which the real library meets through the empty-component penalty): outside the assumed shape
                chk.count('discarded_distorted_answer_outside_assumed_shape')
                continue
            chk.mismatch('cascade model = implementation (the implementation raised under mixture answers of the assumed shape)',
                         f"{res['exc']} at stage {res['stage']}: {res['exc_msg']}", replay)
            continue
        if res['exc']:
            chk.count('scene_raised_' + res['exc'])
            if crash_is_violation and res['exc'] != 'AmpycloudError':
                chk.spec_fail('C08.no-crash-on-valid-input', f"{res['exc']} at stage {res['stage']}: {res['exc_msg']}",
                              replay, signature=res.get('signature'))
            elif crash_is_violation:
                chk.spec_fail('C08.valid-input-refused', f"AmpycloudError at stage {res['stage']}: {res['exc_msg']}",
                              replay, signature=None)
            elif res.get('signature') == 'crop-empties-the-table':
                chk.count('scene_of_known_finding_F7_not_judged_here')
            else:
                # the model computes a result for every generated scene (they are accepted inputs with in-domain
                # parameters): an exception is a disagreement, whatever the property this check is about
                chk.mismatch('cascade model = implementation (the implementation raised on an accepted scene)',
                             f"{res['exc']} at stage {res['stage']}: {res['exc_msg']}", replay)
            continue
        if res.get('req') is None:
            chk.count('scene_outside_modelled_parameter_domain')
            continue
        a = scenes.parse_run_answer(answers[task])
        if a['near_tie']:
            chk.count('float_near_tie_scenes_not_compared')
            chk.notes.append(f"float-near-tie scene {task}: {a['near_tie'][:3]}")
        if a['bad']:
            if prop == 'C05':
                for sp in res.get('direct_c05') or []:
                    chk.spec_fail(sp.split(' ')[0], sp, replay, signature=None)
            chk.mismatch('what the implementation produced cannot be expressed as a model request (driver: bad-request)', answers[task][:200], replay)
            continue
        for ne in a['ne']:
            if any(key in ne.split(' ')[0] for key in rules['ne']):
                chk.mismatch('cascade model = implementation', ne[:300], replay)
        for sp in a['spec']:
            if rules['spec'] and sp.startswith(rules['spec']):
                chk.spec_fail(sp.split(' ')[0], sp, replay, signature=None)


def replay_scene(chk, obj, prop):
    case = obj.get('case') or (obj.get('broken_correspondence') or [{}])[0].get('case')
    g = case['gen']
    res = _work((g['seed'], g['k'], g['family']))
    rows, prms, _ = gen_scene(g['seed'], g['k'], g['family'])
    print(f"scene family={g['family']} k={g['k']} seed={g['seed']} rows={len(rows)} prms={prms}")
    if res.get('exc'):
        print('implementation raised', res['exc'], 'at stage', res['stage'], ':', res.get('exc_msg'))
        return 1
    ans = chk.driver.ask([res['req']])[0]
    print('messages:', res['msgs'])
    print('driver:', ans[:1500])
    a = scenes.parse_run_answer(ans)
    rules = OBSERVABLES[prop]
    bad = sum(1 for sp in a['spec'] if rules['spec'] and sp.startswith(rules['spec']))
    bad += sum(1 for ne in a['ne'] if any(key in ne.split(' ')[0] for key in rules['ne']))
    return 1 if bad else 0
