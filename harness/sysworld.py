"""The parameter world on the real code (C11, C12): histories of construct / edit / set_prms / reset_prms
operations executed on the real objects, observed as contents + alias classes after every operation, and
shipped to the Lean model (`SYS` request) which must reproduce every observation.
"""
from __future__ import annotations

import copy
import os
import random
import shutil
import tempfile
import warnings

from . import common, scenes


# --------------------------------------------------------------------------------------------
# serialisation
# --------------------------------------------------------------------------------------------
def leaf(v):
    if v is None:
        return 'none'
    if isinstance(v, bool):
        return 'b:T' if v else 'b:F'
    if isinstance(v, int):
        return f'i:{v}'
    if isinstance(v, float):
        n, d = v.as_integer_ratio()
        return f'n:{n}' if d == 1 else f'n:{n}/{d}'
    if isinstance(v, str):
        return 's:' + v.encode().hex()
    raise TypeError(f'not a leaf: {type(v)}')


def key(k):
    return 'k' + str(k).encode().hex()


def tree(v):
    if isinstance(v, dict):
        return f'D {len(v)}' + ''.join(f' {key(k)} {tree(x)}' for k, x in v.items())
    if isinstance(v, list):
        return f'A {len(v)}' + ''.join(' ' + leaf(x) for x in v)
    return 'L ' + leaf(v)


def node_ids(v, out):
    if isinstance(v, dict):
        out.append(id(v))
        for x in v.values():
            node_ids(x, out)
    elif isinstance(v, list):
        out.append(id(v))
    return out


def observe(out, roots):
    """roots: list of (tag, object)."""
    ids = [node_ids(obj, []) for _, obj in roots]
    order = []
    for l in ids:
        for i in l:
            if i not in order:
                order.append(i)
    parts = [out]
    for (tag, obj), l in zip(roots, ids):
        parts.append(f'{tag} {tree(obj)} # ' + ' '.join(str(order.index(i)) for i in l))
    return ' ; '.join(parts)


# --------------------------------------------------------------------------------------------
# the world
# --------------------------------------------------------------------------------------------
class World:
    def __init__(self):
        self.amp = common.import_ampycloud()
        from ampycloud import dynamic
        self.dynamic = dynamic
        self.amp.reset_prms()
        self.callers = []
        self.chunks = []
        self.tmp = tempfile.mkdtemp(prefix='ampyverif_yaml_')
        self.loaded = None
        self.keepalive = []          # objects the model allocated and dropped: keep them so ids are not reused
        rows = [('0', -30.0, 1000.0, 1), ('0', -15.0, 1010.0, 1), ('0', 0.0, float('nan'), 0)]
        self.df = scenes.make_frame(rows)

    def close(self):
        shutil.rmtree(self.tmp, ignore_errors=True)
        self.amp.reset_prms()

    def roots(self):
        return [('G', self.dynamic.AMPYCLOUD_PRMS)] + [('C', c) for c in self.callers] + [('S', c.prms) for c in self.chunks]

    def apply(self, op):
        """op: tuple. Returns the out token."""
        from ampycloud.errors import AmpycloudError, AmpycloudWarning
        from ampycloud.data import CeiloChunk
        self.keepalive.append(self.dynamic.AMPYCLOUD_PRMS)
        with warnings.catch_warnings(record=True) as wl:
            warnings.simplefilter('always')
            try:
                kind = op[0]
                if kind == 'construct':
                    prm = None if op[1] is None else self.callers[op[1]]
                    self.chunks.append(CeiloChunk(self.df, prms=prm))
                elif kind in ('setGlobal', 'setSnap', 'setCaller'):
                    if kind == 'setGlobal':
                        d, path, v = self.dynamic.AMPYCLOUD_PRMS, op[1], op[2]
                    elif kind == 'setSnap':
                        d, path, v = self.chunks[op[1]].prms, op[2], op[3]
                    else:
                        d, path, v = self.callers[op[1]], op[2], op[3]
                    for p in path[:-1]:
                        d = d[p]
                    if not isinstance(d, dict):
                        raise KeyError('not a dict')
                    self.keepalive.append(d.get(path[-1]))
                    d[path[-1]] = copy.deepcopy(v)
                elif kind == 'setPrms':
                    from . import yamlspell
                    f = os.path.join(self.tmp, f'p{len(self.keepalive)}.yml')
                    # hand-spelled YAML (exponent notation, bare words); the intended content under YAML 1.2 is
                    # op[1] itself (verified by yamlspell.write), in the key order of the file
                    yamlspell.write(f, op[1], random.Random(repr(op[1])))
                    self.loaded = copy.deepcopy(op[1])
                    self.amp.set_prms(f)
                elif kind == 'reset':
                    self.amp.reset_prms(op[1])
                elif kind == 'newCaller':
                    self.callers.append(copy.deepcopy(op[1]))
                out = 'ok'
            except AmpycloudError:
                out = 'AmpycloudError'
            except (KeyError, TypeError) as e:
                out = 'crash:KeyError' if kind.startswith('set') and kind != 'setPrms' else f'crash:{type(e).__name__}'
            except Exception as e:
                out = f'crash:{type(e).__name__}'
        ws = [str(w.message).split(': ', 1)[1] for w in wl
              if w.category is AmpycloudWarning and 'Key unknown' in str(w.message)]
        if out == 'ok' and ws:
            out = 'ok:' + ','.join('.'.join(key(p) for p in w.split('.')) for w in ws)
        return out


def op_tokens(op):
    kind = op[0]
    if kind == 'construct':
        return f"construct {'none' if op[1] is None else op[1]}"
    if kind == 'setGlobal':
        return f"setGlobal {'.'.join(key(p) for p in op[1])} {tree(op[2])}"
    if kind in ('setSnap', 'setCaller'):
        return f"{kind} {op[1]} {'.'.join(key(p) for p in op[2])} {tree(op[3])}"
    if kind == 'setPrms':
        return f'setPrms {tree(op[1])}'
    if kind == 'reset':
        if op[1] is None:
            return 'reset all'
        names = [op[1]] if isinstance(op[1], str) else op[1]
        return ('reset ' + ' '.join(key(n) for n in names)).strip()
    if kind == 'newCaller':
        return f'newCaller {tree(op[1])}'
    raise ValueError(kind)


# --------------------------------------------------------------------------------------------
# generation
# --------------------------------------------------------------------------------------------
def leaf_paths(d, pre=()):
    out = []
    for k, v in d.items():
        if isinstance(v, dict):
            out += leaf_paths(v, pre + (k,))
        else:
            out.append((pre + (k,), v))
    return out


def dict_paths(d, pre=()):
    out = []
    for k, v in d.items():
        if isinstance(v, dict):
            out.append(pre + (k,))
            out += dict_paths(v, pre + (k,))
    return out


def new_value(rng, old):
    if isinstance(old, bool):
        return not old
    if isinstance(old, int):
        return old + rng.choice([1, 2, 7])
    if isinstance(old, float):
        return old * rng.choice([0.5, 2.0]) + 0.25
    if isinstance(old, str):
        return old + '_x'
    if isinstance(old, list):
        return [x + 1 if isinstance(x, (int, float)) and not isinstance(x, bool) else x for x in old] + rng.choice([[], [99999]])
    if old is None:
        return rng.choice([5000, 2500.5])
    return 1


_WORDS = None


def source_words(defaults):
    """Identifier-like string constants harvested from the package's own source (a fuzzer's dictionary): candidate
    *unknown* parameter names that the code might treat specially (legacy names, aliases).  Known keys are removed."""
    global _WORDS
    if _WORDS is None:
        import ast
        import re
        known = set()

        def walk(d):
            for k, v in d.items():
                known.add(k)
                if isinstance(v, dict):
                    walk(v)
        walk(defaults)
        found = set()
        for f in sorted((common.REPO / 'src' / 'ampycloud').rglob('*.py')):
            try:
                t = ast.parse(f.read_text())
            except (SyntaxError, OSError):
                continue
            for node in ast.walk(t):
                if isinstance(node, ast.Constant) and isinstance(node.value, str) \
                        and re.fullmatch(r'[A-Za-z_][A-Za-z0-9_]{3,40}', node.value) and node.value not in known:
                    found.add(node.value)
        _WORDS = sorted(found)
    return _WORDS


def partial_dict(rng, defaults, unknown=True, mistyped=False):
    """A nested, partial per-call dictionary: a random subset of leaves at any depth, unknown keys included."""
    out = {}
    leaves = leaf_paths(defaults)
    for path, old in rng.sample(leaves, rng.randint(0, min(6, len(leaves)))):
        d = out
        for p in path[:-1]:
            d = d.setdefault(p, {})
        d[path[-1]] = new_value(rng, old)
    words = source_words(defaults)
    if unknown and rng.random() < 0.5:
        out[rng.choice(['NOT_A_KEY', 'msa', 'Lowess'] + words[:0] + ([rng.choice(words)] * 3 if words else []))] = \
            rng.choice([1, 'x', [1, 2]])
    if unknown and rng.random() < 0.4:
        dp = rng.choice(dict_paths(defaults))
        d = out
        for p in dp:
            d = d.setdefault(p, {})
        d[rng.choice(['unknown_nested'] + ([rng.choice(words)] * 2 if words else []))] = rng.choice([3, {'deep': 1}])
    if rng.random() < 0.25:
        out['EXCLUDE_FOR_BASE_HEIGHT_CALC'] = rng.sample(['NO', 'yes', 'on', 'A1', '0', 'Off', 'n'], rng.randint(0, 3))
    if rng.random() < 0.2:
        out['MSA'] = rng.choice([None, 3e3, 5e4, 2500])
        out.setdefault('SLICING_PRMS', {})['dt_scale'] = rng.choice([5e4, 1e5, 100000])
    if mistyped and rng.random() < 0.5:
        # a dict where the reference holds a leaf (AttributeError in the code), or a leaf where it holds a dict
        if rng.random() < 0.5:
            path, _ = rng.choice(leaves)
            d = out
            for p in path[:-1]:
                d = d.setdefault(p, {})
            d[path[-1]] = {'a': 1}
        else:
            out[rng.choice(dict_paths(defaults))[0]] = 7
    return out


def gen_history(rng, defaults, length, mistyped=False):
    ops = []
    n_callers = n_chunks = 0
    top = list(defaults.keys())
    for _ in range(length):
        r = rng.random()
        if r < 0.18 or n_callers == 0 and r < 0.3:
            ops.append(('newCaller', partial_dict(rng, defaults, mistyped=mistyped))); n_callers += 1
        elif r < 0.42:
            ops.append(('construct', rng.choice([None] + list(range(n_callers))))); n_chunks += 1
        elif r < 0.58:
            path, old = rng.choice(leaf_paths(defaults))
            ops.append(('setGlobal', list(path), new_value(rng, old)))
        elif r < 0.66 and n_chunks:
            path, old = rng.choice(leaf_paths(defaults))
            ops.append(('setSnap', rng.randrange(n_chunks), list(path), new_value(rng, old)))
        elif r < 0.72 and n_callers:
            path, old = rng.choice(leaf_paths(defaults))
            ops.append(('setCaller', rng.randrange(n_callers), list(path)[-1:], new_value(rng, old)))
        elif r < 0.8:
            ops.append(('setPrms', partial_dict(rng, defaults, mistyped=mistyped)))
        elif r < 0.9:
            k = rng.choice([1, 1, 2, 3, len(top), 0])        # 0: the empty list of names resets nothing
            names = rng.sample(top, min(k, len(top)))
            if names and rng.random() < 0.2:
                names.insert(rng.randrange(len(names) + 1), 'NOT_A_PRM')
            ops.append(('reset', names[0] if len(names) == 1 and rng.random() < 0.5 else names))
        elif r < 0.95:
            ops.append(('reset', None))
        else:
            dp = rng.choice(dict_paths(defaults))
            ops.append(('setGlobal', list(dp), rng.choice([5, {'replaced': 1}])))   # subtree replacement
    return ops


def run_history(ops):
    """Execute on the real objects; returns the SYS request and the per-op observations."""
    w = World()
    try:
        from ampycloud import dynamic
        defaults = common.packaged_defaults()
        secs = ['SYS', 'DEF ' + tree(defaults), f'N {len(ops)}']
        obs = []
        for k, op in enumerate(ops):
            out = w.apply(op)
            o = observe(out, w.roots())
            obs.append(o)
            if op[0] == 'setPrms':
                op = ('setPrms', w.loaded if w.loaded is not None else {})
            secs.append(f'OP{k} ' + op_tokens(op))
            secs.append(f'OBS{k} ' + o)
        return ' | '.join(secs), obs
    finally:
        w.close()
